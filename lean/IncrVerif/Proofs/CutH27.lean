import IncrVerif.Proofs.CutH26
import IncrVerif.Proofs.CutH25
/-!
# C06 for whole histories, part 8: THE GATING THEOREM for one `stabilise`

`stabilise_gate`: from the invariant between actions (`QInv env e s`, any cutoffs), a successful `stabilise` from `s`
to `s'` satisfies `Gated env e fuel s s'` (see the structure).  Corollaries: `Gated.never_lost`, `Gated.always_keeps`,
`Gated.always_parent`, `Gated.never_bumps`, `Gated.eq_iff`, `Gated.fn_verdict`, `Gated.dependOn_verdict`.
-/
namespace IncrVerif.Proofs.CutH
open IncrVerif.Engine IncrVerif.Driver IncrVerif.Proofs IncrVerif.Proofs.Step IncrVerif.Proofs.Sched
variable {e : Bool}

/-- one invocation `ρ` inside the `stabilise` from `s` to `s'`, seen from outside -/
structure Invoked (env : Env) (s s' : State) (ρ : Run) : Prop where
  /-- at the moment of the invocation the node is necessary and stale -/
  nec : ρ.pre.isNecessary ρ.node = true
  stale : ρ.pre.isStale ρ.node = true
  /-- until then the node had the value, stamps, cutoff it had before the `stabilise` … -/
  value : (ρ.pre.nodeD ρ.node).value = (s.nodeD ρ.node).value
  recomputedAt : (ρ.pre.nodeD ρ.node).recomputedAt = (s.nodeD ρ.node).recomputedAt
  changedAt : (ρ.pre.nodeD ρ.node).changedAt = (s.nodeD ρ.node).changedAt
  cutoff : ∀ m, (ρ.pre.nodeD m).cutoff = (s.nodeD m).cutoff
  kind : ∀ m, (ρ.pre.nodeD m).kind = (s.nodeD m).kind
  stabNum : ρ.pre.stabNum = s.stabNum
  vars : ρ.pre.vars = s.vars
  /-- … and its children already have the value and the `changedAt` stamp they have after the `stabilise` -/
  kids : ∀ c, c ∈ kids (s.nodeD ρ.node).kind →
    (ρ.pre.nodeD c).changedAt = (s'.nodeD c).changedAt ∧ (ρ.pre.nodeD c).value = (s'.nodeD c).value
  /-- the call: it computes the node's defining expression `v` on the current values of the children; it stamps
  `changedAt` iff `ch`, where `ch` is `mcvChanges` in the pre-state (the gate); see `StepRel` for the log -/
  step : ∃ v ch r, Target env ρ.pre ρ.node v ∧ StepRel env ρ.node v ch r ρ.pre ρ.post ∧
    (s'.nodeD ρ.node).value = some v ∧
    (s'.nodeD ρ.node).changedAt = (if ch = true then s.stabNum else (s.nodeD ρ.node).changedAt)

/-- **the gating theorem**, conclusions for one `stabilise` from `s` to `s'` -/
structure Gated (env : Env) (e : Bool) (fuel : Nat) (s s' : State) : Prop where
  /-- the state in which the drain starts, and the list of invocations of node functions -/
  runs : ∃ t, ∃ L : List Run, L = drainRuns env fuel t ∧ (L.map (·.node)).Nodup ∧
    (∀ m, (∃ ρ, ρ ∈ L ∧ ρ.node = m) ↔ (s'.nodeD m).recomputedAt = s.stabNum) ∧
    (∀ ρ, ρ ∈ L → Invoked env s s' ρ)
  /-- **who runs**: exactly the nodes that are necessary after the observer phases and never ran, or whose variable
  was set since, or one of whose children has (at the moment of the invocation = after the `stabilise`) a `changedAt`
  newer than the node's previous `recomputedAt` -/
  ran_iff : ∀ m, (s'.nodeD m).recomputedAt = s.stabNum ↔ (s'.isNecessary m = true ∧ staleMix s s' m = true)
  /-- a node that did not run keeps value and stamps -/
  notRan : ∀ m, (s'.nodeD m).recomputedAt ≠ s.stabNum → Untouched s s' m
  /-- stamps of `s` are from earlier rounds -/
  old : ∀ m, (s.nodeD m).recomputedAt < s.stabNum ∧ (s.nodeD m).changedAt < s.stabNum
  kind : ∀ m, (s'.nodeD m).kind = (s.nodeD m).kind
  cutoff : ∀ m, (s'.nodeD m).cutoff = (s.nodeD m).cutoff
  vars : s'.vars = s.vars
  stabNum : s'.stabNum = s.stabNum + 1

theorem sameData_staleMix {s t t3 s' : State} (h1 : SameData s t) (h2 : SameData t3 s') (hv : t.vars = s.vars)
    (m : Nat) : staleMix s s' m = staleMix t t3 m := by
  unfold staleMix
  rw [(h1 m).1, (h1 m).2.2.2.1, hv]
  cases (s.nodeD m).kind <;> try rfl
  all_goals
    simp only
    congr 1
    apply any_congr'
    intro a _
    rw [(h2 a).2.2.2.2]

/-- **THE GATING THEOREM.** -/
theorem stabilise_gate {env : Env} {fuel : Nat} {s s' : State} (Q : QInv env e s)
    (h : (stabilise env fuel).run.run s = (.ok (), s')) : Gated env e fuel s s' := by
  have R := stabilise_q Q h
  obtain ⟨t, t3, D, hd, d1, d2, hvars, hstab, hnec⟩ := R.gate
  obtain ⟨dR, dU⟩ := drain_gate fuel t t3 D hd
  obtain ⟨hnodup, honce⟩ := drain_once fuel t t3 D hd
  obtain ⟨D3, he3, f⟩ := drainHeap_inv fuel t t3 D hd
  have hold : ∀ m, (s.nodeD m).recomputedAt < s.stabNum ∧ (s.nodeD m).changedAt < s.stabNum := Q.stamps
  -- membership in the trace ⟺ stamped in this round
  have hmem : ∀ m, m ∈ drainTrace env fuel t ↔ (s'.nodeD m).recomputedAt = s.stabNum := by
    intro m
    constructor
    · intro hm
      rw [(d2 m).2.2.2.1, (honce m hm).2.2, hstab]
    · intro hm
      refine Classical.byContradiction fun hnot => ?_
      have := (dU m hnot).2.1
      rw [(d2 m).2.2.2.1, this, (d1 m).2.2.2.1] at hm
      have := (hold m).1
      omega
  refine ⟨⟨t, drainRuns env fuel t, rfl, by rw [drainRuns_nodes]; exact hnodup, ?_, ?_⟩, ?_, ?_, hold,
    fun m => by rw [(d2 m).1, (f.shape m).kind, (d1 m).1], fun m => by rw [(d2 m).2.1, (f.shape m).cutoff, (d1 m).2.1], R.vars, R.stabNum⟩
  · intro m; rw [← mem_trace_iff]; exact hmem m
  · intro ρ hρ
    have K := dR ρ hρ
    obtain ⟨v, ch, r, ht, SR⟩ := K.step
    have sh := K.fromStart.shape
    refine ⟨K.stale.1, K.stale.2, ?_, ?_, ?_, fun m => ?_, fun m => ?_, ?_, ?_, fun c hc => ?_, v, ch, r, ht, SR, ?_, ?_⟩
    · rw [K.before.1, (d1 _).2.2.1]
    · rw [K.before.2.1, (d1 _).2.2.2.1]
    · rw [K.before.2.2, (d1 _).2.2.2.2]
    · rw [(sh m).cutoff, (d1 m).2.1]
    · rw [(sh m).kind, (d1 m).1]
    · rw [K.fromStart.stabNum, hstab]
    · rw [K.fromStart.vars, hvars]
    · have hc' : c ∈ kids (ρ.pre.nodeD ρ.node).kind := by rw [(sh _).kind, (d1 _).1]; exact hc
      have hu := K.kidsAfter c hc'
      exact ⟨by rw [(d2 c).2.2.2.2, hu.2.2], by rw [(d2 c).2.2.1, hu.1]⟩
    · rw [(d2 _).2.2.1, K.after.1, SR.value]
    · rw [(d2 _).2.2.2.2, K.after.2.2, SR.changedAt, K.fromStart.stabNum, hstab, K.before.2.2, (d1 _).2.2.2.2]
  · intro m
    rw [← hmem m, ran_iff D hd m, hnec m, sameData_staleMix d1 d2 hvars]
  · intro m hm
    have hnot : m ∉ drainTrace env fuel t := fun hc => hm ((hmem m).1 hc)
    have hu := dU m hnot
    exact ⟨by rw [(d2 m).2.2.1, hu.1, (d1 m).2.2.1], by rw [(d2 m).2.2.2.1, hu.2.1, (d1 m).2.2.2.1],
      by rw [(d2 m).2.2.2.2, hu.2.2, (d1 m).2.2.2.2]⟩

/-! ## closed form of the gate -/

/-- the gate in closed form: the first result always counts as a change; otherwise `.never ↦ change`,
`.always ↦ no change`, `.eq ↦ change iff unequal`, a user predicate `c` is asked `env.cutoff c old new` with
(old, new) in that order, `dependOn i ↦ change iff the input's changedAt differs from the node's` (pre-state) -/
theorem mcvChanges_closed (env : Env) (p : State) (n : Nat) (new : Val) :
    mcvChanges env p n new =
      match (p.nodeD n).value with
      | none => some true
      | some old =>
        match (p.nodeD n).cutoff with
        | .never => some true
        | .always => some false
        | .eq => some (!(old == new))
        | .fn c => some (!(env.cutoff c old new))
        | .boxed c => some (!(env.cutoff c old new))
        | .dependOn i => (p.nodes[i]?).map fun ni => !(ni.changedAt == (p.nodeD n).changedAt) := by
  unfold mcvChanges cutoffVerdict
  cases (p.nodeD n).value with
  | none => rfl
  | some old =>
    cases (p.nodeD n).cutoff <;> simp only [Option.map_some, Bool.not_true, Bool.not_false, Option.map_map] <;> rfl

/-- the `cut` event a run logs, in closed form: only for `.fn c` / `.boxed c` on a node that had a value; the
predicate's arguments are (old, new) in that order -/
theorem mcvLog_closed (env : Env) (p : State) (n : Nat) (new : Val) :
    mcvLog env p n new =
      match (p.nodeD n).value with
      | none => []
      | some old =>
        match (p.nodeD n).cutoff with
        | .fn c => [.cut c n old new (env.cutoff c old new)]
        | .boxed c => [.cut c n old new (env.cutoff c old new)]
        | _ => [] := by
  unfold mcvLog cutoffLog
  cases (p.nodeD n).value with
  | none => rfl
  | some old => cases (p.nodeD n).cutoff <;> rfl

namespace Gated
variable {env : Env} {fuel : Nat} {s s' : State}

/-- the invocation of a node that ran -/
theorem run_of_ran (G : Gated env e fuel s s') {m : Nat} (hm : (s'.nodeD m).recomputedAt = s.stabNum) :
    ∃ ρ, ρ.node = m ∧ Invoked env s s' ρ := by
  obtain ⟨t, L, -, -, h1, h2⟩ := G.runs
  obtain ⟨ρ, hρ, e⟩ := (h1 m).2 hm
  exact ⟨ρ, e, h2 ρ hρ⟩

/-- **`changedAt` is set to this round iff the node ran and its result was not suppressed.** -/
theorem bump_iff (G : Gated env e fuel s s') (m : Nat) :
    (s'.nodeD m).changedAt = s.stabNum ↔
      ∃ ρ, ρ.node = m ∧ Invoked env s s' ρ ∧ (s'.nodeD m).recomputedAt = s.stabNum ∧
        ∃ v, (s'.nodeD m).value = some v ∧ mcvChanges env ρ.pre m v = some true := by
  constructor
  · intro hc
    have hran : (s'.nodeD m).recomputedAt = s.stabNum := by
      refine Classical.byContradiction fun hn => ?_
      have := (G.notRan m hn).2.2
      have := (G.old m).2
      omega
    obtain ⟨ρ, rfl, I⟩ := G.run_of_ran hran
    obtain ⟨v, ch, r, -, SR, hv, hch⟩ := I.step
    refine ⟨ρ, rfl, I, hran, v, hv, ?_⟩
    cases ch with
    | true => exact SR.verdict
    | false =>
      exfalso
      rw [hc] at hch
      simp only [Bool.false_eq_true, if_false] at hch
      have := (G.old ρ.node).2
      omega
  · rintro ⟨ρ, rfl, I, -, v, hv, hm⟩
    obtain ⟨v', ch, r, -, SR, hv', hch⟩ := I.step
    rw [hv] at hv'
    cases hv'
    have := SR.verdict
    rw [hm] at this
    cases this
    simpa using hch

/-- **the relational statement that replaces `cons`.** A node that ran in this `stabilise` carries, after it, its
defining expression applied to the values its children have AFTER the `stabilise` (whatever the cutoffs are); a node
that did not run keeps its value (`notRan`), and if it is necessary no child has a newer `changedAt` (`Stabilised.settled`). -/
theorem ran_consistent (G : Gated env e fuel s s') {m : Nat} (hm : (s'.nodeD m).recomputedAt = s.stabNum) :
    Consistent env s' m := by
  obtain ⟨ρ, rfl, I⟩ := G.run_of_ran hm
  obtain ⟨v, ch, r, ht, -, hv, -⟩ := I.step
  refine ⟨v, ?_, hv⟩
  refine Target.congr (by rw [G.kind, I.kind]) (by rw [G.vars, I.vars]) (fun c hc => ?_) ht
  rw [I.kind] at hc
  exact ((I.kids c hc).2).symm

/-- **(a) changes are never lost.** If the new result of `c` was not suppressed (its `changedAt` is this round), every
NECESSARY node `p` that has `c` among its children is invoked in the same `stabilise`. -/
theorem never_lost (G : Gated env e fuel s s') {c p : Nat} (hc : (s'.nodeD c).changedAt = s.stabNum)
    (hp : s'.isNecessary p = true) (hk : c ∈ kids (s.nodeD p).kind) :
    (s'.nodeD p).recomputedAt = s.stabNum := by
  rw [G.ran_iff]
  refine ⟨hp, ?_⟩
  unfold staleMix
  have hany : ((kids (s.nodeD p).kind).any fun c =>
      decide ((s'.nodeD c).changedAt > (s.nodeD p).recomputedAt)) = true := by
    rw [List.any_eq_true]
    refine ⟨c, hk, ?_⟩
    have := (G.old p).1
    simp only [gt_iff_lt, decide_eq_true_eq]
    omega
  cases hkd : (s.nodeD p).kind <;> rw [hkd] at hk hany <;>
    first
    | (simp only [kids] at hk; cases hk; done)
    | (simp only [hany, Bool.or_true])

/-- **(b) `Cutoff::Always`.** A node with cutoff `.always` that already has a value does not bump `changedAt`,
whether it runs or not. -/
theorem always_keeps (G : Gated env e fuel s s') {m : Nat} (hc : (s.nodeD m).cutoff = .always)
    (hv : (s.nodeD m).value ≠ none) : (s'.nodeD m).changedAt = (s.nodeD m).changedAt := by
  by_cases hran : (s'.nodeD m).recomputedAt = s.stabNum
  · obtain ⟨ρ, rfl, I⟩ := G.run_of_ran hran
    obtain ⟨v, ch, r, -, SR, -, hch⟩ := I.step
    have hver := SR.verdict
    rw [mcvChanges_closed, I.value, I.cutoff, hc] at hver
    cases hold : (s.nodeD ρ.node).value with
    | none => exact absurd hold hv
    | some old =>
      rw [hold] at hver
      simp only at hver
      cases hver
      simpa using hch
  · exact (G.notRan m hran).2.2

/-- **(b) … its parents are never re-invoked because of it.** If `p` runs although it had run before and was not
stale with respect to `m` before the `stabilise`, some OTHER child of `p` has a newer `changedAt`. -/
theorem always_parent (G : Gated env e fuel s s') {m p : Nat} (hc : (s.nodeD m).cutoff = .always)
    (hv : (s.nodeD m).value ≠ none) (hran : (s'.nodeD p).recomputedAt = s.stabNum)
    (hk : m ∈ kids (s.nodeD p).kind)
    (hnever : (s.nodeD p).recomputedAt ≠ -1) (hbefore : (s.nodeD m).changedAt ≤ (s.nodeD p).recomputedAt) :
    ∃ c, c ∈ kids (s.nodeD p).kind ∧ c ≠ m ∧ (s'.nodeD c).changedAt > (s.nodeD p).recomputedAt := by
  have hst := ((G.ran_iff p).1 hran).2
  have hm := G.always_keeps hc hv
  have key : ((kids (s.nodeD p).kind).any fun c =>
      decide ((s'.nodeD c).changedAt > (s.nodeD p).recomputedAt)) = true := by
    unfold staleMix at hst
    have hne : ((s.nodeD p).recomputedAt == -1) = false := by simpa using hnever
    cases hkd : (s.nodeD p).kind <;> rw [hkd] at hst hk <;>
      first
      | (simp only [kids] at hk; cases hk; done)
      | (simp only [hne, Bool.false_or] at hst; exact hst)
  rw [List.any_eq_true] at key
  obtain ⟨c, hck, hgt⟩ := key
  refine ⟨c, hck, ?_, by simpa using hgt⟩
  intro ecm
  rw [ecm, hm] at hgt
  simp only [gt_iff_lt, decide_eq_true_eq] at hgt
  omega

/-- **(c) `Cutoff::Never`.** Every run of a node with cutoff `.never` bumps `changedAt` (hence, by `never_lost`,
every necessary parent runs in the same `stabilise`). -/
theorem never_bumps (G : Gated env e fuel s s') {m : Nat} (hc : (s.nodeD m).cutoff = .never)
    (hran : (s'.nodeD m).recomputedAt = s.stabNum) : (s'.nodeD m).changedAt = s.stabNum := by
  obtain ⟨ρ, rfl, I⟩ := G.run_of_ran hran
  obtain ⟨v, ch, r, -, SR, -, hch⟩ := I.step
  have hver := SR.verdict
  rw [mcvChanges_closed, I.cutoff, hc] at hver
  have : ch = true := by
    cases hold : (ρ.pre.nodeD ρ.node).value <;> rw [hold] at hver <;> simp only at hver <;> cases hver <;> rfl
  rw [this] at hch
  simpa using hch

/-- **(d) the default cutoff.** A node with cutoff `.eq` that ran: `changedAt` is bumped iff it had no value or the
new value differs from the old one.  (A run producing an equal value bumps nothing; by `ran_iff` no parent runs
because of it.) -/
theorem eq_iff (G : Gated env e fuel s s') {m : Nat} (hc : (s.nodeD m).cutoff = .eq)
    (hran : (s'.nodeD m).recomputedAt = s.stabNum) :
    ((s'.nodeD m).changedAt = s.stabNum ↔ ((s.nodeD m).value = none ∨ (s'.nodeD m).value ≠ (s.nodeD m).value)) ∧
    ((s'.nodeD m).changedAt ≠ s.stabNum → (s'.nodeD m).changedAt = (s.nodeD m).changedAt) := by
  obtain ⟨ρ, rfl, I⟩ := G.run_of_ran hran
  obtain ⟨v, ch, r, -, SR, hv, hch⟩ := I.step
  have hver := SR.verdict
  rw [mcvChanges_closed, I.value, I.cutoff, hc] at hver
  have hlt := (G.old ρ.node).2
  cases hold : (s.nodeD ρ.node).value with
  | none =>
    rw [hold] at hver
    simp only at hver
    cases hver
    simp only [if_true] at hch
    exact ⟨⟨fun _ => Or.inl rfl, fun _ => hch⟩, fun h => absurd hch h⟩
  | some old =>
    rw [hold] at hver
    simp only at hver
    cases hver
    by_cases heq : old = v
    · subst heq
      simp only [beq_self_eq_true, Bool.not_true, Bool.false_eq_true, if_false] at hch
      refine ⟨⟨fun h => ?_, fun h => ?_⟩, fun _ => hch⟩
      · rw [hch] at h; omega
      · rcases h with h | h
        · cases h
        · exact absurd hv h
    · have hb : (!(old == v)) = true := by simp [heq]
      rw [hb] at hch
      simp only [if_true] at hch
      refine ⟨⟨fun _ => Or.inr ?_, fun _ => hch⟩, fun h => absurd hch h⟩
      rw [hv]
      intro h; cases h; exact heq rfl

/-- **function cutoffs** (`Cutoff::Fn c`, `Cutoff::FnBoxed c`).  A node with such a cutoff that ran and had a value
`old`: the predicate is consulted ONCE with `(old, new)` in that order; the node's `changedAt` is bumped iff the
answer is `false`; the call is logged as the `cut` event at the head of the log of the invocation, just after the
events of the node's own function. -/
theorem fn_verdict (G : Gated env e fuel s s') {m c : Nat} {old : Val}
    (hc : (s.nodeD m).cutoff = .fn c ∨ (s.nodeD m).cutoff = .boxed c)
    (hold : (s.nodeD m).value = some old) (hran : (s'.nodeD m).recomputedAt = s.stabNum) :
    ∃ ρ new, ρ.node = m ∧ Invoked env s s' ρ ∧ (s'.nodeD m).value = some new ∧
      (s'.nodeD m).changedAt = (if env.cutoff c old new = true then (s.nodeD m).changedAt else s.stabNum) ∧
      ∃ evs, ρ.post.log = Event.cut c m old new (env.cutoff c old new) :: (evs ++ ρ.pre.log) ∧
        ∀ ev, ev ∈ evs → IsInvOf m ev := by
  obtain ⟨ρ, rfl, I⟩ := G.run_of_ran hran
  obtain ⟨v, ch, r, -, SR, hv, hch⟩ := I.step
  have hver := SR.verdict
  obtain ⟨evs, hlog, hevs⟩ := SR.log
  rw [mcvChanges_closed, I.value, I.cutoff, hold] at hver
  rw [mcvLog_closed, I.value, I.cutoff, hold] at hlog
  refine ⟨ρ, v, rfl, I, hv, ?_, evs, ?_, hevs⟩
  · rcases hc with hc | hc <;> rw [hc] at hver <;> simp only at hver <;> cases hver <;>
      cases hb : env.cutoff c old v <;> rw [hb] at hch <;> simpa using hch
  · rcases hc with hc | hc <;> rw [hc] at hlog <;> exact hlog

/-- **`depend_on`** (`preserve_cutoff`): a node with cutoff `.dependOn i`, `i` one of its children, that ran and had a
value: `changedAt` is bumped iff the input's `changedAt` (after the `stabilise` = at the moment of the invocation)
differs from the node's previous `changedAt`. -/
theorem dependOn_verdict (G : Gated env e fuel s s') {m i : Nat} {old : Val}
    (hc : (s.nodeD m).cutoff = .dependOn i) (hi : i ∈ kids (s.nodeD m).kind)
    (hold : (s.nodeD m).value = some old) (hran : (s'.nodeD m).recomputedAt = s.stabNum) :
    (s'.nodeD m).changedAt =
      (if (s'.nodeD i).changedAt = (s.nodeD m).changedAt then (s.nodeD m).changedAt else s.stabNum) := by
  obtain ⟨ρ, rfl, I⟩ := G.run_of_ran hran
  obtain ⟨v, ch, r, -, SR, hv, hch⟩ := I.step
  have hver := SR.verdict
  rw [mcvChanges_closed, I.value, I.cutoff, hold, hc] at hver
  simp only at hver
  rw [getElem?_eq_nodeD] at hver
  split at hver
  · simp only [Option.map_some, Option.some.injEq] at hver
    rw [(I.kids i hi).1, I.changedAt] at hver
    rw [← hver] at hch
    by_cases heq : (s'.nodeD i).changedAt = (s.nodeD ρ.node).changedAt
    · simp only [heq, beq_self_eq_true, Bool.not_true, Bool.false_eq_true, if_false, if_true] at hch ⊢
      exact hch
    · have : ((s'.nodeD i).changedAt == (s.nodeD ρ.node).changedAt) = false := by simpa using heq
      simp only [this, Bool.not_false, if_true, heq, if_false] at hch ⊢
      exact hch
  · cases hver

end Gated

end IncrVerif.Proofs.CutH
