import IncrVerif.Proofs.Quiet28
/-!
# C12 over histories, part 1: `stabiliseEnd` with dead variables

`stabiliseEnd_fin` (`Proofs/Quiet15.lean`) assumes `deadVars = []`.  Here: what `stabiliseEnd` does to the
fields the ownership roots read (`vars`, `rch`, `observers`, `handles`, `slots`) when `deadVars` is arbitrary:
every listed cell gets `linked := false` (`break_rc_cycle`), the rest is untouched.
-/
namespace IncrVerif.Proofs.LeakH
open IncrVerif.Engine IncrVerif.Driver IncrVerif.Proofs IncrVerif.Proofs.Step IncrVerif.Proofs.Sched
open IncrVerif.Proofs.Quiet

/-- `break_rc_cycle` on the listed cells -/
def killVars (dead : List Nat) (vars : Array VarCell) : Array VarCell :=
  dead.foldl (fun a v => a.modify v fun c => { c with linked := false }) vars

/-- a loop whose body is a state update -/
theorem forIn_fold {β} (g : Nat → State → State) (f : Nat → β → M (ForInStep β))
    (hf : ∀ v b s, ∃ b', (f v b).run.run s = (.ok (.yield b'), g v s)) :
    ∀ (l : List Nat) (b : β) (s : State) (r : β) (s' : State),
      (forIn l b f).run.run s = (.ok r, s') → s' = l.foldl (fun t v => g v t) s := by
  intro l
  induction l with
  | nil => intro b s r s' h; rw [List.forIn_nil, run_pure] at h; cases h; rfl
  | cons a l ih =>
    intro b s r s' h
    rw [List.forIn_cons] at h
    obtain ⟨x, s1, hx, hrest⟩ := bind_ok_inv h
    obtain ⟨b', hb'⟩ := hf a b s
    rw [hb'] at hx
    cases hx
    exact ih b' _ r s' hrest

theorem foldl_vars (dead : List Nat) (s : State) :
    (dead.foldl (fun t v => { t with vars := t.vars.modify v fun c => { c with linked := false } }) s)
      = { s with vars := killVars dead s.vars } := by
  induction dead generalizing s with
  | nil => rfl
  | cons a l ih => rw [List.foldl_cons, ih]; rfl

/-- the fields the ownership roots read -/
structure RootKey (s s' : State) : Prop where
  vars : s'.vars = s.vars
  rch : s'.rch = s.rch
  observers : s'.observers = s.observers
  handles : s'.handles = s.handles
  slots : s'.slots = s.slots

theorem RootKey.refl (s : State) : RootKey s s := ⟨rfl, rfl, rfl, rfl, rfl⟩
theorem RootKey.trans {a b c : State} (h1 : RootKey a b) (h2 : RootKey b c) : RootKey a c :=
  ⟨h2.vars.trans h1.vars, h2.rch.trans h1.rch, h2.observers.trans h1.observers,
    h2.handles.trans h1.handles, h2.slots.trans h1.slots⟩

/-- what `stabiliseEnd` leaves of the root fields -/
structure EndL (s s' : State) : Prop where
  vars : s'.vars = killVars s.deadVars s.vars
  rch : s'.rch = s.rch
  observers : s'.observers = s.observers
  handles : s'.handles = s.handles
  slots : s'.slots = s.slots

theorem stabiliseEnd_dead {env : Env} {fuel : Nat} {s s' : State} (h1 : s.setDuringStab = [])
    (hobs : ∀ (o : Nat) (ob : ObsRec), s.observers[o]? = some ob → ob.handlers = [])
    (h : (stabiliseEnd env fuel).run.run s = (.ok (), s')) : EndL s s' := by
  unfold stabiliseEnd at h
  obtain ⟨s1, e1, h⟩ := bind_modify_inv h
  rw [run_bind_get] at h
  try dsimp only at h
  obtain ⟨s2, e2, h⟩ := bind_modify_inv h
  have h1' : s1.setDuringStab = [] := by rw [e1]; exact h1
  rw [h1', List.forIn_nil] at h
  obtain ⟨_, s3, hp, h⟩ := bind_ok_inv h
  obtain ⟨_, e3⟩ := pure_ok_inv hp
  rw [e3] at h
  rw [run_bind_get] at h
  try dsimp only at h
  obtain ⟨s4, e4, h⟩ := bind_modify_inv h
  -- loop 2: the dead variables
  obtain ⟨_, s5, hl2, h⟩ := bind_ok_inv h
  have e5 := forIn_fold
    (fun v t => { t with vars := t.vars.modify v fun c => { c with linked := false } }) _
    (fun v b t => ⟨PUnit.unit, rfl⟩) _ _ _ _ _ hl2
  rw [foldl_vars] at e5
  rw [run_bind_get] at h
  try dsimp only at h
  obtain ⟨s6, e6, h⟩ := bind_modify_inv h
  have K6 : RootKey s5 s6 := by rw [e6]; exact ⟨rfl, rfl, rfl, rfl, rfl⟩
  have hobs5 : s5.observers = s.observers := by rw [e5, e4, e2, e1]
  -- loop 3: only `inHandleAfterStab` flags change
  obtain ⟨q, s7, hl3, h⟩ := bind_ok_inv h
  have K7 : RootKey s5 s7 := by
    refine forIn_ok_keepB (RootKey s5) _ _ ?_ _ _ _ _ K6 hl3
    intro n _ b t r t' Kt hb
    obtain ⟨t1, et1, hb⟩ := bind_modNode_inv hb
    rw [run_bind_get] at hb
    obtain ⟨_, et'⟩ := pure_ok_inv hb
    rw [et', et1]
    exact ⟨Kt.vars, Kt.rch, Kt.observers, Kt.handles, Kt.slots⟩
  obtain ⟨s8, e8, h⟩ := bind_modify_inv h
  rw [run_bind_get] at h
  -- loop 4: no handler runs
  obtain ⟨_, s9, hl4, h⟩ := bind_ok_inv h
  have e9 : s9 = s8 := by
    refine forIn_ok_keepB (fun t => t = s8) _ _ ?_ _ _ _ _ rfl hl4
    intro x _ b t r t' et hb
    obtain ⟨nd, _, hb⟩ := bind_getNode_inv hb
    obtain ⟨_, t1, hb1, hb⟩ := bind_ok_inv hb
    obtain ⟨_, et'⟩ := pure_ok_inv hb
    rw [et']
    refine forIn_ok_keepB (fun t => t = s8) _ _ ?_ _ _ _ _ et hb1
    intro o _ b2 u r2 u' eu hr
    obtain ⟨_, u1, hr1, hr⟩ := bind_ok_inv hr
    obtain ⟨_, eu'⟩ := pure_ok_inv hr
    rw [eu']
    have hobs' : ∀ (o : Nat) (ob : ObsRec), u.observers[o]? = some ob → ob.handlers = [] := by
      intro o ob ho
      rw [eu, e8] at ho
      exact hobs o ob (by rw [← hobs5, ← K7.observers]; exact ho)
    rw [runAll_nohandlers hobs' hr1]; exact eu
  obtain ⟨s10, e10, h⟩ := bind_modify_inv h
  rw [run_modify] at h
  obtain ⟨_, e11⟩ := Prod.mk.inj h
  rw [← e11, e10, e9, e8]
  refine ⟨?_, ?_, ?_, ?_, ?_⟩
  · show s7.vars = _
    rw [K7.vars, e5, e4, e2, e1]
  · show s7.rch = _
    rw [K7.rch, e5, e4, e2, e1]
  · show s7.observers = _
    rw [K7.observers, hobs5]
  · show s7.handles = _
    rw [K7.handles, e5, e4, e2, e1]
  · show s7.slots = _
    rw [K7.slots, e5, e4, e2, e1]

end IncrVerif.Proofs.LeakH
