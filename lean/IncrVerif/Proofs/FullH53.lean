import IncrVerif.Proofs.FullH52
import IncrVerif.Proofs.FullH44
import IncrVerif.Proofs.FullH35
import IncrVerif.Proofs.FullH36
/-!
# C01 full fragment: the kit of special steps from the helpers' theorems
-/
namespace IncrVerif.Proofs.FullH
open IncrVerif.Engine IncrVerif.Driver IncrVerif.Proofs IncrVerif.Proofs.Step IncrVerif.Proofs.Sched IncrVerif.Proofs.Quiet

section
variable {env : Env} {sp : Nat → Val → Val}

theorem topLt_of_dinvF {t s : State} {g : Nat → Option Val} {x : Option Nat} (D : DInvF env sp t s g x) : TopLt s := by
  obtain ⟨⟨rk, A⟩, -, -⟩ := D.aux
  intro k r h
  have := (A.topOK k r h).1
  rw [virt_size] at this
  exact this

/-- the simulation of a run of a change detector, from the global template hypothesis -/
theorem lcSim_of (E : EnvS env sp) : LcSimSpec env sp := by
  intro t s g fuel n b r s' D hk h
  obtain ⟨-, hnlt, hnv, -, -⟩ := D.inv.cur_facts
  rw [virt_size] at hnlt
  rw [virt_nodeD, virtNode_valid] at hnv
  exact recomputeOne_simX_lhs D.frag hnlt hnv hk (fun a ha => (kids_settled D a ha).1) (topLt_of_dinvF D)
    (fun br _ v => ST.templS_of_envS E br.body v) h

theorem mwo_of (env : Env) (sp : Nat → Val → Val) : MwoStepSpec env sp := by
  intro t s g fuel n m i r s' D hk h
  exact step_mwo D hk h

theorem vd_of (hF : FirstFn env) : VdStepSpec env sp := by
  intro t s g fuel n r s' D hk1 hk2 hk3 hc h
  exact step_verdict hF D hk1 hk2 hk3 hc h

theorem kit_of (E : EnvS env sp) (hF : FirstFn env) (LK : LcKSpec env sp) : Kit env sp := ⟨lcSim_of E, LK, mwo_of env sp, vd_of hF⟩

end
end IncrVerif.Proofs.FullH
