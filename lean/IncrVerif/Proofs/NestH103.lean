import IncrVerif.Proofs.NestH76
import IncrVerif.Proofs.NestH52
import IncrVerif.Proofs.NestH78
import IncrVerif.Proofs.NestH81
import IncrVerif.Proofs.Quiet23
/-!
# Total correctness for nested binds (F2), part h: the two observer loops at the start of `stabilise` return

Port of `Quiet23` (`add_created_obs`, `add_tail_run`, `addNewObservers_total`, `unlinkDisallowedObservers_total`) from the static fragment
(`SInv`, `HBo`, `becameNecessary_total`, `checkIfUnnecessary_total`) to graphs with nested binds (`SInv2 env rk`, `HBo2 rk`,
`becameNecessary_total2'`, `checkIfUnnecessary_full2_size`).  Observers watch top-level nodes that are not change detectors
(`SInv2.obsTop`): `hmain` of `becameNecessary_total2'` is vacuous, `hF` comes from `SInv2.noForce`, `hlc` from the kind of the observed node —
exactly as in `N4p.struct_add2`.  No node is created: the ghost rank `rk` and the node count stay the same.

What can panic in the two loops and why it does not:
* `getObs`: the pending observers exist (`ObsInv.newIn`, `ObsInv.disIn`);
* `"add_new_observers:observer-in-use-or-disallowed"`: a pending new observer is `created` or `unlinked` (hypothesis `hst`, from `TInv2.newState`);
  it stays so while OTHER observers are added (`pending_step`, needs `hnd`: no duplicates, from `TInv2.newNodup`);
* `modNode`, `handleAfterStabilisation`: the observed node exists (`ObsInv.inRange`);
* the `dassert` "the node is necessary": it has an observer now;
* the linking cascade: `becameNecessary_total2'`; `propagateInvalidity`: the list is empty;
* the `dassert` "the observer is disallowed": `ObsInv.dis`; the unlinking cascade: `checkIfUnnecessary_full2_size`.
-/
namespace IncrVerif.Proofs.NestH
open IncrVerif.Engine IncrVerif.Driver IncrVerif.Proofs IncrVerif.Proofs.Step IncrVerif.Proofs.Sched IncrVerif.Proofs.Quiet
open IncrVerif.Proofs.Quiet.P12
open IncrVerif.Proofs.BindH

namespace T2h
open IncrVerif.Proofs.Quiet.P23

/-- the height bound through a change of the observer list of `n` -/
theorem hbo2_upd {rk : Nat → Nat} {n : Nat} {l : List Nat} {t t' : State} {op op' : Nat → Op} (hb : HBo2 rk t op)
    (U : NodeUpd n (fObservers l) t t')
    (hoth : ∀ m, m ≠ n → op' m = .closed → op m = .closed)
    (hself : t'.isNecessary n = true → op' n = .closed → t.isNecessary n = true ∧ op n = .closed) :
    HBo2 rk t' op' := by
  intro m hm hc
  rw [U.size]
  by_cases e : m = n
  · rw [e] at hm hc ⊢
    obtain ⟨h1, h2⟩ := hself hm hc
    rw [U.height_self]; exact hb n h1 h2
  · rw [U.nec_other e] at hm
    rw [U.height_other e]; exact hb m hm (hoth m e hc)

/-- the observer records after one `created` iteration of `add_new_observers` (companion of `N4p.add_created2`) -/
theorem add_created_obs2 {env : Env} {rk : Nat → Nat} {fuel o : Nat} {rest pd : List Nat} {t t4 t' : State} {ob : ObsRec}
    {was : Bool} {r : ForInStep PUnit}
    (I : SInv2 env rk t (o :: rest) pd) (hob : t.observers[o]? = some ob)
    (hwas : was = t.isNecessary ob.node)
    (h4 : (handleAfterStabilisation ob.node).run.run (obsAdded o ob.node ((0 : Nat) : Int) t) = (.ok (), t4))
    (h : (if (!was) = true then do
            becameNecessaryPropagate env fuel ob.node
            pure (ForInStep.yield PUnit.unit)
          else pure (ForInStep.yield PUnit.unit)).run.run t4 = (.ok r, t')) :
    ObsSet o .inUse t t' := by
  have hn : ob.node < t.nodes.size := (I.obs.inRange o ob hob).1
  have U3 : NodeUpd ob.node (fObservers ((t.nodeD ob.node).observers ++ [o])) t
      (obsAdded o ob.node ((0 : Nat) : Int) t) := obsAdded_upd hn
  have R : Irrel ob.node (obsAdded o ob.node ((0 : Nat) : Int) t) t4 := by
    rcases has_cases h4 with e | e
    · rw [e]; exact Irrel.refl _ _
    · rw [e]; exact Irrel.marked _ _
  have U4 := U3.then_same R.same
  have L := R.rel (fun _ => False)
  have hp4 : t4.propagateInvalidity = [] := (L.pinv.trans rfl).trans I.pinv
  have hb4 : t4.binds = t.binds := (BL.CFrame.binds L.fr).trans rfl
  have hl : (t.nodeD ob.node).observers ++ [o] ≠ [] := by simp
  obtain ⟨htop, hnlc⟩ := I.obsTop o ob hob
  obtain ⟨-, -, F, -, -, -⟩ := N4p.struct_add2 I.struct U4 hb4 hl hwas htop hnlc I.noForce hp4 h
  have F3 : CFrame (obsAdded o ob.node ((0 : Nat) : Int) t) t' := L.fr.trans F
  exact (ObsSet.of_modify (t' := obsAdded o ob.node ((0 : Nat) : Int) t) rfl).then_eq (cf_obsArr F3)

/-- the end of a `created` iteration of `add_new_observers` returns: the assertion holds, the cascade returns -/
theorem add_tail_run2 {env : Env} {rk : Nat → Nat} {N fuel o : Nat} {rest pd : List Nat} {t t4 : State} {ob : ObsRec}
    (I : SInv2 env rk t (o :: rest) pd) (hob : t.observers[o]? = some ob) (hbt : HBo2 rk t allClosed) (Rt : Room N t)
    (hf : 2 * t.nodes.size + 1 ≤ fuel)
    (h4 : (handleAfterStabilisation ob.node).run.run (obsAdded o ob.node ((0 : Nat) : Int) t) = (.ok (), t4)) :
    t4.isNecessary ob.node = true ∧ ∃ (r : ForInStep PUnit) (t' : State),
      (if (!t.isNecessary ob.node) = true then do
            becameNecessaryPropagate env fuel ob.node
            pure (ForInStep.yield PUnit.unit)
          else pure (ForInStep.yield PUnit.unit)).run.run t4 = (.ok r, t') ∧ HBo2 rk t' allClosed := by
  have hn : ob.node < t.nodes.size := (I.obs.inRange o ob hob).1
  have U3 : NodeUpd ob.node (fObservers ((t.nodeD ob.node).observers ++ [o])) t
      (obsAdded o ob.node ((0 : Nat) : Int) t) := obsAdded_upd hn
  have R : Irrel ob.node (obsAdded o ob.node ((0 : Nat) : Int) t) t4 := by
    rcases has_cases h4 with e | e
    · rw [e]; exact Irrel.refl _ _
    · rw [e]; exact Irrel.marked _ _
  have U4 := U3.then_same R.same
  have L := R.rel (fun _ => False)
  have hp4 : t4.propagateInvalidity = [] := (L.pinv.trans rfl).trans I.pinv
  have hb4 : t4.binds = t.binds := (BL.CFrame.binds L.fr).trans rfl
  have hl : (t.nodeD ob.node).observers ++ [o] ≠ [] := by simp
  have P4 : PFrame t t4 := (obsAdded_frame o ob.node t).trans L.fr.toP
  obtain ⟨htop, hnlc⟩ := I.obsTop o ob hob
  have K := keeps_fObservers ((t.nodeD ob.node).observers ++ [o])
  refine ⟨(U4.nec_self_iff K).2 (Or.inr (Or.inl hl)), ?_⟩
  cases hw : t.isNecessary ob.node with
  | true =>
    simp only [Bool.not_true, Bool.false_eq_true, if_false]
    exact ⟨_, t4, run_pure _ _, hbo2_upd hbt U4 (fun _ _ h => h) (fun _ _ => ⟨hw, rfl⟩)⟩
  | false =>
    simp only [Bool.not_false, if_true]
    obtain ⟨I1, hpar, hnq⟩ := NL.GInv2.addObs_open I.struct U4 hb4 hl hw rfl htop hnlc
    have hk4 : (t4.nodeD ob.node).kind = (t.nodeD ob.node).kind := U4.kind K ob.node
    have hsz4 : t4.nodes.size = t.nodes.size := U4.size
    have hcnt := cnt_lt_size (rk := rk) hn
    have T := becameNecessary_total2' (fuel := fuel) I1
      (hbo2_upd hbt U4 (op' := upd allClosed ob.node (.linking 0)) (fun _ _ _ => rfl)
        (fun _ h => by rw [upd_self] at h; cases h))
      (Rt.of_pframe P4) (upd_self _ _ _) hnq
      (by
        intro m hm
        by_cases e : m = ob.node
        · rw [e]; exact Nat.le_refl _
        · rw [upd_other _ _ _ e] at hm; exact absurd rfl hm)
      (by intro p i hpi; rw [hpar] at hpi; cases hpi)
      (by
        intro m k
        by_cases e : m = ob.node
        · rw [e, upd_self]; exact fun e => by cases e
        · rw [upd_other _ _ _ e]; exact fun e => by cases e)
      (by
        intro m b br hfo
        rw [U4.forceNecessary K, I.noForce m] at hfo; cases hfo)
      (by
        intro b br hbr hlc
        exfalso
        have := (I1.frag.recs b br hbr).2.2.1
        rw [hlc, hk4] at this
        exact hnlc b this)
      (by
        intro b br hsc _
        rw [C2p.pf_createdIn P4, htop] at hsc; cases hsc)
      (by rw [hsz4]; omega)
    rw [upd_upd, upd_eq_self allClosed _ .closed rfl] at T
    obtain ⟨u, t6, h6, hb6, -, -, hL, -⟩ := T
    have hp6 : t6.propagateInvalidity = [] := by rw [hL.pinv]; exact hp4
    have h5 : (becameNecessaryPropagate env fuel ob.node).run.run t4 = (.ok (), t6) := by
      unfold becameNecessaryPropagate
      rw [run_bind_ok h6]; exact propagateInvalidity_ok hp6 (by omega)
    exact ⟨_, t6, by rw [run_bind_ok h5, run_pure], hb6⟩

/-- `addNewObservers` returns, and keeps the height bound -/
theorem addNewObservers_tot2 {env : Env} {rk : Nat → Nat} {N fuel : Nat} {s : State}
    (I : SInv2 env rk s s.newObservers s.disallowedObservers) (hb : HBo2 rk s allClosed) (R : Room N s)
    (hnd : s.newObservers.Nodup)
    (hst : ∀ (o : Nat) (ob : ObsRec), o ∈ s.newObservers → s.observers[o]? = some ob →
      ob.state = .created ∨ ob.state = .unlinked)
    (hf : 2 * s.nodes.size + 1 ≤ fuel) :
    Tot (addNewObservers env fuel) s (fun _ s' => HBo2 rk s' allClosed) := by
  unfold addNewObservers
  refine Tot.bind_get ?_
  refine Tot.bind_modify ?_
  have I0 : SInv2 env rk { s with newObservers := [] } s.newObservers s.disallowedObservers :=
    N4p.sInv2_congr I rfl rfl rfl rfl rfl rfl rfl rfl
  have R0 : Room N { s with newObservers := [] } := ⟨R.ahh, R.rch, R.size⟩
  refine Tot.bind (forIn_tot' _ _
    (fun j (_ : PUnit) t => SInv2 env rk t (s.newObservers.drop j) s.disallowedObservers ∧
      t.nodes.size = s.nodes.size ∧ HBo2 rk t allClosed ∧ Room N t ∧
      (∀ (o : Nat) (ob : ObsRec), o ∈ s.newObservers.drop j → t.observers[o]? = some ob →
        ob.state = .created ∨ ob.state = .unlinked)) ?_ _ _
    ⟨by rw [List.drop_zero]; exact I0, rfl, hb, R0, by rw [List.drop_zero]; exact hst⟩) ?_
  · intro j o b t hj ⟨It, hsz, hbt, Rt, hpt⟩
    have hndj : (o :: s.newObservers.drop (j + 1)).Nodup := by
      rw [← drop_of_getElem? hj]; exact List.Nodup.sublist (List.drop_sublist _ _) hnd
    rw [drop_of_getElem? hj] at It hpt
    obtain ⟨ob, hob⟩ := It.obs.newIn o (List.mem_cons_self ..)
    have hh : ob.handlers = [] := (It.obs.inRange o ob hob).2
    have hn : ob.node < t.nodes.size := (It.obs.inRange o ob hob).1
    refine Tot.bind_getObs hob ?_
    rcases hpt o ob (List.mem_cons_self ..) hob with hc | hu
    · rw [hc]
      dsimp only
      refine Tot.bind_modObs ?_
      refine Tot.bind_get ?_
      refine Tot.bind_modify ?_
      refine Tot.bind_modNode ?_
      change Tot _ (obsAdded o ob.node ((ob.handlers.length : Nat) : Int) t) _
      rw [hh, List.length_nil]
      obtain ⟨t4, h4⟩ := has_ok (n := ob.node) (s := obsAdded o ob.node ((0 : Nat) : Int) t)
        (by rw [(obsAdded_upd (o := o) (k := ((0 : Nat) : Int)) hn).size]; exact hn)
      obtain ⟨hnec4, r, t', hrun, hb'⟩ := add_tail_run2 (env := env) (fuel := fuel) It hob hbt Rt
        (by rw [hsz]; exact hf) h4
      refine Tot.bind_ok h4 ?_
      refine Tot.bind_get ?_
      refine Tot.bind_dassert (fun _ => hnec4) ?_
      obtain ⟨hr, I', R', -, -⟩ := N4p.add_created2 (was := t.isNecessary ob.node) It hob hc rfl h4 hrun
      have S := add_created_obs2 (was := t.isNecessary ob.node) It hob rfl h4 hrun
      exact Tot.of_ok hrun ⟨_, hr, I', R'.frame.size.trans hsz, hb', Rt.of_pframe R'.frame,
        pending_step S (List.nodup_cons.1 hndj).1 hpt⟩
    · rw [hu]
      dsimp only
      exact Tot.pure ⟨_, rfl, ⟨It.struct, obsInv_skip_step It.obs hob (by rw [hu]; exact fun e => by cases e),
        It.obsTop, It.pinv, It.handlers, It.noForce⟩, hsz, hbt, Rt,
        fun o' ob' ho' h' => hpt o' ob' (List.mem_cons_of_mem _ ho') h'⟩
  · intro _ s1 _ ⟨_, _, hb1, _⟩
    exact Tot.pure hb1

/-- `unlinkDisallowedObservers` returns, and keeps the height bound -/
theorem unlinkDisallowedObservers_tot2 {env : Env} {rk : Nat → Nat} {fuel : Nat} {s : State}
    (I : SInv2 env rk s [] s.disallowedObservers) (hb : HBo2 rk s allClosed)
    (hf : 3 * s.nodes.size ≤ fuel) :
    Tot (unlinkDisallowedObservers fuel) s (fun _ s' => HBo2 rk s' allClosed) := by
  unfold unlinkDisallowedObservers
  refine Tot.bind_get ?_
  refine Tot.bind_modify ?_
  have I0 : SInv2 env rk { s with disallowedObservers := [] } [] s.disallowedObservers :=
    N4p.sInv2_congr I rfl rfl rfl rfl rfl rfl rfl rfl
  refine Tot.bind (forIn_tot' _ _
    (fun j (_ : PUnit) t => SInv2 env rk t [] (s.disallowedObservers.drop j) ∧ t.nodes.size = s.nodes.size ∧
      HBo2 rk t allClosed) ?_ _ _ ⟨by rw [List.drop_zero]; exact I0, rfl, hb⟩) ?_
  · intro j o b t hj ⟨It, hsz, hbt⟩
    rw [drop_of_getElem? hj] at It
    obtain ⟨ob, hob⟩ := It.obs.disIn o (List.mem_cons_self ..)
    have hstd : ob.state = .disallowed := (It.obs.dis o ob hob).2 (List.mem_cons_self ..)
    have hh : ob.handlers = [] := (It.obs.inRange o ob hob).2
    have hn : ob.node < t.nodes.size := (It.obs.inRange o ob hob).1
    refine Tot.bind_getObs hob ?_
    refine Tot.bind_dassert (fun _ => by rw [hstd]; rfl) ?_
    refine Tot.bind_modObs ?_
    refine Tot.bind_modNode ?_
    refine Tot.bind_modify ?_
    change Tot _ (obsRemoved o ob.node ((ob.handlers.length : Nat) : Int) t) _
    rw [hh, List.length_nil]
    have hmem : o ∈ (t.nodeD ob.node).observers := (It.obs.mem ob.node o).2 ⟨ob, hob, rfl, Or.inr hstd⟩
    have hnec : t.isNecessary ob.node = true :=
      (isNecessary_iff t ob.node).2 (Or.inr (Or.inl (List.ne_nil_of_mem hmem)))
    have U3 : NodeUpd ob.node (fObservers ((t.nodeD ob.node).observers.filter (· != o))) t
        (obsRemoved o ob.node ((0 : Nat) : Int) t) := obsRemoved_upd hn
    obtain ⟨H1, H2⟩ := GInv2.remObs It.struct U3 rfl rfl hnec (fun e => by rw [e]; rfl)
    have hfuel : 3 * (obsRemoved o ob.node ((0 : Nat) : Int) t).nodes.size ≤ fuel := by
      rw [U3.size, hsz]; exact hf
    have T : Tot (checkIfUnnecessary fuel ob.node) (obsRemoved o ob.node ((0 : Nat) : Int) t)
        (fun _ s' => HBo2 rk s' allClosed) := by
      cases hnc : (obsRemoved o ob.node ((0 : Nat) : Int) t).isNecessary ob.node with
      | true =>
        have T := checkIfUnnecessary_full2_size (H1 hnc)
          (hbo2_upd hbt U3 (fun _ _ h => h) (fun _ _ => ⟨hnec, rfl⟩)) (fun m hm => absurd rfl hm)
          (Or.inl ⟨hnc, rfl⟩) hfuel
        rw [upd_eq_self allClosed _ .closed rfl] at T
        exact T.mono (fun _ _ h => h.2.2.2.2)
      | false =>
        have T := checkIfUnnecessary_full2_size (H2 hnc)
          (hbo2_upd hbt U3 (op' := upd allClosed ob.node (.unlinking 0)) (fun _ _ _ => rfl)
            (fun h _ => by rw [hnc] at h; cases h))
          (by
            intro m hm
            by_cases e : m = ob.node
            · rw [e]; exact Nat.le_refl _
            · rw [upd_other _ _ _ e] at hm; exact absurd rfl hm)
          (Or.inr ⟨hnc, upd_self _ _ _⟩) hfuel
        rw [upd_upd, upd_eq_self allClosed _ .closed rfl] at T
        exact T.mono (fun _ _ h => h.2.2.2.2)
    obtain ⟨u, t', hrun, hb'⟩ := T
    obtain ⟨I', R', -⟩ := N4p.unlink_iter2 It hob hrun
    exact Tot.bind_ok hrun (Tot.pure ⟨_, rfl, I', by rw [R'.frame.size]; exact hsz, hb'⟩)
  · intro _ s1 _ ⟨_, _, hb1⟩
    exact Tot.pure hb1

end T2h

/-- **`addNewObservers` returns, graphs with nested binds (fragment F2)** — no observer record is missing, no pending observer is in use or
disallowed, the linking cascades return (`becameNecessary_total2'`) — and keeps the height bound, the room and the prefix invariant (same ghost
rank: no node is created).  `hnd`/`hst` are `TInv2.newNodup`/`TInv2.newState`. -/
theorem addNewObservers_total2 {env : Env} {rk : Nat → Nat} {N fuel : Nat} {s : State}
    (I : SInv2 env rk s s.newObservers s.disallowedObservers) (hb : HBo2 rk s allClosed) (R : Room N s)
    (hnd : s.newObservers.Nodup)
    (hst : ∀ (o : Nat) (ob : ObsRec), o ∈ s.newObservers → s.observers[o]? = some ob →
      ob.state = .created ∨ ob.state = .unlinked)
    (hf : 2 * s.nodes.size + 1 ≤ fuel) :
    Tot (addNewObservers env fuel) s (fun _ s' => HBo2 rk s' allClosed ∧ Room N s' ∧
      SInv2 env rk s' [] s'.disallowedObservers ∧ s'.newObservers = [] ∧
      s'.disallowedObservers = s.disallowedObservers ∧ PFrame s s' ∧ ObsMap addedState s s' ∧
      (∀ m, s.isNecessary m = true → s'.isNecessary m = true) ∧
      (∀ m, (s'.nodeD m).heightInAhh = (s.nodeD m).heightInAhh)) := by
  obtain ⟨u, s', h, hb'⟩ := T2h.addNewObservers_tot2 I hb R hnd hst hf
  cases u
  obtain ⟨⟨I', h1, h2, P, h3, h4⟩, hM⟩ := N4p.addNewObservers_full2 I h
  exact ⟨(), s', h, hb', R.of_pframe P, I', h1, h2, P, h3, h4, hM⟩

/-- **`unlinkDisallowedObservers` returns, graphs with nested binds (fragment F2)** — the unlinking cascades return
(`checkIfUnnecessary_full2_size`) — and keeps the height bound, the room and the prefix invariant. -/
theorem unlinkDisallowedObservers_total2 {env : Env} {rk : Nat → Nat} {N fuel : Nat} {s : State}
    (I : SInv2 env rk s [] s.disallowedObservers) (hn : s.newObservers = []) (hb : HBo2 rk s allClosed) (R : Room N s)
    (hf : 3 * s.nodes.size ≤ fuel) :
    Tot (unlinkDisallowedObservers fuel) s (fun _ s' => HBo2 rk s' allClosed ∧ Room N s' ∧
      SInv2 env rk s' [] [] ∧ s'.newObservers = [] ∧ s'.disallowedObservers = [] ∧ PFrame s s' ∧
      ObsMap unlinkedState s s' ∧ (∀ m, (s'.nodeD m).heightInAhh = (s.nodeD m).heightInAhh)) := by
  obtain ⟨u, s', h, hb'⟩ := T2h.unlinkDisallowedObservers_tot2 I hb hf
  cases u
  obtain ⟨⟨I', h1, h2, P, h3⟩, hM⟩ := N4p.unlinkDisallowedObservers_full2 I hn h
  exact ⟨(), s', h, hb', R.of_pframe P, I', h1, h2, P, h3, hM⟩

end IncrVerif.Proofs.NestH
