import IncrVerif.Proofs.MapRef28
/-!
# map_ref fragment, part 13: what the observers read after every `stabilise` of a history (M3)
-/
namespace IncrVerif.Proofs.MapRefH
open IncrVerif.Engine IncrVerif.Driver IncrVerif.Proofs IncrVerif.Proofs.Step IncrVerif.Proofs.Sched IncrVerif.Proofs.Quiet

/-- every observer in use reads the from-scratch evaluation (`evalR`: through map_ref nodes) of its node on the
current variable values -/
def ReadsOKR (env : Env) (s : State) : Prop :=
  ∀ (o : Nat) (ob : ObsRec), s.observers[o]? = some ob → ob.state = .inUse →
    ∀ k, (s.nodeD ob.node).height.toNat < k →
      ∃ v, s.tryGetValue env o = .ok v ∧ evalR env s k ob.node = some v

theorem stabilisedR_reads {env : Env} {fuel : Nat} {s s' : State} {g g' : Nat → Option Val}
    (R : StabilisedR env fuel s s' g g') : ReadsOKR env s' ∧ ObsSettled s' ∧
      (∀ n, s'.isNecessary n = true → s'.isStale n = false) := by
  have Q' := R.inv.q
  have O' : ObsInv (virt g' s') [] [] := by
    have := Q'.obs
    unfold ObsOK at this
    rw [R.virt.newObservers, R.virt.disallowedObservers] at this
    exact this
  refine ⟨?_, ?_, fun n hn => (R.values n hn _ (Nat.lt_succ_self _)).1⟩
  · intro o ob ho hst k hk
    have hmem : o ∈ ((virt g' s').nodeD ob.node).observers := (O'.mem ob.node o).2 ⟨ob, ho, rfl, Or.inl hst⟩
    rw [virt_nodeD, virtNode_observers] at hmem
    have hn : s'.isNecessary ob.node = true := by
      rw [isNecessary_iff]; right; left; exact List.ne_nil_of_mem hmem
    obtain ⟨-, hv, hs⟩ := R.values ob.node hn k hk
    obtain ⟨v, hev⟩ := Option.isSome_iff_exists.1 hs
    refine ⟨v, ?_, hev⟩
    unfold State.tryGetValue
    have ha : s'.alive = true := Q'.alive
    have hstat : s'.status = .notStabilising := Q'.status
    rw [ha, hstat, ho]
    simp only [Bool.not_true, Bool.false_eq_true, if_false, hst]
    rw [hv, hev]
    rfl
  · intro o ob ho
    have ho' : (virt g' s').observers[o]? = some ob := ho
    cases hst : ob.state with
    | inUse => exact Or.inl rfl
    | unlinked => exact Or.inr rfl
    | created => have := O'.created o ob ho' hst; cases this
    | disallowed => have := (O'.dis o ob ho').1 hst; cases this

/-- **M3: whole histories.** Every state reached from the initial state by a history of actions of the fragment
static + map_ref (that runs without panic) satisfies the invariant. -/
theorem historyR {env : Env} {N : Nat} {d : Bool} {acts : List Action} {s : State} {tk : Array Nat}
    (ha : ∀ a, a ∈ acts → MapRefAction env a)
    (h : runActions env acts (State.init N d) #[] = .ok (s, tk)) : QInvRE env s :=
  runActionsR (init_invR env N d) ha h

/-- **M3: every `stabilise` of a history.** At each `stabilise` of a history of actions of the fragment that runs from
the initial state: the state before it satisfies the invariant; the `stabilise` returns a state in which the invariant
holds, no necessary node is stale, EVERY OBSERVER IN USE READS THE FROM-SCRATCH VALUE of its node (`ReadsOKR`), and
every observer is in use or unlinked. -/
theorem historyR_stabilise {env : Env} {N : Nat} {d : Bool} {as bs : List Action} {s : State} {tk : Array Nat}
    (ha : ∀ a, a ∈ as ++ Action.stabilise :: bs → MapRefAction env a)
    (h : runActions env (as ++ Action.stabilise :: bs) (State.init N d) #[] = .ok (s, tk)) :
    ∃ s1 tk1 s2 g1 g2, runActions env as (State.init N d) #[] = .ok (s1, tk1) ∧ QInvR env s1 g1 ∧
      (stabilise env fuelDefault).run.run s1 = (.ok (), s2) ∧ StabilisedR env fuelDefault s1 s2 g1 g2 ∧
      ReadsOKR env s2 ∧ ObsSettled s2 ∧ (∀ n, s2.isNecessary n = true → s2.isStale n = false) ∧
      runActions env bs s2 tk1 = .ok (s, tk) := by
  obtain ⟨s1, tk1, h1, h2⟩ := runActions_prefix h
  obtain ⟨g1, Q1⟩ := historyR (fun a hm => ha a (List.mem_append_left _ hm)) h1
  simp only [runActions] at h2
  rcases hx : (stepAction env .stabilise tk1).run.run s1 with ⟨_ | r, s2⟩
  · rw [hx] at h2; cases h2
  · rw [hx] at h2
    replace h2 : runActions env bs s2 r.2 = .ok (s, tk) := h2
    have hst := step_stabilise hx
    obtain ⟨g2, R⟩ := stabiliseR Q1 hst
    obtain ⟨hr, hos, hns⟩ := stabilisedR_reads R
    have htk : r.2 = tk1 := by
      unfold stepAction at hx
      dsimp only at hx
      obtain ⟨u, s3, h3, h4⟩ := bind_ok_inv hx
      obtain ⟨e, -⟩ := pure_ok_inv h4
      rw [e]
    rw [htk] at h2
    exact ⟨s1, tk1, s2, g1, g2, h1, Q1, hst, R, hr, hos, hns, h2⟩

end IncrVerif.Proofs.MapRefH
