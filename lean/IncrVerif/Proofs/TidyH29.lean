import IncrVerif.Proofs.TidyH28
/-!
# T3b part 5: `stabilise` returns when node functions and update handlers have write effects
-/
namespace IncrVerif.Proofs.TidyH.EffT
open IncrVerif.Engine IncrVerif.Driver IncrVerif.Proofs IncrVerif.Proofs.Step IncrVerif.Proofs.Sched
open IncrVerif.Proofs.Quiet IncrVerif.Proofs.EffH
open IncrVerif.Proofs.TidyH.SubsT (addNewObservers_total unlinkDisallowedObservers_total room_of_pframe
  hasRange_of_hasOK)

/-- **`stabilise_end` returns**: `t` is the state after the drain -/
theorem stabiliseEnd_total_w {env : Env} {N B fuel : Nat} {t : State} (hH : WHandlers env)
    (hHb : HBound env B) (E : EP (noEff env) N B (bump t)) (hpc : t.panicCountdown = none)
    (hstack : ∀ v, v ∈ t.setDuringStab → v < t.vars.size)
    (O : SubsH.ObsInv t [] []) (hhs : HasRange t)
    (hval : ∀ n, t.isNecessary n = true → (t.nodeD n).valid = true ∧ (t.value env n).isSome = true) :
    Tot (stabiliseEnd env fuel) t (fun _ s' => EP (noEff env) N B s' ∧ Fin (bump t) s') := by
  rw [stabiliseEnd_eq]
  obtain ⟨c, h1, Ec, Wc, -⟩ := applyAll_total t.setDuringStab (bump t) E hstack
  have h1' : stabiliseEndVars.run.run t = (.ok (), c) := by rw [stabiliseEndVars_run]; exact h1
  obtain ⟨-, A⟩ := applyAll_qU t.setDuringStab (bump t) c () E.q h1
  have hpcc : c.panicCountdown = none := by rw [A.eq]; exact hpc
  have hobsc : c.observers = t.observers := by rw [A.eq]; rfl
  have hhasc : c.handleAfterStab = t.handleAfterStab := by rw [A.eq]; rfl
  have htopc : c.top = (bump t).top := by rw [A.eq]
  have hnoc : c.newObservers = (bump t).newObservers := by rw [A.eq]
  have hnodec : ∀ m, ∃ h, c.nodeD m = { t.nodeD m with heightInRch := h } := A.node
  have hnecc : ∀ m, c.isNecessary m = t.isNecessary m := by
    intro m
    obtain ⟨h, e⟩ := hnodec m
    rw [State.isNecessary, State.isNecessary, e]; rfl
  have Oc : SubsH.ObsInv c [] [] :=
    SubsH.obsInv_congr' O hobsc A.size (fun m => by obtain ⟨h, e⟩ := hnodec m; rw [e])
  have hhsc : HasRange c := by
    intro n hn
    rw [hhasc] at hn
    rw [A.size]; exact hhs n hn
  have hvalc : ∀ n, c.isNecessary n = true → (c.nodeD n).valid = true ∧ (c.value env n).isSome = true := by
    intro n hn
    rw [hnecc] at hn
    obtain ⟨a1, a2⟩ := hval n hn
    obtain ⟨h, e⟩ := hnodec n
    refine ⟨by rw [e]; exact a1, ?_⟩
    have : c.value env n = t.value env n := (Wc.value env n).trans
      (Obs.value_congr_nodes env (s := t) (s' := bump t) rfl n)
    rw [this]; exact a2
  refine Tot.bind_ok h1' ?_
  refine (stabiliseEndRest_total (fuel := fuel) hH hHb Ec hpcc Oc hhsc hvalc).mono ?_
  rintro _ s' ⟨E', F'⟩
  exact ⟨E', ⟨Wc.trans F'.wr, F'.top.trans htopc, F'.newObs.trans hnoc⟩⟩

theorem mem_of_writesTo_ne_nil {v : Nat} {W : Writes} (h : writesTo v W ≠ []) : ∃ f, (v, f) ∈ W := by
  unfold writesTo at h
  cases hf : W.filter (fun w => w.1 == v) with
  | nil => rw [hf] at h; exact absurd rfl h
  | cons w ws =>
    have hm : w ∈ W.filter (fun w => w.1 == v) := by rw [hf]; exact List.mem_cons_self ..
    obtain ⟨h1, h2⟩ := List.mem_filter.1 hm
    have : w.1 = v := by simpa using h2
    exact ⟨w.2, by rw [← this]; exact h1⟩

theorem stepsWrites_bound {env : Env} {B : Nat} (hb : FnBound env B) (l : List (Nat × State)) :
    ∀ v f, (v, f) ∈ stepsWrites env l → v < B := by
  intro v f hm
  unfold stepsWrites at hm
  obtain ⟨p, -, hp⟩ := List.mem_flatMap.1 hm
  unfold writesOf at hp
  obtain ⟨e, he, hw⟩ := List.mem_filterMap.1 hp
  exact nodeEffs_bound hb p.2 p.1 e he v f hw

set_option maxHeartbeats 1000000 in
/-- **`stabilise` returns** (static fragment with subscriptions; node functions and update handlers with write
effects on variables `< B`, all of which exist; enough fuel), and `TInv` is kept -/
theorem stabilise_total_w {env : Env} {N B fuel : Nat} {s : State} (hw : WOnly env) (hH : WHandlers env)
    (hFb : FnBound env B) (hHb : HBound env B) (UE : UInvE env s) (T : TInv N s) (hB : B ≤ s.vars.size)
    (hf : 3 * s.nodes.size + 4 ≤ fuel) :
    Tot (stabilise env fuel) s (fun _ s' => TInv N s') := by
  have U := UE.u
  have Q := U.core
  obtain ⟨s0, hs0⟩ : ∃ s0 : State, s0 = { s with status := .stabilising } := ⟨_, rfl⟩
  have hnd0 : ∀ m, s0.nodeD m = s.nodeD m := fun m => by rw [hs0]; rfl
  have hsz0 : s0.nodes.size = s.nodes.size := by rw [hs0]
  have hvars0 : s0.vars = s.vars := by rw [hs0]
  have hstab0 : s0.stabNum = s.stabNum := by rw [hs0]
  have S0 : SubsH.SInv (noEff env) s0 s0.newObservers s0.disallowedObservers := by
    rw [hs0]
    exact ⟨Q.struct.congr (SameG.of_nodes rfl rfl rfl rfl rfl),
      ⟨Q.obs.inRange, Q.obs.mem, Q.obs.created, Q.obs.newIn, Q.obs.dis, Q.obs.disIn, Q.obs.disNodup⟩,
      Q.pinv, U.hinv.of_nodes rfl rfl rfl rfl rfl⟩
  have hb0 : HBo s0 allClosed := by
    intro m hm ho
    rw [hnd0]; exact T.hb m (by rw [State.isNecessary, ← hnd0]; exact hm) ho
  have R0 : Room N s0 := by rw [hs0]; exact ⟨T.room.ahh, T.room.rch, T.room.size⟩
  -- the two loops
  have hf1 : 2 * s0.nodes.size + 2 ≤ fuel := by rw [hsz0]; omega
  obtain ⟨_, t1, h1, hb1⟩ := addNewObservers_total (fuel := fuel) (env := noEff env) S0 hb0 R0
    (by rw [hs0]; exact T.newNodup) (by rw [hs0]; exact T.newState) hf1
  obtain ⟨S1, hn1, hd1, F1, O1, N1, K1, L1, T1⟩ := SubsH.addNewObservers_s S0 h1
  have hf2 : 3 * t1.nodes.size + 3 ≤ fuel := by rw [F1.size, hsz0]; omega
  obtain ⟨_, t2, h2, hb2⟩ := unlinkDisallowedObservers_total (fuel := fuel) S1 hn1 hb1 hf2
  obtain ⟨S2, hn2, hd2, F2, O2, K2, L2, T2⟩ := SubsH.unlinkDisallowedObservers_s S1 hn1 h2
  have F : SubsH.PFrame s0 t2 := F1.trans F2
  have R2 : Room N t2 := room_of_pframe R0 F
  have hv2 : t2.vars = s.vars := by rw [F.vars, hvars0]
  have hst2 : t2.stabNum = s.stabNum := by rw [F.stabNum, hstab0]
  -- the drain invariant
  have V2 : VarsOK t2 := F.varsOK (by
    refine ⟨?_, ?_⟩
    · intro n c hn hk; rw [hnd0] at hk; rw [hvars0]; exact Q.vars.node n c (by rw [← hsz0]; exact hn) hk
    · intro c vc hc; rw [hvars0] at hc; rw [hsz0, hnd0]; exact Q.vars.cell c vc hc)
  have st2 : ∀ m, (t2.nodeD m).recomputedAt < t2.stabNum ∧ (t2.nodeD m).changedAt < t2.stabNum := by
    intro m
    rw [F.recomputedAt, F.changedAt, F.stabNum, hstab0, hnd0]; exact Q.stamps m
  have cons2 : ∀ m, m < t2.nodes.size → staleOf t2 m = false → Consistent (noEff env) t2 m := by
    intro m hm hs
    rw [F.staleOf] at hs
    have hs' : staleOf s m = false := by
      rw [← hs]; exact (staleOf_congr (by rw [hnd0]) (by rw [hnd0]) hvars0 (fun c _ => by rw [hnd0])).symm
    have hc := Q.cons m (by rw [← hsz0, ← F.size]; exact hm) hs'
    have hc0 : Consistent (noEff env) s0 m := by
      obtain ⟨w, hw, hv⟩ := hc
      exact ⟨w, Target.congr (by rw [hnd0]) hvars0 (fun c _ => by rw [hnd0]) hw, by rw [hnd0]; exact hv⟩
    exact F.consistent hc0
  have D2 : DrainInv (noEff env) t2 :=
    drainInv_of S2.struct V2 (by rw [F.stabNum, hstab0]; exact Q.now) st2
      (fun c vc hc => by rw [F.vars, hvars0] at hc; rw [F.stabNum, hstab0]; exact Q.varStamp c vc hc) cons2
  have U2 : UnnecOK (noEff env) t2 := fun m hm _ => ⟨(st2 m).1, cons2 m hm⟩
  have DI2 : DI env t2 none :=
    ⟨D2, U2, by rw [F.status, hs0], fun v c hc => (UE.cells v c (by rw [← hv2]; exact hc)).2⟩
  -- the drain returns
  have Sf : Safe t2 := by
    refine ⟨fun n hn => ?_, fun n hn => (GInv.node S2.struct (nec_lt_size hn)).top⟩
    have h1 := hb2 n hn rfl
    have h2 := nec_lt_size hn
    have h3 := R2.size
    rw [R2.rch]; omega
  have hun := unrun_le_size t2
  obtain ⟨t3, h3⟩ := drainHeap_total_eff hw hFb fuel t2 DI2 Sf (by rw [hv2]; exact hB)
    (by rw [F.size, hsz0] at hun; omega)
  -- what the drain did
  obtain ⟨R, he3⟩ := drainHeap_eff hw fuel t2 t3 DI2 h3
  have hu3 := drainHeap_eff_hush hw fuel t2 t3 DI2 h3
  have P2 : Pend t2 [] t2 :=
    Pend.start (fun v c hc => (UE.cells v c (by rw [← hv2]; exact hc)).1)
      (by rw [F.setDuringStab, hs0]; exact Q.setDuringStab)
  have P3 := R.pend t2 [] P2
  rw [List.nil_append] at P3
  have D3 := R.di.inv
  have k3 : stateKeyD t3 = stateKeyD t2 := R.dr.keyD
  simp only [stateKeyD, Prod.mk.injEq] at k3
  obtain ⟨k_obs, -, k_scope, k_top, -, k_alive, k_pinv, -, -, -, k_ahh⟩ := k3
  have hdead : t3.deadVars = [] := by rw [R.dr.calm.deadVars, F.deadVars, hs0]; exact Q.deadVars
  have hno3 : t3.newObservers = [] := by rw [R.dr.calm.newObservers]; exact hn2
  have hdo3 : t3.disallowedObservers = [] := by rw [R.dr.calm.disallowedObservers]; exact hd2
  -- the drained state without the deferred writes
  let t3c : State := { t3 with vars := t2.vars, setDuringStab := t2.setDuringStab }
  have Pc : SameP t3c t3 := ⟨rfl, P3.size, fun v a ha => P3.sameP_vars.2 v a ha⟩
  have Pc' : SameP t3 t3c := Pc.symm
  have D3c : DrainInv (noEff env) t3c := Pc'.inv D3
  have U3c : UnnecOK (noEff env) t3c := Pc'.unnecOK R.di.unnec
  have f3 : Frame t2 t3c := (R.dr.frame.trans (FrameP.of_sameP Pc')).toFrame rfl
  have S3c : Struct (noEff env) t3c := Struct.ofDrained S2.struct f3 D3c he3 k_scope
  have O3 : SubsH.ObsInv t3 [] [] :=
    SubsH.obsInv_congr' S2.obs k_obs R.dr.frame.size (fun m => (R.dr.frame.shape m).observers)
  have H3 : SubsH.HInv t3 :=
    SubsH.P12u.hinv_hush S2.hinv hu3 k_obs (fun m => (R.dr.frame.shape m).observers) R.dr.frame.stabNum
  have hval3 : ∀ n, t3.isNecessary n = true →
      (t3.nodeD n).valid = true ∧ (t3.value env n).isSome = true := by
    intro n hn
    obtain ⟨v1, -, v3, -, v5⟩ := drained_values D3 he3 n hn ((t3.nodeD n).height.toNat + 1) (Nat.lt_succ_self _)
    refine ⟨v1, ?_⟩
    rw [← value_noEff, D3.graph.value_plain hn, v3]; exact v5
  have V3c : VarsOK t3c := by
    refine ⟨?_, ?_⟩
    · intro n c hn hk
      rw [(f3.shape n).kind] at hk
      exact V2.node n c (by rw [← f3.size]; exact hn) hk
    · intro c vc hc
      have := V2.cell c vc hc
      rw [f3.size, (f3.shape vc.node).kind]; exact this
  have hcons3 : ∀ m, m < t3c.nodes.size → staleOf t3c m = false → Consistent (noEff env) t3c m := by
    intro m hm hs
    cases hn : t3c.isNecessary m with
    | true => exact (D3c.all_consistent he3 m hn).2
    | false => exact (U3c m hm hn).2 hs
  have Qc : SubsH.QInv (noEff env) (quiet (bump t3c)) := by
    refine ⟨S3c.congr (SameG.of_nodes rfl rfl rfl rfl rfl), ⟨V3c.node, V3c.cell⟩, ?_, ?_, ?_, ?_, ?_, rfl, ?_, rfl,
      hdead, ?_, ?_⟩
    · show SubsH.ObsInv (quiet (bump t3c)) t3.newObservers t3.disallowedObservers
      rw [hno3, hdo3]
      exact ⟨O3.inRange, O3.mem, O3.created, O3.newIn, O3.dis, O3.disIn, O3.disNodup⟩
    · show 0 ≤ t3.stabNum + 1
      have := D3.stamps.now; omega
    · intro m
      show (t3.nodeD m).recomputedAt < t3.stabNum + 1 ∧ (t3.nodeD m).changedAt < t3.stabNum + 1
      have := D3.stamps.node m; omega
    · intro c vc hc
      show vc.setAt ≤ t3.stabNum + 1
      have := D3c.stamps.var c vc hc
      have e : t3c.stabNum = t3.stabNum := rfl
      omega
    · intro m hm hs
      exact hcons3 m hm hs
    · show t3.alive = true
      rw [k_alive, F.alive, hs0]; exact Q.alive
    · show t3.propagateInvalidity = []
      rw [k_pinv]; exact S2.pinv
    · intro k n hk
      have hk' : t3.top[k]? = some n := hk
      rw [k_top, F.top, hs0] at hk'
      show n < t3.nodes.size
      rw [R.dr.frame.size, F.size, hsz0]; exact Q.top k n hk'
  have PQ : SameP (quiet (bump t3c)) (quiet (bump t3)) := ⟨rfl, Pc.size, Pc.cell⟩
  have QB : SubsH.QInv (noEff env) (quiet (bump t3)) := PQ.qinvU Qc rfl
  -- the end phase
  have hlink3 : ∀ (c : Nat) (vc : VarCell), t3.vars[c]? = some vc → vc.linked = true := by
    intro c vc hc
    have hlt : c < t2.vars.size := P3.size ▸ e2_lt_of_some hc
    obtain ⟨a, ha⟩ := e2_some_of_lt hlt
    obtain ⟨b, hb, hab⟩ := P3.sameP_vars.2 c a ha
    rw [hc] at hb; cases hb
    rw [hab.linked]
    exact T.linked c a (by rw [← hv2]; exact ha)
  have EB : EP (noEff env) N B (bump t3) := by
    refine ⟨QB, ?_, ⟨?_, ?_, ?_⟩, hlink3, R.di.handles, ?_⟩
    · intro m hm ho
      have hm' : t3.isNecessary m = true := hm
      rw [R.dr.frame.nec] at hm'
      show (t3.nodeD m).height ≤ _
      rw [(R.dr.frame.shape m).height]
      exact hb2 m hm' ho
    · show t3.ahh.maxAllowed = _
      rw [k_ahh]; exact R2.ahh
    · show t3.rch.maxAllowed = _
      rw [← R2.rch]; exact maxAllowed_congr R.dr.frame.qsize
    · show t3.nodes.size ≤ N
      rw [R.dr.frame.size]; exact R2.size
    · show B ≤ t3.vars.size
      rw [P3.size, hv2]; exact hB
  have hstack : ∀ v, v ∈ t3.setDuringStab → v < t3.vars.size := by
    intro v hv
    obtain ⟨f, hm⟩ := mem_of_writesTo_ne_nil ((P3.mem v).1 hv)
    have := stepsWrites_bound hFb _ v f hm
    rw [P3.size, hv2]; omega
  obtain ⟨_, s', h4, E', F'⟩ := stabiliseEnd_total_w (env := env) (fuel := fuel) (t := t3) hH hHb EB
    D3.graph.pc hstack O3 (hasRange_of_hasOK H3.has) hval3
  -- the run
  have hrun : (stabilise env fuel).run.run s = (.ok (), s') := by
    unfold stabilise
    have hst : (s.status == Status.notStabilising) = true := by rw [Q.status]; rfl
    rw [run_bind_get, run_bind_ok (show (assertM (s.status == Status.notStabilising)
      "state:stabilise:status").run.run s = (.ok (), s) by rw [run_assertM, hst]; rfl),
      run_bind_modify]
    rw [← hs0, ← addNewObservers_noEff, run_bind_ok h1, run_bind_ok h2, run_bind_ok h3]
    exact h4
  refine Tot.of_ok hrun ?_
  have hsize' : s'.nodes.size = s.nodes.size := by
    rw [F'.wr.size]; show t3.nodes.size = _; rw [R.dr.frame.size, F.size, hsz0]
  have hno' : s'.newObservers = [] := by rw [F'.newObs]; exact hno3
  refine ⟨E'.hb, E'.room, E'.linked, ?_, ?_, ?_⟩
  · rw [F'.top, hsize']; show t3.top.size = _; rw [k_top, F.top, hs0]; exact T.topSize
  · rw [hno']; exact List.nodup_nil
  · intro o ob ho; rw [hno'] at ho; cases ho

end IncrVerif.Proofs.TidyH.EffT
