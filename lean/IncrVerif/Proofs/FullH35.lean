import IncrVerif.Proofs.FullH34
import IncrVerif.Proofs.FullH26
/-!
# C01 full fragment, MW5: **the recompute step of a `map_with_old` node** (port of `MapOldH.step_mwo_node` to graphs with binds)

No simulation (the actual node fires iff the machine says so): the step relation `BindH.StepRelB` of the virtual states is assembled from the
actual run and the machine contract.  When the machine reports "no change" on its very first run (the node has no value yet) the virtual
pre-state is patched (`MW.DInv.patch`).  The ghost does not change.
-/
namespace IncrVerif.Proofs.FullH
open IncrVerif.Engine IncrVerif.Proofs IncrVerif.Proofs.Step IncrVerif.Proofs.Sched IncrVerif.Proofs.Quiet
open IncrVerif.Proofs.BindH (DInv BGraph StepRelB Edge Below TargetB ConsistentB BKind FrameB)
open IncrVerif.Proofs.NestH (AuxS2 Aux2 GenOK2 F2Inv)
open IncrVerif.Proofs.MapOldH (enc mwoX mwoX_nodeD mwoX_size MReach GoodMachine setValue_nodeD_with setValue_size setValue_changedAt)
open IncrVerif.Proofs.MapRefH (ValFrame)

set_option maxHeartbeats 1000000 in
/-- **one step, a map_with_old node.** -/
theorem step_mwo {env : Env} {sp : Nat → Val → Val} {t s : State} {g : Nat → Option Val} {fuel n m i : Nat} {r : Option Nat}
    {s' : State} (D : DInvF env sp t s g (some n)) (hk : (s.nodeD n).kind = .mapWithOld m i)
    (h : (recomputeOne env fuel n).run.run s = (.ok r, s')) :
    DInvF env sp t s' g r ∧ BindH.FrameB (virt g s) (virt g s') ∧
      ((virt g s').nodeD n).recomputedAt = s.stabNum ∧ ((virt g s').nodeD n).valid = true := by
  have F := D.frag
  have I := D.inv
  have gr := I.graph
  have hi := I.heap
  obtain ⟨⟨rk, A⟩, hDK, hNK⟩ := D.aux
  obtain ⟨hnnec, hltv, hnvv, -, -⟩ := I.cur_facts
  have hlt := F.lt_of_mwo hk
  have hnv : (s.nodeD n).valid = true := by rw [virt_nodeD, virtNode_valid] at hnvv; exact hnvv
  obtain ⟨hW, hG⟩ := F.wid hk
  have hnm : ∀ p i', (s.nodeD n).kind ≠ .mapRef p i' := by intro p i'; rw [hk]; intro e; cases e
  -- the input
  have hci : i ∈ s.children n := by rw [children_mwo hnv hk]; exact List.mem_singleton.2 rfl
  obtain ⟨htvi, hsome⟩ := kids_settled D i hci
  obtain ⟨x, hxv⟩ := Option.isSome_iff_exists.1 hsome
  have htx : tv g s i = some x := htvi.trans hxv
  have hreach := D.m n m i hnv hk
  -- the machine
  obtain ⟨es, hrun⟩ := MapOldH.recomputeOne_mwo_run env fuel n s (s.nodeD n) m i x (some_of_lt hlt) hnv hk hxv F.pc
  have hout0 := hG.out _ _ hreach x trivial
  have hflag0 := hG.flag _ _ hreach x trivial
  have hreach0 : MReach env (fun _ => True) m _ _ := MReach.step (x := x) hreach trivial
  generalize env.withOld m (s.nodeD n).oldState (s.nodeD n).value x = w at hrun hout0 hflag0 hreach0
  have hout : w.2.1 = sp m x := hout0
  have hreach' : MReach env (fun _ => True) m w.1 (some (sp m x)) := by rw [← hout]; exact hreach0
  rw [hrun] at h
  have hXe : setWithOld n w.2.1 w.1 (logged es (started n s)) = mwoX n w.2.1 w.1 es s := rfl
  rw [hXe] at h
  -- the state in which the notifications start
  have hX := fun k => mwoX_nodeD n k w.2.1 w.1 es s hlt
  have hXsz := mwoX_size n w.2.1 w.1 es s
  have VF : ValFrame n s (mwoX n w.2.1 w.1 es s) := MW.mwoX_valFrame n w.2.1 w.1 es hlt
  have hXn : (mwoX n w.2.1 w.1 es s).nodeD n =
      { s.nodeD n with recomputedAt := s.stabNum, value := some w.2.1, oldState := w.1 } := by
    rw [hX, if_pos rfl]
  have hXv : ((mwoX n w.2.1 w.1 es s).nodeD n).value = some (sp m x) := by rw [hXn]; show some w.2.1 = _; rw [hout]
  have hXo : ((mwoX n w.2.1 w.1 es s).nodeD n).oldState = w.1 := by rw [hXn]
  have hXold : ∀ k, k ≠ n → ((mwoX n w.2.1 w.1 es s).nodeD k).oldState = (s.nodeD k).oldState := by
    intro k hk'; rw [hX, if_neg hk']
  have hXpc : (mwoX n w.2.1 w.1 es s).panicCountdown = none := F.pc
  -- the frames of the actual run
  have k0 : KeyD s (mwoX n w.2.1 w.1 es s) := rfl
  have a0 : BindH.BF.HAh s (mwoX n w.2.1 w.1 es s) := by
    intro k; rw [hX]; split
    · rename_i e; rw [e]
    · rfl
  have c0 : Calm s (mwoX n w.2.1 w.1 es s) :=
    ((Calm.started n s).trans (Calm.logged es _)).trans (Calm.modNode _ n _ (fun _ => rfl))
  have d0 : BindH.C2k.DK 0 s (mwoX n w.2.1 w.1 es s) :=
    ((BindH.C2k.DKS.started 0 n s).1.trans (BindH.C2k.DKS.logged 0 es _).1).trans
      (BindH.C2k.DKS.modNode (b := 0) (logged es (started n s)) n (fun y => { y with value := some w.2.1, oldState := w.1 })
        (fun _ => rfl)).1
  have k1 := (PresK.maybeChangeValueManual env fuel n none w.2.2 true).h _ _ _ h
  have a1 := (BindH.BF.PresA.maybeChangeValueManual env fuel n none w.2.2 true).h _ _ _ h
  have c1 := (PresC.maybeChangeValueManual env fuel n none w.2.2 true).h _ _ _ h
  have d1 := (BindH.C2k.PresD.maybeChangeValueManual (b := 0) env fuel n none w.2.2 true).h _ _ _ h
  have fm : MapRefH.FM _ s' := (MapRefH.PresFM.maybeChangeValueManual env fuel n none w.2.2 true).h _ _ _ h
  obtain ⟨htop, hahh, hpinv, hsc⟩ := MW.keyD_fields (KeyD.trans k0 k1)
  have hAH : BindH.BF.HAh (virt g s) (virt g s') := MW.hah_virt (a0.trans a1)
  have hNUM := MW.num_virt (g := g) (g' := g) (fun k => ((c1.num k).trans (c0.num k)))
  obtain ⟨hDK', hNK'⟩ := BindH.C2k.dkey_of_dk (MW.dk_virt (g := g) (g' := g) (d0.trans d1.1)) A.noHandlers
  -- the virtual node
  have hkv : ((virt g s).nodeD n).kind = .map (wBase + enc m) [i] := by rw [virt_nodeD, virtNode_kind, hk]; rfl
  have hstatic : StaticKind (VE env sp) ((virt g s).nodeD n).kind := by
    have := (gr.node n hltv hnvv).1
    rw [hkv] at this ⊢; exact this
  have htarget : TargetB (VE env sp) (virt g s) n (sp m x) := by
    unfold TargetB Target
    rw [hkv]
    refine ⟨[x], ?_, by rw [virtEnv_fn_mach env sp hW]; rfl⟩
    rw [virt_plainVals]
    simp only [evalArgs, htx]
  have hvnv : ((virt g s).nodeD n).value = (s.nodeD n).value := by
    rw [virt_nodeD, virtNode_value_of_not_mapRef _ _ hnm]
  have hUself : Upd n (virt g s) (virt g (mwoX n w.2.1 w.1 es s)) :=
    MW.mwoX_upd (virt g s) hlt F.pc (fun k => ⟨_, rfl⟩) (fun _ _ => rfl) (virt_size g s) rfl rfl rfl
  have hXk : ∀ p i', ((mwoX n w.2.1 w.1 es s).nodeD n).kind ≠ .mapRef p i' := by intro p i'; rw [VF.kind]; exact hnm p i'
  have hXnv : ((virt g (mwoX n w.2.1 w.1 es s)).nodeD n).value = some (sp m x) := by
    rw [virt_nodeD, virtNode_value_of_not_mapRef _ _ hXk]; exact hXv
  have hXnr : ((virt g (mwoX n w.2.1 w.1 es s)).nodeD n).recomputedAt = (virt g s).stabNum := by
    rw [virt_nodeD, virtNode_recomputedAt, hXn]; rfl
  have hXnc : ((virt g (mwoX n w.2.1 w.1 es s)).nodeD n).changedAt = ((virt g s).nodeD n).changedAt := by
    rw [virt_nodeD, virtNode_changedAt, hXn, virt_nodeD, virtNode_changedAt]
  -- what is left to do once the step relation is there
  have fin : ∀ {P : State} {ch : Bool}, (P = virt g s ∨ ∃ u, P = setValue n u (virt g s)) →
      DInv (VE env sp) P (some n) → F2Inv (VE env sp) rk P → GenOK2 (VE env sp) P → TargetB (VE env sp) P n (sp m x) →
      StepRelB n (sp m x) ch r P (virt g s') → MW.NV (mwoX n w.2.1 w.1 es s) s' → KInv env g s' → DepInv g s' ∧ CRl s' →
      DInvF env sp t s' g r ∧ BindH.FrameB (virt g s) (virt g s') ∧
        ((virt g s').nodeD n).recomputedAt = s.stabNum ∧ ((virt g s').nodeD n).valid = true := by
    intro P ch hP IP AP GP ht R nv K' hdc
    obtain ⟨i1, i2, i3, i4, i5, i6⟩ := MW.finish hP IP AP GP ht R (Or.inl hstatic) hnvv hNUM hAH htop hahh hpinv hsc
    exact ⟨⟨MW.ffrag_after F VF nv, i1, ⟨⟨rk, i2⟩, hDK.trans hDK', hNK.trans hNK'⟩, i3, K',
      MW.minv_after D.m VF nv hXold hk hXv hXo hreach', MW.gsome_after D.gs VF nv fm, hdc.1, hdc.2⟩, i4, i5, i6⟩
  have hdep : ∀ {ch : Bool}, StepRelB n (sp m x) ch r (virt g s) (virt g s') → MW.NV (mwoX n w.2.1 w.1 es s) s' →
      DepInv g s' ∧ CRl s' := by
    intro ch R nv
    exact dep_stepB D.dep D.cr I R (fun k => (nv.kind k).trans (VF.kind k)) (fun k => (nv.cutoff k).trans (VF.cutoff k))
      (fun a b e => by rw [hk] at e; cases e)
  cases hdid : w.2.2 with
  | false =>
    rw [hdid, run_mcvm_false] at h
    cases h
    have nv : MW.NV (mwoX n w.2.1 w.1 es s) (mwoX n w.2.1 w.1 es s) := MW.NV.refl hXpc
    rcases hflag0 hdid with hnone | hsome
    · -- first run, "no change": patch the virtual pre-state
      have hvn : ((virt g s).nodeD n).value = none := hvnv.trans hnone
      have IP : DInv (VE env sp) (setValue n (some (sp m x)) (virt g s)) (some n) := MW.DInv.patch I hvn
      have hUP : Upd n (setValue n (some (sp m x)) (virt g s)) (virt g (mwoX n w.2.1 w.1 es s)) := by
        refine MW.mwoX_upd _ hlt F.pc (fun k => ?_) (fun k hk' => ?_) ?_ rfl rfl rfl
        · exact setValue_nodeD_with n _ (virt g s) k
        · rw [setValue_nodeD, if_neg (fun e => hk' e.1.symm)]
        · rw [setValue_size, virt_size]
      have hPn : ((setValue n (some (sp m x)) (virt g s)).nodeD n).value = some (sp m x) := by
        rw [setValue_nodeD, if_pos ⟨rfl, hltv⟩]
      have R : StepRelB n (sp m x) false none (setValue n (some (sp m x)) (virt g s)) (virt g (mwoX n w.2.1 w.1 es s)) :=
        MW.rel_false IP.graph IP.heap hUP rfl hXnv hXnr (by rw [hXnc, setValue_changedAt]) hPn
      exact fin (Or.inr ⟨_, rfl⟩) IP (MW.F2Inv.patch _ A) (MW.GenOK2.patch _ D.gen hvn) (MW.TargetB.patch_self hvn htarget) R nv
        (MW.kinv_first F D.k D.gs VF hnm hnone)
        (MW.dep_first D.dep D.cr VF (fun f args e => by rw [hk] at e; cases e) hnm hnone rfl
          (fun k => by rw [hX]; split
                       · rename_i e; rw [e]
                       · rfl)
          (fun k hk' => by rw [hX, if_neg hk']) (by rw [hXn]))
    · have R : StepRelB n (sp m x) false none (virt g s) (virt g (mwoX n w.2.1 w.1 es s)) :=
        MW.rel_false gr hi hUself rfl hXnv hXnr hXnc (hvnv.trans hsome)
      exact fin (Or.inl rfl) I A D.gen htarget R nv (valFrame_keepsK D.k VF (by rw [hXv, hsome])) (hdep R nv)
  | true =>
    rw [hdid] at h
    have FX : FFrag env sp g (mwoX n w.2.1 w.1 es s) := F.of_valFrame VF
    obtain ⟨hsim, -, -⟩ := Sim.maybeChangeValueManual (K := FK env sp) (g := g) (sp := sp) env fuel n none none true _ FX.fr r s' h
    have R : StepRelB n (sp m x) true r (virt g s) (virt g s') := MW.rel_true gr hi hltv hUself rfl hXnv hXnr hsim
    have qa : Step.Quiet (touched n (mwoX n w.2.1 w.1 es s)) s' := mcvm_true_quiet _ _ _ _ _ _ _ _ h
    exact fin (Or.inl rfl) I A D.gen htarget R (MW.NV.of_touched hXpc qa)
      (mcvm_keepsK F gr D.k VF (fun o ho => by cases ho) h) (hdep R (MW.NV.of_touched hXpc qa))

end IncrVerif.Proofs.FullH
