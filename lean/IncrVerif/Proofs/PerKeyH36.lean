import IncrVerif.Proofs.PerKeyH35
/-!
# A run of a per-key change detector, part 2d: the result of an operator whose change detector is necessary is
necessary (`res_nec`, the ownership walk); `inst_below`; `mid_perkeys`
-/
namespace IncrVerif.Proofs.PerKeyH
open IncrVerif.Engine IncrVerif.Driver IncrVerif.Proofs IncrVerif.Proofs.Step IncrVerif.Proofs.Sched
open IncrVerif.Proofs.ExpertH IncrVerif.Proofs.EffH IncrVerif.Proofs.DriverH IncrVerif.Proofs.ExpertH.QR

/-- in the fragment the engine's children are the structural children -/
theorem pf_children_kidsX {env : Env} {σ : State} (F : PFrag env σ) (p : Nat) :
    σ.children p = kidsX σ.experts (σ.nodeD p).kind := by
  unfold State.children Node.kind?
  rw [F.validD p, if_pos rfl]
  have hk := F.kindD p
  cases hkk : (σ.nodeD p).kind <;> rw [hkk] at hk <;> try exact hk.elim
  all_goals try rfl
  rename_i e
  simp only [ExpertH.kidsX]
  cases hx : σ.experts[e]? with
  | none => rw [xRec_none hx]; rfl
  | some er => rw [xRec_some hx]

/-! ## `res_nec` -/

/-- a necessary private node of an operator makes the operator's result necessary -/
theorem priv_nec_res {env : Env} {s : State} {n op : Nat} {pr : PerKeyRec} (D : PD env s (some n))
    (hop : s.perkeys[op]? = some pr) {x : Nat} (hx : Priv env pr x) (hnec : s.isNecessary x = true) :
    s.isNecessary pr.result = true := by
  have F := D.aux.frag
  have O := D.aux.pk.ops op pr hop
  have G := D.inv.graph
  obtain ⟨K, hK⟩ := exists_bound (fun m => ((s.nodeD m).height + 1).toNat) s.nodes.size
  suffices H : ∀ d x, K + 1 - ((s.nodeD x).height + 1).toNat ≤ d → Priv env pr x → s.isNecessary x = true →
      s.isNecessary pr.result = true from H _ x (Nat.le_refl _) hx hnec
  intro d
  induction d with
  | zero =>
    intro x hd _ hn
    have := hK x (nec_lt s x hn)
    have : ((s.nodeD x).height + 1).toNat ≤ K := this
    omega
  | succ d ih =>
    intro x hd hx hn
    have hn0 := hn
    unfold State.isNecessary Node.isNecessary at hn
    rw [F.force_all x, O.noObs x hx, Bool.or_false] at hn
    cases hps : (s.nodeD x).parents with
    | nil => rw [hps] at hn; simp at hn
    | cons ci rest =>
      obtain ⟨c, i⟩ := ci
      have hmem : (c, i) ∈ ((V s).nodeD x).parents := by
        rw [V_nodeD, vNode_parents, hps]; exact List.mem_cons_self
      obtain ⟨hcn, hch⟩ := G.parent x c i hmem
      obtain ⟨-, -, hlt⟩ := G.child c hcn i x hch
      have h0 := (G.nec c hcn).2
      rw [V_isNecessary] at hcn
      rw [V_children] at hch
      rw [V_nodeD, V_nodeD, vNode_height, vNode_height] at hlt
      rw [V_nodeD, vNode_height] at h0
      have hc : c < s.nodes.size := nec_lt s c hcn
      have hxk : x ∈ kidsX s.experts (s.nodeD c).kind := by
        rw [← pf_children_kidsX F c]; exact List.mem_of_getElem? hch
      rcases O.own c x hc hxk hx with e | hpc
      · rw [← e]; exact hcn
      · refine ih c ?_ hpc hcn
        omega

/-- **the result of an operator whose change detector is current is necessary** -/
theorem res_nec {env : Env} {s : State} {n op : Nat} {pr : PerKeyRec} (D : PD env s (some n))
    (hop : s.perkeys[op]? = some pr) (hn : pr.lhsChange = n) : s.isNecessary pr.result = true := by
  have h := (D.inv.cur n rfl).1
  rw [V_isNecessary] at h
  exact priv_nec_res D hop (Or.inl hn.symm) h

/-! ## `inst_below` -/

theorem option_mapM_mem {α β} {f : α → Option β} :
    ∀ (l : List α) (r : List β), l.mapM f = some r → ∀ a, a ∈ l → ∃ b, f a = some b ∧ b ∈ r := by
  intro l
  induction l with
  | nil => intro r _ a ha; cases ha
  | cons a0 l ih =>
    intro r h a ha
    rw [List.mapM_cons] at h
    cases hk : f a0 with
    | none => rw [hk] at h; cases h
    | some x =>
      cases hxs : l.mapM f with
      | none => rw [hk, hxs] at h; cases h
      | some xs =>
        rw [hk, hxs] at h
        cases h
        rcases List.mem_cons.1 ha with e | ha
        · subst e; exact ⟨x, hk, List.mem_cons_self⟩
        · obtain ⟨b, h1, h2⟩ := ih xs hxs a ha
          exact ⟨b, h1, List.mem_cons_of_mem _ h2⟩

/-- resolution against a prefix of the locals is resolution against all locals -/
theorem resP_take {top : Array Nat} {p : Nat} {locs : List Nat} {j : Nat} {o : Opnd} {x : Nat}
    (h : resP top (p :: locs.take j) o = some x) : resP top (p :: locs) o = some x := by
  cases o with
  | outer k => exact h
  | loc i =>
    cases i with
    | zero => exact h
    | succ i =>
      have h : (locs.take j)[i]? = some x := h
      show locs[i]? = some x
      rw [List.getElem?_take] at h
      split at h
      · exact h
      · cases h
  | abs _ => cases h
  | slot _ => cases h

/-- the operands of an instance node are its children -/
theorem inst_opnd_kid {s : State} {tm : Template} {key : Int} {p m : Nat} {locs : List Nat}
    (I : Inst s tm key p locs m) {j : Nat} {i : Instr} {c : Nat} (hj : tm.instrs[j]? = some i)
    (hc : locs[j]? = some c) {o : Opnd} (ho : o ∈ instrOpnds i) :
    ∃ x, resP s.top (p :: locs) o = some x ∧ x ∈ kidsX s.experts (s.nodeD c).kind := by
  have hk := I.kind j i c hj hc
  cases i with
  | map f args =>
    simp only [instrKind] at hk
    cases has : args.mapM (resP s.top (p :: locs.take j)) with
    | none => rw [has] at hk; cases hk
    | some as =>
      rw [has] at hk
      simp only [Option.map_some, Option.some.injEq] at hk
      obtain ⟨x, h1, h2⟩ := option_mapM_mem args as has o ho
      exact ⟨x, resP_take h1, by rw [← hk]; exact h2⟩
  | fold f init cs =>
    simp only [instrKind] at hk
    split at hk
    · cases hk
    · cases has : cs.mapM (resP s.top (p :: locs.take j)) with
      | none => rw [has] at hk; cases hk
      | some as =>
        rw [has] at hk
        simp only [Option.map_some, Option.some.injEq] at hk
        obtain ⟨x, h1, h2⟩ := option_mapM_mem cs as has o ho
        exact ⟨x, resP_take h1, by rw [← hk]; exact h2⟩
  | _ => cases ho

/-- every operand the returned node depends on resolves to a node below the returned node -/
theorem inst_below_uses {s : State} {tm : Template} {key : Int} {p m : Nat} {locs : List Nat}
    (I : Inst s tm key p locs m) {o : Opnd} (hu : Uses tm o) :
    ∃ x, resP s.top (p :: locs) o = some x ∧ ExpertH.Below s m x := by
  induction hu with
  | ret => exact ⟨m, I.ret, .refl m⟩
  | @step j i o _ hj ho ih =>
    obtain ⟨c, hc, hb⟩ := ih
    have hc : locs[j]? = some c := hc
    obtain ⟨x, h1, h2⟩ := inst_opnd_kid I hj hc ho
    exact ⟨x, h1, hb.tail h2⟩

/-- **the return node of an instance of a template that uses its input reaches the per-key input node** -/
theorem inst_below {env : Env} {s : State} {tm : Template} {key : Int} {p m : Nat} {locs : List Nat}
    (hT : TemplOK env tm) (I : Inst s tm key p locs m) : ExpertH.Below s m p := by
  obtain ⟨x, h1, h2⟩ := inst_below_uses I hT.uses
  have : x = p := by
    have h1 : (p :: locs)[0]? = some x := h1
    simpa using h1.symm
  rw [← this]; exact h2

/-! ## the operator records are not read by `Mid` -/

theorem twL_perkeys_upd (l : List Event) (σ : State) (pk : Array PerKeyRec) :
    twL l { σ with perkeys := pk } = { twL l σ with perkeys := pk } := rfl

theorem mid_perkeys {E : Env} {t : State} (M : Mid E t) (pk : Array PerKeyRec) : Mid E { t with perkeys := pk } := by
  obtain ⟨rk, I⟩ := M.st
  refine ⟨⟨M.frag.pc, M.frag.kind, M.frag.valid, M.frag.xrec, M.frag.xok⟩, ⟨M.ahh.length, M.ahh.buckets, M.ahh.marks⟩,
    ⟨rk, ?_⟩, M.pinv, M.handlers⟩
  exact GInv.congr I (SameG.of_nodes rfl rfl rfl rfl rfl)

theorem mid_twL_perkeys {env : Env} {l : List Event} {σ : State} (M : Mid (twEnv env) (twL l σ))
    (pk : Array PerKeyRec) : Mid (twEnv env) (twL l { σ with perkeys := pk }) := by
  rw [twL_perkeys_upd]; exact mid_perkeys M pk

end IncrVerif.Proofs.PerKeyH
