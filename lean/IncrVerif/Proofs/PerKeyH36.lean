import IncrVerif.Proofs.PerKeyH35
import IncrVerif.Proofs.PerKeyH39
/-!
# A run of a per-key change detector, part 2d: the result of an operator whose change detector is necessary is
necessary (`res_nec`, the ownership walk); `inst_below`; `mid_perkeys`; the ownership walk from a NECESSARY per-key input
node up to the result (`priv_nec_below`: the instance's return node reaches the per-key input node)
-/
namespace IncrVerif.Proofs.PerKeyH
open IncrVerif.Engine IncrVerif.Driver IncrVerif.Proofs IncrVerif.Proofs.Step IncrVerif.Proofs.Sched
open IncrVerif.Proofs.ExpertH IncrVerif.Proofs.EffH IncrVerif.Proofs.DriverH IncrVerif.Proofs.ExpertH.QR

/-- in the fragment the engine's children are the structural children -/
theorem pf_children_kidsX {env : Env} {σ : State} (F : PFrag env σ) (p : Nat) :
    σ.children p = kidsX σ.experts (σ.nodeD p).kind := by
  unfold State.children Node.kind?
  rw [F.validD p, if_pos rfl]
  have hk := F.kindD p
  cases hkk : (σ.nodeD p).kind <;> rw [hkk] at hk <;> try exact hk.elim
  all_goals try rfl
  rename_i e
  simp only [ExpertH.kidsX]
  cases hx : σ.experts[e]? with
  | none => rw [xRec_none hx]; rfl
  | some er => rw [xRec_some hx]

/-! ## `res_nec` -/

/-- a necessary private node of an operator makes the operator's result necessary -/
theorem priv_nec_res {env : Env} {s : State} {n op : Nat} {pr : PerKeyRec} (D : PD env s (some n))
    (hop : s.perkeys[op]? = some pr) {x : Nat} (hx : Priv env pr x) (hnec : s.isNecessary x = true) :
    s.isNecessary pr.result = true := by
  have F := D.aux.frag
  have O := D.aux.pk.ops op pr hop
  have G := D.inv.graph
  obtain ⟨K, hK⟩ := exists_bound (fun m => ((s.nodeD m).height + 1).toNat) s.nodes.size
  suffices H : ∀ d x, K + 1 - ((s.nodeD x).height + 1).toNat ≤ d → Priv env pr x → s.isNecessary x = true →
      s.isNecessary pr.result = true from H _ x (Nat.le_refl _) hx hnec
  intro d
  induction d with
  | zero =>
    intro x hd _ hn
    have := hK x (nec_lt s x hn)
    have : ((s.nodeD x).height + 1).toNat ≤ K := this
    omega
  | succ d ih =>
    intro x hd hx hn
    have hn0 := hn
    unfold State.isNecessary Node.isNecessary at hn
    rw [F.force_all x, O.noObs x hx, Bool.or_false] at hn
    cases hps : (s.nodeD x).parents with
    | nil => rw [hps] at hn; simp at hn
    | cons ci rest =>
      obtain ⟨c, i⟩ := ci
      have hmem : (c, i) ∈ ((V s).nodeD x).parents := by
        rw [V_nodeD, vNode_parents, hps]; exact List.mem_cons_self
      obtain ⟨hcn, hch⟩ := G.parent x c i hmem
      obtain ⟨-, -, hlt⟩ := G.child c hcn i x hch
      have h0 := (G.nec c hcn).2
      rw [V_isNecessary] at hcn
      rw [V_children] at hch
      rw [V_nodeD, V_nodeD, vNode_height, vNode_height] at hlt
      rw [V_nodeD, vNode_height] at h0
      have hc : c < s.nodes.size := nec_lt s c hcn
      have hxk : x ∈ kidsX s.experts (s.nodeD c).kind := by
        rw [← pf_children_kidsX F c]; exact List.mem_of_getElem? hch
      rcases O.own c x hc hxk hx with e | hpc
      · rw [← e]; exact hcn
      · refine ih c ?_ hpc hcn
        omega

/-- **the result of an operator whose change detector is current is necessary** -/
theorem res_nec {env : Env} {s : State} {n op : Nat} {pr : PerKeyRec} (D : PD env s (some n))
    (hop : s.perkeys[op]? = some pr) (hn : pr.lhsChange = n) : s.isNecessary pr.result = true := by
  have h := (D.inv.cur n rfl).1
  rw [V_isNecessary] at h
  exact priv_nec_res D hop (Or.inl hn.symm) h

/-! ## `inst_below` -/

theorem option_mapM_mem {α β} {f : α → Option β} :
    ∀ (l : List α) (r : List β), l.mapM f = some r → ∀ a, a ∈ l → ∃ b, f a = some b ∧ b ∈ r := by
  intro l
  induction l with
  | nil => intro r _ a ha; cases ha
  | cons a0 l ih =>
    intro r h a ha
    rw [List.mapM_cons] at h
    cases hk : f a0 with
    | none => rw [hk] at h; cases h
    | some x =>
      cases hxs : l.mapM f with
      | none => rw [hk, hxs] at h; cases h
      | some xs =>
        rw [hk, hxs] at h
        cases h
        rcases List.mem_cons.1 ha with e | ha
        · subst e; exact ⟨x, hk, List.mem_cons_self⟩
        · obtain ⟨b, h1, h2⟩ := ih xs hxs a ha
          exact ⟨b, h1, List.mem_cons_of_mem _ h2⟩

/-- resolution against a prefix of the locals is resolution against all locals -/
theorem resP_take {top : Array Nat} {p : Nat} {locs : List Nat} {j : Nat} {o : Opnd} {x : Nat}
    (h : resP top (p :: locs.take j) o = some x) : resP top (p :: locs) o = some x := by
  cases o with
  | outer k => exact h
  | loc i =>
    cases i with
    | zero => exact h
    | succ i =>
      have h : (locs.take j)[i]? = some x := h
      show locs[i]? = some x
      rw [List.getElem?_take] at h
      split at h
      · exact h
      · cases h
  | abs _ => cases h
  | slot _ => cases h

/-- the operands of an instance node are its children -/
theorem inst_opnd_kid {s : State} {tm : Template} {key : Int} {p m : Nat} {locs : List Nat}
    (I : Inst s tm key p locs m) {j : Nat} {i : Instr} {c : Nat} (hj : tm.instrs[j]? = some i)
    (hc : locs[j]? = some c) {o : Opnd} (ho : o ∈ instrOpnds i) :
    ∃ x, resP s.top (p :: locs) o = some x ∧ x ∈ kidsX s.experts (s.nodeD c).kind := by
  have hk := I.kind j i c hj hc
  cases i with
  | map f args =>
    simp only [instrKind] at hk
    cases has : args.mapM (resP s.top (p :: locs.take j)) with
    | none => rw [has] at hk; cases hk
    | some as =>
      rw [has] at hk
      simp only [Option.map_some, Option.some.injEq] at hk
      obtain ⟨x, h1, h2⟩ := option_mapM_mem args as has o ho
      exact ⟨x, resP_take h1, by rw [← hk]; exact h2⟩
  | fold f init cs =>
    simp only [instrKind] at hk
    split at hk
    · cases hk
    · cases has : cs.mapM (resP s.top (p :: locs.take j)) with
      | none => rw [has] at hk; cases hk
      | some as =>
        rw [has] at hk
        simp only [Option.map_some, Option.some.injEq] at hk
        obtain ⟨x, h1, h2⟩ := option_mapM_mem cs as has o ho
        exact ⟨x, resP_take h1, by rw [← hk]; exact h2⟩
  | _ => cases ho

/-- every operand the returned node depends on resolves to a node below the returned node -/
theorem inst_below_uses {s : State} {tm : Template} {key : Int} {p m : Nat} {locs : List Nat}
    (I : Inst s tm key p locs m) {o : Opnd} (hu : Uses tm o) :
    ∃ x, resP s.top (p :: locs) o = some x ∧ ExpertH.Below s m x := by
  induction hu with
  | ret => exact ⟨m, I.ret, .refl m⟩
  | @step j i o _ hj ho ih =>
    obtain ⟨c, hc, hb⟩ := ih
    have hc : locs[j]? = some c := hc
    obtain ⟨x, h1, h2⟩ := inst_opnd_kid I hj hc ho
    exact ⟨x, h1, hb.tail h2⟩

/-- **the return node of an instance of a template that uses its input reaches the per-key input node** -/
theorem inst_below {s : State} {tm : Template} {key : Int} {p m : Nat} {locs : List Nat}
    (hT : UsesInput tm) (I : Inst s tm key p locs m) : ExpertH.Below s m p := by
  obtain ⟨x, h1, h2⟩ := inst_below_uses I hT
  have : x = p := by
    have h1 : (p :: locs)[0]? = some x := h1
    simpa using h1.symm
  rw [← this]; exact h2

/-! ## the ownership walk from a necessary per-key input node up to the result -/

theorem option_mapM_mem_back {α β} {f : α → Option β} :
    ∀ (l : List α) (r : List β), l.mapM f = some r → ∀ b, b ∈ r → ∃ a, a ∈ l ∧ f a = some b := by
  intro l
  induction l with
  | nil =>
    intro r h b hb
    rw [List.mapM_nil] at h
    cases h
    cases hb
  | cons a0 l ih =>
    intro r h b hb
    rw [List.mapM_cons] at h
    cases hk : f a0 with
    | none => rw [hk] at h; cases h
    | some x =>
      cases hxs : l.mapM f with
      | none => rw [hk, hxs] at h; cases h
      | some xs =>
        rw [hk, hxs] at h
        cases h
        rcases List.mem_cons.1 hb with e | hb
        · subst e; exact ⟨a0, List.mem_cons_self, hk⟩
        · obtain ⟨a, h1, h2⟩ := ih xs hxs b hb
          exact ⟨a, List.mem_cons_of_mem _ h1, h2⟩

/-- the kind of an instance node: not an expert node; its children are resolved operands -/
theorem instrKind_kidsX {top : Array Nat} {loc : List Nat} {v : Val} {i : Instr} {k : Kind}
    (h : instrKind top loc v i = some k) :
    (∀ e, k ≠ .expert e) ∧ ∀ (xs : Array ExpertRec) (x : Nat), x ∈ kidsX xs k → ∃ o, resP top loc o = some x := by
  cases i with
  | const w =>
    simp only [instrKind, Option.some.injEq] at h
    subst h
    exact ⟨fun e he => (by cases he), fun xs x hx => (by cases hx)⟩
  | lhsConst =>
    simp only [instrKind, Option.some.injEq] at h
    subst h
    exact ⟨fun e he => (by cases he), fun xs x hx => (by cases hx)⟩
  | map f args =>
    simp only [instrKind, Option.map_eq_some_iff] at h
    obtain ⟨as, has, rfl⟩ := h
    refine ⟨fun e he => (by cases he), fun xs x hx => ?_⟩
    obtain ⟨o, -, ho⟩ := option_mapM_mem_back args as has x hx
    exact ⟨o, ho⟩
  | fold f init cs =>
    simp only [instrKind] at h
    split at h
    · cases h
    · simp only [Option.map_eq_some_iff] at h
      obtain ⟨as, has, rfl⟩ := h
      refine ⟨fun e he => (by cases he), fun xs x hx => ?_⟩
      obtain ⟨o, -, ho⟩ := option_mapM_mem_back cs as has x hx
      exact ⟨o, ho⟩
  | _ => cases h

/-- what an operand resolves to against `p :: locs`, the locals within `p … p + len`: a named node or a node of that range -/
theorem resP_bounds {top : Array Nat} {p len : Nat} {locs : List Nat} {o : Opnd} {x : Nat}
    (hl : ∀ c, c ∈ locs → p ≤ c ∧ c ≤ p + len) (h : resP top (p :: locs) o = some x) :
    (∃ k : Nat, top[k]? = some x) ∨ (p ≤ x ∧ x ≤ p + len) := by
  cases o with
  | outer k => exact Or.inl ⟨k, h⟩
  | loc i =>
    refine Or.inr ?_
    cases i with
    | zero =>
      have h : some p = some x := h
      cases h
      omega
    | succ i =>
      have h : locs[i]? = some x := h
      exact hl x (List.mem_of_getElem? h)
  | abs _ => cases h
  | slot _ => cases h

theorem range'_bounds (p len : Nat) : ∀ c, c ∈ List.range' (p + 1) len → p ≤ c ∧ c ≤ p + len := by
  intro c hc
  rw [List.mem_range'_1] at hc
  omega

theorem nodup_map_inj {α β} {f : α → β} : ∀ {l : List α}, (l.map f).Nodup → ∀ {a b}, a ∈ l → b ∈ l → f a = f b → a = b := by
  intro l
  induction l with
  | nil => intro _ a b ha; cases ha
  | cons x l ih =>
    intro h a b ha hb hab
    rw [List.map_cons, List.nodup_cons] at h
    rcases List.mem_cons.1 ha with ea | ha'
    · rcases List.mem_cons.1 hb with eb | hb'
      · rw [ea, eb]
      · rw [ea] at hab
        exact absurd (List.mem_map.2 ⟨b, hb', hab.symm⟩) h.1
    · rcases List.mem_cons.1 hb with eb | hb'
      · rw [eb] at hab
        exact absurd (List.mem_map.2 ⟨a, ha', hab⟩) h.1
      · exact ih h.2 ha' hb' hab

section walk
variable {env : Env} {s : State} {op : Nat} {pr : PerKeyRec} {er : ExpertRec}

/-- a per-key input node is not a node of another entry's instance -/
theorem entry_not_in_inst {key key' : Int} {p d p' d' : Nat} (E : EntryOK env s op pr er key p d)
    (E' : EntryOK env s op pr er key' p' d') (h1 : p < p') (h2 : p' ≤ p + (env.perKey pr.fam).instrs.length) : False := by
  obtain ⟨ed, -, -, hI, -⟩ := E.consec
  have hj : p' - (p + 1) < (env.perKey pr.fam).instrs.length := by omega
  obtain ⟨i, hi⟩ : ∃ i, (env.perKey pr.fam).instrs[p' - (p + 1)]? = some i := ⟨_, List.getElem?_eq_getElem hj⟩
  have hr : (List.range' (p + 1) (env.perKey pr.fam).instrs.length)[p' - (p + 1)]? = some p' := by
    rw [List.getElem?_range' hj]
    congr 1; omega
  have hkind := hI.kind _ i p' hi hr
  obtain ⟨ep, erp, d0, hk, -⟩ := E'.pnode
  exact (instrKind_kidsX hkind).1 ep hk

/-- the instances of two entries are disjoint -/
theorem entry_range_eq {key key' : Int} {p d p' d' : Nat} (E : EntryOK env s op pr er key p d)
    (E' : EntryOK env s op pr er key' p' d') {x : Nat} (h1 : p ≤ x) (h2 : x ≤ p + (env.perKey pr.fam).instrs.length)
    (h1' : p' ≤ x) (h2' : x ≤ p' + (env.perKey pr.fam).instrs.length) : p' = p := by
  refine Classical.byContradiction fun hne => ?_
  rcases Nat.lt_or_gt_of_ne hne with h | h
  · exact entry_not_in_inst E' E h (by omega)
  · exact entry_not_in_inst E E' h (by omega)

/-- two entries with the same per-key input node are the same entry -/
theorem entry_same {key key' : Int} {p d d' : Nat} (hkeys : (pr.prevNodes.map (·.1)).Nodup)
    (hm : (key, (p, d)) ∈ pr.prevNodes) (hm' : (key', (p, d')) ∈ pr.prevNodes)
    (E : EntryOK env s op pr er key p d) (E' : EntryOK env s op pr er key' p d') : d' = d := by
  obtain ⟨ep, erp, d0, hk, hx, hpk, -⟩ := E.pnode
  obtain ⟨ep', erp', d0', hk', hx', hpk', -⟩ := E'.pnode
  rw [hk] at hk'
  cases hk'
  rw [hx] at hx'
  cases hx'
  rw [hpk] at hpk'
  cases hpk'
  have a := (list_lookup_eq_some_iff_mem hkeys key _).2 hm
  have b := (list_lookup_eq_some_iff_mem hkeys key _).2 hm'
  rw [a] at b
  cases b
  rfl

end walk

/-- **a NECESSARY per-key input node is used by its instance**: the ownership walk up the parent entries (all of them private
nodes of the node's own instance: instances are disjoint ranges, private nodes have no observer and no name) ends at the
result, through the dependency of its own entry -/
theorem priv_nec_below {env : Env} {s : State} {n op : Nat} {pr : PerKeyRec} (D : PD env s (some n))
    (hop : s.perkeys[op]? = some pr) {key : Int} {p d : Nat} (hm : (key, (p, d)) ∈ pr.prevNodes)
    {e : Nat} {er : ExpertRec} (hres : (s.nodeD pr.result).kind = .expert e) (he : s.experts[e]? = some er)
    (hnec : s.isNecessary p = true) : ∃ ed, ed ∈ er.children ∧ ed.dep = d ∧ ExpertH.Below s ed.child p := by
  have F := D.aux.frag
  have O := D.aux.pk.ops op pr hop
  have G := D.inv.graph
  obtain ⟨x0, e0, er0, hN, he0, hpk0, ⟨d0, rest, hch, hrest, hd0⟩, hent, hout⟩ := O.nodes
  have hee : e0 = e := by
    have := hN.result; rw [hres] at this; cases this; rfl
  subst hee
  rw [he] at he0
  cases he0
  have E := hent key p d hm
  have hplow : pr.result + 2 < p := by obtain ⟨_, _, _, _, _, _, _, h6⟩ := E.edge; exact h6
  have hlc := hN.lc
  have hdeps := (D.aux.slots.deps e0 er he).1
  obtain ⟨K, hK⟩ := exists_bound (fun m => ((s.nodeD m).height + 1).toNat) s.nodes.size
  suffices H : ∀ dd x, K + 1 - ((s.nodeD x).height + 1).toNat ≤ dd → p ≤ x →
      x ≤ p + (env.perKey pr.fam).instrs.length → s.isNecessary x = true → ExpertH.Below s x p →
      ∃ ed, ed ∈ er.children ∧ ed.dep = d ∧ ExpertH.Below s ed.child p from
    H _ p (Nat.le_refl _) (Nat.le_refl _) (Nat.le_add_right _ _) hnec (.refl p)
  intro dd
  induction dd with
  | zero =>
    intro x hd _ _ hn _
    have := hK x (nec_lt s x hn)
    have : ((s.nodeD x).height + 1).toNat ≤ K := this
    omega
  | succ dd ih =>
    intro x hd hx1 hx2 hn hb
    have hx : Priv env pr x := Or.inr ⟨key, p, d, hm, hx1, hx2⟩
    have hn0 := hn
    unfold State.isNecessary Node.isNecessary at hn
    rw [F.force_all x, O.noObs x hx, Bool.or_false] at hn
    cases hps : (s.nodeD x).parents with
    | nil => rw [hps] at hn; simp at hn
    | cons ci restp =>
      obtain ⟨c, i⟩ := ci
      have hmem : (c, i) ∈ ((V s).nodeD x).parents := by
        rw [V_nodeD, vNode_parents, hps]; exact List.mem_cons_self
      obtain ⟨hcn, hchc⟩ := G.parent x c i hmem
      obtain ⟨-, -, hlt⟩ := G.child c hcn i x hchc
      have h0 := (G.nec c hcn).2
      rw [V_isNecessary] at hcn
      rw [V_children] at hchc
      rw [V_nodeD, V_nodeD, vNode_height, vNode_height] at hlt
      rw [V_nodeD, vNode_height] at h0
      have hc : c < s.nodes.size := nec_lt s c hcn
      have hxk : x ∈ kidsX s.experts (s.nodeD c).kind := by
        rw [← pf_children_kidsX F c]; exact List.mem_of_getElem? hchc
      -- what a named node / a node of another instance gives
      have hnamed : ¬ ∃ k : Nat, s.top[k]? = some x := fun ⟨k, hk⟩ => O.privTop k x hk hx
      rcases O.own c x hc hxk hx with ec | hpc
      · -- the result: through the dependency of this entry
        rw [ec, hres] at hxk
        simp only [kidsX, xRec_some he, List.mem_map] at hxk
        obtain ⟨ed, hed, hedc⟩ := hxk
        have hed0 := hed
        rw [hch] at hed
        rcases List.mem_cons.1 hed with e1 | hedr
        · exfalso
          have : x = pr.lhsChange := by rw [← hedc, e1]
          omega
        · obtain ⟨key', p', hm'⟩ := hrest ed hedr
          have E' := hent key' p' ed.dep hm'
          obtain ⟨ed', hed', hdep', hI', -⟩ := E'.consec
          have : ed' = ed := nodup_map_inj hdeps hed' hed0 hdep'
          subst this
          rcases resP_bounds (range'_bounds p' _) hI'.ret with hk | ⟨b1, b2⟩
          · rw [hedc] at hk; exact absurd hk hnamed
          · rw [hedc] at b1 b2
            have hpp := entry_range_eq E E' hx1 hx2 b1 b2
            subst hpp
            exact ⟨ed', hed0, entry_same O.keys hm hm' E E', by rw [hedc]; exact hb⟩
      · rcases hpc with ec | ⟨key', p', d', hm', c1, c2⟩
        · -- the change detector has one child: the conversion node
          exfalso
          have hk := hN.lcKind
          rw [← hlc, ← ec] at hk
          rw [hk] at hxk
          simp only [kidsX, List.mem_singleton] at hxk
          omega
        · have E' := hent key' p' d' hm'
          have hin : p' ≤ x ∧ x ≤ p' + (env.perKey pr.fam).instrs.length := by
            by_cases hcp : c = p'
            · exfalso
              obtain ⟨ep, erp, dd0, hk, hxp, -, hchp⟩ := E'.pnode
              rw [hcp, hk] at hxk
              simp only [kidsX, xRec_some hxp, hchp, List.map_cons, List.map_nil, List.mem_singleton] at hxk
              omega
            · obtain ⟨ed', -, -, hI', -⟩ := E'.consec
              have hj : c - (p' + 1) < (env.perKey pr.fam).instrs.length := by omega
              obtain ⟨i', hi'⟩ : ∃ i', (env.perKey pr.fam).instrs[c - (p' + 1)]? = some i' :=
                ⟨_, List.getElem?_eq_getElem hj⟩
              have hr : (List.range' (p' + 1) (env.perKey pr.fam).instrs.length)[c - (p' + 1)]? = some c := by
                rw [List.getElem?_range' hj]
                congr 1; omega
              have hkind := hI'.kind _ i' c hi' hr
              obtain ⟨o, ho⟩ := (instrKind_kidsX hkind).2 s.experts x hxk
              rcases resP_bounds (fun c hc => range'_bounds p' _ c (List.mem_of_mem_take hc)) ho with hk | hb'
              · exact absurd hk hnamed
              · exact hb'
          have hpp := entry_range_eq E E' hx1 hx2 hin.1 hin.2
          subst hpp
          refine ih c ?_ c1 c2 hcn (.step hxk hb)
          omega

/-! ## the operator records are not read by `Mid` -/

theorem twL_perkeys_upd (l : List Event) (σ : State) (pk : Array PerKeyRec) :
    twL l { σ with perkeys := pk } = { twL l σ with perkeys := pk } := rfl

theorem mid_perkeys {E : Env} {t : State} (M : Mid E t) (pk : Array PerKeyRec) : Mid E { t with perkeys := pk } := by
  obtain ⟨rk, I⟩ := M.st
  refine ⟨⟨M.frag.pc, M.frag.kind, M.frag.valid, M.frag.xrec, M.frag.xok⟩, ⟨M.ahh.length, M.ahh.buckets, M.ahh.marks⟩,
    ⟨rk, ?_⟩, M.pinv, M.handlers⟩
  exact GInv.congr I (SameG.of_nodes rfl rfl rfl rfl rfl)

theorem mid_twL_perkeys {env : Env} {l : List Event} {σ : State} (M : Mid (twEnv env) (twL l σ))
    (pk : Array PerKeyRec) : Mid (twEnv env) (twL l { σ with perkeys := pk }) := by
  rw [twL_perkeys_upd]; exact mid_perkeys M pk

end IncrVerif.Proofs.PerKeyH
