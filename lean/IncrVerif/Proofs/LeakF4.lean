import IncrVerif.Proofs.LeakF3
/-!
# LeakF4 — `Sim` (a run that returns leaves `State.handles` unchanged) through the engine, port of `Proofs/NecRel4.lean`
-/
namespace IncrVerif.Proofs.LeakF
open IncrVerif.Engine IncrVerif.Proofs

theorem sim_valueUnwrap (env : Env) (n : Nat) (site : String) : Sim (valueUnwrap env n site) := by
  unfold valueUnwrap; sim
macro_rules | `(tactic| sim_lemma) => `(tactic| exact sim_valueUnwrap _ _ _)

theorem sim_childChanged (env : Env) (fuel p c ci : Nat) (o : Option Val) :
    Sim (childChanged env fuel p c ci o) := by
  induction fuel generalizing p c ci o with
  | zero => unfold childChanged; sim
  | succ fuel ih => unfold childChanged; sim
macro_rules | `(tactic| sim_lemma) => `(tactic| exact sim_childChanged _ _ _ _ _ _)

theorem sim_parentIterCanRecomputeNow (p child : Nat) : Sim (parentIterCanRecomputeNow p child) := by
  unfold parentIterCanRecomputeNow; sim
macro_rules | `(tactic| sim_lemma) => `(tactic| exact sim_parentIterCanRecomputeNow _ _)
theorem sim_maybeChangeValueManual (env : Env) (fuel n : Nat) (o : Option Val) (b1 b2 : Bool) :
    Sim (maybeChangeValueManual env fuel n o b1 b2) := by
  unfold maybeChangeValueManual; sim
macro_rules | `(tactic| sim_lemma) => `(tactic| exact sim_maybeChangeValueManual _ _ _ _ _ _)
theorem sim_maybeChangeValue (env : Env) (fuel n : Nat) (v : Val) : Sim (maybeChangeValue env fuel n v) := by
  unfold maybeChangeValue; sim
macro_rules | `(tactic| sim_lemma) => `(tactic| exact sim_maybeChangeValue _ _ _ _)
theorem sim_expertIdxRaw (n : Nat) : Sim (expertIdxRaw n) := by unfold expertIdxRaw; sim
macro_rules | `(tactic| sim_lemma) => `(tactic| exact sim_expertIdxRaw _)
theorem sim_runEffects (env : Env) (fuel : Nat) (effs : List Effect) (arg : Int) :
    Sim (runEffects env fuel effs arg) := by
  unfold runEffects; sim
macro_rules | `(tactic| sim_lemma) => `(tactic| exact sim_runEffects _ _ _ _)
theorem sim_expertValue (env : Env) (e : Nat) (dv sv : List (Option Val)) : Sim (expertValue env e dv sv) := by
  unfold expertValue; sim
macro_rules | `(tactic| sim_lemma) => `(tactic| exact sim_expertValue _ _ _ _)
theorem sim_withOldEvents (env : Env) (g n : Nat) (σ : Val) (old : Option Val) (x new : Val) (did : Bool) :
    Sim (withOldEvents env g n σ old x new did) := by
  unfold withOldEvents; sim
macro_rules | `(tactic| sim_lemma) => `(tactic| exact sim_withOldEvents _ _ _ _ _ _ _ _)
theorem sim_perKeyDriver (env : Env) (fuel op : Nat) (newMap : List (Int × Int)) :
    Sim (perKeyDriver env fuel op newMap) := by
  unfold perKeyDriver; sim
macro_rules | `(tactic| sim_lemma) => `(tactic| exact sim_perKeyDriver _ _ _ _)

set_option maxHeartbeats 1000000 in
theorem sim_recomputeOne (env : Env) (fuel n : Nat) : Sim (recomputeOne env fuel n) := by
  unfold recomputeOne
  sim
macro_rules | `(tactic| sim_lemma) => `(tactic| exact sim_recomputeOne _ _ _)

theorem sim_recompute (env : Env) (fuel n : Nat) : Sim (recompute env fuel n) := by
  induction fuel generalizing n with
  | zero => unfold recompute; sim
  | succ fuel ih => unfold recompute; sim
macro_rules | `(tactic| sim_lemma) => `(tactic| exact sim_recompute _ _ _)

theorem sim_addNewObservers (env : Env) (fuel : Nat) : Sim (addNewObservers env fuel) := by
  unfold addNewObservers; sim
macro_rules | `(tactic| sim_lemma) => `(tactic| exact sim_addNewObservers _ _)
theorem sim_unlinkDisallowedObservers (fuel : Nat) : Sim (unlinkDisallowedObservers fuel) := by
  unfold unlinkDisallowedObservers; sim
macro_rules | `(tactic| sim_lemma) => `(tactic| exact sim_unlinkDisallowedObservers _)
theorem sim_runAll (env : Env) (fuel o n : Nat) (nu : NodeUpdate) (now : Int) :
    Sim (runAll env fuel o n nu now) := by
  unfold runAll; sim
macro_rules | `(tactic| sim_lemma) => `(tactic| exact sim_runAll _ _ _ _ _ _)
theorem sim_stabiliseEnd (env : Env) (fuel : Nat) : Sim (stabiliseEnd env fuel) := by
  unfold stabiliseEnd; sim
macro_rules | `(tactic| sim_lemma) => `(tactic| exact sim_stabiliseEnd _ _)
theorem sim_drainHeap (env : Env) (fuel : Nat) : Sim (drainHeap env fuel) := by
  induction fuel with
  | zero => unfold drainHeap; sim
  | succ fuel ih => unfold drainHeap; sim
macro_rules | `(tactic| sim_lemma) => `(tactic| exact sim_drainHeap _ _)
theorem sim_stabilise (env : Env) (fuel : Nat) : Sim (stabilise env fuel) := by
  unfold stabilise; sim
theorem sim_setMaxHeightAllowed (newMax : Nat) : Sim (setMaxHeightAllowed newMax) := by
  unfold setMaxHeightAllowed; sim

end IncrVerif.Proofs.LeakF
