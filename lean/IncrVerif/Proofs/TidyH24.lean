import IncrVerif.Proofs.TidyH23
import IncrVerif.Props.C09History
/-!
# T3a part 7: a Boolean validity checker and non-vacuity

`validHistB` decides `ValidHistS`; with it the validity of a concrete history is a `decide +kernel`, and
"never panics" follows from the THEOREM (`history_total`), not from running the history.
-/
namespace IncrVerif.Proofs.TidyH.SubsT
open IncrVerif.Engine IncrVerif.Driver IncrVerif.Proofs IncrVerif.Proofs.Step IncrVerif.Proofs.Sched
open IncrVerif.Proofs.Quiet

def opndB (nn : Nat) : Opnd → Bool
  | .outer k => decide (k < nn)
  | _ => false

def instrB (nn : Nat) : Instr → Bool
  | .map _ args => args.all (opndB nn)
  | .fold _ _ cs => cs.all (opndB nn)
  | .zip a b => opndB nn a && opndB nn b
  | _ => true

/-- `ActionOKc ∧ SubsOKc`, decided -/
def actionOKb (N nn nv no : Nat) : Action → Bool
  | .create i => instrB nn i && decide (nn + 1 ≤ N)
  | .observe n => opndB nn n
  | .dropObs o | .disallow o | .subscribe o _ => decide (o < no)
  | .set v _ | .modify v _ | .update v _ | .replace v _ | .replaceWith v _ | .get v => decide (v < nv)
  | .stabilise => decide (3 * nn + 4 ≤ fuelDefault)
  | _ => true

def validHistB (N : Nat) : Nat → Nat → Nat → List Action → Bool
  | _, _, _, [] => true
  | nn, nv, no, a :: as =>
    actionOKb N nn nv no a && validHistB N (nn + (grow a).1) (nv + (grow a).2.1) (no + (grow a).2.2) as

theorem opndB_sound {nn : Nat} {a : Opnd} (h : opndB nn a = true) : ∃ k, a = Opnd.outer k ∧ k < nn := by
  cases a with
  | outer k => exact ⟨k, rfl, of_decide_eq_true h⟩
  | _ => cases h

theorem actionOKb_sound {N nn nv no : Nat} {a : Action} (h : actionOKb N nn nv no a = true) :
    ActionOKc N nn nv no a ∧ SubsOKc no a := by
  cases a <;> try exact ⟨trivial, trivial⟩
  case create i =>
    simp only [actionOKb, Bool.and_eq_true, decide_eq_true_eq] at h
    refine ⟨⟨?_, h.2⟩, trivial⟩
    cases i <;> try trivial
    case map f args =>
      intro a ha
      exact opndB_sound (List.all_eq_true.1 h.1 a ha)
    case fold f init cs =>
      intro a ha
      exact opndB_sound (List.all_eq_true.1 h.1 a ha)
    case zip a b =>
      have h1 : (opndB nn a && opndB nn b) = true := h.1
      rw [Bool.and_eq_true] at h1
      exact ⟨opndB_sound h1.1, opndB_sound h1.2⟩
  case observe n => exact ⟨opndB_sound h, trivial⟩
  case dropObs o => exact ⟨(of_decide_eq_true h : o < no), trivial⟩
  case disallow o => exact ⟨(of_decide_eq_true h : o < no), trivial⟩
  case subscribe o hid => exact ⟨trivial, (of_decide_eq_true h : o < no)⟩
  case set v x => exact ⟨(of_decide_eq_true h : v < nv), trivial⟩
  case modify v d => exact ⟨(of_decide_eq_true h : v < nv), trivial⟩
  case update v d => exact ⟨(of_decide_eq_true h : v < nv), trivial⟩
  case replace v x => exact ⟨(of_decide_eq_true h : v < nv), trivial⟩
  case replaceWith v d => exact ⟨(of_decide_eq_true h : v < nv), trivial⟩
  case get v => exact ⟨(of_decide_eq_true h : v < nv), trivial⟩
  case stabilise => exact ⟨(of_decide_eq_true h : 3 * nn + 4 ≤ fuelDefault), trivial⟩

theorem validHistB_sound {N : Nat} : ∀ {acts : List Action} {nn nv no : Nat},
    validHistB N nn nv no acts = true → ValidHistS N nn nv no acts := by
  intro acts
  induction acts with
  | nil => intro _ _ _ _; trivial
  | cons a as ih =>
    intro nn nv no h
    simp only [validHistB, Bool.and_eq_true] at h
    obtain ⟨h1, h2⟩ := actionOKb_sound h.1
    exact ⟨h1, h2, ih h.2⟩

/-! ## non-vacuity -/

open IncrVerif.Props.C09History in
/-- the example history of `Props/C09History.lean` (var, map, observe, subscribe, stabilise, set, stabilise, set
to the same value, stabilise, second observer, stabilise, unsubscribe, set, stabilise) is valid -/
theorem exHist_valid : ValidHistS 128 0 0 0 IncrVerif.Props.C09History.exHist :=
  validHistB_sound (by decide +kernel)

open IncrVerif.Props.C09History in
/-- hence it never panics BY THE THEOREM, its final state satisfies the invariants, and every token receives
exactly its specified updates -/
example : ∃ s' tk', runActions Step.exEnv exHist (State.init 128 true) #[] = .ok (s', tk') ∧
    SubsH.UInv Step.exEnv s' ∧ TInv 128 s' ∧
    ∀ t, SubsH.tokLog t s'.log = SubsH.specT Step.exEnv t exHist (State.init 128 true) #[] [] ∧
      SubsH.Shape (SubsH.tokLog t s'.log) :=
  valid_history_notifications exEnv_pure exHist_ok exHist_valid

open IncrVerif.Props.C09History in
/-- and token 0 receives `Initialised 1`, `Changed 5` (the specification computed by the kernel) -/
example : ∃ s' tk', runActions Step.exEnv exHist (State.init 128 true) #[] = .ok (s', tk') ∧
    SubsH.tokLog 0 s'.log = [.initialised (.int 1), .changed (.int 5)] := by
  obtain ⟨s', tk', h, -, -, hl⟩ := valid_history_notifications (d := true) exEnv_pure exHist_ok exHist_valid
  refine ⟨s', tk', h, ?_⟩
  rw [(hl 0).1]
  decide +kernel

open IncrVerif.Props.C09History in
/-- the D4 situation (a second subscription on the same observer) is valid as well -/
theorem exHist2_valid : ValidHistS 128 0 0 0 exHist2 := validHistB_sound (by decide +kernel)

/-- a history with `unsubscribe` of a token that was never issued, `stateUnsub`, a foreign `unsubscribe`
(token 0 belongs to observer 0, not 1), subscriptions on a created, an in-use and a disallowed observer -/
def exHist3 : List Action :=
  [.create (.var (.int 1)), .create (.map 0 [.outer 0]), .observe (.outer 1), .unsubscribe 0 7, .stateUnsub 3,
   .subscribe 0 0, .observe (.outer 1), .stabilise, .subscribe 1 0, .unsubscribe 1 0, .set 0 (.int 4),
   .stabilise, .disallow 1, .subscribe 1 0, .stateUnsub 0, .stabilise, .dropObs 0, .stabilise]

theorem exHist3_ok : ∀ a, a ∈ exHist3 → SubsH.SubAction Step.exEnv a := by
  intro a ha
  simp only [exHist3, List.mem_cons, List.mem_nil_iff, or_false] at ha
  rcases ha with rfl | rfl | rfl | rfl | rfl | rfl | rfl | rfl | rfl | rfl | rfl | rfl | rfl | rfl | rfl | rfl |
    rfl | rfl
  all_goals first
    | trivial
    | (refine ⟨by decide, fun _ _ => rfl, ?_⟩
       intro a ha
       simp only [List.mem_cons, List.mem_nil_iff, or_false] at ha
       rcases ha with rfl
       trivial)

theorem exHist3_valid : ValidHistS 128 0 0 0 exHist3 := validHistB_sound (by decide +kernel)

example : ∃ s' tk', runActions Step.exEnv exHist3 (State.init 128 true) #[] = .ok (s', tk') ∧
    SubsH.UInv Step.exEnv s' ∧ TInv 128 s' ∧ TokIn tk' s' :=
  history_total IncrVerif.Props.C09History.exEnv_pure exHist3_ok exHist3_valid

/-- validity is needed: `subscribe` on an observer that does not exist panics in the model -/
def ranOk (env : Env) (acts : List Action) : Bool :=
  match runActions env acts (State.init 128 true) #[] with
  | .ok _ => true
  | .error _ => false

example : ranOk Step.exEnv [.subscribe 0 0] = false ∧ validHistB 128 0 0 0 [.subscribe 0 0] = false ∧
    ranOk Step.exEnv exHist3 = true :=
  ⟨by decide +kernel, by decide +kernel, by decide +kernel⟩

end IncrVerif.Proofs.TidyH.SubsT
