import IncrVerif.Proofs.BindH4
/-!
# Binds, BS1: helpers for one `recomputeOne` on a static-kind or `bindMain` node in a graph with binds

Ports of `Sched4`'s `childChanged_static`, `picrn_static`, `ParentOK`, `mcvm_heap` to parents of `BKind`;
the decoded `can_recompute_now` flag (`CanOK`) and the derivation of `HandOK` from it.
-/
namespace IncrVerif.Proofs.BindH
open IncrVerif.Engine IncrVerif.Proofs IncrVerif.Proofs.Step IncrVerif.Proofs.Sched
namespace BS

/-! ## small tools -/

theorem nec_lt {s : State} {n : Nat} (h : s.isNecessary n = true) : n < s.nodes.size := by
  by_cases hlt : n < s.nodes.size
  · exact hlt
  · unfold State.isNecessary at h
    rw [nodeD_default_of_ge s n (by omega)] at h
    cases h

theorem kind?_of_valid {nd : Node} (hv : nd.valid = true) : nd.kind? = some nd.kind := by
  simp [Node.kind?, hv]

theorem BKind.not_mapRef {env : Env} {k : Kind} (h : BKind env k) (p i : Nat) : k ≠ .mapRef p i := by
  intro e; subst e; exact h

/-- a list of length at most one with an entry `n` is `[n]` -/
theorem singleton_of_getElem? {l : List Nat} {i n : Nat} (hl : l.length ≤ 1) (h : l[i]? = some n) :
    l = [n] := by
  match l, i with
  | [], _ => simp at h
  | [a], 0 => simp at h; rw [h]
  | [a], i+1 => simp at h
  | _ :: _ :: _, _ => simp at hl

/-- `child_changed` on a valid parent of a kind of the bind fragment does nothing -/
theorem childChanged_bkind {env : Env} {fuel p c ci : Nat} {o : Option Val} {t t' : State} {u : Unit}
    {pn : Node} (hp : t.nodes[p]? = some pn) (hv : pn.valid = true) (hk : BKind env pn.kind)
    (h : (childChanged env fuel p c ci o).run.run t = (.ok u, t')) : t' = t := by
  cases fuel with
  | zero => unfold childChanged at h; cases h
  | succ fuel =>
    unfold childChanged at h
    rw [run_bind_ok (run_getNode_some hp)] at h
    rw [kind?_of_valid hv] at h
    cases hkd : pn.kind <;> rw [hkd] at h hk
    case const => exact (pure_ok_inv h).2
    case var => exact (pure_ok_inv h).2
    case map => exact (pure_ok_inv h).2
    case fold => exact (pure_ok_inv h).2
    case bindLhsChange => exact (pure_ok_inv h).2
    case bindMain => exact (pure_ok_inv h).2
    all_goals exact False.elim hk

/-! ## the decoded `can_recompute_now` flag -/

/-- the change detector of the scope `p` was created in is below `minH` -/
def ScopeAbove (X : State) (p : Nat) (minH : Int) : Prop :=
  ∀ b br, (X.nodeD p).createdIn = .bind b → X.binds[b]? = some br →
    (X.nodeD br.lhsChange).height < minH

/-- why `parent_iter_can_recompute_now p n` answered "yes" (`minH` = what `min_height` returned) -/
def CanOK (X : State) (n p : Nat) (minH : Int) : Prop :=
  (((∃ f args, (X.nodeD p).kind = .map f args ∧ args.length ≤ 1) ∨
      (∃ b, (X.nodeD p).kind = .bindLhsChange b)) ∧ ScopeAbove X p minH) ∨
  (∃ b lc, (X.nodeD p).kind = .bindMain b lc ∧ (X.nodeD lc).height < (X.nodeD n).height ∧
      (X.nodeD lc).height < minH) ∨
  (X.nodeD p).height ≤ minH

theorem CanOK.congr {X Y : State} {n p : Nat} {minH : Int}
    (hk : ∀ m, (Y.nodeD m).kind = (X.nodeD m).kind)
    (hc : ∀ m, (Y.nodeD m).createdIn = (X.nodeD m).createdIn)
    (hh : ∀ m, (Y.nodeD m).height = (X.nodeD m).height) (hb : Y.binds = X.binds)
    (h : CanOK X n p minH) : CanOK Y n p minH := by
  have hsa : ScopeAbove X p minH → ScopeAbove Y p minH := by
    intro hs b br hsc hbr
    rw [hh]
    exact hs b br (by rw [← hc]; exact hsc) (by rw [← hb]; exact hbr)
  rcases h with ⟨hkk, hs⟩ | ⟨b, lc, h1, h2, h3⟩ | h
  · refine Or.inl ⟨?_, hsa hs⟩
    rcases hkk with ⟨f, args, h1, h2⟩ | ⟨b, h1⟩
    · exact Or.inl ⟨f, args, by rw [hk]; exact h1, h2⟩
    · exact Or.inr ⟨b, by rw [hk]; exact h1⟩
  · exact Or.inr (Or.inl ⟨b, lc, by rw [hk]; exact h1, by rw [hh, hh]; exact h2, by rw [hh]; exact h3⟩)
  · exact Or.inr (Or.inr (by rw [hh]; exact h))

theorem scopeAbove_of {t : State} {p : Nat} {ch minH : Int}
    (h : (scopeHeightOf t (t.nodeD p).createdIn).map
      (fun sh => decide (ch > sh) && decide (minH > sh)) = .ok true) :
    ScopeAbove t p minH := by
  intro b br hsc hb
  rw [hsc] at h
  simp only [scopeHeightOf, hb] at h
  cases hl : t.nodes[br.lhsChange]? with
  | none => rw [hl] at h; cases h
  | some x =>
    rw [hl] at h
    simp only [Except.map] at h
    injection h with h
    simp only [Bool.and_eq_true, decide_eq_true_eq] at h
    rw [nodeD_of_some hl]; omega

/-- `parent_iter_can_recompute_now` on a valid parent of a kind of the bind fragment: either "yes" with the
decoded reason, or the parent is queued -/
theorem picrn_b {env : Env} {p child : Nat} {t t' : State} {b : Bool} {pn : Node}
    (hp : t.nodes[p]? = some pn) (hv : pn.valid = true) (hk : BKind env pn.kind)
    (h : (parentIterCanRecomputeNow p child).run.run t = (.ok b, t')) :
    (b = true ∧ t' = withMinHeight t ∧ CanOK t child p (minHeightOf t)) ∨
    (b = false ∧ 0 ≤ pn.height ∧ pn.height ≤ (withMinHeight t).rch.maxAllowed ∧
      t' = inserted p pn.height (withMinHeight t)) := by
  rw [picrn_run, hp] at h
  have hk? : pn.kind? = some pn.kind := kind?_of_valid hv
  have epn : t.nodeD p = pn := nodeD_of_some hp
  simp only [hk?] at h
  cases hc : t.nodes[child]? with
  | none => rw [hc] at h; cases h
  | some cn =>
    rw [hc] at h
    have ecn : t.nodeD child = cn := nodeD_of_some hc
    dsimp only at h
    cases hcan : canRecomputeNow t pn pn.kind cn.height (minHeightOf t) with
    | error e => rw [hcan] at h; cases h
    | ok can =>
      rw [hcan] at h
      dsimp only at h
      split at h
      · rename_i hyes
        cases h
        refine Or.inl ⟨rfl, rfl, ?_⟩
        rw [Bool.or_eq_true] at hyes
        rcases hyes with hyes | hyes
        · subst hyes
          cases hkd : pn.kind <;> rw [hkd] at hcan hk <;> simp only [canRecomputeNow] at hcan
          case const => cases hcan
          case var => cases hcan
          case fold => cases hcan
          case map f args =>
            split at hcan
            · cases hcan
            · rename_i hlen
              rw [← epn] at hcan
              exact Or.inl ⟨Or.inl ⟨f, args, by rw [epn]; exact hkd, by omega⟩, scopeAbove_of hcan⟩
          case bindLhsChange b =>
            rw [← epn] at hcan
            exact Or.inl ⟨Or.inr ⟨b, by rw [epn]; exact hkd⟩, scopeAbove_of hcan⟩
          case bindMain b lc =>
            cases hl : t.nodes[lc]? with
            | none => rw [hl] at hcan; cases hcan
            | some l =>
              rw [hl] at hcan
              injection hcan with hcan
              simp only [Bool.and_eq_true, decide_eq_true_eq] at hcan
              refine Or.inr (Or.inl ⟨b, lc, by rw [epn]; exact hkd, ?_, ?_⟩)
              · rw [nodeD_of_some hl, ecn]; omega
              · rw [nodeD_of_some hl]; omega
          all_goals exact False.elim hk
        · right; right
          rw [epn]; simpa using hyes
      split at h
      · cases h
      split at h
      · cases h
      rcases hi : (rchInsert p).run.run (withMinHeight t) with ⟨_ | u, s2⟩
      · rw [hi] at h; cases h
      · rw [hi] at h
        cases h
        obtain ⟨nd, hnd, h0, hmax, rfl⟩ := rchInsert_ok_inv hi
        have : nd = pn := by
          have e : (withMinHeight t).nodes[p]? = t.nodes[p]? := rfl
          rw [e, hp] at hnd; cases hnd; rfl
        subst this
        exact Or.inr ⟨rfl, h0, hmax, rfl⟩

/-! ## `HandOK` from the decoded flag -/

theorem handOK_of_can {env : Env} {s s' : State} {n p : Nat} {minH : Int} (g : BGraph env s)
    (hmem : p ∈ (s.nodeD n).parents.map (·.1)) (hcan : CanOK s n p minH)
    (hle : ∀ m, (s'.nodeD m).inRch = true → minH ≤ (s.nodeD m).height) : HandOK s s' n p := by
  obtain ⟨⟨p', i⟩, hmem', rfl⟩ := List.mem_map.1 hmem
  dsimp only at hcan ⊢
  obtain ⟨hpn, hci⟩ := g.parent n p' i hmem'
  have hv := (g.nec p' hpn).1
  have hlt := nec_lt hpn
  have hk? := kind?_of_valid hv
  have sclear : ScopeAbove s p' minH → ScopeClear s s' p' := by
    intro h b br hsc hb m hm
    have := h b br hsc hb
    have := hle m hm
    omega
  rcases hcan with ⟨hkk, hs⟩ | ⟨b, lc, hkd, hlt1, hlt2⟩ | hh
  · -- one child
    refine Or.inl ⟨singleton_of_getElem? ?_ hci, sclear hs⟩
    rcases hkk with ⟨f, args, hkd, hlen⟩ | ⟨b, hkd⟩
    · simp only [State.children, hk?, hkd]; exact hlen
    · simp only [State.children, hk?, hkd]
      split <;> simp
  · -- bind main
    obtain ⟨br, hbr, -, -, hsc⟩ := g.mainRec p' b lc hlt hv hkd
    have hch : s.children p' = [lc, n] := by
      simp only [State.children, hk?, hkd, hbr] at hci ⊢
      cases hr : br.rhs with
      | none =>
        rw [hr] at hci
        have e := singleton_of_getElem? (by simp) hci
        injection e with e
        rw [e] at hlt1; omega
      | some r =>
        rw [hr] at hci
        dsimp only at hci ⊢
        match i, hci with
        | 0, hci => simp at hci; rw [hci] at hlt1; omega
        | 1, hci => simp at hci; rw [hci]
        | _+2, hci => simp at hci
    refine Or.inr (Or.inr ⟨b, lc, hkd, hch, ?_, ?_⟩)
    · intro b' br' hsc' hb' m hm
      have hlcmem : lc ∈ s.children p' := by rw [hch]; simp
      obtain ⟨hlclt, hlcv⟩ := (g.node p' hlt hv).2.2 lc hlcmem
      have hlcn := (g.child p' hpn 0 lc (by rw [hch]; rfl)).1
      obtain ⟨br2, hb2, -, -, hrule⟩ := g.scope lc b' hlclt hlcv (hsc.trans hsc')
      rw [hb'] at hb2; cases hb2
      have := (hrule hlcn).2
      have := hle m hm
      omega
    · intro m hm
      have := hle m hm
      omega
  · refine Or.inr (Or.inl ?_)
    intro m hm
    have := hle m hm
    omega

/-! ## the notification walk keeps the heap invariant -/

/-- what is needed of a parent that gets notified -/
structure ParentOK (env : Env) (T : State) (p : Nat) : Prop where
  lt : p < T.nodes.size
  valid : (T.nodeD p).valid = true
  kind : BKind env (T.nodeD p).kind
  nec : T.isNecessary p = true

theorem ParentOK.quiet {env : Env} {T t : State} {p : Nat} (h : ParentOK env T p) (q : Quiet T t) :
    ParentOK env t p :=
  ⟨by rw [q.size]; exact h.lt, by rw [(q.node p).valid]; exact h.valid,
   by rw [(q.node p).kind]; exact h.kind,
   by have := (q.node p).isNecessary; unfold State.isNecessary; rw [this]; exact h.nec⟩

theorem kinv_inserted {T t : State} {P : List Nat} {p : Nat} {na : Node} (k : KInv T P t)
    (hnec : t.isNecessary p = true) (hmem : p ∈ P) (hna : t.nodes[p]? = some na)
    (hnot : na.inRch = false) (h0 : 0 ≤ na.height) (hmax : na.height ≤ t.rch.maxAllowed) :
    KInv T P (inserted p na.height t) := by
  refine ⟨k.q.trans (Quiet.inserted p na.height t h0),
    k.heap.inserted hna hnot h0 hmax hnec, fun m hm => ?_, ?_⟩
  rotate_left
  · show (t.rch.queues.modify na.height.toNat (· ++ [p])).size = T.rch.queues.size
    rw [Array.size_modify]; exact k.qsize
  rcases (inserted_inRch p na.height t (lt_of_some hna) h0 m).1 hm with rfl | hm
  · exact Or.inr hmem
  · exact k.only m hm

/-- the notification part of a propagating `maybe_change_value_manual`, in terms of the state `T` in which it
starts (value stored, `changedAt` stamped): heap invariant kept, only parents queued; the handed-over parent
is not queued, comes with the decoded flag, and everything queued is at or above `min_height` -/
theorem mcvm_heapB {env : Env} {fuel n : Nat} {o : Option Val} {T0 s' : State} {r : Option Nat}
    (hi : HeapInv (touched n T0))
    (hpar : ∀ p, p ∈ ((touched n T0).nodeD n).parents.map (·.1) → ParentOK env (touched n T0) p)
    (h : (maybeChangeValueManual env fuel n o true true).run.run T0 = (.ok r, s')) :
    KInv (touched n T0) (((touched n T0).nodeD n).parents.map (·.1)) s' ∧
    ∀ p, r = some p → p ∈ ((touched n T0).nodeD n).parents.map (·.1) ∧
      (s'.nodeD p).inRch = false ∧
      ∃ minH, CanOK (touched n T0) n p minH ∧
        ∀ m, (s'.nodeD m).inRch = true → minH ≤ ((touched n T0).nodeD m).height := by
  generalize hT : touched n T0 = T at hi hpar ⊢
  generalize hP : (T.nodeD n).parents.map (·.1) = P at hpar ⊢
  unfold maybeChangeValueManual at h
  simp only [Bool.not_true, Bool.false_eq_true, if_false, if_true, run_bind_get, run_bind_modNode,
    run_bind_bumpCounter] at h
  obtain ⟨u, s1, h1, h2⟩ := bind_ok_inv h
  have h1' : (maybeHandleAfterStabilisation n).run.run T = (.ok u, s1) := by rw [← hT]; exact h1
  have k1 : KInv T P s1 := (KInv.refl P hi).mhas h1'
  obtain ⟨nd1, s1', hg, h3⟩ := bind_ok_inv h2
  obtain ⟨rfl, hnd1⟩ := getNode_ok_inv hg
  have hpar1 : nd1.parents = (T.nodeD n).parents := by
    have := (k1.q.node n).parents
    rw [nodeD_of_some hnd1] at this
    exact this
  rw [hpar1] at h3
  rcases hps : (T.nodeD n).parents with _ | ⟨⟨p0, ci0⟩, rest⟩
  · rw [hps] at h3
    obtain ⟨rfl, rfl⟩ := pure_ok_inv h3
    exact ⟨k1, fun p hp => by cases hp⟩
  rw [hps] at h3 hP
  dsimp only at h3
  obtain ⟨u2, s2, hloop, hlast⟩ := bind_ok_inv h3
  have hmem0 : p0 ∈ P := by rw [← hP]; simp
  have hmemr : ∀ a, a ∈ rest → a.1 ∈ P := by
    intro a ha; rw [← hP]; exact List.mem_cons_of_mem _ (List.mem_map_of_mem ha)
  -- the loop over the other parents
  have k2 : KInv T P s2 := by
    refine forIn_ok_keep (KInv T P) _ rest ?_ s1' _ s2 k1 hloop
    intro a ha t r t' k hb
    obtain ⟨p, ci⟩ := a
    have hpT := hpar p (hmemr _ ha)
    have hpt := hpT.quiet k.q
    obtain ⟨_, t1, hcc, hb1⟩ := bind_ok_inv hb
    have hpn := some_of_lt hpt.lt
    obtain rfl := childChanged_bkind hpn hpt.valid hpt.kind hcc
    rw [run_bind_get] at hb1
    obtain ⟨na, hna, hb4⟩ := bind_getNode_inv (bind_dassert_inv hb1)
    split at hb4
    · rename_i hin
      obtain ⟨_, t5, hins, hb5⟩ := bind_ok_inv hb4
      obtain ⟨rfl, rfl⟩ := pure_ok_inv hb5
      obtain ⟨nd, hnd, h0, hmax, rfl⟩ := rchInsert_ok_inv hins
      rw [hna] at hnd; cases hnd
      exact kinv_inserted k hpt.nec (hmemr _ ha) hna (by simpa using hin) h0 hmax
    · obtain ⟨rfl, rfl⟩ := pure_ok_inv hb4
      exact k
  -- the first parent
  have hp0T := hpar p0 hmem0
  have hp0 := hp0T.quiet k2.q
  obtain ⟨_, s3, hcc, hl1⟩ := bind_ok_inv hlast
  have hpn0 := some_of_lt hp0.lt
  obtain rfl := childChanged_bkind hpn0 hp0.valid hp0.kind hcc
  rw [run_bind_get] at hl1
  obtain ⟨nd0, hnd0, hl4⟩ := bind_getNode_inv (bind_dassert_inv hl1)
  have e0 : s3.nodeD p0 = nd0 := nodeD_of_some hnd0
  split at hl4
  · rename_i hin
    have hnot : nd0.inRch = false := by simpa using hin
    obtain ⟨b, s4, hpi, hl5⟩ := bind_ok_inv hl4
    have hv0 : nd0.valid = true := by rw [← e0]; exact hp0.valid
    have hk0 : BKind env nd0.kind := by rw [← e0]; exact hp0.kind
    rcases picrn_b hnd0 hv0 hk0 hpi with ⟨rfl, rfl, hyes⟩ | ⟨rfl, h0, hmax, rfl⟩
    · simp only [if_true] at hl5
      obtain ⟨rfl, rfl⟩ := pure_ok_inv hl5
      refine ⟨k2.withMinHeight, fun p hp => ?_⟩
      cases hp
      refine ⟨hmem0, ?_, minHeightOf s3, ?_, ?_⟩
      · show (s3.nodeD p0).inRch = false
        rw [e0]; exact hnot
      · exact CanOK.congr (fun m => ((k2.q.node m).kind).symm) (fun m => ((k2.q.node m).createdIn).symm)
          (fun m => ((k2.q.node m).height).symm) k2.q.binds.symm hyes
      · intro m hm
        have hm' : (s3.nodeD m).inRch = true := hm
        have := minHeightOf_le k2.heap hm'
        rw [← (k2.q.node m).height]
        exact this
    · simp only [Bool.false_eq_true, if_false] at hl5
      obtain ⟨rfl, rfl⟩ := pure_ok_inv hl5
      refine ⟨kinv_inserted k2.withMinHeight hp0.nec hmem0 (by exact hnd0) hnot h0 hmax,
        fun p hp => by cases hp⟩
  · obtain ⟨rfl, rfl⟩ := pure_ok_inv hl4
    exact ⟨k2, fun p hp => by cases hp⟩

end BS
end IncrVerif.Proofs.BindH
