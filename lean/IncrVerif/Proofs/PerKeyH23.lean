import IncrVerif.Proofs.PerKeyH3
import IncrVerif.Proofs.PerKeyH8
import IncrVerif.Proofs.PerKeyH22
/-!
# The callback discipline `SlotInv` in the per-key fragment, part 1

* `slotInv_twin`: `SlotInv` does not read `pk`, the kinds of non-expert nodes, the log: it is the same statement on the
  structural twin.
* `pre_of_pd`: the precondition `ExpertH.Pre` of `mcv_slots` for the TWIN of the state in which the current node has been
  stamped and (for an expert node) its record is ready, from the drain invariant `PD` (port of `ExpertH.pre_of`).
-/
namespace IncrVerif.Proofs.PerKeyH
open IncrVerif.Engine IncrVerif.Driver IncrVerif.Proofs IncrVerif.Proofs.Step IncrVerif.Proofs.Sched
open IncrVerif.Proofs.ExpertH IncrVerif.Proofs.EffH IncrVerif.Proofs.Xp

/-! ## A. `SlotInv` on the twin -/

theorem tw_rec_inv {l : List Event} {s : State} {e : Nat} {er' : ExpertRec} (h : (twL l s).experts[e]? = some er') :
    ∃ er, s.experts[e]? = some er ∧ er' = twRec er := by
  rw [twL_experts_getElem?] at h
  cases hx : s.experts[e]? with
  | none => rw [hx] at h; cases h
  | some er => rw [hx] at h; cases h; exact ⟨er, rfl, rfl⟩

theorem tw_rec_get {l : List Event} {s : State} {e : Nat} {er : ExpertRec} (h : s.experts[e]? = some er) :
    (twL l s).experts[e]? = some (twRec er) := by
  rw [twL_experts_getElem?, h]; rfl

theorem twL_kind_expert (l : List Event) (s : State) (n e : Nat) :
    ((twL l s).nodeD n).kind = .expert e ↔ (s.nodeD n).kind = .expert e := by
  rw [twL_nodeD, twNode_kind, KtwKind_eq_expert]

theorem good_twin (env : Env) (l : List Event) (s : State) (er : ExpertRec) :
    Good (twEnv env) (twL l s) (twRec er) ↔ Good env s er := by
  unfold Good
  simp only [twRec_children, twRec_slots, twL_value]

/-- **A.** the callback discipline of `s` is the callback discipline of its structural twin -/
theorem slotInv_twin (env : Env) (l : List Event) (s : State) :
    SlotInv env s ↔ SlotInv (twEnv env) (twL l s) := by
  constructor
  · intro L
    refine ⟨fun e er' he' => ?_, fun n e er' hk he' hw => ?_, fun n e er' hk he' hc => ?_⟩
    · obtain ⟨er, he, rfl⟩ := tw_rec_inv he'
      exact L.deps e er he
    · obtain ⟨er, he, rfl⟩ := tw_rec_inv he'
      rw [twL_kind_expert] at hk
      rw [twL_isNecessary]
      exact L.flag n e er hk he hw
    · obtain ⟨er, he, rfl⟩ := tw_rec_inv he'
      rw [twL_kind_expert] at hk
      rw [twL_isStale] at hc
      exact (good_twin env l s er).2 (L.good n e er hk he hc)
  · intro L
    refine ⟨fun e er he => ?_, fun n e er hk he hw => ?_, fun n e er hk he hc => ?_⟩
    · exact L.deps e (twRec er) (tw_rec_get he)
    · have := L.flag n e (twRec er) ((twL_kind_expert l s n e).2 hk) (tw_rec_get he) hw
      rwa [twL_isNecessary] at this
    · exact (good_twin env l s er).1
        (L.good n e (twRec er) ((twL_kind_expert l s n e).2 hk) (tw_rec_get he) (by rw [twL_isStale]; exact hc))

/-! ## small facts -/

theorem sl_children_expert {s : State} {q e : Nat} {er : ExpertRec} (hv : (s.nodeD q).valid = true)
    (hk : (s.nodeD q).kind = .expert e) (he : s.experts[e]? = some er) :
    s.children q = er.children.map (·.child) := by
  unfold State.children
  simp [Node.kind?, hv, hk, he]

theorem sl_nec_lt {s : State} {n : Nat} (h : s.isNecessary n = true) : n < s.nodes.size := by
  by_cases hn : n < s.nodes.size
  · exact hn
  · unfold State.isNecessary at h
    rw [nodeD_default_of_ge s n (by omega)] at h
    cases h

theorem PFrag.sl_noMapRef {env : Env} {s : State} (F : PFrag env s) (m p i : Nat) : (s.nodeD m).kind ≠ .mapRef p i := by
  intro h; have := F.kindD m; rw [h] at this; exact this

/-- two expert nodes never share a record -/
theorem PFrag.sl_xinj {env : Env} {s : State} (F : PFrag env s) {n m e : Nat}
    (hn : (s.nodeD n).kind = .expert e) (hm : (s.nodeD m).kind = .expert e) : n = m := by
  obtain ⟨er, h1, h2⟩ := F.xrec n e (lt_of_expert hn) hn
  obtain ⟨er', h1', h2'⟩ := F.xrec m e (lt_of_expert hm) hm
  rw [h1] at h1'; cases h1'
  rw [← h2, ← h2']

/-! ## B. the precondition of the walk, from the drain invariant -/

/-- `T` is the state `s` in which the current node `c` has been stamped "recomputed now" and — when `c` is an expert —
its record is ready for the closure (`readyRec`): its twin satisfies `ExpertH.Pre` -/
theorem pre_of_pd {env : Env} {c : Nat} {s T : State} (l : List Event) (D : PD env s (some c))
    (FT : PFrag env T)
    (hN : ∀ m, T.nodeD m = (started c s).nodeD m) (hsz : T.nodes.size = s.nodes.size)
    (hst : T.stabNum = s.stabNum) (hnd : T.nextDep = s.nextDep)
    (hX : ∀ e, (s.nodeD c).kind ≠ .expert e → T.experts[e]? = s.experts[e]?)
    (hXc : ∀ e, (s.nodeD c).kind = .expert e →
      ∃ er, s.experts[e]? = some er ∧ T.experts[e]? = some (readyRec env s er)) :
    Pre (twEnv env) c (twL l T) := by
  have I := D.inv
  have G := I.graph
  have F := D.aux.frag
  have L := D.aux.slots
  have hnec : s.isNecessary c = true := by rw [← V_isNecessary]; exact (I.cur c rfl).1
  have hlt : c < s.nodes.size := sl_nec_lt hnec
  -- the nodes of `T`
  have nK : ∀ m, (T.nodeD m).kind = (s.nodeD m).kind := fun m => by rw [hN, started_nodeD]; split <;> rfl
  have nV : ∀ m, (T.nodeD m).value = (s.nodeD m).value := fun m => by rw [hN, started_nodeD]; split <;> rfl
  have nC : ∀ m, (T.nodeD m).changedAt = (s.nodeD m).changedAt := fun m => by
    rw [hN, started_nodeD]; split <;> rfl
  have nP : ∀ m, (T.nodeD m).parents = (s.nodeD m).parents := fun m => by rw [hN, started_nodeD]; split <;> rfl
  have nNec : ∀ m, T.isNecessary m = s.isNecessary m := fun m => by
    unfold State.isNecessary; rw [hN, started_nodeD]; split <;> rfl
  have nR : ∀ m, m ≠ c → (T.nodeD m).recomputedAt = (s.nodeD m).recomputedAt := fun m hm => by
    rw [hN, started_nodeD, if_neg fun h => hm h.1.symm]
  have vS : ∀ m, s.value env m = (s.nodeD m).value := fun m => value_plain env s m (F.sl_noMapRef m)
  have vT : ∀ m, T.value env m = s.value env m := fun m => by
    rw [value_plain env T m (FT.sl_noMapRef m), vS, nV]
  -- the records of `T`
  have recs : ∀ (e : Nat) (erT : ExpertRec), T.experts[e]? = some erT →
      (s.experts[e]? = some erT ∧ (s.nodeD c).kind ≠ .expert e) ∨
        ((s.nodeD c).kind = .expert e ∧ ∃ er, s.experts[e]? = some er ∧ erT = readyRec env s er) := by
    intro e erT he
    by_cases hk : (s.nodeD c).kind = .expert e
    · obtain ⟨er, h1, h2⟩ := hXc e hk
      rw [he] at h2; cases h2
      exact Or.inr ⟨hk, er, h1, rfl⟩
    · rw [hX e hk] at he; exact Or.inl ⟨he, hk⟩
  have recCh : ∀ (e : Nat) (erT : ExpertRec), T.experts[e]? = some erT →
      ∃ er, s.experts[e]? = some er ∧ erT.children = er.children := by
    intro e erT he
    rcases recs e erT he with ⟨h, -⟩ | ⟨-, er, h1, rfl⟩
    · exact ⟨erT, h, rfl⟩
    · exact ⟨er, h1, (readyRec_fields env s er).2.2.1⟩
  -- the edges, read in the virtual graph
  have kidsOf : ∀ (q e : Nat) (er : ExpertRec), (s.nodeD q).kind = .expert e → s.experts[e]? = some er →
      (V s).children q = er.children.map (·.child) := by
    intro q e er hk he
    rw [V_children, sl_children_expert (F.validD q) hk he]
  have XT : XFrag (twEnv env) (twL l T) := xfrag_twin l FT
  refine ⟨XT, by rw [twL_size, hsz]; exact hlt, ?_, ?_, ?_, ?_, ?_, ?_, ?_, ?_⟩
  · -- cut
    rw [twL_nodeD, twNode_cutoff]
    exact Or.inl (FT.cutoff c (by rw [hsz]; exact hlt))
  · -- par
    intro p ci e er' ed hp hk he' hed
    obtain ⟨erT, he, rfl⟩ := tw_rec_inv he'
    rw [twL_nodeD, twNode_parents, nP] at hp
    rw [twL_kind_expert, nK] at hk
    rw [twRec_children] at hed
    obtain ⟨er, hes, hch⟩ := recCh e erT he
    have := (G.parent c p ci (by rw [V_nodeD, vNode_parents]; exact hp)).2
    rw [kidsOf p e er hk hes, List.getElem?_map, ← hch, hed] at this
    simpa using this
  · -- child
    intro q e er' j ed hk he' hq hed hc
    obtain ⟨erT, he, rfl⟩ := tw_rec_inv he'
    rw [twL_kind_expert, nK] at hk
    rw [twL_isNecessary, nNec] at hq
    rw [twRec_children] at hed
    rw [twL_nodeD, twNode_parents, nP]
    obtain ⟨er, hes, hch⟩ := recCh e erT he
    have := (G.child q (by rw [V_isNecessary]; exact hq) j c (by
      rw [kidsOf q e er hk hes, List.getElem?_map, ← hch, hed, ← hc]; rfl)).2.1
    rwa [V_nodeD, vNode_parents] at this
  · -- deps
    intro e er' he'
    obtain ⟨erT, he, rfl⟩ := tw_rec_inv he'
    show (erT.children.map (·.dep)).Nodup ∧ (∀ ed, ed ∈ erT.children → ed.dep < T.nextDep) ∧
      (∀ p, p ∈ erT.slots → p.1 < T.nextDep)
    rw [hnd]
    rcases recs e erT he with ⟨h, -⟩ | ⟨-, er, h1, rfl⟩
    · exact L.deps e erT h
    · obtain ⟨d1, d2, d3⟩ := L.deps e er h1
      rw [(readyRec_fields env s er).2.2.1]
      refine ⟨d1, d2, fun x hx => ?_⟩
      rcases readyRec_keys env s er x hx with h | ⟨ed, hed, h⟩
      · exact d3 x h
      · rw [h]; exact d2 ed hed
  · -- flag
    intro n e er' hk he' hw
    obtain ⟨erT, he, rfl⟩ := tw_rec_inv he'
    rw [twL_kind_expert, nK] at hk
    rw [twL_isNecessary, nNec]
    rw [twRec_willFireAllCallbacks] at hw
    rcases recs e erT he with ⟨h, -⟩ | ⟨hkc, -⟩
    · exact L.flag n e erT hk h hw
    · rw [F.sl_xinj hk hkc]; exact hnec
  · -- good
    intro n e er' hk he' hcond
    obtain ⟨erT, he, rfl⟩ := tw_rec_inv he'
    rw [twL_kind_expert, nK] at hk
    rw [twRec_willFireAllCallbacks, twL_isStale] at hcond
    rw [good_twin]
    rcases recs e erT he with ⟨h, hne⟩ | ⟨hkc, er, h1, rfl⟩
    · have G0 : Good env s erT := by
        refine L.good n e erT hk h ?_
        rcases hcond with hw | ⟨hnc, hstale⟩
        · exact Or.inl hw
        · refine Or.inr ?_
          rw [isStale_expert (FT.validD n) (by rw [nK]; exact hk) he, nR n hnc] at hstale
          rw [isStale_expert (F.validD n) hk h, ← hstale]
          congr 1
          apply any_congr_mem
          intro x _
          rw [nC]
      intro ed hed hcb
      rw [vT]; exact G0 ed hed hcb
    · obtain ⟨-, -, f3, -⟩ := readyRec_fields env s er
      obtain ⟨d1, -, -⟩ := L.deps e er h1
      intro ed hed hcb
      rw [f3] at hed
      rw [vT]
      by_cases hw : er.willFireAllCallbacks = true
      · obtain ⟨w, hw2⟩ := I.kids_values ed.child (by
          rw [kidsOf c e er hkc h1]; exact List.mem_map.2 ⟨ed, hed, rfl⟩)
        rw [V_nodeD, vNode_value] at hw2
        have hvw : s.value env ed.child = some w := by rw [vS]; exact hw2
        rw [readyRec_slots env s er hw d1 ed w hed hcb hvw, hvw]
      · have hw' : er.willFireAllCallbacks = false := by simpa using hw
        rw [readyRec_slots_unchanged env s er hw']
        exact L.good c e er hkc h1 (Or.inl hw') ed hed hcb
  · -- old
    intro q e er' hk he' hw hmem
    obtain ⟨erT, he, rfl⟩ := tw_rec_inv he'
    rw [twL_kind_expert, nK] at hk
    rw [twRec_willFireAllCallbacks] at hw
    rw [twRec_children] at hmem
    rw [twRec_forceStale, twL_nodeD, twNode_recomputedAt, twL_stabNum]
    rcases recs e erT he with ⟨h, hne⟩ | ⟨-, er, -, rfl⟩
    · have hqc : q ≠ c := fun hq => hne (hq ▸ hk)
      rw [nR q hqc, hst]
      have hv : ((V s).nodeD q).recomputedAt < (V s).stabNum :=
        I.fresh q c (BindH.Below.step (BindH.Edge.child (by rw [kidsOf q e erT hk h]; exact hmem))
          (BindH.Below.refl c)) (Or.inr rfl)
      rw [V_nodeD, vNode_recomputedAt, hk, V_stabNum] at hv
      simp only [ExpertH.forced, xRec_some h] at hv
      cases hf : erT.forceStale with
      | true => exact Or.inl rfl
      | false => rw [hf] at hv; exact Or.inr (by simpa using hv)
    · rw [(readyRec_fields env s er).2.2.2.2.2.2.2.2] at hw; cases hw
  · -- cflag
    intro e er' hk he'
    obtain ⟨erT, he, rfl⟩ := tw_rec_inv he'
    rw [twL_kind_expert, nK] at hk
    rw [twRec_willFireAllCallbacks]
    obtain ⟨er, -, h2⟩ := hXc e hk
    rw [he] at h2; cases h2
    exact (readyRec_fields env s er).2.2.2.2.2.2.2.2

end IncrVerif.Proofs.PerKeyH
