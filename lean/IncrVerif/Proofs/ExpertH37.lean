import IncrVerif.Proofs.ExpertH36
/-!
# `adjustHeights` for `QR.GInv` (port of BindH28), part 2: inversions of `ensureHeightRequirement` and `rchIncreaseHeight`; the loop
invariant `AInv` and its four elementary steps (add a member, raise a member, pop, re-bucket)
-/
namespace IncrVerif.Proofs.ExpertH.QR
open IncrVerif.Engine IncrVerif.Proofs IncrVerif.Proofs.Step IncrVerif.Proofs.Sched

namespace BA

theorem nodeD_upd {s s' : State} {n : Nat} {f : Node → Node} (hn : s'.nodes = s.nodes.modify n f)
    (hlt : n < s.nodes.size) (m : Nat) : s'.nodeD m = if m = n then f (s.nodeD n) else s.nodeD m := by
  rw [nodeD_of_modify hn]
  by_cases e : m = n
  · subst e; rw [if_pos ⟨rfl, hlt⟩, if_pos rfl]
  · rw [if_neg (fun h => e h.1.symm), if_neg e]

/-! ## inversions -/

theorem ehr_ok_inv {oc op c p : Nat} {s s' : State} {u : Unit}
    (h : (ensureHeightRequirement oc op c p).run.run s = (.ok u, s')) :
    c < s.nodes.size ∧ p < s.nodes.size ∧
    (((s.nodeD c).height < (s.nodeD p).height ∧ s' = s) ∨
     ((s.nodeD p).height ≤ (s.nodeD c).height ∧
       ∃ s1, ((ahhMk s p ≠ -1 ∧ s1 = s) ∨
              (ahhMk s p = -1 ∧ 0 ≤ (s.nodeD p).height ∧ (s.nodeD p).height.toNat < s.ahh.queues.size ∧
                s1 = ahhAdded p (s.nodeD p).height s)) ∧
         s' = heightSet p ((s.nodeD c).height + 1) s1)) := by
  unfold ensureHeightRequirement at h
  rw [run_bind_get] at h
  replace h := bind_dassert_inv h
  replace h := bind_dassert_inv h
  dsimp only at h
  by_cases hcyc : (p == oc) = true
  · rw [if_pos hcyc, run_bind, run_panic] at h; cases h
  rw [if_neg hcyc] at h
  obtain ⟨cn, hcn, h⟩ := bind_getNode_inv h
  obtain ⟨pn, hpn, h⟩ := bind_getNode_inv h
  have ec : s.nodeD c = cn := nodeD_of_some hcn
  have ep : s.nodeD p = pn := nodeD_of_some hpn
  refine ⟨lt_of_some hcn, lt_of_some hpn, ?_⟩
  rw [ec, ep]
  by_cases hge : cn.height ≥ pn.height
  · rw [if_pos hge] at h
    right
    refine ⟨hge, ?_⟩
    obtain ⟨_, s1, h1, h2⟩ := bind_ok_inv h
    have e2 : s' = heightSet p (cn.height + 1) s1 := by
      rw [setHeight_run] at h2
      split at h2
      · cases h2
      · cases h2; rfl
    refine ⟨s1, ?_, e2⟩
    rw [ahhAddUnlessMem_run p s pn hpn] at h1
    have emk : ahhMk s p = pn.heightInAhh := by simp only [ahhMk, ep]
    by_cases hmem : (pn.heightInAhh == -1) = false
    · rw [if_pos hmem] at h1
      cases h1
      left
      refine ⟨?_, rfl⟩
      rw [emk]
      simpa using hmem
    · rw [if_neg hmem] at h1
      have hmem' : pn.heightInAhh = -1 := by simpa using hmem
      split at h1
      · cases h1
      · split at h1
        · cases h1
        · split at h1
          · cases h1
          · rename_i hq
            cases h1
            right
            simp only [Bool.or_eq_true, decide_eq_true_eq, not_or, Int.not_lt, ge_iff_le, Nat.not_le] at hq
            exact ⟨by rw [emk]; exact hmem', hq.1, hq.2, rfl⟩
  · rw [if_neg hge] at h
    left
    exact ⟨by omega, (pure_ok_inv h).2⟩

/-- the state after a successful `rchIncreaseHeight n` (new height `x`, new bucket vector `Q`) -/
def rebucketed (n : Nat) (x : Int) (Q : Array (List Nat)) (s : State) : State :=
  { s with nodes := s.nodes.modify n fun y => { y with heightInRch := x },
           rch := { s.rch with queues := Q } }

theorem rchUnlink_ok_inv {n : Nat} {s s' : State} {u : Unit} (h : (rchUnlink n).run.run s = (.ok u, s')) :
    ∃ Q, Q.size = s.rch.queues.size ∧ s' = { s with rch := { s.rch with queues := Q } } := by
  unfold rchUnlink at h
  obtain ⟨nd, hnd, h⟩ := bind_getNode_inv h
  rw [run_bind_get] at h
  dsimp only at h
  cases hq : s.rch.queues[nd.heightInRch.toNat]? with
  | none => rw [hq] at h; dsimp only at h; rw [run_panic] at h; cases h
  | some q =>
    rw [hq] at h; dsimp only at h
    by_cases hneg : nd.heightInRch < 0
    · rw [if_pos hneg, run_bind, run_panic] at h; cases h
    · rw [if_neg hneg] at h
      cases hi : q.idxOf? n with
      | none => rw [hi] at h; dsimp only at h; rw [run_panic] at h; cases h
      | some idx =>
        rw [hi] at h; dsimp only at h; rw [run_modify] at h
        cases h
        exact ⟨_, by simp, rfl⟩

theorem rchIncreaseHeight_ok_inv {n : Nat} {s s' : State} {u : Unit}
    (h : (rchIncreaseHeight n).run.run s = (.ok u, s')) :
    ∃ Q, n < s.nodes.size ∧ 0 ≤ (s.nodeD n).height ∧ (s.nodeD n).height ≤ s.rch.maxAllowed ∧
      Q.size = s.rch.queues.size ∧ s' = rebucketed n (s.nodeD n).height Q s := by
  unfold rchIncreaseHeight at h
  obtain ⟨nd, hnd, h⟩ := bind_getNode_inv h
  rw [run_bind_get] at h
  replace h := bind_dassert_inv h
  replace h := bind_dassert_inv h
  replace h := bind_dassert_inv h
  obtain ⟨_, s1, h1, h2⟩ := bind_ok_inv h
  obtain ⟨Q, hQ, e1⟩ := rchUnlink_ok_inv h1
  have hnd1 : s1.nodes[n]? = some nd := by rw [e1]; exact hnd
  rw [rchLink_run, hnd1] at h2
  dsimp only at h2
  have e : s.nodeD n = nd := nodeD_of_some hnd
  split at h2
  · cases h2
  · split at h2
    · cases h2
    · rename_i h0 hmax
      cases h2
      refine ⟨s1.rch.queues.modify nd.height.toNat (· ++ [n]), lt_of_some hnd, by rw [e]; omega, ?_, ?_, ?_⟩
      · rw [e]
        have : s1.rch.maxAllowed = s.rch.maxAllowed := by rw [e1]; simp only [Heap.maxAllowed, hQ]
        omega
      · rw [Array.size_modify, e1]; exact hQ
      · rw [e, e1]; rfl

/-! ## the loop invariant -/

/-- invariant of the adjust-heights loop, relative to the state `s0` in which `adjustHeights` was called.
`X c p i`: the recorded edge `(p, i)` of `c` is still to be looked at; `Y m`: `m` has just been popped and is
not yet re-bucketed in the recompute heap; `B`: the node whose height is raised first. -/
structure AInv (rk : Nat → Nat) (B : Nat) (s0 s : State) (X : Nat → Nat → Nat → Prop) (Y : Nat → Prop) : Prop where
  rel : HRel s0 s
  wf : AhhWF s
  heap : HeapG s
  /-- every recorded edge is fine, or its child is a member, or it is still to be looked at -/
  edge : ∀ c p i, (p, i) ∈ (s.nodeD c).parents →
    (s.nodeD c).height < (s.nodeD p).height ∨ ahhMk s c ≠ -1 ∨ X c p i
  /-- the height under which a member is bucketed is below all its parents -/
  old : ∀ c p i, (p, i) ∈ (s.nodeD c).parents → ahhMk s c ≠ -1 → ahhMk s c < (s.nodeD p).height
  hgt : ∀ m, (s.nodeD m).inRch = true → ahhMk s m = -1 → ¬ Y m →
    (s.nodeD m).heightInRch = (s.nodeD m).height
  hle : ∀ m, (s.nodeD m).inRch = true → (s.nodeD m).heightInRch ≤ (s.nodeD m).height
  /-- nodes of rank below `B` are untouched, members are of rank at or above `B` -/
  low : ∀ m, rk m < rk B → s.nodeD m = s0.nodeD m
  memB : ∀ m, ahhMk s m ≠ -1 → rk B ≤ rk m

def noX : Nat → Nat → Nat → Prop := fun _ _ _ => False
def noY : Nat → Prop := fun _ => False

theorem AInv.mono {rk : Nat → Nat} {B : Nat} {s0 s : State} {X X' : Nat → Nat → Nat → Prop} {Y Y' : Nat → Prop} (A : AInv rk B s0 s X Y)
    (hX : ∀ c p i, (p, i) ∈ (s.nodeD c).parents → X c p i → X' c p i) (hY : ∀ m, Y m → Y' m) :
    AInv rk B s0 s X' Y' :=
  ⟨A.rel, A.wf, A.heap,
    fun c p i hm => by
      rcases A.edge c p i hm with h | h | h
      · exact Or.inl h
      · exact Or.inr (Or.inl h)
      · exact Or.inr (Or.inr (hX c p i hm h)),
    A.old, fun m hq hm hy => A.hgt m hq hm (fun h => hy (hY m h)), A.hle, A.low, A.memB⟩

/-- S1: a non-member all of whose parents are higher joins the heap under its current height -/
theorem AInv.add {rk : Nat → Nat} {B : Nat} {s0 s : State} {X : Nat → Nat → Nat → Prop} {Y : Nat → Prop} (A : AInv rk B s0 s X Y) {p : Nat}
    (hp : p < s.nodes.size) (hm : ahhMk s p = -1) (h0 : 0 ≤ (s.nodeD p).height)
    (hx : (s.nodeD p).height.toNat < s.ahh.queues.size) (hlb : s.ahh.lowerBound ≤ (s.nodeD p).height)
    (hpar : ∀ q i, (q, i) ∈ (s.nodeD p).parents → (s.nodeD p).height < (s.nodeD q).height) (hB : rk B ≤ rk p) :
    AInv rk B s0 (ahhAdded p (s.nodeD p).height s) X Y := by
  have key : ∀ m, (ahhAdded p (s.nodeD p).height s).nodeD m =
      if m = p then { s.nodeD p with heightInAhh := (s.nodeD p).height } else s.nodeD m :=
    nodeD_upd (s := s) (f := fun x => { x with heightInAhh := (s.nodeD p).height }) rfl hp
  have hpar' : ∀ m, ((ahhAdded p (s.nodeD p).height s).nodeD m).parents = (s.nodeD m).parents := by
    intro m; rw [key]; split
    · rename_i e; rw [e]
    · rfl
  have hh : ∀ m, ((ahhAdded p (s.nodeD p).height s).nodeD m).height = (s.nodeD m).height := by
    intro m; rw [key]; split
    · rename_i e; rw [e]
    · rfl
  have hr : ∀ m, ((ahhAdded p (s.nodeD p).height s).nodeD m).heightInRch = (s.nodeD m).heightInRch := by
    intro m; rw [key]; split
    · rename_i e; rw [e]
    · rfl
  have hin : ∀ m, ((ahhAdded p (s.nodeD p).height s).nodeD m).inRch = (s.nodeD m).inRch := by
    intro m; simp only [Node.inRch, hr]
  have hmk : ∀ m, ahhMk (ahhAdded p (s.nodeD p).height s) m =
      if m = p then (s.nodeD p).height else ahhMk s m := by
    intro m; simp only [ahhMk]; rw [key]; split <;> rfl
  refine ⟨A.rel.trans (HRel.upd (s := s) (n := p)
      (f := fun x => { x with heightInAhh := (s.nodeD p).height }) rfl rfl (fun x => ⟨rfl, rfl⟩) rfl (Int.le_refl _)),
    A.wf.added hp hm h0 hx hlb, A.heap.congr rfl (by simp [ahhAdded]) hr, ?_, ?_, ?_, ?_, ?_, ?_⟩
  rotate_left 4
  · intro m hmB
    rw [key, if_neg (fun e => by rw [e] at hmB; omega)]; exact A.low m hmB
  · intro m hmm
    rw [hmk] at hmm
    by_cases e : m = p
    · rw [e]; exact hB
    · rw [if_neg e] at hmm; exact A.memB m hmm
  · intro c q i hmem
    rw [hpar'] at hmem
    rw [hh, hh, hmk]
    rcases A.edge c q i hmem with h | h | h
    · exact Or.inl h
    · right; left
      split
      · rename_i e; rw [← e]; rw [e]; omega
      · exact h
    · exact Or.inr (Or.inr h)
  · intro c q i hmem hmc
    rw [hpar'] at hmem
    rw [hh, hmk] at *
    by_cases e : c = p
    · rw [if_pos e]; rw [e] at hmem; exact hpar q i hmem
    · rw [if_neg e] at hmc ⊢; exact A.old c q i hmem hmc
  · intro m hq hmm hy
    rw [hin] at hq
    rw [hmk] at hmm
    rw [hr, hh]
    by_cases e : m = p
    · rw [if_pos e] at hmm; omega
    · rw [if_neg e] at hmm; exact A.hgt m hq hmm hy
  · intro m hq
    rw [hin] at hq
    rw [hr, hh]; exact A.hle m hq

/-- S2: a member `p` is raised to `v`, above its child `c` -/
theorem AInv.raise {rk : Nat → Nat} {B : Nat} {s0 s : State} {X : Nat → Nat → Nat → Prop} {Y : Nat → Prop} (A : AInv rk B s0 s X Y) {c p : Nat}
    {v : Int} (hp : p < s.nodes.size) (hm : ahhMk s p ≠ -1) (hv : (s.nodeD p).height ≤ v)
    (hcv : (s.nodeD c).height < v) (hX : ∀ x q i, X x q i → x = c)
    (hne : ∀ x q i, (q, i) ∈ (s.nodeD x).parents → x ≠ q) :
    AInv rk B s0 (heightSet p v s) (fun x q i => X x q i ∧ q ≠ p) Y := by
  have key : ∀ m, (heightSet p v s).nodeD m = if m = p then { s.nodeD p with height := v } else s.nodeD m :=
    nodeD_upd (s := s) (f := fun x => { x with height := v }) rfl hp
  have hpar' : ∀ m, ((heightSet p v s).nodeD m).parents = (s.nodeD m).parents := by
    intro m; rw [key]; split
    · rename_i e; rw [e]
    · rfl
  have hh : ∀ m, ((heightSet p v s).nodeD m).height = if m = p then v else (s.nodeD m).height := by
    intro m; rw [key]; split <;> rfl
  have hr : ∀ m, ((heightSet p v s).nodeD m).heightInRch = (s.nodeD m).heightInRch := by
    intro m; rw [key]; split
    · rename_i e; rw [e]
    · rfl
  have hin : ∀ m, ((heightSet p v s).nodeD m).inRch = (s.nodeD m).inRch := by
    intro m; simp only [Node.inRch, hr]
  have hmk : ∀ m, ahhMk (heightSet p v s) m = ahhMk s m := by
    intro m; simp only [ahhMk]; rw [key]; split
    · rename_i e; rw [e]
    · rfl
  have hgrow : ∀ m, (s.nodeD m).height ≤ ((heightSet p v s).nodeD m).height := by
    intro m; rw [hh]; split
    · rename_i e; rw [e]; exact hv
    · exact Int.le_refl _
  refine ⟨A.rel.trans (HRel.upd (s := s) (n := p) (f := fun x => { x with height := v }) rfl rfl
      (fun x => ⟨rfl, rfl⟩) rfl hv),
    A.wf.congr rfl (funext hmk), A.heap.congr rfl (by simp [heightSet]) hr, ?_, ?_, ?_, ?_, ?_, ?_⟩
  rotate_left 4
  · intro m hmB
    have := A.memB p hm
    rw [key, if_neg (fun e => by rw [e] at hmB; omega)]; exact A.low m hmB
  · intro m hmm
    rw [hmk] at hmm; exact A.memB m hmm
  · intro x q i hmem
    rw [hpar'] at hmem
    have hxq := hne x q i hmem
    rw [hmk]
    by_cases ex : x = p
    · rw [ex]; exact Or.inr (Or.inl hm)
    · rw [hh x, if_neg ex]
      by_cases eq : q = p
      · rw [hh q, if_pos eq]
        rw [eq] at hmem
        rcases A.edge x p i hmem with h | h | h
        · left; omega
        · exact Or.inr (Or.inl h)
        · left; rw [hX x p i h]; exact hcv
      · rw [hh q, if_neg eq]
        rcases A.edge x q i hmem with h | h | h
        · exact Or.inl h
        · exact Or.inr (Or.inl h)
        · exact Or.inr (Or.inr ⟨h, eq⟩)
  · intro x q i hmem hmx
    rw [hpar'] at hmem
    rw [hmk] at hmx ⊢
    have := A.old x q i hmem hmx
    have := hgrow q
    omega
  · intro m hq hmm hy
    rw [hin] at hq
    rw [hmk] at hmm
    have e : m ≠ p := fun e => hm (e ▸ hmm)
    rw [hr, hh, if_neg e]; exact A.hgt m hq hmm hy
  · intro m hq
    rw [hin] at hq
    have := A.hle m hq
    have := hgrow m
    rw [hr]; omega

/-- S3: the least member is popped -/
theorem AInv.pop {rk : Nat → Nat} {B : Nat} {s0 s : State} (A : AInv rk B s0 s noX noY) {n : Nat} {rest : List Nat}
    (hq : s.ahh.queues[ahhFirst s]? = some (n :: rest)) :
    AInv rk B s0 (ahhPopped (ahhFirst s) n rest s) (fun x _ _ => x = n) (· = n) ∧ rk B ≤ rk n ∧
      (∀ q i, (q, i) ∈ (s.nodeD n).parents →
        (ahhPopped (ahhFirst s) n rest s).ahh.lowerBound < ((ahhPopped (ahhFirst s) n rest s).nodeD q).height) ∧
      ∀ m, (ahhPopped (ahhFirst s) n rest s).nodeD m =
        if m = n then { s.nodeD n with heightInAhh := -1 } else s.nodeD m := by
  obtain ⟨hwf, hmn⟩ := A.wf.popped hq
  have hmem : ahhMk s n ≠ -1 := by rw [hmn]; omega
  have hn : n < s.nodes.size := by
    apply Decidable.byContradiction
    intro h
    apply hmem
    simp only [ahhMk]
    rw [nodeD_default s n (by omega)]; rfl
  have key : ∀ m, (ahhPopped (ahhFirst s) n rest s).nodeD m =
      if m = n then { s.nodeD n with heightInAhh := -1 } else s.nodeD m :=
    nodeD_upd (s := s) (f := fun x => { x with heightInAhh := -1 }) rfl hn
  have hpar' : ∀ m, ((ahhPopped (ahhFirst s) n rest s).nodeD m).parents = (s.nodeD m).parents := by
    intro m; rw [key]; split
    · rename_i e; rw [e]
    · rfl
  have hh : ∀ m, ((ahhPopped (ahhFirst s) n rest s).nodeD m).height = (s.nodeD m).height := by
    intro m; rw [key]; split
    · rename_i e; rw [e]
    · rfl
  have hr : ∀ m, ((ahhPopped (ahhFirst s) n rest s).nodeD m).heightInRch = (s.nodeD m).heightInRch := by
    intro m; rw [key]; split
    · rename_i e; rw [e]
    · rfl
  have hin : ∀ m, ((ahhPopped (ahhFirst s) n rest s).nodeD m).inRch = (s.nodeD m).inRch := by
    intro m; simp only [Node.inRch, hr]
  have hmk : ∀ m, ahhMk (ahhPopped (ahhFirst s) n rest s) m = if m = n then -1 else ahhMk s m := by
    intro m; simp only [ahhMk]; rw [key]; split <;> rfl
  refine ⟨⟨A.rel.trans (HRel.upd (s := s) (n := n) (f := fun x => { x with heightInAhh := -1 }) rfl rfl
      (fun x => ⟨rfl, rfl⟩) rfl (Int.le_refl _)),
    hwf, A.heap.congr rfl (by simp [ahhPopped]) hr, ?_, ?_, ?_, ?_, ?_, ?_⟩, A.memB n hmem, ?_, key⟩
  rotate_left 4
  · intro m hmB
    have := A.memB n hmem
    rw [key, if_neg (fun e => by rw [e] at hmB; omega)]; exact A.low m hmB
  · intro m hmm
    rw [hmk] at hmm
    by_cases e : m = n
    · rw [if_pos e] at hmm; exact absurd rfl hmm
    · rw [if_neg e] at hmm; exact A.memB m hmm
  rotate_left 1
  · intro c q i hm
    rw [hpar'] at hm
    rw [hh, hh, hmk]
    by_cases e : c = n
    · exact Or.inr (Or.inr e)
    · rw [if_neg e]
      rcases A.edge c q i hm with h | h | h
      · exact Or.inl h
      · exact Or.inr (Or.inl h)
      · exact h.elim
  · intro c q i hm hmc
    rw [hpar'] at hm
    rw [hh, hmk] at *
    by_cases e : c = n
    · rw [if_pos e] at hmc; exact absurd rfl hmc
    · rw [if_neg e] at hmc ⊢; exact A.old c q i hm hmc
  · intro m hq' hmm hy
    rw [hin] at hq'
    rw [hmk, if_neg hy] at hmm
    rw [hr, hh]; exact A.hgt m hq' hmm (fun h => h)
  · intro m hq'
    rw [hin] at hq'
    rw [hr, hh]; exact A.hle m hq'
  · intro q i hm
    rw [hh]
    show (ahhFirst s : Int) < _
    rw [← hmn]
    exact A.old n q i hm hmem

/-- S4: the popped node is re-bucketed in the recompute heap -/
theorem AInv.rebucket {rk : Nat → Nat} {B : Nat} {s0 s : State} {X : Nat → Nat → Nat → Prop} {Y : Nat → Prop} (A : AInv rk B s0 s X Y)
    {n : Nat} {Q : Array (List Nat)} (hn : n < s.nodes.size) (hq : (s.nodeD n).inRch = true)
    (h0 : 0 ≤ (s.nodeD n).height) (hQ : Q.size = s.rch.queues.size)
    (hwf : HeapWF (rebucketed n (s.nodeD n).height Q s)) (hY : ∀ m, Y m → m = n) (hB : rk B ≤ rk n) :
    AInv rk B s0 (rebucketed n (s.nodeD n).height Q s) X noY := by
  have key : ∀ m, (rebucketed n (s.nodeD n).height Q s).nodeD m =
      if m = n then { s.nodeD n with heightInRch := (s.nodeD n).height } else s.nodeD m :=
    nodeD_upd (s := s) (f := fun x => { x with heightInRch := (s.nodeD n).height }) rfl hn
  have hpar' : ∀ m, ((rebucketed n (s.nodeD n).height Q s).nodeD m).parents = (s.nodeD m).parents := by
    intro m; rw [key]; split
    · rename_i e; rw [e]
    · rfl
  have hh : ∀ m, ((rebucketed n (s.nodeD n).height Q s).nodeD m).height = (s.nodeD m).height := by
    intro m; rw [key]; split
    · rename_i e; rw [e]
    · rfl
  have hr : ∀ m, ((rebucketed n (s.nodeD n).height Q s).nodeD m).heightInRch =
      if m = n then (s.nodeD n).height else (s.nodeD m).heightInRch := by
    intro m; rw [key]; split <;> rfl
  have hin : ∀ m, ((rebucketed n (s.nodeD n).height Q s).nodeD m).inRch = (s.nodeD m).inRch := by
    intro m
    simp only [Node.inRch, hr]
    split
    · rename_i e
      rw [e]
      simp only [Node.inRch] at hq
      rw [hq]; simpa using h0
    · rfl
  have hmk : ∀ m, ahhMk (rebucketed n (s.nodeD n).height Q s) m = ahhMk s m := by
    intro m; simp only [ahhMk]; rw [key]; split
    · rename_i e; rw [e]
    · rfl
  refine ⟨A.rel.trans (HRel.upd (s := s) (n := n)
      (f := fun x => { x with heightInRch := (s.nodeD n).height }) rfl (by simp only [hKey, rebucketed, hQ])
      (fun x => ⟨rfl, rfl⟩) ?_ (Int.le_refl _)),
    A.wf.congr rfl (funext hmk), ⟨hwf, ?_, A.heap.lb0⟩, ?_, ?_, ?_, ?_, ?_, ?_⟩
  rotate_left 6
  · intro m hmB
    rw [key, if_neg (fun e => by rw [e] at hmB; omega)]; exact A.low m hmB
  · intro m hmm
    rw [hmk] at hmm; exact A.memB m hmm
  · have := hin n
    rw [key, if_pos rfl] at this
    exact this
  · intro m hqm
    rw [hin] at hqm
    rw [hr]
    show s.rch.lowerBound ≤ _
    have h1 := A.heap.lb m hqm
    have h2 := A.hle m hqm
    by_cases e : m = n
    · rw [if_pos e]; rw [e] at h1 h2; omega
    · rw [if_neg e]; exact h1
  · intro c q i hm
    rw [hpar'] at hm
    rw [hh, hh, hmk]; exact A.edge c q i hm
  · intro c q i hm hmc
    rw [hpar'] at hm
    rw [hh, hmk] at *
    exact A.old c q i hm hmc
  · intro m hqm hmm _
    rw [hin] at hqm
    rw [hmk] at hmm
    rw [hr, hh]
    split
    · rename_i e; rw [e]
    · rename_i e; exact A.hgt m hqm hmm (fun hy => e (hY m hy))
  · intro m hqm
    rw [hin] at hqm
    rw [hr, hh]
    split
    · rename_i e; rw [e]; exact Int.le_refl _
    · exact A.hle m hqm

end BA
end IncrVerif.Proofs.ExpertH.QR
