import IncrVerif.Proofs.PerKeyH23
import IncrVerif.Proofs.PerKeyH30
import IncrVerif.Proofs.PerKeyLoop
/-!
# The callback discipline `SlotInv` in the per-key fragment, part 3: inside a run of a change detector (D)

All statements are about the ACTUAL state `σ` between two engine calls of `perKeyDriver`; the structural hypothesis is
what `DriverH.Mid (twEnv env) (twL l σ)` provides (`XFrag` of the twin, `propagateInvalidity = []`, `Struct`).

* `addDep_slots_pk` / `addDep_slots_mid`: `expertAddDependency` (any fuel).
* `makeStale_slots`: `expertMakeStale` (no hypothesis at all).
* `cfx_slots_mid`: `SlotInv` along the creation frame `ExpertH.CFX`; `cfx_withInputNode` (the fresh per-key record and its
  node), `PresCF.elabTemplateBase_t` (the instance of the template), `PresCF.tick`, `cfx_of_nodes` (log, `perkeys`).
-/
namespace IncrVerif.Proofs.PerKeyH
open IncrVerif.Engine IncrVerif.Driver IncrVerif.Proofs IncrVerif.Proofs.Step IncrVerif.Proofs.Sched
open IncrVerif.Proofs.ExpertH IncrVerif.Proofs.EffH IncrVerif.Proofs.Xp IncrVerif.Proofs.DriverH

/-! ## the frame fragment, back from the twin -/

theorem fr_of_twin {l : List Event} {σ : State} (h : Fr (twL l σ)) : Fr σ where
  pc := h.pc
  valid n := by have := h.valid n; rwa [twL_nodeD, twNode_valid] at this
  pinv := h.pinv
  kind n := by have := h.kind n; rwa [twL_nodeD, twNode_kind, XK_twKind] at this
  ni e er he := h.ni e (twRec er) (tw_rec_get he)

theorem noMapRef_of_twin {env : Env} {l : List Event} {σ : State} (F : XFrag (twEnv env) (twL l σ)) (m p i : Nat) :
    (σ.nodeD m).kind ≠ .mapRef p i := by
  intro h
  have := F.noMapRef m p i
  rw [twL_nodeD, twNode_kind, h] at this
  exact this rfl

/-! ## `expertAddDependency` -/

/-- fuel `0`: only the bookkeeping of an unnecessary node succeeds -/
theorem expertAddDependency_slots0 {env : Env} {s s' : State} {n c e dep : Nat} {cb : Bool} {er : ExpertRec}
    (F : XFrag env s) (L : SlotInv env s)
    (hk : (s.nodeD n).kind = .expert e) (hx : s.experts[e]? = some er)
    (h : (expertAddDependency env 0 n c cb).run.run s = (.ok dep, s')) : SlotInv env s' := by
  have hlt := F.lt_of_expert hk
  have hX : IsExpert s n (s.nodeD n) e er := ⟨some_of_lt hlt, F.valid n hlt, hk, hx⟩
  cases hnec : (s.nodeD n).isNecessary with
  | false =>
    rw [expertAddDependency_unnecessary env 0 n c cb hX hnec] at h
    cases h
    refine slotInv_added L F.validD hx fun hw _ => ?_
    have := L.flag n e er hk hx hw
    simp only [State.isNecessary, hnec] at this
    cases this
  | true =>
    exfalso
    rw [expertAddDependency_necessary_factor env 0 n c cb hX hnec] at h
    obtain ⟨_, s5, hsap, -⟩ := bind_ok_inv h
    unfold stateAddParent at hsap
    rw [run_bind_get] at hsap
    replace hsap := bind_dassert_inv hsap
    obtain ⟨_, s3, hap, -⟩ := bind_ok_inv hsap
    unfold addParentWithoutAdjustingHeights at hap
    rw [run_throw] at hap
    cases hap

/-- **D1.** `expertAddDependency` keeps the callback discipline (hypotheses: what `Mid` of the twin provides) -/
theorem addDep_slots_pk {env : Env} {l : List Event} {σ σ' : State} {fuel n c e dep : Nat} {cb : Bool} {er : ExpertRec}
    (F : XFrag (twEnv env) (twL l σ)) (hp : σ.propagateInvalidity = []) (L : SlotInv env σ)
    (hk : (σ.nodeD n).kind = .expert e) (hx : σ.experts[e]? = some er)
    (h : (expertAddDependency env fuel n c cb).run.run σ = (.ok dep, σ')) : SlotInv env σ' := by
  have frσ : Fr σ := fr_of_twin (F.fr hp)
  obtain ⟨⟨l', htw⟩, -⟩ := TSim.expertAddDependency env fuel n c cb σ frσ l dep σ' h
  have Lt := (slotInv_twin env l σ).1 L
  have hkt := (twL_kind_expert l σ n e).2 hk
  have hxt := tw_rec_get (l := l) hx
  refine (slotInv_twin env l' σ').2 ?_
  cases fuel with
  | zero => exact expertAddDependency_slots0 F Lt hkt hxt htw
  | succ fuel => exact expertAddDependency_slots F hp Lt hkt hxt htw

theorem addDep_slots_mid {env : Env} {l : List Event} {σ σ' : State} {fuel n c e dep : Nat} {cb : Bool} {er : ExpertRec}
    (M : Mid (twEnv env) (twL l σ)) (L : SlotInv env σ)
    (hk : (σ.nodeD n).kind = .expert e) (hx : σ.experts[e]? = some er)
    (h : (expertAddDependency env fuel n c cb).run.run σ = (.ok dep, σ')) : SlotInv env σ' :=
  addDep_slots_pk M.frag M.pinv L hk hx h

/-- the same from the fragment of the actual state -/
theorem addDep_slots_pf {env : Env} {σ σ' : State} {fuel n c e dep : Nat} {cb : Bool} {er : ExpertRec}
    (F : PFrag env σ) (hp : σ.propagateInvalidity = []) (L : SlotInv env σ)
    (hk : (σ.nodeD n).kind = .expert e) (hx : σ.experts[e]? = some er)
    (h : (expertAddDependency env fuel n c cb).run.run σ = (.ok dep, σ')) : SlotInv env σ' :=
  addDep_slots_pk (xfrag_twin [] F) hp L hk hx h

/-! ## `expertMakeStale` -/

theorem isStale_invalid' (s : State) (m : Nat) (h : (s.nodeD m).valid = false) : s.isStale m = false := by
  unfold State.isStale
  simp [Node.kind?, h]

/-- raising `forceStale` of one record: the `good` clause gets weaker -/
theorem slotInv_forced {env : Env} {s : State} {e : Nat} {er : ExpertRec} (L : SlotInv env s)
    (hx : s.experts[e]? = some er) : SlotInv env (Xp.forced e er s) := by
  have hget : (Xp.forced e er s).experts[e]? = some { er with forceStale := true } := putExpert_get _ hx
  have hne : ∀ e', e' ≠ e → (Xp.forced e er s).experts[e']? = s.experts[e']? :=
    fun e' h => putExpert_get_ne s _ (Ne.symm h)
  have hv : ∀ m, (Xp.forced e er s).value env m = s.value env m := fun m => putExpert_value env e _ s m
  refine ⟨fun e' er' he' => ?_, fun n e' er' hk he' hw => ?_, fun n e' er' hk he' hpre => ?_⟩
  · by_cases h : e' = e
    · subst h; rw [hget] at he'; cases he'
      exact L.deps e' er hx
    · rw [hne e' h] at he'; exact L.deps e' er' he'
  · by_cases h : e' = e
    · subst h; rw [hget] at he'; cases he'
      exact L.flag n e' er hk hx hw
    · rw [hne e' h] at he'; exact L.flag n e' er' hk he' hw
  · have hk0 : (s.nodeD n).kind = .expert e' := hk
    by_cases h : e' = e
    · subst h; rw [hget] at he'; cases he'
      have hpre0 : er.willFireAllCallbacks = false ∨ s.isStale n = false := by
        rcases hpre with h | h
        · exact Or.inl h
        · cases hval : (s.nodeD n).valid with
          | false => exact Or.inr (isStale_invalid' s n hval)
          | true =>
            have : (Xp.forced e' er s).isStale n = true :=
              isStale_of_forceStale (s := Xp.forced e' er s) hk hval hget rfl
            rw [this] at h; cases h
      intro ed hed hcb
      rw [hv]; exact L.good n e' er hk0 hx hpre0 ed hed hcb
    · rw [hne e' h] at he'
      have hst : (Xp.forced e er s).isStale n = s.isStale n :=
        isStale_expert_congr (s := s) (s' := Xp.forced e er s) (fun _ => rfl) hk0 he'
          (by rw [hne e' h]; exact he') rfl rfl
      rw [hst] at hpre
      intro ed hed hcb
      rw [hv]; exact L.good n e' er' hk0 he' hpre ed hed hcb

/-- **D2.** `expertMakeStale` keeps the callback discipline -/
theorem makeStale_slots {env : Env} {σ σ' : State} {n : Nat} {u : Unit} (L : SlotInv env σ)
    (h : (expertMakeStale n).run.run σ = (.ok u, σ')) : SlotInv env σ' := by
  cases hnd : σ.nodes[n]? with
  | none =>
    exfalso
    unfold expertMakeStale at h
    obtain ⟨nd, hnd', -⟩ := bind_getNode_inv h
    rw [hnd] at hnd'; cases hnd'
  | some nd =>
    cases hv : nd.valid with
    | false => rw [expertMakeStale_invalid hnd hv] at h; cases h; exact L
    | true =>
      by_cases hk : ∀ e, nd.kind ≠ .expert e
      · rw [expertMakeStale_not_expert hnd hk] at h; cases h; exact L
      · have : ∃ e, nd.kind = .expert e := by
          cases hkd : nd.kind <;>
            first | exact ⟨_, rfl⟩ | (exfalso; apply hk; intro e; rw [hkd]; intro h; cases h)
        obtain ⟨e, hkk⟩ := this
        cases hx : σ.experts[e]? with
        | none =>
          exfalso
          unfold expertMakeStale at h
          rw [run_bind_ok (run_getNode_some hnd)] at h
          simp only [hv, Bool.not_true, Bool.false_eq_true, if_false] at h
          rw [run_bind_ok (Xp.run_expertOf hnd)] at h
          simp only [Node.kind?, hv, hkk, if_true] at h
          cases hr : runningOk σ n with
          | false =>
            obtain ⟨p, hp⟩ := run_assertRunningIsChild_fail (name := "make_stale") hr
            rw [run_bind, hp] at h; cases h
          | true =>
            rw [run_bind_ok (run_assertRunningIsChild_ok hr)] at h
            obtain ⟨er, he, -⟩ := bind_getExpert_inv h
            rw [hx] at he; cases he
        | some er =>
          have hX : IsExpert σ n nd e er := ⟨hnd, hv, hkk, hx⟩
          cases hr : runningOk σ n with
          | false =>
            obtain ⟨p, hp⟩ := expertMakeStale_assert_fails hX hr
            rw [hp] at h; cases h
          | true =>
            rw [expertMakeStale_run hX hr] at h
            have Lf := slotInv_forced L hx
            split at h
            · cases h; exact L
            · split at h
              · exact slotInv_of_sr_fm Lf ((PresR.rchInsert n).h _ _ _ h) ((PresM.rchInsert n).h _ _ _ h)
              · cases h; exact Lf

end IncrVerif.Proofs.PerKeyH
