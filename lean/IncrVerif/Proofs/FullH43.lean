import IncrVerif.Proofs.FullH42
/-!
# C01 full fragment: one `recomputeOne` of a node that is neither a map_ref nor a map_with_old node, part 3: the headline
-/
namespace IncrVerif.Proofs.FullH
open IncrVerif.Engine IncrVerif.Proofs IncrVerif.Proofs.Step IncrVerif.Proofs.Sched IncrVerif.Proofs.Quiet

namespace ST
section
variable {env : Env}

/-- a successful step of a change detector has read its bind record -/
theorem recomputeOne_ok_bind {fuel n : Nat} {s s' : State} {nd : Node} {r : Option Nat} {b : Nat}
    (hn : s.nodes[n]? = some nd) (hv : nd.valid = true) (hk : nd.kind = .bindLhsChange b)
    (h : (recomputeOne env fuel n).run.run s = (.ok r, s')) : ∃ br, s.binds[b]? = some br := by
  cases hb : s.binds[b]? with
  | some br => exact ⟨br, rfl⟩
  | none =>
    exfalso
    have hk? : ({ nd with recomputedAt := s.stabNum } : Node).kind? = some (.bindLhsChange b) := by
      simp [Node.kind?, hv, hk]
    have hn' := started_getElem? n s nd hn
    unfold recomputeOne at h
    simp only [run_bind_get] at h
    cases hd : s.cfg.debug
    all_goals
      simp only [started, hd, Bool.false_eq_true, if_false, if_true, run_bind_modify,
        run_bind_bumpCounter, run_bind_get, run_bind_modNode] at hn' h
      rw [run_bind_ok (run_getNode_some hn'), hk?] at h
      dsimp only at h
      simp only [getBind, bind_assoc, run_bind_get, hb] at h
      cases h

theorem topLt_started {s : State} (n : Nat) (h : TopLt s) : TopLt (started n s) := by
  intro k r hk
  have : (started n s).nodes.size = s.nodes.size := by simp [started]
  rw [this]; exact h k r hk

end
end ST

section
variable {env : Env} {sp : Nat → Val → Val} {g : Nat → Option Val}

/-- **one `recomputeOne` of a change detector** (`bindLhsChange`): the ghost may be erased on the nodes that are invalidated -/
theorem recomputeOne_simX_lhs {s s' : State} {fuel n b : Nat} {r : Option Nat}
    (F : FFrag env sp g s) (hn : n < s.nodes.size) (hv : (s.nodeD n).valid = true)
    (hkd : (s.nodeD n).kind = .bindLhsChange b)
    (hkids : ∀ a, a ∈ s.children n → tv g s a = s.value env a)
    (htop : TopLt s)
    (htempl : ∀ br, s.binds[b]? = some br → ∀ v, ST.TemplS env sp (env.body br.body v))
    (h : (recomputeOne env fuel n).run.run s = (.ok r, s')) :
    ∃ g', (recomputeOne (VE env sp) fuel n).run.run (virt g s) = (.ok r, virt g' s') ∧ Fr (FK env sp) g' s' ∧
      GR g g' s s' := by
  have hnd := some_of_lt hn
  have hvn : (virt g s).nodes[n]? = some (virtNode (g n) (s.nodeD n)) := by rw [virt_getElem?, hnd]; rfl
  have hvval : (virtNode (g n) (s.nodeD n)).valid = true := by rw [virtNode_valid]; exact hv
  have hvk := virtNode_kind (g n) (s.nodeD n)
  rw [hkd] at hvk
  obtain ⟨br, hb⟩ := ST.recomputeOne_ok_bind hnd hv hkd h
  have hb' : (virt g s).binds[b]? = some br := hb
  have hk? : (s.nodeD n).kind? = some (.bindLhsChange b) := by simp [Node.kind?, hv, hkd]
  have hrd : tv g (started n s) br.lhs = (started n s).value env br.lhs := by
    rw [ST.tv_started, started_value]
    apply hkids
    unfold State.children
    rw [hk?]
    simp only [hb]
    simp
  have hk0 : ST.NK n (started n s) :=
    ⟨by simp [started]; exact hn, (fun p i => by rw [ST.started_kind, hkd]; exact fun e => by cases e),
      ST.exact_started (ST.exact_of_lc hkd) []⟩
  refine ST.simXAt_of_started (es := []) (Inval.recomputeOne_bindLhsChange_run env fuel n s _ b br hnd hv hkd hb)
    (Inval.recomputeOne_bindLhsChange_run (VE env sp) fuel n (virt g s) _ b br hvn hvval hvk hb') ?_ F.fr r s' h
  refine ST.SimXAt.seqA (ST.SimAt.lhsRunClosure hrd (ST.topLt_started n htop) (htempl br hb)) fun rhs t1 _ v1 => ?_
  refine ST.SimXAt.seqV (ST.SimX.lhsRelink fuel n b br s.stabNum rhs g t1) fun _ t2 g2 _ v2 => ?_
  refine ST.SimXAt.seqV (ST.SimX.lhsInvalidateOld fuel br g2 t2) fun _ t3 g3 _ v3 => ?_
  exact (ST.SimAt.lhsFinish (((hk0.vm v1).vm v2).vm v3).2.1 (((hk0.vm v1).vm v2).vm v3).2.2).toX

/-- **one `recomputeOne` of a node that is neither a map_ref nor a map_with_old node**: the actual step is simulated by the virtual step; the
ghost may be erased on nodes that end up invalid -/
theorem recomputeOne_simX {s s' : State} {fuel n : Nat} {r : Option Nat}
    (F : FFrag env sp g s) (hn : n < s.nodes.size) (hv : (s.nodeD n).valid = true)
    (hk1 : ∀ p i, (s.nodeD n).kind ≠ .mapRef p i) (hk2 : ∀ m i, (s.nodeD n).kind ≠ .mapWithOld m i)
    (hcn : (∀ b, (s.nodeD n).kind ≠ .bindLhsChange b) → (s.nodeD n).cutoff = .eq)
    (hkids : ∀ a, a ∈ s.children n → tv g s a = s.value env a)
    (htop : TopLt s)
    (htempl : ∀ b br, (s.nodeD n).kind = .bindLhsChange b → s.binds[b]? = some br →
      ∀ v, ST.TemplS env sp (env.body br.body v))
    (h : (recomputeOne env fuel n).run.run s = (.ok r, s')) :
    ∃ g', (recomputeOne (VE env sp) fuel n).run.run (virt g s) = (.ok r, virt g' s') ∧ Fr (FK env sp) g' s' ∧
      GR g g' s s' := by
  by_cases hlc : ∃ b, (s.nodeD n).kind = .bindLhsChange b
  · obtain ⟨b, hkd⟩ := hlc
    exact recomputeOne_simX_lhs F hn hv hkd hkids htop (fun br hb => htempl b br hkd hb) h
  by_cases hbm : ∃ b lc, (s.nodeD n).kind = .bindMain b lc
  · obtain ⟨b, lc, hkd⟩ := hbm
    have hnd := some_of_lt hn
    have hvn : (virt g s).nodes[n]? = some (virtNode (g n) (s.nodeD n)) := by rw [virt_getElem?, hnd]; rfl
    have hvval : (virtNode (g n) (s.nodeD n)).valid = true := by rw [virtNode_valid]; exact hv
    have hvk := virtNode_kind (g n) (s.nodeD n)
    rw [hkd] at hvk
    have hk? : (s.nodeD n).kind? = some (.bindMain b lc) := by simp [Node.kind?, hv, hkd]
    refine ST.simXAt_of_started (es := []) (ST.recomputeOne_bindMain_tail env fuel n s _ b lc hnd hv hkd)
      (ST.recomputeOne_bindMain_tail (VE env sp) fuel n (virt g s) _ b lc hvn hvval hvk)
      (ST.SimXAt.bindMainTail ?_ (ST.exact_started (ST.exact_of_eq (hcn fun b e => hlc ⟨b, e⟩)) []) ?_) F.fr r s' h
    · intro p i
      show ((started n s).nodeD n).kind ≠ _
      rw [ST.started_kind]; exact hk1 p i
    · intro br r0 hb hr
      have hb' : s.binds[b]? = some br := hb
      show tv g (started n s) r0 = (started n s).value env r0
      rw [ST.tv_started, started_value]
      apply hkids
      unfold State.children
      rw [hk?]
      simp only [hb', hr]
      simp
  · obtain ⟨h1, h2, h3⟩ := recomputeOne_sim F hn hv hk1 hk2 (fun b e => hlc ⟨b, e⟩) (hcn fun b e => hlc ⟨b, e⟩)
      (fun b lc _ _ e _ _ => absurd ⟨b, lc, e⟩ hbm) hkids h
    exact ⟨g, h1, h2, GR.of_vm h3⟩

end
end IncrVerif.Proofs.FullH
