import IncrVerif.Proofs.MapRef22
/-!
# map_ref fragment: the `didChange` invariant through `became_necessary_propagate` and `add_new_observers`
-/
namespace IncrVerif.Proofs.MapRefH
open IncrVerif.Engine IncrVerif.Proofs IncrVerif.Proofs.Step IncrVerif.Proofs.Sched IncrVerif.Proofs.Quiet

/-- (3), with the relation between the states -/
theorem becameNecessaryPropagate_keepsK' {env : Env} {g : Nat → Option Val} {fuel n : Nat} {s s' : State}
    (F : RFrag env s) (T : Inherit env g s) (hp : s.propagateInvalidity = [])
    (hK : ∀ m, m ≠ n → s.isNecessary m = true → KN env g s m)
    (h : (becameNecessaryPropagate env fuel n).run.run s = (.ok (), s')) :
    KInv env g s' ∧ GR s s' ∧ (∀ m, n ≤ m → (s'.nodeD m).parents = (s.nodeD m).parents) := by
  unfold becameNecessaryPropagate at h
  obtain ⟨_, s1, h1, h2⟩ := bind_ok_inv h
  obtain ⟨A, B, C, G⟩ := (linkK env g fuel).1 n s s1 F T h1 (fun m hm => hK m (by omega))
  have hp1 : s1.propagateInvalidity = [] := G.pinv.trans hp
  have e : s' = s1 := by
    cases fuel with
    | zero => unfold Engine.propagateInvalidity at h2; cases h2
    | succ fuel =>
      unfold Engine.propagateInvalidity at h2
      rw [run_bind_get, hp1] at h2
      exact (pure_ok_inv h2).2
  rw [e]
  refine ⟨kInv_iff.2 fun m hm => ?_, G, C⟩
  by_cases hmn : m ≤ n
  · exact A m hmn hm
  · have hm0 : s.isNecessary m = true := by
      rw [← nec_congr (C m (by omega)) (G.fr.observers m) (G.fr.forceNecessary m)]; exact hm
    exact G.kn (hK m (by omega) hm0)

/-- **(3)** `became_necessary_propagate` on a node that has just become necessary -/
theorem becameNecessaryPropagate_keepsK {env : Env} {g : Nat → Option Val} {fuel n : Nat} {s s' : State}
    (F : RFrag env s) (T : Inherit env g s) (hp : s.propagateInvalidity = [])
    (hK : ∀ m, m ≠ n → s.isNecessary m = true → KN env g s m)
    (h : (becameNecessaryPropagate env fuel n).run.run s = (.ok (), s')) :
    KInv env g s' ∧ s'.propagateInvalidity = [] ∧ FM s s' := by
  obtain ⟨K, G, -⟩ := becameNecessaryPropagate_keepsK' F T hp hK h
  exact ⟨K, G.pinv.trans hp, G.fm⟩

/-- (4), with the frame -/
theorem addNewObservers_keepsK' {env : Env} {g : Nat → Option Val} {fuel : Nat} {s s' : State}
    (F : RFrag env s) (T : Inherit env g s) (hp : s.propagateInvalidity = []) (K : KInv env g s)
    (h : (addNewObservers env fuel).run.run s = (.ok (), s')) :
    KInv env g s' ∧ s'.propagateInvalidity = [] ∧ FM s s' ∧ VFrame s s' := by
  unfold addNewObservers at h
  rw [run_bind_get] at h
  obtain ⟨s0, hs0, h⟩ := bind_modify_inv h
  obtain ⟨u, s1, hloop, h⟩ := bind_ok_inv h
  obtain ⟨-, e⟩ := pure_ok_inv h
  rw [e]
  have hn0 : s0.nodes = s.nodes := by rw [hs0]
  have hp0 : s0.propagateInvalidity = [] := by rw [hs0]; exact hp
  have v0 : VFrame s s0 := VFrame.of_nodes hn0 (by rw [hs0])
  have hnd0 : ∀ m, s0.nodeD m = s.nodeD m := fun m => by simp [State.nodeD, hn0]
  have K0 : KInv env g s0 :=
    K.congr (fun m => by rw [State.isNecessary, hnd0]; rfl) (fun m => by rw [hnd0]) (fun m h => by rw [← hnd0]; exact h)
      (fun m _ _ _ _ _ => v0.value_eq env m)
  have hfin := forIn_ok_inv _ s.newObservers
    (fun (_ : Nat) (_ : PUnit) t => KInv env g t ∧ t.propagateInvalidity = [] ∧ FM s t ∧ VFrame s t)
    (by
      intro j o b t r t' hj ⟨Kt, hpt, fmt, vt⟩ hbody
      obtain ⟨ob, hob, hbody⟩ := bind_getObs_inv hbody
      cases hst : ob.state <;> rw [hst] at hbody <;> try dsimp only at hbody
      case inUse =>
        obtain ⟨_, _, h1, _⟩ := bind_ok_inv hbody
        rw [run_panic] at h1; cases h1
      case disallowed =>
        obtain ⟨_, _, h1, _⟩ := bind_ok_inv hbody
        rw [run_panic] at h1; cases h1
      case unlinked =>
        obtain ⟨hr, e⟩ := pure_ok_inv hbody
        rw [e]
        exact ⟨_, hr, Kt, hpt, fmt, vt⟩
      case created =>
        obtain ⟨t1, ht1, hbody⟩ := bind_modObs_inv hbody
        rw [run_bind_get] at hbody
        try dsimp only at hbody
        obtain ⟨t2, ht2, hbody⟩ := bind_modify_inv hbody
        obtain ⟨t3, ht3, hbody⟩ := bind_modNode_inv hbody
        obtain ⟨_, t4, h4, hbody⟩ := bind_ok_inv hbody
        rw [run_bind_get] at hbody
        replace hbody := bind_dassert_inv hbody
        have hwas : t1.isNecessary ob.node = t.isNecessary ob.node := by rw [ht1]; rfl
        rw [hwas] at hbody
        -- the bookkeeping prefix
        have hnodes2 : t2.nodes = t.nodes := by rw [ht2, ht1]
        have hpc2 : t2.panicCountdown = t.panicCountdown := by rw [ht2, ht1]
        have hpi2 : t2.propagateInvalidity = t.propagateInvalidity := by rw [ht2, ht1]
        have v3 : VFrame t t3 := by
          refine (VFrame.of_nodes hnodes2 hpc2).trans ?_
          rw [ht3]
          exact VFrame.modNode _ _ _ (fun _ => ⟨rfl, rfl, rfl, rfl, rfl, rfl⟩)
        have f3 : FM t t3 := by
          refine PreOrd.trans (FM.of_nodes hnodes2) ?_
          rw [ht3]; exact FM.modNode _ _ _ (fun _ h => h)
        have p3 : PP t t3 := by
          refine PreOrd.trans (PP.of_nodes hnodes2 hpi2) ?_
          rw [ht3]; exact PP.modNode _ _ _ (fun _ => rfl)
        have hoth3 : ∀ m, m ≠ ob.node → t3.nodeD m = t.nodeD m := by
          intro m hm
          rw [ht3, nodeD_modify, if_neg (fun e => hm e.1.symm), ht2, ht1]; rfl
        have L4 : Lt t3 t4 := lt_run h4
        have v4 : VFrame t t4 := v3.trans L4.fr.toV
        have f4 : FM t t4 := PreOrd.trans f3 L4.fm
        have hp4 : t4.propagateInvalidity = [] := (L4.pp.2.trans p3.2).trans hpt
        have hnec4 : ∀ m, m ≠ ob.node → t4.isNecessary m = t.isNecessary m := by
          intro m hm
          rw [L4.nec, State.isNecessary, hoth3 m hm]; rfl
        have hKN4 : ∀ m, t.isNecessary m = true → KN env g t4 m := fun m hm =>
          (kInv_iff.1 Kt m hm).mono v4 f4
        cases hw : t.isNecessary ob.node with
        | true =>
          rw [hw] at hbody
          simp only [Bool.not_true, Bool.false_eq_true, if_false] at hbody
          obtain ⟨hr, e⟩ := pure_ok_inv hbody
          rw [e]
          refine ⟨_, hr, kInv_iff.2 fun m hm => ?_, hp4, PreOrd.trans fmt f4, vt.trans v4⟩
          by_cases em : m = ob.node
          · rw [em]; exact hKN4 _ hw
          · exact hKN4 m (by rw [← hnec4 m em]; exact hm)
        | false =>
          rw [hw] at hbody
          simp only [Bool.not_false, if_true] at hbody
          obtain ⟨_, t5, h5, hbody⟩ := bind_ok_inv hbody
          obtain ⟨hr, e⟩ := pure_ok_inv hbody
          rw [e]
          have F4 : RFrag env t4 := F.of_vframe (vt.trans v4)
          have T4 : Inherit env g t4 := T.of_vframe (vt.trans v4)
          obtain ⟨K5, G5, -⟩ := becameNecessaryPropagate_keepsK' F4 T4 hp4
            (fun m hm hn => hKN4 m (by rw [← hnec4 m hm]; exact hn)) h5
          exact ⟨_, hr, K5, G5.pinv.trans hp4, PreOrd.trans fmt (PreOrd.trans f4 G5.fm),
            (vt.trans v4).trans G5.fr.toV⟩)
    s.newObservers 0 PUnit.unit s0 u s1 (by simp) (Nat.zero_le _)
    ⟨K0, hp0, FM.of_nodes hn0, v0⟩ hloop
  exact hfin

/-- **(4)** `add_new_observers` -/
theorem addNewObservers_keepsK {env : Env} {g : Nat → Option Val} {fuel : Nat} {s s' : State}
    (F : RFrag env s) (T : Inherit env g s) (hp : s.propagateInvalidity = []) (K : KInv env g s)
    (h : (addNewObservers env fuel).run.run s = (.ok (), s')) :
    KInv env g s' ∧ s'.propagateInvalidity = [] ∧ FM s s' := by
  obtain ⟨h1, h2, h3, -⟩ := addNewObservers_keepsK' F T hp K h
  exact ⟨h1, h2, h3⟩

end IncrVerif.Proofs.MapRefH
