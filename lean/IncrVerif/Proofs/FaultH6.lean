import IncrVerif.Proofs.Subs16
import IncrVerif.Proofs.Poison
import IncrVerif.Proofs.VarWrites
/-!
# Faults in whole histories, part G0: histories that continue after a panic; what every later action keeps

`stepCatch`/`runCatch`: a history in which a panic of an action is caught (as the harness and `traceAction` do): the state
is the one at the panic point, the token table is unchanged, the next action runs.
`AfterR s s'`: what every action of the fragment OTHER THAN `stabilise` guarantees, whether it returns or panics, from ANY
state (no invariant): status and configuration kept, liveness only lowered, NOTHING logged, stored node values / kinds /
validity kept, an observer that is in use afterwards was in use before on the same node, and in status `stabilising` no
variable value changes (writes are parked).
-/
namespace IncrVerif.Proofs.FaultH
open IncrVerif.Engine IncrVerif.Driver IncrVerif.Proofs IncrVerif.Proofs.Step

/-- the actions of the fragment with faults: static actions, subscriptions, `arm k`, `dropAll` -/
def FAction (env : Env) : Action → Prop
  | .arm _ | .dropAll => True
  | a => SubsH.SubAction env a

/-- one action; a panic is caught: state at the panic point, token table unchanged -/
def stepCatch (env : Env) (a : Action) (st : State × Array Nat) : State × Array Nat :=
  match (stepAction env a st.2).run.run st.1 with
  | (.ok r, s1) => (s1, r.2)
  | (.error _, s1) => (s1, st.2)

/-- a history that continues after panics -/
def runCatch (env : Env) (acts : List Action) (st : State × Array Nat) : State × Array Nat :=
  acts.foldl (fun st a => stepCatch env a st) st

theorem runCatch_nil (env : Env) (st : State × Array Nat) : runCatch env [] st = st := rfl
theorem runCatch_cons (env : Env) (a : Action) (as : List Action) (st : State × Array Nat) :
    runCatch env (a :: as) st = runCatch env as (stepCatch env a st) := rfl
theorem runCatch_append (env : Env) (as bs : List Action) (st : State × Array Nat) :
    runCatch env (as ++ bs) st = runCatch env bs (runCatch env as st) := by
  simp [runCatch, List.foldl_append]

structure AfterR (s s' : State) : Prop where
  status : s'.status = s.status
  cfg : s'.cfg = s.cfg
  alive : s'.alive = true → s.alive = true
  log : s'.log = s.log
  nodes : ∀ (n : Nat) (nd : Node), s.nodes[n]? = some nd →
    ∃ nd', s'.nodes[n]? = some nd' ∧ nd'.value = nd.value ∧ nd'.kind = nd.kind ∧ nd'.valid = nd.valid
  obsInUse : ∀ (o : Nat) (ob' : ObsRec), s'.observers[o]? = some ob' → ob'.state = .inUse →
    ∃ ob, s.observers[o]? = some ob ∧ ob.state = .inUse ∧ ob.node = ob'.node
  parked : s.status = .stabilising → ∀ (v : Nat) (vc : VarCell), s.vars[v]? = some vc →
    ∃ vc', s'.vars[v]? = some vc' ∧ vc'.value = vc.value

theorem AfterR.refl (s : State) : AfterR s s :=
  ⟨rfl, rfl, id, rfl, fun _ nd h => ⟨nd, h, rfl, rfl, rfl⟩, fun _ ob h hs => ⟨ob, h, hs, rfl⟩,
    fun _ _ vc h => ⟨vc, h, rfl⟩⟩

theorem AfterR.trans {a b c : State} (h1 : AfterR a b) (h2 : AfterR b c) : AfterR a c where
  status := h2.status.trans h1.status
  cfg := h2.cfg.trans h1.cfg
  alive h := h1.alive (h2.alive h)
  log := h2.log.trans h1.log
  nodes n nd h := by
    obtain ⟨nd1, e1, v1, k1, w1⟩ := h1.nodes n nd h
    obtain ⟨nd2, e2, v2, k2, w2⟩ := h2.nodes n nd1 e1
    exact ⟨nd2, e2, v2.trans v1, k2.trans k1, w2.trans w1⟩
  obsInUse o ob'' h hs := by
    obtain ⟨ob', e1, s1, n1⟩ := h2.obsInUse o ob'' h hs
    obtain ⟨ob, e0, s0, n0⟩ := h1.obsInUse o ob' e1 s1
    exact ⟨ob, e0, s0, n0.trans n1⟩
  parked hst v vc h := by
    obtain ⟨vc1, e1, v1⟩ := h1.parked hst v vc h
    obtain ⟨vc2, e2, v2⟩ := h2.parked (h1.status.trans hst) v vc1 e1
    exact ⟨vc2, e2, v2.trans v1⟩

instance : PreOrd AfterR := ⟨AfterR.refl, AfterR.trans⟩

end IncrVerif.Proofs.FaultH
