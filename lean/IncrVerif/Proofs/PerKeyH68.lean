import IncrVerif.Proofs.PerKeyH4
/-!
# Per-key operators, a run of an expert node, part 1: the master equation of the `.expert` branch for a record with
`pk ≠ none` (the variant of `Xp.recomputeOne_expert_run`, which needs `pk = none`)

No `tick`, no log line; the callbacks do not log either.  The state in which the closure runs is
`readyP env n e s er = putExpert e (readyRec env s er) (started n s)`.
-/
namespace IncrVerif.Proofs.PerKeyH
open IncrVerif.Engine IncrVerif.Driver IncrVerif.Proofs IncrVerif.Proofs.Step IncrVerif.Proofs.Sched
open IncrVerif.Proofs.ExpertH IncrVerif.Proofs.EffH IncrVerif.Proofs.DriverH IncrVerif.Proofs.Xp

/-- `Edge::on_change` on a record of a per-key operator: no tick, no event -/
theorem xs_edgeOnChange_run_pk (env : Env) {e : Nat} (edge : ExpertEdge) {s : State} {er : ExpertRec}
    (he : s.experts[e]? = some er) (hpk : er.pk.isNone = false) :
    (edgeOnChange env e edge).run.run s = (.ok (), putExpert e (fireRec env s er edge) s) := by
  unfold edgeOnChange fireRec
  cases hcb : edge.cb with
  | none => rw [putExpert_self he]; rfl
  | some c =>
    simp only [run_bind_get]
    cases hv : s.value env edge.child with
    | none => rw [putExpert_self he]; rfl
    | some v =>
      rw [run_bind_ok (Xp.run_getExpert_some he)]
      simp only [hpk, Bool.false_eq_true, if_false]
      rw [run_modExpert_some _ he]

theorem fireRec_pk (env : Env) (s : State) (r : ExpertRec) (a : ExpertEdge) : (fireRec env s r a).pk = r.pk := by
  unfold fireRec; split <;> rfl

/-- the `for edge in children do edge.on_change()` loop on a record of a per-key operator -/
theorem xs_fireLoop_run_pk (env : Env) (e : Nat) (edges : List ExpertEdge) :
    ∀ (s : State) (er r : ExpertRec), s.experts[e]? = some er → r.pk.isNone = false →
      (forIn edges PUnit.unit (fun edge (_ : PUnit) => do
          edgeOnChange env e edge
          pure (ForInStep.yield PUnit.unit) : ExpertEdge → PUnit → M (ForInStep PUnit))).run.run (putExpert e r s) =
        (.ok PUnit.unit, putExpert e (edges.foldl (fireRec env s) r) s) := by
  induction edges with
  | nil => intro s er r _ _; rfl
  | cons a rest ih =>
    intro s er r he hpk
    have he' : (putExpert e r s).experts[e]? = some r := putExpert_get r he
    have hval : ∀ c, (putExpert e r s).value env c = s.value env c := fun c => putExpert_value env e r s c
    rw [List.forIn_cons, bind_assoc, run_bind_ok (xs_edgeOnChange_run_pk env a he' hpk), pure_bind,
      fireRec_congr env s _ hval, putExpert_put]
    exact ih s er _ he (by rw [fireRec_pk]; exact hpk)

/-- the state in which the closure of an expert node of a per-key operator runs -/
def readyP (env : Env) (n e : Nat) (s : State) (er : ExpertRec) : State :=
  putExpert e (readyRec env s er) (started n s)

/-- master equation of the expert branch, record of a per-key operator, no invalid children -/
theorem xs_recomputeOne_pk_run (env : Env) (fuel n : Nat) {s : State} {nd : Node} {e : Nat}
    {er : ExpertRec} (hx : IsExpert s n nd e er) (hpk : er.pk.isNone = false)
    (hinv : ¬ er.numInvalidChildren > 0) :
    (recomputeOne env fuel n).run.run s =
      (do
        let v ← expertValue env e (depValsOf env s (readyRec env s er)) (slotValsOf (readyRec env s er))
        maybeChangeValue env fuel n v : M (Option Nat)).run.run (readyP env n e s er) := by
  have hk? : ({ nd with recomputedAt := s.stabNum } : Node).kind? = some (.expert e) := by
    simp [Node.kind?, hx.valid, hx.kind]
  have hn' := started_getElem? n s nd hx.node
  have he0 : (started n s).experts[e]? = some er := hx.xrec
  have he1 : (putExpert e (resetRec er) (started n s)).experts[e]? = some (resetRec er) :=
    putExpert_get _ he0
  have hval1 : ∀ c, (putExpert e (resetRec er) (started n s)).value env c = s.value env c := by
    intro c; rw [putExpert_value, started_value]
  have hvalS : ∀ (x : ExpertRec) (c : Nat), (putExpert e x (started n s)).value env c = s.value env c := by
    intro x c; rw [putExpert_value, started_value]
  have hput : ∀ (x : ExpertRec), (putExpert e x (started n s)).experts[e]? = some x := by
    intro x; exact putExpert_get x he0
  have hloop := fun edges => xs_fireLoop_run_pk env e edges (started n s) er (resetRec er) he0 hpk
  rw [fireRec_congr env s _ (started_value env n s)] at hloop
  -- the tail: reading the record, the closure
  have tail : ∀ (d : ExpertRec → State → List (Option Val)) (g : ExpertRec → List (Option Val))
      (S : State) (r : ExpertRec), S.experts[e]? = some r → r.pk.isNone = false →
      (do
        let er ← getExpert e
        let s ← get
        if er.pk.isNone = true then do
            tick
            let v ← expertValue env e (d er s) (g er)
            if er.pk.isNone = true then do
                logEv (Event.inv (toString "x" ++ toString er.f) n [] v.render)
                maybeChangeValue env fuel n v
              else maybeChangeValue env fuel n v
          else do
            let v ← expertValue env e (d er s) (g er)
            if er.pk.isNone = true then do
                logEv (Event.inv (toString "x" ++ toString er.f) n [] v.render)
                maybeChangeValue env fuel n v
              else maybeChangeValue env fuel n v : M (Option Nat)).run.run S =
        (do
          let v ← expertValue env e (d r S) (g r)
          maybeChangeValue env fuel n v : M (Option Nat)).run.run S := by
    intro d g S r hr hrpk
    rw [run_bind_ok (Xp.run_getExpert_some hr), run_bind_get]
    simp only [hrpk, Bool.false_eq_true, if_false]
  unfold recomputeOne
  simp only [run_bind_get]
  cases hd : s.cfg.debug
  all_goals
    simp only [started, hd, Bool.false_eq_true, if_false, if_true, run_bind_modify,
      run_bind_bumpCounter, run_bind_get, run_bind_modNode, resetRec] at hn' he0 he1 hval1 hvalS hput hloop tail ⊢
    rw [run_bind_ok (run_getNode_some hn'), hk?]
    dsimp only
    rwx run_bind_getExpert er with hx.xrec
    rw [if_neg hinv]
    rwx run_bind_getExpert er with hx.xrec
    rwx run_bind_modExpert er with hx.xrec
    cases hw : er.willFireAllCallbacks
    · simp only [Bool.false_eq_true, if_false]
      rw [tail _ _ _ (resetRec er)]
      rotate_left
      · exact he1
      · exact hpk
      simp only [hval1, readyRec, readyP, hw, Bool.false_eq_true, if_false, started, hd, resetRec, depValsOf]
      rfl
    · simp only [if_true]
      rw [run_bind_ok (Xp.run_getExpert_some he1), run_bind_ok (hloop _)]
      have hf := foldl_fireRec_fields env s er.children (resetRec er)
      rw [tail _ _ _ (er.children.foldl (fireRec env s) (resetRec er))]
      rotate_left
      · exact hput _
      · rw [hf.2.2.2.2.2.1]; exact hpk
      have hf3 := hf.2.2.1
      simp only [resetRec] at hf3
      simp only [hvalS, readyRec, readyP, hw, if_true, started, hd, resetRec, depValsOf, slotValsOf, hf3]
      rfl

end IncrVerif.Proofs.PerKeyH
