import IncrVerif.Proofs.LeakH7
/-!
# C12 over histories, part 8: the statements in history form; a decidable form of `HoldsNothing`
-/
namespace IncrVerif.Proofs.LeakH
open IncrVerif.Engine IncrVerif.Driver IncrVerif.Proofs IncrVerif.Proofs.Step IncrVerif.Proofs.Sched
open IncrVerif.Proofs.Quiet

/-- `HoldsNothing`, computably -/
def holdsNothingB (s : State) : Bool :=
  s.handles.isEmpty && s.slots.isEmpty && s.vars.toList.all (fun vc => vc.handles == 0) &&
    s.observers.toList.all (fun ob => ob.clones == 0)

theorem getElem?_mem_toList {α} {a : Array α} {i : Nat} {x : α} (h : a[i]? = some x) : x ∈ a.toList := by
  have := Array.mem_of_getElem? h
  simpa using this

theorem holdsNothing_of_B {s : State} (h : holdsNothingB s = true) : HoldsNothing s := by
  simp only [holdsNothingB, Bool.and_eq_true, List.isEmpty_iff, List.all_eq_true, beq_iff_eq] at h
  obtain ⟨⟨⟨h1, h2⟩, h3⟩, h4⟩ := h
  exact ⟨h1, h2, fun c vc hc => h3 vc (getElem?_mem_toList hc), fun o ob ho => h4 ob (getElem?_mem_toList ho)⟩

theorem holdsNothing_B {s : State} (H : HoldsNothing s) : holdsNothingB s = true := by
  simp only [holdsNothingB, Bool.and_eq_true, List.isEmpty_iff, List.all_eq_true, beq_iff_eq]
  refine ⟨⟨⟨H.handles, H.slots⟩, fun vc hm => ?_⟩, fun ob hm => ?_⟩
  · obtain ⟨c, hc⟩ := mem_toList_getElem? hm
    exact H.vars c vc hc
  · obtain ⟨o, ho⟩ := mem_toList_getElem? hm
    exact H.observers o ob ho

/-- the whole history, with the final `stabilise` as an action -/
theorem history_freed {env : Env} {N : Nat} {d : Bool} {acts drops : List Action} {s' : State}
    {tk' : Array Nat} (ha : ∀ a, a ∈ acts → StaticAction env a) (hd : ∀ a, a ∈ drops → DropAction a)
    (H : ∀ s tk, runActions env (acts ++ drops) (State.init N d) #[] = .ok (s, tk) → HoldsNothing s)
    (h : runActions env ((acts ++ drops) ++ [Action.stabilise]) (State.init N d) #[] = .ok (s', tk')) :
    s'.roots = [] := by
  rw [runActions_append] at h
  rcases h1 : runActions env (acts ++ drops) (State.init N d) #[] with e | ⟨s1, tk1⟩
  · rw [h1] at h; cases h
  · rw [h1] at h
    simp only [runActions] at h
    rcases hx : (stepAction env .stabilise tk1).run.run s1 with ⟨_ | r, s2⟩
    · rw [hx] at h; cases h
    · rw [hx] at h
      cases h
      exact freed_roots (history_dinv ha hd h1) (H s1 tk1 h1) (step_stabilise hx)

end IncrVerif.Proofs.LeakH
