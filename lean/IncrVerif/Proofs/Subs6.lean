import IncrVerif.Proofs.Subs3
import IncrVerif.Proofs.Subs5
/-!
# Subscriptions, part 6: the prefix of `stabilise` (`addNewObservers`, `unlinkDisallowedObservers`) with handlers

Copy of `Proofs/Quiet13.lean`, generalised: the observers may have handlers (`numOnUpdateHandlers` grows by the
number of handlers of a linked observer and shrinks when it is unlinked), and `SInv` carries the handler
bookkeeping `HInv` through the loops (`hinv_added`, `hinv_removed`, `hinv_hush`).  The unchanged lemmas of
`Quiet.P12` are reused.
-/
namespace IncrVerif.Proofs.SubsH
open IncrVerif.Engine IncrVerif.Driver IncrVerif.Proofs IncrVerif.Proofs.Step IncrVerif.Proofs.Sched IncrVerif.Proofs.Quiet

/-- the invariant during the prefix of `stabilise`: `pn` / `pd` are the observers still to be added / unlinked -/
structure SInv (env : Env) (s : State) (pn pd : List Nat) : Prop where
  struct : Struct env s
  obs : ObsInv s pn pd
  pinv : s.propagateInvalidity = []
  hinv : HInv s

namespace P12u
open Quiet.P12

/-! ## inversion helpers -/

/-! ## the observer records after the state of one observer was set -/

/-! ## the observer bookkeeping through one iteration -/

/-- skipping an observer that is not `created` (it was dropped before it was ever linked) -/
theorem obsInv_skip_step {t : State} {o : Nat} {rest pd : List Nat} {ob : ObsRec}
    (O : ObsInv t (o :: rest) pd) (hob : t.observers[o]? = some ob) (hst : ob.state ≠ .created) :
    ObsInv t rest pd where
  inRange := O.inRange
  mem := O.mem
  created o' ob' h hc := by
    rcases List.mem_cons.1 (O.created o' ob' h hc) with e | e
    · rw [e, hob] at h; cases h; exact absurd hc hst
    · exact e
  newIn o' h := O.newIn o' (List.mem_cons_of_mem _ h)
  dis := O.dis
  disIn := O.disIn
  disNodup := O.disNodup

/-- linking a `created` observer -/
theorem obsInv_add_step {t t' : State} {o : Nat} {rest pd : List Nat} {ob : ObsRec}
    (O : ObsInv t (o :: rest) pd) (hob : t.observers[o]? = some ob) (hst : ob.state = .created)
    (S : ObsSet o .inUse t t') (hsz : t'.nodes.size = t.nodes.size)
    (hself : (t'.nodeD ob.node).observers = (t.nodeD ob.node).observers ++ [o])
    (hoth : ∀ m, m ≠ ob.node → (t'.nodeD m).observers = (t.nodeD m).observers) :
    ObsInv t' rest pd where
  inRange o' ob' h := by
    obtain ⟨ob0, h0, hn, hh, -⟩ := S.back o' ob' h
    rw [hn, hsz]; exact O.inRange o' ob0 h0
  mem n o' := by
    by_cases eo : o' = o
    · rw [eo]
      have hnew := S.self ob hob
      by_cases en : n = ob.node
      · rw [en, hself]
        exact ⟨fun _ => ⟨_, hnew, rfl, Or.inl rfl⟩, fun _ => List.mem_append_right _ (List.mem_singleton.2 rfl)⟩
      · rw [hoth n en, O.mem n o]
        constructor
        · rintro ⟨ob0, h0, h1, h2⟩
          rw [hob] at h0; cases h0
          rw [hst] at h2; rcases h2 with h2 | h2 <;> cases h2
        · rintro ⟨ob1, h0, h1, _⟩
          rw [hnew] at h0; cases h0
          exact absurd h1.symm en
    · have hrec : t'.observers[o']? = t.observers[o']? := S.other o' eo
      by_cases en : n = ob.node
      · rw [en, hself, List.mem_append, List.mem_singleton, hrec, O.mem]
        exact ⟨fun h => h.resolve_right eo, Or.inl⟩
      · rw [hoth n en, hrec, O.mem]
  created o' ob' h hc := by
    obtain ⟨ob0, h0, -, -, h4⟩ := S.back o' ob' h
    rcases h4 with ⟨e, hs⟩ | ⟨e, hs⟩
    · rcases List.mem_cons.1 (O.created o' ob0 h0 (by rw [← hs]; exact hc)) with h | h
      · exact absurd h e
      · exact h
    · rw [hs] at hc; cases hc
  newIn o' h := by
    obtain ⟨ob0, h0⟩ := O.newIn o' (List.mem_cons_of_mem _ h)
    obtain ⟨ob1, h1, _⟩ := S.recs o' ob0 h0
    exact ⟨ob1, h1⟩
  dis o' ob' h := by
    obtain ⟨ob0, h0, -, -, h4⟩ := S.back o' ob' h
    rcases h4 with ⟨e, hs⟩ | ⟨e, hs⟩
    · rw [hs]; exact O.dis o' ob0 h0
    · rw [hs, e]
      have := O.dis o ob hob
      rw [hst] at this
      constructor
      · intro h; cases h
      · intro h; exact absurd (this.2 h) (by intro h; cases h)
  disIn o' h := by
    obtain ⟨ob0, h0⟩ := O.disIn o' h
    obtain ⟨ob1, h1, _⟩ := S.recs o' ob0 h0
    exact ⟨ob1, h1⟩
  disNodup := O.disNodup

/-- unlinking a `disallowed` observer -/
theorem obsInv_unlink_step {t t' : State} {o : Nat} {rest : List Nat} {ob : ObsRec}
    (O : ObsInv t [] (o :: rest)) (hob : t.observers[o]? = some ob)
    (S : ObsSet o .unlinked t t') (hsz : t'.nodes.size = t.nodes.size)
    (hself : (t'.nodeD ob.node).observers = (t.nodeD ob.node).observers.filter (· != o))
    (hoth : ∀ m, m ≠ ob.node → (t'.nodeD m).observers = (t.nodeD m).observers) :
    ObsInv t' [] rest where
  inRange o' ob' h := by
    obtain ⟨ob0, h0, hn, hh, -⟩ := S.back o' ob' h
    rw [hn, hsz]; exact O.inRange o' ob0 h0
  mem n o' := by
    by_cases eo : o' = o
    · rw [eo]
      have hnew := S.self ob hob
      constructor
      · intro hm
        exfalso
        by_cases en : n = ob.node
        · rw [en, hself, List.mem_filter] at hm
          simp at hm
        · rw [hoth n en, O.mem n o] at hm
          obtain ⟨ob0, h0, h1, _⟩ := hm
          rw [hob] at h0; cases h0
          exact en h1.symm
      · rintro ⟨ob1, h0, _, h2⟩
        rw [hnew] at h0; cases h0
        rcases h2 with h2 | h2 <;> cases h2
    · have hrec : t'.observers[o']? = t.observers[o']? := S.other o' eo
      by_cases en : n = ob.node
      · rw [en, hself, List.mem_filter, hrec, ← O.mem]
        constructor
        · exact fun h => h.1
        · exact fun h => ⟨h, by simpa using eo⟩
      · rw [hoth n en, hrec, O.mem]
  created o' ob' h hc := by
    obtain ⟨ob0, h0, -, -, h4⟩ := S.back o' ob' h
    rcases h4 with ⟨e, hs⟩ | ⟨e, hs⟩
    · exact O.created o' ob0 h0 (by rw [← hs]; exact hc)
    · rw [hs] at hc; cases hc
  newIn o' h := by cases h
  dis o' ob' h := by
    obtain ⟨ob0, h0, -, -, h4⟩ := S.back o' ob' h
    rcases h4 with ⟨e, hs⟩ | ⟨e, hs⟩
    · rw [hs, O.dis o' ob0 h0, List.mem_cons]
      exact ⟨fun h => h.resolve_left e, Or.inr⟩
    · rw [hs, e]
      constructor
      · intro h; cases h
      · intro h; exact absurd h (List.nodup_cons.1 O.disNodup).1
  disIn o' h := by
    obtain ⟨ob0, h0⟩ := O.disIn o' (List.mem_cons_of_mem _ h)
    obtain ⟨ob1, h1, _⟩ := S.recs o' ob0 h0
    exact ⟨ob1, h1⟩
  disNodup := (List.nodup_cons.1 O.disNodup).2

/-! ## the explicit state updates of the two loop bodies (before the cascades) -/

theorem obsAdded_frame (o n : Nat) (k : Int) (t : State) : PFrame t (obsAdded o n k t) := by
  refine ⟨by simp [obsAdded], fun m => ?_, rfl, id⟩
  rw [obsAdded_nodeD]; split
  · simp [nodeKeyP]
  · rfl

theorem obsRemoved_frame (o n : Nat) (k : Int) (t : State) : PFrame t (obsRemoved o n k t) := by
  refine ⟨by simp [obsRemoved], fun m => ?_, rfl, id⟩
  rw [obsRemoved_nodeD]; split
  · simp [nodeKeyP]
  · rfl

/-! ## the structural invariant through one iteration -/

/-! ## frame accessors -/

/-! ## what one iteration (and hence the whole loop) does outside the invariant -/

structure IterRel (x y : ObsState) (t t' : State) : Prop where
  frame : PFrame t t'
  newObs : t'.newObservers = t.newObservers
  disObs : t'.disallowedObservers = t.disallowedObservers
  size : t'.observers.size = t.observers.size
  recs : ∀ (o : Nat) (ob : ObsRec), t.observers[o]? = some ob →
    ∃ ob', t'.observers[o]? = some ob' ∧ ob'.node = ob.node ∧ StChg x y ob.state ob'.state ∧
      ob'.handlers = ob.handlers
  log : ∃ new, t'.log = new ++ t.log ∧ ∀ e, e ∈ new → NotNotif e
  nextToken : t'.nextToken = t.nextToken

theorem IterRel.refl (x y : ObsState) (t : State) : IterRel x y t t :=
  ⟨PFrame.refl t, rfl, rfl, rfl, fun _ ob h => ⟨ob, h, rfl, Or.inl rfl, rfl⟩, ⟨[], rfl, fun _ h => by cases h⟩, rfl⟩

theorem IterRel.trans {x y : ObsState} {a b c : State} (h1 : IterRel x y a b) (h2 : IterRel x y b c) :
    IterRel x y a c := by
  refine ⟨h1.frame.trans h2.frame, h2.newObs.trans h1.newObs, h2.disObs.trans h1.disObs,
    h2.size.trans h1.size, fun o ob h => ?_, ?_, h2.nextToken.trans h1.nextToken⟩
  case refine_2 =>
    obtain ⟨n1, e1, q1⟩ := h1.log
    obtain ⟨n2, e2, q2⟩ := h2.log
    refine ⟨n2 ++ n1, by rw [e2, e1, List.append_assoc], fun e he => ?_⟩
    rcases List.mem_append.1 he with h | h
    · exact q2 e h
    · exact q1 e h
  obtain ⟨ob1, e1, n1, c1, k1⟩ := h1.recs o ob h
  obtain ⟨ob2, e2, n2, c2, k2⟩ := h2.recs o ob1 e1
  refine ⟨ob2, e2, n2.trans n1, ?_, k2.trans k1⟩
  rcases c1 with c1 | ⟨c1, c1'⟩
  · rw [c1] at c2; exact c2
  · rcases c2 with c2 | ⟨_, c2'⟩
    · exact Or.inr ⟨c1, c2.trans c1'⟩
    · exact Or.inr ⟨c1, c2'⟩


/-! ## the handler bookkeeping through one iteration -/

theorem filter_ne_of_not_mem {l : List Nat} {o : Nat} (h : o ∉ l) : l.filter (· != o) = l := by
  rw [List.filter_eq_self]
  intro a ha
  simp only [bne_iff_ne, ne_eq]
  intro e; rw [e] at ha; exact h ha

theorem sum_map_filter_ne {l : List Nat} {f : Nat → Int} {o : Nat} (hnd : l.Nodup) (hm : o ∈ l) :
    ((l.filter (· != o)).map f).sum = (l.map f).sum - f o := by
  induction l with
  | nil => cases hm
  | cons a l ih =>
    rw [List.nodup_cons] at hnd
    by_cases e : a = o
    · rw [e] at hnd ⊢
      rw [List.filter_cons]
      simp only [bne_self_eq_false, Bool.false_eq_true, if_false]
      rw [filter_ne_of_not_mem hnd.1, List.map_cons, List.sum_cons]
      omega
    · have hm' : o ∈ l := by
        rcases List.mem_cons.1 hm with h | h
        · exact absurd h.symm e
        · exact h
      rw [List.filter_cons]
      have : (a != o) = true := by simp [e]
      rw [this]
      simp only [if_true, List.map_cons, List.sum_cons]
      rw [ih hnd.2 hm']
      omega

theorem hOf_modify_state {t t' : State} {o : Nat} {x : ObsState}
    (h : t'.observers = t.observers.modify o fun y => { y with state := x }) (o' : Nat) :
    hOf t' o' = hOf t o' := by
  unfold hOf
  rw [h, Array.getElem?_modify]
  by_cases e : o = o'
  · rw [if_pos e]
    cases t.observers[o']? <;> rfl
  · rw [if_neg e]

theorem numOf_of {t t' : State} (hh : ∀ o', hOf t' o' = hOf t o') (n : Nat) :
    numOf t' n = ((t'.nodeD n).observers.map fun o => ((hOf t o).length : Int)).sum := by
  unfold numOf
  congr 1
  exact List.map_congr_left fun o _ => by rw [hh]

/-- a step that keeps the observer records, the observer lists and the round number, and is `Hush` -/
theorem hinv_hush {s s' : State} (H : HInv s) (h : Hush s s') (ho : s'.observers = s.observers)
    (hno : ∀ m, (s'.nodeD m).observers = (s.nodeD m).observers) (hs : s'.stabNum = s.stabNum) : HInv s' where
  count n := by rw [h.num, numOf_congr ho hno]; exact H.count n
  obsNodup n := by rw [hno]; exact H.obsNodup n
  tok := Life.TokStep.of_obs ho h.nextToken H.tok
  tokNodup o ob hob := by rw [ho] at hob; exact H.tokNodup o ob hob
  has := h.ok H.has
  createdAt o ob x hob hx := by rw [ho] at hob; rw [hs]; exact H.createdAt o ob x hob hx
  prev o ob x hob hx := by rw [ho] at hob; exact H.prev o ob x hob hx
  pending o ob x hob hst hx hp := by rw [ho] at hob; exact h.mono _ (H.pending o ob x hob hst hx hp)

/-- the bookkeeping of `add_new_observers` for a created observer keeps `HInv` -/
theorem hinv_added {t : State} {o : Nat} {rest pd : List Nat} {ob : ObsRec} (H : HInv t)
    (O : ObsInv t (o :: rest) pd) (hob : t.observers[o]? = some ob) (hst : ob.state = .created) :
    HInv (obsAdded o ob.node ((ob.handlers.length : Nat) : Int) t) := by
  have hn : ob.node < t.nodes.size := O.inRange o ob hob
  have hobs : (obsAdded o ob.node ((ob.handlers.length : Nat) : Int) t).observers =
      t.observers.modify o fun y => { y with state := .inUse } := rfl
  have hh := fun o' => hOf_modify_state (t := t) hobs o'
  have hnot : ∀ m, o ∉ (t.nodeD m).observers := by
    intro m hm
    obtain ⟨ob', h1, -, h3⟩ := (O.mem m o).1 hm
    rw [hob] at h1; cases h1
    rw [hst] at h3; rcases h3 with h3 | h3 <;> cases h3
  have S : ObsSet o .inUse t (obsAdded o ob.node ((ob.handlers.length : Nat) : Int) t) := ObsSet.of_modify hobs
  refine ⟨fun n => ?_, fun n => ?_, ?_, ?_, ⟨H.has.nodup, fun n => ?_⟩, ?_, ?_, ?_⟩
  · rw [numOf_of hh, obsAdded_nodeD]
    split
    · rename_i e
      show (t.nodeD n).numOnUpdateHandlers + _ = _
      simp only [List.map_append, List.sum_append, List.map_cons, List.map_nil, List.sum_cons, List.sum_nil]
      rw [H.count n, hOf_of_some hob]
      unfold numOf
      omega
    · exact H.count n
  · rw [obsAdded_nodeD]
    split
    · show ((t.nodeD n).observers ++ [o]).Nodup
      rw [List.nodup_append]
      refine ⟨H.obsNodup n, List.nodup_cons.2 ⟨List.not_mem_nil, List.nodup_nil⟩, ?_⟩
      intro a ha b hb
      rw [List.mem_singleton] at hb
      rw [hb]; intro e; rw [e] at ha; exact hnot n ha
    · exact H.obsNodup n
  · exact Life.TokStep.modify_at o _ hobs rfl (fun x t h => h) H.tok
  · intro o' ob' ho'
    obtain ⟨ob0, h0, -, hhd, -⟩ := S.back o' ob' ho'
    rw [hhd]; exact H.tokNodup o' ob0 h0
  · show n ∈ t.handleAfterStab ↔ _
    rw [obsAdded_nodeD]
    split
    · exact H.has.flag n
    · exact H.has.flag n
  · intro o' ob' x ho' hx
    obtain ⟨ob0, h0, -, hhd, -⟩ := S.back o' ob' ho'
    rw [hhd] at hx; exact H.createdAt o' ob0 x h0 hx
  · intro o' ob' x ho' hx
    obtain ⟨ob0, h0, -, hhd, -⟩ := S.back o' ob' ho'
    rw [hhd] at hx; exact H.prev o' ob0 x h0 hx
  · intro o' ob' x ho' hs' hx hp
    obtain ⟨ob0, h0, hnd, hhd, hcase⟩ := S.back o' ob' ho'
    rw [hhd] at hx
    rw [hnd]
    show ob0.node ∈ t.handleAfterStab
    rcases hcase with ⟨-, e⟩ | ⟨e, -⟩
    · rw [e] at hs'; exact H.pending o' ob0 x h0 hs' hx hp
    · rw [e, hob] at h0; cases h0
      exact H.pending o ob x hob (Or.inl hst) hx hp

/-- the bookkeeping of `unlink_disallowed_observers` for a disallowed observer keeps `HInv` -/
theorem hinv_removed {t : State} {o : Nat} {rest : List Nat} {ob : ObsRec} (H : HInv t)
    (O : ObsInv t [] (o :: rest)) (hob : t.observers[o]? = some ob) :
    HInv (obsRemoved o ob.node ((ob.handlers.length : Nat) : Int) t) := by
  have hn : ob.node < t.nodes.size := O.inRange o ob hob
  have hst : ob.state = .disallowed := (O.dis o ob hob).2 (List.mem_cons_self ..)
  have hobs : (obsRemoved o ob.node ((ob.handlers.length : Nat) : Int) t).observers =
      t.observers.modify o fun y => { y with state := .unlinked } := rfl
  have hh := fun o' => hOf_modify_state (t := t) hobs o'
  have hmem : o ∈ (t.nodeD ob.node).observers := (O.mem ob.node o).2 ⟨ob, hob, rfl, Or.inr hst⟩
  have S : ObsSet o .unlinked t (obsRemoved o ob.node ((ob.handlers.length : Nat) : Int) t) :=
    ObsSet.of_modify hobs
  refine ⟨fun n => ?_, fun n => ?_, ?_, ?_, ⟨H.has.nodup, fun n => ?_⟩, ?_, ?_, ?_⟩
  · rw [numOf_of hh, obsRemoved_nodeD]
    split
    · rename_i e
      show (t.nodeD n).numOnUpdateHandlers - _ = (((t.nodeD n).observers.filter (· != o)).map _).sum
      rw [e.1] at hmem
      rw [sum_map_filter_ne (H.obsNodup n) hmem, H.count n, hOf_of_some hob]
      rfl
    · exact H.count n
  · rw [obsRemoved_nodeD]
    split
    · exact (H.obsNodup n).filter _
    · exact H.obsNodup n
  · exact Life.TokStep.modify_at o _ hobs rfl (fun x t h => h) H.tok
  · intro o' ob' ho'
    obtain ⟨ob0, h0, -, hhd, -⟩ := S.back o' ob' ho'
    rw [hhd]; exact H.tokNodup o' ob0 h0
  · show n ∈ t.handleAfterStab ↔ _
    rw [obsRemoved_nodeD]
    split
    · exact H.has.flag n
    · exact H.has.flag n
  · intro o' ob' x ho' hx
    obtain ⟨ob0, h0, -, hhd, -⟩ := S.back o' ob' ho'
    rw [hhd] at hx; exact H.createdAt o' ob0 x h0 hx
  · intro o' ob' x ho' hx
    obtain ⟨ob0, h0, -, hhd, -⟩ := S.back o' ob' ho'
    rw [hhd] at hx; exact H.prev o' ob0 x h0 hx
  · intro o' ob' x ho' hs' hx hp
    obtain ⟨ob0, h0, hnd, hhd, hcase⟩ := S.back o' ob' ho'
    rw [hhd] at hx
    rw [hnd]
    show ob0.node ∈ t.handleAfterStab
    rcases hcase with ⟨-, e⟩ | ⟨-, e⟩
    · rw [e] at hs'; exact H.pending o' ob0 x h0 hs' hx hp
    · rw [e] at hs'; rcases hs' with h | h <;> cases h

/-- the end of the body of `add_new_observers`: the link cascade if the node was not necessary
(`Quiet.P12.struct_add`, with the handler bookkeeping) -/
theorem struct_add_h {env : Env} {fuel n : Nat} {l : List Nat} {was : Bool} {t t4 t' : State}
    {r : ForInStep PUnit}
    (I : Struct env t) (U : NodeUpd n (fObservers l) t t4) (hl : l ≠ []) (hwas : was = t.isNecessary n)
    (hp : t4.propagateInvalidity = [])
    (h : (if (!was) = true then do
            becameNecessaryPropagate env fuel n
            pure (ForInStep.yield PUnit.unit)
          else pure (ForInStep.yield PUnit.unit)).run.run t4 = (.ok r, t')) :
    r = .yield PUnit.unit ∧ Struct env t' ∧ CFrame t4 t' ∧ t'.propagateInvalidity = [] ∧
      (∀ m, t4.isNecessary m = true → t'.isNecessary m = true) ∧ Hush t4 t' := by
  cases hw : was with
  | true =>
    rw [hw] at h hwas
    simp only [Bool.not_true, Bool.false_eq_true, if_false] at h
    obtain ⟨hr, e⟩ := pure_ok_inv h
    rw [e]
    exact ⟨hr, I.addObs_nec U hl hwas.symm rfl, CFrame.refl _, hp, fun _ h => h, Hush.refl _⟩
  | false =>
    rw [hw] at h hwas
    simp only [Bool.not_false, if_true] at h
    obtain ⟨_, t5, h5, h⟩ := bind_ok_inv h
    obtain ⟨hr, e⟩ := pure_ok_inv h
    rw [e]
    unfold becameNecessaryPropagate at h5
    obtain ⟨_, t6, h6, h5⟩ := bind_ok_inv h5
    obtain ⟨I1, hpar⟩ := GInv.addObs_open I U hl hwas.symm rfl
    obtain ⟨I2, -, hL⟩ := Quiet.becameNecessary_spec h6 I1 (upd_self _ _ _)
      (by
        intro m hm
        by_cases e : m = n
        · omega
        · rw [upd_other _ _ _ e] at hm; exact absurd rfl hm)
      (by intro p i hpi; rw [hpar] at hpi; cases hpi)
    rw [upd_upd, upd_eq_self allClosed n .closed rfl] at I2
    have hp6 : t6.propagateInvalidity = [] := by rw [hL.pinv]; exact hp
    have e5 := propagateInvalidity_nil hp6 h5
    rw [e5]
    exact ⟨hr, I2, hL.fr, hp6, fun m hm => hL.nec hm, (PresHu.becameNecessary env fuel n).h _ _ _ h6⟩

/-! ## one iteration of `add_new_observers` -/

theorem add_created {env : Env} {fuel o : Nat} {rest pd : List Nat} {t t4 t' : State} {ob : ObsRec}
    {was : Bool} {r : ForInStep PUnit}
    (I : SInv env t (o :: rest) pd) (hob : t.observers[o]? = some ob) (hst : ob.state = .created)
    (hwas : was = t.isNecessary ob.node)
    (h4 : (handleAfterStabilisation ob.node).run.run
      (obsAdded o ob.node ((ob.handlers.length : Nat) : Int) t) = (.ok (), t4))
    (h : (if (!was) = true then do
            becameNecessaryPropagate env fuel ob.node
            pure (ForInStep.yield PUnit.unit)
          else pure (ForInStep.yield PUnit.unit)).run.run t4 = (.ok r, t')) :
    r = .yield PUnit.unit ∧ SInv env t' rest pd ∧ IterRel .created .inUse t t' ∧
      (∀ m, t.isNecessary m = true → t'.isNecessary m = true) ∧ ob.node ∈ t'.handleAfterStab := by
  have hn : ob.node < t.nodes.size := I.obs.inRange o ob hob
  have U3 : NodeUpd ob.node (fObservers ((t.nodeD ob.node).observers ++ [o])) t
      (obsAdded o ob.node ((ob.handlers.length : Nat) : Int) t) := obsAdded_upd hn
  have R : Irrel ob.node (obsAdded o ob.node ((ob.handlers.length : Nat) : Int) t) t4 := by
    rcases has_cases h4 with e | e
    · rw [e]; exact Irrel.refl _ _
    · rw [e]; exact Irrel.marked _ _
  have U4 := U3.then_same R.same
  have L := R.rel (fun _ => False)
  have hp4 : t4.propagateInvalidity = [] := (L.pinv.trans rfl).trans I.pinv
  have hl : (t.nodeD ob.node).observers ++ [o] ≠ [] := by simp
  obtain ⟨hr, I', F, hp', hnec, hu⟩ := struct_add_h I.struct U4 hl hwas hp4 h
  have F3 : CFrame (obsAdded o ob.node ((ob.handlers.length : Nat) : Int) t) t' := L.fr.trans F
  have P : PFrame t t' := (obsAdded_frame o ob.node _ t).trans (CFrame.toP F3)
  have S : ObsSet o .inUse t t' :=
    (ObsSet.of_modify (t' := obsAdded o ob.node ((ob.handlers.length : Nat) : Int) t) rfl).then_eq (cf_obsArr F3)
  have O' : ObsInv t' rest pd := obsInv_add_step I.obs hob hst S (F3.size.trans U3.size)
    ((F3.observers ob.node).trans U3.self.observers)
    (fun m hm => (F3.observers m).trans (U3.other m hm).observers)
  -- the handler bookkeeping
  have H3 := hinv_added I.hinv I.obs hob hst
  have hu3 : Hush (obsAdded o ob.node ((ob.handlers.length : Nat) : Int) t) t' :=
    Hush.trans ((PresHu.handleAfterStabilisation ob.node).h _ _ _ h4) hu
  have hstab : t'.stabNum = (obsAdded o ob.node ((ob.handlers.length : Nat) : Int) t).stabNum := by
    have := F3.key; simp only [stateKey, Prod.mk.injEq] at this; exact this.2.2.1
  have H' : HInv t' := hinv_hush H3 hu3 (cf_obsArr F3) F3.observers hstab
  have hq : ob.node ∈ t'.handleAfterStab := hu.mono _ (handleAfterStabilisation_mem H3.has h4)
  refine ⟨hr, ⟨I', O', hp', H'⟩,
    ⟨P, (cf_newObs F3).trans rfl, (cf_disObs F3).trans rfl, S.size, fun o' ob' ho' => ?_, hu3.log, hu3.nextToken⟩,
    fun m hm => hnec m ?_, hq⟩
  · obtain ⟨ob1, h1, h2, hk, h3⟩ := S.recs o' ob' ho'
    refine ⟨ob1, h1, h2, ?_, hk⟩
    rcases h3 with ⟨_, h3⟩ | ⟨e, h3⟩
    · exact Or.inl h3
    · rw [e, hob] at ho'; cases ho'
      exact Or.inr ⟨hst, h3⟩
  · by_cases e : m = ob.node
    · rw [e]; exact (U4.nec_self_iff (keeps_fObservers _)).2 (Or.inr (Or.inl hl))
    · rw [U4.nec_other e]; exact hm

/-! ## one iteration of `unlink_disallowed_observers` -/

theorem unlink_iter {env : Env} {fuel o : Nat} {rest : List Nat} {t t' : State} {ob : ObsRec}
    (I : SInv env t [] (o :: rest)) (hob : t.observers[o]? = some ob)
    (h : (checkIfUnnecessary fuel ob.node).run.run
      (obsRemoved o ob.node ((ob.handlers.length : Nat) : Int) t) = (.ok (), t')) :
    SInv env t' [] rest ∧ IterRel .disallowed .unlinked t t' := by
  have hn : ob.node < t.nodes.size := I.obs.inRange o ob hob
  have hst : ob.state = .disallowed := (I.obs.dis o ob hob).2 (List.mem_cons_self ..)
  have hmem : o ∈ (t.nodeD ob.node).observers := (I.obs.mem ob.node o).2 ⟨ob, hob, rfl, Or.inr hst⟩
  have hnec : t.isNecessary ob.node = true :=
    (isNecessary_iff t ob.node).2 (Or.inr (Or.inl (List.ne_nil_of_mem hmem)))
  have U3 : NodeUpd ob.node (fObservers ((t.nodeD ob.node).observers.filter (· != o))) t
      (obsRemoved o ob.node ((ob.handlers.length : Nat) : Int) t) := obsRemoved_upd hn
  obtain ⟨I', hU⟩ := struct_unlink I.struct U3 hnec h
  have F3 := hU.fr
  have P : PFrame t t' := (obsRemoved_frame o ob.node _ t).trans (CFrame.toP F3)
  have S : ObsSet o .unlinked t t' :=
    (ObsSet.of_modify (t' := obsRemoved o ob.node ((ob.handlers.length : Nat) : Int) t) rfl).then_eq (cf_obsArr F3)
  have O' : ObsInv t' [] rest := obsInv_unlink_step I.obs hob S (F3.size.trans U3.size)
    ((F3.observers ob.node).trans U3.self.observers)
    (fun m hm => (F3.observers m).trans (U3.other m hm).observers)
  have H3 := hinv_removed I.hinv I.obs hob
  have hu3 : Hush (obsRemoved o ob.node ((ob.handlers.length : Nat) : Int) t) t' :=
    (PresHu.checkIfUnnecessary fuel ob.node).h _ _ _ h
  have hstab : t'.stabNum = (obsRemoved o ob.node ((ob.handlers.length : Nat) : Int) t).stabNum := by
    have := F3.key; simp only [stateKey, Prod.mk.injEq] at this; exact this.2.2.1
  have H' : HInv t' := hinv_hush H3 hu3 (cf_obsArr F3) F3.observers hstab
  refine ⟨⟨I', O', (hU.pinv.trans rfl).trans I.pinv, H'⟩,
    ⟨P, (cf_newObs F3).trans rfl, (cf_disObs F3).trans rfl, S.size, fun o' ob' ho' => ?_, hu3.log, hu3.nextToken⟩⟩
  obtain ⟨ob1, h1, h2, hk, h3⟩ := S.recs o' ob' ho'
  refine ⟨ob1, h1, h2, ?_, hk⟩
  rcases h3 with ⟨_, h3⟩ | ⟨e, h3⟩
  · exact Or.inl h3
  · rw [e, hob] at ho'; cases ho'
    exact Or.inr ⟨hst, h3⟩

/-- fields of the state that the observer bookkeeping does not read -/
theorem obsInv_congr {s s' : State} {pn pd : List Nat} (O : ObsInv s pn pd)
    (h1 : s'.observers = s.observers) (h2 : s'.nodes = s.nodes) : ObsInv s' pn pd := by
  have hnd : ∀ m, s'.nodeD m = s.nodeD m := fun m => by simp [State.nodeD, h2]
  refine ⟨?_, ?_, ?_, ?_, ?_, ?_, O.disNodup⟩
  · intro o ob h; rw [h1] at h; rw [h2]; exact O.inRange o ob h
  · intro n o; rw [hnd, h1]; exact O.mem n o
  · intro o ob h; rw [h1] at h; exact O.created o ob h
  · intro o h; rw [h1]; exact O.newIn o h
  · intro o ob h; rw [h1] at h; exact O.dis o ob h
  · intro o h; rw [h1]; exact O.disIn o h

theorem sInv_congr {env : Env} {s s' : State} {pn pd : List Nat} (I : SInv env s pn pd)
    (h1 : s'.observers = s.observers) (h2 : s'.nodes = s.nodes) (h3 : s'.panicCountdown = s.panicCountdown)
    (h4 : s'.currentScope = s.currentScope) (h5 : s'.rch = s.rch) (h6 : s'.vars = s.vars)
    (h7 : s'.propagateInvalidity = s.propagateInvalidity) (h8 : s'.nextToken = s.nextToken)
    (h9 : s'.stabNum = s.stabNum) (h10 : s'.handleAfterStab = s.handleAfterStab) : SInv env s' pn pd :=
  ⟨GInv.congr I.struct (SameG.of_nodes h2 h3 h4 h5 h6), obsInv_congr I.obs h1 h2, h7.trans I.pinv,
    I.hinv.of_nodes h1 h8 h9 h10 h2⟩

end P12u

open P12u
open IncrVerif.Proofs.Quiet.P12 hiding IterRel add_created unlink_iter obsInv_skip_step sInv_congr obsInv_congr IterRel.refl IterRel.trans obsAdded_frame obsRemoved_frame obsInv_add_step obsInv_unlink_step pf_num

theorem hOf_of_recs {s s' : State} (hsz : s'.observers.size = s.observers.size)
    (h : ∀ (o : Nat) (ob : ObsRec), s.observers[o]? = some ob →
      ∃ ob', s'.observers[o]? = some ob' ∧ ob'.handlers = ob.handlers) (o : Nat) : hOf s' o = hOf s o := by
  unfold hOf
  cases ho : s.observers[o]? with
  | some ob =>
    obtain ⟨ob', h1, h2⟩ := h o ob ho
    rw [h1]; exact h2
  | none =>
    have : s'.observers[o]? = none := by
      rw [Array.getElem?_eq_none_iff] at ho ⊢
      omega
    rw [this]

theorem addNewObservers_s {env : Env} {fuel : Nat} {s s' : State}
    (I : SInv env s s.newObservers s.disallowedObservers)
    (h : (addNewObservers env fuel).run.run s = (.ok (), s')) :
    SInv env s' [] s'.disallowedObservers ∧ s'.newObservers = [] ∧
      s'.disallowedObservers = s.disallowedObservers ∧ PFrame s s' ∧ ObsMap addedState s s' ∧
      (∀ m, s.isNecessary m = true → s'.isNecessary m = true) ∧ (∀ o, hOf s' o = hOf s o) ∧
      (∃ new, s'.log = new ++ s.log ∧ ∀ e, e ∈ new → NotNotif e) ∧ s'.nextToken = s.nextToken := by
  unfold addNewObservers at h
  rw [run_bind_get] at h
  obtain ⟨s0, hs0, h⟩ := bind_modify_inv h
  obtain ⟨u, s1, hloop, h⟩ := bind_ok_inv h
  obtain ⟨-, e⟩ := pure_ok_inv h
  rw [e]
  have I0 : SInv env s0 s.newObservers s.disallowedObservers := by
    rw [hs0]; exact sInv_congr I rfl rfl rfl rfl rfl rfl rfl rfl rfl rfl
  have P0 : PFrame s s0 := by rw [hs0]; exact ⟨rfl, fun _ => rfl, rfl, id⟩
  have hno0 : s0.newObservers = [] := by rw [hs0]
  have hdo0 : s0.disallowedObservers = s.disallowedObservers := by rw [hs0]
  have hob0 : s0.observers = s.observers := by rw [hs0]
  have hlog0 : s0.log = s.log := by rw [hs0]
  have hnec0 : ∀ m, s0.isNecessary m = s.isNecessary m := fun m => by rw [hs0]; rfl
  have hfin := forIn_ok_inv _ s.newObservers
    (fun j (_ : PUnit) t => SInv env t (s.newObservers.drop j) s.disallowedObservers ∧
      IterRel .created .inUse s0 t ∧ (∀ m, s0.isNecessary m = true → t.isNecessary m = true))
    (by
      intro j o b t r t' hj ⟨It, Rt, Nt⟩ hbody
      rw [drop_of_getElem? hj] at It
      obtain ⟨ob, hob, hbody⟩ := bind_getObs_inv hbody
      cases hst : ob.state <;> rw [hst] at hbody <;> try dsimp only at hbody
      case inUse =>
        obtain ⟨_, _, h1, _⟩ := bind_ok_inv hbody
        rw [run_panic] at h1; cases h1
      case disallowed =>
        obtain ⟨_, _, h1, _⟩ := bind_ok_inv hbody
        rw [run_panic] at h1; cases h1
      case unlinked =>
        obtain ⟨hr, e⟩ := pure_ok_inv hbody
        rw [e]
        exact ⟨_, hr, ⟨It.struct, obsInv_skip_step It.obs hob (by rw [hst]; exact fun e => by cases e), It.pinv,
          It.hinv⟩, Rt, Nt⟩
      case created =>
        obtain ⟨t1, ht1, hbody⟩ := bind_modObs_inv hbody
        rw [run_bind_get] at hbody
        try dsimp only at hbody
        obtain ⟨t2, ht2, hbody⟩ := bind_modify_inv hbody
        obtain ⟨t3, ht3, hbody⟩ := bind_modNode_inv hbody
        obtain ⟨_, t4, h4, hbody⟩ := bind_ok_inv hbody
        rw [run_bind_get] at hbody
        replace hbody := bind_dassert_inv hbody
        have e3 : t3 = obsAdded o ob.node ((ob.handlers.length : Nat) : Int) t := by rw [ht3, ht2, ht1]; rfl
        rw [e3] at h4
        obtain ⟨hr, I', R', N', -⟩ := add_created (was := t1.isNecessary ob.node) It hob hst
          (by rw [ht1]; rfl) h4 hbody
        exact ⟨_, hr, I', Rt.trans R', fun m hm => N' m (Nt m hm)⟩)
    s.newObservers 0 PUnit.unit s0 u s1 (by simp) (Nat.zero_le _)
    ⟨by rw [List.drop_zero]; exact I0, IterRel.refl _ _ _, fun _ h => h⟩ hloop
  obtain ⟨I1, R1, N1⟩ := hfin
  rw [List.drop_length] at I1
  have hdo1 : s1.disallowedObservers = s.disallowedObservers := R1.disObs.trans hdo0
  refine ⟨by rw [hdo1]; exact I1, R1.newObs.trans hno0, hdo1, P0.trans R1.frame,
    ⟨R1.size.trans (by rw [hob0]), fun o ob ho => ?_⟩, fun m hm => N1 m (by rw [hnec0]; exact hm),
    hOf_of_recs (R1.size.trans (by rw [hob0])) fun o ob ho => by
      obtain ⟨ob', h1, -, -, h4⟩ := R1.recs o ob (by rw [hob0]; exact ho)
      exact ⟨ob', h1, h4⟩, by rw [← hlog0]; exact R1.log, by rw [R1.nextToken, hs0]⟩
  obtain ⟨ob', h1, h2, h3, -⟩ := R1.recs o ob (by rw [hob0]; exact ho)
  refine ⟨ob', h1, h2, ?_⟩
  rcases h3 with h3 | ⟨h3, h4⟩
  · rw [h3]
    cases hst : ob.state
    case created =>
      have := I1.obs.created o ob' h1 (by rw [h3, hst])
      cases this
    all_goals rfl
  · rw [h3, h4]; rfl

theorem unlinkDisallowedObservers_s {env : Env} {fuel : Nat} {s s' : State}
    (I : SInv env s [] s.disallowedObservers) (hn : s.newObservers = [])
    (h : (unlinkDisallowedObservers fuel).run.run s = (.ok (), s')) :
    SInv env s' [] [] ∧ s'.newObservers = [] ∧ s'.disallowedObservers = [] ∧ PFrame s s' ∧
      ObsMap unlinkedState s s' ∧ (∀ o, hOf s' o = hOf s o) ∧
      (∃ new, s'.log = new ++ s.log ∧ ∀ e, e ∈ new → NotNotif e) ∧ s'.nextToken = s.nextToken := by
  unfold unlinkDisallowedObservers at h
  rw [run_bind_get] at h
  obtain ⟨s0, hs0, h⟩ := bind_modify_inv h
  obtain ⟨u, s1, hloop, h⟩ := bind_ok_inv h
  obtain ⟨-, e⟩ := pure_ok_inv h
  rw [e]
  have I0 : SInv env s0 [] s.disallowedObservers := by
    rw [hs0]; exact sInv_congr I rfl rfl rfl rfl rfl rfl rfl rfl rfl rfl
  have P0 : PFrame s s0 := by rw [hs0]; exact ⟨rfl, fun _ => rfl, rfl, id⟩
  have hno0 : s0.newObservers = [] := by rw [hs0]; exact hn
  have hdo0 : s0.disallowedObservers = [] := by rw [hs0]
  have hob0 : s0.observers = s.observers := by rw [hs0]
  have hlog0 : s0.log = s.log := by rw [hs0]
  have hfin := forIn_ok_inv _ s.disallowedObservers
    (fun j (_ : PUnit) t => SInv env t [] (s.disallowedObservers.drop j) ∧
      IterRel .disallowed .unlinked s0 t)
    (by
      intro j o b t r t' hj ⟨It, Rt⟩ hbody
      rw [drop_of_getElem? hj] at It
      obtain ⟨ob, hob, hbody⟩ := bind_getObs_inv hbody
      replace hbody := bind_dassert_inv hbody
      obtain ⟨t1, ht1, hbody⟩ := bind_modObs_inv hbody
      obtain ⟨t2, ht2, hbody⟩ := bind_modNode_inv hbody
      obtain ⟨t3, ht3, hbody⟩ := bind_modify_inv hbody
      obtain ⟨_, t4, h4, hbody⟩ := bind_ok_inv hbody
      obtain ⟨hr, e⟩ := pure_ok_inv hbody
      rw [e]
      have e3 : t3 = obsRemoved o ob.node ((ob.handlers.length : Nat) : Int) t := by rw [ht3, ht2, ht1]; rfl
      rw [e3] at h4
      obtain ⟨I', R'⟩ := unlink_iter It hob h4
      exact ⟨_, hr, I', Rt.trans R'⟩)
    s.disallowedObservers 0 PUnit.unit s0 u s1 (by simp) (Nat.zero_le _)
    ⟨by rw [List.drop_zero]; exact I0, IterRel.refl _ _ _⟩ hloop
  obtain ⟨I1, R1⟩ := hfin
  rw [List.drop_length] at I1
  refine ⟨I1, R1.newObs.trans hno0, R1.disObs.trans hdo0, P0.trans R1.frame,
    ⟨R1.size.trans (by rw [hob0]), fun o ob ho => ?_⟩,
    hOf_of_recs (R1.size.trans (by rw [hob0])) fun o ob ho => by
      obtain ⟨ob', h1, -, -, h4⟩ := R1.recs o ob (by rw [hob0]; exact ho)
      exact ⟨ob', h1, h4⟩, by rw [← hlog0]; exact R1.log, by rw [R1.nextToken, hs0]⟩
  obtain ⟨ob', h1, h2, h3, -⟩ := R1.recs o ob (by rw [hob0]; exact ho)
  refine ⟨ob', h1, h2, ?_⟩
  rcases h3 with h3 | ⟨h3, h4⟩
  · rw [h3]
    cases hst : ob.state
    case disallowed =>
      have := (I1.obs.dis o ob' h1).1 (by rw [h3, hst])
      cases this
    all_goals rfl
  · rw [h3, h4]; rfl

end IncrVerif.Proofs.SubsH
