import IncrVerif.Proofs.PerKeyH47
import IncrVerif.Proofs.VarWrites
/-!
# Per-key operators, API actions part 3: the API actions that create no node keep `PQ`
(`observe`, `cloneObs`, `dropObs`, `disallow`, the five writes, `get`, `isStable`, `stats`)

`action_nocreate`: modulo the simulation on `V s` (hypothesis `hv`, from `VSim`) and `SlotInv` of the new state
(hypothesis, from `pk-slots`).
-/
namespace IncrVerif.Proofs.PerKeyH
open IncrVerif.Engine IncrVerif.Driver IncrVerif.Proofs IncrVerif.Proofs.Step IncrVerif.Proofs.Sched
open IncrVerif.Proofs.ExpertH IncrVerif.Proofs.EffH IncrVerif.Proofs.DriverH

/-! ## the pieces of `PQ` along `AF` -/

theorem PFrag.of_af {env : Env} {s s' : State} (P : PFrag env s) (F : AF s s') : PFrag env s' := by
  have hsz := F.size
  refine ⟨by rw [F.panicCountdown]; exact P.pc, fun n hn => ?_, fun n hn => ?_, fun n hn => ?_, fun n hn => ?_,
    fun n hn => ?_, fun n e hn hk => ?_, fun e er he => ?_, fun e er he => ?_, by rw [F.currentScope]; exact P.scope⟩
  · rw [F.kind]; exact P.kind n (by omega)
  · rw [F.valid]; exact P.valid n (by omega)
  · rw [F.cutoff]; exact P.cutoff n (by omega)
  · rw [F.createdIn]; exact P.top n (by omega)
  · rw [F.forceNecessary]; exact P.force n (by omega)
  · rw [F.kind] at hk; rw [F.experts]; exact P.xrec n e (by omega) hk
  · rw [F.experts] at he
    obtain ⟨h1, h2⟩ := P.xnode e er he
    exact ⟨by omega, by rw [F.kind]; exact h2⟩
  · rw [F.experts] at he; exact P.xok e er he

theorem ahhEmpty_of_af {s s' : State} (A : QR.AhhEmpty s) (F : AF s s') : QR.AhhEmpty s' :=
  ⟨by rw [F.ahh]; exact A.length, by rw [F.ahh]; exact A.buckets, fun m => by rw [F.heightInAhh]; exact A.marks m⟩

theorem isStale_lc_af {env : Env} {s s' : State} (F : AF s s') {op : Nat} {pr : PerKeyRec} (h : OpOK env s op pr) :
    s'.isStale pr.lhsChange = s.isStale pr.lhsChange := by
  obtain ⟨x, e, er, hN, -⟩ := h.nodes
  have hk := hN.lcKind
  rw [← hN.lc] at hk
  exact isStale_map_congr hk (by rw [F.kind]; exact hk) (F.valid _) (F.recomputedAt _) (fun c _ => F.changedAt c)

theorem PKOK.of_af {env : Env} {s s' : State} (P : PKOK env s) (F : AF s s')
    (hobs : ∀ (o : Nat) (ob' : ObsRec), s'.observers[o]? = some ob' → ∃ k : Nat, s.top[k]? = some ob'.node) :
    PKOK env s' := by
  refine ⟨fun op pr hp => ?_, ?_, ?_, fun n f args hn hk hf => ?_,
    fun o ob ho => by rw [F.top]; exact hobs o ob ho, fun op pr hp v hv => ?_⟩
  · rw [F.perkeys] at hp
    have h := P.ops op pr hp
    refine h.of_frame F.kf (fun c x h1 h2 => ?_) (fun x _ hx => by rw [F.observers]; exact hx)
      (fun k x hk => Or.inl (by rw [← F.top]; exact hk)) fun hs => ?_
    · have := F.size; omega
    · rw [isStale_lc_af F h] at hs
      rw [F.value]; exact h.input hs
  · exact P.recs.of_frame F.perkeys fun e er' he' => ⟨er', by rw [← F.experts]; exact he', rfl, rfl⟩
  · obtain ⟨ψ, hψ⟩ := P.pot
    exact ⟨ψ, hψ.of_frame F.size F.kind (fun e => by rw [F.experts]) F.top F.perkeys⟩
  · rw [F.kind] at hk; rw [F.perkeys]
    exact P.lcs n f args (by have := F.size; omega) hk hf
  · rw [F.perkeys] at hp
    rw [F.value] at hv
    exact P.maps op pr hp v hv

theorem keysSub.trans {a b c : List (Int × Int)} (h1 : keysSub a b) (h2 : keysSub b c) : keysSub a c :=
  fun k h => h2 k (h1 k h)

/-- the key sets along `AF`, when the cells that hold maps only gain keys -/
theorem NoRem.of_af {s s' : State} (N : NoRem s) (F : AF s s')
    (hvars : ∀ (c : Nat) (vc : VarCell) (mv : List (Int × Int)), s.vars[c]? = some vc → vc.value = .map mv →
      IncrVerif.AMap.Sorted mv → ∃ vc' mv', s'.vars[c]? = some vc' ∧ vc'.value = .map mv' ∧
        IncrVerif.AMap.Sorted mv' ∧ keysSub mv mv') : NoRem s' := by
  intro op pr hp
  rw [F.perkeys] at hp
  obtain ⟨x, c, vc, mv, hk1, hk2, hv, hval, hs, h1, h2, h3⟩ := (N op pr hp).input
  obtain ⟨vc', mv', hv', hval', hs', hsub⟩ := hvars c vc mv hv hval hs
  refine ⟨x, c, vc', mv', by rw [F.kind]; exact hk1, by rw [F.kind]; exact hk2, hv', hval', hs', h1.trans hsub,
    fun w hw => ?_, fun w hw => ?_⟩
  · rw [F.value] at hw
    obtain ⟨m2, e, a, b, c⟩ := h2 w hw
    exact ⟨m2, e, a, b.trans hsub, c⟩
  · rw [F.value] at hw
    obtain ⟨m1, e, a, b, c, d⟩ := h3 w hw
    refine ⟨m1, e, a, b.trans hsub, c, fun m2 hm2 => ?_⟩
    rw [F.value] at hm2
    exact d m2 hm2

/-! ## the cells: actions that are not writes keep them -/

/-- the actions of `PAct` that do not write -/
def RAct : Action → Prop
  | .observe _ | .cloneObs _ | .dropObs _ | .disallow _ | .get _ | .isStable | .stats => True
  | _ => False

macro_rules
  | `(tactic| qleaf) =>
    `(tactic| ((with_reducible apply Step.Pres.modify); intro _; exact (rfl : State.vars _ = State.vars _)))

theorem KV.bumpCounter (f) : Step.Pres (Xp.Keeps State.vars) (bumpCounter f) := by unfold Engine.bumpCounter; qpres
macro_rules | `(tactic| qleaf) => `(tactic| with_reducible apply KV.bumpCounter)
theorem KV.modObs (o f) : Step.Pres (Xp.Keeps State.vars) (modObs o f) := by unfold Engine.modObs; qpres
macro_rules | `(tactic| qleaf) => `(tactic| with_reducible apply KV.modObs)
theorem KV.getObs (o) : Step.Pres (Xp.Keeps State.vars) (getObs o) := by unfold Engine.getObs; qpres
macro_rules | `(tactic| qleaf) => `(tactic| with_reducible apply KV.getObs)
theorem KV.resolveOpnd (loc o) : Step.Pres (Xp.Keeps State.vars) (resolveOpnd loc o) := by
  unfold Engine.resolveOpnd; qpres
macro_rules | `(tactic| qleaf) => `(tactic| with_reducible apply KV.resolveOpnd)
theorem KV.disallowFutureUse (o) : Step.Pres (Xp.Keeps State.vars) (disallowFutureUse o) := by
  unfold Engine.disallowFutureUse; qpres
macro_rules | `(tactic| qleaf) => `(tactic| with_reducible apply KV.disallowFutureUse)

theorem KV.stepAction (env : Env) (a : Action) (tk : Array Nat) (h : RAct a) :
    Step.Pres (Xp.Keeps State.vars) (Engine.stepAction env a tk) := by
  unfold Engine.stepAction
  cases a <;> first | exact False.elim h | (dsimp only; qpres; done)

/-! ## the cells: writes -/

/-- the variable and the update function of a write action -/
def wOf : Action → Option (Nat × (Val → Val))
  | .set v x => some (v, fun _ => x)
  | .modify v d => some (v, fun x => x.addInt d 7)
  | .update v d => some (v, fun x => x.addInt d 7)
  | .replace v x => some (v, fun _ => x)
  | .replaceWith v d => some (v, fun x => x.addInt d 7)
  | _ => none

theorem stepAction_write {env : Env} {a : Action} {tk : Array Nat} {s s' : State} {r : String × Array Nat} {v : Nat}
    {f : Val → Val} (hw : wOf a = some (v, f)) (h : (stepAction env a tk).run.run s = (.ok r, s')) :
    ∃ isSet rv, (writeVar v f isSet).run.run s = (.ok rv, s') := by
  unfold stepAction at h
  cases a <;> simp only [wOf, Option.some.injEq, Prod.mk.injEq, reduceCtorEq] at hw
  case set v0 x =>
    obtain ⟨rfl, rfl⟩ := hw
    dsimp only at h
    obtain ⟨_, s1, h1, h2⟩ := bind_ok_inv h
    obtain ⟨-, e⟩ := pure_ok_inv h2
    obtain ⟨rv, h3⟩ := QR.discard_ok_inv h1
    rw [e]; exact ⟨_, rv, h3⟩
  case modify v0 d =>
    obtain ⟨rfl, rfl⟩ := hw
    dsimp only at h
    obtain ⟨_, s1, h1, h2⟩ := bind_ok_inv h
    obtain ⟨-, e⟩ := pure_ok_inv h2
    obtain ⟨rv, h3⟩ := QR.discard_ok_inv h1
    rw [e]; exact ⟨_, rv, h3⟩
  case update v0 d =>
    obtain ⟨rfl, rfl⟩ := hw
    dsimp only at h
    obtain ⟨_, s1, h1, h2⟩ := bind_ok_inv h
    obtain ⟨-, e⟩ := pure_ok_inv h2
    obtain ⟨rv, h3⟩ := QR.discard_ok_inv h1
    rw [e]; exact ⟨_, rv, h3⟩
  case replace v0 x =>
    obtain ⟨rfl, rfl⟩ := hw
    dsimp only at h
    obtain ⟨rv, s1, h1, h2⟩ := bind_ok_inv h
    obtain ⟨-, e⟩ := pure_ok_inv h2
    rw [e]; exact ⟨_, rv, h1⟩
  case replaceWith v0 d =>
    obtain ⟨rfl, rfl⟩ := hw
    dsimp only at h
    obtain ⟨rv, s1, h1, h2⟩ := bind_ok_inv h
    obtain ⟨-, e⟩ := pure_ok_inv h2
    rw [e]; exact ⟨_, rv, h1⟩

theorem PAct.cases {a : Action} (h : PAct a) : RAct a ∨ ∃ v f, wOf a = some (v, f) := by
  cases a <;> first | exact h.elim | exact Or.inl trivial | exact Or.inr ⟨_, _, rfl⟩

/-- what `PActionOK` says about a write: a cell that holds a map gets a sorted map with at least the same keys -/
theorem write_ok {env : Env} {s : State} {a : Action} {v : Nat} {f : Val → Val} (ha : PActionOK env s a)
    (hw : wOf a = some (v, f)) (vc : VarCell) (m : List (Int × Int)) (hv : s.vars[v]? = some vc)
    (hm : vc.value = .map m) :
    ∃ m', f vc.value = .map m' ∧ IncrVerif.AMap.Sorted m' ∧ keysSub m m' := by
  cases a <;> simp only [wOf, Option.some.injEq, Prod.mk.injEq, reduceCtorEq] at hw
  case set v0 x =>
    obtain ⟨rfl, rfl⟩ := hw
    obtain ⟨m', e, hs⟩ := ha.2 vc m hv hm
    exact ⟨m', e, ha.1 m' e, hs⟩
  case replace v0 x =>
    obtain ⟨rfl, rfl⟩ := hw
    obtain ⟨m', e, hs⟩ := ha.2 vc m hv hm
    exact ⟨m', e, ha.1 m' e, hs⟩
  all_goals
    obtain ⟨rfl, rfl⟩ := hw
    exact absurd ⟨vc, m, hv, hm⟩ ha

/-- the cells after an action of `PAct` -/
theorem vars_pact {env : Env} {s s' : State} {a : Action} {tk : Array Nat} {r : String × Array Nat}
    (hst : s.status ≠ .stabilising) (hp : PAct a) (ha : PActionOK env s a)
    (h : (stepAction env a tk).run.run s = (.ok r, s')) :
    ∀ (c : Nat) (vc : VarCell) (mv : List (Int × Int)), s.vars[c]? = some vc → vc.value = .map mv →
      IncrVerif.AMap.Sorted mv → ∃ vc' mv', s'.vars[c]? = some vc' ∧ vc'.value = .map mv' ∧
        IncrVerif.AMap.Sorted mv' ∧ keysSub mv mv' := by
  intro c vc mv hc hm hs
  rcases hp.cases with hr | ⟨v, f, hw⟩
  · have e : s'.vars = s.vars := (KV.stepAction env a tk hr).h _ _ _ h
    exact ⟨vc, mv, by rw [e]; exact hc, hm, hs, fun _ h => h⟩
  · obtain ⟨isSet, rv, hrun⟩ := stepAction_write hw h
    obtain ⟨vc0, hv0⟩ := writeVar_ok_cell hrun
    obtain ⟨-, -, hvar, hoth, -⟩ := writeVar_outside_ok_facts v f isSet s s' vc0 rv hv0 hst hrun
    by_cases e : c = v
    · subst e
      rw [hv0] at hc; cases hc
      obtain ⟨m', e', hs', hsub⟩ := write_ok ha hw vc mv hv0 hm
      exact ⟨_, m', hvar, e', hs', hsub⟩
    · exact ⟨vc, mv, by rw [hoth c e]; exact hc, hm, hs, fun _ h => h⟩

/-! ## the observer records -/

/-- same names; every observer record is an old one, watching the same node -/
structure OT (s s' : State) : Prop where
  top : s'.top = s.top
  obs : ∀ (o : Nat) (ob' : ObsRec), s'.observers[o]? = some ob' →
    ∃ ob, s.observers[o]? = some ob ∧ ob'.node = ob.node

theorem OT.refl (s : State) : OT s s := ⟨rfl, fun _ ob h => ⟨ob, h, rfl⟩⟩
theorem OT.trans {a b c : State} (h1 : OT a b) (h2 : OT b c) : OT a c := by
  refine ⟨h2.top.trans h1.top, fun o ob' ho => ?_⟩
  obtain ⟨ob1, ho1, e1⟩ := h2.obs o ob' ho
  obtain ⟨ob0, ho0, e0⟩ := h1.obs o ob1 ho1
  exact ⟨ob0, ho0, e1.trans e0⟩
instance : Step.PreOrd OT := ⟨OT.refl, OT.trans⟩

theorem OT.of_eq {s s' : State} (h1 : s'.top = s.top) (h2 : s'.observers = s.observers) : OT s s' :=
  ⟨h1, fun o ob h => ⟨ob, by rw [← h2]; exact h, rfl⟩⟩

theorem PresO.modObs (o : Nat) (f : ObsRec → ObsRec) (hf : ∀ x, (f x).node = x.node) :
    Step.Pres OT (Engine.modObs o f) := by
  unfold Engine.modObs
  refine Step.Pres.modify fun s => ⟨rfl, fun j ob' hj => ?_⟩
  simp only [Array.getElem?_modify] at hj
  split at hj
  · cases h : s.observers[j]? with
    | none => rw [h] at hj; cases hj
    | some ob => rw [h] at hj; cases hj; exact ⟨ob, rfl, hf ob⟩
  · exact ⟨ob', hj, rfl⟩

macro_rules
  | `(tactic| qleaf) =>
    `(tactic| ((with_reducible apply Step.Pres.modify); intro _; exact OT.of_eq rfl rfl))
macro_rules
  | `(tactic| qleaf) => `(tactic| ((with_reducible apply PresO.modObs); intro _; rfl))

theorem PresO.discard {α} {x : M α} (h : Step.Pres OT x) : Step.Pres OT (discard x) := by
  unfold Functor.discard; exact Step.Pres.map _ h
macro_rules | `(tactic| qleaf) => `(tactic| with_reducible apply PresO.discard)
theorem PresO.bumpCounter (f) : Step.Pres OT (Engine.bumpCounter f) := by unfold Engine.bumpCounter; qpres
macro_rules | `(tactic| qleaf) => `(tactic| with_reducible apply PresO.bumpCounter)
theorem PresO.modVar (v f) : Step.Pres OT (Engine.modVar v f) := by unfold Engine.modVar; qpres
macro_rules | `(tactic| qleaf) => `(tactic| with_reducible apply PresO.modVar)
theorem PresO.getObs (o) : Step.Pres OT (Engine.getObs o) := by unfold Engine.getObs; qpres
macro_rules | `(tactic| qleaf) => `(tactic| with_reducible apply PresO.getObs)
theorem PresO.modNode (n f) : Step.Pres OT (Engine.modNode n f) := by unfold Engine.modNode; qpres
macro_rules | `(tactic| qleaf) => `(tactic| with_reducible apply PresO.modNode)
theorem PresO.rchLink (n) : Step.Pres OT (Engine.rchLink n) := by unfold Engine.rchLink; qpres
macro_rules | `(tactic| qleaf) => `(tactic| with_reducible apply PresO.rchLink)
theorem PresO.rchInsert (n) : Step.Pres OT (Engine.rchInsert n) := by unfold Engine.rchInsert; qpres
macro_rules | `(tactic| qleaf) => `(tactic| with_reducible apply PresO.rchInsert)
theorem PresO.disallowFutureUse (o) : Step.Pres OT (Engine.disallowFutureUse o) := by
  unfold Engine.disallowFutureUse; qpres
macro_rules | `(tactic| qleaf) => `(tactic| with_reducible apply PresO.disallowFutureUse)
theorem PresO.didSetVarWhileNotStabilising (v) : Step.Pres OT (Engine.didSetVarWhileNotStabilising v) := by
  unfold Engine.didSetVarWhileNotStabilising; qpres
macro_rules | `(tactic| qleaf) => `(tactic| with_reducible apply PresO.didSetVarWhileNotStabilising)
theorem PresO.writeVar (v f b) : Step.Pres OT (Engine.writeVar v f b) := by
  unfold Engine.writeVar; qpres
macro_rules | `(tactic| qleaf) => `(tactic| with_reducible apply PresO.writeVar)

/-- `PAct` without `observe` -/
def PActO : Action → Prop
  | .observe _ => False
  | a => PAct a

theorem PresO.stepAction (env : Env) (a : Action) (tk : Array Nat) (h : PActO a) :
    Step.Pres OT (Engine.stepAction env a tk) := by
  unfold Engine.stepAction
  cases a <;> first | exact False.elim h | (dsimp only; qpres; done)

/-- the observers after an action of `PAct`: they watch named nodes -/
theorem obs_pact {env : Env} {s s' : State} {a : Action} {tk : Array Nat} {r : String × Array Nat}
    (hp : PAct a) (ha : PActionOK env s a)
    (hO : ∀ (o : Nat) (ob : ObsRec), s.observers[o]? = some ob → ∃ k : Nat, s.top[k]? = some ob.node)
    (h : (stepAction env a tk).run.run s = (.ok r, s')) :
    ∀ (o : Nat) (ob' : ObsRec), s'.observers[o]? = some ob' → ∃ k : Nat, s.top[k]? = some ob'.node := by
  by_cases hob : ∃ n, a = .observe n
  · obtain ⟨n, rfl⟩ := hob
    cases n <;> try exact ha.elim
    rename_i k
    simp only [stepAction, resolveOpnd] at h
    obtain ⟨n, s0, h0, h⟩ := bind_ok_inv h
    rw [run_bind_get] at h0
    cases hk : s.top[k]? with
    | none => rw [hk] at h0; cases h0
    | some n' =>
      rw [hk] at h0
      obtain ⟨en, e0⟩ := pure_ok_inv h0
      rw [e0] at h
      rw [run_bind_get] at h
      obtain ⟨s1, e1, h⟩ := QR.bind_modify_inv h
      obtain ⟨s2, e2, h⟩ := QR.bind_bumpCounter_inv h
      obtain ⟨-, e⟩ := pure_ok_inv h
      intro o ob' ho
      rw [e, e2, e1] at ho
      simp only [Array.getElem?_push] at ho
      split at ho
      · cases ho; exact ⟨k, by rw [hk, en]⟩
      · exact hO o ob' ho
  · have hp' : PActO a := by
      cases a <;> first | exact hp | exact absurd ⟨_, rfl⟩ hob
    have T : OT s s' := (PresO.stepAction env a tk hp').h _ _ _ h
    intro o ob' ho
    obtain ⟨ob, ho0, e⟩ := T.obs o ob' ho
    rw [e]; exact hO o ob ho0

/-! ## the actions -/

theorem PAct.static {env : Env} {s : State} {a : Action} (hp : PAct a) (ha : PActionOK env s a) :
    QR.StaticAction (penv env) a := by
  cases a <;> first | exact hp.elim | exact ha | trivial

/-- **the API actions that create no node keep `PQ`** (`hv`: the simulation on the virtual state; `hsl`: slots) -/
theorem action_nocreate {env : Env} {rk : Nat → Nat} {s s' : State} {a : Action} {tk : Array Nat}
    {r : String × Array Nat} (Q : PQ env rk s) (hp : PAct a) (ha : PActionOK env s a)
    (hv : (stepAction (penv env) a tk).run.run (V s) = (.ok r, V s'))
    (hsl : SlotInv env s')
    (h : (stepAction env a tk).run.run s = (.ok r, s')) : PQ env rk s' := by
  have F : AF s s' := (PresA.stepAction env a tk hp).h _ _ _ h
  have hst : s.status ≠ .stabilising := by
    have := Q.q.status
    intro e
    rw [show (V s).status = s.status from rfl, e] at this
    cases this
  exact ⟨Q.frag.of_af F, QR.step_q Q.q (hp.static ha) hv, ahhEmpty_of_af Q.ahh F,
    Q.pk.of_af F (obs_pact hp ha Q.pk.obsTop h), hsl,
    Q.norem.of_af F (vars_pact hst hp ha h)⟩

end IncrVerif.Proofs.PerKeyH
