import IncrVerif.Proofs.TidyH31
import IncrVerif.Proofs.TidyH32
import IncrVerif.Proofs.TidyH33
/-!
# T4, part f (1): the two loops at the start of `stabilise` RETURN, for the rank-ordered static invariant
(port of `Proofs/Quiet23.lean`; `HBd` in place of `HBo`, the fuel of the inner cascades by depth)
-/
namespace IncrVerif.Proofs.TidyH.XT
open IncrVerif.Engine IncrVerif.Driver IncrVerif.Proofs IncrVerif.Proofs.Step IncrVerif.Proofs.Sched
open IncrVerif.Proofs.ExpertH IncrVerif.Proofs.ExpertH.QR
open IncrVerif.Proofs.ExpertH.QR.P12

namespace X4f

theorem tot_bind_getObs {β} {o : Nat} {ob : ObsRec} {f : ObsRec → M β} {s : State} {Q : β → State → Prop}
    (h : s.observers[o]? = some ob) (T : Tot (f ob) s Q) : Tot (getObs o >>= f) s Q :=
  Tot.bind_ok (by rw [P12.run_getObs, h]) T

theorem tot_bind_modObs {β} {o : Nat} {g : ObsRec → ObsRec} {f : Unit → M β} {s : State} {Q : β → State → Prop}
    (T : Tot (f ()) { s with observers := s.observers.modify o g } Q) : Tot (modObs o g >>= f) s Q := by
  unfold modObs; exact Tot.bind_modify T

/-- `handleAfterStabilisation` of an existing node returns -/
theorem has_ok {n : Nat} {s : State} (hn : n < s.nodes.size) :
    ∃ s', (handleAfterStabilisation n).run.run s = (.ok (), s') := by
  unfold handleAfterStabilisation
  simp only [run_bind, run_getNode, some_of_lt hn]
  simp only [run_ite, run_pure, run_bind, run_modNode, run_modify]
  split
  · exact ⟨_, rfl⟩
  · exact ⟨_, rfl⟩

/-- `HBd` only reads the node array -/
theorem hbd_of_nodes {s s' : State} {op : Nat → Op} (hb : HBd s op) (h : s'.nodes = s.nodes) : HBd s' op := by
  have hnd : ∀ m, s'.nodeD m = s.nodeD m := fun m => by simp [State.nodeD, h]
  intro m hm ho
  have hd : dp s' m = dp s m := dp_congr (fun x => by rw [hnd]) (by rw [h]) m
  rw [hnd, hd]
  exact hb m (by rw [State.isNecessary, ← hnd]; exact hm) ho

/-- the height bound through a change of the observer list of `n` -/
theorem hbd_upd {n : Nat} {l : List Nat} {t t' : State} {op op' : Nat → Op} (hb : HBd t op)
    (U : NodeUpd n (fObservers l) t t')
    (hoth : ∀ m, m ≠ n → op' m = .closed → op m = .closed)
    (hself : t'.isNecessary n = true → op' n = .closed → t.isNecessary n = true ∧ op n = .closed) :
    HBd t' op' := by
  have hd : ∀ m, dp t' m = dp t m := by
    refine dp_congr (fun x => ?_) U.size
    by_cases e : x = n
    · rw [e, U.self.kind]; rfl
    · exact (U.other x e).kind
  intro m hm hc
  rw [hd]
  by_cases e : m = n
  · rw [e] at hm hc ⊢
    obtain ⟨h1, h2⟩ := hself hm hc
    rw [U.height_self]; exact hb n h1 h2
  · rw [U.nec_other e] at hm
    rw [U.height_other e]; exact hb m hm (hoth m e hc)

theorem propagateInvalidity_ok {fuel : Nat} {s : State} (hp : s.propagateInvalidity = []) (hf : 1 ≤ fuel) :
    (propagateInvalidity fuel).run.run s = (.ok (), s) := by
  cases fuel with
  | zero => omega
  | succ fuel =>
    unfold propagateInvalidity
    rw [run_bind_get, hp]; rfl

/-- the observer records after one `created` iteration of `add_new_observers` (companion of `P12.add_created`) -/
theorem add_created_obs {env : Env} {rk : Nat → Nat} {fuel o : Nat} {rest pd : List Nat} {t t4 t' : State}
    {ob : ObsRec} {was : Bool} {r : ForInStep PUnit}
    (I : SInv env rk t (o :: rest) pd) (hob : t.observers[o]? = some ob)
    (hwas : was = t.isNecessary ob.node)
    (h4 : (handleAfterStabilisation ob.node).run.run (obsAdded o ob.node ((0 : Nat) : Int) t) = (.ok (), t4))
    (h : (if (!was) = true then do
            becameNecessaryPropagate env fuel ob.node
            pure (ForInStep.yield PUnit.unit)
          else pure (ForInStep.yield PUnit.unit)).run.run t4 = (.ok r, t')) :
    ObsSet o .inUse t t' := by
  have hn : ob.node < t.nodes.size := (I.obs.inRange o ob hob).1
  have U3 : NodeUpd ob.node (fObservers ((t.nodeD ob.node).observers ++ [o])) t
      (obsAdded o ob.node ((0 : Nat) : Int) t) := obsAdded_upd hn
  have R : Irrel rk ob.node (obsAdded o ob.node ((0 : Nat) : Int) t) t4 := by
    rcases has_cases h4 with e | e
    · rw [e]; exact Irrel.refl _ _ _
    · rw [e]; exact Irrel.marked _ _ _
  have U4 := U3.then_same R.same
  have L := R.rel (fun _ => False)
  have hp4 : t4.propagateInvalidity = [] := (L.pinv.trans rfl).trans I.pinv
  have hl : (t.nodeD ob.node).observers ++ [o] ≠ [] := by simp
  obtain ⟨-, -, F, -, -⟩ := struct_add I.struct U4 hl hwas hp4 h
  have F3 : CFrame (obsAdded o ob.node ((0 : Nat) : Int) t) t' := L.fr.trans F
  exact (ObsSet.of_modify (t' := obsAdded o ob.node ((0 : Nat) : Int) t) rfl).then_eq (cf_obsArr F3)

/-- the observers still to be added keep their state through an iteration for another observer -/
theorem pending_step {x : ObsState} {o : Nat} {rest : List Nat} {t t' : State} (S : ObsSet o x t t')
    (hno : o ∉ rest)
    (hst : ∀ (o' : Nat) (ob : ObsRec), o' ∈ o :: rest → t.observers[o']? = some ob →
      ob.state = .created ∨ ob.state = .unlinked) :
    ∀ (o' : Nat) (ob : ObsRec), o' ∈ rest → t'.observers[o']? = some ob →
      ob.state = .created ∨ ob.state = .unlinked := by
  intro o' ob ho' hob
  have e : o' ≠ o := fun e => hno (e ▸ ho')
  rw [S.other o' e] at hob
  exact hst o' ob (List.mem_cons_of_mem _ ho') hob

/-- the end of a `created` iteration of `add_new_observers` returns: the assertion holds, the cascade returns -/
theorem add_tail_run {env : Env} {rk : Nat → Nat} {N fuel o : Nat} {rest pd : List Nat} {t t4 : State}
    {ob : ObsRec}
    (I : SInv env rk t (o :: rest) pd) (hob : t.observers[o]? = some ob) (hbt : HBd t allClosed) (Rt : Room N t)
    (hf : 2 * t.nodes.size + 2 ≤ fuel)
    (h4 : (handleAfterStabilisation ob.node).run.run (obsAdded o ob.node ((0 : Nat) : Int) t) = (.ok (), t4)) :
    t4.isNecessary ob.node = true ∧ ∃ (r : ForInStep PUnit) (t' : State),
      (if (!t.isNecessary ob.node) = true then do
            becameNecessaryPropagate env fuel ob.node
            pure (ForInStep.yield PUnit.unit)
          else pure (ForInStep.yield PUnit.unit)).run.run t4 = (.ok r, t') ∧ HBd t' allClosed := by
  have hn : ob.node < t.nodes.size := (I.obs.inRange o ob hob).1
  have U3 : NodeUpd ob.node (fObservers ((t.nodeD ob.node).observers ++ [o])) t
      (obsAdded o ob.node ((0 : Nat) : Int) t) := obsAdded_upd hn
  have R : Irrel rk ob.node (obsAdded o ob.node ((0 : Nat) : Int) t) t4 := by
    rcases has_cases h4 with e | e
    · rw [e]; exact Irrel.refl _ _ _
    · rw [e]; exact Irrel.marked _ _ _
  have U4 := U3.then_same R.same
  have L := R.rel (fun _ => False)
  have hp4 : t4.propagateInvalidity = [] := (L.pinv.trans rfl).trans I.pinv
  have hl : (t.nodeD ob.node).observers ++ [o] ≠ [] := by simp
  have P4 : PFrame t t4 := (obsAdded_frame o ob.node t).trans L.fr.toP
  refine ⟨(U4.nec_self_iff (keeps_fObservers _)).2 (Or.inr (Or.inl hl)), ?_⟩
  cases hw : t.isNecessary ob.node with
  | true =>
    simp only [Bool.not_true, Bool.false_eq_true, if_false]
    exact ⟨_, t4, run_pure _ _, hbd_upd hbt U4 (fun _ _ h => h) (fun _ _ => ⟨hw, rfl⟩)⟩
  | false =>
    simp only [Bool.not_false, if_true]
    obtain ⟨I1, hpar⟩ := GInv.addObs_open I.struct U4 hl hw rfl
    have hnq : (t4.nodeD ob.node).inRch = false := by
      rw [U4.inRch (keeps_fObservers _)]; exact GInv.not_queued_of_not_nec I.struct hw rfl
    have hlow : ∀ m, upd allClosed ob.node (.linking 0) m ≠ .closed → rk ob.node ≤ rk m := by
      intro m hm
      by_cases e : m = ob.node
      · rw [e]; exact Nat.le_refl _
      · rw [upd_other _ _ _ e] at hm; exact absurd rfl hm
    have hpar' : ∀ p i, (p, i) ∈ (t4.nodeD ob.node).parents →
        upd allClosed ob.node (.linking 0) p ≠ .closed := by
      intro p i hpi; rw [hpar] at hpi; cases hpi
    have hdp : dp t4 ob.node < t.nodes.size := by
      rw [dp_of_pframe P4]; exact dp_lt_size I.struct.static hn
    have T := becameNecessary_totalR (fuel := fuel) I1
      (hbd_upd hbt U4 (op' := upd allClosed ob.node (.linking 0)) (fun _ _ _ => rfl)
        (fun _ h => by rw [upd_self] at h; cases h))
      (Rt.of_pframe P4) (upd_self _ _ _) hnq hlow hpar' (by omega)
    rw [upd_upd, upd_eq_self allClosed _ .closed rfl] at T
    obtain ⟨u, t6, h6, hb6⟩ := T
    obtain ⟨-, -, hL⟩ := QR.becameNecessary_spec h6 I1 (upd_self _ _ _) hnq hlow hpar'
    have hp6 : t6.propagateInvalidity = [] := by rw [hL.pinv]; exact hp4
    have h5 : (becameNecessaryPropagate env fuel ob.node).run.run t4 = (.ok (), t6) := by
      unfold becameNecessaryPropagate
      rw [run_bind_ok h6]; exact propagateInvalidity_ok hp6 (by omega)
    exact ⟨_, t6, by rw [run_bind_ok h5, run_pure], hb6⟩

end X4f

/-- **`addNewObservers` returns**, and the height bound is kept -/
theorem addNewObservers_totalR {env : Env} {rk : Nat → Nat} {N fuel : Nat} {s : State}
    (I : SInv env rk s s.newObservers s.disallowedObservers) (hb : HBd s allClosed) (R : Room N s)
    (hnd : s.newObservers.Nodup)
    (hst : ∀ (o : Nat) (ob : ObsRec), o ∈ s.newObservers → s.observers[o]? = some ob →
      ob.state = .created ∨ ob.state = .unlinked)
    (hf : 2 * s.nodes.size + 2 ≤ fuel) :
    Tot (addNewObservers env fuel) s (fun _ s' => HBd s' allClosed) := by
  unfold addNewObservers
  refine Tot.bind_get ?_
  refine Tot.bind_modify ?_
  have I0 : SInv env rk { s with newObservers := [] } s.newObservers s.disallowedObservers :=
    sInv_congr I rfl rfl rfl rfl rfl rfl rfl
  have R0 : Room N { s with newObservers := [] } := ⟨R.ahh, R.rch, R.size⟩
  have hb0 : HBd { s with newObservers := [] } allClosed := X4f.hbd_of_nodes hb rfl
  refine Tot.bind (forIn_tot' _ _
    (fun j (_ : PUnit) t => SInv env rk t (s.newObservers.drop j) s.disallowedObservers ∧
      t.nodes.size = s.nodes.size ∧ HBd t allClosed ∧ Room N t ∧
      (∀ (o : Nat) (ob : ObsRec), o ∈ s.newObservers.drop j → t.observers[o]? = some ob →
        ob.state = .created ∨ ob.state = .unlinked)) ?_ _ _
    ⟨by rw [List.drop_zero]; exact I0, rfl, hb0, R0, by rw [List.drop_zero]; exact hst⟩) ?_
  · intro j o b t hj ⟨It, hsz, hbt, Rt, hpt⟩
    have hndj : (o :: s.newObservers.drop (j + 1)).Nodup := by
      rw [← drop_of_getElem? hj]; exact List.Nodup.sublist (List.drop_sublist _ _) hnd
    rw [drop_of_getElem? hj] at It hpt
    obtain ⟨ob, hob⟩ := It.obs.newIn o (List.mem_cons_self ..)
    have hh : ob.handlers = [] := (It.obs.inRange o ob hob).2
    have hn : ob.node < t.nodes.size := (It.obs.inRange o ob hob).1
    refine X4f.tot_bind_getObs hob ?_
    rcases hpt o ob (List.mem_cons_self ..) hob with hc | hu
    · rw [hc]
      dsimp only
      refine X4f.tot_bind_modObs ?_
      refine Tot.bind_get ?_
      refine Tot.bind_modify ?_
      refine Tot.bind_modNode ?_
      change Tot _ (obsAdded o ob.node ((ob.handlers.length : Nat) : Int) t) _
      rw [hh, List.length_nil]
      obtain ⟨t4, h4⟩ := X4f.has_ok (n := ob.node) (s := obsAdded o ob.node ((0 : Nat) : Int) t)
        (by rw [(obsAdded_upd (o := o) (k := ((0 : Nat) : Int)) hn).size]; exact hn)
      obtain ⟨hnec4, r, t', hrun, hb'⟩ := X4f.add_tail_run (env := env) (fuel := fuel) It hob hbt Rt
        (by rw [hsz]; exact hf) h4
      refine Tot.bind_ok h4 ?_
      refine Tot.bind_get ?_
      refine Tot.bind_dassert (fun _ => hnec4) ?_
      obtain ⟨hr, I', R', -⟩ := add_created (was := t.isNecessary ob.node) It hob hc rfl h4 hrun
      have S := X4f.add_created_obs (was := t.isNecessary ob.node) It hob rfl h4 hrun
      exact Tot.of_ok hrun ⟨_, hr, I', R'.frame.size.trans hsz, hb', Rt.of_pframe R'.frame,
        X4f.pending_step S (List.nodup_cons.1 hndj).1 hpt⟩
    · rw [hu]
      dsimp only
      exact Tot.pure ⟨_, rfl, ⟨It.struct, obsInv_skip_step It.obs hob (by rw [hu]; exact fun e => by cases e),
        It.pinv, It.handlers⟩, hsz, hbt, Rt, fun o' ob' ho' h' => hpt o' ob' (List.mem_cons_of_mem _ ho') h'⟩
  · intro _ s1 _ ⟨_, _, hb1, _⟩
    exact Tot.pure hb1

/-- **`unlinkDisallowedObservers` returns**, and the height bound is kept -/
theorem unlinkDisallowedObservers_totalR {env : Env} {rk : Nat → Nat} {fuel : Nat} {s : State}
    (I : SInv env rk s [] s.disallowedObservers) (_hn : s.newObservers = []) (hb : HBd s allClosed)
    (hf : 3 * s.nodes.size + 3 ≤ fuel) :
    Tot (unlinkDisallowedObservers fuel) s (fun _ s' => HBd s' allClosed) := by
  unfold unlinkDisallowedObservers
  refine Tot.bind_get ?_
  refine Tot.bind_modify ?_
  have I0 : SInv env rk { s with disallowedObservers := [] } [] s.disallowedObservers :=
    sInv_congr I rfl rfl rfl rfl rfl rfl rfl
  have hb0 : HBd { s with disallowedObservers := [] } allClosed := X4f.hbd_of_nodes hb rfl
  refine Tot.bind (forIn_tot' _ _
    (fun j (_ : PUnit) t => SInv env rk t [] (s.disallowedObservers.drop j) ∧ t.nodes.size = s.nodes.size ∧
      HBd t allClosed) ?_ _ _ ⟨by rw [List.drop_zero]; exact I0, rfl, hb0⟩) ?_
  · intro j o b t hj ⟨It, hsz, hbt⟩
    rw [drop_of_getElem? hj] at It
    obtain ⟨ob, hob⟩ := It.obs.disIn o (List.mem_cons_self ..)
    have hstd : ob.state = .disallowed := (It.obs.dis o ob hob).2 (List.mem_cons_self ..)
    have hh : ob.handlers = [] := (It.obs.inRange o ob hob).2
    have hn : ob.node < t.nodes.size := (It.obs.inRange o ob hob).1
    refine X4f.tot_bind_getObs hob ?_
    refine Tot.bind_dassert (fun _ => by rw [hstd]; rfl) ?_
    refine X4f.tot_bind_modObs ?_
    refine Tot.bind_modNode ?_
    refine Tot.bind_modify ?_
    change Tot _ (obsRemoved o ob.node ((ob.handlers.length : Nat) : Int) t) _
    rw [hh, List.length_nil]
    have hmem : o ∈ (t.nodeD ob.node).observers := (It.obs.mem ob.node o).2 ⟨ob, hob, rfl, Or.inr hstd⟩
    have hnec : t.isNecessary ob.node = true :=
      (isNecessary_iff t ob.node).2 (Or.inr (Or.inl (List.ne_nil_of_mem hmem)))
    have U3 : NodeUpd ob.node (fObservers ((t.nodeD ob.node).observers.filter (· != o))) t
        (obsRemoved o ob.node ((0 : Nat) : Int) t) := obsRemoved_upd hn
    obtain ⟨H1, H2⟩ := GInv.remObs It.struct U3 rfl hnec
    have hdp : dp (obsRemoved o ob.node ((0 : Nat) : Int) t) ob.node < t.nodes.size := by
      rw [dp_of_pframe (obsRemoved_frame o ob.node t)]; exact dp_lt_size It.struct.static hn
    have hfuel : 3 * dp (obsRemoved o ob.node ((0 : Nat) : Int) t) ob.node + 3 ≤ fuel := by omega
    have T : Tot (checkIfUnnecessary fuel ob.node) (obsRemoved o ob.node ((0 : Nat) : Int) t)
        (fun _ s' => HBd s' allClosed) := by
      cases hnc : (obsRemoved o ob.node ((0 : Nat) : Int) t).isNecessary ob.node with
      | true =>
        have T := checkIfUnnecessary_totalR (H1 hnc)
          (X4f.hbd_upd hbt U3 (fun _ _ h => h) (fun _ _ => ⟨hnec, rfl⟩)) (allClosed_low rk _)
          (Or.inl ⟨hnc, rfl⟩) hfuel
        rw [upd_eq_self allClosed _ .closed rfl] at T; exact T
      | false =>
        have T := checkIfUnnecessary_totalR (H2 hnc)
          (X4f.hbd_upd hbt U3 (fun _ _ _ => rfl) (fun h _ => by rw [hnc] at h; cases h))
          (by
            intro m hm
            by_cases e : m = ob.node
            · rw [e]; exact Nat.le_refl _
            · rw [upd_other _ _ _ e] at hm; exact absurd rfl hm)
          (Or.inr ⟨hnc, upd_self _ _ _⟩) hfuel
        rw [upd_upd, upd_eq_self allClosed _ .closed rfl] at T; exact T
    obtain ⟨u, t', hrun, hb'⟩ := T
    obtain ⟨I', R'⟩ := unlink_iter It hob hrun
    exact Tot.bind_ok hrun (Tot.pure ⟨_, rfl, I', by rw [R'.frame.size]; exact hsz, hb'⟩)
  · intro _ s1 _ ⟨_, _, hb1⟩
    exact Tot.pure hb1

end IncrVerif.Proofs.TidyH.XT
