import IncrVerif.Proofs.NestH98
import IncrVerif.Proofs.NestH101
import IncrVerif.Proofs.NestH108
/-!
# Total correctness for histories with (nested) binds — no hypothesis about the steps

`history_never_panics2`: a history of fragment F2 (hence also of F1/F0: closures that create `const`/`lhsConst`/pure `map`/`fold` nodes, or nothing) whose indices exist
(`ValidIdx`: operands name handles created earlier, variables and observers exist) NEVER panics and never runs out of fuel, provided the state it ends in — whatever the
outcome; the monad keeps the state when a panic is raised — has at most `N` nodes (`N` = the height limit the state was created with) and `needFuel` of that node count is
within `fuelDefault`.
-/
namespace IncrVerif.Proofs.NestH
open IncrVerif.Engine IncrVerif.Driver IncrVerif.Proofs IncrVerif.Proofs.Step IncrVerif.Proofs.Sched IncrVerif.Proofs.Quiet
open IncrVerif.Proofs.BindH

/-- a run of a change detector returns if the state it ends in has room (`3 * size + 7 ≤ fuel`, at most `N` nodes) -/
theorem lcStepTot (env : Env) (N : Nat) : LcStepTotG stepFuel env N := lcStep_total2 env N

/-- the drain returns if the state it ends in has room (`4 * size + 8 ≤ fuel`, at most `N` nodes) -/
theorem drainTot (env : Env) (N : Nat) : DrainTot env N := drain_total2 (lcStepTot env N)

/-- `stabilise` returns if the state it ends in has room -/
theorem stabTot (env : Env) (N : Nat) : StabTot env N := stabilise_total2 (drainTot env N)

/-- **Valid histories with (nested) binds never panic.** -/
theorem history_never_panics2 {env : Env} {N : Nat} {d : Bool} {acts : List Action}
    (hH : HistF2 env 0 acts) (hV : ValidIdx 0 0 0 acts)
    (hroom : HasRoom N fuelDefault (runS env acts (State.init N d) #[]).2) :
    ∃ s tk, Quiet.runActions env acts (State.init N d) #[] = .ok (s, tk) ∧ QT env N s ∧ QG2 env s :=
  history_total2 (drainTot env N) hH hV hroom

/-- the same from any state satisfying the invariants -/
theorem runActions_never_panics2 {env : Env} {N : Nat} (acts : List Action) (s : State) (tk : Array Nat)
    (T : QT env N s) (Q : QG2 env s) (hH : HistF2 env s.top.size acts)
    (hV : ValidIdx s.top.size s.vars.size s.observers.size acts)
    (hroom : HasRoom N fuelDefault (runS env acts s tk).2) :
    ∃ s' tk', Quiet.runActions env acts s tk = .ok (s', tk') ∧ QT env N s' ∧ QG2 env s' :=
  runS_total2 (drainTot env N) acts s tk T Q hH hV hroom

/-- the nested example history has valid indices -/
theorem exHistN_idx : ValidIdx 0 0 0 exHistN := by
  simp only [exHistN, ValidIdx, ActionIdx, growTop, grow2, grow]
  refine ⟨trivial, trivial, trivial, ⟨0, rfl, by decide⟩, ⟨3, rfl, by decide⟩, trivial, by decide, trivial, by decide, trivial,
    by decide, trivial, trivial⟩

set_option maxRecDepth 100000 in
/-- the state the nested example ends in has room: 17 nodes -/
theorem exHistN_room : HasRoom 128 fuelDefault (runS nEnv exHistN (State.init 128 true) #[]).2 := by
  have h : (runS nEnv exHistN (State.init 128 true) #[]).2.nodes.size = 17 := by decide +kernel
  unfold HasRoom needFuel
  rw [h]
  decide

/-- non-vacuity of the total-correctness theorem: the hypotheses hold for the nested example (so it runs — not by evaluation but by the theorem) -/
theorem exHistN_total : ∃ s tk, Quiet.runActions nEnv exHistN (State.init 128 true) #[] = .ok (s, tk) ∧ QT nEnv 128 s ∧ QG2 nEnv s :=
  history_never_panics2 exHistN_frag exHistN_idx exHistN_room

end IncrVerif.Proofs.NestH
