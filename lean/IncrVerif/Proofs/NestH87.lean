import IncrVerif.Proofs.NestH76
import IncrVerif.Proofs.NestH41
import IncrVerif.Proofs.NestH86
/-!
# Total correctness for binds (F1 ⊂ F2), part b2: `maybe_change_value`, a run of a static / `bindMain` node, `remove_min` RETURN

* `maybeChangeValue_total2`: `maybe_change_value n v`, run in a state `S0` of the `Upd n s` family of a state `s` at rest (`BGraph`, `HeapInv`),
  returns when `n` is necessary, its parents have not been recomputed in this round, heights are bounded (`HBo2` + `Room`) and `1 ≤ fuel`.
  (`S0 = started n s`, possibly with log events, for the run of a static / `bindMain` node; `S0 = s` (`BC.Upd.refl'`) for the last step
  of the run of a change detector.)
* `recomputeOne_static_total2`: a run of the current node of the drain invariant, of a static kind or of kind `bindMain`, returns and keeps
  `HBo2`/`Room`.  For `bindMain` the right-hand side must be installed: hypothesis `hrhs`; `rhs_of_ran` derives it from the invariant `RhsRan`
  ("a valid change detector that has run has installed a right-hand side"), which is NOT part of `DInv`/`BGraph`/`F2Inv`.
* `rchRemoveMin_total2`.
-/
namespace IncrVerif.Proofs.NestH
open IncrVerif.Engine IncrVerif.Proofs IncrVerif.Proofs.Step IncrVerif.Proofs.Sched IncrVerif.Proofs.Quiet
open IncrVerif.Proofs.BindH
namespace T2b

/-- `maybe_change_value n v` run in a state `S0` of the `Upd` family of `s`: no panic -/
theorem mcv_noerr {env : Env} {fuel n : Nat} {v : Val} {s S0 s' : State} {e : Panic}
    (g : BGraph env s) (hi : HeapInv s) (hn : s.isNecessary n = true)
    (hfresh : ∀ p, p ∈ (s.nodeD n).parents.map (·.1) → (s.nodeD p).recomputedAt < s.stabNum)
    (hmax : ∀ m, s.isNecessary m = true → (s.nodeD m).height ≤ s.rch.maxAllowed)
    (hU : Upd n s S0) (hb : S0.binds = s.binds) (hf : 1 ≤ fuel)
    (h : (maybeChangeValue env fuel n v).run.run S0 = (.error e, s')) : False := by
  have hlt := g.nec_lt hn
  obtain ⟨-, hcut, -⟩ := g.node n hlt (g.nec n hn).1
  have hlt0 : n < S0.nodes.size := by rw [hU.size]; exact hlt
  have hn0 := some_of_lt hlt0
  have hcut0 : (S0.nodeD n).cutoff = .eq ∨ (S0.nodeD n).cutoff = .never := by
    rw [hU.shape.cutoff]; exact hcut
  generalize hW : setValue n (some v) (logged (mcvLog env S0 n v) S0) = W
  have hUW : Upd n s W := by rw [← hW]; exact (hU.logged _).setValue _
  have hbW : W.binds = s.binds := by rw [← hW]; exact hb
  rcases mcvChanges_static env S0 n v hcut0 with hd | ⟨hd, -⟩
  · rw [mcv_run' env fuel n v S0 _ hn0 hU.pc, hd] at h
    dsimp only at h
    rw [hW] at h
    have hltW : n < W.nodes.size := by rw [hUW.size]; exact hlt
    have hUT : Upd n s (touched n W) := hUW.touched
    have hbT : (touched n W).binds = s.binds := hbW
    have eT : (touched n W).nodeD n = { W.nodeD n with changedAt := W.stabNum } := by
      rw [touched_nodeD, if_pos ⟨rfl, hltW⟩]
    have hparT : ((touched n W).nodeD n).parents = (s.nodeD n).parents := hUT.shape.parents
    refine mcvm_noerr hltW (hUT.heap hi) ?_ hf h
    intro p hp
    rw [hparT] at hp
    have hfr := hfresh p hp
    obtain ⟨⟨p', ci⟩, hmem, rfl⟩ := List.mem_map.1 hp
    dsimp only at hfr ⊢
    obtain ⟨hpn, hci⟩ := g.parent n p' ci hmem
    have h1 := g.nec_lt hpn
    obtain ⟨h2, h5⟩ := g.nec p' hpn
    obtain ⟨h3, -, hkids⟩ := g.node p' h1 h2
    have hcm : n ∈ s.children p' := List.mem_of_getElem? hci
    have hne : p' ≠ n := g.edge_ne (Edge.child hcm)
    have ep : (touched n W).nodeD p' = s.nodeD p' := hUT.other p' hne
    have sh := hUT.shapeAll p'
    have hchT : (touched n W).children p' = s.children p' :=
      children_congr_kind sh.kind sh.valid hbT (fun e => h3.not_expert e)
    refine ⟨⟨by rw [hUT.size]; exact h1, by rw [sh.valid]; exact h2, by rw [sh.kind]; exact h3,
      by rw [hUT.nec]; exact hpn⟩, by rw [hchT]; exact hcm, by rw [hUT.size]; exact hlt, ?_,
      by rw [ep]; exact h5, by rw [ep, hUT.rch]; exact hmax p' hpn, ?_, ?_⟩
    · rw [ep, eT]
      show _ < W.stabNum
      rw [hUW.stabNum]; exact hfr
    · intro b hsc
      rw [ep] at hsc
      obtain ⟨br, k1, k2, -, -⟩ := g.scope p' b h1 h2 hsc
      exact ⟨br, by rw [hbT]; exact k1, by rw [hUT.size]; exact k2⟩
    · intro b lc hkd
      rw [ep] at hkd
      obtain ⟨br, hbr, -, -, -⟩ := g.mainRec p' b lc h1 h2 hkd
      have hlc : lc ∈ s.children p' := by
        simp only [State.children, BS.kind?_of_valid h2, hkd, hbr]
        exact List.mem_cons_self ..
      rw [hUT.size]
      exact (hkids lc hlc).1
  · rw [mcv_suppress env fuel n v S0 _ hn0 hU.pc hd] at h
    cases h

/-- a `recomputeOne` on a necessary node of a static kind or of kind `bindMain` (right-hand side installed), in a graph with binds at rest,
whose children all have values and whose parents have not been recomputed in this round: no panic -/
theorem recomputeOne_noerr {env : Env} {fuel n : Nat} {s s' : State} {e : Panic}
    (g : BGraph env s) (hi : HeapInv s) (hn : s.isNecessary n = true)
    (hfresh : ∀ p, p ∈ (s.nodeD n).parents.map (·.1) → (s.nodeD p).recomputedAt < s.stabNum)
    (hmax : ∀ m, s.isNecessary m = true → (s.nodeD m).height ≤ s.rch.maxAllowed)
    (hk : StaticKind env (s.nodeD n).kind ∨ ∃ b lc, (s.nodeD n).kind = .bindMain b lc)
    (hvals : ∀ c, c ∈ s.children n → ∃ v, (s.nodeD c).value = some v)
    (hrhs : ∀ b lc br, (s.nodeD n).kind = .bindMain b lc → s.binds[b]? = some br → br.rhs ≠ none)
    (hf : 1 ≤ fuel)
    (h : (recomputeOne env fuel n).run.run s = (.error e, s')) : False := by
  have hlt := g.nec_lt hn
  have hv := (g.nec n hn).1
  have hnn := some_of_lt hlt
  have hU := Upd.started n s g.pc
  have hb0 : (started n s).binds = s.binds := rfl
  rcases hk with hk | ⟨b, lc, hkd⟩
  · obtain ⟨vals, -, hvo⟩ := BS.vals_of_children g hlt hv hk hvals
    cases hkd : (s.nodeD n).kind with
    | const w =>
      rw [recomputeOne_const_run env fuel n s _ w hnn hv hkd] at h
      exact mcv_noerr g hi hn hfresh hmax hU hb0 hf h
    | var c =>
      obtain ⟨vc, hvc⟩ := g.var n c hlt hv hkd
      rw [recomputeOne_var_run env fuel n s _ c vc hnn hv hkd hvc] at h
      exact mcv_noerr g hi hn hfresh hmax hU hb0 hf h
    | map f args =>
      rw [hkd] at hk hvo
      by_cases hfz : f < fnZip
      · rw [recomputeOne_map_run env fuel n s _ f args vals hnn hv hkd hfz hvo (hk.2 hfz vals) g.pc] at h
        exact mcv_noerr g hi hn hfresh hmax (hU.logged _) hb0 hf h
      · rw [recomputeOne_mapBuiltin_run env fuel n s _ f args vals hnn hv hkd hfz hk.1 hvo] at h
        exact mcv_noerr g hi hn hfresh hmax hU hb0 hf h
    | fold f init cs =>
      rw [hkd] at hvo
      rw [recomputeOne_fold_run env fuel n s _ f init cs vals hnn hv hkd hvo g.pc] at h
      exact mcv_noerr g hi hn hfresh hmax (hU.logged _) hb0 hf h
    | mapRef _ _ => rw [hkd] at hk; exact hk.elim
    | mapWithOld _ _ => rw [hkd] at hk; exact hk.elim
    | bindLhsChange _ => rw [hkd] at hk; exact hk.elim
    | bindMain _ _ => rw [hkd] at hk; exact hk.elim
    | expert _ => rw [hkd] at hk; exact hk.elim
  · obtain ⟨br, hbr, -, -, -⟩ := g.mainRec n b lc hlt hv hkd
    cases hr : br.rhs with
    | none => exact hrhs b lc br hkd hbr hr
    | some r0 =>
      have hch : s.children n = [lc, r0] := by
        simp only [State.children, BS.kind?_of_valid hv, hkd, hbr, hr]
      have hmem : r0 ∈ s.children n := by rw [hch]; simp
      obtain ⟨hrlt, hrv⟩ := (g.node n hlt hv).2.2 r0 hmem
      obtain ⟨v, hval⟩ := hvals r0 hmem
      have hval' : s.value env r0 = some v := by
        rw [value_plain env s r0 (BS.BKind.not_mapRef (g.node r0 hrlt hrv).1)]; exact hval
      rw [recomputeOne_bindMain_run env fuel n s _ b lc r0 br _ v hnn hv hkd hbr hr (some_of_lt hrlt) hrv
        hval'] at h
      exact mcv_noerr g hi hn hfresh hmax hU hb0 hf h

/-- heights of necessary nodes are within the recompute heap's range -/
theorem hmax_of {env : Env} {rk : Nat → Nat} {N : Nat} {s : State} (g : BGraph env s) (hb : HBo2 rk s allClosed) (R : Room N s) :
    ∀ m, s.isNecessary m = true → (s.nodeD m).height ≤ s.rch.maxAllowed := by
  intro m hm
  rw [R.rch]
  exact hb.le_max R (g.nec_lt hm) hm rfl

end T2b

/-! ## the headline theorems -/

/-- **`maybe_change_value` is total**: `S0` is the state `s` at rest with node `n` updated (`Upd n s S0`: value / stamps of `n`, log, counters;
e.g. `started n s` with log events, or `s` itself), `n` necessary, the parents of `n` not yet recomputed in this round -/
theorem maybeChangeValue_total2 {env : Env} {rk : Nat → Nat} {N fuel n : Nat} {v : Val} {s S0 : State}
    (g : BGraph env s) (hi : HeapInv s) (hn : s.isNecessary n = true)
    (hfresh : ∀ p, p ∈ (s.nodeD n).parents.map (·.1) → (s.nodeD p).recomputedAt < s.stabNum)
    (hb : HBo2 rk s allClosed) (R : Room N s)
    (hU : Upd n s S0) (hbd : S0.binds = s.binds) (hf : 1 ≤ fuel) :
    Tot (maybeChangeValue env fuel n v) S0 (fun _ _ => True) :=
  T2b.tot_of_noerr fun _ _ h => T2b.mcv_noerr g hi hn hfresh (T2b.hmax_of g hb R) hU hbd hf h

/-- the invariant that makes the run of a main node total: a VALID change detector that has run has installed a right-hand side
(an invalidated change detector that never ran is stamped by `invalidateNode`, hence "valid") -/
def RhsRan (s : State) : Prop :=
  ∀ (b : Nat) (br : BindRec), s.binds[b]? = some br → (s.nodeD br.lhsChange).valid = true →
    (s.nodeD br.lhsChange).recomputedAt ≠ -1 → br.rhs ≠ none

/-- when the main node of a bind is the current node of the drain, its change detector is not stale, so it has run: the right-hand side is installed -/
theorem rhs_of_ran {env : Env} {rk : Nat → Nat} {s : State} {n : Nat} (I : DInv env s (some n)) (A : F2Inv env rk s)
    (H : RhsRan s) :
    ∀ b lc br, (s.nodeD n).kind = .bindMain b lc → s.binds[b]? = some br → br.rhs ≠ none := by
  intro b lc br hkd hbr
  have g := I.graph
  obtain ⟨hn, hlt, hv, -, -⟩ := I.cur_facts
  obtain ⟨br', hbr', -, hlc, -⟩ := g.mainRec n b lc hlt hv hkd
  rw [hbr] at hbr'; cases hbr'
  have hmem : lc ∈ s.children n := by
    simp only [State.children, BS.kind?_of_valid hv, hkd, hbr]
    exact List.mem_cons_self ..
  have he : Edge s n lc := Edge.child hmem
  obtain ⟨hcn, -⟩ := g.edge_nec hn he
  have hcv := (g.nec lc hcn).1
  have hst : s.isStale lc = false := by
    cases h : s.isStale lc with
    | false => rfl
    | true =>
      rcases I.pending lc hcn h with h1 | h1
      · rw [(I.cur n rfl).2 lc (Below.of_edge he)] at h1; cases h1
      · injection h1 with h1
        exact absurd h1 (g.edge_ne he)
  have hkl : (s.nodeD lc).kind = .bindLhsChange b := by
    have := (A.frag.recs b br hbr).2.2.1
    rw [hlc] at this; exact this
  apply H b br hbr (by rw [hlc]; exact hcv)
  rw [hlc]
  intro h1
  unfold State.isStale at hst
  simp only [Node.kind?, hcv, if_true, hkl, h1] at hst
  simp at hst

/-- **a run of a static or `bindMain` node is total** and keeps the height bound and the room -/
theorem recomputeOne_static_total2 {env : Env} {rk : Nat → Nat} {N fuel n : Nat} {s : State}
    (I : DInv env s (some n)) (hb : HBo2 rk s allClosed) (R : Room N s)
    (hk : StaticKind env (s.nodeD n).kind ∨ ∃ b lc, (s.nodeD n).kind = .bindMain b lc)
    (hrhs : ∀ b lc br, (s.nodeD n).kind = .bindMain b lc → s.binds[b]? = some br → br.rhs ≠ none)
    (hf : 1 ≤ fuel) :
    Tot (recomputeOne env fuel n) s (fun _ s' => HBo2 rk s' allClosed ∧ Room N s') := by
  have g := I.graph
  obtain ⟨hn, -, -, -, -⟩ := I.cur_facts
  have hfresh : ∀ p, p ∈ (s.nodeD n).parents.map (·.1) → (s.nodeD p).recomputedAt < s.stabNum := by
    intro p hp
    obtain ⟨⟨p', ci⟩, hmem, rfl⟩ := List.mem_map.1 hp
    have hci := (g.parent n p' ci hmem).2
    exact I.fresh p' n (Below.of_edge (Edge.child (List.mem_of_getElem? hci))) (Or.inr rfl)
  obtain ⟨r, s', hrun, -⟩ := T2b.tot_of_noerr (x := recomputeOne env fuel n) (s := s) fun _ _ h =>
    T2b.recomputeOne_noerr g I.heap hn hfresh (T2b.hmax_of g hb R) hk I.kids_values hrhs hf h
  refine ⟨r, s', hrun, ?_, ?_⟩
  all_goals
    obtain ⟨v, ch, -, Rl⟩ := recomputeOne_stepB g I.heap hn hk I.kids_values hrun
  · intro m hm _
    rw [Rl.nec m] at hm
    rw [(Rl.shapes m).height, Rl.size]
    exact hb m hm rfl
  · have K := BF.recomputeOne_keyD_B g hn hk I.kids_values hrun
    simp only [KeyD, stateKeyD, Prod.mk.injEq] at K
    obtain ⟨-, -, -, -, -, -, -, -, -, -, hahh⟩ := K
    exact ⟨by rw [hahh]; exact R.ahh, by rw [maxAllowed_congr Rl.qsize]; exact R.rch, by rw [Rl.size]; exact R.size⟩

/-- the same, with the right-hand side obtained from the invariant `RhsRan` -/
theorem recomputeOne_static_total2' {env : Env} {rk : Nat → Nat} {N fuel n : Nat} {s : State}
    (I : DInv env s (some n)) (A : F2Inv env rk s) (H : RhsRan s) (hb : HBo2 rk s allClosed) (R : Room N s)
    (hk : StaticKind env (s.nodeD n).kind ∨ ∃ b lc, (s.nodeD n).kind = .bindMain b lc) (hf : 1 ≤ fuel) :
    Tot (recomputeOne env fuel n) s (fun _ s' => HBo2 rk s' allClosed ∧ Room N s') :=
  recomputeOne_static_total2 I hb R hk (rhs_of_ran I A H) hf

/-- `RhsRan` is kept by a successful run of a static or `bindMain` node (`binds`, validity unchanged; stamps of change detectors untouched) -/
theorem recomputeOne_static_rhsRan {env : Env} {rk : Nat → Nat} {fuel n : Nat} {s s' : State} {r : Option Nat}
    (I : DInv env s (some n)) (A : F2Inv env rk s)
    (hk : StaticKind env (s.nodeD n).kind ∨ ∃ b lc, (s.nodeD n).kind = .bindMain b lc)
    (h : (recomputeOne env fuel n).run.run s = (.ok r, s')) (H : RhsRan s) : RhsRan s' := by
  have g := I.graph
  obtain ⟨hn, -, -, -, -⟩ := I.cur_facts
  obtain ⟨v, ch, -, Rl⟩ := recomputeOne_stepB g I.heap hn hk I.kids_values h
  intro b br hbr hv hrec
  rw [Rl.binds] at hbr
  rw [(Rl.shapes _).valid] at hv
  apply H b br hbr hv
  by_cases e : br.lhsChange = n
  · -- the node that ran is not a change detector
    exfalso
    have hkl := (A.frag.recs b br hbr).2.2.1
    rw [e] at hkl
    rcases hk with hk | ⟨b', lc', hk⟩
    · rw [hkl] at hk; exact hk
    · rw [hkl] at hk; cases hk
  · rw [(Rl.other _ e).recomputedAt] at hrec; exact hrec

/-- `RhsRan` is kept by `remove_min` -/
theorem pop_rhsRan {s s1 : State} {n : Nat} (hi : HeapInv s)
    (hr : rchRemoveMin.run.run s = (.ok (some n), s1)) (H : RhsRan s) : RhsRan s1 := by
  have hpop := rchRemoveMin_inv hi hr
  simp only at hpop
  obtain ⟨-, -, -, hs1, -⟩ := hpop
  have hnode : ∀ m, s1.nodeD m =
      if n = m ∧ m < s.nodes.size then { s.nodeD m with heightInRch := -1 } else s.nodeD m := by
    intro m
    rw [hs1]
    exact nodeD_modify { s with rch := s1.rch } n m (fun x => { x with heightInRch := -1 })
  have hb : s1.binds = s.binds := by rw [hs1]
  intro b br hbr hv hrec
  rw [hb] at hbr
  apply H b br hbr
  · rw [hnode] at hv; split at hv <;> exact hv
  · rw [hnode] at hrec; split at hrec <;> exact hrec

/-- **`remove_min` is total** under the heap invariant -/
theorem rchRemoveMin_total2 {s : State} (hi : HeapInv s) : Tot rchRemoveMin s (fun _ _ => True) := by
  obtain ⟨r, s1, h⟩ := rchRemoveMin_ok hi
  exact ⟨r, s1, h, trivial⟩

end IncrVerif.Proofs.NestH
