import IncrVerif.Proofs.PerKeyH13
/-!
# A run of a per-key change detector, part 6a: the run, split (`lc_run_split`), and `LcBase` from the hypotheses of
`LcStepSpec` (`lcbase_of`)
-/
namespace IncrVerif.Proofs.PerKeyH
open IncrVerif.Engine IncrVerif.Driver IncrVerif.Proofs IncrVerif.Proofs.Step IncrVerif.Proofs.Sched
open IncrVerif.Proofs.ExpertH IncrVerif.Proofs.EffH IncrVerif.Proofs.DriverH IncrVerif.Proofs.ExpertH.QR

/-- master equation of `recomputeOne` on a per-key change detector -/
theorem recomputeOne_perKey_run (env : Env) (fuel n : Nat) (s : State) (nd : Node) (f : Nat)
    (args : List Nat) (vals : List Val)
    (hn : s.nodes[n]? = some nd) (hv : nd.valid = true) (hk : nd.kind = .map f args)
    (hf : fnPerKey ≤ f) (hvals : valuesOf env s args = some vals) :
    (recomputeOne env fuel n).run.run s =
      (do (match vals.headD .unit with
            | .map m => perKeyDriver env fuel (f - fnPerKey) m
            | _ => perKeyDriver env fuel (f - fnPerKey) [])
          maybeChangeValue env fuel n .unit).run.run (started n s) := by
  have hk? : ({ nd with recomputedAt := s.stabNum } : Node).kind? = some (.map f args) := by
    simp [Node.kind?, hv, hk]
  have hvals' : valuesOf env (started n s) args = some vals := by
    rw [valuesOf_congr env s (started n s) args (fun a _ => started_value env n s a)]; exact hvals
  have hn' := started_getElem? n s nd hn
  have hz : ¬ f < fnZip := by unfold fnZip; unfold fnPerKey at hf; omega
  unfold recomputeOne
  simp only [run_bind_get]
  cases hd : s.cfg.debug
  all_goals
    simp only [started, hd, Bool.false_eq_true, if_false, if_true, run_bind_modify,
      run_bind_bumpCounter, run_bind_get, run_bind_modNode] at hn' hvals' ⊢
    rw [run_bind_ok (run_getNode_some hn'), hk?]
    dsimp only
    rw [run_bind_of (run_mapM_valueUnwrap env _ _ args), hvals']
    dsimp only
    rw [if_neg hz, if_pos (show f ≥ fnPerKey from hf)]
    cases vals.headD Val.unit <;> rfl

/-- `LcBase` from the hypotheses of `LcStepSpec` -/
theorem lcbase_of {env : Env} {s : State} {n op : Nat} {args : List Nat} (D : PD env s (some n)) (N : NoRem s)
    (hk : (s.nodeD n).kind = .map (fnPerKey + op) args) :
    ∃ pr eres, LcBase env s n op pr eres := by
  have hnec : s.isNecessary n = true := by
    rw [← V_isNecessary]; exact (D.inv.cur n rfl).1
  have hlt : n < s.nodes.size := nec_lt s n hnec
  obtain ⟨pr, hop, hn⟩ := D.aux.pk.lcs n _ args hlt hk (Nat.le_add_right _ _)
  rw [Nat.add_sub_cancel_left] at hop
  obtain ⟨x, e, er, hN, -⟩ := (D.aux.pk.ops op pr hop).nodes
  exact ⟨pr, e, D, N, hop, hn, hN.result⟩

/-- **the run, split** -/
theorem lc_run_split {env : Env} {s s' : State} {n op eres fuel : Nat} {pr : PerKeyRec} {args : List Nat}
    {r : Option Nat} (B : LcBase env s n op pr eres) (hk : (s.nodeD n).kind = .map (fnPerKey + op) args)
    (h : (recomputeOne env fuel n).run.run s = (.ok r, s')) :
    ∃ m s2, args = [pr.result - 1] ∧ (s.nodeD (pr.result - 1)).value = some (.map m) ∧ IncrVerif.AMap.Sorted m ∧
      (perKeyDriver env fuel op m).run.run (started n s) = (.ok (), s2) ∧
      (maybeChangeValue env fuel n .unit).run.run s2 = (.ok r, s') := by
  have D := B.pd
  have F := D.aux.frag
  obtain ⟨x, e, er, hN, -⟩ := (D.aux.pk.ops op pr B.hop).nodes
  have hnr : n = pr.result + 1 := by rw [← B.hn]; exact hN.lc
  have hlt : n < s.nodes.size := by have := hN.lt; omega
  have hargs : args = [pr.result - 1] := by
    have h1 := hN.lcKind
    rw [← hnr, hk] at h1
    injection h1 with _ h2
  have hnd := some_of_lt hlt
  have hval := F.valid n hlt
  obtain ⟨vals, hvals⟩ := recomputeOne_ok_vals hnd hval (Or.inl ⟨_, hk⟩) h
  rw [recomputeOne_perKey_run env fuel n s _ _ args vals hnd hval hk (Nat.le_add_right _ _) hvals,
    Nat.add_sub_cancel_left] at h
  -- the value of the conversion node
  have hconvk : ∀ p i, (s.nodeD (pr.result - 1)).kind ≠ .mapRef p i := by
    intro p i hh; rw [hN.conv] at hh; cases hh
  rw [hargs] at hvals
  simp only [valuesOf] at hvals
  cases hv1 : s.value env (pr.result - 1) with
  | none => rw [hv1] at hvals; cases hvals
  | some v =>
    rw [hv1] at hvals
    simp only [Option.some.injEq] at hvals
    rw [value_plain env s _ hconvk] at hv1
    obtain ⟨m, hm, hsorted⟩ := D.aux.pk.maps op pr B.hop v hv1
    subst hm
    subst hvals
    simp only [List.headD_cons] at h
    obtain ⟨u, s2, h1, h2⟩ := bind_ok_inv h
    exact ⟨m, s2, hargs, hv1, hsorted, h1, h2⟩

end IncrVerif.Proofs.PerKeyH
