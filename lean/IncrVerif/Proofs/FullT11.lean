import IncrVerif.Proofs.FullT10
/-!
# C04 combined fragment: the bisimulation for node creation, part 2
(`elabInstr`, `elabInstrM`, `elabTemplate`; twin of `Proofs/FullH13`)
-/
namespace IncrVerif.Proofs.FullT
set_option linter.unusedSectionVars false
open IncrVerif.Engine IncrVerif.Proofs IncrVerif.Proofs.Step IncrVerif.Proofs.Sched IncrVerif.Proofs.Quiet IncrVerif.Proofs.FullH

section
variable {env : Env} {sp : Nat → Val → Val} {P : State → Prop} [KeepsG P] {g : Nat → Option Val}

/-- `some <$> createNode k sc c` for a kind that is not `mapRef` -/
macro "bcr_node" : tactic => `(tactic|
  exact BSimAt.map _ (BSimAt.createNode' _ _ rfl rfl
    (by first | trivial | assumption | exact ⟨by decide, fun h => absurd h (by decide)⟩)
    (fun p i h => by cases h) (by first | exact Or.inl rfl | exact Or.inr (Or.inr ⟨_, _, rfl, rfl⟩))))

/-- **virtualisation commutes with the elaboration of an instruction, both ways** -/
theorem BSimAt.elabInstr {s : State} (loc : List Nat) (v : Val) (i : Instr) (hi : InstrS env sp i)
    (hop : ∀ o ∈ InstrOpnds i, OpndS o) (ht : TopLt s) (hl : ∀ m ∈ loc, m < s.nodes.size) :
    BSimAt (FK env sp) P g s (Engine.elabInstr loc v i) (Engine.elabInstr loc v (virtI i)) := by
  unfold Engine.elabInstr
  cases i <;> simp only [InstrS] at hi <;> simp only [virtI] <;> refine BSimAt.get_seq ?_ <;> try fnorm
  case const v => bcr_node
  case lhsConst => bcr_node
  case var v => exact BSimAt.map _ (BSim.createVar v .top s)
  case map f args =>
    refine BSimAt.ro_seq (Step.Pres.mapM (fun a => SC.RO.resolveOpnd loc a) args)
      (BSim.mapM (fun a => BSim.resolveOpnd loc a) args s) fun as _ => ?_
    bcr_node
  case fold f init cs =>
    refine BSimAt.ro_seq (Step.Pres.mapM (fun a => SC.RO.resolveOpnd loc a) cs)
      (BSim.mapM (fun a => BSim.resolveOpnd loc a) cs s) fun as _ => ?_
    refine BSimAt.cond Iff.rfl (fun _ => ?_) (fun _ => ?_) <;> bcr_node
  case mapRef p o =>
    simp only [List.mapM_cons, List.mapM_nil, bind_assoc, pure_bind]
    refine BSimAt.ro_seq (SC.RO.resolveOpnd loc o) (BSim.resolveOpnd loc o s) fun x hx => ?_
    have hlt : x < s.nodes.size := SC.resolveOpnd_lt (hop o (by simp [InstrOpnds])) ht hl hx
    exact BSimAt.map _ (BSimAt.createNode' _ _ rfl rfl hi (fun p' i' h => by cases h; exact hlt) (Or.inl rfl))
  case mapWithOld m o =>
    simp only [List.mapM_cons, List.mapM_nil, bind_assoc, pure_bind]
    refine BSimAt.ro_seq (SC.RO.resolveOpnd loc o) (BSim.resolveOpnd loc o s) fun x _ => ?_
    bcr_node
  case bind b o =>
    refine BSimAt.ro_seq (SC.RO.resolveOpnd loc o) (BSim.resolveOpnd loc o s) fun x _ => ?_
    exact BSimAt.map _ (BSimAt.createBind b x)
  case zip a b =>
    refine BSimAt.ro_seq (SC.RO.resolveOpnd loc a) (BSim.resolveOpnd loc a s) fun x _ => ?_
    refine BSimAt.ro_seq (SC.RO.resolveOpnd loc b) (BSim.resolveOpnd loc b s) fun y _ => ?_
    refine BSimAt.ro_seq (SC.RO.isConstant x) (BSim.isConstant x s) fun cx _ => ?_
    refine BSimAt.ro_seq (SC.RO.isConstant y) (BSim.isConstant y s) fun cy _ => ?_
    split <;> bcr_node
  case dependOn a b =>
    simp only [List.mapM_cons, List.mapM_nil, bind_assoc, pure_bind]
    refine BSimAt.ro_seq (SC.RO.resolveOpnd loc a) (BSim.resolveOpnd loc a s) fun x _ => ?_
    refine BSimAt.ro_seq (SC.RO.resolveOpnd loc b) (BSim.resolveOpnd loc b s) fun y _ => ?_
    bcr_node

theorem BSimAt.elabInstrM {s : State} (loc : List Nat) (v : Val) (i : Instr) (hi : InstrS env sp i)
    (hop : ∀ o ∈ InstrOpnds i, OpndS o) (ht : TopLt s) (hl : ∀ m ∈ loc, m < s.nodes.size) :
    BSimAt (FK env sp) P g s (Engine.elabInstrM env loc v i) (Engine.elabInstrM (VE env sp) loc v (virtI i)) := by
  rw [elabInstrM_eq _ _ _ hi, elabInstrM_virt_eq _ _ _ hi]
  exact BSimAt.elabInstr loc v i hi hop ht hl

/-- the form the API action `create` needs: top-level scope, no locals -/
theorem BSimAt.elabInstrM_top {s : State} (v : Val) (i : Instr) (hi : InstrS env sp i)
    (hop : ∀ o ∈ InstrOpnds i, OpndS o) (ht : TopLt s) :
    BSimAt (FK env sp) P g s (Engine.elabInstrM env [] v i) (Engine.elabInstrM (VE env sp) [] v (virtI i)) :=
  BSimAt.elabInstrM [] v i hi hop ht (fun m hm => by cases hm)

theorem BSimAt.elabInstr_top {s : State} (v : Val) (i : Instr) (hi : InstrS env sp i)
    (hop : ∀ o ∈ InstrOpnds i, OpndS o) (ht : TopLt s) :
    BSimAt (FK env sp) P g s (Engine.elabInstr [] v i) (Engine.elabInstr [] v (virtI i)) :=
  BSimAt.elabInstr [] v i hi hop ht (fun m hm => by cases hm)

/-! ## `elabTemplate` -/

/-- the loop of `elabTemplate`: same locals on both sides; invariant `TopLt` and "the locals are nodes" -/
theorem bsim_loop (v : Val) (l : List Instr) : ∀ (loc : List Nat) (s : State),
    (∀ i ∈ l, InstrS env sp i ∧ ∀ o ∈ InstrOpnds i, OpndS o) → TopLt s → (∀ m ∈ loc, m < s.nodes.size) →
    BSimAt (FK env sp) P g s
      (forIn l loc fun i r => do
        let x ← Engine.elabInstrM env r v i
        match x with
        | some n => pure (ForInStep.yield (r ++ [n]))
        | none => pure (ForInStep.yield r))
      (forIn (l.map virtI) loc fun i r => do
        let x ← Engine.elabInstrM (VE env sp) r v i
        match x with
        | some n => pure (ForInStep.yield (r ++ [n]))
        | none => pure (ForInStep.yield r)) := by
  induction l with
  | nil => intro loc s _ _ _; rw [List.map_nil, List.forIn_nil, List.forIn_nil]; exact BSimAt.ret _
  | cons i l ih =>
    intro loc s hI ht hl
    have hi := hI i List.mem_cons_self
    rw [List.map_cons, List.forIn_cons, List.forIn_cons]
    refine BSimAt.seq (BSimAt.seq (BSimAt.elabInstrM loc v i hi.1 hi.2 ht hl) fun ro s1 _ => ?_) fun r s1 h1 => ?_
    · cases ro <;> exact BSimAt.ret _
    · obtain ⟨ro, s2, h2, h3⟩ := bind_ok_inv h1
      rw [elabInstrM_eq _ _ _ hi.1] at h2
      obtain ⟨htop, hsz, n, rfl, hn⟩ := SC.CrO.elabInstr loc v hi.1 s ro s2 h2
      have ht2 : TopLt s2 := fun k r hk => Nat.lt_of_lt_of_le (ht k r (by rw [← htop]; exact hk)) hsz
      have hl2 : ∀ m ∈ loc ++ [n], m < s2.nodes.size := by
        intro m hm
        rcases List.mem_append.1 hm with hm | hm
        · exact Nat.lt_of_lt_of_le (hl m hm) hsz
        · rw [List.mem_singleton.1 hm]; exact hn
      obtain ⟨rfl, rfl⟩ := pure_ok_inv h3
      exact ih _ _ (fun j hj => hI j (List.mem_cons_of_mem _ hj)) ht2 hl2

/-- **virtualisation commutes with the elaboration of a template, both ways** -/
theorem BSimAt.elabTemplate {s : State} (t : Template) (v : Val)
    (hi : ∀ i ∈ t.instrs, InstrS env sp i ∧ ∀ o ∈ InstrOpnds i, OpndS o) (_hr : OpndS t.ret) (ht : TopLt s) :
    BSimAt (FK env sp) P g s (Engine.elabTemplate env t v) (Engine.elabTemplate (VE env sp) (virtT t) v) := by
  unfold Engine.elabTemplate
  exact BSimAt.seq (bsim_loop v t.instrs [] s hi ht (fun m hm => by cases hm)) fun loc s1 _ =>
    BSim.resolveOpnd loc t.ret s1

/-! ## the instances for `PInv`, and totality transfer -/

theorem BSimAt.elabTemplate_PInv {s : State} (t : Template) (v : Val)
    (hi : ∀ i ∈ t.instrs, InstrS env sp i ∧ ∀ o ∈ InstrOpnds i, OpndS o) (hr : OpndS t.ret) (ht : TopLt s) :
    BSimAt (FK env sp) PInv g s (Engine.elabTemplate env t v) (Engine.elabTemplate (VE env sp) (virtT t) v) :=
  BSimAt.elabTemplate t v hi hr ht

theorem BSimAt.elabInstrM_PInv {s : State} (loc : List Nat) (v : Val) (i : Instr) (hi : InstrS env sp i)
    (hop : ∀ o ∈ InstrOpnds i, OpndS o) (ht : TopLt s) (hl : ∀ m ∈ loc, m < s.nodes.size) :
    BSimAt (FK env sp) PInv g s (Engine.elabInstrM env loc v i) (Engine.elabInstrM (VE env sp) loc v (virtI i)) :=
  BSimAt.elabInstrM loc v i hi hop ht hl

end
end IncrVerif.Proofs.FullT
