import IncrVerif.Proofs.NestH46
/-!
# Nested binds (F2), part 4c-4: creation of a static top-level node keeps `QInv2` (under the extended rank)

The monadic part (`C2c.createNode_made`, `C2c.createVar_made`, `C2c.createBind_made`, `C2c.elab_static1`, `C2c.elab_bind1`, BindH84) and the facts about
`C2c.Made` that do not mention the invariant (`size`, `nodeD_new`, `children_new`, `stale_new`, `varsOK`, BindH85) are reused unchanged.
-/
namespace IncrVerif.Proofs.NestH
open IncrVerif.Engine IncrVerif.Driver IncrVerif.Proofs IncrVerif.Proofs.Step IncrVerif.Proofs.Sched IncrVerif.Proofs.Quiet
open IncrVerif.Proofs.BindH

namespace N4c

/-- what the naming table says about an operand -/
theorem top_entry2 {env : Env} {rk : Nat → Nat} {s : State} (Q : QInv2 env rk s) {j c : Nat} (h : s.top[j]? = some c) :
    c < s.nodes.size ∧ (s.nodeD c).createdIn = .top ∧ (∀ b', (s.nodeD c).kind ≠ .bindLhsChange b') ∧
      (s.nodeD c).valid = true := by
  obtain ⟨h1, h2, h3⟩ := Q.f2.topOK j c h
  exact ⟨h1, h2, h3, ((Q.struct.frag.node c h1).top h2).1⟩

section
variable {env : Env} {rk rk' : Nat → Nat} {k : Kind} {s s1 : State}

/-- the static facts about the new node -/
theorem made_n2_new (C : C2c.Made k s s1) (Q : QInv2 env rk s) (U : RkUp rk rk' s.nodes.size) (hk : StaticKind env k)
    (hkids : ∀ c, c ∈ kids k → ∃ j : Nat, s.top[j]? = some c) : N2 env rk' s1 [] s.nodes.size := by
  have E := C.ext
  have hch := C.children_new hk
  have hkind : (s1.nodeD s.nodes.size).kind = k := by rw [C.nodeD_new]; rfl
  have notLc : ∀ b, k ≠ .bindLhsChange b := by
    intro b e; rw [e] at hk; exact hk
  have notMain : ∀ b lc, k ≠ .bindMain b lc := by
    intro b lc e; rw [e] at hk; exact hk
  have kid : ∀ c, c ∈ s1.children s.nodes.size →
      c < s.nodes.size ∧ (s1.nodeD c).createdIn = .top ∧ (∀ b', (s1.nodeD c).kind ≠ .bindLhsChange b') ∧
        (s1.nodeD c).valid = true := by
    intro c hc
    rw [hch] at hc
    obtain ⟨j, hj⟩ := hkids c hc
    obtain ⟨h1, h2, h3, h4⟩ := top_entry2 Q hj
    rw [E.old c h1]
    exact ⟨h1, h2, h3, h4⟩
  refine ⟨?_, ?_, ?_, ?_, ?_, ?_, ?_, ?_, ?_, ?_⟩
  · rw [hkind]
    cases k <;> first | exact hk | exact hk.elim
  · rw [C.nodeD_new]; exact Or.inl rfl
  · intro c hc
    have := (kid c hc).1
    rw [C.size]; omega
  · intro c hc; exact (kid c hc).2.2.2
  · intro c hc; exact U.above c _ (kid c hc).1 (Nat.le_refl _)
  · intro b h
    rw [hkind] at h; exact absurd h (notLc b)
  · intro b lc h
    rw [hkind] at h; exact absurd h (notMain b lc)
  · intro c b hc h
    exact absurd h ((kid c hc).2.2.1 b)
  · intro _
    refine ⟨by rw [C.nodeD_new]; rfl, fun c hc => Or.inl (kid c hc).2.1⟩
  · intro b h
    rw [C.nodeD_new] at h; cases h

/-- the checks on the new node for a static creation, after the node has been entered in the naming table -/
theorem made_newOK2 (C : C2c.Made k s s1) (Q : QInv2 env rk s) (U : RkUp rk rk' s.nodes.size) (hk : StaticKind env k)
    (hkids : ∀ c, c ∈ kids k → ∃ j : Nat, s.top[j]? = some c) (hd : List Nat) :
    NewOK2 env rk' s { s1 with top := s1.top.push s.nodes.size, handles := hd } := by
  have E := C.ext
  -- the static facts, child lists and staleness do not read the naming table
  have hN : N2 env rk' { s1 with top := s1.top.push s.nodes.size, handles := hd } [] s.nodes.size := by
    have h := made_n2_new C Q U hk hkids
    exact ⟨h.kind, h.cutoff, h.kidsIn, h.kidsValid, h.kidLt, h.lcRec, h.mainRec, h.lcChild, h.top, h.inScope⟩
  have hS : State.isStale { s1 with top := s1.top.push s.nodes.size, handles := hd } s.nodes.size = true :=
    C.stale_new Q.now hk
  have hV : VarsOK { s1 with top := s1.top.push s.nodes.size, handles := hd } := by
    have h := C.varsOK Q.vars
    exact ⟨h.node, h.cell⟩
  have hkind : (s1.nodeD s.nodes.size).kind = k := by rw [C.nodeD_new]; rfl
  refine ⟨?_, ?_, ?_, ?_, hV, ?_⟩
  · intro n h1 h2
    have h2' : n < s1.nodes.size := h2
    rw [C.size] at h2'
    have : n = s.nodes.size := by omega
    rw [this]; exact hN
  · intro n h1 h2
    have h2' : n < s1.nodes.size := h2
    rw [C.size] at h2'
    have : n = s.nodes.size := by omega
    rw [this]; exact hS
  · intro n b h1 h
    exfalso
    have h' : (s1.nodeD n).kind = .bindLhsChange b := h
    by_cases e : n = s.nodes.size
    · rw [e, hkind] at h'
      rw [h'] at hk; exact hk
    · rw [nodeD_default s1 n (by rw [C.size]; omega)] at h'
      cases h'
  · intro b br h1 h
    exfalso
    have h' : s1.binds[b]? = some br := h
    rw [C.binds, Array.getElem?_eq_none h1] at h'
    cases h'
  · refine ⟨s.nodes.size, ?_, Nat.le_refl _, ?_, ?_⟩
    · show s1.top.push _ = _
      rw [C.top]
    · show s.nodes.size < s1.nodes.size
      rw [C.size]; omega
    · intro b h
      have h' : (s1.nodeD s.nodes.size).kind = .bindLhsChange b := h
      rw [hkind] at h'
      rw [h'] at hk; exact hk

end
end N4c
end IncrVerif.Proofs.NestH
