import IncrVerif.Proofs.FullT16
import IncrVerif.Proofs.FullT19
import IncrVerif.Proofs.NestH87
/-!
# C04 combined fragment: THE OWN STEP OF A `map_with_old` NODE returns, and keeps the totality invariants
-/
namespace IncrVerif.Proofs.FullT
open IncrVerif.Engine IncrVerif.Proofs IncrVerif.Proofs.Step IncrVerif.Proofs.Sched IncrVerif.Proofs.Quiet IncrVerif.Proofs.FullH
open IncrVerif.Proofs.BindH (DInv BGraph StepRelB Edge Below TargetB ConsistentB BKind FrameB)
open IncrVerif.Proofs.NestH (AuxS2 Aux2 GenOK2 F2Inv DT HBo2 RhsRan Lim cnt)
open IncrVerif.Proofs.MapOldH (enc mwoX mwoX_nodeD mwoX_size MReach GoodMachine setValue_nodeD_with setValue_size setValue_changedAt)
open IncrVerif.Proofs.MapRefH (ValFrame)

/-- a propagating `maybe_change_value_manual` run in a state `W` of the `Upd n s` family of a state `s` at rest: no panic
(the second half of `NestH.T2b.mcv_noerr`) -/
theorem mcvm_upd_noerr {env : Env} {fuel n : Nat} {o : Option Val} {s W s' : State} {e : Panic}
    (g : BGraph env s) (hi : HeapInv s) (hn : s.isNecessary n = true)
    (hfresh : ∀ p, p ∈ (s.nodeD n).parents.map (·.1) → (s.nodeD p).recomputedAt < s.stabNum)
    (hmax : ∀ m, s.isNecessary m = true → (s.nodeD m).height ≤ s.rch.maxAllowed)
    (hUW : Upd n s W) (hbW : W.binds = s.binds) (hf : 1 ≤ fuel)
    (h : (maybeChangeValueManual env fuel n o true true).run.run W = (.error e, s')) : False := by
  have hlt := g.nec_lt hn
  have hltW : n < W.nodes.size := by rw [hUW.size]; exact hlt
  have hUT : Upd n s (touched n W) := hUW.touched
  have hbT : (touched n W).binds = s.binds := hbW
  have eT : (touched n W).nodeD n = { W.nodeD n with changedAt := W.stabNum } := by
    rw [touched_nodeD, if_pos ⟨rfl, hltW⟩]
  have hparT : ((touched n W).nodeD n).parents = (s.nodeD n).parents := hUT.shape.parents
  refine NestH.T2b.mcvm_noerr hltW (hUT.heap hi) ?_ hf h
  intro p hp
  rw [hparT] at hp
  have hfr := hfresh p hp
  obtain ⟨⟨p', ci⟩, hmem, rfl⟩ := List.mem_map.1 hp
  dsimp only at hfr ⊢
  obtain ⟨hpn, hci⟩ := g.parent n p' ci hmem
  have h1 := g.nec_lt hpn
  obtain ⟨h2, h5⟩ := g.nec p' hpn
  obtain ⟨h3, -, hkids⟩ := g.node p' h1 h2
  have hcm : n ∈ s.children p' := List.mem_of_getElem? hci
  have hne : p' ≠ n := g.edge_ne (Edge.child hcm)
  have ep : (touched n W).nodeD p' = s.nodeD p' := hUT.other p' hne
  have sh := hUT.shapeAll p'
  have hchT : (touched n W).children p' = s.children p' :=
    BindH.children_congr_kind sh.kind sh.valid hbT (fun e => h3.not_expert e)
  refine ⟨⟨by rw [hUT.size]; exact h1, by rw [sh.valid]; exact h2, by rw [sh.kind]; exact h3,
    by rw [hUT.nec]; exact hpn⟩, by rw [hchT]; exact hcm, by rw [hUT.size]; exact hlt, ?_,
    by rw [ep]; exact h5, by rw [ep, hUT.rch]; exact hmax p' hpn, ?_, ?_⟩
  · rw [ep, eT]
    show _ < W.stabNum
    rw [hUW.stabNum]; exact hfr
  · intro b hsc
    rw [ep] at hsc
    obtain ⟨br, k1, k2, -, -⟩ := g.scope p' b h1 h2 hsc
    exact ⟨br, by rw [hbT]; exact k1, by rw [hUT.size]; exact k2⟩
  · intro b lc hkd
    rw [ep] at hkd
    obtain ⟨br, hbr, -, -, -⟩ := g.mainRec p' b lc h1 h2 hkd
    have hlc : lc ∈ s.children p' := by
      simp only [State.children, BindH.BS.kind?_of_valid h2, hkd, hbr]
      exact List.mem_cons_self ..
    rw [hUT.size]
    exact (hkids lc hlc).1

variable {env : Env} {sp : Nat → Val → Val}

/-- **the own step of a `map_with_old` node returns** and keeps `PInv` -/
theorem step_mwo_returns (C : McvmC (FK env sp) env sp) {t s : State} {g : Nat → Option Val} {N fuel n m i : Nat}
    (D : DInvF env sp t s g (some n)) (hP : PInv s) (T : NestH.DT (VE env sp) N (virt g s)) (hroom : s.nodes.size ≤ N)
    (hk : (s.nodeD n).kind = .mapWithOld m i) (hf : s.nodes.size ≤ fuel) (hf1 : 1 ≤ fuel) :
    ∃ r s', (recomputeOne env fuel n).run.run s = (.ok r, s') ∧ PInv s' := by
  have F := D.frag
  have I := D.inv
  have gr := I.graph
  have hi := I.heap
  obtain ⟨hnnec, hltv, hnvv, -, -⟩ := I.cur_facts
  have hlt := F.lt_of_mwo hk
  have hnv : (s.nodeD n).valid = true := by rw [virt_nodeD, virtNode_valid] at hnvv; exact hnvv
  have hnm : ∀ p i', (s.nodeD n).kind ≠ .mapRef p i' := by intro p i'; rw [hk]; intro e; cases e
  -- the input
  have hci : i ∈ s.children n := by rw [children_mwo hnv hk]; exact List.mem_singleton.2 rfl
  obtain ⟨-, hsome⟩ := kids_settled D i hci
  obtain ⟨x, hxv⟩ := Option.isSome_iff_exists.1 hsome
  -- the master equation
  obtain ⟨es, hrun⟩ := MapOldH.recomputeOne_mwo_run env fuel n s (s.nodeD n) m i x (some_of_lt hlt) hnv hk hxv F.pc
  generalize env.withOld m (s.nodeD n).oldState (s.nodeD n).value x = w at hrun
  rw [hrun]
  have hXe : setWithOld n w.2.1 w.1 (logged es (started n s)) = mwoX n w.2.1 w.1 es s := rfl
  rw [hXe]
  have hX := fun k => mwoX_nodeD n k w.2.1 w.1 es s hlt
  have VF : ValFrame n s (mwoX n w.2.1 w.1 es s) := MW.mwoX_valFrame n w.2.1 w.1 es hlt
  have hXn : (mwoX n w.2.1 w.1 es s).nodeD n =
      { s.nodeD n with recomputedAt := s.stabNum, value := some w.2.1, oldState := w.1 } := by
    rw [hX, if_pos rfl]
  have pX : PInv (mwoX n w.2.1 w.1 es s) :=
    hP.of_nodeD VF.size VF.kind (fun k y hy => by rw [VF.parents] at hy; exact hy)
  cases hdid : w.2.2 with
  | false => exact ⟨none, _, run_mcvm_false .., pX⟩
  | true =>
    have FX : FFrag env sp g (mwoX n w.2.1 w.1 es s) := F.of_valFrame VF
    have hXk : ∀ p i', ((mwoX n w.2.1 w.1 es s).nodeD n).kind ≠ .mapRef p i' := by intro p i'; rw [VF.kind]; exact hnm p i'
    have mX : MRPV (mwoX n w.2.1 w.1 es s) := by
      have M := mrpv_of_bgraph gr
      intro c pr j p i' hkc hvc hx
      rw [VF.valid]
      exact M c pr j p i' (by rw [← VF.kind]; exact hkc) (by rw [← VF.valid]; exact hvc) (by rw [← VF.parents]; exact hx)
    have hUself : Upd n (virt g s) (virt g (mwoX n w.2.1 w.1 es s)) :=
      MW.mwoX_upd (virt g s) hlt F.pc (fun k => ⟨_, rfl⟩) (fun _ _ => rfl) (virt_size g s) rfl rfl rfl
    obtain ⟨rk, A, hb, H, L⟩ := T
    have R := L.room (s := virt g s) (by rw [virt_size]; exact hroom)
    have hfresh : ∀ p, p ∈ ((virt g s).nodeD n).parents.map (·.1) → ((virt g s).nodeD p).recomputedAt < (virt g s).stabNum := by
      intro p hp
      obtain ⟨⟨p', ci⟩, hmem, rfl⟩ := List.mem_map.1 hp
      have hci := (gr.parent n p' ci hmem).2
      exact I.fresh p' n (Below.of_edge (Edge.child (List.mem_of_getElem? hci))) (Or.inr rfl)
    obtain ⟨r, t', hv, -⟩ := NestH.T2b.tot_of_noerr (x := maybeChangeValueManual (VE env sp) fuel n none true true)
      (s := virt g (mwoX n w.2.1 w.1 es s)) fun e s' h =>
        mcvm_upd_noerr gr hi hnnec hfresh (NestH.T2b.hmax_of gr hb R) hUself rfl hf1 h
    obtain ⟨s', hs', -, -, -, p'⟩ := (C g fuel n none none true _ hXk (by rw [hXn]; rfl) mX
      (by rw [VF.size]; exact hf) hf1).rev FX.fr pX hv
    exact ⟨r, s', hs', p'⟩

/-! ## the totality invariant `DT` through the step -/

/-- the patch device for `DT`: it does not read stored values -/
theorem DT.patch {env : Env} {N n : Nat} {S : State} (u : Option Val) (T : DT env N S) : DT env N (setValue n u S) := by
  obtain ⟨rk, A, hb, H, L⟩ := T
  refine ⟨rk, MW.F2Inv.patch u A, ?_, ?_, ⟨L.ahh, L.rch⟩⟩
  · intro m hm ho
    rw [MapOldH.setValue_isNecessary] at hm
    rw [(MapOldH.setValue_shape n u S m).height, MapOldH.setValue_size]
    exact hb m hm ho
  · intro b br hbr hv hrec
    rw [MW.setValue_valid] at hv
    rw [MapOldH.setValue_recomputedAt] at hrec
    exact H b br hbr hv hrec

/-- the frames of the step, seen from the patched pre-state -/
theorem vfr_patch {n : Nat} {S S' : State} (u : Option Val) (Fv : MR.VFr S S') : MR.VFr (setValue n u S) S' := by
  refine ⟨Fv.key, fun m => by rw [Fv.hah m, MW.setValue_heightInAhh], fun m => by rw [Fv.num m, MW.setValue_num], ?_⟩
  refine BindH.C2k.DK.trans ?_ Fv.dk
  refine ⟨rfl, rfl, rfl, rfl, rfl, rfl, rfl, rfl, fun h => ⟨fun m => by rw [← MW.setValue_num (n := n) u m]; exact h m, rfl⟩,
    by rw [MapOldH.setValue_size]; exact Nat.le_refl _, fun m _ => ?_, fun m h1 h2 => ?_⟩
  · obtain ⟨w, e⟩ := MapOldH.setValue_nodeD_with n u S m
    rw [e]; exact ⟨rfl, rfl, rfl⟩
  · rw [MapOldH.setValue_size] at h1; omega

/-- `DT` after a step described by `StepRelB` from a (possibly patched) pre-state -/
theorem dt_finish {env : Env} {N n : Nat} {v : Val} {ch : Bool} {r : Option Nat} {S P S' : State}
    (hP : P = S ∨ ∃ u, P = setValue n u S) (IP : DInv env P (some n)) (R : StepRelB n v ch r P S') (Fv : MR.VFr S S')
    (hk : ∀ b, (S.nodeD n).kind ≠ .bindLhsChange b) (T : DT env N S) : DT env N S' := by
  rcases hP with rfl | ⟨u, rfl⟩
  · exact dt_vstep T IP ⟨R, Fv.key, Fv.hah, Fv.num, Fv.dk⟩ hk
  · have Fp := vfr_patch (n := n) u Fv
    exact dt_vstep (DT.patch u T) IP ⟨R, Fp.key, Fp.hah, Fp.num, Fp.dk⟩
      (fun b => by rw [MapOldH.setValue_kind]; exact hk b)

set_option maxHeartbeats 1000000 in
/-- **the own step of a `map_with_old` node keeps the drain invariant and the totality invariant** (`FullH.step_mwo` + `DT`) -/
theorem step_mwo_dt {t s s' : State} {g : Nat → Option Val} {N fuel n m i : Nat} {r : Option Nat}
    (D : DInvF env sp t s g (some n)) (T : NestH.DT (VE env sp) N (virt g s)) (hk : (s.nodeD n).kind = .mapWithOld m i)
    (h : (recomputeOne env fuel n).run.run s = (.ok r, s')) :
    DInvF env sp t s' g r ∧ BindH.FrameB (virt g s) (virt g s') ∧ ((virt g s').nodeD n).recomputedAt = s.stabNum ∧
      ((virt g s').nodeD n).valid = true ∧ NestH.DT (VE env sp) N (virt g s') := by
  obtain ⟨c1, c2, c3, c4⟩ := step_mwo D hk h
  refine ⟨c1, c2, c3, c4, ?_⟩
  have F := D.frag
  have I := D.inv
  have gr := I.graph
  have hi := I.heap
  obtain ⟨hnnec, hltv, hnvv, -, -⟩ := I.cur_facts
  have hlt := F.lt_of_mwo hk
  have hnv : (s.nodeD n).valid = true := by rw [virt_nodeD, virtNode_valid] at hnvv; exact hnvv
  obtain ⟨hW, hG⟩ := F.wid hk
  have hnm : ∀ p i', (s.nodeD n).kind ≠ .mapRef p i' := by intro p i'; rw [hk]; intro e; cases e
  -- the input
  have hci : i ∈ s.children n := by rw [children_mwo hnv hk]; exact List.mem_singleton.2 rfl
  obtain ⟨htvi, hsome⟩ := kids_settled D i hci
  obtain ⟨x, hxv⟩ := Option.isSome_iff_exists.1 hsome
  have hreach := D.m n m i hnv hk
  -- the machine
  obtain ⟨es, hrun⟩ := MapOldH.recomputeOne_mwo_run env fuel n s (s.nodeD n) m i x (some_of_lt hlt) hnv hk hxv F.pc
  have hout0 := hG.out _ _ hreach x trivial
  have hflag0 := hG.flag _ _ hreach x trivial
  generalize env.withOld m (s.nodeD n).oldState (s.nodeD n).value x = w at hrun hout0 hflag0
  have hout : w.2.1 = sp m x := hout0
  rw [hrun] at h
  have hXe : setWithOld n w.2.1 w.1 (logged es (started n s)) = mwoX n w.2.1 w.1 es s := rfl
  rw [hXe] at h
  -- the state in which the notifications start
  have hX := fun k => mwoX_nodeD n k w.2.1 w.1 es s hlt
  have VF : ValFrame n s (mwoX n w.2.1 w.1 es s) := MW.mwoX_valFrame n w.2.1 w.1 es hlt
  have hXn : (mwoX n w.2.1 w.1 es s).nodeD n =
      { s.nodeD n with recomputedAt := s.stabNum, value := some w.2.1, oldState := w.1 } := by
    rw [hX, if_pos rfl]
  have hXv : ((mwoX n w.2.1 w.1 es s).nodeD n).value = some (sp m x) := by rw [hXn]; show some w.2.1 = _; rw [hout]
  -- the frames of the actual run
  have k0 : KeyD s (mwoX n w.2.1 w.1 es s) := rfl
  have a0 : BindH.BF.HAh s (mwoX n w.2.1 w.1 es s) := by
    intro k; rw [hX]; split
    · rename_i e; rw [e]
    · rfl
  have c0 : Calm s (mwoX n w.2.1 w.1 es s) :=
    ((Calm.started n s).trans (Calm.logged es _)).trans (Calm.modNode _ n _ (fun _ => rfl))
  have d0 : BindH.C2k.DK 0 s (mwoX n w.2.1 w.1 es s) :=
    ((BindH.C2k.DKS.started 0 n s).1.trans (BindH.C2k.DKS.logged 0 es _).1).trans
      (BindH.C2k.DKS.modNode (b := 0) (logged es (started n s)) n (fun y => { y with value := some w.2.1, oldState := w.1 })
        (fun _ => rfl)).1
  have k1 := (PresK.maybeChangeValueManual env fuel n none w.2.2 true).h _ _ _ h
  have a1 := (BindH.BF.PresA.maybeChangeValueManual env fuel n none w.2.2 true).h _ _ _ h
  have c1' := (PresC.maybeChangeValueManual env fuel n none w.2.2 true).h _ _ _ h
  have d1 := (BindH.C2k.PresD.maybeChangeValueManual (b := 0) env fuel n none w.2.2 true).h _ _ _ h
  have Fv : MR.VFr (virt g s) (virt g s') :=
    ⟨(KeyD.trans k0 k1 : KeyD s s'), MW.hah_virt (a0.trans a1),
      MW.num_virt (g := g) (g' := g) (fun k => ((c1'.num k).trans (c0.num k))), MW.dk_virt (g := g) (g' := g) (d0.trans d1.1)⟩
  -- the virtual node
  have hkv : ((virt g s).nodeD n).kind = .map (wBase + enc m) [i] := by rw [virt_nodeD, virtNode_kind, hk]; rfl
  have hkb : ∀ b, ((virt g s).nodeD n).kind ≠ .bindLhsChange b := by intro b; rw [hkv]; intro e; cases e
  have hvnv : ((virt g s).nodeD n).value = (s.nodeD n).value := by
    rw [virt_nodeD, virtNode_value_of_not_mapRef _ _ hnm]
  have hUself : Upd n (virt g s) (virt g (mwoX n w.2.1 w.1 es s)) :=
    MW.mwoX_upd (virt g s) hlt F.pc (fun k => ⟨_, rfl⟩) (fun _ _ => rfl) (virt_size g s) rfl rfl rfl
  have hXk : ∀ p i', ((mwoX n w.2.1 w.1 es s).nodeD n).kind ≠ .mapRef p i' := by intro p i'; rw [VF.kind]; exact hnm p i'
  have hXnv : ((virt g (mwoX n w.2.1 w.1 es s)).nodeD n).value = some (sp m x) := by
    rw [virt_nodeD, virtNode_value_of_not_mapRef _ _ hXk]; exact hXv
  have hXnr : ((virt g (mwoX n w.2.1 w.1 es s)).nodeD n).recomputedAt = (virt g s).stabNum := by
    rw [virt_nodeD, virtNode_recomputedAt, hXn]; rfl
  have hXnc : ((virt g (mwoX n w.2.1 w.1 es s)).nodeD n).changedAt = ((virt g s).nodeD n).changedAt := by
    rw [virt_nodeD, virtNode_changedAt, hXn, virt_nodeD, virtNode_changedAt]
  cases hdid : w.2.2 with
  | false =>
    rw [hdid, run_mcvm_false] at h
    cases h
    rcases hflag0 hdid with hnone | hsome
    · -- first run, "no change": patch the virtual pre-state
      have hvn : ((virt g s).nodeD n).value = none := hvnv.trans hnone
      have IP : DInv (VE env sp) (setValue n (some (sp m x)) (virt g s)) (some n) := MW.DInv.patch I hvn
      have hUP : Upd n (setValue n (some (sp m x)) (virt g s)) (virt g (mwoX n w.2.1 w.1 es s)) := by
        refine MW.mwoX_upd _ hlt F.pc (fun k => ?_) (fun k hk' => ?_) ?_ rfl rfl rfl
        · exact setValue_nodeD_with n _ (virt g s) k
        · rw [setValue_nodeD, if_neg (fun e => hk' e.1.symm)]
        · rw [setValue_size, virt_size]
      have hPn : ((setValue n (some (sp m x)) (virt g s)).nodeD n).value = some (sp m x) := by
        rw [setValue_nodeD, if_pos ⟨rfl, hltv⟩]
      have R : StepRelB n (sp m x) false none (setValue n (some (sp m x)) (virt g s)) (virt g (mwoX n w.2.1 w.1 es s)) :=
        MW.rel_false IP.graph IP.heap hUP rfl hXnv hXnr (by rw [hXnc, setValue_changedAt]) hPn
      exact dt_finish (Or.inr ⟨_, rfl⟩) IP R Fv hkb T
    · have R : StepRelB n (sp m x) false none (virt g s) (virt g (mwoX n w.2.1 w.1 es s)) :=
        MW.rel_false gr hi hUself rfl hXnv hXnr hXnc (hvnv.trans hsome)
      exact dt_finish (Or.inl rfl) I R Fv hkb T
  | true =>
    rw [hdid] at h
    have FX : FFrag env sp g (mwoX n w.2.1 w.1 es s) := F.of_valFrame VF
    obtain ⟨hsim, -, -⟩ := Sim.maybeChangeValueManual (K := FK env sp) (g := g) (sp := sp) env fuel n none none true _ FX.fr r s' h
    have R : StepRelB n (sp m x) true r (virt g s) (virt g s') := MW.rel_true gr hi hltv hUself rfl hXnv hXnr hsim
    exact dt_finish (Or.inl rfl) I R Fv hkb T

/-! ## the contract discharged (L10) -/

/-- **the own step of a `map_with_old` node returns** and keeps `PInv` (no contract hypothesis) -/
theorem step_mwo_returns' {t s : State} {g : Nat → Option Val} {N fuel n m i : Nat}
    (D : DInvF env sp t s g (some n)) (hP : PInv s) (T : NestH.DT (VE env sp) N (virt g s)) (hroom : s.nodes.size ≤ N)
    (hk : (s.nodeD n).kind = .mapWithOld m i) (hf : s.nodes.size ≤ fuel) (hf1 : 1 ≤ fuel) :
    ∃ r s', (recomputeOne env fuel n).run.run s = (.ok r, s') ∧ PInv s' :=
  step_mwo_returns (mcvmC _ env sp) D hP T hroom hk hf hf1

end IncrVerif.Proofs.FullT
