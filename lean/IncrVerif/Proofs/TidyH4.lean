import IncrVerif.Proofs.TidyH3
/-!
# C17 as a statement about the whole event log of a drain (fragment static + `map_with_old`)
-/
namespace IncrVerif.Proofs.TidyH
open IncrVerif IncrVerif.Engine IncrVerif.Driver IncrVerif.Proofs IncrVerif.Proofs.Step IncrVerif.Proofs.Sched IncrVerif.Proofs.Quiet
open IncrVerif.Proofs.MapOldH

/-- an `inv` event logged for node `n` -/
def AtNode (n : Nat) : Event → Prop
  | .inv _ m _ _ => m = n
  | _ => False

/-- none of these events is a user-function call of node `n`: each is notification noise (a cutoff call or an expert
edge callback `cb`) or is not an `inv` event of node `n` -/
def NoCalls (n : Nat) (l : List Event) : Prop := ∀ e, e ∈ l → Noise e ∨ ¬ AtNode n e

theorem NoCalls.nil (n : Nat) : NoCalls n [] := fun _ h => by cases h

theorem NoCalls.append {n : Nat} {a b : List Event} (ha : NoCalls n a) (hb : NoCalls n b) : NoCalls n (a ++ b) := by
  intro e he
  rcases List.mem_append.1 he with h | h
  · exact ha e h
  · exact hb e h

theorem NoCalls.of_noise {n : Nat} {l : List Event} (h : ∀ e, e ∈ l → Noise e) : NoCalls n l :=
  fun e he => Or.inl (h e he)

theorem NoCalls.of_other {n m : Nat} {l : List Event} (hmn : m ≠ n) (h : ∀ e, e ∈ l → AtNode m e) : NoCalls n l := by
  intro e he
  refine Or.inr ?_
  have := h e he
  cases e <;> simp only [AtNode] at this ⊢
  omega

theorem computes_atNode {env : Env} {s : State} {n : Nat} {nd : Node} {v σ : Val} {evs : List Event}
    (h : Computes env s n nd v σ evs) : ∀ e, e ∈ evs → AtNode n e := by
  intro e he
  cases h <;> first
    | (cases he; done)
    | (rw [List.mem_singleton] at he; rw [he]; rfl)

theorem woEvents_atNode (env : Env) (g n : Nat) (σ : Val) (old : Option Val) (x new : Val) (did : Bool) :
    ∀ e, e ∈ woEvents env g n σ old x new did → AtNode n e := by
  intro e he
  unfold woEvents at he
  split at he
  · rw [List.mem_singleton] at he; rw [he]; rfl
  · rw [List.mem_reverse, List.mem_map] at he
    obtain ⟨c, -, rfl⟩ := he
    rfl

section
variable {env : Env} {C : Val → Prop} {sp : Nat → Val → Val} {s : State}

/-- **every step of the fragment**: what `Step.StepPost` says, with the user-function events all at the node that ran -/
theorem stepPost_frag {fuel m : Nat} {s' : State} {r : Option Nat} (D : DInvW env C sp s (some m))
    (h : (recomputeOne env fuel m).run.run s = (.ok r, s')) :
    ∃ v σ evs, StepPost m v σ evs s s' ∧ ∀ e, e ∈ evs → AtNode m e := by
  have F := D.frag
  have I := D.inv
  have gr := I.graph
  obtain ⟨hnv, -⟩ := I.cur m rfl
  obtain ⟨hlt, -, -, -, -⟩ := gr.nec m hnv
  rw [virt_size] at hlt
  have hkids : ∀ a, a ∈ kidsW (s.nodeD m).kind → (s.value env a).isSome = true := by
    intro a ha
    obtain ⟨w, hw⟩ := Inv.kids_some I a ha
    rw [F.value a, hw]; rfl
  by_cases hk : ∀ g i, (s.nodeD m).kind ≠ .mapWithOld g i
  · have hvar : ∀ c, (s.nodeD m).kind = .var c → ∃ vc, s.vars[c]? = some vc := by
      intro c hc
      exact gr.var m c hnv (by rw [virt_nodeD, virtNode_kind, hc]; rfl)
    obtain ⟨v0, evs, hc⟩ := computes_of_frag F hlt hk hvar hkids
    exact ⟨_, _, evs, recomputeOne_post env fuel m s s' _ v0 _ evs r (some_of_lt hlt) (F.valid m hlt) F.pc hc h,
      computes_atNode hc⟩
  · have : ∃ g i, (s.nodeD m).kind = .mapWithOld g i := by
      cases hkd : (s.nodeD m).kind <;>
        first | exact ⟨_, _, rfl⟩ | (exfalso; apply hk; intro g i; rw [hkd]; intro h; cases h)
    obtain ⟨g, i, hkk⟩ := this
    obtain ⟨x, hx⟩ := Inv.kids_some I i (by rw [hkk]; simp [kidsW])
    have hxv : s.value env i = some x := by rw [F.value i]; exact hx
    rw [recomputeOne_mwo_run' env fuel m s (s.nodeD m) g i x (some_of_lt hlt) (F.valid m hlt) hkk hxv F.pc] at h
    exact ⟨_, _, _, mcvm_stepPost env fuel m _ _ _ _ s s' (s.nodeD m) r (some_of_lt hlt) F.pc h,
      woEvents_atNode _ _ _ _ _ _ _ _⟩

end

/-! ## the relation carried along the drain -/

/-- what is assumed of the state in which a stretch of the drain starts, about the operator node `n` -/
structure LPre (n g i : Nat) (a : State) : Prop where
  kind : (a.nodeD n).kind = .mapWithOld g i
  /-- a node stamped in this round is necessary -/
  stampNec : (a.nodeD n).recomputedAt = a.stabNum → a.isNecessary n = true

/-- the operator node did not run in this stretch -/
structure LSame (n i : Nat) (a b : State) : Prop where
  stamp : (b.nodeD n).recomputedAt = (a.nodeD n).recomputedAt
  oldState : (b.nodeD n).oldState = (a.nodeD n).oldState
  value : (b.nodeD n).value = (a.nodeD n).value
  log : ∃ A, b.log = A ++ a.log ∧ NoCalls n A
  /-- once the operator has run, its input is not recomputed any more -/
  frozen : (a.nodeD n).recomputedAt = a.stabNum → (b.nodeD i).value = (a.nodeD i).value

/-- the operator node ran (once) in this stretch: on the input value `x` its input node still has at the end -/
structure LRan (d : Defs) (n g i : Nat) (a b : State) : Prop where
  before : (a.nodeD n).recomputedAt < a.stabNum
  after : (b.nodeD n).recomputedAt = a.stabNum
  log : ∃ x A B, (b.nodeD i).value = some x ∧ Canon x ∧
    b.log = A ++ callEvents n (opCalls d g (a.nodeD n).oldState (a.nodeD n).value x) ++ B ++ a.log ∧
    NoCalls n A ∧ NoCalls n B

structure LPost (d : Defs) (n g i : Nat) (a b : State) : Prop where
  pre : LPre n g i b
  stabNum : b.stabNum = a.stabNum
  cases : LSame n i a b ∨ LRan d n g i a b

/-- the relation: from a state satisfying `LPre`, … -/
def LRel (d : Defs) (n g i : Nat) (a b : State) : Prop := LPre n g i a → LPost d n g i a b

theorem LRel.refl (d : Defs) (n g i : Nat) (s : State) : LRel d n g i s s := fun hp =>
  ⟨hp, rfl, Or.inl ⟨rfl, rfl, rfl, ⟨[], rfl, NoCalls.nil n⟩, fun _ => rfl⟩⟩

theorem LRel.trans {d : Defs} {n g i : Nat} {a b c : State} (h1 : LRel d n g i a b) (h2 : LRel d n g i b c) :
    LRel d n g i a c := by
  intro hp
  obtain ⟨p1, st1, c1⟩ := h1 hp
  obtain ⟨p2, st2, c2⟩ := h2 p1
  refine ⟨p2, st2.trans st1, ?_⟩
  rcases c1 with u1 | r1
  · rcases c2 with u2 | r2
    · left
      obtain ⟨A1, e1, n1⟩ := u1.log
      obtain ⟨A2, e2, n2⟩ := u2.log
      refine ⟨u2.stamp.trans u1.stamp, u2.oldState.trans u1.oldState, u2.value.trans u1.value,
        ⟨A2 ++ A1, by rw [e2, e1, List.append_assoc], n2.append n1⟩, fun hs => ?_⟩
      rw [u2.frozen (by rw [u1.stamp, st1]; exact hs), u1.frozen hs]
    · right
      obtain ⟨A1, e1, n1⟩ := u1.log
      obtain ⟨x, A, B, hx, hC, e2, nA, nB⟩ := r2.log
      refine ⟨by rw [← u1.stamp, ← st1]; exact r2.before, by rw [← st1]; exact r2.after,
        x, A, B ++ A1, hx, hC, ?_, nA, nB.append n1⟩
      rw [e2, e1, u1.oldState, u1.value]
      simp only [List.append_assoc]
  · rcases c2 with u2 | r2
    · right
      obtain ⟨A2, e2, n2⟩ := u2.log
      obtain ⟨x, A, B, hx, hC, e1, nA, nB⟩ := r1.log
      refine ⟨r1.before, by rw [u2.stamp]; exact r1.after, x, A2 ++ A, B, ?_, hC, ?_, n2.append nA, nB⟩
      · rw [u2.frozen (by rw [st1]; exact r1.after)]; exact hx
      · rw [e2, e1]
        simp only [List.append_assoc]
    · exfalso
      have := r2.before
      rw [r1.after, st1] at this
      omega

section
variable {d : Defs} {n g i : Nat}

theorem lrel_pop {s s1 : State} {r : Option Nat} (D : DInvW d.toEnv Canon (machSpec d) s none)
    (h : rchRemoveMin.run.run s = (.ok r, s1)) : LRel d n g i s s1 := by
  have hinv := rchRemoveMin_inv (heapInv_of_virt D.inv.heap) h
  cases r with
  | none => obtain ⟨rfl, -⟩ := hinv; exact LRel.refl d n g i _
  | some m =>
    obtain ⟨-, -, -, hs1, -⟩ := hinv
    have hnd : ∀ k, s1.nodeD k =
        if m = k ∧ k < s.nodes.size then { s.nodeD k with heightInRch := -1 } else s.nodeD k := by
      intro k; rw [hs1]; exact nodeD_modify s m k _
    have hlog : s1.log = s.log := by rw [hs1]
    have hst : s1.stabNum = s.stabNum := by rw [hs1]
    have hnec : ∀ k, s1.isNecessary k = s.isNecessary k := by
      intro k; simp only [State.isNecessary]; rw [hnd]; split <;> rfl
    intro hp
    refine ⟨⟨?_, ?_⟩, hst, Or.inl ⟨?_, ?_, ?_, ⟨[], hlog, NoCalls.nil n⟩, fun _ => ?_⟩⟩
    · rw [hnd]; split <;> exact hp.kind
    · intro hs
      rw [hnec]; apply hp.stampNec
      rw [hst] at hs; rw [← hs, hnd]; split <;> rfl
    all_goals (rw [hnd]; split <;> rfl)

theorem lrel_step (hg : opBase ≤ g) {s s' : State} {m fuel : Nat} {r : Option Nat}
    (D : DInvW d.toEnv Canon (machSpec d) s (some m))
    (h : (recomputeOne d.toEnv fuel m).run.run s = (.ok r, s')) : LRel d n g i s s' := by
  intro hp
  obtain ⟨v, σ, evs, P, hat⟩ := stepPost_frag D h
  obtain ⟨tail, hlog, hnoise⟩ := P.log
  have fr := P.frame
  have F := D.frag
  have hmnec := (D.inv.cur m rfl).1
  rw [virt_isNecessary] at hmnec
  have hnec : ∀ k, s'.isNecessary k = s.isNecessary k := by
    intro k
    simp only [State.isNecessary, Node.isNecessary, fr.parents, fr.observers, fr.forceNecessary]
  have hkind : (s'.nodeD n).kind = .mapWithOld g i := by rw [fr.kind]; exact hp.kind
  by_cases hmn : m = n
  · subst hmn
    obtain ⟨x, tail', hx, hC, hlog', hnoise', -⟩ := operator_step_calls D hp.kind hg h
    have hlt := F.lt_of_mwo hp.kind
    have hi : i < m := F.back m hlt i (by rw [hp.kind]; simp [kidsW])
    have hcur := D.inv.cur_not_yet
    rw [virt_nodeD, virtNode_recomputedAt] at hcur
    refine ⟨⟨hkind, fun _ => by rw [hnec]; exact hmnec⟩, fr.stabNum, Or.inr ⟨hcur, P.recomputedAt, x, tail', [], ?_, hC, ?_,
      NoCalls.of_noise hnoise', NoCalls.nil _⟩⟩
    · rw [fr.value i (by omega)]; exact hx
    · rw [hlog']; simp
  · have hn' : n ≠ m := fun e => hmn e.symm
    refine ⟨⟨hkind, fun hs => ?_⟩, fr.stabNum, Or.inl ⟨fr.recomputedAt n hn', fr.oldState n hn', fr.value n hn',
      ⟨tail ++ evs, by rw [hlog, List.append_assoc], (NoCalls.of_noise hnoise).append (NoCalls.of_other hmn hat)⟩,
      fun hs => ?_⟩⟩
    · rw [hnec]; apply hp.stampNec
      rw [fr.recomputedAt n hn', fr.stabNum] at hs; exact hs
    · -- the input of an operator that has already run is not the node running now
      by_cases hmi : m = i
      · exfalso
        subst hmi
        have hnn := hp.stampNec hs
        have hlt := F.lt_of_mwo hp.kind
        have hfresh := D.inv.fresh m (Or.inr rfl) n
          (Anc.step (by rw [virt_isNecessary]; exact hnn)
            (by rw [virt_kids, hp.kind]; simp [kidsW]) (Anc.refl m))
        rw [virt_nodeD, virtNode_recomputedAt] at hfresh
        have : (virt s).stabNum = s.stabNum := rfl
        omega
      · exact fr.value i (fun e => hmi e.symm)

/-- **C17 for the whole log of a drain.** `drainHeap` from the drain invariant; `n` an operator node (closure `g`,
input node `i`) that has not run in this round.  EITHER `n` does not run: its stamp, closure state and stored output
are unchanged and the drain logs no user-function call of `n`; OR `n` runs — then the log of the drain is
`A ++ callEvents n (opCalls d g σ old x) ++ B` where `(σ, old)` are the closure state (= the input the operator last
ran on) and stored output of `n` BEFORE the drain, `x` is the value the input node has AFTER the drain, and neither `A`
nor `B` contains a user-function call of `n`. -/
theorem drain_log (hg : opBase ≤ g) {fuel : Nat} {s s' : State} (D : DrainInvW d.toEnv Canon (machSpec d) s)
    (hk : (s.nodeD n).kind = .mapWithOld g i) (hnot : (s.nodeD n).recomputedAt < s.stabNum)
    (h : (drainHeap d.toEnv fuel).run.run s = (.ok (), s')) :
    s'.stabNum = s.stabNum ∧ (LSame n i s s' ∨ LRan d n g i s s') := by
  have := MapOldH.drain_steps_ind (valOK_toEnv d) (LRel d n g i) (LRel.refl d n g i)
    (fun _ _ _ => LRel.trans) (fun s r s1 D h => lrel_pop D h) (fun s m fuel r s' D h => lrel_step hg D h)
    fuel s s' D h ⟨hk, fun e => by omega⟩
  exact ⟨this.stabNum, this.cases⟩

end
end IncrVerif.Proofs.TidyH
