import IncrVerif.Proofs.MapOld18
/-!
# map_with_old fragment: node creation keeps `QInvW`, the shape of what the creation instructions do
-/
namespace IncrVerif.Proofs.MapOldH
open IncrVerif.Engine IncrVerif.Driver IncrVerif.Proofs IncrVerif.Proofs.Step IncrVerif.Proofs.Sched IncrVerif.Proofs.Quiet

/-- the machine id the `mapOp` instruction uses (same arithmetic as `elabInstr`) -/
def opId : MapOpK → Nat
  | .fm m _ => opBase + m
  | .fold m rev upd _ => opBase + 100000 + (if rev then 20000 else 0) + (if upd then 10000 else 0) + m
  | .merge m _ _ => opBase + 200000 + m
  | .part m _ => opBase + 300000 + m
def opOpnds : MapOpK → List Opnd
  | .fm _ x | .fold _ _ _ x | .part _ x => [x]
  | .merge _ x y => [x, y]

/-- a successful `createNode` at top level of a kind that is not a `var` -/
theorem CrNode {k : Kind} {s s1 : State} {n : Nat} (hk : ∀ c, k ≠ .var c)
    (h : (createNode k .top).run.run s = (.ok n, s1)) :
    n = s.nodes.size ∧ Created k s s1 s.top ∧ s1.top = s.top ∧ s1.nodes.size = s.nodes.size + 1 := by
  obtain ⟨en, Cr⟩ := createNode_created hk h
  exact ⟨en, Cr, Cr.top, Cr.size⟩

theorem CrResolve {kx : Nat} {s s1 : State} {n : Nat}
    (h : (resolveOpnd [] (.outer kx)).run.run s = (.ok n, s1)) : s1 = s ∧ s.top[kx]? = some n := by
  unfold resolveOpnd at h
  simp only at h
  rw [run_bind_get] at h
  cases hm : s.top[kx]? with
  | some m =>
    rw [hm] at h
    obtain ⟨e1, e2⟩ := pure_ok_inv h
    rw [e1]; exact ⟨e2, rfl⟩
  | none => rw [hm] at h; cases h

/-- the three nodes of a unary incremental-map operator -/
theorem CrUnary {s s1 : State} {g kx : Nat} {ro : Option Nat}
    (h : (do
        let x ← resolveOpnd [] (Opnd.outer kx)
        let a ← createNode (Kind.map fnIdent [x]) Scope.top
        let o ← createNode (Kind.mapWithOld g a) Scope.top
        some <$> createNode (Kind.map fnIdent [o]) Scope.top : M (Option Nat)).run.run s = (.ok ro, s1)) :
    ∃ x sa sb, s.top[kx]? = some x ∧ Created (.map fnIdent [x]) s sa s.top ∧
      Created (.mapWithOld g s.nodes.size) sa sb s.top ∧
      Created (.map fnIdent [s.nodes.size + 1]) sb s1 s.top ∧ ro = some (s.nodes.size + 2) := by
  obtain ⟨x, t, h1, h⟩ := bind_ok_inv h
  obtain ⟨et, hx⟩ := CrResolve h1
  rw [et] at h
  obtain ⟨a, sa, h1, h⟩ := bind_ok_inv h
  obtain ⟨ea, Ca, ta, za⟩ := CrNode (by intro c e; cases e) h1
  obtain ⟨o, sb, h1, h⟩ := bind_ok_inv h
  obtain ⟨eo, Cb, tb, zb⟩ := CrNode (by intro c e; cases e) h1
  obtain ⟨n, h1, e⟩ := map_ok_inv h
  obtain ⟨en, Cc, tc, zc⟩ := CrNode (by intro c e; cases e) h1
  subst ea eo
  rw [za] at Cc
  rw [ta] at Cb
  rw [tb, ta] at Cc
  rw [zb, za] at en
  exact ⟨x, sa, sb, hx, Ca, Cb, Cc, by rw [e, en]⟩

/-- the five nodes of `merge` -/
theorem CrBinary {s s1 : State} {g kx ky : Nat} {ro : Option Nat}
    (h : (do
        let x ← resolveOpnd [] (Opnd.outer kx)
        let a ← createNode (Kind.map fnIdent [x]) Scope.top
        let y ← resolveOpnd [] (Opnd.outer ky)
        let b ← createNode (Kind.map fnIdent [y]) Scope.top
        let z ← createNode (Kind.map fnZip [a, b]) Scope.top
        let o ← createNode (Kind.mapWithOld g z) Scope.top
        some <$> createNode (Kind.map fnIdent [o]) Scope.top : M (Option Nat)).run.run s = (.ok ro, s1)) :
    ∃ x y sa sb sc sd, s.top[kx]? = some x ∧ s.top[ky]? = some y ∧ Created (.map fnIdent [x]) s sa s.top ∧
      Created (.map fnIdent [y]) sa sb s.top ∧
      Created (.map fnZip [s.nodes.size, s.nodes.size + 1]) sb sc s.top ∧
      Created (.mapWithOld g (s.nodes.size + 2)) sc sd s.top ∧
      Created (.map fnIdent [s.nodes.size + 3]) sd s1 s.top ∧ ro = some (s.nodes.size + 4) := by
  obtain ⟨x, t, h1, h⟩ := bind_ok_inv h
  obtain ⟨et, hx⟩ := CrResolve h1
  rw [et] at h
  obtain ⟨a, sa, h1, h⟩ := bind_ok_inv h
  obtain ⟨ea, Ca, ta, za⟩ := CrNode (by intro c e; cases e) h1
  obtain ⟨y, t, h1, h⟩ := bind_ok_inv h
  obtain ⟨et, hy⟩ := CrResolve h1
  rw [et] at h
  rw [ta] at hy
  obtain ⟨b, sb, h1, h⟩ := bind_ok_inv h
  obtain ⟨eb, Cb, tb, zb⟩ := CrNode (by intro c e; cases e) h1
  obtain ⟨z, sc, h1, h⟩ := bind_ok_inv h
  obtain ⟨ez, Cc, tc, zc⟩ := CrNode (by intro c e; cases e) h1
  obtain ⟨o, sd, h1, h⟩ := bind_ok_inv h
  obtain ⟨eo, Cd, td, zd⟩ := CrNode (by intro c e; cases e) h1
  obtain ⟨n, h1, e⟩ := map_ok_inv h
  obtain ⟨en, Ce, te, ze⟩ := CrNode (by intro c e; cases e) h1
  subst ea eb ez eo
  rw [za] at zb
  rw [zb] at zc
  rw [zc] at zd
  rw [zd] at en
  rw [ta] at tb Cb
  rw [tb] at tc Cc
  rw [tc] at td Cd
  rw [td] at Ce
  rw [za] at Cc
  rw [zb] at Cd
  rw [zc] at Ce
  exact ⟨x, y, sa, sb, sc, sd, hx, hy, Ca, Cb, Cc, Cd, Ce, by rw [e, en]⟩

end IncrVerif.Proofs.MapOldH
