import IncrVerif.Proofs.NestH36
/-!
# Nested binds (F2), the run of a change detector, part 2: the dying nodes; phases 1–3 through the three contracts

Port of `BindH74` (`CC2`).  New: the nodes that die are `Dying s dy` (the old generation and, recursively, the valid nodes of the scopes of its inner
binds); the rank is extended by the closure run.
-/
namespace IncrVerif.Proofs.NestH
open IncrVerif.Engine IncrVerif.Proofs IncrVerif.Proofs.Step IncrVerif.Proofs.Sched IncrVerif.Proofs.Quiet
open IncrVerif.Proofs.BindH
namespace NC

/-- the child list of a valid main node, from `All2` alone -/
theorem main_children_all {env : Env} {rk : Nat → Nat} {s : State} {dy : List Nat} (A : All2 env rk s dy) {b : Nat}
    {br : BindRec} (hb : s.binds[b]? = some br) (hv : (s.nodeD br.main).valid = true) :
    s.children br.main = br.lhsChange :: br.rhs.toList := by
  obtain ⟨-, h2, -, h4, -⟩ := A.recs b br hb
  unfold State.children Node.kind?
  rw [hv, h4]
  simp only [if_true, hb]
  cases br.rhs <;> rfl

/-- the child list of a valid change detector -/
theorem lc_children_all {env : Env} {rk : Nat → Nat} {s : State} {dy : List Nat} (A : All2 env rk s dy) {b : Nat}
    {br : BindRec} (hb : s.binds[b]? = some br) (hv : (s.nodeD br.lhsChange).valid = true) :
    s.children br.lhsChange = [br.lhs] := by
  obtain ⟨-, h2, h3, -, -⟩ := A.recs b br hb
  unfold State.children Node.kind?
  rw [hv, h3]
  simp only [if_true, hb]

/-! ## the dying nodes, in the state before the run -/

namespace Pre2
variable {env : Env} {rk : Nat → Nat} {n b : Nat} {br : BindRec} {s : State}

theorem ne (X : Pre2 env rk n b br s) : br.main ≠ n := by have := X.hmain; omega

theorem blt (X : Pre2 env rk n b br s) : b < s.binds.size := by
  have h := X.hb
  false_or_by_contra
  rename_i hge
  rw [Array.getElem?_eq_none (by omega)] at h
  cases h

/-- a node of the old generation is an old valid node of scope `b` -/
theorem dyOld (X : Pre2 env rk n b br s) (A : F2Inv env rk s) {m : Nat} (hm : m ∈ br.allNodesCreatedOnRhs) :
    m < s.nodes.size ∧ (s.nodeD m).valid = true ∧ (s.nodeD m).createdIn = .bind b :=
  (A.frag.gen b br X.hb m).1 (Or.inl hm)

/-- a valid node of scope `b` of the state before the run is of the old generation -/
theorem dy_of_scope (X : Pre2 env rk n b br s) (A : F2Inv env rk s) {m : Nat} (hv : (s.nodeD m).valid = true)
    (hsc : (s.nodeD m).createdIn = .bind b) : m ∈ br.allNodesCreatedOnRhs := by
  have hlt : m < s.nodes.size := by
    false_or_by_contra
    rename_i h
    rw [nodeD_default s m (by omega)] at hsc; cases hsc
  rcases (A.frag.gen b br X.hb m).2 ⟨hlt, hv, hsc⟩ with h | ⟨h, -⟩
  · exact h
  · cases h

/-- **the scope of a dying node**: a valid old node of the scope of a bind whose change detector is (weakly) below `n` through scope edges, and whose
two nodes lie (weakly) between `n` and the main node of `b` in the rank -/
theorem dying_scope (X : Pre2 env rk n b br s) (A : F2Inv env rk s) {m : Nat}
    (h : Dying s br.allNodesCreatedOnRhs m) :
    m < s.nodes.size ∧ (s.nodeD m).valid = true ∧ ∃ b' br', (s.nodeD m).createdIn = .bind b' ∧
      s.binds[b']? = some br' ∧ Below s br'.lhsChange n ∧ rk n ≤ rk br'.lhsChange ∧ rk br'.main ≤ rk br.main := by
  induction h with
  | base hm =>
    obtain ⟨h1, h2, h3⟩ := X.dyOld A hm
    refine ⟨h1, h2, b, br, h3, X.hb, ?_, ?_, Nat.le_refl _⟩
    · rw [X.hlc]; exact Below.refl n
    · rw [X.hlc]; exact Nat.le_refl _
  | inner hp hk hm hv hsc ih =>
    rename_i p m b2 lc2
    obtain ⟨hpl, hpv, b'', br'', hpsc, hb'', hbel, hr1, hr2⟩ := ih
    obtain ⟨br2, hb2, hm2, hl2⟩ := (A.frag.node p hpl).mainRec b2 lc2 hk
    obtain ⟨-, -, -, -, r5⟩ := A.frag.recs b2 br2 hb2
    have hvl : (s.nodeD br2.lhsChange).valid = true := by
      rw [← A.frag.recValid b2 br2 hb2, hm2]; exact hpv
    have hscl : (s.nodeD br2.lhsChange).createdIn = .bind b'' := by
      rw [← r5, hm2]; exact hpsc
    have k1 := (A.frag.scope_rk (A.frag.lc_lt hb2) hscl hb'').1
    have k2 := (A.frag.scope_rk hpl hpsc hb'').2
    refine ⟨hm, hv, b2, br2, hsc, hb2, Below.step (Edge.scope hvl hscl hb'') hbel, by omega, ?_⟩
    rw [hm2]; omega

/-- a dying node lies strictly between `n` and the main node of `b` in the rank -/
theorem dying_rk (X : Pre2 env rk n b br s) (A : F2Inv env rk s) {m : Nat}
    (h : Dying s br.allNodesCreatedOnRhs m) : rk n < rk m ∧ rk m < rk br.main := by
  obtain ⟨h1, -, b', br', h3, h4, -, h6, h7⟩ := X.dying_scope A h
  have := A.frag.scope_rk h1 h3 h4
  omega

theorem dying_ne_n (X : Pre2 env rk n b br s) (A : F2Inv env rk s) {m : Nat}
    (h : Dying s br.allNodesCreatedOnRhs m) : m ≠ n := by
  intro e; have := (X.dying_rk A h).1; rw [e] at this; omega

theorem n_notDying (X : Pre2 env rk n b br s) (A : F2Inv env rk s) : ¬ Dying s br.allNodesCreatedOnRhs n :=
  fun h => X.dying_ne_n A h rfl

theorem main_notDying (X : Pre2 env rk n b br s) (A : F2Inv env rk s) : ¬ Dying s br.allNodesCreatedOnRhs br.main :=
  fun h => by have := (X.dying_rk A h).2; omega

/-- **a dying node was valid and is strictly above `n` through scope edges** -/
theorem dying_below (X : Pre2 env rk n b br s) (A : F2Inv env rk s) {m : Nat}
    (h : Dying s br.allNodesCreatedOnRhs m) : (s.nodeD m).valid = true ∧ Below s m n := by
  obtain ⟨-, h2, b', br', h3, h4, h5, -⟩ := X.dying_scope A h
  exact ⟨h2, Below.step (Edge.scope h2 h3 h4) h5⟩

/-- a top-level node is not dying -/
theorem notDying_of_top (X : Pre2 env rk n b br s) (A : F2Inv env rk s) {m : Nat}
    (h : (s.nodeD m).createdIn = .top) : ¬ Dying s br.allNodesCreatedOnRhs m := by
  intro hd
  obtain ⟨-, -, b', br', h3, -⟩ := X.dying_scope A hd
  rw [h] at h3; cases h3

/-- a dying node of scope `b'`: of the old generation (`b' = b`), or the main node of `b'` is dying -/
theorem dying_cases (X : Pre2 env rk n b br s) (A : F2Inv env rk s) {m b' : Nat}
    (h : Dying s br.allNodesCreatedOnRhs m) (hsc : (s.nodeD m).createdIn = .bind b') :
    (b' = b ∧ m ∈ br.allNodesCreatedOnRhs) ∨
      ∃ br', s.binds[b']? = some br' ∧ Dying s br.allNodesCreatedOnRhs br'.main := by
  cases h with
  | base hm =>
    have := (X.dyOld A hm).2.2
    rw [hsc] at this
    injection this with this
    exact Or.inl ⟨this, hm⟩
  | inner hp hk hm hv hsc' =>
    rename_i p b2 lc2
    rw [hsc] at hsc'
    injection hsc' with e
    subst e
    obtain ⟨hpl, -⟩ := X.dying_scope A hp
    obtain ⟨br2, hb2, hm2, -⟩ := (A.frag.node p hpl).mainRec b' lc2 hk
    exact Or.inr ⟨br2, hb2, by rw [hm2]; exact hp⟩

/-- a valid node of the scope of a bind other than `b` whose main node is not dying is not dying -/
theorem notDying_of_main (X : Pre2 env rk n b br s) (A : F2Inv env rk s) {m b' : Nat} {br' : BindRec}
    (hsc : (s.nodeD m).createdIn = .bind b') (hb' : s.binds[b']? = some br') (hne : b' ≠ b)
    (hmain : ¬ Dying s br.allNodesCreatedOnRhs br'.main) : ¬ Dying s br.allNodesCreatedOnRhs m := by
  intro hd
  rcases X.dying_cases A hd hsc with ⟨e, -⟩ | ⟨br2, hb2, h2⟩
  · exact hne e
  · rw [hb'] at hb2; cases hb2; exact hmain h2

end Pre2

/-! ## phase 1: the closure run -/

/-- the state `s1` after the closure run; `rk'` is the extended rank -/
structure P1 (env : Env) (rk rk' : Nat → Nat) (n b rhs : Nat) (br : BindRec) (l : List Nat) (s s1 : State) :
    Prop where
  ext : RkExt rk rk' s.nodes.size
  g : GInv2 env rk' s1 allClosed (· = br.main) br.allNodesCreatedOnRhs
  ahh : AhhEmpty s1
  rel : CRel2 b br (started n s) s1
  bind : s1.binds[b]? = some { br with allNodesCreatedOnRhs := l }
  lmem : ∀ m, m ∈ l ↔ (s.nodes.size ≤ m ∧ m < s1.nodes.size)
  rlt : rhs < s1.nodes.size
  rhsK : ∀ b', (s1.nodeD rhs).kind ≠ .bindLhsChange b'
  rhs : ((s1.nodeD rhs).createdIn = .top ∧ rk' rhs < rk' n) ∨ s.nodes.size ≤ rhs
  lcCut : ∀ m b', (s1.nodeD m).kind = .bindLhsChange b' → (s1.nodeD m).cutoff = .never
  newRecs : ∀ b' br', s.binds.size ≤ b' → s1.binds[b']? = some br' →
    (∃ f, BodyOK2 env rk' s1 br'.lhsChange f br'.body) ∧ ∀ b'', (s1.nodeD br'.lhs).kind ≠ .bindLhsChange b''

namespace P1
variable {env : Env} {rk rk' : Nat → Nat} {n b rhs : Nat} {br : BindRec} {l : List Nat} {s s1 : State}

theorem grow (P : P1 env rk rk' n b rhs br l s s1) : s.nodes.size ≤ s1.nodes.size := by
  have := P.rel.grow; rw [CC.started_size] at this; exact this

theorem old_upto (P : P1 env rk rk' n b rhs br l s s1) {m : Nat} (hm : m < s.nodes.size) :
    ∃ y, s1.nodeD m = { s.nodeD m with recomputedAt := y } := by
  rw [P.rel.old m (by rw [CC.started_size]; exact hm)]
  exact CC.started_upto n s m

theorem old_other (P : P1 env rk rk' n b rhs br l s s1) {m : Nat} (hm : m < s.nodes.size) (e : m ≠ n) :
    s1.nodeD m = s.nodeD m := by
  rw [P.rel.old m (by rw [CC.started_size]; exact hm)]
  exact CC.started_other s e

theorem self (P : P1 env rk rk' n b rhs br l s s1) (hlt : n < s.nodes.size) :
    s1.nodeD n = { s.nodeD n with recomputedAt := s.stabNum } := by
  rw [P.rel.old n (by rw [CC.started_size]; exact hlt)]
  exact CC.started_self hlt

theorem new (P : P1 env rk rk' n b rhs br l s s1) {m : Nat} (h1 : s.nodes.size ≤ m) (h2 : m < s1.nodes.size) :
    (s1.nodeD m).createdIn = .bind b ∧ (s1.nodeD m).valid = true ∧ (s1.nodeD m).recomputedAt = -1 ∧
    (s1.nodeD m).changedAt = -1 ∧ (s1.nodeD m).value = none ∧ (s1.nodeD m).parents = [] ∧
    (s1.nodeD m).observers = [] ∧ (s1.nodeD m).forceNecessary = false ∧ (s1.nodeD m).heightInRch = -1 ∧
    (s1.nodeD m).heightInAhh = -1 ∧ (s1.nodeD m).numOnUpdateHandlers = 0 :=
  P.rel.new m (by rw [CC.started_size]; exact h1) h2

/-- the three kinds of indices -/
theorem cases (P : P1 env rk rk' n b rhs br l s s1) (m : Nat) :
    (m < s.nodes.size ∧ ∃ y, s1.nodeD m = { s.nodeD m with recomputedAt := y }) ∨
    (s.nodes.size ≤ m ∧ m < s1.nodes.size) ∨ (s1.nodes.size ≤ m ∧ s1.nodeD m = default) := by
  by_cases h1 : m < s.nodes.size
  · exact Or.inl ⟨h1, P.old_upto h1⟩
  · by_cases h2 : m < s1.nodes.size
    · exact Or.inr (Or.inl ⟨by omega, h2⟩)
    · exact Or.inr (Or.inr ⟨by omega, nodeD_default s1 m (by omega)⟩)

theorem stabNum (P : P1 env rk rk' n b rhs br l s s1) : s1.stabNum = s.stabNum := P.rel.stabNum

theorem noForce (P : P1 env rk rk' n b rhs br l s s1) (A : F2Inv env rk s) (m : Nat) :
    (s1.nodeD m).forceNecessary = false := by
  rcases P.cases m with ⟨-, y, e⟩ | ⟨h1, h2⟩ | ⟨-, e⟩
  · rw [e]; exact A.noForce m
  · exact (P.new h1 h2).2.2.2.2.2.2.2.1
  · rw [e]; rfl

theorem noHandlers (P : P1 env rk rk' n b rhs br l s s1) (A : F2Inv env rk s) (m : Nat) :
    (s1.nodeD m).numOnUpdateHandlers = 0 := by
  rcases P.cases m with ⟨-, y, e⟩ | ⟨h1, h2⟩ | ⟨-, e⟩
  · rw [e]; exact A.noHandlers m
  · exact (P.new h1 h2).2.2.2.2.2.2.2.2.2.2
  · rw [e]; rfl

/-- what the closure run keeps of EVERY old node (`n` included) -/
theorem sh (P : P1 env rk rk' n b rhs br l s s1) {m : Nat} (hm : m < s.nodes.size) :
    (s1.nodeD m).kind = (s.nodeD m).kind ∧ (s1.nodeD m).valid = (s.nodeD m).valid ∧
      (s1.nodeD m).createdIn = (s.nodeD m).createdIn ∧ (s1.nodeD m).cutoff = (s.nodeD m).cutoff := by
  obtain ⟨y, e⟩ := P.old_upto hm
  rw [e]; exact ⟨rfl, rfl, rfl, rfl⟩

/-- a top-level node of `s1` is old -/
theorem old_of_top (P : P1 env rk rk' n b rhs br l s s1) {m : Nat} (hm : m < s1.nodes.size)
    (h : (s1.nodeD m).createdIn = .top) : m < s.nodes.size := by
  false_or_by_contra
  rename_i hge
  rw [(P.new (by omega) hm).1] at h; cases h

/-- the new right-hand side is not of the old generation -/
theorem rhs_notDy (P : P1 env rk rk' n b rhs br l s s1) (X : Pre2 env rk n b br s) (A : F2Inv env rk s) :
    rhs ∉ br.allNodesCreatedOnRhs := by
  intro h
  obtain ⟨h1, -, h3⟩ := X.dyOld A h
  rcases P.rhs with ⟨h4, -⟩ | h4
  · rw [(P.sh h1).2.2.1, h3] at h4; cases h4
  · omega

theorem rhs_ne (P : P1 env rk rk' n b rhs br l s s1) (X : Pre2 env rk n b br s) : rhs ≠ n := by
  have := X.hlt
  rcases P.rhs with ⟨-, h⟩ | h
  · intro e; rw [e] at h; omega
  · omega

/-- the bind table after the closure run -/
theorem binds_old (P : P1 env rk rk' n b rhs br l s s1) {b' : Nat} (hne : b' ≠ b) (hlt : b' < s.binds.size) :
    s1.binds[b']? = s.binds[b']? := P.rel.bindsOther b' hne hlt

theorem binds_new (P : P1 env rk rk' n b rhs br l s s1) {b' : Nat} {br' : BindRec} (hge : s.binds.size ≤ b')
    (h : s1.binds[b']? = some br') :
    br'.rhs = none ∧ br'.allNodesCreatedOnRhs = [] ∧ s.nodes.size ≤ br'.lhsChange := by
  have := P.rel.bindsNew b' br' hge h
  rw [CC.started_size] at this
  exact this

end P1

theorem phase1 {env : Env} (CS : ClosureSpec2 env) {rk : Nat → Nat} {n b rhs : Nat} {br : BindRec} {s s1 : State}
    (X : Pre2 env rk n b br s) (A : F2Inv env rk s)
    (h1 : (Inval.lhsRunClosure env n b br).run.run (started n s) = (.ok rhs, s1)) :
    ∃ rk' l, P1 env rk rk' n b rhs br l s s1 := by
  obtain ⟨rk', ext, g, ahh, rel, rlt, hrk, hr, hcut, hnew⟩ :=
    CS n b rhs br rk (started n s) s1 (· = br.main) h1 X.g0 X.ahh0 X.hb X.hlc
    (by rw [CC.started_self X.hlt]; exact X.hvn)
    (by
      obtain ⟨f, hf⟩ := A.closures b br X.hb
      rw [X.hlc] at hf
      exact ⟨f, BodyOK2.mono (s := s) (s' := started n s) rfl (fun r h _ => h) f _ hf⟩)
    (fun k r hk => by
      obtain ⟨h1, h2, h3⟩ := A.topOK k r hk
      obtain ⟨y, e⟩ := CC.started_upto n s r
      refine ⟨by rw [CC.started_size]; exact h1, by rw [e]; exact h2, fun b' => by rw [e]; exact h3 b'⟩)
    (fun m b' hk => by
      obtain ⟨y, e⟩ := CC.started_upto n s m
      rw [e] at hk ⊢
      exact A.lcCut m b' hk)
  obtain ⟨l, hl, hmem⟩ := rel.bind
  rw [CC.started_size] at ext hr
  exact ⟨rk', l, ext, g, ahh, rel, hl, fun m => by rw [hmem m, CC.started_size], rlt, hrk, hr, hcut, hnew⟩

/-! ## phase 2: installing the new right-hand side -/

/-- the state `s2` after `lhsRelink` -/
structure P2 (env : Env) (rk' : Nat → Nat) (n b rhs : Nat) (br : BindRec) (l : List Nat) (s1 s2 : State) :
    Prop where
  g : GInv2 env rk' s2 allClosed (· = br.main) br.allNodesCreatedOnRhs
  ahh : AhhEmpty s2
  rel : RRelB b n rhs { br with allNodesCreatedOnRhs := l } s1 s2
  pinv : s2.propagateInvalidity = []
  noForce : ∀ m, (s2.nodeD m).forceNecessary = false
  necMain : s2.isNecessary br.main = true

theorem phase2 {env : Env} (RS : RelinkSpec2 env) {rk rk' : Nat → Nat} {fuel n b rhs : Nat} {br : BindRec}
    {l : List Nat} {s s1 s2 : State} (X : Pre2 env rk n b br s) (A : F2Inv env rk s)
    (P : P1 env rk rk' n b rhs br l s s1)
    (h2 : (Inval.lhsRelink env fuel n b br s.stabNum rhs).run.run s1 = (.ok (), s2)) :
    P2 env rk' n b rhs br l s1 s2 := by
  have est : s1.stabNum = s.stabNum := P.stabNum
  rw [← est] at h2
  have emain : s1.nodeD br.main = s.nodeD br.main := P.old_other X.hml X.ne
  obtain ⟨g, ahh, rel, pinv, nf, nec⟩ := RS fuel b n rhs rk' s1 s2 br { br with allNodesCreatedOnRhs := l }
    (· = br.main) br.allNodesCreatedOnRhs h2 P.g rfl P.ahh P.bind rfl rfl X.hlc
    (by rw [emain]; exact X.hvm)
    (by show (s1.nodeD br.main).isNecessary = true; rw [emain]; exact X.necMain)
    P.rlt (P.rhs_notDy X A) P.rhsK
    (by
      rcases P.rhs with h3 | h3
      · exact Or.inl h3
      · right
        obtain ⟨k1, k2, -⟩ := P.new h3 P.rlt
        exact ⟨k1, k2⟩)
    (fun o ho => by
      obtain ⟨k0, hk⟩ := A.rhsOK b br o X.hb ho X.hvm
      have hoc : o ∈ s.children br.main := by
        rw [main_children_all A.frag X.hb X.hvm, ho]
        exact List.mem_cons_of_mem _ (List.mem_cons_self ..)
      have hlt : o < s.nodes.size := (A.frag.node br.main X.hml).kidsIn o hoc
      obtain ⟨e1, -, e3, -⟩ := P.sh hlt
      refine ⟨fun b' => by rw [e1]; exact k0 b', ?_⟩
      rcases hk with ⟨k1, k2⟩ | ⟨k1, k2⟩
      · left
        rw [X.hlc] at k2
        exact ⟨by rw [e3]; exact k1, (P.ext o n hlt X.hlt).2 k2⟩
      · right
        exact ⟨by rw [e3]; exact k1, X.dy_of_scope A k2 k1⟩)
    (fun m hm => by
      obtain ⟨hlt, -, k⟩ := X.dyOld A hm
      rw [(P.sh hlt).2.2.1]; exact k)
    (P.noForce A) (P.rel.pinv.trans A.pinv)
    (by rw [emain, est]; exact X.hmr)
  exact ⟨g, ahh, rel, pinv, nf, nec⟩

namespace P2
variable {env : Env} {rk' : Nat → Nat} {n b rhs : Nat} {br : BindRec} {l : List Nat} {s1 s2 : State}

/-- the keys of the nodes other than `n` -/
theorem key (Q : P2 env rk' n b rhs br l s1 s2) {m : Nat} (e : m ≠ n) : CC.NKey (s1.nodeD m) (s2.nodeD m) :=
  CC.NKey.of_key (Q.rel.node m e)

/-- the key of `n` -/
theorem keyN (Q : P2 env rk' n b rhs br l s1 s2) :
    CC.NKey { s1.nodeD n with changedAt := s1.stabNum } (s2.nodeD n) := CC.NKey.of_key Q.rel.self

theorem kind (Q : P2 env rk' n b rhs br l s1 s2) (m : Nat) : (s2.nodeD m).kind = (s1.nodeD m).kind := by
  by_cases e : m = n
  · subst e; exact Q.keyN.kind
  · exact (Q.key e).kind

theorem valid (Q : P2 env rk' n b rhs br l s1 s2) (m : Nat) : (s2.nodeD m).valid = (s1.nodeD m).valid := by
  by_cases e : m = n
  · subst e; exact Q.keyN.valid
  · exact (Q.key e).valid

theorem createdIn (Q : P2 env rk' n b rhs br l s1 s2) (m : Nat) :
    (s2.nodeD m).createdIn = (s1.nodeD m).createdIn := by
  by_cases e : m = n
  · subst e; exact Q.keyN.createdIn
  · exact (Q.key e).createdIn

theorem cutoff (Q : P2 env rk' n b rhs br l s1 s2) (m : Nat) :
    (s2.nodeD m).cutoff = (s1.nodeD m).cutoff := by
  by_cases e : m = n
  · subst e; exact Q.keyN.cutoff
  · exact (Q.key e).cutoff

theorem num (Q : P2 env rk' n b rhs br l s1 s2) (m : Nat) :
    (s2.nodeD m).numOnUpdateHandlers = (s1.nodeD m).numOnUpdateHandlers := by
  by_cases e : m = n
  · subst e; exact Q.keyN.num
  · exact (Q.key e).num

end P2

/-! ## the bind table and the dying nodes after phase 2 -/

section two
variable {env : Env} {rk rk' : Nat → Nat} {n b rhs : Nat} {br : BindRec} {l : List Nat} {s s1 s2 : State}

/-- the bind table after phase 2 against the one before the run -/
theorem binds2_cases (X : Pre2 env rk n b br s) (P : P1 env rk rk' n b rhs br l s s1)
    (Q : P2 env rk' n b rhs br l s1 s2) (b' : Nat) :
    (b' = b ∧ s2.binds[b']? = some { { br with allNodesCreatedOnRhs := l } with rhs := some rhs }) ∨
    (b' ≠ b ∧ b' < s.binds.size ∧ s2.binds[b']? = s.binds[b']?) ∨
    (b' ≠ b ∧ s.binds.size ≤ b' ∧ s2.binds[b']? = s1.binds[b']?) := by
  by_cases e : b' = b
  · subst e; exact Or.inl ⟨rfl, Q.rel.bind⟩
  · by_cases hlt : b' < s.binds.size
    · exact Or.inr (Or.inl ⟨e, hlt, (Q.rel.bindsOther b' e).trans (P.binds_old e hlt)⟩)
    · exact Or.inr (Or.inr ⟨e, by omega, Q.rel.bindsOther b' e⟩)

/-- what phases 1 and 2 keep of EVERY old node (`n` included) -/
theorem sh2 (P : P1 env rk rk' n b rhs br l s s1) (Q : P2 env rk' n b rhs br l s1 s2) {m : Nat}
    (hm : m < s.nodes.size) :
    (s2.nodeD m).kind = (s.nodeD m).kind ∧ (s2.nodeD m).valid = (s.nodeD m).valid ∧
      (s2.nodeD m).createdIn = (s.nodeD m).createdIn ∧ (s2.nodeD m).cutoff = (s.nodeD m).cutoff := by
  obtain ⟨h1, h2, h3, h4⟩ := P.sh hm
  exact ⟨(Q.kind m).trans h1, (Q.valid m).trans h2, (Q.createdIn m).trans h3, (Q.cutoff m).trans h4⟩

/-- the dying nodes, read in the state after phase 2, are the dying nodes read in the state before the run -/
theorem dying_iff (X : Pre2 env rk n b br s) (A : F2Inv env rk s) (P : P1 env rk rk' n b rhs br l s s1)
    (Q : P2 env rk' n b rhs br l s1 s2) (m : Nat) :
    Dying s2 br.allNodesCreatedOnRhs m ↔ Dying s br.allNodesCreatedOnRhs m := by
  constructor
  · intro h
    induction h with
    | base hm => exact Dying.base hm
    | inner hp hk hm hv hsc ih =>
      rename_i p m b2 lc2
      obtain ⟨hpl, -⟩ := X.dying_scope A ih
      rw [(sh2 P Q hpl).1] at hk
      by_cases hml : m < s.nodes.size
      · obtain ⟨-, e2, e3, -⟩ := sh2 P Q hml
        rw [e2] at hv; rw [e3] at hsc
        exact Dying.inner ih hk hml hv hsc
      · exfalso
        rw [Q.rel.size] at hm
        rw [Q.createdIn, (P.new (by omega) hm).1] at hsc
        injection hsc with e
        subst e
        obtain ⟨br', hb', hm', -⟩ := (A.frag.node p hpl).mainRec b lc2 hk
        rw [X.hb] at hb'; cases hb'
        rw [← hm'] at ih
        exact X.main_notDying A ih
  · intro h
    induction h with
    | base hm => exact Dying.base hm
    | inner hp hk hm hv hsc ih =>
      rename_i p m b2 lc2
      obtain ⟨hpl, -⟩ := X.dying_scope A hp
      obtain ⟨-, e2, e3, -⟩ := sh2 P Q hm
      refine Dying.inner ih (by rw [(sh2 P Q hpl).1]; exact hk) ?_ (by rw [e2]; exact hv) (by rw [e3]; exact hsc)
      rw [Q.rel.size]; have := P.grow; omega

end two

/-! ## phase 3: invalidating the previous generation -/

/-- the state `s3` after `lhsInvalidateOld` -/
structure P3 (env : Env) (rk' : Nat → Nat) (br : BindRec) (s2 s3 : State) : Prop where
  g : GInv2 env rk' s3 allClosed (· = br.main) []
  rel : IRel2 br.allNodesCreatedOnRhs s2 s3

theorem phase3 {env : Env} (IS : InvalSpec2 env) {rk rk' : Nat → Nat} {fuel n b rhs : Nat} {br : BindRec}
    {l : List Nat} {s s1 s2 s3 : State} (X : Pre2 env rk n b br s) (A : F2Inv env rk s)
    (P : P1 env rk rk' n b rhs br l s s1) (Q : P2 env rk' n b rhs br l s1 s2)
    (h3 : (Inval.lhsInvalidateOld fuel br).run.run s2 = (.ok (), s3)) : P3 env rk' br s2 s3 := by
  have hnd := P.rhs_notDy X A
  -- the old generation in `s2`
  have hdy : ∀ m, m ∈ br.allNodesCreatedOnRhs →
      m < s2.nodes.size ∧ (s2.nodeD m).createdIn = .bind b ∧ (s2.nodeD m).valid = true := by
    intro m hm
    obtain ⟨hlt, k1, k2⟩ := X.dyOld A hm
    obtain ⟨-, e2, e3, -⟩ := sh2 P Q hlt
    refine ⟨?_, by rw [e3]; exact k2, by rw [e2]; exact k1⟩
    rw [Q.rel.size]; have := P.grow; omega
  have hpar : ∀ m, m ∈ br.allNodesCreatedOnRhs → (s2.nodeD m).parents = [] := by
    apply Q.g.scope_no_parents Q.rel.bind (· ∈ br.allNodesCreatedOnRhs)
    · intro m hm; exact ⟨(hdy m hm).1, (hdy m hm).2.1⟩
    · intro p m hp hmc hm
      have hpl := lt_size_of_mem_children hmc
      obtain ⟨-, br', hb', hlt', hkids⟩ := (Q.g.frag.node p hpl).inScope b hp
      rcases hkids m hmc with k1 | ⟨-, k3⟩ | ⟨b2, lc2, k4, k5⟩
      · rw [(hdy m hm).2.1] at k1; cases k1
      · exact k3.1 hm
      · exfalso
        rw [(hdy m hm).2.1] at k5
        injection k5 with e
        subst e
        obtain ⟨br2, hb2, hm2, -⟩ := (Q.g.frag.node p hpl).mainRec _ lc2 k4
        rw [hb'] at hb2; cases hb2
        omega
    · intro m hm hr _
      have : rhs = m := Option.some.inj hr
      rw [this] at hnd; exact hnd hm
    · intro m k h; cases h
    · intro m _; exact Q.noForce m
  obtain ⟨g, rel⟩ := IS fuel b br rk' s2 s3 (· = br.main) h3 Q.g (A.rhsNone b br X.hb)
    (fun m hm => ⟨(hdy m hm).2.1, hpar m hm, (hdy m hm).2.2⟩)
    (fun br1 r hb1 hr => by
      rw [Q.rel.bind] at hb1
      cases hb1
      have : rhs = r := Option.some.inj hr
      rw [← this]; exact hnd)
    Q.noForce (fun m => by rw [Q.num]; exact P.noHandlers A m) Q.pinv
    (fun b' br' hb' hr => by
      rcases binds2_cases X P Q b' with ⟨-, e⟩ | ⟨-, -, e⟩ | ⟨-, hge, e⟩
      · rw [e] at hb'; cases hb'; cases hr
      · rw [e] at hb'; exact A.rhsNone b' br' hb' hr
      · rw [e] at hb'; exact (P.binds_new hge hb').2.1)
  exact ⟨g, rel⟩

end NC
end IncrVerif.Proofs.NestH
