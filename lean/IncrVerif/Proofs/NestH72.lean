import IncrVerif.Proofs.NestH63
import IncrVerif.Proofs.NestH62
import IncrVerif.Proofs.NestH40
import IncrVerif.Proofs.NestH58
import IncrVerif.Proofs.BindH103
/-!
# Nested binds (F2), part 5g1: "generations are current" (`GenOK2`) through a drain, part 1 — what `GenOK2` reads; `remove_min`; a run of a static / `bindMain` node

Port of `BindH103` (`C3g1`).  `C3g.resolveP_mono`, `C3g.resolveAll_mono`, `C3g.kindOfInstr_mono`, `C3g.top_mono_of_eq`, `C3g.children_lc`, `C3g.isStale_lc` are
generic and reused.

`GenOK2 env s` reads: the bind table, the naming table `top` (only the entries a template's `.outer k` operands name), the KINDS of the locals (all of them registered
nodes), the records (but for their lists) of the inner binds whose main node is a local, the stored value of each bind's lhs, and — for the binds whose change detector
is VALID — the staleness of the change detector.
-/
namespace IncrVerif.Proofs.NestH
open IncrVerif.Engine IncrVerif.Proofs IncrVerif.Proofs.Step IncrVerif.Proofs.Sched IncrVerif.Proofs.Quiet
open IncrVerif.Proofs.BindH

namespace N5g

/-! ## `ElabOf2` reads the naming table, the kinds of the locals and the records of the inner binds among them, monotonically in the naming table -/

/-- two bind records agree in `lhs`, `body`, `lhsChange`, `main` (what `InstrImg` reads of the record of an inner bind) -/
structure RecSame (x y : BindRec) : Prop where
  lhs : y.lhs = x.lhs
  body : y.body = x.body
  lhsChange : y.lhsChange = x.lhsChange
  main : y.main = x.main

theorem RecSame.refl (x : BindRec) : RecSame x x := ⟨rfl, rfl, rfl, rfl⟩

theorem RecSame.of_bsame {x y : BindRec} (h : BSame x y) : RecSame x y := ⟨h.lhs, h.body, h.lhsChange, h.main⟩

/-- the image of one instruction moves to a state with a larger naming table, the same kind of the local, and — if the local is the main node of an inner bind —
the same record up to its list -/
theorem instrImg_mono {s s' : State} (htop : ∀ (k n : Nat), s.top[k]? = some n → s'.top[k]? = some n) (locs : List Nat)
    (v : Val) (i : Instr) (m : Nat) (hk : (s'.nodeD m).kind = (s.nodeD m).kind)
    (hb : ∀ (b2 : Nat) (br2 : BindRec), s.binds[b2]? = some br2 → br2.main = m →
      ∃ br2', s'.binds[b2]? = some br2' ∧ RecSame br2 br2')
    (h : InstrImg s locs v i m) : InstrImg s' locs v i m := by
  by_cases hbi : ∃ body' o, i = .bind body' o
  · obtain ⟨body', o, rfl⟩ := hbi
    obtain ⟨b2, br2, lc2, h1, h2, h3, h4, h5, h6⟩ := h
    obtain ⟨br2', k1, k2⟩ := hb b2 br2 h2 h4
    refine ⟨b2, br2', lc2, by rw [hk]; exact h1, k1, by rw [k2.body]; exact h3, by rw [k2.main]; exact h4,
      by rw [k2.lhsChange]; exact h5, ?_⟩
    rw [k2.lhs]
    exact C3g.resolveP_mono htop locs o _ h6
  · have hnb : ∀ b o, i ≠ .bind b o := fun b o e => hbi ⟨b, o, e⟩
    have h0 := N5d.instrImg_not_bind hnb h
    have h1 : kindOfInstr s' locs v i = some (s'.nodeD m).kind := by
      rw [hk]; exact C3g.kindOfInstr_mono htop locs v i _ h0
    cases i <;> first | exact h1 | exact absurd rfl (hnb _ _)

/-- `regOf` reads the kinds of the locals -/
theorem regOf_congr {s s' : State} : ∀ (locs : List Nat), (∀ m, m ∈ locs → (s'.nodeD m).kind = (s.nodeD m).kind) →
    regOf s' locs = regOf s locs := by
  intro locs
  induction locs with
  | nil => intro _; rfl
  | cons a l ih =>
    intro h
    have e1 : regOf s' (a :: l) = (match (s'.nodeD a).kind with | .bindMain _ lc => [lc, a] | _ => [a]) ++ regOf s' l := by
      unfold regOf; exact List.flatMap_cons
    have e2 : regOf s (a :: l) = (match (s.nodeD a).kind with | .bindMain _ lc => [lc, a] | _ => [a]) ++ regOf s l := by
      unfold regOf; exact List.flatMap_cons
    rw [e1, e2, h a (List.mem_cons_self ..), ih (fun m hm => h m (List.mem_cons_of_mem _ hm))]

/-- `ElabOf2` only reads the entries of the naming table that resolve, the KINDS of the locals, and the records (up to their lists) of the binds whose main node is a
local -/
theorem elabOf2_mono {s s' : State} {t : Template} {v : Val} {all locs : List Nat} {rhs : Nat}
    (htop : ∀ (k n : Nat), s.top[k]? = some n → s'.top[k]? = some n)
    (hk : ∀ m, m ∈ locs → (s'.nodeD m).kind = (s.nodeD m).kind)
    (hb : ∀ (b2 : Nat) (br2 : BindRec), s.binds[b2]? = some br2 → br2.main ∈ locs →
      ∃ br2', s'.binds[b2]? = some br2' ∧ RecSame br2 br2')
    (E : ElabOf2 s t v all locs rhs) : ElabOf2 s' t v all locs rhs where
  len := E.len
  img j i m hi hm := by
    have hmem := List.mem_of_getElem? hm
    exact instrImg_mono htop _ v i m (hk m hmem) (fun b2 br2 h2 e => hb b2 br2 h2 (by rw [e]; exact hmem))
      (E.img j i m hi hm)
  ret := C3g.resolveP_mono htop locs t.ret rhs E.ret
  reg := by rw [regOf_congr locs hk]; exact E.reg

/-- the locals are registered nodes -/
theorem loc_mem {s : State} {t : Template} {v : Val} {all locs : List Nat} {rhs : Nat}
    (E : ElabOf2 s t v all locs rhs) {m : Nat} (h : m ∈ locs) : m ∈ all := by
  rw [E.reg]; exact N5d.mem_regOf h

/-! ## facts about a LIVE bind record -/

/-- the change detector and the lhs of a bind record whose change detector is valid, in fragment F2 -/
theorem rec_facts2 {env : Env} {rk : Nat → Nat} {s : State} {dy : List Nat} {b : Nat} {br : BindRec} (A : All2 env rk s dy)
    (hb : s.binds[b]? = some br) (hv : (s.nodeD br.lhsChange).valid = true) :
    br.lhsChange < s.nodes.size ∧ (s.nodeD br.lhsChange).kind = .bindLhsChange b ∧
      s.children br.lhsChange = [br.lhs] ∧ br.lhs < s.nodes.size ∧ (s.nodeD br.lhs).valid = true ∧
      rk br.lhs < rk br.lhsChange ∧ (s.nodeD br.main).valid = true ∧
      (s.nodeD br.main).kind = .bindMain b br.lhsChange ∧ br.main = br.lhsChange + 1 := by
  obtain ⟨r1, r2, r3, r4, -⟩ := A.recs b br hb
  have hlt := A.lc_lt hb
  have N := A.node _ hlt
  have hch := NC.lc_children_all A hb hv
  have hmem : br.lhs ∈ s.children br.lhsChange := by rw [hch]; exact List.mem_singleton.2 rfl
  exact ⟨hlt, r3, hch, N.kidsIn _ hmem, N.kidsValid _ hmem, N.kidLt _ hmem, by rw [A.recValid b br hb]; exact hv, r4, r1⟩

/-- staleness of a valid change detector: its stamp against the `changedAt` stamp of the lhs -/
theorem isStale_lc2 {env : Env} {rk : Nat → Nat} {s : State} {dy : List Nat} {b : Nat} {br : BindRec} (A : All2 env rk s dy)
    (hb : s.binds[b]? = some br) (hv : (s.nodeD br.lhsChange).valid = true) :
    s.isStale br.lhsChange = ((s.nodeD br.lhsChange).recomputedAt == -1 ||
      decide ((s.nodeD br.lhs).changedAt > (s.nodeD br.lhsChange).recomputedAt)) :=
  C3g.isStale_lc hv (A.recs b br hb).2.2.1 hb

/-! ## transfer of `GenOK2` -/

/-- one record: the obligation of `GenOK2` moves to a state that agrees on the lhs value, on the naming table, on the kinds of the registered nodes and on the records
(up to their lists) of the inner binds whose main node is registered -/
theorem gen_rec2 {env : Env} {s s' : State} {b : Nat} {br : BindRec} (G : GenOK2 env s)
    (hb : s.binds[b]? = some br) (hv : (s.nodeD br.lhsChange).valid = true) (hst : s.isStale br.lhsChange = false)
    (htop : ∀ (k n : Nat), s.top[k]? = some n → s'.top[k]? = some n)
    (hval : (s'.nodeD br.lhs).value = (s.nodeD br.lhs).value)
    (hk : ∀ m, m ∈ br.allNodesCreatedOnRhs → (s'.nodeD m).kind = (s.nodeD m).kind)
    (hbs : ∀ (b2 : Nat) (br2 : BindRec), s.binds[b2]? = some br2 → br2.main ∈ br.allNodesCreatedOnRhs →
      ∃ br2', s'.binds[b2]? = some br2' ∧ RecSame br2 br2') :
    ∃ v r locs, (s'.nodeD br.lhs).value = some v ∧ br.rhs = some r ∧
      ElabOf2 s' (env.body br.body v) v br.allNodesCreatedOnRhs locs r := by
  obtain ⟨v, r, locs, h1, h2, h3⟩ := G b br hb hv hst
  exact ⟨v, r, locs, by rw [hval]; exact h1, h2,
    elabOf2_mono htop (fun m hm => hk m (loc_mem h3 hm)) (fun b2 br2 k1 k2 => hbs b2 br2 k1 (loc_mem h3 k2)) h3⟩

/-- **transfer of `GenOK2`**: every record of `s'` whose change detector is valid and not stale in `s'` is a record of `s` whose change detector was valid and not
stale, with the same lhs value, the same kinds of registered nodes and the same records of registered inner binds -/
theorem genOK2_transfer {env : Env} {s s' : State} (G : GenOK2 env s)
    (htop : ∀ (k n : Nat), s.top[k]? = some n → s'.top[k]? = some n)
    (H : ∀ (b : Nat) (br : BindRec), s'.binds[b]? = some br → (s'.nodeD br.lhsChange).valid = true →
      s'.isStale br.lhsChange = false →
      s.binds[b]? = some br ∧ (s.nodeD br.lhsChange).valid = true ∧ s.isStale br.lhsChange = false ∧
      (s'.nodeD br.lhs).value = (s.nodeD br.lhs).value ∧
      (∀ m, m ∈ br.allNodesCreatedOnRhs → (s'.nodeD m).kind = (s.nodeD m).kind) ∧
      (∀ (b2 : Nat) (br2 : BindRec), s.binds[b2]? = some br2 → br2.main ∈ br.allNodesCreatedOnRhs →
        ∃ br2', s'.binds[b2]? = some br2' ∧ RecSame br2 br2')) : GenOK2 env s' := by
  intro b br hb hv hst
  obtain ⟨h1, h2, h3, h4, h5, h6⟩ := H b br hb hv hst
  exact gen_rec2 G h1 h2 h3 htop h4 h5 h6

/-- a frame that keeps the bind table, the naming table, and the kind, validity, value and stamps of every node keeps `GenOK2` (the cells may change) -/
theorem genOK2_frame {env : Env} {rk : Nat → Nat} {s s' : State} {dy : List Nat} (G : GenOK2 env s) (A : All2 env rk s dy)
    (hb : s'.binds = s.binds) (htop : s'.top = s.top)
    (hk : ∀ m, (s'.nodeD m).kind = (s.nodeD m).kind) (hv : ∀ m, (s'.nodeD m).valid = (s.nodeD m).valid)
    (hr : ∀ m, (s'.nodeD m).recomputedAt = (s.nodeD m).recomputedAt)
    (hc : ∀ m, (s'.nodeD m).changedAt = (s.nodeD m).changedAt)
    (hval : ∀ m, (s'.nodeD m).value = (s.nodeD m).value) : GenOK2 env s' := by
  refine genOK2_transfer G (C3g.top_mono_of_eq htop) ?_
  intro b br hbr hvl hst
  rw [hb] at hbr
  rw [hv] at hvl
  have f3 := (A.recs b br hbr).2.2.1
  refine ⟨hbr, hvl, ?_, hval _, fun m _ => hk m, fun b2 br2 h2 _ => ⟨br2, by rw [hb]; exact h2, RecSame.refl _⟩⟩
  rw [C3g.isStale_lc (by rw [hv]; exact hvl) (by rw [hk]; exact f3) (by rw [hb]; exact hbr), hr, hc] at hst
  rw [C3g.isStale_lc hvl f3 hbr]; exact hst

/-! ## `remove_min` -/

theorem pop_gen2 {env : Env} {rk : Nat → Nat} {s s1 : State} {n : Nat} (I : DInv env s none) (A : F2Inv env rk s)
    (G : GenOK2 env s) (hr : rchRemoveMin.run.run s = (.ok (some n), s1)) : GenOK2 env s1 := by
  have hpop := rchRemoveMin_inv I.heap hr
  simp only at hpop
  obtain ⟨-, -, -, hs1, -⟩ := hpop
  have hnode : ∀ m, s1.nodeD m =
      if n = m ∧ m < s.nodes.size then { s.nodeD m with heightInRch := -1 } else s.nodeD m := by
    intro m
    rw [hs1]
    exact nodeD_modify { s with rch := s1.rch } n m (fun x => { x with heightInRch := -1 })
  refine genOK2_frame G A.frag (by rw [hs1]) (by rw [hs1]) (fun m => ?_) (fun m => ?_) (fun m => ?_) (fun m => ?_)
    (fun m => ?_) <;> (rw [hnode]; split <;> rfl)

/-! ## a run of a static or `bindMain` node -/

theorem static_gen2 {env : Env} {rk : Nat → Nat} {fuel n : Nat} {s s' : State} {r : Option Nat} (I : DInv env s (some n))
    (A : F2Inv env rk s) (G : GenOK2 env s)
    (hk : StaticKind env (s.nodeD n).kind ∨ ∃ b lc, (s.nodeD n).kind = .bindMain b lc)
    (h : (recomputeOne env fuel n).run.run s = (.ok r, s')) : GenOK2 env s' := by
  have g := I.graph
  obtain ⟨hn, hnlt, hnv, -, -⟩ := I.cur_facts
  obtain ⟨v, ch, -, R⟩ := recomputeOne_stepB g I.heap hn hk I.kids_values h
  have K := BF.recomputeOne_keyD_B g hn hk I.kids_values h
  simp only [KeyD, stateKeyD, Prod.mk.injEq] at K
  obtain ⟨-, -, -, htop, -⟩ := K
  refine genOK2_transfer G (C3g.top_mono_of_eq htop) ?_
  intro b br hb hvl hst
  rw [R.binds] at hb
  rw [(R.shapes _).valid] at hvl
  obtain ⟨f1, f3, f5, -⟩ := rec_facts2 A.frag hb hvl
  have hne : br.lhsChange ≠ n := by
    intro e
    rw [e] at f3
    rcases hk with hk | ⟨_, _, hk⟩
    · rw [f3] at hk; exact hk
    · rw [f3] at hk; cases hk
  rcases stepB_stale_other I R hne f1 hvl with ⟨h1, h2⟩ | ⟨-, -, h1⟩
  · refine ⟨hb, hvl, by rw [← h1]; exact hst, ?_, fun m _ => (R.shapes m).kind,
      fun b2 br2 k2 _ => ⟨br2, by rw [R.binds]; exact k2, RecSame.refl _⟩⟩
    by_cases e : br.lhs = n
    · have hchf : ch = false := by
        rcases h2 with h2 | h2
        · exact h2
        · exfalso; apply h2; rw [f5, e]; exact List.mem_singleton.2 rfl
      rw [e, R.value, (R.unch hchf).1]
    · exact (R.other _ e).value
  · rw [h1] at hst; cases hst

end N5g

end IncrVerif.Proofs.NestH
