import IncrVerif.Proofs.FullH3
import IncrVerif.Proofs.FullH7
/-!
# C01 full fragment: virtualisation commutes with node creation, part 1
(`createNode`, `createVar`, `createBind`, `resolveOpnd`, `isConstant`; port of MapRef19 + scopes, binds, `VM`)
-/
namespace IncrVerif.Proofs.FullH
open IncrVerif.Engine IncrVerif.Proofs IncrVerif.Proofs.Step IncrVerif.Proofs.Sched IncrVerif.Proofs.Quiet
open IncrVerif.Proofs.MapOldH (enc dec WId dec_enc MReach GoodMachine)

/-- instructions whose elaboration is simulated (virtual counterpart: `virtI`) -/
def InstrS (env : Env) (sp : Nat → Val → Val) : Instr → Prop
  | .const _ => True | .lhsConst => True | .var _ => True
  | .map f _ => f < pBase ∧ (f < fnZip → ∀ vals, env.fnEff f vals = [])
  | .fold _ _ _ => True
  | .mapRef p _ => PId p
  | .mapWithOld m _ => WId m ∧ Good env sp m
  | .bind _ _ => True | .zip _ _ => True | .dependOn _ _ => True
  | _ => False
/-- operands that name existing nodes: `.outer k` (resolved through `top`) and `.loc j` -/
def OpndS : Opnd → Prop | .outer _ => True | .loc _ => True | _ => False
/-- the naming table and the locals name nodes of the state -/
def TopLt (s : State) : Prop := ∀ (k r : Nat), s.top[k]? = some r → r < s.nodes.size

/-- the operands of a (simulated) instruction -/
def InstrOpnds : Instr → List Opnd
  | .map _ args => args
  | .fold _ _ cs => cs
  | .mapRef _ o => [o]
  | .mapWithOld _ o => [o]
  | .bind _ o => [o]
  | .zip a b => [a, b]
  | .dependOn a b => [a, b]
  | _ => []

namespace SC

/-! ## generic calculus additions -/

/-- `s' = s` -/
def SameS (s s' : State) : Prop := s' = s
instance : Step.PreOrd SameS := ⟨fun _ => rfl, fun h1 h2 => Eq.trans h2 h1⟩

theorem RO.resolveOpnd (loc : List Nat) (o : Opnd) : Step.Pres SameS (Engine.resolveOpnd loc o) := by
  unfold Engine.resolveOpnd; qpres

theorem RO.isConstant (n : Nat) : Step.Pres SameS (Engine.isConstant n) := by
  unfold Engine.isConstant; qpres

section
variable {K : Kind → Prop} {g : Nat → Option Val} {s : State} {α β : Type}

/-- a read-only program followed by a continuation: the continuation starts in the same state -/
theorem ro_seq {x x' : M α} {f f' : α → M β} (hro : Step.Pres SameS x) (hx : SimAt K g s x x')
    (hf : ∀ a, x.run.run s = (.ok a, s) → SimAt K g s (f a) (f' a)) : SimAt K g s (x >>= f) (x' >>= f') := by
  refine SimAt.seq hx fun a s1 h1 => ?_
  have e : s1 = s := hro.h s _ s1 h1
  subst e; exact hf a h1

theorem simAt_map {x x' : M α} (f : α → β) (hx : SimAt K g s x x') : SimAt K g s (f <$> x) (f <$> x') := by
  rw [map_eq_pure_bind, map_eq_pure_bind]
  exact SimAt.seq hx fun _ _ _ => SimAt.ret _

theorem sim_mapM {γ : Type} {f f' : γ → M β} (h : ∀ a, Sim K g (f a) (f' a)) (l : List γ) :
    Sim K g (l.mapM f) (l.mapM f') := by
  induction l with
  | nil => intro s; simp only [List.mapM_nil]; exact SimAt.ret _
  | cons a l ih =>
    intro s
    simp only [List.mapM_cons]
    exact SimAt.seq (h a s) fun _ s1 _ => SimAt.seq (ih s1) fun _ _ _ => SimAt.ret _

end

/-! ## the state after `createNode` -/

/-- the state after `createNode k sc c` -/
def crState (k : Kind) (sc : Scope) (c : CutoffK) (s : State) : State :=
  let s1 : State := { s with
    counters := { s.counters with created := s.counters.created + 1 }
    nodes := s.nodes.push { kind := k, createdIn := sc, cutoff := c } }
  match sc with
  | .top => s1
  | .bind b => { s1 with binds := s1.binds.modify b fun x =>
      { x with allNodesCreatedOnRhs := x.allNodesCreatedOnRhs ++ [s.nodes.size] } }

theorem run_createNode (k : Kind) (sc : Scope) (c : CutoffK) (s : State) :
    (Engine.createNode k sc c).run.run s = (.ok s.nodes.size, crState k sc c s) := by
  unfold Engine.createNode crState
  cases sc <;> rfl

theorem crState_nodes (k : Kind) (sc : Scope) (c : CutoffK) (s : State) :
    (crState k sc c s).nodes = s.nodes.push { kind := k, createdIn := sc, cutoff := c } := by
  unfold crState; cases sc <;> rfl

theorem crState_top (k : Kind) (sc : Scope) (c : CutoffK) (s : State) : (crState k sc c s).top = s.top := by
  unfold crState; cases sc <;> rfl

theorem crState_size (k : Kind) (sc : Scope) (c : CutoffK) (s : State) :
    (crState k sc c s).nodes.size = s.nodes.size + 1 := by
  rw [crState_nodes, Array.size_push]

theorem crState_nodeD (k : Kind) (sc : Scope) (c : CutoffK) (s : State) (m : Nat) :
    (crState k sc c s).nodeD m =
      if m = s.nodes.size then { kind := k, createdIn := sc, cutoff := c } else s.nodeD m := by
  simp only [State.nodeD, crState_nodes, Array.getElem?_push]
  split <;> rfl

theorem virtNode_new (k : Kind) (sc : Scope) (c : CutoffK) :
    virtNode none { kind := k, createdIn := sc, cutoff := c } =
      { kind := virtKind k, createdIn := sc, cutoff := virtCut k c } := by
  cases k <;> rfl

variable {K : Kind → Prop} {g : Nat → Option Val}

theorem virt_push (s : State) (nd : Node) :
    (s.nodes.push nd).mapIdx (fun i x => virtNode (g i) x) =
      ((virt g s).nodes).push (virtNode (g s.nodes.size) nd) := by
  simp [virt, Array.mapIdx_push]

theorem virt_crState (k : Kind) (sc : Scope) (c : CutoffK) (s : State) (hg : g s.nodes.size = none) :
    virt g (crState k sc c s) = crState (virtKind k) sc (virtCut k c) (virt g s) := by
  have h := virt_push (g := g) s { kind := k, createdIn := sc, cutoff := c }
  rw [hg, virtNode_new] at h
  unfold crState virt at *
  cases sc <;> simp only [] <;> rw [h] <;> simp

theorem fr_crState {k : Kind} (sc : Scope) {c : CutoffK} {s : State} (hn : Fr K g s) (hk : K k)
    (hne : ∀ e, k ≠ .expert e) (hc : CutK k c) : Fr K g (crState k sc c s) := by
  refine ⟨fun m hm => ?_, fun m e => ?_, fun m => ?_, fun m hm => ?_⟩
  · rw [crState_nodeD]; rw [crState_size] at hm
    split
    · exact hk
    · exact hn.kinds m (by omega)
  · rw [crState_nodeD]
    split
    · exact hne e
    · exact hn.noExp m e
  · rw [crState_nodeD]
    split
    · exact hc
    · exact hn.cut m
  · rw [crState_size] at hm; exact hn.fresh m (by omega)

theorem vm_crState (k : Kind) (sc : Scope) (c : CutoffK) (s : State)
    (hb : ∀ p i, k = .mapRef p i → i < s.nodes.size) : VM s (crState k sc c s) := by
  refine ⟨by rw [crState_size]; omega, fun m h => ?_, fun m hm => ?_, fun m hm h => ?_, fun m h1 h2 => ?_⟩
  · rw [crState_nodeD]
    split
    · rename_i e; subst e
      rw [nodeD_default_of_ge s _ (Nat.le_refl _)] at h; cases h
    · exact h
  · rw [crState_nodeD, if_neg (by omega)]; exact ⟨rfl, rfl, rfl⟩
  · rw [crState_nodeD, if_neg (by omega)] at h; exact h
  · rw [crState_size] at h2
    have e : m = s.nodes.size := by omega
    subst e
    rw [crState_nodeD, if_pos rfl]
    exact ⟨rfl, rfl, fun p i hk => hb p i hk⟩

/-- `createNode` for an arbitrary kind predicate -/
theorem simAt_createNode {s : State} {k : Kind} (sc : Scope) (c : CutoffK) (hk : K k) (hne : ∀ e, k ≠ .expert e)
    (hb : ∀ p i, k = .mapRef p i → i < s.nodes.size) (hc : CutK k c) :
    SimAt K g s (Engine.createNode k sc c) (Engine.createNode (virtKind k) sc (virtCut k c)) := by
  intro hn r s' hr
  rw [run_createNode] at hr ⊢
  cases hr
  rw [virt_size, virt_crState k sc c s (hn.fresh _ (Nat.le_refl _))]
  exact ⟨rfl, fr_crState sc hn hk hne hc, vm_crState k sc c s hb⟩

/-- what a successful `createNode` does to the naming data -/
theorem createNode_inv {k : Kind} {sc : Scope} {c : CutoffK} {s s' : State} {n : Nat}
    (h : (Engine.createNode k sc c).run.run s = (.ok n, s')) :
    n = s.nodes.size ∧ s'.top = s.top ∧ s'.nodes.size = s.nodes.size + 1 := by
  rw [run_createNode] at h; cases h
  exact ⟨rfl, crState_top _ _ _ _, crState_size _ _ _ _⟩

end SC

/-! ## the headline statements -/

section
variable {env : Env} {sp : Nat → Val → Val} {g : Nat → Option Val}

theorem FK.noExp {k : Kind} (hk : FK env sp k) (e : Nat) : k ≠ .expert e := by
  intro h; subst h; exact hk

/-- **virtualisation commutes with `createNode`** -/
theorem SimAt.createNode {s : State} (k : Kind) (sc : Scope) (c : CutoffK) (hk : FK env sp k)
    (hb : ∀ p i, k = .mapRef p i → i < s.nodes.size) (hc : CutK k c) :
    SimAt (FK env sp) g s (Engine.createNode k sc c) (Engine.createNode (virtKind k) sc (virtCut k c)) :=
  SC.simAt_createNode sc c hk (FK.noExp hk) hb hc

theorem Sim.createVar (v : Val) (sc : Scope) :
    Sim (FK env sp) g (Engine.createVar v sc) (Engine.createVar v sc) := by
  intro s
  unfold Engine.createVar
  refine SimAt.get_seq ?_
  fnorm
  refine SimAt.seq (SimAt.createNode (.var s.vars.size) sc .eq trivial (fun p i h => by cases h)
    (Or.inl rfl)) fun _ _ _ => ?_
  fsim

theorem SimAt.createBind {s : State} (body lhs : Nat) :
    SimAt (FK env sp) g s (Engine.createBind body lhs) (Engine.createBind body lhs) := by
  unfold Engine.createBind
  refine SimAt.get_seq ?_
  fnorm
  refine SimAt.mod_seq rfl rfl ?_
  refine SimAt.seq (SimAt.createNode (.bindLhsChange s.binds.size) s.currentScope .never trivial
    (fun p i h => by cases h) (Or.inr (Or.inl rfl))) fun lc _ _ => ?_
  refine SimAt.seq (SimAt.createNode (.bindMain s.binds.size lc) s.currentScope .eq trivial
    (fun p i h => by cases h) (Or.inl rfl)) fun mn _ _ => ?_
  fsim

theorem Sim.resolveOpnd {K : Kind → Prop} (loc : List Nat) (o : Opnd) :
    Sim K g (Engine.resolveOpnd loc o) (Engine.resolveOpnd loc o) := by
  intro s; unfold Engine.resolveOpnd
  cases o <;> dsimp only <;> fsim <;> split <;> fsim
macro_rules | `(tactic| fsim_leaf) => `(tactic| with_reducible exact Sim.resolveOpnd _ _)

theorem Sim.isConstant {K : Kind → Prop} (n : Nat) : Sim K g (Engine.isConstant n) (Engine.isConstant n) := by
  intro s; unfold Engine.isConstant; fsim
  fsim_kind
macro_rules | `(tactic| fsim_leaf) => `(tactic| with_reducible exact Sim.isConstant _)

end
end IncrVerif.Proofs.FullH
