import IncrVerif.Proofs.GenF5
import IncrVerif.Proofs.OnceF6
/-!
# C03, combined fragment, part 6: NON-VACUITY on `exHistF` (the round in which the lhs of the outer bind flips)
-/
namespace IncrVerif.Proofs.GenF
open IncrVerif.Engine IncrVerif.Driver IncrVerif.Proofs IncrVerif.Proofs.Step IncrVerif.Proofs.Sched IncrVerif.Proofs.Quiet
open IncrVerif.Proofs.FullH IncrVerif.Proofs.TidyH IncrVerif.Proofs.OnceF IncrVerif.Proofs.BindH

theorem step_stab {env : Env} {s1 s2 : State} {tk : Array Nat} (k : (stabilise env fuelDefault).run.run s1 = (.ok (), s2)) :
    (stepAction env .stabilise tk).run.run s1 = (.ok ("ok", tk), s2) := by
  unfold stepAction
  dsimp only
  rw [run_bind_ok k]
  rfl

theorem stateB_snoc_stab {env : Env} {as : List Action} {s1 s2 : State} {tk1 : Array Nat}
    (h1 : Quiet.runActions env as (State.init 128 true) #[] = .ok (s1, tk1))
    (k : (stabilise env fuelDefault).run.run s1 = (.ok (), s2)) :
    C2h.stateB env as = some s1 ∧ C2h.stateB env (as ++ [Action.stabilise]) = some s2 := by
  constructor
  · simp only [C2h.stateB, h1]
  · simp only [C2h.stateB, Quiet.runActions_append, h1, Quiet.runActions, step_stab k]

/-- what is listed about a state: the dead nodes, the invalid nodes, the generation lists of the bind records -/
def summary (s : State) : List Nat × List Nat × List (List Nat) :=
  ((List.range s.nodes.size).filter (deadB s), (List.range s.nodes.size).filter (fun n => !(s.nodeD n).valid),
    s.binds.toList.map (·.allNodesCreatedOnRhs))

/-- the theorems apply at every `stabilise` of `exHistF` -/
theorem exHistF_c03 {as bs : List Action} (e : exHistF = as ++ Action.stabilise :: bs) :
    ∃ s tk s1 tk1 s2, Quiet.runActions fEnv exHistF (State.init 128 true) #[] = .ok (s, tk) ∧
      Quiet.runActions fEnv as (State.init 128 true) #[] = .ok (s1, tk1) ∧ QInvFE fEnv fSp s1 ∧
      (stabilise fEnv fuelDefault).run.run s1 = (.ok (), s2) ∧ QInvFE fEnv fSp s2 ∧
      NoDeadStab fEnv fuelDefault s1 s2 ∧ DyingStab fEnv fuelDefault s1 s2 ∧
      Quiet.runActions fEnv bs s2 tk1 = .ok (s, tk) := by
  obtain ⟨s, tk, h⟩ := exHistF_runs
  have hH := exHistF_frag
  have h0 := h
  rw [e] at h hH
  obtain ⟨s1, tk1, s2, k1, Q1, k3, Q2, -, N, k7⟩ := history_noDead fEnv_envS fEnv_first hH h
  exact ⟨s, tk, s1, tk1, s2, h0, k1, Q1, k3, Q2, N, stabilise_dying fEnv_envS fEnv_first Q1 k3, k7⟩

/-- the round of `exHistF` in which the lhs of the outer bind flips (`s1` = the state after 11 actions, `s2` = after the `stabilise` that follows) -/
theorem exHistF_flip : ∃ s1 s2, C2h.stateB fEnv (exHistF.take 11) = some s1 ∧ C2h.stateB fEnv (exHistF.take 12) = some s2 ∧
    QInvFE fEnv fSp s1 ∧ QInvFE fEnv fSp s2 ∧ (stabilise fEnv fuelDefault).run.run s1 = (.ok (), s2) ∧
    NoDeadStab fEnv fuelDefault s1 s2 ∧ DyingStab fEnv fuelDefault s1 s2 := by
  have e : exHistF = exHistF.take 11 ++ Action.stabilise :: exHistF.drop 12 := rfl
  obtain ⟨s, tk, s1, tk1, s2, -, k1, Q1, k3, Q2, N, D, -⟩ := exHistF_c03 e
  obtain ⟨a, b⟩ := stateB_snoc_stab k1 k3
  exact ⟨s1, s2, a, b, Q1, Q2, k3, N, D⟩

set_option maxRecDepth 100000 in
/-- kernel-checked: before the flip nothing is dead or invalid and the two records list `5…11` (outer) and `12, 13` (inner bind, created by the outer closure: its two
nodes are 9, 10); after the `stabilise` in which the outer lhs flips the nodes `5…13` — the outer generation INCLUDING the inner bind's two nodes, and the inner generation —
are dead and invalid, the outer record lists the new generation `14`, the inner record lists nothing; at the end of the history (two more generations) `5…14` and `22` are
dead and invalid -/
theorem exHistF_summaries :
    (C2h.stateB fEnv (exHistF.take 11)).map summary = some ([], [], [[5, 6, 7, 8, 9, 10, 11], [12, 13]]) ∧
    (C2h.stateB fEnv (exHistF.take 12)).map summary =
      some ([5, 6, 7, 8, 9, 10, 11, 12, 13], [5, 6, 7, 8, 9, 10, 11, 12, 13], [[14], []]) ∧
    (C2h.stateB fEnv exHistF).map summary =
      some ([5, 6, 7, 8, 9, 10, 11, 12, 13, 14, 22], [5, 6, 7, 8, 9, 10, 11, 12, 13, 14, 22], [[15, 16, 17, 18, 19, 20, 21], [], [23, 24]]) :=
  ⟨by decide +kernel, by decide +kernel, by decide +kernel⟩

end IncrVerif.Proofs.GenF
