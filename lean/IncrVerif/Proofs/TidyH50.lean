import IncrVerif.Proofs.TidyH38
import IncrVerif.Proofs.TidyH43
/-!
# T4, part 3: the static actions (all but `stabilise`) and `create (expert f)` RETURN on states of fragment X1
-/
namespace IncrVerif.Proofs.TidyH.XT
open IncrVerif.Engine IncrVerif.Driver IncrVerif.Proofs IncrVerif.Proofs.Step IncrVerif.Proofs.Sched
open IncrVerif.Proofs.ExpertH IncrVerif.Proofs.ExpertH.QR IncrVerif.Proofs.TidyH.XT.XR

theorem frrQ {env : Env} {rk : Nat → Nat} {s : State} (Q : QInvX env rk s) : FrR s :=
  FrR.of_frag Q.frag Q.pinv

theorem opndIn_virt (s : State) (o : Opnd) : OpndIn (virt s) o ↔ OpndIn s o := by
  cases o <;> exact Iff.rfl

theorem instrIn_virt (s : State) (i : Instr) : InstrIn (virt s) i ↔ InstrIn s i := by
  cases i <;> exact Iff.rfl

theorem actionOKs_virt (N : Nat) (s : State) (a : Action) : ActionOKs N (virt s) a ↔ ActionOKs N s a := by
  cases a <;> first | exact Iff.rfl | (simp only [ActionOKs, virt_size]; exact Iff.rfl)

theorem grown_virt {a : Action} {s s' : State} (h : Grown a (virt s) (virt s')) : Grown a s s' := by
  unfold Grown at h ⊢
  rw [virt_size, virt_size] at h
  exact h

/-- `ActionOKx` on the actions other than `stabilise`, `addDep` is `ActionOKs` -/
theorem actionOKs_of_x {N : Nat} {s : State} {a : Action} (h : ActionOKx N s a) (h1 : a ≠ .stabilise)
    (h2 : ∀ e c cb, a ≠ .addDep e c cb) : ActionOKs N s a := by
  cases a <;> first | exact h | trivial | exact absurd rfl h1 | exact absurd rfl (h2 _ _ _)

/-- **every static action of fragment X1 (all but `stabilise`) whose indices exist returns and keeps both
invariants** -/
theorem static_step_totalX {env : Env} {rk : Nat → Nat} {N : Nat} {s : State} {a : Action} {tk : Array Nat}
    (Q : QInvX env rk s) (T : TInvX N s) (ha : XStaticAction env a) (hok : ActionOKs N s a) :
    ∃ r s', (stepAction env a tk).run.run s = (.ok r, s') ∧ r.2 = tk ∧ QInvX env rk s' ∧ TInvX N s' ∧
      Grown a s s' := by
  have hns : a ≠ .stabilise := fun e => by rw [e] at ha; exact ha
  obtain ⟨r, t, hv, hr, -, Tt, hg⟩ := static_step_totalR (tk := tk) Q.q T ha.virt hns ((actionOKs_virt N s a).2 hok)
  obtain ⟨s', h, et, -⟩ := SimRAt.stepAction env tk ha.xaction (frrQ Q) r t hv
  rw [et] at Tt hg
  exact ⟨r, s', h, hr, action_static Q ha h, Tt, grown_virt hg⟩

/-! ## `create (expert f)` -/

theorem step_create_expert_run {env : Env} {f : Nat} {tk : Array Nat} {s : State} (hsc : s.currentScope = .top) :
    (stepAction env (.create (.expert f)) tk).run.run s = (.ok (s!"ok #{s.nodes.size}", tk), xCreated f s) := by
  unfold stepAction
  dsimp only
  rw [run_bind_ok (run_elab_expert env f s hsc)]
  dsimp only
  rw [run_bind_modify, run_pure]
  rfl

/-- **`create (expert f)` returns and keeps both invariants** -/
theorem create_expert_totalX {env : Env} {rk : Nat → Nat} {N f : Nat} {s : State} {tk : Array Nat}
    (Q : QInvX env rk s) (T : TInvX N s) (hf : XEnvOK env f) (hfb : f < xBase) (hroom : s.nodes.size + 1 ≤ N) :
    ∃ r s', (stepAction env (.create (.expert f)) tk).run.run s = (.ok r, s') ∧ r.2 = tk ∧ QInvX env rk s' ∧
      TInvX N s' ∧ Grown (.create (.expert f)) s s' := by
  have hsc : s.currentScope = .top := Q.q.struct.static.scope
  have h := step_create_expert_run (env := env) (f := f) (tk := tk) hsc
  refine ⟨_, _, h, rfl, step_create_expert Q hf hfb h, ?_, ?_⟩
  · exact TInvR.created (created_virt f Q.frag) T (by rw [virt_size]; exact hroom) rfl
      (by simp [virt])
  · refine ⟨?_, ?_, ?_⟩ <;> simp [xCreated, grow]

end IncrVerif.Proofs.TidyH.XT
