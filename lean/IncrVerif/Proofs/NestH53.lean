import IncrVerif.Proofs.NestH42
import IncrVerif.Proofs.BindH91
/-!
# Nested binds (F2), part 4d: the auxiliary invariant of a drain inside `stabilise`

Port of `BindH91` (`C2d`).  `DKey`, `NKey` (the frames of a drain relative to its start state) are generic and reused.  The auxiliary invariant is
`AuxS2 env t s := Aux2 env s ∧ DKey t s ∧ NKey t s` (`Aux2 env s = ∃ rk, F2Inv env rk s`: the ghost rank is re-chosen by the runs of change detectors).
-/
namespace IncrVerif.Proofs.NestH
open IncrVerif.Engine IncrVerif.Proofs IncrVerif.Proofs.Step IncrVerif.Proofs.Sched IncrVerif.Proofs.Quiet
open IncrVerif.Proofs.BindH

/-- the auxiliary invariant of a drain inside `stabilise` (fragment F2): `F2Inv` for some rank, plus the frames relative to the state `t` in which the
drain started -/
def AuxS2 (env : Env) (t : State) (s : State) : Prop := Aux2 env s ∧ DKey t s ∧ NKey t s

/-- from the scheduling hypothesis for `Aux2` and the `DKey`/`NKey` frame of every step, the scheduling hypothesis for `AuxS2` -/
theorem lcStepsOK_auxS2 {env : Env} (H : LcStepsOK2 env (Aux2 env))
    (hstep : ∀ (fuel n : Nat) (s s' : State) (r : Option Nat), DInv env s (some n) → Aux2 env s →
      (recomputeOne env fuel n).run.run s = (.ok r, s') → DKey s s' ∧ NKey s s')
    (hpop : ∀ (s s1 : State) (n : Nat), rchRemoveMin.run.run s = (.ok (some n), s1) → DKey s s1 ∧ NKey s s1)
    (t : State) : LcStepsOK2 env (AuxS2 env t) where
  lc fuel n b s s' r I A hk h := by
    obtain ⟨h1, h2⟩ := H.lc fuel n b s s' r I A.1 hk h
    obtain ⟨k1, k2⟩ := hstep fuel n s s' r I A.1 h
    exact ⟨h1, h2, A.2.1.trans k1, A.2.2.trans k2⟩
  other fuel n s s' r I A hk h := by
    obtain ⟨k1, k2⟩ := hstep fuel n s s' r I A.1 h
    exact ⟨H.other fuel n s s' r I A.1 hk h, A.2.1.trans k1, A.2.2.trans k2⟩
  pop s s1 n I A h := by
    obtain ⟨k1, k2⟩ := hpop s s1 n h
    exact ⟨H.pop s s1 n I A.1 h, A.2.1.trans k1, A.2.2.trans k2⟩

end IncrVerif.Proofs.NestH
