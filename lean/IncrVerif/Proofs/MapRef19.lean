import IncrVerif.Proofs.MapRef18
/-!
# map_ref fragment: simulation of the API actions (all but `stabilise`)
-/
namespace IncrVerif.Proofs.MapRefH
open IncrVerif.Engine IncrVerif.Proofs IncrVerif.Proofs.Step IncrVerif.Proofs.Sched IncrVerif.Proofs.Quiet

def virtInstr : Instr → Instr
  | .mapRef p i => .map (projBase + p) [i]
  | i => i

def virtAction : Action → Action
  | .create i => .create (virtInstr i)
  | a => a

/-- creation instructions of the fragment static + map_ref -/
def RInstr : Instr → Prop
  | .const _ => True
  | .var _ => True
  | .map _ _ => True
  | .fold _ _ _ => True
  | .zip _ _ => True
  | .mapRef _ _ => True
  | _ => False

/-- API actions of the fragment (all but `stabilise`) -/
def RAction : Action → Prop
  | .create i => RInstr i
  | .observe _ => True
  | .cloneObs _ => True
  | .dropObs _ => True
  | .disallow _ => True
  | .set _ _ => True
  | .modify _ _ => True
  | .update _ _ => True
  | .replace _ _ => True
  | .replaceWith _ _ => True
  | .get _ => True
  | .isStable => True
  | .stats => True
  | _ => False

/-! ## programs that do not change the state -/

/-- `s' = s` -/
def SameS (s s' : State) : Prop := s' = s
instance : Step.PreOrd SameS := ⟨fun _ => rfl, fun h1 h2 => Eq.trans h2 h1⟩

theorem RO.resolveOpnd (loc : List Nat) (o : Opnd) : Step.Pres SameS (Engine.resolveOpnd loc o) := by
  unfold Engine.resolveOpnd; qpres

theorem RO.isConstant (n : Nat) : Step.Pres SameS (Engine.isConstant n) := by
  unfold Engine.isConstant; qpres

section
variable {g : Nat → Option Val} {s : State} {α β : Type}

/-- a read-only program followed by a continuation: the continuation starts in the same state -/
theorem SimAt.ro_seq {x x' : M α} {f f' : α → M β} (hro : Step.Pres SameS x) (hx : SimAt g s x x')
    (hf : ∀ a, SimAt g s (f a) (f' a)) : SimAt g s (x >>= f) (x' >>= f') := by
  refine SimAt.seq hx fun a s1 h1 => ?_
  have e : s1 = s := hro.h s _ s1 h1
  rw [e]; exact hf a

theorem SimAt.map {x x' : M α} (f : α → β) (hx : SimAt g s x x') : SimAt g s (f <$> x) (f <$> x') := by
  rw [map_eq_pure_bind, map_eq_pure_bind]
  exact SimAt.seq hx fun _ _ _ => SimAt.ret _

theorem SimAt.discard {x x' : M α} (hx : SimAt g s x x') : SimAt g s (discard x) (discard x') := by
  unfold Functor.discard
  exact SimAt.map (Function.const α PUnit.unit) hx

theorem Sim.mapM {γ : Type} {f f' : γ → M β} (h : ∀ a, Sim g (f a) (f' a)) (l : List γ) :
    Sim g (l.mapM f) (l.mapM f') := by
  induction l with
  | nil => intro s; simp only [List.mapM_nil]; exact SimAt.ret _
  | cons a l ih =>
    intro s
    simp only [List.mapM_cons]
    exact SimAt.seq (h a s) fun _ s1 _ => SimAt.seq (ih s1) fun _ _ _ => SimAt.ret _

end

section
variable {g : Nat → Option Val}

theorem Sim.resolveOpnd (loc : List Nat) (o : Opnd) : Sim g (Engine.resolveOpnd loc o) (Engine.resolveOpnd loc o) := by
  intro s; unfold Engine.resolveOpnd
  cases o <;> dsimp only <;> sim <;> split <;> sim
macro_rules | `(tactic| sim_leaf) => `(tactic| with_reducible exact Sim.resolveOpnd _ _)

theorem Sim.isConstant (n : Nat) : Sim g (Engine.isConstant n) (Engine.isConstant n) := by
  intro s; unfold Engine.isConstant; sim
  sim_kind
macro_rules | `(tactic| sim_leaf) => `(tactic| with_reducible exact Sim.isConstant _)

theorem Sim.dropVarHandle (v : Nat) : Sim g (Engine.dropVarHandle v) (Engine.dropVarHandle v) := by
  intro s; unfold Engine.dropVarHandle; sim
macro_rules | `(tactic| sim_leaf) => `(tactic| with_reducible exact Sim.dropVarHandle _)

/-! ## node creation -/

/-- the state after `createNode k sc c` -/
def crState (k : Kind) (sc : Scope) (c : CutoffK) (s : State) : State :=
  let s1 : State := { s with
    counters := { s.counters with created := s.counters.created + 1 }
    nodes := s.nodes.push { kind := k, createdIn := sc, cutoff := c } }
  match sc with
  | .top => s1
  | .bind b => { s1 with binds := s1.binds.modify b fun x =>
      { x with allNodesCreatedOnRhs := x.allNodesCreatedOnRhs ++ [s.nodes.size] } }

theorem run_createNode (k : Kind) (sc : Scope) (c : CutoffK) (s : State) :
    (Engine.createNode k sc c).run.run s = (.ok s.nodes.size, crState k sc c s) := by
  unfold Engine.createNode crState
  cases sc <;> rfl

theorem crState_nodes (k : Kind) (sc : Scope) (c : CutoffK) (s : State) :
    (crState k sc c s).nodes = s.nodes.push { kind := k, createdIn := sc, cutoff := c } := by
  unfold crState; cases sc <;> rfl

theorem crState_pinv (k : Kind) (sc : Scope) (c : CutoffK) (s : State) :
    (crState k sc c s).propagateInvalidity = s.propagateInvalidity := by
  unfold crState; cases sc <;> rfl

theorem virtNode_new (k : Kind) (sc : Scope) (c : CutoffK) :
    virtNode none { kind := k, createdIn := sc, cutoff := c } = { kind := virtKind k, createdIn := sc, cutoff := c } := by
  cases k <;> rfl

theorem virt_push (s : State) (nd : Node) :
    (s.nodes.push nd).mapIdx (fun i x => virtNode (g i) x) =
      ((virt g s).nodes).push (virtNode (g s.nodes.size) nd) := by
  simp [virt, Array.mapIdx_push]

theorem virt_crState (k : Kind) (sc : Scope) (c : CutoffK) (s : State) (hg : g s.nodes.size = none) :
    virt g (crState k sc c s) = crState (virtKind k) sc c (virt g s) := by
  have h := virt_push (g := g) s { kind := k, createdIn := sc, cutoff := c }
  rw [hg, virtNode_new] at h
  unfold crState virt at *
  cases sc <;> simp only [] <;> rw [h] <;> simp

theorem fr_crState {k : Kind} (sc : Scope) {c : CutoffK} {s : State} (hn : Fr s) (hne : ∀ e, k ≠ .expert e)
    (hc : ∀ p i, k = .mapRef p i → c = .eq) : Fr (crState k sc c s) := by
  have hnd : ∀ m, (crState k sc c s).nodeD m = s.nodeD m ∨
      (crState k sc c s).nodeD m = { kind := k, createdIn := sc, cutoff := c } := by
    intro m
    simp only [State.nodeD, crState_nodes, Array.getElem?_push]
    split
    · right; rfl
    · left; rfl
  refine ⟨fun m e => ?_, fun m => ?_, ?_, fun m p i hk => ?_⟩
  · rcases hnd m with h | h <;> rw [h]
    · exact hn.noExp m e
    · exact hne e
  · rcases hnd m with h | h <;> rw [h]
    · exact hn.valid m
  · rw [crState_pinv]; exact hn.pinv
  · rcases hnd m with h | h <;> rw [h] at hk ⊢
    · exact hn.cut m p i hk
    · exact hc p i hk

theorem SimAt.createNode' {s : State} {k k' : Kind} (sc : Scope) (c : CutoffK) (hg : g s.nodes.size = none)
    (hk : k' = virtKind k) (hne : ∀ e, k ≠ .expert e) (hc : ∀ p i, k = .mapRef p i → c = .eq) :
    SimAt g s (Engine.createNode k sc c) (Engine.createNode k' sc c) := by
  subst hk
  intro hn r s' hr
  rw [run_createNode] at hr ⊢
  cases hr
  rw [virt_size, virt_crState k sc c s hg]
  exact ⟨rfl, fr_crState sc hn hne hc⟩

theorem SimAt.createNode {s : State} {k : Kind} {sc : Scope} {c : CutoffK} (hg : g s.nodes.size = none)
    (hne : ∀ e, k ≠ .expert e) (hc : ∀ p i, k = .mapRef p i → c = .eq) :
    SimAt g s (Engine.createNode k sc c) (Engine.createNode (virtKind k) sc c) :=
  SimAt.createNode' sc c hg rfl hne hc

theorem SimAt.createVar {s : State} (v : Val) (sc : Scope) (hg : g s.nodes.size = none) :
    SimAt g s (Engine.createVar v sc) (Engine.createVar v sc) := by
  unfold Engine.createVar
  refine SimAt.get_seq ?_
  vnorm
  refine SimAt.seq (SimAt.createNode' sc .eq hg rfl (fun e h => by cases h) (fun p i h => by cases h)) fun _ _ _ => ?_
  sim

/-! ## `elabInstr`, `stepAction` -/

/-- `some <$> createNode k sc` for a kind that is neither `expert` nor `mapRef` -/
macro "cr_node" : tactic => `(tactic|
  exact SimAt.map _ (SimAt.createNode' _ _ (by assumption) rfl (fun e h => by cases h) (fun p i h => by cases h)))

theorem SimAt.elabInstr {s : State} {i : Instr} (hg : g s.nodes.size = none) (hR : RInstr i) :
    SimAt g s (Engine.elabInstr [] .unit i) (Engine.elabInstr [] .unit (virtInstr i)) := by
  unfold Engine.elabInstr
  cases i <;> simp only [RInstr] at hR <;> simp only [virtInstr] <;> refine SimAt.get_seq ?_ <;> try vnorm
  case const v => cr_node
  case var v => exact SimAt.map _ (SimAt.createVar v .top hg)
  case map f args =>
    refine SimAt.ro_seq (Step.Pres.mapM (fun a => RO.resolveOpnd [] a) args)
      (Sim.mapM (fun a => Sim.resolveOpnd [] a) args s) fun as => ?_
    cr_node
  case fold f init cs =>
    refine SimAt.ro_seq (Step.Pres.mapM (fun a => RO.resolveOpnd [] a) cs)
      (Sim.mapM (fun a => Sim.resolveOpnd [] a) cs s) fun as => ?_
    refine SimAt.cond Iff.rfl (fun _ => ?_) (fun _ => ?_) <;> cr_node
  case mapRef p i =>
    simp only [List.mapM_cons, List.mapM_nil, bind_assoc, pure_bind]
    refine SimAt.ro_seq (RO.resolveOpnd [] i) (Sim.resolveOpnd [] i s) fun x => ?_
    exact SimAt.map _ (SimAt.createNode' _ _ hg rfl (fun e h => by cases h) (fun _ _ _ => rfl))
  case zip a b =>
    refine SimAt.ro_seq (RO.resolveOpnd [] a) (Sim.resolveOpnd [] a s) fun x => ?_
    refine SimAt.ro_seq (RO.resolveOpnd [] b) (Sim.resolveOpnd [] b s) fun y => ?_
    refine SimAt.ro_seq (RO.isConstant x) (Sim.isConstant x s) fun cx => ?_
    refine SimAt.ro_seq (RO.isConstant y) (Sim.isConstant y s) fun cy => ?_
    split <;> cr_node

theorem elabInstrM_eq (env : Env) (loc : List Nat) (v : Val) {i : Instr} (hR : RInstr i) :
    Engine.elabInstrM env loc v i = Engine.elabInstr loc v i := by
  cases i <;> first | rfl | exact absurd hR (by simp [RInstr])

theorem RInstr.virt {i : Instr} (hR : RInstr i) : RInstr (virtInstr i) := by
  cases i <;> first | exact hR | trivial

theorem SimAt.elabInstrM {s : State} {i : Instr} (env : Env) (hg : g s.nodes.size = none) (hR : RInstr i) :
    SimAt g s (Engine.elabInstrM env [] .unit i) (Engine.elabInstrM (virtEnv env) [] .unit (virtInstr i)) := by
  rw [elabInstrM_eq _ _ _ hR, elabInstrM_eq _ _ _ hR.virt]
  exact SimAt.elabInstr hg hR

theorem virt_isStable (s : State) : (virt g s).isStable = s.isStable := rfl

theorem SimAt.stepAction {s : State} {a : Action} (env : Env) (tk : Array Nat) (hg : g s.nodes.size = none)
    (hR : RAction a) :
    SimAt g s (Engine.stepAction env a tk) (Engine.stepAction (virtEnv env) (virtAction a) tk) := by
  unfold Engine.stepAction
  cases a <;> simp only [RAction] at hR <;> simp only [virtAction]
  case create i =>
    refine SimAt.seq (SimAt.elabInstrM env hg hR) fun r _ _ => ?_
    cases r <;> sim
  all_goals first
    | (refine SimAt.seq (SimAt.discard (Sim.writeVar _ _ _ _)) fun _ _ _ => ?_; sim; done)
    | (sim; done)
    | (sim; exact SimAt.ret _)

end
end IncrVerif.Proofs.MapRefH
