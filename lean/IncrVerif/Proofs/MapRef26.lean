import IncrVerif.Proofs.MapRef16
import IncrVerif.Proofs.MapRef19
/-!
# map_ref fragment: what the API actions other than `stabilise` do to existing nodes (`AFrame`)
-/
namespace IncrVerif.Proofs.MapRefH
open IncrVerif.Engine IncrVerif.Driver IncrVerif.Proofs IncrVerif.Proofs.Step IncrVerif.Proofs.Sched IncrVerif.Proofs.Quiet

/-- the fields of an existing node no API action other than `stabilise` changes -/
def aCore (nd : Node) :=
  (nd.kind, nd.valid, nd.value, nd.didChange, nd.parents, nd.observers, nd.forceNecessary, nd.cutoff)

structure AFrame (s s' : State) : Prop where
  sizeLe : s.nodes.size ≤ s'.nodes.size
  node : ∀ n, n < s.nodes.size → aCore (s'.nodeD n) = aCore (s.nodeD n)
  fresh : ∀ n, s.nodes.size ≤ n → s'.isNecessary n = false
  pinv : s'.propagateInvalidity = s.propagateInvalidity

theorem isNecessary_default_of_ge (s : State) (n : Nat) (h : s.nodes.size ≤ n) : s.isNecessary n = false := by
  unfold State.isNecessary; rw [nodeD_default_of_ge s n h]; rfl

theorem isNecessary_of_aCore {a b : Node} (h : aCore a = aCore b) : a.isNecessary = b.isNecessary := by
  simp only [aCore, Prod.mk.injEq] at h
  simp [Node.isNecessary, h.2.2.2.2.1, h.2.2.2.2.2.1, h.2.2.2.2.2.2.1]

theorem AFrame.refl (s : State) : AFrame s s :=
  ⟨Nat.le_refl _, fun _ _ => rfl, fun n h => isNecessary_default_of_ge s n h, rfl⟩

theorem AFrame.trans {a b c : State} (h1 : AFrame a b) (h2 : AFrame b c) : AFrame a c := by
  refine ⟨Nat.le_trans h1.sizeLe h2.sizeLe, fun n hn => ?_, fun n hn => ?_, h2.pinv.trans h1.pinv⟩
  · exact (h2.node n (Nat.lt_of_lt_of_le hn h1.sizeLe)).trans (h1.node n hn)
  · by_cases hb : n < b.nodes.size
    · have := h1.fresh n hn
      unfold State.isNecessary at this ⊢
      rw [isNecessary_of_aCore (h2.node n hb)]; exact this
    · exact h2.fresh n (by omega)

instance : Step.PreOrd AFrame := ⟨AFrame.refl, AFrame.trans⟩

theorem AFrame.of_nodes {s s' : State} (h1 : s'.nodes = s.nodes)
    (h2 : s'.propagateInvalidity = s.propagateInvalidity) : AFrame s s' := by
  have hnd : ∀ m, s'.nodeD m = s.nodeD m := fun m => by simp [State.nodeD, h1]
  refine ⟨by rw [h1]; exact Nat.le_refl _, fun n _ => by rw [hnd], fun n hn => ?_, h2⟩
  unfold State.isNecessary; rw [hnd]; exact isNecessary_default_of_ge s n hn

theorem AFrame.modNode (s : State) (n : Nat) (f : Node → Node) (hf : ∀ x, aCore (f x) = aCore x) :
    AFrame s { s with nodes := s.nodes.modify n f } := by
  refine ⟨by simp, fun m _ => ?_, fun m hm => ?_, rfl⟩
  · rw [nodeD_modify]; split
    · exact hf _
    · rfl
  · unfold State.isNecessary
    rw [nodeD_modify, if_neg (fun e => by omega)]
    exact isNecessary_default_of_ge s m hm

theorem AFrame.push (s : State) (nd : Node) (hp : nd.parents = []) (ho : nd.observers = [])
    (hf : nd.forceNecessary = false) : AFrame s { s with nodes := s.nodes.push nd } := by
  refine ⟨by simp, fun m hm => ?_, fun m hm => ?_, rfl⟩
  · have : ({ s with nodes := s.nodes.push nd } : State).nodeD m = s.nodeD m := by
      simp only [State.nodeD, Array.getElem?_push]
      rw [if_neg (by omega)]
    rw [this]
  · unfold State.isNecessary State.nodeD
    simp only [Array.getElem?_push]
    split
    · simp [Node.isNecessary, hp, ho, hf]
    · have : s.nodes[m]? = none := Array.getElem?_eq_none (by omega)
      rw [this]; rfl

theorem PresA.modNode (n : Nat) (f : Node → Node) (hf : ∀ x, aCore (f x) = aCore x) :
    Step.Pres AFrame (Engine.modNode n f) := by
  unfold Engine.modNode; exact Step.Pres.modify fun s => AFrame.modNode s n f hf

macro_rules
  | `(tactic| qleaf) =>
    `(tactic| ((with_reducible apply Step.Pres.modify); intro _; exact AFrame.of_nodes rfl rfl))
macro_rules
  | `(tactic| qleaf) => `(tactic| ((with_reducible apply PresA.modNode); intro _; rfl))

macro "af_leaf " n:ident : command =>
  `(macro_rules | `(tactic| qleaf) => `(tactic| with_reducible apply $n))

theorem PresA.bumpCounter (f) : Step.Pres AFrame (Engine.bumpCounter f) := by unfold Engine.bumpCounter; qpres
af_leaf PresA.bumpCounter
theorem PresA.modBind (b f) : Step.Pres AFrame (Engine.modBind b f) := by unfold Engine.modBind; qpres
af_leaf PresA.modBind

theorem PresA.createNode (k sc c) : Step.Pres AFrame (Engine.createNode k sc c) := by
  unfold Engine.createNode
  qpres
  apply Step.Pres.modify; intro s
  exact AFrame.push s _ rfl rfl rfl
af_leaf PresA.createNode

theorem PresA.createVar (v sc) : Step.Pres AFrame (Engine.createVar v sc) := by unfold Engine.createVar; qpres
af_leaf PresA.createVar
theorem PresA.resolveOpnd (loc o) : Step.Pres AFrame (Engine.resolveOpnd loc o) := by
  unfold Engine.resolveOpnd; qpres
af_leaf PresA.resolveOpnd
theorem PresA.isConstant (n) : Step.Pres AFrame (Engine.isConstant n) := by unfold Engine.isConstant; qpres
af_leaf PresA.isConstant

theorem PresA.elabInstr {i : Instr} (h : RInstr i) : Step.Pres AFrame (Engine.elabInstr [] .unit i) := by
  unfold Engine.elabInstr
  cases i <;> simp only [RInstr] at h <;> qpres

theorem PresA.elabInstrM (env : Env) {i : Instr} (h : RInstr i) :
    Step.Pres AFrame (Engine.elabInstrM env [] .unit i) := by
  rw [elabInstrM_eq _ _ _ h]; exact PresA.elabInstr h

theorem PresA.getObs (o) : Step.Pres AFrame (Engine.getObs o) := by unfold Engine.getObs; qpres
af_leaf PresA.getObs
theorem PresA.modObs (o f) : Step.Pres AFrame (Engine.modObs o f) := by unfold Engine.modObs; qpres
af_leaf PresA.modObs
theorem PresA.disallowFutureUse (o) : Step.Pres AFrame (Engine.disallowFutureUse o) := by
  unfold Engine.disallowFutureUse; qpres
af_leaf PresA.disallowFutureUse
theorem PresA.getVar (v) : Step.Pres AFrame (Engine.getVar v) := Step.Pres.getVar v
theorem PresA.modVar (v f) : Step.Pres AFrame (Engine.modVar v f) := by unfold Engine.modVar; qpres
af_leaf PresA.modVar
theorem PresA.rchLink (n) : Step.Pres AFrame (Engine.rchLink n) := by unfold Engine.rchLink; qpres
af_leaf PresA.rchLink
theorem PresA.rchInsert (n) : Step.Pres AFrame (Engine.rchInsert n) := by unfold Engine.rchInsert; qpres
af_leaf PresA.rchInsert
theorem PresA.didSetVarWhileNotStabilising (v) : Step.Pres AFrame (Engine.didSetVarWhileNotStabilising v) := by
  unfold Engine.didSetVarWhileNotStabilising; qpres
af_leaf PresA.didSetVarWhileNotStabilising
theorem PresA.writeVar (v f b) : Step.Pres AFrame (Engine.writeVar v f b) := by
  unfold Engine.writeVar; qpres
af_leaf PresA.writeVar

theorem PresA.discard {α} {x : M α} (h : Step.Pres AFrame x) : Step.Pres AFrame (discard x) := by
  unfold Functor.discard; exact Step.Pres.map _ h

theorem PresA.stepAction (env : Env) (a : Action) (tk : Array Nat) (h : RAction a) :
    Step.Pres AFrame (Engine.stepAction env a tk) := by
  unfold Engine.stepAction
  cases a <;> simp only [RAction] at h
  case create i =>
    refine Step.Pres.bind (PresA.elabInstrM env h) fun r => ?_
    qpres
  all_goals first
    | (qpres; done)
    | (refine Step.Pres.bind (PresA.discard (PresA.writeVar _ _ _)) fun _ => ?_; qpres; done)

/-! ## corollaries -/

theorem AFrame.valueCore {s s' : State} (A : AFrame s s') {n : Nat} (hn : n < s.nodes.size) :
    Step.valueCore (s'.nodeD n) = Step.valueCore (s.nodeD n) := by
  have := A.node n hn
  simp only [aCore, Prod.mk.injEq] at this
  simp only [Step.valueCore, this.1, this.2.1, this.2.2.1]

theorem AFrame.value {env : Env} {s s' : State} (A : AFrame s s') (F : RFrag env s) :
    ∀ n, n < s.nodes.size → s'.value env n = s.value env n := by
  intro n hn
  unfold State.value
  exact Step.valueWith_congr_below env.proj s s' F.mapRefsBack n
    (fun m hm => A.valueCore (by omega)) _ _ (by omega) (by have := A.sizeLe; omega)

theorem AFrame.isNecessary {s s' : State} (A : AFrame s s') :
    ∀ n, n < s.nodes.size → s'.isNecessary n = s.isNecessary n := by
  intro n hn
  unfold State.isNecessary
  exact isNecessary_of_aCore (A.node n hn)

theorem AFrame.kind {s s' : State} (A : AFrame s s') {n : Nat} (hn : n < s.nodes.size) :
    (s'.nodeD n).kind = (s.nodeD n).kind := by
  have := A.node n hn; simp only [aCore, Prod.mk.injEq] at this; exact this.1

theorem AFrame.didChange {s s' : State} (A : AFrame s s') {n : Nat} (hn : n < s.nodes.size) :
    (s'.nodeD n).didChange = (s.nodeD n).didChange := by
  have := A.node n hn; simp only [aCore, Prod.mk.injEq] at this; exact this.2.2.2.1

theorem AFrame.kInv {env : Env} {g : Nat → Option Val} {s s' : State} (A : AFrame s s') (F : RFrag env s)
    (K : KInv env g s) : KInv env g s' := by
  intro m p i hnec hk hd
  by_cases hm : m < s.nodes.size
  · rw [A.isNecessary m hm] at hnec
    rw [A.kind hm] at hk
    rw [A.didChange hm] at hd
    rw [A.value F m hm]
    exact K m p i hnec hk hd
  · rw [A.fresh m (by omega)] at hnec; cases hnec

end IncrVerif.Proofs.MapRefH
