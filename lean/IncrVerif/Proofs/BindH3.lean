import IncrVerif.Proofs.BindH2
import IncrVerif.Engine.Run
/-!
# Binds, part 1c: non-vacuity of the ordering lemma on states reached by concrete histories
-/
namespace IncrVerif.Proofs.BindH
open IncrVerif.Engine IncrVerif.Proofs IncrVerif.Proofs.Step IncrVerif.Proofs.Sched

/-- `f0` = sum of the integer views.  Closure 0: on an even lhs `map f0 n1 n1`, on an odd lhs `map f0 n1`;
closure 1: `map f0 n5`. -/
def bEnv : Env :=
  { exEnv with
    body := fun b lhs =>
      if b = 0 then
        if lhs.toInt % 2 = 0 then { instrs := [.map 0 [.outer 1, .outer 1]], ret := .loc 0 }
        else { instrs := [.map 0 [.outer 1]], ret := .loc 0 }
      else { instrs := [.map 0 [.outer 5]], ret := .loc 0 } }

/-- run API actions, ignoring results -/
def runActs (env : Env) : List Action → State → State
  | [], s => s
  | a :: as, s => runActs env as ((stepAction env a #[]).run.run s).2

/-- the state a run ended in -/
def after {α} (x : M α) (s : State) : State := (x.run.run s).2

def retOf {α} (x : M α) (s : State) : Option α :=
  match (x.run.run s).1 with
  | .ok a => some a
  | .error _ => none

theorem run_eq_of_retOf {α} {x : M α} {s : State} {a : α} (h : retOf x s = some a) :
    x.run.run s = (.ok a, after x s) := by
  unfold retOf at h
  unfold after
  rcases hx : x.run.run s with ⟨r, s'⟩
  rw [hx] at h
  cases r with
  | ok b => simp only [Option.some.injEq] at h; subst h; rfl
  | error e => cases h

/-! ## example 1: a node of the scope is POPPED -/

/-- v0 = 0, v1 = 1, `bind b0 v0` (closure run on 0 creates node 4 = `map f0 [1, 1]` in scope `.bind 0`), observed,
stabilised; then `v1 := 5`; the state in which the next `stabilise` starts draining -/
def exA0 : State :=
  runActs bEnv [.create (.var (.int 0)), .create (.var (.int 1)), .create (.bind 0 (.outer 0)),
    .observe (.outer 2), .stabilise, .set 1 (.int 5)] (State.init 8 true)

/-- … after the pop of the var node 1 and its `recompute`: node 4 (two edges to node 1) is queued -/
def exA : State := after (recompute bEnv 9 1) (after rchRemoveMin exA0)

example : orderInvB exA0 none = true := by decide +kernel
theorem exA_order : OrderInv exA none := orderInvB_sound (by decide +kernel)

/-- the pop returns node 4, which is valid and was created in scope `.bind 0`; the bind's change detector is
node 2 -/
theorem exA_pop : rchRemoveMin.run.run exA = (.ok (some 4), after rchRemoveMin exA) :=
  run_eq_of_retOf (by decide +kernel)

example : (exA.nodeD 4).valid = true ∧ (exA.nodeD 4).createdIn = .bind 0 ∧
    (exA.nodeD 4).kind = .map 0 [1, 1] ∧ (exA.binds[0]?.map (·.lhsChange)) = some 2 := by decide +kernel

/-- `pop_order` applies -/
example : Settled exA 0 ∧ Settled (after rchRemoveMin exA) 0 :=
  let h := pop_order exA_order exA_pop (by decide +kernel) (by decide +kernel)
  ⟨h.1, h.2.1⟩

/-! ## example 2: a node of the scope is HANDED OVER -/

/-- as above with v0 = 1: the closure creates node 4 = `map f0 [1]` (one child) -/
def exB0 : State :=
  runActs bEnv [.create (.var (.int 1)), .create (.var (.int 1)), .create (.bind 0 (.outer 0)),
    .observe (.outer 2), .stabilise, .set 1 (.int 5)] (State.init 8 true)

/-- node 1 has been popped and is the current node -/
def exB : State := after rchRemoveMin exB0

theorem exB_order : OrderInv exB (some 1) := orderInvB_sound (by decide +kernel)

theorem exB_handover : (parentIterCanRecomputeNow 4 1).run.run exB =
    (.ok true, after (parentIterCanRecomputeNow 4 1) exB) :=
  run_eq_of_retOf (by decide +kernel)

example : (4, 0) ∈ (exB.nodeD 1).parents ∧ exB.isNecessary 4 = true ∧ (exB.nodeD 4).createdIn = .bind 0 := by
  decide +kernel

/-- `handover_order` applies; and the whole `recompute` of node 1 does run node 4 in the direct chain -/
example : Settled exB 0 :=
  (handover_order exB_order (i := 0) (by decide +kernel) exB_handover (by decide +kernel) (by decide +kernel)).1

example : ((after (recompute bEnv 9 1) exB).nodeD 4).recomputedAt = exB.stabNum := by decide +kernel

/-! ## example 3: the D2 guard -/

/-- v0, v1; node 2 = `map f0 [v0]` (the lhs); nodes 3, 4, 5 = a chain of one-child maps over v1; node 6 = `map f0 [2]`,
observed first (so that the lhs has two parents and the second one, the change detector, is queued rather than
handed over); `bind b1 n2` (change detector 7, main 8; its closure creates node 9 = `map f0 [5]`); both vars written -/
def exD0 : State :=
  runActs bEnv [.create (.var (.int 0)), .create (.var (.int 0)), .create (.map 0 [.outer 0]),
    .create (.map 0 [.outer 1]), .create (.map 0 [.outer 3]), .create (.map 0 [.outer 4]),
    .create (.map 0 [.outer 2]), .create (.bind 1 (.outer 2)), .observe (.outer 6), .observe (.outer 7),
    .stabilise, .set 0 (.int 1), .set 1 (.int 1)]
    (State.init 8 true)

/-- v0 popped, its chain 0 → 2 → 6 ran (the change detector 7 is queued at height 3); v1 popped, the direct chain
1 → 3 → 4 ran; node 5 (height 4) is the current node -/
def exD : State :=
  after (recomputeOne bEnv 9 4) (after (recomputeOne bEnv 9 3) (after (recomputeOne bEnv 9 1)
    (after rchRemoveMin (after (recompute bEnv 9 0) (after rchRemoveMin exD0)))))

theorem exD_order : OrderInv exD (some 5) := orderInvB_sound (by decide +kernel)

example : (exD.binds[0]?.map (·.lhsChange)) = some 7 ∧ (exD.nodeD 7).inRch = true ∧
    (exD.nodeD 9).valid = true ∧ exD.isNecessary 9 = true ∧ (exD.nodeD 9).createdIn = .bind 0 ∧
    (exD.nodeD 9).kind = .map 0 [5] ∧ (exD.nodeD 5).height = 4 ∧ (exD.nodeD 7).height = 3 := by
  decide +kernel

/-- the child (height 4) is above the scope (height 3), so without the `min_height > scope.height()` guard node 9
would be recomputed at once — before the change detector; with it node 5's `recomputeOne` hands nothing over and
node 9 is queued -/
example : retOf (recomputeOne bEnv 9 5) exD = some none ∧
    ((after (recomputeOne bEnv 9 5) exD).nodeD 9).inRch = true := by decide +kernel

/-- `queued_blocks_handover` applies -/
example (s' : State) : (parentIterCanRecomputeNow 9 5).run.run exD ≠ (.ok true, s') := by
  have h7 : (exD.binds[0]?.map (·.lhsChange)) = some 7 := by decide +kernel
  cases hb : exD.binds[0]? with
  | none => rw [hb] at h7; cases h7
  | some br =>
    rw [hb] at h7
    have e : br.lhsChange = 7 := by simpa using h7
    exact queued_blocks_handover exD_order hb (by rw [e]; decide +kernel) (by decide +kernel)
      (by decide +kernel) (by decide +kernel)

end IncrVerif.Proofs.BindH
