import IncrVerif.Proofs.NestH113
/-!
# Nested binds (F2), part 7b: the specification-level semantics `den2` knows nothing the text-level semantics `Spec.denoteTop` does not know

Under `ProgOK p env s`: `den2 env s k top[j] = some w → ∃ f, denoteTop p f j = some w` (`N7.den2_to_denote`).  The core is `N7.body_to_denote`: what a closure
evaluates to by `denBody` it evaluates to by `denoteTemplate`, when the evaluator of the named nodes agrees with `denoteTop`.
-/
namespace IncrVerif.Proofs.NestH
open IncrVerif.Engine IncrVerif.Driver IncrVerif.Proofs IncrVerif.Proofs.Step IncrVerif.Proofs.Sched IncrVerif.Proofs.Quiet
open IncrVerif.Proofs.BindH
open IncrVerif.Spec

namespace N7
open IncrVerif.Proofs.BindH.C3d IncrVerif.Proofs.NestH.N5d

/-! ## `den2` at a top-level node, by kind -/

theorem den2_const {env : Env} {s : State} {n : Nat} {v : Val} (h : (s.nodeD n).kind = .const v) (k : Nat) :
    den2 env s (k+1) n = some v := by
  rw [den2]; simp only [h]

theorem den2_var {env : Env} {s : State} {n c : Nat} (h : (s.nodeD n).kind = .var c) (k : Nat) :
    den2 env s (k+1) n = (s.vars[c]?).map VarCell.value := by
  rw [den2]; simp only [h]

theorem den2_map {env : Env} {s : State} {n g : Nat} {ns : List Nat} (h : (s.nodeD n).kind = .map g ns) (k : Nat) :
    den2 env s (k+1) n = (evalArgs (den2 env s k) ns).map (env.fn g) := by
  rw [den2]; simp only [h]

theorem den2_fold {env : Env} {s : State} {n g : Nat} {init : Val} {ns : List Nat}
    (h : (s.nodeD n).kind = .fold g init ns) (k : Nat) :
    den2 env s (k+1) n = (evalArgs (den2 env s k) ns).map (List.foldl (env.foldStep g) init) := by
  rw [den2]; simp only [h]

theorem den2_bindMain {env : Env} {s : State} {n b lc : Nat} {br : BindRec} (h : (s.nodeD n).kind = .bindMain b lc)
    (hb : s.binds[b]? = some br) (k : Nat) :
    den2 env s (k+1) n = (den2 env s k br.lhs).bind (denBody env (den2 env s k) s.top k br.body) := by
  rw [den2]; simp only [h, hb]
  cases den2 env s k br.lhs <;> rfl

theorem evalArgs_resolve (s : State) (ev : Nat → Option Val) :
    ∀ (args : List Opnd) (ns : List Nat), resolveAll s [] args = some ns →
      evalArgs ev ns = allSome (args.map (denOpnd ev s.top [])) := by
  intro args
  induction args with
  | nil => intro ns e; simp only [resolveAll] at e; cases e; rfl
  | cons a as ih =>
    intro ns e
    simp only [resolveAll] at e
    cases h1 : resolveP s [] a with
    | none => rw [h1] at e; cases e
    | some n =>
      cases h2 : resolveAll s [] as with
      | none => rw [h1, h2] at e; cases e
      | some ms =>
        rw [h1, h2] at e
        cases e
        have e1 : denOpnd ev s.top [] a = ev n := by
          cases a with
          | outer k => simp only [resolveP] at h1; simp only [denOpnd, h1]
          | loc j => simp only [resolveP] at h1; simp at h1
          | abs _ => simp only [resolveP] at h1; cases h1
          | slot _ => simp only [resolveP] at h1; cases h1
        simp only [List.map_cons, allSome, evalArgs]
        rw [e1, ih ms h2]
        cases ev n <;> cases allSome (as.map (denOpnd ev s.top [])) <;> rfl

theorem resolveAll_nil_inv (s : State) (L : List Nat) : ∀ (args : List Opnd), resolveAll s L args = some [] → args = [] := by
  intro args e
  cases args with
  | nil => rfl
  | cons a as =>
    simp only [resolveAll] at e
    cases h1 : resolveP s L a with
    | none => rw [h1] at e; cases e
    | some n =>
      cases h2 : resolveAll s L as with
      | none => rw [h1, h2] at e; cases e
      | some ms => rw [h1, h2] at e; cases e

/-- a top-level `const`/`map`/`fold` node evaluates as its instruction does -/
theorem den2_static {env : Env} {s : State} {n : Nat} {i : Instr} (hi : i ≠ .lhsConst)
    (hk : kindOfInstr s [] .unit i = some (s.nodeD n).kind) (k : Nat) :
    den2 env s (k+1) n = denInstr env (den2 env s k) s.top .unit [] i := by
  cases i <;> simp only [kindOfInstr] at hk <;> try (first | cases hk | exact absurd rfl hi)
  · rename_i v
    injection hk with hk
    rw [den2_const hk.symm]; rfl
  · rename_i g args
    cases h1 : resolveAll s [] args with
    | none => rw [h1] at hk; cases hk
    | some ns =>
      rw [h1] at hk
      simp only [Option.map_some] at hk
      injection hk with hk
      rw [den2_map hk.symm, evalArgs_resolve s _ args ns h1]; rfl
  · rename_i g init cs
    cases h1 : resolveAll s [] cs with
    | none => rw [h1] at hk; cases hk
    | some ns =>
      rw [h1] at hk
      simp only [Option.map_some] at hk
      injection hk with hk
      simp only [denInstr]
      rw [← evalArgs_resolve s _ cs ns h1]
      by_cases he : ns.isEmpty = true
      · rw [if_pos he] at hk
        rw [den2_const hk.symm]
        have : ns = [] := List.isEmpty_iff.1 he
        rw [this]; rfl
      · rw [if_neg he] at hk
        rw [den2_fold hk.symm]

/-- a top-level bind evaluates as its instruction does -/
theorem den2_bind {env : Env} {s : State} {n b lc kk : Nat} {br : BindRec} (h : (s.nodeD n).kind = .bindMain b lc)
    (hb : s.binds[b]? = some br) (hl : s.top[kk]? = some br.lhs) (k : Nat) :
    den2 env s (k+1) n =
      denInstr2 env (den2 env s k) s.top (denBody env (den2 env s k) s.top k) .unit [] (.bind br.body (.outer kk)) := by
  rw [den2_bindMain h hb, denInstr2_bind]
  simp only [denOpnd, hl]

theorem instrD_ncp {P : Nat → Prop} {i : Instr} (h : InstrD P i) :
    (∀ n c, i ≠ .cutoff n c) ∧ (∀ k o, i ≠ .publish k o) := by
  cases i <;> first | exact h.elim | (refine ⟨?_, ?_⟩ <;> intro _ _ e <;> cases e)

/-! ## from `den2` to `denoteTop` -/

section A
variable (p : RefProg) (ev : Nat → Option Val) (top : Array Nat)

/-- the evaluator of the named nodes knows nothing `denoteTop` does not know -/
def EvLe : Prop := ∀ (ka na : Nat) (w : Val), top[ka]? = some na → ev na = some w → ∃ f, denoteTop p f ka = some w

variable {p ev top}

theorem a_opnd (EV : EvLe p ev top) (V : List (Option Val)) (o : Opnd) (w : Val) (e : denOpnd ev top V o = some w) :
    ∃ F, ∀ f, F ≤ f → ∀ L, LeVals V L → denoteOpnd p f L o = some w := by
  cases o with
  | outer k =>
    simp only [denOpnd] at e
    cases ht : top[k]? with
    | none => rw [ht] at e; cases e
    | some n =>
      rw [ht] at e
      obtain ⟨f0, hf0⟩ := EV k n w ht e
      refine ⟨f0 + 1, fun f hf L _ => ?_⟩
      obtain ⟨f', rfl⟩ : ∃ f', f = f' + 1 := ⟨f - 1, by omega⟩
      rw [opnd_outer]
      exact denoteTop_mono hf0 f' (by omega)
  | loc j =>
    simp only [denOpnd] at e
    refine ⟨1, fun f hf L hL => ?_⟩
    obtain ⟨f', rfl⟩ : ∃ f', f = f' + 1 := ⟨f - 1, by omega⟩
    rw [opnd_loc]
    exact hL.2 j w e
  | abs _ => simp only [denOpnd] at e; cases e
  | slot _ => simp only [denOpnd] at e; cases e

theorem a_opnds (EV : EvLe p ev top) (V : List (Option Val)) :
    ∀ (args : List Opnd) (ws : List Val), allSome (args.map (denOpnd ev top V)) = some ws →
      ∃ F, ∀ f, F ≤ f → ∀ L, LeVals V L → args.mapM (denoteOpnd p f L) = some ws := by
  intro args
  induction args with
  | nil =>
    intro ws e
    simp only [List.map_nil, allSome] at e
    cases e
    exact ⟨0, fun f _ L _ => by simp⟩
  | cons a as ih =>
    intro ws e
    simp only [List.map_cons, allSome] at e
    cases h1 : denOpnd ev top V a with
    | none => rw [h1] at e; cases e
    | some x =>
      cases h2 : allSome (as.map (denOpnd ev top V)) with
      | none => rw [h1, h2] at e; cases e
      | some xs =>
        rw [h1, h2] at e
        cases e
        obtain ⟨F1, hF1⟩ := a_opnd EV V a x h1
        obtain ⟨F2, hF2⟩ := ih xs h2
        refine ⟨max F1 F2, fun f hf L hL => ?_⟩
        rw [List.mapM_cons, hF1 f (by omega) L hL, hF2 f (by omega) L hL]
        rfl

/-- one instruction -/
theorem a_instr (EV : EvLe p ev top) {rec : Nat → Val → Option Val} {P : Nat → Prop}
    (hrec : ∀ b x w, P b → rec b x = some w → ∃ f, denoteTemplate p f (p.env.body b x) x = some w)
    {i : Instr} (hi : InstrD P i) (lv : Val) (V : List (Option Val)) (w : Val)
    (e : denInstr2 p.env ev top rec lv V i = some w) :
    ∃ F, ∀ f, F ≤ f → ∀ L, LeVals V L → denoteInstr p f L lv i = some w := by
  cases i <;> first | exact hi.elim | skip
  · -- const
    rename_i v
    refine ⟨1, fun f hf L _ => ?_⟩
    obtain ⟨f', rfl⟩ : ∃ f', f = f' + 1 := ⟨f - 1, by omega⟩
    rw [instr_const]; exact e
  · refine ⟨1, fun f hf L _ => ?_⟩
    obtain ⟨f', rfl⟩ : ∃ f', f = f' + 1 := ⟨f - 1, by omega⟩
    rw [instr_lhsConst]; exact e
  · rename_i g args
    have e' : (allSome (args.map (denOpnd ev top V))).map (p.env.fn g) = some w := e
    cases h1 : allSome (args.map (denOpnd ev top V)) with
    | none => rw [h1] at e'; cases e'
    | some ws =>
      rw [h1] at e'
      obtain ⟨F, hF⟩ := a_opnds EV V args ws h1
      refine ⟨F + 1, fun f hf L hL => ?_⟩
      obtain ⟨f', rfl⟩ : ∃ f', f = f' + 1 := ⟨f - 1, by omega⟩
      rw [instr_map, hF f' (by omega) L hL]; exact e'
  · rename_i g init cs
    have e' : (allSome (cs.map (denOpnd ev top V))).map (List.foldl (p.env.foldStep g) init) = some w := e
    cases h1 : allSome (cs.map (denOpnd ev top V)) with
    | none => rw [h1] at e'; cases e'
    | some ws =>
      rw [h1] at e'
      obtain ⟨F, hF⟩ := a_opnds EV V cs ws h1
      refine ⟨F + 1, fun f hf L hL => ?_⟩
      obtain ⟨f', rfl⟩ : ∃ f', f = f' + 1 := ⟨f - 1, by omega⟩
      rw [instr_fold, hF f' (by omega) L hL]; exact e'
  · rename_i b o
    rw [denInstr2_bind] at e
    cases h1 : denOpnd ev top V o with
    | none => rw [h1] at e; cases e
    | some x =>
      rw [h1] at e
      obtain ⟨F1, hF1⟩ := a_opnd EV V o x h1
      obtain ⟨f2, hf2⟩ := hrec b x w hi e
      refine ⟨max F1 f2 + 1, fun f hf L hL => ?_⟩
      obtain ⟨f', rfl⟩ : ∃ f', f = f' + 1 := ⟨f - 1, by omega⟩
      rw [instr_bind, hF1 f' (by omega) L hL]
      exact denoteTemplate_mono hf2 f' (by omega)

/-- the instructions of a template, in order -/
theorem a_list (EV : EvLe p ev top) {rec : Nat → Val → Option Val} {P : Nat → Prop}
    (hrec : ∀ b x w, P b → rec b x = some w → ∃ f, denoteTemplate p f (p.env.body b x) x = some w) (lv : Val) :
    ∀ (is : List Instr), (∀ i, i ∈ is → InstrD P i) → ∀ (V : List (Option Val)),
      ∃ F, ∀ f, F ≤ f → ∀ L, LeVals V L →
        LeVals (denInstrs2 p.env ev top rec lv is V) (is.foldl (stepD p f lv) L) := by
  intro is
  induction is with
  | nil => intro _ V; exact ⟨0, fun f _ L hL => hL⟩
  | cons i is ih =>
    intro hall V
    have hi := hall i (List.mem_cons_self ..)
    have h1 : ∃ F1, ∀ f, F1 ≤ f → ∀ L, LeVals V L → ∀ w, denInstr2 p.env ev top rec lv V i = some w →
        denoteInstr p f L lv i = some w := by
      cases hx : denInstr2 p.env ev top rec lv V i with
      | none => exact ⟨0, fun f _ L _ w e => by cases e⟩
      | some w =>
        obtain ⟨F, hF⟩ := a_instr EV hrec hi lv V w hx
        exact ⟨F, fun f hf L hL w' e => by cases e; exact hF f hf L hL⟩
    obtain ⟨F1, hF1⟩ := h1
    obtain ⟨F2, hF2⟩ := ih (fun x hx => hall x (List.mem_cons_of_mem _ hx)) (V ++ [denInstr2 p.env ev top rec lv V i])
    refine ⟨max F1 F2, fun f hf L hL => ?_⟩
    simp only [denInstrs2, List.foldl_cons]
    rw [stepD_eq p f lv L i (instrD_ncp hi).1 (instrD_ncp hi).2]
    exact hF2 f (by omega) _ (hL.snoc (fun w hw => hF1 f (by omega) L hL w hw))

/-- **closures**: what `denBody` computes, `denoteTemplate` computes -/
theorem body_to_denote (EV : EvLe p ev top) :
    ∀ (kb g body : Nat) (v w : Val), BodyD p.env g body → denBody p.env ev top kb body v = some w →
      ∃ f, denoteTemplate p f (p.env.body body v) v = some w := by
  intro kb
  induction kb with
  | zero => intro g body v w _ e; unfold denBody at e; cases e
  | succ kb ih =>
    intro g body v w hB e
    cases g with
    | zero => exact hB.elim
    | succ g =>
      unfold denBody at e
      simp only at e
      have hrec : ∀ b x w, BodyD p.env g b → denBody p.env ev top kb b x = some w →
          ∃ f, denoteTemplate p f (p.env.body b x) x = some w := fun b x w hb h => ih g b x w hb h
      obtain ⟨F1, hF1⟩ := a_list EV hrec v (p.env.body body v).instrs (hB v) []
      obtain ⟨F2, hF2⟩ := a_opnd EV _ _ w e
      refine ⟨max F1 F2 + 2, ?_⟩
      rw [templ_succ, templWith_succ]
      exact hF2 _ (by omega) _ (hF1 _ (by omega) [] (LeVals.refl []))

end A

/-! ## top-level nodes -/

section top
variable {p : RefProg} {env : Env} {s : State}

/-- the instruction of a named node -/
theorem instr_of (P : ProgOK p env s) {j n : Nat} (hj : s.top[j]? = some n) :
    ∃ i, p.nodes[j]? = some i ∧ TopImg p s j i n := by
  have hlt : j < p.nodes.size := by
    rw [P.size]
    exact (Array.getElem?_eq_some_iff.1 hj).1
  exact ⟨p.nodes[j], Array.getElem?_eq_getElem hlt, P.img j _ n (Array.getElem?_eq_getElem hlt) hj⟩

/-- a named node of kind `const v` denotes `v` (`zip` of two constants is created as a constant) -/
theorem const_to_denote (P : ProgOK p env s) :
    ∀ (j n : Nat) (v : Val), s.top[j]? = some n → (s.nodeD n).kind = .const v → ∃ f, denoteTop p f j = some v := by
  intro j
  induction j using Nat.strongRecOn with
  | ind j ih =>
    intro n v hj hk
    obtain ⟨i, hi, himg⟩ := instr_of P hj
    cases i <;> simp only [TopImg] at himg
    · -- const
      rename_i v'
      simp only [kindOfInstr, hk] at himg
      obtain ⟨-, e⟩ := himg
      injection e with e; injection e with e
      refine ⟨2, ?_⟩
      rw [top_instr p 1 j _ hi (fun _ e => by cases e), instr_const, e]
    · exact absurd rfl himg.1
    · obtain ⟨c, hc, -⟩ := himg
      rw [hk] at hc; cases hc
    · -- map
      rename_i g args
      obtain ⟨-, e⟩ := himg
      simp only [kindOfInstr, hk] at e
      cases h1 : resolveAll s [] args with
      | none => rw [h1] at e; cases e
      | some ns => rw [h1] at e; simp only [Option.map_some] at e; injection e with e; cases e
    · -- fold
      rename_i g init cs
      obtain ⟨-, e⟩ := himg
      simp only [kindOfInstr, hk] at e
      cases h1 : resolveAll s [] cs with
      | none => rw [h1] at e; cases e
      | some ns =>
        rw [h1] at e
        simp only [Option.map_some] at e
        injection e with e
        by_cases he : ns.isEmpty = true
        · rw [if_pos he] at e
          injection e with e
          have hns : ns = [] := List.isEmpty_iff.1 he
          rw [hns] at h1
          have hcs := resolveAll_nil_inv s [] cs h1
          refine ⟨2, ?_⟩
          rw [top_instr p 1 j _ hi (fun _ e => by cases e), instr_fold, hcs, e]
          rfl
        · rw [if_neg he] at e; cases e
    · obtain ⟨-, e⟩ := himg; simp only [kindOfInstr] at e; cases e
    · obtain ⟨-, e⟩ := himg; simp only [kindOfInstr] at e; cases e
    · obtain ⟨k, b, lc, br, -, hc, -⟩ := himg
      rw [hk] at hc; cases hc
    · -- zip
      rename_i a b
      obtain ⟨ka, kb, na, nb, rfl, rfl, hka, hkb, hna, hnb, hor⟩ := himg
      rcases hor with hc | ⟨va, vb, hca, hcb, hc⟩
      · rw [hk] at hc; cases hc
      · rw [hk] at hc
        injection hc with hc
        obtain ⟨fa, hfa⟩ := ih ka hka na va hna hca
        obtain ⟨fb, hfb⟩ := ih kb hkb nb vb hnb hcb
        refine ⟨max fa fb + 3, ?_⟩
        rw [top_instr p _ j _ hi (fun _ e => by cases e), instr_zip, opnd_outer, opnd_outer,
          denoteTop_mono hfa (max fa fb) (by omega), denoteTop_mono hfb (max fa fb) (by omega), hc]
        rfl
    all_goals (obtain ⟨-, e⟩ := himg; simp only [kindOfInstr] at e; cases e)

/-- **from `den2` to `denoteTop`**: what the specification-level semantics computes for a named node, the text-level semantics computes -/
theorem den2_to_denote (P : ProgOK p env s) (Z : ZipPair env) :
    ∀ (k j n : Nat) (w : Val), s.top[j]? = some n → den2 env s k n = some w → ∃ f, denoteTop p f j = some w := by
  have henv := P.env
  subst henv
  intro k
  induction k with
  | zero => intro j n w _ e; rw [den2] at e; cases e
  | succ k ih =>
    intro j n w hj e
    have EV : EvLe p (den2 p.env s k) s.top := fun ka na w h1 h2 => ih ka na w h1 h2
    have hrec : ∀ b x w, (∃ g, BodyD p.env g b) → denBody p.env (den2 p.env s k) s.top k b x = some w →
        ∃ f, denoteTemplate p f (p.env.body b x) x = some w :=
      fun b x w ⟨g, hg⟩ h => body_to_denote EV k g b x w hg h
    obtain ⟨i, hi, himg⟩ := instr_of P hj
    -- the instructions evaluated through `denInstr2`
    have hD : ∀ (hv : ∀ v, i ≠ .var v), InstrD (fun b => ∃ g, BodyD p.env g b) i →
        den2 p.env s (k+1) n = denInstr2 p.env (den2 p.env s k) s.top (denBody p.env (den2 p.env s k) s.top k) .unit [] i →
        ∃ f, denoteTop p f j = some w := by
      intro hv hI hd
      rw [hd] at e
      obtain ⟨F, hF⟩ := a_instr EV hrec hI .unit [] w e
      refine ⟨F + 1, ?_⟩
      rw [top_instr p F j i hi hv]
      exact hF F (Nat.le_refl _) [] (LeVals.refl [])
    cases i <;> simp only [TopImg] at himg
    · exact hD (fun _ e => by cases e) trivial
        (by rw [den2_static himg.1 himg.2, denInstr2_not_bind _ _ _ _ _ _ _ (fun _ _ e => by cases e)])
    · exact absurd rfl himg.1
    · -- var
      rename_i v0
      obtain ⟨c, hc, hl⟩ := himg
      rw [den2_var hc] at e
      refine ⟨1, ?_⟩
      rw [top_var p 0 j v0 hi, hl]
      simp only [Option.bind_some]
      rw [P.vars c]; exact e
    · exact hD (fun _ e => by cases e) trivial
        (by rw [den2_static himg.1 himg.2, denInstr2_not_bind _ _ _ _ _ _ _ (fun _ _ e => by cases e)])
    · exact hD (fun _ e => by cases e) trivial
        (by rw [den2_static himg.1 himg.2, denInstr2_not_bind _ _ _ _ _ _ _ (fun _ _ e => by cases e)])
    · obtain ⟨-, e⟩ := himg; simp only [kindOfInstr] at e; cases e
    · obtain ⟨-, e⟩ := himg; simp only [kindOfInstr] at e; cases e
    · -- bind
      obtain ⟨kk, b, lc, br, rfl, hc, hb, rfl, hl, hg⟩ := himg
      exact hD (fun _ e => by cases e) hg (den2_bind hc hb hl k)
    · -- zip
      rename_i a b
      obtain ⟨ka, kb, na, nb, rfl, rfl, hka, hkb, hna, hnb, hor⟩ := himg
      rcases hor with hc | ⟨va, vb, hca, hcb, hc⟩
      · rw [den2_map hc] at e
        simp only [evalArgs] at e
        cases h1 : den2 p.env s k na with
        | none => rw [h1] at e; cases e
        | some wa =>
          cases h2 : den2 p.env s k nb with
          | none => rw [h1, h2] at e; cases e
          | some wb =>
            rw [h1, h2] at e
            simp only [Option.map_some] at e
            rw [Z wa wb] at e
            obtain ⟨fa, hfa⟩ := ih ka na wa hna h1
            obtain ⟨fb, hfb⟩ := ih kb nb wb hnb h2
            refine ⟨max fa fb + 3, ?_⟩
            rw [top_instr p _ j _ hi (fun _ e => by cases e), instr_zip, opnd_outer, opnd_outer,
              denoteTop_mono hfa (max fa fb) (by omega), denoteTop_mono hfb (max fa fb) (by omega)]
            exact e
      · rw [den2_const hc] at e
        cases e
        exact const_to_denote P j n _ hj hc
    all_goals (obtain ⟨-, e⟩ := himg; simp only [kindOfInstr] at e; cases e)

end top

end N7
end IncrVerif.Proofs.NestH
