import IncrVerif.Proofs.LeakF1
/-!
# LeakF2 — `Sim` (a run that returns leaves `State.handles` unchanged) through the engine, port of `Proofs/NecRel2.lean`
-/
namespace IncrVerif.Proofs.LeakF
open IncrVerif.Engine IncrVerif.Proofs

theorem sim_logEv (e : Event) : Sim (logEv e) := by unfold logEv; sim
macro_rules | `(tactic| sim_lemma) => `(tactic| exact sim_logEv _)
theorem sim_tick : Sim tick := by unfold tick; sim
macro_rules | `(tactic| sim_lemma) => `(tactic| exact sim_tick)
theorem sim_getNode (n : Nat) : Sim (getNode n) := by unfold getNode; sim
macro_rules | `(tactic| sim_lemma) => `(tactic| exact sim_getNode _)
theorem sim_modNode (n : Nat) (f : Node → Node) : Sim (modNode n f) := by unfold modNode; sim
macro_rules | `(tactic| sim_lemma) => `(tactic| exact sim_modNode _ _)
theorem sim_getBind (n : Nat) : Sim (getBind n) := by unfold getBind; sim
macro_rules | `(tactic| sim_lemma) => `(tactic| exact sim_getBind _)
theorem sim_modBind (n : Nat) (f : BindRec → BindRec) : Sim (modBind n f) := by unfold modBind; sim
macro_rules | `(tactic| sim_lemma) => `(tactic| exact sim_modBind _ _)
theorem sim_getExpert (n : Nat) : Sim (getExpert n) := by unfold getExpert; sim
macro_rules | `(tactic| sim_lemma) => `(tactic| exact sim_getExpert _)
theorem sim_modExpert (n : Nat) (f : ExpertRec → ExpertRec) : Sim (modExpert n f) := by unfold modExpert; sim
macro_rules | `(tactic| sim_lemma) => `(tactic| exact sim_modExpert _ _)
theorem sim_scopeHeight (sc : Scope) : Sim (scopeHeight sc) := by unfold scopeHeight; sim
macro_rules | `(tactic| sim_lemma) => `(tactic| exact sim_scopeHeight _)
theorem sim_scopeIsNecessary (sc : Scope) : Sim (scopeIsNecessary sc) := by unfold scopeIsNecessary; sim
macro_rules | `(tactic| sim_lemma) => `(tactic| exact sim_scopeIsNecessary _)
theorem sim_scopeIsValid (sc : Scope) : Sim (scopeIsValid sc) := by unfold scopeIsValid; sim
macro_rules | `(tactic| sim_lemma) => `(tactic| exact sim_scopeIsValid _)

/-! recompute heap, adjust-heights heap -/

theorem sim_rchLink (n : Nat) : Sim (rchLink n) := by unfold rchLink; sim
macro_rules | `(tactic| sim_lemma) => `(tactic| exact sim_rchLink _)
theorem sim_rchUnlink (n : Nat) : Sim (rchUnlink n) := by unfold rchUnlink; sim
macro_rules | `(tactic| sim_lemma) => `(tactic| exact sim_rchUnlink _)
theorem sim_rchInsert (n : Nat) : Sim (rchInsert n) := by unfold rchInsert; sim
macro_rules | `(tactic| sim_lemma) => `(tactic| exact sim_rchInsert _)
theorem sim_rchRemove (n : Nat) : Sim (rchRemove n) := by unfold rchRemove; sim
macro_rules | `(tactic| sim_lemma) => `(tactic| exact sim_rchRemove _)
theorem sim_rchMinHeight : Sim rchMinHeight := by unfold rchMinHeight; sim
macro_rules | `(tactic| sim_lemma) => `(tactic| exact sim_rchMinHeight)
theorem sim_rchIncreaseHeight (n : Nat) : Sim (rchIncreaseHeight n) := by unfold rchIncreaseHeight; sim
macro_rules | `(tactic| sim_lemma) => `(tactic| exact sim_rchIncreaseHeight _)
theorem sim_rchRemoveMin : Sim rchRemoveMin := by unfold rchRemoveMin; sim
macro_rules | `(tactic| sim_lemma) => `(tactic| exact sim_rchRemoveMin)
theorem sim_setHeight (n : Nat) (h : Int) : Sim (setHeight n h) := by unfold setHeight; sim
macro_rules | `(tactic| sim_lemma) => `(tactic| exact sim_setHeight _ _)
theorem sim_ahhAddUnlessMem (n : Nat) : Sim (ahhAddUnlessMem n) := by unfold ahhAddUnlessMem; sim
macro_rules | `(tactic| sim_lemma) => `(tactic| exact sim_ahhAddUnlessMem _)
theorem sim_ahhRemoveMin : Sim ahhRemoveMin := by unfold ahhRemoveMin; sim
macro_rules | `(tactic| sim_lemma) => `(tactic| exact sim_ahhRemoveMin)
theorem sim_ensureHeightRequirement (oc op c p : Nat) : Sim (ensureHeightRequirement oc op c p) := by
  unfold ensureHeightRequirement; sim
macro_rules | `(tactic| sim_lemma) => `(tactic| exact sim_ensureHeightRequirement _ _ _ _)

theorem sim_adjustHeightsLoop (oc op fuel : Nat) : Sim (adjustHeightsLoop oc op fuel) := by
  induction fuel with
  | zero => unfold adjustHeightsLoop; sim
  | succ fuel ih => unfold adjustHeightsLoop; sim
macro_rules | `(tactic| sim_lemma) => `(tactic| exact sim_adjustHeightsLoop _ _ _)
theorem sim_adjustHeights (oc op fuel : Nat) : Sim (adjustHeights oc op fuel) := by unfold adjustHeights; sim
macro_rules | `(tactic| sim_lemma) => `(tactic| exact sim_adjustHeights _ _ _)

/-! parents, handlers bookkeeping, cutoffs, expert callbacks -/

theorem sim_addParent (c i p : Nat) : Sim (addParent c i p) := by unfold addParent; sim
macro_rules | `(tactic| sim_lemma) => `(tactic| exact sim_addParent _ _ _)
theorem sim_removeParent (c i p : Nat) : Sim (removeParent c i p) := by unfold removeParent; sim
macro_rules | `(tactic| sim_lemma) => `(tactic| exact sim_removeParent _ _ _)
theorem sim_handleAfterStabilisation (n : Nat) : Sim (handleAfterStabilisation n) := by
  unfold handleAfterStabilisation; sim
macro_rules | `(tactic| sim_lemma) => `(tactic| exact sim_handleAfterStabilisation _)
theorem sim_maybeHandleAfterStabilisation (n : Nat) : Sim (maybeHandleAfterStabilisation n) := by
  unfold maybeHandleAfterStabilisation; sim
macro_rules | `(tactic| sim_lemma) => `(tactic| exact sim_maybeHandleAfterStabilisation _)
theorem sim_shouldCutoff (env : Env) (n : Nat) (o v : Val) : Sim (shouldCutoff env n o v) := by
  unfold shouldCutoff; sim
macro_rules | `(tactic| sim_lemma) => `(tactic| exact sim_shouldCutoff _ _ _ _)
theorem sim_edgeOnChange (env : Env) (e : Nat) (edge : ExpertEdge) : Sim (edgeOnChange env e edge) := by
  unfold edgeOnChange; sim
macro_rules | `(tactic| sim_lemma) => `(tactic| exact sim_edgeOnChange _ _ _)
theorem sim_runEdgeCallback (env : Env) (e i : Nat) : Sim (runEdgeCallback env e i) := by
  unfold runEdgeCallback; sim
macro_rules | `(tactic| sim_lemma) => `(tactic| exact sim_runEdgeCallback _ _ _)
theorem sim_observabilityChange (e : Nat) (b : Bool) : Sim (observabilityChange e b) := by
  unfold observabilityChange; sim
macro_rules | `(tactic| sim_lemma) => `(tactic| exact sim_observabilityChange _ _)

/-! the cascades -/

theorem sim_markMapRefUnknown (fuel n : Nat) : Sim (markMapRefUnknown fuel n) := by
  induction fuel generalizing n with
  | zero => unfold markMapRefUnknown; sim
  | succ fuel ih => unfold markMapRefUnknown; sim
macro_rules | `(tactic| sim_lemma) => `(tactic| exact sim_markMapRefUnknown _ _)

theorem sim_necessary (env : Env) (fuel : Nat) :
    (∀ n, Sim (becameNecessary env fuel n)) ∧
      (∀ c i p, Sim (addParentWithoutAdjustingHeights env fuel c i p)) := by
  induction fuel with
  | zero =>
    refine ⟨?_, ?_⟩ <;> intros
    · unfold becameNecessary; sim
    · unfold addParentWithoutAdjustingHeights; sim
  | succ fuel ih =>
    obtain ⟨ih1, ih2⟩ := ih
    refine ⟨?_, ?_⟩ <;> intros
    · unfold becameNecessary; sim
    · unfold addParentWithoutAdjustingHeights; sim

theorem sim_becameNecessary (env : Env) (fuel n : Nat) : Sim (becameNecessary env fuel n) :=
  (sim_necessary env fuel).1 n
macro_rules | `(tactic| sim_lemma) => `(tactic| exact sim_becameNecessary _ _ _)
theorem sim_addParentWithoutAdjustingHeights (env : Env) (fuel c i p : Nat) :
    Sim (addParentWithoutAdjustingHeights env fuel c i p) :=
  (sim_necessary env fuel).2 c i p
macro_rules | `(tactic| sim_lemma) => `(tactic| exact sim_addParentWithoutAdjustingHeights _ _ _ _ _)

theorem sim_unnecessary (fuel : Nat) :
    (∀ n, Sim (becameUnnecessary fuel n)) ∧ (∀ n, Sim (checkIfUnnecessary fuel n)) ∧
      (∀ n, Sim (removeChildren fuel n)) := by
  induction fuel with
  | zero =>
    refine ⟨?_, ?_, ?_⟩ <;> intro n
    · unfold becameUnnecessary; sim
    · unfold checkIfUnnecessary; sim
    · unfold removeChildren; sim
  | succ fuel ih =>
    obtain ⟨ih1, ih2, ih3⟩ := ih
    refine ⟨?_, ?_, ?_⟩ <;> intro n
    · unfold becameUnnecessary; sim
    · unfold checkIfUnnecessary; sim
    · unfold removeChildren; sim

theorem sim_becameUnnecessary (fuel n : Nat) : Sim (becameUnnecessary fuel n) := (sim_unnecessary fuel).1 n
macro_rules | `(tactic| sim_lemma) => `(tactic| exact sim_becameUnnecessary _ _)
theorem sim_checkIfUnnecessary (fuel n : Nat) : Sim (checkIfUnnecessary fuel n) := (sim_unnecessary fuel).2.1 n
macro_rules | `(tactic| sim_lemma) => `(tactic| exact sim_checkIfUnnecessary _ _)
theorem sim_removeChildren (fuel n : Nat) : Sim (removeChildren fuel n) := (sim_unnecessary fuel).2.2 n
macro_rules | `(tactic| sim_lemma) => `(tactic| exact sim_removeChildren _ _)

theorem sim_invalidateNode (fuel n : Nat) : Sim (invalidateNode fuel n) := by
  induction fuel generalizing n with
  | zero => unfold invalidateNode; sim
  | succ fuel ih => unfold invalidateNode; sim
macro_rules | `(tactic| sim_lemma) => `(tactic| exact sim_invalidateNode _ _)

theorem sim_propagateInvalidity (fuel : Nat) : Sim (propagateInvalidity fuel) := by
  induction fuel with
  | zero => unfold propagateInvalidity; sim
  | succ fuel ih => unfold propagateInvalidity; sim
macro_rules | `(tactic| sim_lemma) => `(tactic| exact sim_propagateInvalidity _)

theorem sim_becameNecessaryPropagate (env : Env) (fuel n : Nat) : Sim (becameNecessaryPropagate env fuel n) := by
  unfold becameNecessaryPropagate; sim
macro_rules | `(tactic| sim_lemma) => `(tactic| exact sim_becameNecessaryPropagate _ _ _)
theorem sim_stateAddParent (env : Env) (fuel c i p : Nat) : Sim (stateAddParent env fuel c i p) := by
  unfold stateAddParent; sim
macro_rules | `(tactic| sim_lemma) => `(tactic| exact sim_stateAddParent _ _ _ _ _)
theorem sim_changeChildBindRhs (env : Env) (fuel main : Nat) (old : Option Nat) (new index : Nat) :
    Sim (changeChildBindRhs env fuel main old new index) := by
  unfold changeChildBindRhs; sim
macro_rules | `(tactic| sim_lemma) => `(tactic| exact sim_changeChildBindRhs _ _ _ _ _ _)

end IncrVerif.Proofs.LeakF
