import IncrVerif.Proofs.PerKeyH40
/-!
# A run of a per-key change detector, part 5d: the two transport facts (local copies, prefixed `u_`, of
`mid_below_nec` / `mid_nec_alive` of LC2) and **`iterUnequal`**
-/
namespace IncrVerif.Proofs.PerKeyH
open IncrVerif.Engine IncrVerif.Driver IncrVerif.Proofs IncrVerif.Proofs.Step IncrVerif.Proofs.Sched
open IncrVerif.Proofs.ExpertH IncrVerif.Proofs.EffH IncrVerif.Proofs.DriverH IncrVerif.Proofs.ExpertH.QR

/-- a child of a necessary node is necessary -/
theorem u_mid_kid_nec {env : Env} {l : List Event} {σ : State} {a b : Nat} (M : Mid (twEnv env) (twL l σ))
    (ha : σ.isNecessary a = true) (hb : b ∈ kidsX σ.experts (σ.nodeD a).kind) : σ.isNecessary b = true := by
  obtain ⟨rk, I⟩ := M.st
  obtain ⟨i, hi⟩ := List.getElem?_of_mem hb
  have hp := I.conv a i b (by rw [Kvirt_twL_kids]; exact hi)
    ((wants_closed rfl).2 (by rw [virt_isNecessary, KtwL_isNecessary]; exact ha))
  rw [virt_nodeD, virtNode_parents, KtwL_parents] at hp
  unfold State.isNecessary Node.isNecessary
  cases hps : (σ.nodeD b).parents with
  | nil => rw [hps] at hp; cases hp
  | cons x xs => rfl

theorem u_mid_below_nec {env : Env} {l : List Event} {σ : State} {a b : Nat} (M : Mid (twEnv env) (twL l σ))
    (ha : σ.isNecessary a = true) (hb : ExpertH.Below σ a b) : σ.isNecessary b = true := by
  induction hb with
  | refl a => exact ha
  | step h1 _ ih => exact ih (u_mid_kid_nec M ha h1)

/-- in the fragment the engine's children are the structural children -/
theorem u_children_kidsX {env : Env} {σ : State} (F : PFrag env σ) (p : Nat) :
    σ.children p = kidsX σ.experts (σ.nodeD p).kind := by
  unfold State.children Node.kind?
  rw [F.validD p, if_pos rfl]
  have hk := F.kindD p
  cases hkk : (σ.nodeD p).kind <;> rw [hkk] at hk <;> try exact hk.elim
  all_goals try rfl
  rename_i e
  simp only [ExpertH.kidsX]
  cases hx : σ.experts[e]? with
  | none => rw [xRec_none hx]; rfl
  | some er => rw [xRec_some hx]

theorem u_mid_nec_alive {env : Env} {l : List Event} {σ : State} {p : Nat} (M : Mid (twEnv env) (twL l σ))
    (F : PFrag env σ) (O : ObsListed σ) (hp : σ.isNecessary p = true) : σ.isAlive p = true := by
  obtain ⟨rk, I⟩ := M.st
  obtain ⟨K, hK⟩ := exists_bound (fun m => ((σ.nodeD m).height + 1).toNat) σ.nodes.size
  have hpar : ∀ c q i, (q, i) ∈ (σ.nodeD c).parents →
      (virt (twL l σ)).isNecessary q = true ∧ (kidsX σ.experts (σ.nodeD q).kind)[i]? = some c ∧
        (σ.nodeD c).height < (σ.nodeD q).height := by
    intro c q i hm
    have hm' : (q, i) ∈ ((virt (twL l σ)).nodeD c).parents := by
      rw [virt_nodeD, virtNode_parents, KtwL_parents]; exact hm
    obtain ⟨h1, h2⟩ := I.par c q i hm'
    have h3 := I.hlt c q i hm' rfl
    rw [virt_nodeD, virt_nodeD, virtNode_height, virtNode_height, KtwL_height, KtwL_height] at h3
    exact ⟨(wants_closed rfl).1 h2, by rw [← Kvirt_twL_kids (l := l)]; exact h1, h3⟩
  refine nec_alive (rk := fun m => ((σ.nodeD m).height + 1).toNat) (K := K) F.force_all ?_ ?_ O hp
  · intro c q i hm
    obtain ⟨h1, h2, -⟩ := hpar c q i hm
    rw [virt_isNecessary, KtwL_isNecessary] at h1
    exact ⟨h1, by rw [u_children_kidsX F]; exact h2⟩
  · intro c q i hm
    obtain ⟨h1, h2, h3⟩ := hpar c q i hm
    have hq : σ.isNecessary q = true := by rw [virt_isNecessary, KtwL_isNecessary] at h1; exact h1
    -- the child is necessary (it has a parent entry), so its height is not negative
    have hc : (virt (twL l σ)).isNecessary c = true := by
      rw [virt_isNecessary, KtwL_isNecessary]
      unfold State.isNecessary Node.isNecessary
      cases hps : (σ.nodeD c).parents with
      | nil => rw [hps] at hm; cases hm
      | cons x xs => rfl
    have h0 := I.hpos c hc rfl
    rw [virt_nodeD, virtNode_height, KtwL_height] at h0
    refine ⟨?_, hK q (nec_lt σ q hq)⟩
    show ((σ.nodeD c).height + 1).toNat < ((σ.nodeD q).height + 1).toNat
    omega

/-- **one `.unequal` iteration keeps the loop invariant** -/
theorem iterUnequal (env : Env) : IterUnequal env :=
  iterUnequal_of env (fun _ _ _ _ M ha hb => u_mid_below_nec M ha hb) (fun _ _ _ M F O hp => u_mid_nec_alive M F O hp)

end IncrVerif.Proofs.PerKeyH
