import IncrVerif.Proofs.FullT4
/-!
# C01 full fragment: simulation of the unlinking cascade, the rest of the recompute heap, and `adjust_heights`
(port of MapRef6 / MapOld6; the adjust-heights heap is new)
-/
namespace IncrVerif.Proofs.FullT
set_option linter.unusedSectionVars false
open IncrVerif.Engine IncrVerif.Proofs IncrVerif.Proofs.Step IncrVerif.Proofs.Sched IncrVerif.Proofs.Quiet IncrVerif.Proofs.FullH

section
variable {K : Kind → Prop} {P : State → Prop} [Keeps P] {g : Nat → Option Val} {sp : Nat → Val → Val}

theorem BSim.rmParentNode (c k : Nat) :
    BSim K P g (Engine.modNode c fun x => { x with parents := swapRemove x.parents k })
      (Engine.modNode c fun x => { x with parents := swapRemove x.parents k }) :=
  fun _ => BSimAt.modNode' c (by fcomm) (by fkind) fun h => Keeps.rmParent c k h
macro_rules | `(tactic| bsim_leaf) => `(tactic| with_reducible exact BSim.rmParentNode _ _)

theorem BSim.removeParent (c i p : Nat) : BSim K P g (Engine.removeParent c i p) (Engine.removeParent c i p) := by
  intro s; unfold Engine.removeParent; bsim
  split <;> bsim
macro_rules | `(tactic| bsim_leaf) => `(tactic| with_reducible exact BSim.removeParent _ _ _)

theorem BSim.rchUnlink (n : Nat) : BSim K P g (Engine.rchUnlink n) (Engine.rchUnlink n) := by
  intro s; unfold Engine.rchUnlink; bsim
  split <;> bsim
  split <;> bsim
  split <;> bsim
macro_rules | `(tactic| bsim_leaf) => `(tactic| with_reducible exact BSim.rchUnlink _)

theorem BSim.rchRemove (n : Nat) : BSim K P g (Engine.rchRemove n) (Engine.rchRemove n) := by
  intro s; unfold Engine.rchRemove; bsim
macro_rules | `(tactic| bsim_leaf) => `(tactic| with_reducible exact BSim.rchRemove _)

theorem BSim.rchRemoveMin : BSim K P g Engine.rchRemoveMin Engine.rchRemoveMin := by
  intro s; unfold Engine.rchRemoveMin; bsim
  split <;> bsim
macro_rules | `(tactic| bsim_leaf) => `(tactic| with_reducible exact BSim.rchRemoveMin)

theorem BSim.rchMinHeight : BSim K P g Engine.rchMinHeight Engine.rchMinHeight := by
  intro s; unfold Engine.rchMinHeight; bsim
  exact BSimAt.ret _
macro_rules | `(tactic| bsim_leaf) => `(tactic| with_reducible exact BSim.rchMinHeight)

theorem BSim.rchIncreaseHeight (n : Nat) : BSim K P g (Engine.rchIncreaseHeight n) (Engine.rchIncreaseHeight n) := by
  intro s; unfold Engine.rchIncreaseHeight; bsim
macro_rules | `(tactic| bsim_leaf) => `(tactic| with_reducible exact BSim.rchIncreaseHeight _)

theorem BSim.unlink (fuel : Nat) :
    (∀ n, BSim K P g (becameUnnecessary fuel n) (becameUnnecessary fuel n)) ∧
    (∀ n, BSim K P g (checkIfUnnecessary fuel n) (checkIfUnnecessary fuel n)) ∧
    (∀ n, BSim K P g (removeChildren fuel n) (removeChildren fuel n)) := by
  induction fuel with
  | zero =>
    refine ⟨?_, ?_, ?_⟩
    · intro n s; unfold becameUnnecessary; bsim
    · intro n s; unfold checkIfUnnecessary; bsim
    · intro n s; unfold removeChildren; bsim
  | succ fuel ih =>
    refine ⟨?_, ?_, ?_⟩
    · intro n s
      unfold becameUnnecessary
      bsim
      all_goals first
        | exact ih.2.2 _ _
        | bsim_kind
    · intro n s
      unfold checkIfUnnecessary
      bsim
      all_goals exact ih.1 _ _
    · intro n s
      unfold removeChildren
      bsim
      all_goals exact ih.2.1 _ _

theorem BSim.becameUnnecessary (fuel n : Nat) :
    BSim K P g (Engine.becameUnnecessary fuel n) (Engine.becameUnnecessary fuel n) := (BSim.unlink fuel).1 n
theorem BSim.checkIfUnnecessary (fuel n : Nat) :
    BSim K P g (Engine.checkIfUnnecessary fuel n) (Engine.checkIfUnnecessary fuel n) := (BSim.unlink fuel).2.1 n
theorem BSim.removeChildren (fuel n : Nat) :
    BSim K P g (Engine.removeChildren fuel n) (Engine.removeChildren fuel n) := (BSim.unlink fuel).2.2 n
macro_rules | `(tactic| bsim_leaf) => `(tactic| with_reducible exact BSim.becameUnnecessary _ _)
macro_rules | `(tactic| bsim_leaf) => `(tactic| with_reducible exact BSim.checkIfUnnecessary _ _)
macro_rules | `(tactic| bsim_leaf) => `(tactic| with_reducible exact BSim.removeChildren _ _)

/-! ## the adjust-heights heap -/

theorem BSim.ahhAddUnlessMem (n : Nat) : BSim K P g (Engine.ahhAddUnlessMem n) (Engine.ahhAddUnlessMem n) := by
  intro s; unfold Engine.ahhAddUnlessMem; bsim
macro_rules | `(tactic| bsim_leaf) => `(tactic| with_reducible exact BSim.ahhAddUnlessMem _)

theorem BSim.ahhRemoveMin : BSim K P g Engine.ahhRemoveMin Engine.ahhRemoveMin := by
  intro s; unfold Engine.ahhRemoveMin; bsim
  split <;> bsim
macro_rules | `(tactic| bsim_leaf) => `(tactic| with_reducible exact BSim.ahhRemoveMin)

theorem BSim.ensureHeightRequirement (oc op child parent : Nat) :
    BSim K P g (Engine.ensureHeightRequirement oc op child parent) (Engine.ensureHeightRequirement oc op child parent) := by
  intro s; unfold Engine.ensureHeightRequirement; bsim
macro_rules | `(tactic| bsim_leaf) => `(tactic| with_reducible exact BSim.ensureHeightRequirement _ _ _ _)

theorem BSim.adjustHeightsLoop (oc op fuel : Nat) :
    BSim K P g (Engine.adjustHeightsLoop oc op fuel) (Engine.adjustHeightsLoop oc op fuel) := by
  induction fuel with
  | zero => intro s; unfold Engine.adjustHeightsLoop; bsim
  | succ fuel ih =>
    intro s
    unfold Engine.adjustHeightsLoop
    refine BSimAt.seq (BSim.ahhRemoveMin s) fun r s1 _ => ?_
    cases r with
    | none => exact BSimAt.ret _
    | some c =>
      dsimp only
      bsim
      all_goals first
        | exact ih _
        | bsim_kind
      all_goals exact ih _
macro_rules | `(tactic| bsim_leaf) => `(tactic| with_reducible exact BSim.adjustHeightsLoop _ _ _)

theorem BSim.adjustHeights (oc op fuel : Nat) :
    BSim K P g (Engine.adjustHeights oc op fuel) (Engine.adjustHeights oc op fuel) := by
  intro s; unfold Engine.adjustHeights; bsim
  rw [virt_nodeD, virtNode_height]; rfl
macro_rules | `(tactic| bsim_leaf) => `(tactic| with_reducible exact BSim.adjustHeights _ _ _)

end
end IncrVerif.Proofs.FullT
