import IncrVerif.Proofs.ExpertH66
import IncrVerif.Proofs.ExpertH67
import IncrVerif.Proofs.ExpertH65
/-!
# Expert nodes, E2: closures that READ THE SLOTS ("cbsum"), for records all of whose dependencies have callbacks

`envS env`: the environment in which every expert closure gets the dependency values in place of the slots.
Under the callback discipline (`SlotInv`) and `CbInv` (a closure that is not slot-independent belongs to a record all of
whose dependencies have callbacks) the engine behaves IDENTICALLY under `env` and `envS env` (`recomputeOne_eq`,
`drainHeap_eq`, `stabilise_eq`, `step_eq`, `run_eq`), so every theorem of fragment X1 for `envS env` holds for `env`.
-/
namespace IncrVerif.Proofs.ExpertH
open IncrVerif.Engine IncrVerif.Driver IncrVerif.Proofs IncrVerif.Proofs.Step IncrVerif.Proofs.Sched
open IncrVerif.Proofs.ExpertH.QR IncrVerif.Proofs.Xp

/-- every closure reads the dependency values in place of the slots -/
def sumX (env : Env) : Nat → List (Option Val) → List (Option Val) → Val := fun f deps _ => env.expertFn f deps deps

def envS (env : Env) : Env := withX env (sumX env)

/-- the closure `f`, applied to slots that ARE the dependency values, is the sum of the dependencies modulo `f / 10` -/
def XEnvCb (env : Env) (f : Nat) : Prop :=
  ∀ vals : List Val, env.expertFn f (vals.map some) (vals.map some) = vals.foldl (xStep f) (.int 0)

theorem xEnvOK_envS {env : Env} {f : Nat} (h : XEnvCb env f) : XEnvOK (envS env) f := fun vals _ => h vals

theorem xEnvCb_of_ok {env : Env} {f : Nat} (h : XEnvOK env f) : XEnvCb env f := fun vals => h vals _

/-- a closure that is not slot-independent belongs to a record all of whose dependencies have callbacks -/
def CbInv (env : Env) (s : State) : Prop :=
  ∀ (e : Nat) (er : ExpertRec), s.experts[e]? = some er →
    XEnvOK env er.f ∨ ∀ ed, ed ∈ er.children → ed.cb.isSome = true

/-- `f` and `children` of every record unchanged -/
def XW (s s' : State) : Prop :=
  ∀ e : Nat, (s'.experts[e]?).map (fun r => (r.f, r.children)) = (s.experts[e]?).map (fun r => (r.f, r.children))

theorem XW.refl (s : State) : XW s s := fun _ => rfl
theorem XW.trans {a b c : State} (h1 : XW a b) (h2 : XW b c) : XW a c := fun e => (h2 e).trans (h1 e)

theorem XW.of_xf {s s' : State} (h : XF s s') : XW s s' := by
  intro e
  have := h.xcore e
  cases h1 : s.experts[e]? <;> cases h2 : s'.experts[e]? <;> rw [h1, h2] at this <;> simp only [Option.map_some,
    Option.map_none, xCore] at this ⊢
  · cases this
  · cases this
  · simp only [Option.some.injEq, Prod.mk.injEq] at this
    simp [this.1, this.2.2.1]

theorem CbInv.of_xw {env : Env} {s s' : State} (C : CbInv env s) (h : XW s s') : CbInv env s' := by
  intro e er' he'
  have := h e
  rw [he'] at this
  cases h1 : s.experts[e]? with
  | none => rw [h1] at this; simp at this
  | some er =>
    rw [h1] at this
    simp only [Option.map_some, Option.some.injEq, Prod.mk.injEq] at this
    rw [this.1, this.2]
    exact C e er h1

section
variable {env : Env}

theorem value_envS (s : State) (n : Nat) : s.value (envS env) n = s.value env n := rfl

/-- when the current node is an expert node: in the record the closure reads, the slots of the callback edges are the
dependency values -/
theorem readyRec_good {n e : Nat} {s : State} {er : ExpertRec} (D : DInvX (envS env) s (some n))
    (U : UnnecOK (virtEnv (envS env)) (virt s)) (L : SlotInv (envS env) s)
    (hk : (s.nodeD n).kind = .expert e) (he : s.experts[e]? = some er) :
    Good (envS env) s (readyRec (envS env) s er) := by
  have F := D.frag
  have frT := ranState_fr (env := envS env) (n := n) (F.fr D.pinv) he
  have FT := ranState_frag F hk he frT
  have P : Pre (envS env) n (ranState (envS env) n e s er) := by
    refine pre_of D U L FT (fun m => ranState_nodeD _ n e s er m) ?_ rfl rfl ?_ ?_
    · rw [ranState_nodes]; simp [started]
    · intro e' hne
      have : e' ≠ e := fun h => hne (by rw [h]; exact hk)
      exact ranState_get_ne _ n e s er this
    · intro e' hk'
      rw [hk] at hk'; cases hk'
      exact ⟨er, he, ranState_get _ n e he⟩
  have hkT : ((ranState (envS env) n e s er).nodeD n).kind = .expert e := by
    rw [ranState_nodeD, started_nodeD]; split <;> exact hk
  have hflag := P.cflag e _ hkT (ranState_get _ n e he)
  have hg := P.good n e _ hkT (ranState_get _ n e he) (Or.inl hflag)
  intro ed hed hcb
  rw [hg ed hed hcb]
  rw [value_plain (envS env) _ ed.child (FT.noMapRef ed.child), value_plain (envS env) s ed.child
    (F.noMapRef ed.child), ranState_nodeD, started_nodeD]
  split <;> rfl

/-- the dependency values the closure of the current expert node is applied to: all present -/
theorem depVals_some {n e : Nat} {s : State} {er : ExpertRec} (F : XFrag (envS env) s)
    (hk : (s.nodeD n).kind = .expert e) (he : s.experts[e]? = some er) {vals : List Val}
    (hv : plainVals (virt s) (kids ((virt s).nodeD n).kind) = some vals) :
    depValsOf env s (readyRec env s er) = vals.map some := by
  obtain ⟨_, _, f3, _⟩ := readyRec_fields env s er
  rw [virt_kids, hk] at hv
  simp only [kidsX, xRec_some he] at hv
  have hv2 : evalArgs (s.value env) (er.children.map (·.child)) = some vals := by
    rw [← hv]
    unfold plainVals
    apply evalArgs_congr
    intro a _
    rw [value_plain env s a (F.noMapRef a), virt_nodeD, virtNode_value]
  have hm := evalArgs_map hv2
  unfold depValsOf
  rw [f3, ← hm, List.map_map]
  rfl

theorem bind_run_congr {α β} {x x' : M α} {f f' : α → M β} {s : State}
    (hx : x.run.run s = x'.run.run s)
    (hf : ∀ a s1, x'.run.run s = (.ok a, s1) → (f a).run.run s1 = (f' a).run.run s1) :
    (x >>= f).run.run s = (x' >>= f').run.run s := by
  rcases hr : x'.run.run s with ⟨res, s1⟩
  rw [run_bind_of (hx.trans hr), run_bind_of hr]
  cases res with
  | ok a => exact hf a s1 hr
  | error e => rfl

/-- **one `recomputeOne` of the drain behaves identically under `env` and `envS env`** -/
theorem recomputeOne_eq {fuel n : Nat} {s : State} (D : DInvX (envS env) s (some n))
    (U : UnnecOK (virtEnv (envS env)) (virt s)) (L : SlotInv (envS env) s) (C : CbInv env s) :
    (recomputeOne env fuel n).run.run s = (recomputeOne (envS env) fuel n).run.run s := by
  have F := D.frag
  by_cases hk : ∃ e, (s.nodeD n).kind = .expert e
  · obtain ⟨e, hk⟩ := hk
    have hlt := F.lt_of_expert hk
    obtain ⟨er, he, -⟩ := F.xrec n e hlt hk
    obtain ⟨hpk, hni, -, -⟩ := F.xok e er he
    have hx : IsExpert s n (s.nodeD n) e er := ⟨some_of_lt hlt, F.valid n hlt, hk, he⟩
    refine (recomputeOne_withX_expert env (sumX env) fuel n hx hpk F.pc (by omega) ?_).symm
    show env.expertFn er.f (depValsOf env s (readyRec env s er)) (depValsOf env s (readyRec env s er)) = _
    obtain ⟨vals, hvals⟩ := D.inv.kids_values
    have hd := depVals_some F hk he hvals
    rcases C e er he with hok | hcb
    · rw [hd, hok vals, hok vals]
    · have hG := readyRec_good D U L hk he
      have : slotValsOf (readyRec env s er) = depValsOf env s (readyRec env s er) := by
        unfold slotValsOf depValsOf
        apply List.map_congr_left
        intro ed hed
        have hed' : ed ∈ er.children := by rw [← (readyRec_fields env s er).2.2.1]; exact hed
        have h1 := hcb ed hed'
        have h2 := hG ed hed h1
        cases hc : ed.cb with
        | none => rw [hc] at h1; cases h1
        | some d => exact h2
      rw [this]
  · refine (recomputeOne_withX_of_not_expert env (sumX env) fuel n s ?_).symm
    intro nd e hnd hk?
    apply hk
    refine ⟨e, ?_⟩
    rw [nodeD_of_some hnd]
    unfold Node.kind? at hk?
    split at hk?
    · exact (Option.some.inj hk?)
    · cases hk?

/-- a successful `recomputeOne` leaves `f` and `children` of every record alone -/
theorem recomputeOne_xw {fuel n : Nat} {s s' : State} {r : Option Nat} (D : DInvX (envS env) s (some n))
    (h : (recomputeOne (envS env) fuel n).run.run s = (.ok r, s')) : XW s s' := by
  have F := D.frag
  have hnec : (virt s).isNecessary n = true := (D.inv.cur n rfl).1
  have hlt : n < s.nodes.size := by rw [← virt_size]; exact (D.inv.graph.nec n hnec).1
  by_cases hk : ∃ e, (s.nodeD n).kind = .expert e
  · obtain ⟨e, hk⟩ := hk
    obtain ⟨v, ch, er, -, -, -, he, hrun, -, -⟩ := step_expert_ran F D.inv D.pinv hk h
    have h1 : XW s (ranState (envS env) n e s er) := by
      intro e'
      by_cases hee : e' = e
      · rw [hee, ranState_get _ n e he, he]
        simp only [Option.map_some]
        rw [(readyRec_fields (envS env) s er).1, (readyRec_fields (envS env) s er).2.2.1]
      · rw [ranState_get_ne _ n e s er hee]
    exact h1.trans (XW.of_xf ((PresX.maybeChangeValue (envS env) fuel n v).h _ _ _ hrun))
  · exact XW.of_xf (recomputeOne_static_frames (F.fr D.pinv) hlt (F.kind n hlt) (fun e he => hk ⟨e, he⟩) h).1

/-- the direct-recompute chain -/
theorem recompute_eq : ∀ (fuel n : Nat) (s : State), DInvX (envS env) s (some n) →
    UnnecOK (virtEnv (envS env)) (virt s) → SlotInv (envS env) s → CbInv env s →
    (recompute env fuel n).run.run s = (recompute (envS env) fuel n).run.run s := by
  intro fuel
  induction fuel with
  | zero => intro n s _ _ _ _; rfl
  | succ fuel ih =>
    intro n s D U L C
    unfold recompute
    refine bind_run_congr (recomputeOne_eq D U L C) fun r s1 h1 => ?_
    cases r with
    | none => rfl
    | some p =>
      obtain ⟨D1, f1, -⟩ := recomputeOneX_inv D h1
      exact ih p s1 D1 (f1.unnec U) (recomputeOneX_slots D U L h1) (C.of_xw (recomputeOne_xw D h1))

/-- what the chain keeps -/
theorem recompute_keeps : ∀ (fuel n : Nat) (s s' : State), DInvX (envS env) s (some n) →
    UnnecOK (virtEnv (envS env)) (virt s) → CbInv env s →
    (recompute (envS env) fuel n).run.run s = (.ok (), s') →
    UnnecOK (virtEnv (envS env)) (virt s') ∧ CbInv env s' := by
  intro fuel
  induction fuel with
  | zero => intro n s s' _ _ _ h; unfold recompute at h; cases h
  | succ fuel ih =>
    intro n s s' D U C h
    unfold recompute at h
    obtain ⟨r, s1, h1, h2⟩ := bind_ok_inv h
    obtain ⟨D1, f1, -⟩ := recomputeOneX_inv D h1
    have C1 := C.of_xw (recomputeOne_xw D h1)
    cases r with
    | none => obtain ⟨-, rfl⟩ := pure_ok_inv h2; exact ⟨f1.unnec U, C1⟩
    | some p => exact ih p s1 s' D1 (f1.unnec U) C1 h2

/-- **the drain behaves identically under `env` and `envS env`** -/
theorem drainHeap_eq : ∀ (fuel : Nat) (s : State), DInvX (envS env) s none →
    UnnecOK (virtEnv (envS env)) (virt s) → SlotInv (envS env) s → CbInv env s →
    (drainHeap env fuel).run.run s = (drainHeap (envS env) fuel).run.run s := by
  intro fuel
  induction fuel with
  | zero => intro s _ _ _ _; rfl
  | succ fuel ih =>
    intro s D U L C
    unfold drainHeap
    refine bind_run_congr rfl fun r s1 h1 => ?_
    cases r with
    | none => rfl
    | some n =>
      obtain ⟨hv, F1, hp1, A1⟩ := popX D h1
      obtain ⟨I1, -⟩ := pop_inv D.inv hv
      have D1 : DInvX (envS env) s1 (some n) := ⟨F1, I1, hp1, A1⟩
      have U1 := pop_unnec D.inv.heap U hv
      have L1 := popX_slots D L h1
      have C1 : CbInv env s1 := C.of_xw (XW.of_xf ((PresX.rchRemoveMin).h _ _ _ h1))
      refine bind_run_congr (recompute_eq fuel n s1 D1 U1 L1 C1) fun _ s2 h2 => ?_
      obtain ⟨D2, -⟩ := recomputeX_inv fuel n s1 s2 D1 h2
      obtain ⟨U2, C2⟩ := recompute_keeps fuel n s1 s2 D1 U1 C1 h2
      exact ih s2 D2 U2 (recomputeX_slots fuel n s1 s2 D1 U1 L1 h2) C2

end
end IncrVerif.Proofs.ExpertH
