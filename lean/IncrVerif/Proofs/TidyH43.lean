import IncrVerif.Proofs.TidyH42
/-!
# Converse simulation, part 5: observer and variable operations (mirror of ExpertH30), the API actions (ExpertH31)
-/
namespace IncrVerif.Proofs.TidyH.XT
namespace XR
open IncrVerif.Engine IncrVerif.Driver IncrVerif.Proofs IncrVerif.Proofs.Step IncrVerif.Proofs.Sched
open IncrVerif.Proofs.ExpertH

/-! ## ExpertH30 -/

theorem SimR.getObs (o : Nat) : SimR (Engine.getObs o) (Engine.getObs o) := by
  intro s; unfold Engine.getObs; rsim
  split <;> rsim
macro_rules | `(tactic| rsim_leaf) => `(tactic| with_reducible exact IncrVerif.Proofs.TidyH.XT.XR.SimR.getObs _)

theorem SimR.modObs (o : Nat) (f : ObsRec → ObsRec) : SimR (Engine.modObs o f) (Engine.modObs o f) := by
  intro s; unfold Engine.modObs; rsim
macro_rules | `(tactic| rsim_leaf) => `(tactic| with_reducible exact IncrVerif.Proofs.TidyH.XT.XR.SimR.modObs _ _)

theorem SimR.getVar (v : Nat) : SimR (Engine.getVar v) (Engine.getVar v) := by
  intro s; unfold Engine.getVar; rsim
  split <;> rsim
macro_rules | `(tactic| rsim_leaf) => `(tactic| with_reducible exact IncrVerif.Proofs.TidyH.XT.XR.SimR.getVar _)

theorem SimR.modVar (v : Nat) (f : VarCell → VarCell) : SimR (Engine.modVar v f) (Engine.modVar v f) := by
  intro s; unfold Engine.modVar; rsim
macro_rules | `(tactic| rsim_leaf) => `(tactic| with_reducible exact IncrVerif.Proofs.TidyH.XT.XR.SimR.modVar _ _)

theorem SimR.addNewObservers (env : Env) (fuel : Nat) :
    SimR (Engine.addNewObservers env fuel) (Engine.addNewObservers (virtEnv env) fuel) := by
  intro s; unfold Engine.addNewObservers; rsim
  split <;> rsim
macro_rules | `(tactic| rsim_leaf) => `(tactic| with_reducible exact IncrVerif.Proofs.TidyH.XT.XR.SimR.addNewObservers _ _)

theorem SimR.unlinkDisallowedObservers (fuel : Nat) :
    SimR (Engine.unlinkDisallowedObservers fuel) (Engine.unlinkDisallowedObservers fuel) := by
  intro s; unfold Engine.unlinkDisallowedObservers; rsim
macro_rules | `(tactic| rsim_leaf) => `(tactic|
  with_reducible exact IncrVerif.Proofs.TidyH.XT.XR.SimR.unlinkDisallowedObservers _)

theorem SimR.disallowFutureUse (o : Nat) : SimR (Engine.disallowFutureUse o) (Engine.disallowFutureUse o) := by
  intro s; unfold Engine.disallowFutureUse; rsim
  split <;> rsim
macro_rules | `(tactic| rsim_leaf) => `(tactic| with_reducible exact IncrVerif.Proofs.TidyH.XT.XR.SimR.disallowFutureUse _)

theorem SimR.didSetVarWhileNotStabilising (v : Nat) :
    SimR (Engine.didSetVarWhileNotStabilising v) (Engine.didSetVarWhileNotStabilising v) := by
  intro s; unfold Engine.didSetVarWhileNotStabilising; rsim
macro_rules | `(tactic| rsim_leaf) => `(tactic|
  with_reducible exact IncrVerif.Proofs.TidyH.XT.XR.SimR.didSetVarWhileNotStabilising _)

theorem SimR.writeVar (v : Nat) (f : Val → Val) (isSet : Bool) :
    SimR (Engine.writeVar v f isSet) (Engine.writeVar v f isSet) := by
  intro s; unfold Engine.writeVar; rsim
  split <;> rsim
  split <;> rsim
macro_rules | `(tactic| rsim_leaf) => `(tactic| with_reducible exact IncrVerif.Proofs.TidyH.XT.XR.SimR.writeVar _ _ _)



/-! ## ExpertH31 -/

section
variable {s : State} {α β : Type}

/-- a read-only program followed by a continuation: the continuation starts in the same state -/
theorem SimRAt.ro_seq {x x' : M α} {f f' : α → M β} (hro : Step.Pres SameS x) (hx : SimRAt s x x')
    (hf : ∀ a, SimRAt s (f a) (f' a)) : SimRAt s (x >>= f) (x' >>= f') := by
  refine SimRAt.seq hx fun a s1 h1 => ?_
  have e : s1 = s := hro.h s _ s1 h1
  rw [e]; exact hf a

end

theorem SimR.resolveOpnd (loc : List Nat) (o : Opnd) : SimR (Engine.resolveOpnd loc o) (Engine.resolveOpnd loc o) := by
  intro s; unfold Engine.resolveOpnd
  cases o <;> dsimp only <;> rsim <;> split <;> rsim
macro_rules | `(tactic| rsim_leaf) => `(tactic| with_reducible exact IncrVerif.Proofs.TidyH.XT.XR.SimR.resolveOpnd _ _)

theorem SimR.isConstant (n : Nat) : SimR (Engine.isConstant n) (Engine.isConstant n) := by
  intro s; unfold Engine.isConstant; rsim
  rsim_kind
macro_rules | `(tactic| rsim_leaf) => `(tactic| with_reducible exact IncrVerif.Proofs.TidyH.XT.XR.SimR.isConstant _)

/-! ## node creation -/

theorem frr_crState {k : Kind} (sc : Scope) {c : CutoffK} {s : State} (hn : FrR s) (hk : XK k)
    (hne : ∀ e, k ≠ .expert e) : FrR (crState k sc c s) := by
  refine hn.of_fr (fr_crState sc hn.fr hk) (fun m e hm => ?_) (by rw [crState_experts]; exact Nat.le_refl _)
  have hnd : (crState k sc c s).nodeD m = s.nodeD m ∨
      (crState k sc c s).nodeD m = { kind := k, createdIn := sc, cutoff := c } := by
    simp only [State.nodeD, crState_nodes, Array.getElem?_push]
    split
    · right; rfl
    · left; rfl
  rcases hnd with h | h
  · exact ⟨m, by rw [← h]; exact hm⟩
  · rw [h] at hm; exact absurd hm (hne e)

theorem SimRAt.createNode {s : State} {k : Kind} (sc : Scope) (c : CutoffK) (hne : ∀ e, k ≠ .expert e) (hk : XK k) :
    SimRAt s (Engine.createNode k sc c) (Engine.createNode k sc c) := by
  intro hn r t hr
  rw [run_createNode] at hr
  cases hr
  refine ⟨crState k sc c s, ?_, ?_, frr_crState sc hn hk hne⟩
  · rw [run_createNode, virt_size]
  · rw [virt_crState k sc c s hne]

theorem SimRAt.createVar {s : State} (v : Val) (sc : Scope) :
    SimRAt s (Engine.createVar v sc) (Engine.createVar v sc) := by
  unfold Engine.createVar
  refine SimRAt.get_seq ?_
  xnorm
  refine SimRAt.seq (SimRAt.createNode sc .eq (fun e h => by cases h) trivial) fun _ _ _ => ?_
  rsim

/-! ## `elabInstr`, `stepAction` -/

/-- `some <$> createNode k sc` for a static kind -/
macro "rcr_node" : tactic => `(tactic|
  exact IncrVerif.Proofs.TidyH.XT.XR.SimRAt.map _
    (IncrVerif.Proofs.TidyH.XT.XR.SimRAt.createNode _ _ (fun e h => by cases h) trivial))

theorem SimRAt.elabInstr {s : State} {i : Instr} (hR : XInstr i) :
    SimRAt s (Engine.elabInstr [] .unit i) (Engine.elabInstr [] .unit i) := by
  unfold Engine.elabInstr
  cases i <;> simp only [XInstr] at hR <;> refine SimRAt.get_seq ?_ <;> try xnorm
  case const v => rcr_node
  case var v => exact SimRAt.map _ (SimRAt.createVar v .top)
  case map f args =>
    refine SimRAt.ro_seq (Step.Pres.mapM (fun a => RO.resolveOpnd [] a) args)
      (SimR.mapM (fun a => SimR.resolveOpnd [] a) args s) fun as => ?_
    rcr_node
  case fold f init cs =>
    refine SimRAt.ro_seq (Step.Pres.mapM (fun a => RO.resolveOpnd [] a) cs)
      (SimR.mapM (fun a => SimR.resolveOpnd [] a) cs s) fun as => ?_
    refine SimRAt.cond Iff.rfl (fun _ => ?_) (fun _ => ?_) <;> rcr_node
  case zip a b =>
    refine SimRAt.ro_seq (RO.resolveOpnd [] a) (SimR.resolveOpnd [] a s) fun x => ?_
    refine SimRAt.ro_seq (RO.resolveOpnd [] b) (SimR.resolveOpnd [] b s) fun y => ?_
    refine SimRAt.ro_seq (RO.isConstant x) (SimR.isConstant x s) fun cx => ?_
    refine SimRAt.ro_seq (RO.isConstant y) (SimR.isConstant y s) fun cy => ?_
    split <;> rcr_node

theorem SimRAt.elabInstrM {s : State} {i : Instr} (env : Env) (hR : XInstr i) :
    SimRAt s (Engine.elabInstrM env [] .unit i) (Engine.elabInstrM (virtEnv env) [] .unit i) := by
  rw [elabInstrM_eq _ _ _ hR, elabInstrM_eq _ _ _ hR]
  exact SimRAt.elabInstr hR

/-- every API action of the fragment (identical on both sides) -/
theorem SimRAt.stepAction {s : State} {a : Action} (env : Env) (tk : Array Nat) (hR : XAction a) :
    SimRAt s (Engine.stepAction env a tk) (Engine.stepAction (virtEnv env) a tk) := by
  unfold Engine.stepAction
  cases a <;> simp only [XAction] at hR
  case create i =>
    refine SimRAt.seq (SimRAt.elabInstrM env hR) fun r _ _ => ?_
    cases r <;> rsim
  all_goals first
    | (refine SimRAt.seq (SimRAt.discard (SimR.writeVar _ _ _ _)) fun _ _ _ => ?_; rsim; done)
    | (rsim; done)
    | (rsim; exact SimRAt.ret _)



end XR
end IncrVerif.Proofs.TidyH.XT
