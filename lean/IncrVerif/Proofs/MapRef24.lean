import IncrVerif.Proofs.MapRef23
/-!
# map_ref fragment: the `didChange` invariant through the unlinking cascade and `unlink_disallowed_observers`
-/
namespace IncrVerif.Proofs.MapRefH
open IncrVerif.Engine IncrVerif.Proofs IncrVerif.Proofs.Step IncrVerif.Proofs.Sched IncrVerif.Proofs.Quiet

theorem mem_of_mem_swapRemove {α} {l : List α} {i : Nat} {x : α} (h : x ∈ swapRemove l i) : x ∈ l := by
  unfold swapRemove at h
  cases hl : l.getLast? with
  | none => rw [hl] at h; exact h
  | some last =>
    rw [hl] at h
    dsimp only at h
    split at h
    · exact List.dropLast_subset _ h
    · have := List.dropLast_subset _ h
      rcases List.mem_or_eq_of_mem_set this with h1 | h1
      · exact h1
      · rw [h1]; exact List.mem_of_getLast? hl

/-! ## `UF`: flags unchanged, parent lists shrink, `propagateInvalidity` unchanged -/

def UF (s s' : State) : Prop :=
  (∀ m, (s'.nodeD m).didChange = (s.nodeD m).didChange ∧
    ∀ x, x ∈ (s'.nodeD m).parents → x ∈ (s.nodeD m).parents) ∧
  s'.propagateInvalidity = s.propagateInvalidity

instance : Step.PreOrd UF :=
  ⟨fun _ => ⟨fun _ => ⟨rfl, fun _ h => h⟩, rfl⟩,
   fun h1 h2 => ⟨fun m => ⟨((h2.1 m).1).trans (h1.1 m).1, fun x hx => (h1.1 m).2 x ((h2.1 m).2 x hx)⟩,
     h2.2.trans h1.2⟩⟩

theorem UF.of_nodes {s s' : State} (h1 : s'.nodes = s.nodes) (h2 : s'.propagateInvalidity = s.propagateInvalidity) :
    UF s s' := by
  refine ⟨fun m => ?_, h2⟩
  have : s'.nodeD m = s.nodeD m := by simp [State.nodeD, h1]
  rw [this]; exact ⟨rfl, fun _ h => h⟩

theorem UF.modNode (s : State) (n : Nat) (f : Node → Node)
    (hf : ∀ x, (f x).didChange = x.didChange ∧ ∀ y, y ∈ (f x).parents → y ∈ x.parents) :
    UF s { s with nodes := s.nodes.modify n f } := by
  refine ⟨fun m => ?_, rfl⟩
  rw [nodeD_modify]; split
  · exact hf _
  · exact ⟨rfl, fun _ h => h⟩

theorem PresUF.modNode (n : Nat) (f : Node → Node)
    (hf : ∀ x, (f x).didChange = x.didChange ∧ ∀ y, y ∈ (f x).parents → y ∈ x.parents) :
    Step.Pres UF (Engine.modNode n f) := by
  unfold Engine.modNode; exact Step.Pres.modify fun s => UF.modNode s n f hf

macro_rules
  | `(tactic| qleaf) =>
    `(tactic| ((with_reducible apply Step.Pres.modify); intro _; exact UF.of_nodes rfl rfl))
macro_rules
  | `(tactic| qleaf) => `(tactic| ((with_reducible apply PresUF.modNode); intro _; exact ⟨rfl, fun _ h => h⟩))

macro "uf_leaf " n:ident : command =>
  `(macro_rules | `(tactic| qleaf) => `(tactic| with_reducible apply $n))

theorem PresUF.logEv (e) : Step.Pres UF (Engine.logEv e) := by unfold Engine.logEv; qpres
uf_leaf PresUF.logEv
theorem PresUF.modExpert (e f) : Step.Pres UF (Engine.modExpert e f) := by unfold Engine.modExpert; qpres
uf_leaf PresUF.modExpert
theorem PresUF.observabilityChange (e b) : Step.Pres UF (Engine.observabilityChange e b) := by
  unfold Engine.observabilityChange; qpres
uf_leaf PresUF.observabilityChange
theorem PresUF.setHeight (n h) : Step.Pres UF (Engine.setHeight n h) := by unfold Engine.setHeight; qpres
uf_leaf PresUF.setHeight
theorem PresUF.rchUnlink (n) : Step.Pres UF (Engine.rchUnlink n) := by unfold Engine.rchUnlink; qpres
uf_leaf PresUF.rchUnlink
theorem PresUF.rchRemove (n) : Step.Pres UF (Engine.rchRemove n) := by unfold Engine.rchRemove; qpres
uf_leaf PresUF.rchRemove
theorem PresUF.handleAfterStabilisation (n) : Step.Pres UF (Engine.handleAfterStabilisation n) := by
  unfold Engine.handleAfterStabilisation; qpres
uf_leaf PresUF.handleAfterStabilisation
theorem PresUF.maybeHandleAfterStabilisation (n) : Step.Pres UF (Engine.maybeHandleAfterStabilisation n) := by
  unfold Engine.maybeHandleAfterStabilisation; qpres
uf_leaf PresUF.maybeHandleAfterStabilisation

theorem PresUF.removeParent (c i p) : Step.Pres UF (Engine.removeParent c i p) := by
  unfold Engine.removeParent
  refine Step.Pres.bind (Step.Pres.getNode _) fun nd => ?_
  split
  · exact Step.Pres.panic _
  · exact PresUF.modNode _ _ (fun x => ⟨rfl, fun y hy => mem_of_mem_swapRemove hy⟩)
uf_leaf PresUF.removeParent

theorem PresUF.unlink (fuel : Nat) :
    (∀ n, Step.Pres UF (becameUnnecessary fuel n)) ∧
    (∀ n, Step.Pres UF (checkIfUnnecessary fuel n)) ∧
    (∀ n, Step.Pres UF (removeChildren fuel n)) := by
  induction fuel with
  | zero =>
    refine ⟨?_, ?_, ?_⟩
    · intro n; unfold becameUnnecessary; qpres
    · intro n; unfold checkIfUnnecessary; qpres
    · intro n; unfold removeChildren; qpres
  | succ fuel ih =>
    refine ⟨?_, ?_, ?_⟩
    · intro n
      unfold becameUnnecessary
      qpres
      all_goals exact ih.2.2 _
    · intro n
      unfold checkIfUnnecessary
      qpres
      all_goals exact ih.1 _
    · intro n
      unfold removeChildren
      qpres
      all_goals (apply Step.Pres.forIn; intro a b; qpres; exact ih.2.1 _)

theorem PresUF.checkIfUnnecessary (fuel n) : Step.Pres UF (Engine.checkIfUnnecessary fuel n) :=
  (PresUF.unlink fuel).2.1 n
theorem PresUF.becameUnnecessary (fuel n) : Step.Pres UF (Engine.becameUnnecessary fuel n) :=
  (PresUF.unlink fuel).1 n
theorem PresUF.removeChildren (fuel n) : Step.Pres UF (Engine.removeChildren fuel n) :=
  (PresUF.unlink fuel).2.2 n

/-! ## `SH`: what the invariant reads is constant, except that necessity shrinks -/

structure SH (s s' : State) : Prop where
  vf : VFrame s s'
  flag : ∀ m, (s'.nodeD m).didChange = (s.nodeD m).didChange
  par : ∀ m x, x ∈ (s'.nodeD m).parents → x ∈ (s.nodeD m).parents
  obs : ∀ m x, x ∈ (s'.nodeD m).observers → x ∈ (s.nodeD m).observers
  force : ∀ m, (s'.nodeD m).forceNecessary = (s.nodeD m).forceNecessary
  pinv : s'.propagateInvalidity = s.propagateInvalidity

theorem SH.refl (s : State) : SH s s := ⟨VFrame.refl s, fun _ => rfl, fun _ _ h => h, fun _ _ h => h, fun _ => rfl, rfl⟩
theorem SH.trans {a b c : State} (h1 : SH a b) (h2 : SH b c) : SH a c :=
  ⟨h1.vf.trans h2.vf, fun m => (h2.flag m).trans (h1.flag m), fun m x h => h1.par m x (h2.par m x h),
    fun m x h => h1.obs m x (h2.obs m x h), fun m => (h2.force m).trans (h1.force m), h2.pinv.trans h1.pinv⟩
instance : Step.PreOrd SH := ⟨SH.refl, SH.trans⟩

theorem SH.nec {s s' : State} (h : SH s s') {m : Nat} (hm : s'.isNecessary m = true) : s.isNecessary m = true := by
  rw [isNecessary_iff] at hm ⊢
  rcases hm with hm | hm | hm
  · left
    obtain ⟨x, hx⟩ := List.exists_mem_of_ne_nil _ hm
    exact List.ne_nil_of_mem (h.par m x hx)
  · right; left
    obtain ⟨x, hx⟩ := List.exists_mem_of_ne_nil _ hm
    exact List.ne_nil_of_mem (h.obs m x hx)
  · right; right; rw [← h.force]; exact hm

theorem SH.fm {s s' : State} (h : SH s s') : FM s s' := fun m hm => by rw [h.flag]; exact hm

/-- necessity shrinks, everything else the invariant reads is constant: the invariant is inherited -/
theorem KInv.of_sh {env : Env} {g : Nat → Option Val} {s s' : State} (K : KInv env g s) (h : SH s s') :
    KInv env g s' := by
  intro m p i hm hk hd
  rw [h.vf.kind] at hk; rw [h.flag] at hd; rw [h.vf.value_eq]
  exact K m p i (h.nec hm) hk hd

theorem SH.of_cframe_uf {s s' : State} (fr : CFrame s s') (u : UF s s') : SH s s' :=
  ⟨fr.toV, fun m => (u.1 m).1, fun m => (u.1 m).2, fun m x hx => by rw [fr.observers] at hx; exact hx,
    fr.forceNecessary, u.2⟩

/-- every run of `check_if_unnecessary` -/
theorem checkIfUnnecessary_sh {fuel n : Nat} {s s' : State} {r : Except Panic Unit}
    (h : (Engine.checkIfUnnecessary fuel n).run.run s = (r, s')) : SH s s' :=
  SH.of_cframe_uf ((PresF.checkIfUnnecessary fuel n).h _ _ _ h) ((PresUF.checkIfUnnecessary fuel n).h _ _ _ h)

/-- **(5a)** the unlinking cascade (every run, also a panicking one) -/
theorem checkIfUnnecessary_keepsK {env : Env} {g : Nat → Option Val} {fuel n : Nat} {s s' : State}
    {r : Except Panic Unit} (K : KInv env g s) (h : (Engine.checkIfUnnecessary fuel n).run.run s = (r, s')) :
    KInv env g s' ∧ s'.propagateInvalidity = s.propagateInvalidity ∧
      (∀ m, (s'.nodeD m).didChange = (s.nodeD m).didChange) ∧ CFrame s s' := by
  have S := checkIfUnnecessary_sh h
  exact ⟨K.of_sh S, S.pinv, S.flag, (PresF.checkIfUnnecessary fuel n).h _ _ _ h⟩

/-- (5b), with the relation between the states -/
theorem unlinkDisallowedObservers_sh {fuel : Nat} {s s' : State}
    (h : (unlinkDisallowedObservers fuel).run.run s = (.ok (), s')) : SH s s' := by
  unfold unlinkDisallowedObservers at h
  rw [run_bind_get] at h
  obtain ⟨s0, hs0, h⟩ := bind_modify_inv h
  obtain ⟨u, s1, hloop, h⟩ := bind_ok_inv h
  obtain ⟨-, e⟩ := pure_ok_inv h
  rw [e]
  have hn0 : s0.nodes = s.nodes := by rw [hs0]
  have hnd0 : ∀ m, s0.nodeD m = s.nodeD m := fun m => by simp [State.nodeD, hn0]
  have S0 : SH s s0 :=
    ⟨VFrame.of_nodes hn0 (by rw [hs0]), fun m => by rw [hnd0], fun m x hx => by rw [hnd0] at hx; exact hx,
      fun m x hx => by rw [hnd0] at hx; exact hx, fun m => by rw [hnd0], by rw [hs0]⟩
  exact forIn_ok_inv _ s.disallowedObservers
    (fun (_ : Nat) (_ : PUnit) t => SH s t)
    (by
      intro j o b t r t' hj St hbody
      obtain ⟨ob, hob, hbody⟩ := bind_getObs_inv hbody
      replace hbody := bind_dassert_inv hbody
      obtain ⟨t1, ht1, hbody⟩ := bind_modObs_inv hbody
      obtain ⟨t2, ht2, hbody⟩ := bind_modNode_inv hbody
      obtain ⟨t3, ht3, hbody⟩ := bind_modify_inv hbody
      obtain ⟨_, t4, h4, hbody⟩ := bind_ok_inv hbody
      obtain ⟨hr, e⟩ := pure_ok_inv hbody
      rw [e]
      refine ⟨_, hr, ?_⟩
      have hn1 : t1.nodes = t.nodes := by rw [ht1]
      have hnd1 : ∀ m, t1.nodeD m = t.nodeD m := fun m => by simp [State.nodeD, hn1]
      have S1 : SH t t1 :=
        ⟨VFrame.of_nodes hn1 (by rw [ht1]), fun m => by rw [hnd1], fun m x hx => by rw [hnd1] at hx; exact hx,
          fun m x hx => by rw [hnd1] at hx; exact hx, fun m => by rw [hnd1], by rw [ht1]⟩
      have S2 : SH t1 t2 := by
        rw [ht2]
        refine ⟨VFrame.modNode _ _ _ (fun _ => ⟨rfl, rfl, rfl, rfl, rfl, rfl⟩), ?_, ?_, ?_, ?_, rfl⟩
        · intro m; rw [nodeD_modify]; split <;> rfl
        · intro m x hx; rw [nodeD_modify] at hx; split at hx
          · exact hx
          · exact hx
        · intro m x hx; rw [nodeD_modify] at hx; split at hx
          · exact (List.mem_filter.1 hx).1
          · exact hx
        · intro m; rw [nodeD_modify]; split <;> rfl
      have hn3 : t3.nodes = t2.nodes := by rw [ht3]
      have hnd3 : ∀ m, t3.nodeD m = t2.nodeD m := fun m => by simp [State.nodeD, hn3]
      have S3 : SH t2 t3 :=
        ⟨VFrame.of_nodes hn3 (by rw [ht3]), fun m => by rw [hnd3], fun m x hx => by rw [hnd3] at hx; exact hx,
          fun m x hx => by rw [hnd3] at hx; exact hx, fun m => by rw [hnd3], by rw [ht3]⟩
      exact (((St.trans S1).trans S2).trans S3).trans (checkIfUnnecessary_sh h4))
    s.disallowedObservers 0 PUnit.unit s0 u s1 (by simp) (Nat.zero_le _) S0 hloop

/-- **(5b)** `unlink_disallowed_observers` -/
theorem unlinkDisallowedObservers_keepsK {env : Env} {g : Nat → Option Val} {fuel : Nat} {s s' : State}
    (K : KInv env g s) (h : (unlinkDisallowedObservers fuel).run.run s = (.ok (), s')) :
    KInv env g s' ∧ s'.propagateInvalidity = s.propagateInvalidity ∧
      (∀ m, (s'.nodeD m).didChange = (s.nodeD m).didChange) := by
  have S := unlinkDisallowedObservers_sh h
  exact ⟨K.of_sh S, S.pinv, S.flag⟩

end IncrVerif.Proofs.MapRefH
