import IncrVerif.Proofs.PerKeyH30
import IncrVerif.Proofs.PerKeyH25
import IncrVerif.Proofs.PerKeyH33
/-! all of the twin simulation calculus `TSim` (T1 … T11; T12 = bridge to PK2) -/
