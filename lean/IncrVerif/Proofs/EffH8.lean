import IncrVerif.Proofs.EffH7
/-!
# Effects, part 8: what a node function saw; the values after a `stabilise` with write effects; staleness and
`isStable` afterwards
-/
namespace IncrVerif.Proofs.EffH
open IncrVerif.Engine IncrVerif.Driver IncrVerif.Proofs IncrVerif.Proofs.Step IncrVerif.Proofs.Sched
open IncrVerif.Proofs.Quiet

/-! ## the nodes below the current node carry their from-scratch values -/

theorem eval_of_consistent_on (env : Env) (s : State) (g : Graph env s) (P : Nat → Prop)
    (hP : ∀ m, P m → s.isNecessary m = true ∧ Consistent env s m ∧ ∀ a, a ∈ kids (s.nodeD m).kind → P a) :
    ∀ k n, P n → (s.nodeD n).height.toNat < k → (s.nodeD n).value = eval env s k n := by
  intro k
  induction k with
  | zero => intro n _ h; omega
  | succ k ih =>
    intro n hn hk
    obtain ⟨hnec, ⟨v, ht, hv⟩, hkidsP⟩ := hP n hn
    have hkids : ∀ a, a ∈ kids (s.nodeD n).kind → (s.nodeD a).value = eval env s k a := by
      intro a ha
      obtain ⟨h1, h2⟩ := g.kids_nec hnec ha
      have h0 := (g.nec a h1).2.2.2.2
      exact ih a (hkidsP a ha) (by omega)
    rw [hv]
    unfold Target at ht
    unfold Sched.eval
    cases hkd : (s.nodeD n).kind with
    | const w => rw [hkd] at ht; simp only [ht]
    | var c =>
      rw [hkd] at ht
      obtain ⟨vc, h1, h2⟩ := ht
      simp only [h1, h2, Option.map_some]
    | map f args =>
      rw [hkd] at ht hkids
      obtain ⟨vals, h1, h2⟩ := ht
      simp only
      rw [← evalArgs_congr _ _ args (fun a ha => hkids a ha)]
      unfold plainVals at h1
      rw [h1, h2]; rfl
    | fold f init cs =>
      rw [hkd] at ht hkids
      obtain ⟨vals, h1, h2⟩ := ht
      simp only
      rw [← evalArgs_congr _ _ cs (fun a ha => hkids a ha)]
      unfold plainVals at h1
      rw [h1, h2]; rfl
    | mapRef _ _ => rw [hkd] at ht; exact ht.elim
    | mapWithOld _ _ => rw [hkd] at ht; exact ht.elim
    | bindLhsChange _ => rw [hkd] at ht; exact ht.elim
    | bindMain _ _ => rw [hkd] at ht; exact ht.elim
    | expert _ => rw [hkd] at ht; exact ht.elim

/-- every node strictly below the current node of the scheduling invariant is up to date: its stored value (also as
read through `State.value`) is its from-scratch value on the current values of the variables -/
theorem inv_below_values {env : Env} {s : State} {n : Nat} (I : Inv env s (some n)) (d : Nat)
    (hd : Anc s n d) (hne : d ≠ n) (k : Nat) (hk : (s.nodeD d).height.toNat < k) :
    (s.nodeD d).value = eval env s k d ∧ s.value env d = eval env s k d ∧ (eval env s k d).isSome = true := by
  have g := I.graph
  obtain ⟨hn, hbelow⟩ := I.cur n rfl
  let P : Nat → Prop := fun m => Anc s n m ∧ m ≠ n
  have hP : ∀ m, P m → s.isNecessary m = true ∧ Consistent env s m ∧
      ∀ a, a ∈ kids (s.nodeD m).kind → P a := by
    intro m ⟨hm, hmn⟩
    have hnec := hm.nec g hn
    have hnst : s.isStale m = false := by
      cases hst : s.isStale m with
      | false => rfl
      | true =>
        rcases I.pending m hnec hst with h | h
        · rw [hbelow m hm] at h; cases h
        · cases h; exact absurd rfl hmn
    refine ⟨hnec, I.cons m hnec hnst, fun a ha => ?_⟩
    have ha' : Anc s m a := Anc.step hnec ha (Anc.refl a)
    refine ⟨hm.trans ha', fun e => ?_⟩
    have h1 := (g.kids_nec hnec ha).2
    have h2 := hm.height_le g
    rw [e] at h1; omega
  have hv := eval_of_consistent_on env s g P hP k d ⟨hd, hne⟩ hk
  obtain ⟨-, ⟨v, -, hval⟩, -⟩ := hP d ⟨hd, hne⟩
  refine ⟨hv, ?_, ?_⟩
  · rw [g.value_plain (hd.nec g hn)]; exact hv
  · rw [← hv, hval]; rfl

/-! ## what the node function of a step saw -/

/-- the from-scratch values of a list of nodes in state `t` (each with fuel just above its height) -/
def argVals (env : Env) (t : State) (args : List Nat) : Option (List Val) :=
  evalArgs (fun a => eval env t ((t.nodeD a).height.toNat + 1) a) args

/-- the effects node `m` issues when its function is applied to the from-scratch values of its children in `t` -/
def evalEffs (env : Env) (t : State) (m : Nat) : List Effect :=
  match (t.nodeD m).kind with
  | .map f args =>
    if f < fnZip then
      match argVals env t args with
      | some vals => env.fnEff f vals
      | none => []
    else []
  | _ => []

/-- **(a)** the state `p.2` in which node `p.1` ran during a drain that started in `t`: the variables have the
values they had in `t` (only `pending` differs), and every child of the node carries — as seen by the node function —
its from-scratch value on the variables of `t` -/
theorem step_saw {env : Env} {t : State} {p : Nat × State} (o : StepOK env t p) :
    (∀ (v : Nat) (c : VarCell), t.vars[v]? = some c → ∃ c', p.2.vars[v]? = some c' ∧ c'.value = c.value) ∧
    (p.2.nodeD p.1).kind = (t.nodeD p.1).kind ∧
    ∀ a, a ∈ kids (p.2.nodeD p.1).kind → ∀ k, (t.nodeD a).height.toNat < k →
      p.2.value env a = eval env t k a ∧ (eval env t k a).isSome = true := by
  have I := o.di.inv
  have F := o.dr.frame
  refine ⟨fun v c hc => ?_, (F.shape p.1).kind, fun a ha k hk => ?_⟩
  · obtain ⟨c', h1, h2⟩ := F.cell v c hc
    exact ⟨c', h1, h2.value⟩
  · have hn := (I.cur p.1 rfl).1
    have hanc : Anc p.2 p.1 a := Anc.step hn ha (Anc.refl a)
    have hne : a ≠ p.1 := by
      intro e
      have := (I.graph.kids_nec hn ha).2
      rw [e] at this; omega
    obtain ⟨-, h2, h3⟩ := inv_below_values I a hanc hne k (by rw [(F.shape a).height]; exact hk)
    rw [F.eval, eval_noEff] at h2 h3
    exact ⟨by rw [← value_noEff]; exact h2, h3⟩

theorem nodeEffs_eq_evalEffs {env : Env} {t : State} {p : Nat × State} (o : StepOK env t p) :
    nodeEffs env p.2 p.1 = evalEffs env t p.1 := by
  obtain ⟨-, hk, hsaw⟩ := step_saw o
  unfold nodeEffs evalEffs
  rw [hk]
  cases hkd : (t.nodeD p.1).kind <;> try rfl
  rename_i f args
  by_cases hf : f < fnZip
  · simp only [if_pos hf]
    have : valuesOf env p.2 args = argVals env t args := by
      rw [valuesOf_eq_evalArgs]
      unfold argVals
      apply evalArgs_congr
      intro a ha
      exact (hsaw a (by rw [hk, hkd]; exact ha) _ (Nat.lt_succ_self _)).1
    rw [this]
    rfl
  · simp only [if_neg hf]

/-- **(b), the order:** the deferred writes of a drain are those of its trace, in the order the functions ran, each
function applied to the from-scratch values of its arguments on the PRE-STABILISE variables -/
theorem stepsWrites_eq_trace {env : Env} {fuel : Nat} {t t' : State}
    (R : RunOK env (drainSteps env fuel t) t t') :
    stepsWrites env (drainSteps env fuel t) =
      (drainTrace env fuel t).flatMap fun m => writesOf (evalEffs env t m) := by
  rw [← drainSteps_fst, List.flatMap_map]
  unfold stepsWrites
  have key : ∀ l : List (Nat × State), (∀ p, p ∈ l → StepOK env t p) →
      (l.flatMap fun p => writesOf (nodeEffs env p.2 p.1)) =
        l.flatMap fun p => writesOf (evalEffs env t p.1) := by
    intro l
    induction l with
    | nil => intro _; rfl
    | cons p l ih =>
      intro hl
      simp only [List.flatMap_cons]
      rw [nodeEffs_eq_evalEffs (hl p (List.mem_cons_self ..)), ih (fun q hq => hl q (List.mem_cons_of_mem _ hq))]
  exact key _ R.steps

/-! ## the final state -/

section final
variable {env : Env} {fuel : Nat} {s t2 t3 S s' : State}

theorem EStab.nodeS (X : EStab env fuel s t2 t3 S s') (m : Nat) :
    (s'.nodeD m).kind = (S.nodeD m).kind ∧ (s'.nodeD m).value = (S.nodeD m).value ∧
    (s'.nodeD m).valid = (S.nodeD m).valid ∧ (s'.nodeD m).height = (S.nodeD m).height ∧
    (s'.nodeD m).recomputedAt = (S.nodeD m).recomputedAt ∧ (s'.nodeD m).changedAt = (S.nodeD m).changedAt ∧
    s'.isNecessary m = S.isNecessary m := by
  obtain ⟨h, b, e⟩ := X.node m
  refine ⟨by rw [e], by rw [e], by rw [e], by rw [e], by rw [e], by rw [e], ?_⟩
  simp only [State.isNecessary, Node.isNecessary, e]

/-- **(a)/(d) values.** After the `stabilise`, every necessary node is valid and carries — in its `value` field and
as read by observers — its defining expression evaluated from scratch in the final graph on the PRE-STABILISE
variables `s.vars` (not on the written ones). -/
theorem EStab.values (X : EStab env fuel s t2 t3 S s') (n : Nat) (hn : s'.isNecessary n = true) (k : Nat)
    (hk : (s'.nodeD n).height.toNat < k) :
    (s'.nodeD n).valid = true ∧ (s'.nodeD n).value = eval env { s' with vars := s.vars } k n ∧
      s'.value env n = eval env { s' with vars := s.vars } k n ∧
      (eval env { s' with vars := s.vars } k n).isSome = true := by
  obtain ⟨e1, e2, e3, e4, -, -, e7⟩ := X.nodeS n
  obtain ⟨v1, -, v3, -, v5⟩ := X.clean.values n (by rw [← e7]; exact hn) k (by rw [← e4]; exact hk)
  have hev : eval env { s' with vars := s.vars } k n = eval (noEff env) S k n := by
    rw [← eval_noEff]
    exact eval_congr (s := S) (s' := { s' with vars := s.vars }) (fun m => (X.nodeS m).1) X.clean.vars.symm k n
  have hval : (s'.nodeD n).value = eval env { s' with vars := s.vars } k n := by rw [e2, hev]; exact v3
  refine ⟨by rw [e3]; exact v1, hval, ?_, by rw [hev]; exact v5⟩
  rw [← value_noEff, X.inv.q.quiet.graph.value_plain hn]; exact hval

/-- the deferred writes of the stabilisation, in program order -/
def EStab.writes (_ : EStab env fuel s t2 t3 S s') : Writes := stepsWrites env (drainSteps env fuel t2)

/-- **(c) staleness afterwards.** A necessary node is stale after the `stabilise` iff it is the watch node of a
variable that was written (by at least one deferred write — even one that stored the old value). -/
theorem EStab.stale_iff (X : EStab env fuel s t2 t3 S s') (m : Nat) (hm : s'.isNecessary m = true) :
    s'.isStale m = true ↔ ∃ v, (s'.nodeD m).kind = .var v ∧ writesTo v X.writes ≠ [] := by
  have Q' := X.inv.q
  have g' := Q'.quiet.graph
  obtain ⟨e1, -, -, -, e5, -, e7⟩ := X.nodeS m
  have hmS : S.isNecessary m = true := by rw [← e7]; exact hm
  have gS := X.clean.inv.quiet.graph
  have hsS : staleOf S m = false := by
    rw [← gS.isStale hmS]
    exact (X.clean.values m hmS _ (Nat.lt_succ_self _)).2.1
  rw [g'.isStale hm]
  unfold staleOf at hsS ⊢
  rw [e1, e5]
  cases hk : (S.nodeD m).kind with
  | var c =>
    rw [hk] at hsS
    simp only at hsS ⊢
    obtain ⟨vc, hvc⟩ := gS.var m c hmS hk
    simp only [hvc] at hsS
    have hvs : s.vars[c]? = some vc := by rw [← X.clean.vars]; exact hvc
    rw [X.vars c vc hvs]
    unfold EStab.writes
    cases hw : writesTo c (stepsWrites env (drainSteps env fuel t2)) with
    | nil =>
      simp only [cellAfter]
      constructor
      · intro h; exact absurd (of_decide_eq_true h) (of_decide_eq_false hsS)
      · rintro ⟨v, hv, hne⟩
        cases hv
        exact absurd hw hne
    | cons f fs =>
      simp only [cellAfter]
      constructor
      · intro _; exact ⟨c, rfl, by rw [hw]; exact List.cons_ne_nil _ _⟩
      · intro _
        have h1 := (X.clean.inv.stamps m).1
        rw [X.clean.stabNum] at h1
        simp only [gt_iff_lt, decide_eq_true_eq]
        exact h1
  | const w =>
    rw [hk] at hsS
    simp only at hsS ⊢
    rw [hsS]
    constructor
    · intro h; cases h
    · rintro ⟨v, hv, -⟩; cases hv
  | map f args =>
    rw [hk] at hsS
    simp only at hsS ⊢
    have : ∀ c, (s'.nodeD c).changedAt = (S.nodeD c).changedAt := fun c => (X.nodeS c).2.2.2.2.2.1
    simp only [this]
    rw [hsS]
    constructor
    · intro h; cases h
    · rintro ⟨v, hv, -⟩; cases hv
  | fold f init cs =>
    rw [hk] at hsS
    simp only at hsS ⊢
    have : ∀ c, (s'.nodeD c).changedAt = (S.nodeD c).changedAt := fun c => (X.nodeS c).2.2.2.2.2.1
    simp only [this]
    rw [hsS]
    constructor
    · intro h; cases h
    · rintro ⟨v, hv, -⟩; cases hv
  | mapRef _ _ => exact absurd hk ((gS.nec m hmS).2.2.1.not_mapRef _ _)
  | mapWithOld _ _ => have := (gS.nec m hmS).2.2.1; rw [hk] at this; exact this.elim
  | bindLhsChange _ => have := (gS.nec m hmS).2.2.1; rw [hk] at this; exact this.elim
  | bindMain _ _ => have := (gS.nec m hmS).2.2.1; rw [hk] at this; exact this.elim
  | expert _ => have := (gS.nec m hmS).2.2.1; rw [hk] at this; exact this.elim

/-! ## `isStable` -/

theorem bucketSum_zero_of_empty (q : Array (List Nat)) (h : ∀ i (hi : i < q.size), q[i] = []) :
    bucketSum q = 0 := by
  unfold bucketSum
  have : ∀ l : List (List Nat), (∀ x ∈ l, x = []) → (l.map List.length).sum = 0 := by
    intro l
    induction l with
    | nil => intro _; rfl
    | cons a l ih =>
      intro hl
      simp only [List.map_cons, List.sum_cons]
      rw [hl a (List.mem_cons_self ..), ih (fun x hx => hl x (List.mem_cons_of_mem _ hx))]
      rfl
  apply this
  intro x hx
  obtain ⟨i, hi, e⟩ := List.mem_iff_getElem.1 hx
  rw [← e]
  simp only [Array.length_toList] at hi
  simpa using h i hi

/-- the heap is empty iff no node is marked as queued -/
theorem heap_empty_iff {s : State} (h : HeapInv s) :
    s.rch.length = 0 ↔ ∀ m, (s.nodeD m).inRch = false := by
  constructor
  · exact fun he m => h.empty he m
  · intro hall
    rw [h.wf.length]
    apply bucketSum_zero_of_empty
    intro i hi
    cases hq : s.rch.queues[i] with
    | nil => rfl
    | cons n rest =>
      exfalso
      have hmem : n ∈ s.rch.queues[i] := by rw [hq]; exact List.mem_cons_self ..
      obtain ⟨hlt, hh⟩ := (h.wf.mem i hi n).1 hmem
      have := hall n
      simp only [Node.inRch, hh] at this
      simp at this

/-- what `State.isStable` is in a state satisfying the invariant between actions: no new observer is waiting and no
necessary node is stale -/
theorem isStable_iff {env : Env} {s : State} (Q : QInv env s) :
    s.isStable = true ↔ (s.newObservers = [] ∧ ∀ m, s.isNecessary m = true → s.isStale m = false) := by
  have hq := Q.quiet
  unfold State.isStable
  rw [Q.deadVars]
  simp only [List.isEmpty_nil, Bool.and_true, Bool.and_eq_true, beq_iff_eq, List.isEmpty_iff]
  rw [heap_empty_iff hq.heap]
  constructor
  · rintro ⟨h1, h2⟩
    refine ⟨h2, fun m hm => ?_⟩
    cases hst : s.isStale m with
    | false => rfl
    | true => have := (hq.queued m).2 ⟨hm, hst⟩; rw [h1 m] at this; cases this
  · rintro ⟨h1, h2⟩
    refine ⟨fun m => ?_, h1⟩
    cases hq' : (s.nodeD m).inRch with
    | false => rfl
    | true =>
      obtain ⟨a, b⟩ := (hq.queued m).1 hq'
      rw [h2 m a] at b; cases b

/-- **(c) `isStable` after a `stabilise` with write effects:** it is `true` iff no written variable has a necessary
watch node, i.e. iff no written variable is observed (directly or through the graph). -/
theorem EStab.isStable_iff (X : EStab env fuel s t2 t3 S s') :
    s'.isStable = true ↔
      ∀ v, writesTo v X.writes ≠ [] → ∀ m, (s'.nodeD m).kind = .var v → s'.isNecessary m = false := by
  rw [EffH.isStable_iff X.inv.q]
  constructor
  · rintro ⟨-, h⟩ v hv m hk
    cases hn : s'.isNecessary m with
    | false => rfl
    | true =>
      have := (X.stale_iff m hn).2 ⟨v, hk, hv⟩
      rw [h m hn] at this; cases this
  · intro h
    refine ⟨X.newObservers, fun m hm => ?_⟩
    cases hst : s'.isStale m with
    | false => rfl
    | true =>
      obtain ⟨v, hk, hv⟩ := (X.stale_iff m hm).1 hst
      rw [h v hv m hk] at hm; cases hm

end final

end IncrVerif.Proofs.EffH
