import IncrVerif.Proofs.Life7
/-!
# Observer lifecycle over whole histories, part 8: reads move only at `stabilise` boundaries (C07),
for whole histories
-/
namespace IncrVerif.Proofs.Life
open IncrVerif.Engine IncrVerif.Proofs.Obs

/-- the node half of `Obs.Frame`: `alive`, `status`, and the `kind`/`valid`/`value` of every existing
node are unchanged; nodes may have been appended.  Nothing is said about observers. -/
structure NFrame (s s' : State) : Prop where
  alive : s'.alive = s.alive
  status : s'.status = s.status
  nodesLe : s.nodes.size ≤ s'.nodes.size
  nodes : ∀ n, n < s.nodes.size → (s'.nodes[n]?).map nodeCore = (s.nodes[n]?).map nodeCore

theorem NFrame.refl (s : State) : NFrame s s := ⟨rfl, rfl, Nat.le_refl _, fun _ _ => rfl⟩
theorem NFrame.trans {a b c : State} (h1 : NFrame a b) (h2 : NFrame b c) : NFrame a c where
  alive := h2.alive.trans h1.alive
  status := h2.status.trans h1.status
  nodesLe := Nat.le_trans h1.nodesLe h2.nodesLe
  nodes n hn := (h2.nodes n (Nat.lt_of_lt_of_le hn h1.nodesLe)).trans (h1.nodes n hn)
instance : PreOrd NFrame := ⟨NFrame.refl, NFrame.trans⟩

theorem NFrame.of_frame {s s' : State} (h : Frame s s') : NFrame s s' :=
  ⟨h.alive, h.status, h.nodesLe, h.nodes⟩

theorem NFrame.of_eq {s s' : State} (h1 : s'.alive = s.alive) (h2 : s'.status = s.status)
    (h3 : s'.nodes = s.nodes) : NFrame s s' :=
  ⟨h1, h2, by rw [h3]; exact Nat.le_refl _, fun _ _ => by rw [h3]⟩

theorem NFrame.value_eq (env : Env) {s s' : State} (h : NFrame s s') (hwf : MapRefsBackward s)
    {n : Nat} (hn : n < s.nodes.size) : s'.value env n = s.value env n := by
  simp only [State.value]
  have := h.nodesLe
  exact valueWith_congr_prefix env.proj s s' hwf (fun m hm => nodeD_core_of_map_eq (h.nodes m hm)) n hn
    _ _ (by omega) (by omega)

theorem NFrame.disallowState (s : State) (o : Nat) : NFrame s (disallowState s o) := by
  unfold Life.disallowState
  cases s.observers[o]? with
  | none => exact NFrame.refl _
  | some ob =>
    obtain ⟨n, st, hs, c⟩ := ob
    cases st <;> exact NFrame.of_eq rfl rfl rfl

theorem NFrame.dropObsState (s : State) (o : Nat) : NFrame s (dropObsState s o) := by
  unfold Life.dropObsState
  cases s.observers[o]? with
  | none => exact NFrame.refl _
  | some ob =>
    simp only []
    split
    · exact NFrame.refl _
    · split
      · exact NFrame.trans (b := { s with observers := s.observers.modify o fun x =>
          { x with clones := x.clones - 1 } }) (NFrame.of_eq rfl rfl rfl) (NFrame.disallowState _ o)
      · exact NFrame.of_eq rfl rfl rfl

/-- the actions between two stabilisations that cannot move a read: everything except `stabilise`
itself, `drop_all` (every read becomes `ObservingInvalid`) and the expert call `add_dependency` (it
runs the necessity and invalidation cascades outside a stabilisation) -/
def Action.keepsReads : Action → Bool
  | .stabilise | .dropAll | .addDep .. => false
  | _ => true

theorem PresN.stepAction (env : Env) (a : Action) (tokens : Array Nat)
    (ha : Action.keepsReads a = true) : Pres NFrame (stepAction env a tokens) := by
  by_cases hq : Action.isQuiet a = true
  · exact (Pres.stepAction_quiet env a tokens hq).mono fun _ _ h => NFrame.of_frame h.toFrame
  · cases a <;> simp only [Action.isQuiet, not_true_eq_false, Bool.false_eq_true] at hq
    all_goals simp only [Action.keepsReads, Bool.false_eq_true] at ha
    · exact (Pres.stepAction_create env _ tokens).mono fun _ _ h => NFrame.of_frame h
    · constructor
      intro s r s' hrun
      rw [stepAction_observe_run] at hrun
      split at hrun <;> cases hrun
      · exact NFrame.of_eq rfl rfl rfl
      · exact NFrame.refl _
    · constructor
      intro s r s' hrun
      rw [stepAction_dropObs_run] at hrun; cases hrun
      exact NFrame.dropObsState s _
    · constructor
      intro s r s' hrun
      rw [stepAction_disallow_run] at hrun; cases hrun
      exact NFrame.disallowState s _

/-- histories without `stabilise`, `drop_all`, `add_dependency` -/
def Between (a : Action) (_ : Except Panic (String × Array Nat)) : Prop := Action.keepsReads a = true

theorem Run.nframe {env : Env} {s s' : State} (h : Run env Between s s') : NFrame s s' :=
  Run.induct (fun a tokens ⟨_, hp⟩ => PresN.stepAction env a tokens hp)
    (fun _ => NFrame.of_eq rfl rfl rfl) h

/-- O5 (C07 for whole histories): between two stabilisations — along any list of API actions other
than `stabilise`, `drop_all` and `add_dependency`, whatever their outcomes — an observer whose
lifecycle state is the same at the end as at the start reads the same result at the end as at the
start.  The two well-formedness facts of `Props/C07.lean` are needed for the initial state only. -/
theorem Run.read_eq (env : Env) {s s' : State} (h : Run env Between s s')
    (hwf : MapRefsBackward s) (hobs : ObsNodesInRange s) (o : Nat) (ob ob' : ObsRec)
    (e : s.observers[o]? = some ob) (e' : s'.observers[o]? = some ob')
    (hst : ob'.state = ob.state) : s'.tryGetValue env o = s.tryGetValue env o := by
  have hn := h.nframe
  obtain ⟨ob'', e'', hnode, _⟩ := h.life.obs o ob e
  rw [e'] at e''; cases e''
  rw [tryGetValue_eq_readTable, tryGetValue_eq_readTable, hn.alive, hn.status, e, e']
  have hc : obsCore ob' = obsCore ob := by simp [obsCore, hnode, hst]
  simp only [Option.map_some, hc]
  apply readTable_congr_value
  intro n st hns
  simp only [obsCore, Option.some.injEq, Prod.mk.injEq] at hns
  rw [← hns.1]
  exact hn.value_eq env hwf (hobs o ob e)

end IncrVerif.Proofs.Life
