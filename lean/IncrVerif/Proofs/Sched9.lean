import IncrVerif.Proofs.Sched8
/-!
# L4: `stabilise` on an idle quiescent state (continued)

`stabilise_quiet`: from `QuietInv` and `Idle`, a successful `stabilise` is: set the status, run `drainHeap`
from a state satisfying `DrainInv`, bump the round number.  Afterwards `QuietInv` and `Idle` hold again, no
necessary node is stale, and every necessary node carries its from-scratch value.
-/
namespace IncrVerif.Proofs.Sched
open IncrVerif.Engine IncrVerif.Proofs IncrVerif.Proofs.Step

/-! ## the pieces of `stabilise` when nothing is deferred -/

theorem eta_newObservers (s : State) (h : s.newObservers = []) :
    ({ s with newObservers := [] } : State) = s := by
  cases s; simp only at h; subst h; rfl

theorem eta_disallowedObservers (s : State) (h : s.disallowedObservers = []) :
    ({ s with disallowedObservers := [] } : State) = s := by
  cases s; simp only at h; subst h; rfl

theorem addNewObservers_nil (env : Env) (fuel : Nat) (s : State) (h : s.newObservers = []) :
    (addNewObservers env fuel).run.run s = (.ok (), s) := by
  unfold addNewObservers
  simp only [run_bind, run_get, run_modify, h, List.forIn_nil, run_pure]
  rw [eta_newObservers s h]

theorem unlinkDisallowedObservers_nil (fuel : Nat) (s : State) (h : s.disallowedObservers = []) :
    (unlinkDisallowedObservers fuel).run.run s = (.ok (), s) := by
  unfold unlinkDisallowedObservers
  simp only [run_bind, run_get, run_modify, h, List.forIn_nil, run_pure]
  rw [eta_disallowedObservers s h]

/-- `s'` is `s` after a `stabiliseEnd` with nothing deferred: round number bumped, status reset -/
structure Finished (s s' : State) : Prop where
  nodes : s'.nodes = s.nodes
  vars : s'.vars = s.vars
  rch : s'.rch = s.rch
  stabNum : s'.stabNum = s.stabNum + 1
  status : s'.status = .notStabilising
  pc : s'.panicCountdown = s.panicCountdown
  newObservers : s'.newObservers = s.newObservers
  disallowedObservers : s'.disallowedObservers = s.disallowedObservers
  setDuringStab : s'.setDuringStab = []
  deadVars : s'.deadVars = []
  handleAfterStab : s'.handleAfterStab = []

theorem stabiliseEnd_idle (env : Env) (fuel : Nat) (s : State) (h1 : s.setDuringStab = [])
    (h2 : s.deadVars = []) (h3 : s.handleAfterStab = []) :
    ∃ s', (stabiliseEnd env fuel).run.run s = (.ok (), s') ∧ Finished s s' := by
  unfold stabiliseEnd
  simp only [run_bind, run_get, run_modify, h1, h2, h3, List.forIn_nil, run_pure]
  exact ⟨_, rfl, ⟨rfl, rfl, rfl, rfl, rfl, rfl, rfl, rfl, rfl, rfl, rfl⟩⟩


/-! ## `stabilise` = status, drain, end -/

theorem stabilise_split {env : Env} {fuel : Nat} {s s' : State} (_hst : s.status = .notStabilising)
    (I : Idle s) (h : (stabilise env fuel).run.run s = (.ok (), s')) :
    ∃ s2, (drainHeap env fuel).run.run { s with status := .stabilising } = (.ok (), s2) ∧
      (stabiliseEnd env fuel).run.run s2 = (.ok (), s') := by
  have e1 := addNewObservers_nil env fuel { s with status := .stabilising } I.newObservers
  have e2 := unlinkDisallowedObservers_nil fuel { s with status := .stabilising } I.disallowedObservers
  unfold stabilise at h
  obtain ⟨a, t0, h0, h⟩ := bind_ok_inv h
  obtain ⟨ha, ht0⟩ := get_ok_inv h0
  rw [ha, ht0] at h
  clear h0 ha ht0 a t0
  obtain ⟨_, t1, h1, h⟩ := bind_ok_inv h
  have ht1 : t1 = s := by
    rw [run_assertM] at h1
    split at h1 <;> cases h1
    rfl
  rw [ht1] at h
  obtain ⟨_, t2, h2, h⟩ := bind_ok_inv h
  rw [run_modify] at h2; cases h2
  obtain ⟨_, t3, h3, h⟩ := bind_ok_inv h
  cases h3.symm.trans e1
  obtain ⟨_, t4, h4, h⟩ := bind_ok_inv h
  cases h4.symm.trans e2
  obtain ⟨_, t5, h5, h⟩ := bind_ok_inv h
  exact ⟨t5, h5, h⟩


/-! ## `Calm` through the drain -/

theorem Calm.started (n : Nat) (s : State) : Calm s (Step.started n s) := by
  refine ⟨rfl, rfl, rfl, rfl, rfl, fun m => ?_, fun _ => rfl⟩
  rw [started_nodeD]; split <;> rfl

theorem Calm.logged (es : List Event) (s : State) : Calm s (Step.logged es s) :=
  Calm.of_eq rfl rfl rfl rfl rfl rfl rfl

/-- a `recomputeOne` of the static fragment does not touch the bookkeeping of `stabiliseEnd` -/
theorem recomputeOne_calm {env : Env} {fuel n : Nat} {s s' : State} {r : Option Nat}
    (g : Graph env s) (hn : s.isNecessary n = true)
    (hvals : ∃ vals, plainVals s (kids (s.nodeD n).kind) = some vals)
    (h : (recomputeOne env fuel n).run.run s = (.ok r, s')) : Calm s s' := by
  obtain ⟨hlt, hv, hk, _, _⟩ := g.nec n hn
  have hnn := some_of_lt hlt
  obtain ⟨vals, hvals⟩ := hvals
  have hvo := g.valuesOf hn
  rw [hvals] at hvo
  have mcv := fun v S0 (h0 : (maybeChangeValue env fuel n v).run.run S0 = (.ok r, s')) =>
    (PresC.maybeChangeValue env fuel n v).h S0 _ s' h0
  cases hkd : (s.nodeD n).kind with
  | const w =>
    rw [recomputeOne_const_run env fuel n s _ w hnn hv hkd] at h
    exact (Calm.started n s).trans (mcv _ _ h)
  | var c =>
    obtain ⟨vc, hvc⟩ := g.var n c hn hkd
    rw [recomputeOne_var_run env fuel n s _ c vc hnn hv hkd hvc] at h
    exact (Calm.started n s).trans (mcv _ _ h)
  | map f args =>
    rw [hkd] at hk hvo
    by_cases hf : f < fnZip
    · rw [recomputeOne_map_run env fuel n s _ f args vals hnn hv hkd hf hvo (hk.2 hf vals) g.pc] at h
      exact ((Calm.started n s).trans (Calm.logged _ _)).trans (mcv _ _ h)
    · rw [recomputeOne_mapBuiltin_run env fuel n s _ f args vals hnn hv hkd hf hk.1 hvo] at h
      exact (Calm.started n s).trans (mcv _ _ h)
  | fold f init cs =>
    rw [hkd] at hvo
    rw [recomputeOne_fold_run env fuel n s _ f init cs vals hnn hv hkd hvo g.pc] at h
    exact ((Calm.started n s).trans (Calm.logged _ _)).trans (mcv _ _ h)
  | mapRef _ _ => rw [hkd] at hk; exact hk.elim
  | mapWithOld _ _ => rw [hkd] at hk; exact hk.elim
  | bindLhsChange _ => rw [hkd] at hk; exact hk.elim
  | bindMain _ _ => rw [hkd] at hk; exact hk.elim
  | expert _ => rw [hkd] at hk; exact hk.elim

theorem recompute_calm {env : Env} : ∀ (fuel n : Nat) (s s' : State), Inv env s (some n) →
    (recompute env fuel n).run.run s = (.ok (), s') → Calm s s' := by
  intro fuel
  induction fuel with
  | zero => intro n s s' _ h; unfold recompute at h; cases h
  | succ fuel ih =>
    intro n s s' I h
    unfold recompute at h
    obtain ⟨r, s1, h1, h2⟩ := bind_ok_inv h
    have c1 := recomputeOne_calm I.graph (I.cur n rfl).1 I.kids_values h1
    obtain ⟨I1, -, -⟩ := recomputeOne_inv I h1
    cases r with
    | none => obtain ⟨-, rfl⟩ := pure_ok_inv h2; exact c1
    | some p => exact c1.trans (ih p s1 s' I1 h2)

theorem pop_calm {s s1 : State} {n : Nat} (hi : HeapInv s)
    (hr : rchRemoveMin.run.run s = (.ok (some n), s1)) : Calm s s1 := by
  obtain ⟨-, -, -, hs1, -⟩ := rchRemoveMin_inv hi hr
  rw [hs1]
  refine ⟨rfl, rfl, rfl, rfl, rfl, fun m => ?_, fun _ => rfl⟩
  show (State.nodeD { s with nodes := _ } m).numOnUpdateHandlers = _
  rw [nodeD_modify]; split <;> rfl

theorem drainHeap_calm {env : Env} : ∀ (fuel : Nat) (s s' : State), DrainInv env s →
    (drainHeap env fuel).run.run s = (.ok (), s') → Calm s s' := by
  intro fuel
  induction fuel with
  | zero => intro s s' _ h; unfold drainHeap at h; cases h
  | succ fuel ih =>
    intro s s' I h
    unfold drainHeap at h
    obtain ⟨r, s1, h1, h2⟩ := bind_ok_inv h
    cases r with
    | none =>
      obtain ⟨-, rfl⟩ := pure_ok_inv h2
      obtain ⟨rfl, -⟩ := rchRemoveMin_inv I.heap h1
      exact Calm.refl _
    | some n =>
      obtain ⟨u, s2, h3, h4⟩ := bind_ok_inv h2
      obtain ⟨I1, -⟩ := pop_inv I h1
      obtain ⟨I2, -⟩ := recompute_inv fuel n s1 s2 I1 h3
      exact ((pop_calm I.heap h1).trans (recompute_calm fuel n s1 s2 I1 h3)).trans (ih s2 s' I2 h4)

/-! ## `QuietInv` at the two ends of a `stabilise` -/

/-- entering `stabilise`: the quiescent invariant is the drain invariant -/
theorem QuietInv.toDrain {env : Env} {s : State} (Q : QuietInv env s) :
    DrainInv env { s with status := .stabilising } where
  graph := ⟨Q.graph.pc, Q.graph.nec, Q.graph.var, Q.graph.child, Q.graph.parent⟩
  heap := ⟨⟨Q.heap.wf.mem, Q.heap.wf.nodup, Q.heap.wf.length, Q.heap.wf.range⟩, Q.heap.hgt, Q.heap.lb,
    Q.heap.lb0, Q.heap.nec⟩
  stamps := ⟨Q.now, fun m => ⟨Int.le_of_lt (Q.stamps m).1, Int.le_of_lt (Q.stamps m).2⟩, Q.varStamp⟩
  pending m hm hst := Or.inl ((Q.queued m).2 ⟨hm, hst⟩)
  cons := Q.cons
  fresh _ _ a _ := (Q.stamps a).1
  cur _ h := by cases h

/-- leaving `stabilise`: drain invariant + empty heap + round number bumped = quiescent invariant -/
theorem QuietInv.ofDrained {env : Env} {s0 s2 s' : State} (Q : QuietInv env s0) (f : Frame s0 s2)
    (D : DrainInv env s2) (he : s2.rch.length = 0) (F : Finished s2 s') : QuietInv env s' := by
  have hnd : ∀ m, s'.nodeD m = s2.nodeD m := fun m => by simp [State.nodeD, F.nodes]
  have hsh : ∀ m, SameShape (s2.nodeD m) (s'.nodeD m) := fun m => by rw [hnd]; exact SameShape.refl _
  have hnec : ∀ m, s'.isNecessary m = s2.isNecessary m := isNecessary_of_shape hsh
  have hsz : s'.nodes.size = s2.nodes.size := by rw [F.nodes]
  have g' : Graph env s' := D.graph.transfer hsz hsh F.vars (by rw [F.pc]; exact D.graph.pc)
  have hstale : ∀ m, s'.isNecessary m = true → s'.isStale m = false := by
    intro m hm
    have hm2 := hm; rw [hnec] at hm2
    rw [g'.isStale hm, staleOf_congr (hsh m).kind (by rw [hnd]) F.vars (fun c _ => by rw [hnd]),
      ← D.graph.isStale hm2]
    exact (D.all_consistent he m hm2).1
  refine ⟨g', ?_, ?_, ?_, ?_, ?_, ?_, ?_, ?_, F.status⟩
  · exact D.heap.congr F.rch hsz (fun m => by rw [hnd]; exact ⟨rfl, rfl, hnec m⟩)
  · rw [F.stabNum]; have := D.stamps.now; omega
  · intro m; rw [hnd, F.stabNum]; have := D.stamps.node m; omega
  · intro c vc h; rw [F.vars] at h; rw [F.stabNum]; have := D.stamps.var c vc h; omega
  · intro m
    constructor
    · intro h; rw [hnd, D.heap.empty he m] at h; cases h
    · intro ⟨hm, hst⟩; rw [hstale m hm] at hst; cases hst
  · intro m hm _
    have hm2 := hm; rw [hnec] at hm2
    obtain ⟨w, hw, hv⟩ := (D.all_consistent he m hm2).2
    exact ⟨w, Target.congr (hsh m).kind F.vars (fun c _ => by rw [hnd]) hw, by rw [hnd]; exact hv⟩
  · intro n c hn hk
    rw [hnec, f.nec] at hn
    rw [hnd, (f.shape n).kind] at hk
    rw [F.vars, f.vars]
    exact Q.watch n c hn hk
  · intro c vc h hn
    rw [F.vars, f.vars] at h
    rw [hnec, f.nec] at hn
    rw [hnd, (f.shape vc.node).kind]
    exact Q.cell c vc h hn

/-- **L4, `stabilise`.** From the quiescent invariant with nothing deferred, a successful `stabilise`
consists of a `drainHeap` started in a state satisfying the drain invariant, followed by the bump of the
round number.  Afterwards the quiescent invariant holds again (and still nothing is deferred), the
variables and the graph are unchanged, no necessary node is stale, and every necessary node carries the
from-scratch value of its defining expression. -/
theorem stabilise_quiet {env : Env} {fuel : Nat} {s s' : State} (Q : QuietInv env s) (I : Idle s)
    (h : (stabilise env fuel).run.run s = (.ok (), s')) :
    (∃ s2, DrainInv env { s with status := .stabilising } ∧
      (drainHeap env fuel).run.run { s with status := .stabilising } = (.ok (), s2) ∧
      DrainInv env s2 ∧ s2.rch.length = 0 ∧ Finished s2 s') ∧
    QuietInv env s' ∧ Idle s' ∧ s'.stabNum = s.stabNum + 1 ∧ s'.vars = s.vars ∧
    s'.nodes.size = s.nodes.size ∧ (∀ m, SameShape (s.nodeD m) (s'.nodeD m)) ∧
    ∀ n, s.isNecessary n = true → ∀ k, (s.nodeD n).height.toNat < k →
      s'.isNecessary n = true ∧ (s'.nodeD n).valid = true ∧ s'.isStale n = false ∧
      (s'.nodeD n).value = eval env s k n ∧ s'.value env n = eval env s k n ∧
      (eval env s k n).isSome = true := by
  obtain ⟨s2, hd, hend⟩ := stabilise_split Q.status I h
  have D1 := Q.toDrain
  obtain ⟨D2, he, f⟩ := drainHeap_inv fuel _ s2 D1 hd
  have c := drainHeap_calm fuel _ s2 D1 hd
  have hnum : ∀ m, (s2.nodeD m).numOnUpdateHandlers ≤ 0 := fun m => by rw [c.num]; exact I.handlers m
  obtain ⟨s'', hrun, F⟩ := stabiliseEnd_idle env fuel s2 (by rw [c.setDuringStab]; exact I.setDuringStab)
    (by rw [c.deadVars]; exact I.deadVars) (by rw [c.has I.handlers]; exact I.handleAfterStab)
  cases hend.symm.trans hrun
  have f0 : Frame s s2 := ⟨f.size, f.vars, f.stabNum, f.shape, f.ran, f.qsize⟩
  have Q' := QuietInv.ofDrained Q f0 D2 he F
  have hnd : ∀ m, s'.nodeD m = s2.nodeD m := fun m => by simp [State.nodeD, F.nodes]
  have hsh : ∀ m, SameShape (s.nodeD m) (s'.nodeD m) := fun m => by rw [hnd]; exact f0.shape m
  refine ⟨⟨s2, D1, hd, D2, he, F⟩, Q', ?_, ?_, ?_, ?_, hsh, ?_⟩
  · exact ⟨by rw [F.newObservers, c.newObservers]; exact I.newObservers,
      by rw [F.disallowedObservers, c.disallowedObservers]; exact I.disallowedObservers,
      F.setDuringStab, F.deadVars, F.handleAfterStab, fun m => by rw [hnd]; exact hnum m⟩
  · rw [F.stabNum, f0.stabNum]
  · rw [F.vars, f0.vars]
  · rw [F.nodes]; exact f0.size
  · intro n hn k hk
    have hn' : s'.isNecessary n = true := by rw [isNecessary_of_shape hsh]; exact hn
    have hst : s'.isStale n = false := by
      cases hs : s'.isStale n with
      | false => rfl
      | true =>
        have := (Q'.queued n).2 ⟨hn', hs⟩
        rw [hnd, D2.heap.empty he n] at this; cases this
    obtain ⟨-, -, hv, -, hval, hval', hsome⟩ := drainHeap_values D1 hd n hn k hk
    have fr : Frame s { s with status := .stabilising } :=
      ⟨rfl, rfl, rfl, fun _ => SameShape.refl _, fun _ h => h, rfl⟩
    rw [fr.eval env k n] at hval hsome
    refine ⟨hn', (Q'.graph.nec n hn').2.1, hst, by rw [hnd]; exact hval, ?_, hsome⟩
    rw [Q'.graph.value_plain hn', hnd]; exact hval

end IncrVerif.Proofs.Sched
