import IncrVerif.Proofs.FullH4
import IncrVerif.Proofs.MapOld10
import IncrVerif.Proofs.BindH6
/-!
# C01 full fragment, MW1: the "patch" device for `BindH.DInv`

If the current node `n` of the drain invariant of a graph with binds has no stored value, pretending that it stores `some v` keeps
`BindH.DInv … (some n)`: only `cons` (and `TargetB`) read stored values; a consistent node has a value (so it is not `n`) and all the
values its defining equation reads exist (so `n` is not among them).
-/
namespace IncrVerif.Proofs.FullH
open IncrVerif.Engine IncrVerif.Proofs IncrVerif.Proofs.Step IncrVerif.Proofs.Sched IncrVerif.Proofs.Quiet
open IncrVerif.Proofs.BindH (DInv BGraph StepRelB Edge Below TargetB ConsistentB BKind)
open IncrVerif.Proofs.MapOldH (setValue_nodeD_with setValue_kind setValue_kind? setValue_recomputedAt setValue_changedAt
  setValue_heightInRch setValue_inRch setValue_shape setValue_value_ne setValue_size setValue_children setValue_isStale
  setValue_isNecessary Target.setValue_iff Target.kids_valued)
namespace MW

/-- a frame that keeps size, shapes, child lists, `binds`, `vars`, keeps the structure of the graph -/
theorem BGraph.transfer {env : Env} {s s' : State} (g : BGraph env s) (hsz : s'.nodes.size = s.nodes.size)
    (hsh : ∀ m, SameShape (s.nodeD m) (s'.nodeD m)) (hch : ∀ m, s'.children m = s.children m)
    (hb : s'.binds = s.binds) (hvars : s'.vars = s.vars) (hpc : s'.panicCountdown = none) : BGraph env s' := by
  have hnec : ∀ m, s'.isNecessary m = s.isNecessary m := fun m => (hsh m).isNecessary
  have hedge : ∀ a c, Edge s' a c → Edge s a c := by
    intro a c h
    cases h with
    | child hc => rw [hch] at hc; exact Edge.child hc
    | scope hv hsc hbr =>
      rw [(hsh a).valid] at hv
      rw [(hsh a).createdIn] at hsc
      rw [hb] at hbr
      exact Edge.scope hv hsc hbr
  refine
    { pc := hpc
      node := fun m hm hv => ?_
      nec := fun m hm => ?_
      var := fun m c hm hv hk => ?_
      child := fun m hm i c hc => ?_
      parent := fun c p i h => ?_
      scope := fun m b hm hv hsc => ?_
      lcRec := fun m b hm hv hk => ?_
      mainRec := fun m b lc hm hv hk => ?_
      lcChild := fun m c b hm hv hc hk => ?_
      acyc := ?_ }
  · rw [hsz] at hm
    rw [(hsh m).valid] at hv
    obtain ⟨h1, h2, h3⟩ := g.node m hm hv
    refine ⟨by rw [(hsh m).kind]; exact h1, by rw [(hsh m).cutoff]; exact h2, ?_⟩
    intro c hc
    rw [hch] at hc
    rw [hsz, (hsh c).valid]
    exact h3 c hc
  · rw [hnec] at hm
    rw [(hsh m).valid, (hsh m).height]
    exact g.nec m hm
  · rw [hsz] at hm
    rw [(hsh m).valid] at hv
    rw [(hsh m).kind] at hk
    rw [hvars]
    exact g.var m c hm hv hk
  · rw [hnec] at hm
    rw [hch] at hc
    rw [hnec, (hsh c).parents, (hsh c).height, (hsh m).height]
    exact g.child m hm i c hc
  · rw [(hsh c).parents] at h
    rw [hnec, hch]
    exact g.parent c p i h
  · rw [hsz] at hm
    rw [(hsh m).valid] at hv
    rw [(hsh m).createdIn] at hsc
    obtain ⟨br, h1, h2, h3, h4⟩ := g.scope m b hm hv hsc
    refine ⟨br, by rw [hb]; exact h1, by rw [hsz]; exact h2, by rw [(hsh _).valid]; exact h3, ?_⟩
    rw [hnec, hnec, (hsh _).height, (hsh m).height]
    exact h4
  · rw [hsz] at hm
    rw [(hsh m).valid] at hv
    rw [(hsh m).kind] at hk
    rw [hb]
    exact g.lcRec m b hm hv hk
  · rw [hsz] at hm
    rw [(hsh m).valid] at hv
    rw [(hsh m).kind] at hk
    rw [hb, (hsh lc).createdIn, (hsh m).createdIn]
    exact g.mainRec m b lc hm hv hk
  · rw [hsz] at hm
    rw [(hsh m).valid] at hv
    rw [hch] at hc
    rw [(hsh c).kind] at hk
    rw [(hsh m).kind]
    exact g.lcChild m c b hm hv hc hk
  · obtain ⟨rk, h⟩ := g.acyc
    exact ⟨rk, fun a c he => h a c (hedge a c he)⟩

section
variable {env : Env} {S : State} {n : Nat}

theorem setValue_edge (u : Option Val) {a c : Nat} : Edge (setValue n u S) a c ↔ Edge S a c := by
  constructor
  · intro h
    cases h with
    | child hc => rw [setValue_children] at hc; exact Edge.child hc
    | scope hv hsc hbr =>
      rw [(setValue_shape n u S a).valid] at hv
      rw [(setValue_shape n u S a).createdIn] at hsc
      exact Edge.scope hv hsc hbr
  · intro h
    cases h with
    | child hc => rw [← setValue_children n u S] at hc; exact Edge.child hc
    | scope hv hsc hbr =>
      rw [← (setValue_shape n u S a).valid] at hv
      rw [← (setValue_shape n u S a).createdIn] at hsc
      exact Edge.scope (s := setValue n u S) hv hsc hbr

theorem setValue_below (u : Option Val) {a d : Nat} : Below (setValue n u S) a d ↔ Below S a d := by
  constructor
  · intro h
    induction h with
    | refl => exact Below.refl _
    | step he _ ih => exact Below.step ((setValue_edge u).1 he) ih
  · intro h
    induction h with
    | refl => exact Below.refl _
    | step he _ ih => exact Below.step ((setValue_edge u).2 he) ih

/-- the defining equation of a node only reads values that exist -/
theorem TargetB.setVal {m : Nat} {u : Option Val} {w : Val} (hv : (S.nodeD n).value = none)
    (h : TargetB env S m w) : TargetB env (setValue n u S) m w := by
  unfold TargetB at h ⊢
  rw [setValue_kind]
  cases hk : (S.nodeD m).kind <;> rw [hk] at h <;> dsimp only at h ⊢
  case bindLhsChange b => exact h
  case bindMain b lc =>
    obtain ⟨br, r, h1, h2, h3⟩ := h
    refine ⟨br, r, h1, h2, ?_⟩
    rw [setValue_value_ne u S (fun e => by rw [e, hv] at h3; cases h3)]
    exact h3
  all_goals
    have hkk : n ∉ kids (S.nodeD m).kind := by
      intro hmem
      obtain ⟨x, hx⟩ := Target.kids_valued h n hmem
      rw [hv] at hx; cases hx
    exact (Target.setValue_iff hkk).2 h

theorem ConsistentB.patch {m : Nat} {u : Option Val} (hv : (S.nodeD n).value = none) (hc : ConsistentB env S m) :
    ConsistentB env (setValue n u S) m := by
  obtain ⟨w, ht, hw⟩ := hc
  have hne : m ≠ n := by intro e; rw [e, hv] at hw; cases hw
  exact ⟨w, TargetB.setVal hv ht, by rw [setValue_value_ne u S hne]; exact hw⟩

/-- **the patch device for `BindH.DInv`** -/
theorem DInv.patch {v : Val} (I : DInv env S (some n)) (hv : (S.nodeD n).value = none) :
    DInv env (setValue n (some v) S) (some n) := by
  have hsh := setValue_shape n (some v) S
  refine ⟨BGraph.transfer I.graph (setValue_size _ _ _) hsh (setValue_children n (some v) S) rfl rfl I.graph.pc, ?_, ?_, ?_, ?_, ?_,
    ?_, ?_⟩
  · exact I.heap.congr rfl (setValue_size _ _ _)
      (fun m => ⟨setValue_heightInRch _ _ _ m, (hsh m).height, setValue_isNecessary _ _ _ m⟩)
  · refine ⟨I.stamps.now, ?_, I.stamps.var⟩
    intro m
    rw [setValue_recomputedAt, setValue_changedAt]
    exact I.stamps.node m
  · intro m hm
    rw [setValue_inRch] at hm
    rw [setValue_isStale]
    exact I.qstale m hm
  · intro m hm hst
    rw [setValue_isNecessary] at hm
    rw [setValue_isStale] at hst
    rw [setValue_inRch]
    exact I.pending m hm hst
  · intro m hm hvl hst
    rw [setValue_size] at hm
    rw [(hsh m).valid] at hvl
    rw [setValue_isStale] at hst
    exact ConsistentB.patch hv (I.cons m hm hvl hst)
  · intro a d hb hd
    rw [setValue_below] at hb
    rw [setValue_isStale] at hd
    rw [setValue_recomputedAt]
    exact I.fresh a d hb hd
  · intro k hk
    obtain ⟨h1, h2⟩ := I.cur k hk
    refine ⟨by rw [setValue_isNecessary]; exact h1, ?_⟩
    intro d hd
    rw [setValue_below] at hd
    rw [setValue_inRch]
    exact h2 d hd

/-- the target of `n` itself is unaffected -/
theorem TargetB.patch_self {v w : Val} (hv : (S.nodeD n).value = none) (h : TargetB env S n w) :
    TargetB env (setValue n (some v) S) n w := TargetB.setVal hv h

end
end MW
end IncrVerif.Proofs.FullH
