import IncrVerif.Proofs.FaultH4
/-!
# Faults in whole histories, part 4: classification of a `stabilise` started with an armed fault (F1)
-/
namespace IncrVerif.Proofs.FaultH
open IncrVerif.Engine IncrVerif.Proofs IncrVerif.Proofs.Step
open IncrVerif.Proofs.SubsH (PureHandlers UInv)

variable {env : Env}

/-! ## the invariant between actions gives the frame of the commutation -/

theorem fr_of_qinv {s : State} (Q : SubsH.QInv env s) : Fr env s := by
  have A := Q.struct.static
  have key : ∀ n, (s.nodeD n).valid = true ∧ Sched.StaticKind env (s.nodeD n).kind ∧ (s.nodeD n).cutoff = .eq := by
    intro n
    by_cases hn : n < s.nodes.size
    · exact ⟨(A.node n hn).valid, (A.node n hn).kind, (A.node n hn).cutoff⟩
    · have : s.nodeD n = default := by
        simp [State.nodeD, Array.getElem?_eq_none (Nat.le_of_not_lt hn)]
      rw [this]; exact ⟨rfl, trivial, rfl⟩
  refine ⟨fun n => (key n).2.1, fun n e he => ?_, fun n => (key n).1, Q.pinv, fun n p i he => ?_, fun n c => ?_⟩
  · have := (key n).2.1; rw [he] at this; exact this
  · have := (key n).2.1; rw [he] at this; exact this
  · rw [(key n).2.2]; refine ⟨?_, ?_⟩ <;> intro e <;> cases e

/-! ## what the handler loop keeps, returning or panicking -/

/-- what the handler loop may change: handler records (their `prev`), log, countdown, memo tables -/
def hcore (s : State) : State := { s with observers := #[], log := [], panicCountdown := none, memos := [] }

def obsKey (ob : ObsRec) : Nat × ObsState × Nat × List (Nat × Nat × Int) :=
  (ob.node, ob.state, ob.clones, ob.handlers.map fun h => (h.token, h.hid, h.createdAt))

/-- `b` is `a` up to the `prev` field of handler records, the log, the countdown and the memo tables -/
structure HRel (a b : State) : Prop where
  core : hcore b = hcore a
  obs : b.observers.map obsKey = a.observers.map obsKey

theorem HRel.refl (s : State) : HRel s s := ⟨rfl, rfl⟩
theorem HRel.trans {a b c : State} (h1 : HRel a b) (h2 : HRel b c) : HRel a c :=
  ⟨h2.core.trans h1.core, h2.obs.trans h1.obs⟩
theorem HRel.symm {a b : State} (h : HRel a b) : HRel b a := ⟨h.core.symm, h.obs.symm⟩
instance : PreOrd HRel := ⟨HRel.refl, HRel.trans⟩

theorem HRel.nodes {a b : State} (h : HRel a b) : b.nodes = a.nodes := congrArg (fun x => x.nodes) h.core
theorem HRel.vars {a b : State} (h : HRel a b) : b.vars = a.vars := congrArg (fun x => x.vars) h.core
theorem HRel.status {a b : State} (h : HRel a b) : b.status = a.status := congrArg (fun x => x.status) h.core
theorem HRel.alive {a b : State} (h : HRel a b) : b.alive = a.alive := congrArg (fun x => x.alive) h.core
theorem HRel.cfg {a b : State} (h : HRel a b) : b.cfg = a.cfg := congrArg (fun x => x.cfg) h.core
theorem HRel.stabNum {a b : State} (h : HRel a b) : b.stabNum = a.stabNum := congrArg (fun x => x.stabNum) h.core
theorem HRel.rch {a b : State} (h : HRel a b) : b.rch = a.rch := congrArg (fun x => x.rch) h.core
theorem HRel.binds {a b : State} (h : HRel a b) : b.binds = a.binds := congrArg (fun x => x.binds) h.core
theorem HRel.experts {a b : State} (h : HRel a b) : b.experts = a.experts := congrArg (fun x => x.experts) h.core

theorem HRel.obsAt {a b : State} (h : HRel a b) (o : Nat) :
    (b.observers[o]?).map obsKey = (a.observers[o]?).map obsKey := by
  have := congrArg (fun x => x[o]?) h.obs
  simpa only [Array.getElem?_map] using this

/-- observer `o`: same node, state and number of handles -/
theorem HRel.obsSome {a b : State} (h : HRel a b) {o : Nat} {oa : ObsRec} (ho : a.observers[o]? = some oa) :
    ∃ ob, b.observers[o]? = some ob ∧ ob.node = oa.node ∧ ob.state = oa.state ∧ ob.clones = oa.clones := by
  have := h.obsAt o
  rw [ho] at this
  cases hb : b.observers[o]? with
  | none => rw [hb] at this; cases this
  | some ob =>
    rw [hb] at this
    simp only [Option.map_some, Option.some.injEq, obsKey, Prod.mk.injEq] at this
    exact ⟨ob, rfl, this.1, this.2.1, this.2.2.1⟩

namespace P4

theorem modObs_hrel (o : Nat) (f : ObsRec → ObsRec) (hf : ∀ x, obsKey (f x) = obsKey x) :
    Step.Pres HRel (Engine.modObs o f) := by
  unfold Engine.modObs
  refine Step.Pres.modify fun s => ⟨rfl, ?_⟩
  show (s.observers.modify o f).map obsKey = s.observers.map obsKey
  apply Array.ext_getElem?
  intro i
  simp only [Array.getElem?_map, Array.getElem?_modify]
  split
  · cases s.observers[i]? <;> simp [hf]
  · rfl

theorem tick_hrel : Step.Pres HRel Engine.tick := by
  constructor
  intro s r s' h
  unfold Engine.tick at h
  rw [run_bind_get] at h
  cases hc : s.panicCountdown with
  | none => rw [hc] at h; cases h; exact HRel.refl _
  | some k =>
    rw [hc] at h
    dsimp only at h
    split at h
    · rw [run_bind_modify] at h; cases h; exact ⟨rfl, rfl⟩
    · rw [run_modify] at h; cases h; exact ⟨rfl, rfl⟩

theorem logEv_hrel (e : Event) : Step.Pres HRel (Engine.logEv e) := by
  unfold Engine.logEv
  exact Step.Pres.modify fun s => ⟨rfl, rfl⟩

theorem getObs_hrel (o : Nat) : Step.Pres HRel (Engine.getObs o) := by
  refine Step.Pres.of_readonly _ fun s => ?_
  unfold Engine.getObs
  rw [run_bind_get]
  cases s.observers[o]? <;> rfl

theorem prevKey (tok : Nat) (p : Previously) (x : ObsRec) :
    obsKey { x with handlers := x.handlers.map fun h' => if h'.token == tok then { h' with prev := p } else h' }
      = obsKey x := by
  simp only [obsKey, Prod.mk.injEq, true_and, List.map_map]
  apply List.map_congr_left
  intro h _
  simp only [Function.comp]
  split <;> rfl

macro_rules | `(tactic| qleaf) => `(tactic| with_reducible apply P4.getObs_hrel)
macro_rules | `(tactic| qleaf) => `(tactic| with_reducible apply P4.tick_hrel)
macro_rules | `(tactic| qleaf) => `(tactic| with_reducible apply P4.logEv_hrel)
macro_rules | `(tactic| qleaf) => `(tactic| (with_reducible apply P4.modObs_hrel; exact P4.prevKey _ _))
macro_rules | `(tactic| qleaf) => `(tactic| with_reducible apply Step.Pres.valueUnwrap)

theorem runAll_hrel (heff : PureHandlers env) (fuel o n : Nat) (nu : NodeUpdate) (now : Int) :
    Step.Pres HRel (Engine.runAll env fuel o n nu now) := by
  unfold Engine.runAll
  simp only [heff _ _, runEffects_nil]
  qpres
  all_goals (apply Step.Pres.forIn; intro a b; qpres)
macro_rules | `(tactic| qleaf) => `(tactic| (with_reducible apply P4.runAll_hrel; assumption))

theorem runHandlers_hrel (heff : PureHandlers env) (fuel : Nat) (q : List (Nat × NodeUpdate)) :
    Step.Pres HRel (Poison.runHandlers env fuel q) := by
  unfold Poison.runHandlers
  qpres
  · apply Step.Pres.forIn; intro a b; qpres
    apply Step.Pres.forIn; intro a b; qpres
  · exact Step.Pres.modify fun s => ⟨rfl, rfl⟩

/-- a list is split in only one way into a part satisfying `Q` everywhere followed by a part satisfying it nowhere -/
theorem split_unique {α} {Q : α → Prop} : ∀ {a a' b b' : List α}, a ++ b = a' ++ b' →
    (∀ x, x ∈ a → Q x) → (∀ x, x ∈ a' → Q x) → (∀ x, x ∈ b → ¬ Q x) → (∀ x, x ∈ b' → ¬ Q x) →
    a = a' ∧ b = b' := by
  intro a
  induction a with
  | nil =>
    intro a' b b' h _ ha' hb _
    cases a' with
    | nil => exact ⟨rfl, h⟩
    | cons x xs =>
      exfalso
      rw [List.nil_append] at h
      exact hb x (by rw [h]; exact List.mem_cons_self ..) (ha' x (List.mem_cons_self ..))
  | cons x xs ih =>
    intro a' b b' h ha ha' hb hb'
    cases a' with
    | nil =>
      exfalso
      rw [List.nil_append] at h
      exact hb' x (by rw [← h]; exact List.mem_cons_self ..) (ha x (List.mem_cons_self ..))
    | cons y ys =>
      simp only [List.cons_append, List.cons.injEq] at h
      obtain ⟨e1, e2⟩ := ih h.2 (fun z hz => ha z (List.mem_cons_of_mem _ hz))
        (fun z hz => ha' z (List.mem_cons_of_mem _ hz)) hb hb'
      exact ⟨by rw [h.1, e1], e2⟩

end P4

/-! ## the classification -/

/-- the outcomes of `stabilise env fuel` started in `s` with the fault armed at `k`, relative to the fault-free run
that ends in `s'` after logging the node-function events `pre` and then the notifications `del` (oldest first) -/
structure Armed (env : Env) (fuel : Nat) (s s' : State) (k : Nat) (pre del : List Event) : Prop where
  /-- the fault is not reached: same result, same state, the countdown decreased by the number of invocations -/
  notReached : pre.length + del.length < eff k →
    (stabilise env fuel).run.run (setCd (some k) s)
      = (.ok (), setCd (some (k - (pre.length + del.length))) s')
  /-- the fault fires during propagation -/
  inPropagation : eff k ≤ pre.length →
    ∃ t, (stabilise env fuel).run.run (setCd (some k) s) = (.error (.site "user"), t) ∧
      t.status = .stabilising ∧ t.panicCountdown = none ∧ t.alive = s.alive ∧ t.cfg = s.cfg ∧
      t.log = (pre.take (eff k - 1)).reverse ++ s.log
  /-- the fault fires in an update handler -/
  inHandlers : pre.length < eff k → eff k ≤ pre.length + del.length →
    ∃ t, (stabilise env fuel).run.run (setCd (some k) s) = (.error (.site "user"), t) ∧
      t.status = .runningOnUpdateHandlers ∧ t.panicCountdown = none ∧
      t.log = (del.take (eff k - pre.length - 1)).reverse ++ (pre.reverse ++ s.log) ∧
      HRel s' { t with status := .notStabilising }

theorem stabilise_armed {fuel : Nat} {s s' : State} (U : UInv env s) (heff : PureHandlers env)
    (h : (stabilise env fuel).run.run s = (.ok (), s')) :
    ∃ pre del : List Event, s'.log = del.reverse ++ (pre.reverse ++ s.log) ∧
      (∀ e, e ∈ pre → IsInv e) ∧ (∀ e, e ∈ del → IsNotif e) ∧ ∀ k, Armed env fuel s s' k pre del := by
  have Q := U.core
  have hst : s.status = .notStabilising := Q.status
  have hpc : s.panicCountdown = none := Q.struct.static.pc
  have hfr : Fr env s := fr_of_qinv Q
  rw [Poison.stabilise_run env fuel s hst] at h
  -- the phases of the fault-free run
  rcases h1 : (Poison.propagate env fuel).run.run { s with status := .stabilising } with ⟨r1, s1⟩
  rw [h1] at h
  cases r1 with
  | error p => cases h
  | ok u1 =>
  dsimp only at h
  rcases h2 : (Poison.stabiliseEndPrepare env).run.run s1 with ⟨r2, s2⟩
  rw [h2] at h
  cases r2 with
  | error p => cases h
  | ok q =>
  dsimp only at h
  rcases h3 : (Poison.runHandlers env fuel q).run.run { s2 with status := .runningOnUpdateHandlers } with ⟨r3, s3⟩
  rw [h3] at h
  cases r3 with
  | error p => cases h
  | ok u3 =>
  dsimp only at h
  have hs' : s' = { s3 with status := .notStabilising } := by cases h; rfl
  -- lockstep of the phases
  have hfr0 : Fr env { s with status := .stabilising } := hfr.of_nodes rfl rfl
  obtain ⟨fr1, pc1, pre, L1⟩ := Lock.propagate (env := env) fuel _ hfr0 hpc _ _ h1
  have C2 := fun c => Comm.stabiliseEndPrepare (env := env) c s1 fr1 _ _ h2
  have fr2 : Fr env s2 := (C2 none).2.1
  have log2 : s2.log = s1.log := (C2 none).2.2
  have pc2 : s2.panicCountdown = none := by
    have := (C2 none).1
    rw [setCd_self pc1, h2] at this
    exact congrArg (fun p => p.2.panicCountdown) this
  have hfr2 : Fr env { s2 with status := .runningOnUpdateHandlers } := fr2.of_nodes rfl rfl
  obtain ⟨fr3, pc3, del, L3⟩ := Lock.runHandlers (env := env) heff fuel q _ hfr2 pc2 _ _ h3
  have hlog : s'.log = del.reverse ++ (pre.reverse ++ s.log) := by
    rw [hs']
    show s3.log = _
    rw [L3.log]
    show del.reverse ++ s2.log = _
    rw [log2, L1.log]
  refine ⟨pre, del, hlog, L1.all, L3.all, fun k => ?_⟩
  have hsta : (setCd (some k) s).status = .notStabilising := hst
  have e0 : ({ setCd (some k) s with status := .stabilising } : State)
      = setCd (some k) { s with status := .stabilising } := rfl
  refine ⟨fun hk => ?_, fun hk => ?_, fun hk1 hk2 => ?_⟩
  · -- not reached
    have hk1 : pre.length < eff k := by omega
    have a1 := L1.pass k hk1
    have a2 := (C2 (some (k - pre.length))).1
    have hk3 : del.length < eff (k - pre.length) := by rw [eff_sub hk1]; omega
    have a3 := L3.pass (k - pre.length) hk3
    rw [Poison.stabilise_run env fuel _ hsta, e0, a1]
    dsimp only
    rw [a2]
    dsimp only
    have e2 : ({ setCd (some (k - pre.length)) s2 with status := .runningOnUpdateHandlers } : State)
        = setCd (some (k - pre.length)) { s2 with status := .runningOnUpdateHandlers } := rfl
    rw [e2, a3]
    dsimp only
    rw [hs', Nat.sub_sub]
  · -- during propagation
    obtain ⟨t, ht, hp, hl⟩ := L1.fire k hk
    refine ⟨t, ?_, ?_, hp, ?_, ?_, hl⟩
    · rw [Poison.stabilise_run env fuel _ hsta, e0, ht]
    · exact ((Poison.propagate_keeps env fuel).of_run ht).1
    · exact ((Poison.propagate_keeps env fuel).of_run ht).2.2
    · exact ((Poison.propagate_keeps env fuel).of_run ht).2.1
  · -- in a handler
    have a1 := L1.pass k hk1
    have a2 := (C2 (some (k - pre.length))).1
    have hk3 : eff (k - pre.length) ≤ del.length := by rw [eff_sub hk1]; omega
    obtain ⟨t, ht, hp, hl⟩ := L3.fire (k - pre.length) hk3
    have e2 : ({ setCd (some (k - pre.length)) s2 with status := .runningOnUpdateHandlers } : State)
        = setCd (some (k - pre.length)) { s2 with status := .runningOnUpdateHandlers } := rfl
    have hrun : (stabilise env fuel).run.run (setCd (some k) s) = (.error (.site "user"), t) := by
      rw [Poison.stabilise_run env fuel _ hsta, e0, a1]
      dsimp only
      rw [a2]
      dsimp only
      rw [e2, ht]
    have R3 : HRel { s2 with status := .runningOnUpdateHandlers } s3 :=
      (P4.runHandlers_hrel heff fuel q).h _ _ _ h3
    have Rt : HRel (setCd (some (k - pre.length)) { s2 with status := .runningOnUpdateHandlers }) t :=
      (P4.runHandlers_hrel heff fuel q).h _ _ _ ht
    have R0 : HRel { s2 with status := .runningOnUpdateHandlers }
        (setCd (some (k - pre.length)) { s2 with status := .runningOnUpdateHandlers }) := ⟨rfl, rfl⟩
    have Rst : HRel s3 t := R3.symm.trans (R0.trans Rt)
    refine ⟨t, hrun, ?_, hp, ?_, ?_⟩
    · exact ((Poison.runHandlers_keeps env fuel q).of_run ht).1
    · rw [hl, eff_sub hk1]
      show _ ++ s2.log = _
      rw [log2, L1.log]
    · rw [hs']
      refine ⟨?_, Rst.obs⟩
      show ({ hcore t with status := .notStabilising } : State) = { hcore s3 with status := .notStabilising }
      rw [Rst.core]

end IncrVerif.Proofs.FaultH
