import IncrVerif.Proofs.Life2
/-!
# Observer lifecycle over whole histories, part 3: exactness outside `stabilise`, histories

* `Same s s'`: `(node, state, clones)` of every observer, `newObservers` and `disallowedObservers` are
  unchanged.  `Pres Same (stepAction env a tokens)` for every action other than `stabilise`, `observe`,
  `cloneObs`, `dropObs`, `disallow` (`Action.touchesObs`).
* closed forms of those four actions; the observer table `table s` after a step as the explicit
  function `stepTable` of the table before.
* `Run env P s s'`: histories (lists of API actions satisfying `P`, every outcome, any token table,
  the harness's log reset); `Life` along every history.
-/
namespace IncrVerif.Proofs.Life
open IncrVerif.Engine IncrVerif.Proofs.Obs

/-! ## `Same` -/

/-- one row of the observer table: `(node, state, clones)` -/
abbrev Row := Nat × ObsState × Nat

def core3 (ob : ObsRec) : Row := (ob.node, ob.state, ob.clones)

/-- the observer table -/
def table (s : State) : Array Row := s.observers.map core3

structure Same (s s' : State) : Prop where
  obs : table s' = table s
  newObs : s'.newObservers = s.newObservers
  dis : s'.disallowedObservers = s.disallowedObservers

theorem Same.refl (s : State) : Same s s := ⟨rfl, rfl, rfl⟩
theorem Same.trans {a b c : State} (h1 : Same a b) (h2 : Same b c) : Same a c :=
  ⟨h2.obs.trans h1.obs, h2.newObs.trans h1.newObs, h2.dis.trans h1.dis⟩
instance : ObsLocal Same where
  refl := Same.refl
  trans := Same.trans
  of_eq _ _ h1 h2 h3 _ _ := ⟨by simp only [table, h1], h2, h3⟩
  logEv _ _ _ := ⟨rfl, rfl, rfl⟩

/-- `Same` does not look at `nextToken` or the log -/
macro_rules
  | `(tactic| lleaf) =>
    `(tactic| ((with_reducible apply Pres.modify); intro _; exact Same.mk rfl rfl rfl))

theorem map_modify_row (a : Array ObsRec) (o : Nat) (g : ObsRec → ObsRec) (row : Row → Row)
    (h : ∀ x, a[o]? = some x → core3 (g x) = row (core3 x)) :
    (a.modify o g).map core3 = (a.map core3).modify o row := by
  apply Array.ext_getElem?
  intro i
  simp only [Array.getElem?_map, Array.getElem?_modify]
  split
  · rename_i hi; subst hi
    cases hx : a[o]? with
    | none => rfl
    | some x => simp [h x hx]
  · rfl

theorem modify_eq_self {α} (b : Array α) (o : Nat) (row : α → α)
    (h : ∀ x, b[o]? = some x → row x = x) : b.modify o row = b := by
  apply Array.ext_getElem?
  intro i
  simp only [Array.getElem?_modify]
  split
  · rename_i hi; subst hi
    cases hx : b[o]? with
    | none => rfl
    | some x => simp [h x hx]
  · rfl

theorem Same.modObs (s : State) (o : Nat) (f : ObsRec → ObsRec) (hf : ∀ x, core3 (f x) = core3 x) :
    Same s { s with observers := s.observers.modify o f } := by
  refine ⟨?_, rfl, rfl⟩
  simp only [table]
  rw [map_modify_row _ o f id (fun x _ => hf x)]
  exact modify_eq_self _ _ _ (fun _ _ => rfl)

theorem PresS.modObs (o : Nat) (f : ObsRec → ObsRec) (hf : ∀ x, core3 (f x) = core3 x) :
    Pres Same (modObs o f) := by
  unfold Engine.modObs; exact Pres.modify fun s => Same.modObs s o f hf

macro_rules
  | `(tactic| lleaf) => `(tactic| ((with_reducible apply PresS.modObs); intro _; rfl))

theorem PresS.subscribe (o h) : Pres Same (subscribe o h) := by unfold Engine.subscribe; lpres
theorem PresS.unsubscribe (o t w) : Pres Same (unsubscribe o t w) := by
  unfold Engine.unsubscribe; lpres
life_leaf PresS.subscribe
life_leaf PresS.unsubscribe

/-- the actions that create an observer, move a lifecycle state or change a clone count -/
def Action.touchesObs : Action → Bool
  | .stabilise | .observe _ | .cloneObs _ | .dropObs _ | .disallow _ => true
  | _ => false

/-- every other API action, whatever its outcome, leaves `(node, state, clones)` of every observer and
the two observer queues unchanged -/
theorem PresS.stepAction_other (env : Env) (a : Action) (tokens : Array Nat)
    (ha : Action.touchesObs a = false) : Pres Same (stepAction env a tokens) := by
  cases a <;> simp only [Action.touchesObs, Bool.true_eq_false] at ha
  all_goals (simp only [Engine.stepAction]; lpres)

/-! ## closed forms of the four observer actions -/

/-- `resolveOpnd` as a function of the state -/
def resolvePure (s : State) (loc : List Nat) (o : Opnd) : Except Panic Nat :=
  match o with
  | .outer k => match s.top[k]? with
    | some n => .ok n
    | none => .error (.site "model:bad-outer")
  | .abs n => .ok n
  | .loc j => match loc[j]? with
    | some n => .ok n
    | none => .error (.site "model:bad-local")
  | .slot k => match s.slots.lookup k with
    | some n => .ok n
    | none => .error (.site "model:empty-slot")

theorem resolveOpnd_run (s : State) (loc : List Nat) (o : Opnd) :
    (resolveOpnd loc o).run.run s = (resolvePure s loc o, s) := by
  cases o with
  | outer k => simp only [resolveOpnd, resolvePure, run_bind, run_get]; cases s.top[k]? <;> rfl
  | abs n => rfl
  | loc j => simp only [resolveOpnd, resolvePure]; cases loc[j]? <;> rfl
  | slot k =>
    simp only [resolveOpnd, resolvePure, run_bind, run_get]; cases List.lookup k s.slots <;> rfl

theorem stepAction_observe_run (env : Env) (s : State) (n : Opnd) (tokens : Array Nat) :
    (stepAction env (.observe n) tokens).run.run s =
      match resolvePure s [] n with
      | .ok m => (.ok (s!"ok o{s.observers.size}", tokens), pushObserver s m)
      | .error e => (.error e, s) := by
  simp only [stepAction, run_bind, resolveOpnd_run]
  cases resolvePure s [] n with
  | error e => rfl
  | ok m => simp only [run_get, run_modify, run_bumpCounter, run_pure]; rfl

theorem stepAction_cloneObs_run (env : Env) (s : State) (o : Nat) (tokens : Array Nat) :
    (stepAction env (.cloneObs o) tokens).run.run s =
      (.ok ("ok", tokens),
        { s with observers := s.observers.modify o fun x => { x with clones := x.clones + 1 } }) := by
  simp only [stepAction, run_bind, run_modObs, run_pure]

/-- the state after `disallow_future_use o` -/
def disallowState (s : State) (o : Nat) : State :=
  match s.observers[o]? with
  | none => s
  | some ob => match ob.state with
    | .created => afterDisCreated s o
    | .inUse => afterDisInUse s o
    | .disallowed => s
    | .unlinked => s

theorem disallowFutureUse_run' (s : State) (o : Nat) :
    (disallowFutureUse o).run.run s =
      (if (s.observers[o]?).isSome then .ok () else .error (.site "model:no-such-observer"),
        disallowState s o) := by
  rw [disallowFutureUse_run, disallowState]
  cases h : s.observers[o]? with
  | none => rfl
  | some ob =>
    rcases ob with ⟨n, st, hs, c⟩
    cases st <;> rfl

theorem stepAction_disallow_run (env : Env) (s : State) (o : Nat) (tokens : Array Nat) :
    (stepAction env (.disallow o) tokens).run.run s =
      (if (s.observers[o]?).isSome then .ok ("ok", tokens)
        else .error (.site "model:no-such-observer"), disallowState s o) := by
  simp only [stepAction, run_bind, disallowFutureUse_run']
  cases (s.observers[o]?).isSome <;> rfl

/-- the state after dropping one handle of observer `o` -/
def dropObsState (s : State) (o : Nat) : State :=
  match s.observers[o]? with
  | none => s
  | some ob =>
    if ob.clones = 0 then s
    else
      let s1 := { s with observers := s.observers.modify o fun x => { x with clones := x.clones - 1 } }
      if ob.clones = 1 then disallowState s1 o else s1

theorem stepAction_dropObs_run (env : Env) (s : State) (o : Nat) (tokens : Array Nat) :
    (stepAction env (.dropObs o) tokens).run.run s =
      (match s.observers[o]? with
        | none => .error (.site "model:no-such-observer")
        | some ob => if ob.clones = 0 then .ok ("noop", tokens) else .ok ("ok", tokens),
       dropObsState s o) := by
  simp only [stepAction, dropObsState]
  cases h : s.observers[o]? with
  | none => rw [run_bind_error (run_getObs_none h)]
  | some ob =>
    rw [run_bind_ok (run_getObs_some h)]
    obtain ⟨n, st, hs, c⟩ := ob
    match c with
    | 0 => rfl
    | 1 =>
      have hs' : ((s.observers.modify o fun x => { x with clones := x.clones - 1 })[o]?).isSome
          = true := by
        simp [Array.getElem?_modify, h]
      simp only [Nat.reduceBEq, Bool.false_eq_true, if_false, if_true, run_bind, run_modObs,
        disallowFutureUse_run', hs', run_pure, Nat.one_ne_zero]
    | c + 2 => rfl

/-! ## the observer table after a step, as a function of the table before -/

def disallowRow : Row → Row := fun r => (r.1, afterDisallow r.2.1, r.2.2)
def cloneRow : Row → Row := fun r => (r.1, r.2.1, r.2.2 + 1)
def dropRow : Row → Row := fun r =>
  if r.2.2 = 0 then r else if r.2.2 = 1 then (r.1, afterDisallow r.2.1, 0) else (r.1, r.2.1, r.2.2 - 1)

/-- what an API action other than `stabilise` does to the observer table; `resolved` is the node the
operand of `observe` names -/
def stepTable (a : Action) (resolved : Except Panic Nat) (t : Array Row) : Array Row :=
  match a with
  | .observe _ => match resolved with
    | .ok n => t.push (n, .created, 1)
    | .error _ => t
  | .cloneObs o => t.modify o cloneRow
  | .disallow o => t.modify o disallowRow
  | .dropObs o => t.modify o dropRow
  | _ => t

/-- the operand of `observe` -/
def Action.observed (s : State) : Action → Except Panic Nat
  | .observe n => resolvePure s [] n
  | _ => .error .outOfFuel

theorem table_disallowState (s : State) (o : Nat) :
    table (disallowState s o) = (table s).modify o disallowRow := by
  simp only [disallowState, table, afterDisCreated, afterDisInUse]
  cases h : s.observers[o]? with
  | none =>
    exact (modify_eq_self _ _ _ (fun x hx => by simp [Array.getElem?_map, h] at hx)).symm
  | some ob =>
    obtain ⟨n, st, hs, c⟩ := ob
    cases st <;> dsimp only
    · refine map_modify_row _ o _ disallowRow ?_
      intro x hx; rw [h] at hx; cases hx; rfl
    · refine map_modify_row _ o _ disallowRow ?_
      intro x hx; rw [h] at hx; cases hx; rfl
    · refine (modify_eq_self _ _ _ (fun x hx => ?_)).symm
      simp only [Array.getElem?_map, h, Option.map_some, Option.some.injEq] at hx
      subst hx; rfl
    · refine (modify_eq_self _ _ _ (fun x hx => ?_)).symm
      simp only [Array.getElem?_map, h, Option.map_some, Option.some.injEq] at hx
      subst hx; rfl

theorem array_modify_modify {α} (a : Array α) (n : Nat) (f g : α → α) :
    (a.modify n f).modify n g = a.modify n (g ∘ f) := by
  apply Array.ext_getElem?
  intro i
  simp only [Array.getElem?_modify]
  split
  · cases a[i]? <;> rfl
  · rfl

theorem table_dropObsState (s : State) (o : Nat) :
    table (dropObsState s o) = (table s).modify o dropRow := by
  simp only [dropObsState]
  cases h : s.observers[o]? with
  | none =>
    exact (modify_eq_self _ _ _ (fun x hx => by simp [table, Array.getElem?_map, h] at hx)).symm
  | some ob =>
    have hrow : (table s)[o]? = some (core3 ob) := by simp [table, Array.getElem?_map, h]
    by_cases h0 : ob.clones = 0
    · simp only [h0, if_true]
      refine (modify_eq_self _ _ _ (fun x hx => ?_)).symm
      rw [hrow] at hx; cases hx; simp [dropRow, core3, h0]
    · have hdec : table { s with observers := s.observers.modify o fun x => { x with clones := x.clones - 1 } }
          = (table s).modify o (fun r => (r.1, r.2.1, r.2.2 - 1)) := by
        simp only [table]
        refine map_modify_row _ o _ _ ?_
        intro _ _; rfl
      by_cases h1 : ob.clones = 1
      · simp only [h1, Nat.one_ne_zero, if_false, if_true]
        rw [table_disallowState, hdec, array_modify_modify]
        apply Array.ext_getElem?
        intro i
        simp only [Array.getElem?_modify]
        split
        · rename_i hi; subst hi
          rw [hrow]; simp [dropRow, disallowRow, core3, h1]
        · rfl
      · simp only [h0, h1, if_false]
        rw [hdec]
        apply Array.ext_getElem?
        intro i
        simp only [Array.getElem?_modify]
        split
        · rename_i hi; subst hi
          rw [hrow]; simp [dropRow, core3, h0, h1]
        · rfl

/-- O2: for every API action other than `stabilise`, every state, every token table and every
outcome (return or panic), the observer table afterwards is `stepTable` of the table before -/
theorem table_step (env : Env) (a : Action) (tokens : Array Nat) (s s' : State)
    (r : Except Panic (String × Array Nat)) (ha : a ≠ .stabilise)
    (hrun : (stepAction env a tokens).run.run s = (r, s')) :
    table s' = stepTable a (Action.observed s a) (table s) := by
  by_cases ht : Action.touchesObs a = false
  · have := ((PresS.stepAction_other env a tokens ht).h s r s' hrun).obs
    rw [this]
    cases a <;> first | rfl | (simp [Action.touchesObs] at ht)
  · cases a <;> simp only [Action.touchesObs, not_true_eq_false, Bool.true_eq_false] at ht
    · -- observe
      rename_i n
      rw [stepAction_observe_run] at hrun
      simp only [stepTable, Action.observed]
      cases hres : resolvePure s [] n with
      | error e => rw [hres] at hrun; cases hrun; rfl
      | ok m =>
        rw [hres] at hrun; cases hrun
        simp [table, pushObserver, Array.map_push, core3]
    · -- cloneObs
      rename_i o
      rw [stepAction_cloneObs_run] at hrun; cases hrun
      simp only [table]
      refine map_modify_row _ o _ cloneRow ?_
      intro _ _; rfl
    · -- dropObs
      rename_i o
      rw [stepAction_dropObs_run] at hrun; cases hrun
      exact table_dropObsState s o
    · -- disallow
      rename_i o
      rw [stepAction_disallow_run] at hrun; cases hrun
      exact table_disallowState s o
    · exact absurd rfl ha

/-! ## histories -/

/-- `s'` is reached from `s` by running API actions, one after the other (`P a r`: action `a` with
outcome `r` is allowed in the history), each with
any token table and whatever its outcome (the state after a panic is the state at the panic point, as
in the harness); the harness's reset of the event log between actions is a step too -/
inductive Run (env : Env) (P : Action → Except Panic (String × Array Nat) → Prop) :
    State → State → Prop
  | nil (s : State) : Run env P s s
  | step {s s1 s2 : State} (a : Action) (tokens : Array Nat) (r : Except Panic (String × Array Nat)) :
      P a r → (stepAction env a tokens).run.run s = (r, s1) → Run env P s1 s2 → Run env P s s2
  | clearLog {s s2 : State} : Run env P { s with log := [] } s2 → Run env P s s2

theorem Run.trans {env : Env} {P : Action → Except Panic (String × Array Nat) → Prop} {a b c : State} (h1 : Run env P a b)
    (h2 : Run env P b c) : Run env P a c := by
  induction h1 with
  | nil => exact h2
  | step a tokens r hp hrun _ ih => exact .step a tokens r hp hrun (ih h2)
  | clearLog _ ih => exact .clearLog (ih h2)

theorem Run.mono {env : Env} {P Q : Action → Except Panic (String × Array Nat) → Prop}
    (hpq : ∀ a r, P a r → Q a r) {a b : State}
    (h : Run env P a b) : Run env Q a b := by
  induction h with
  | nil => exact .nil _
  | step a tokens r hp hrun _ ih => exact .step a tokens r (hpq a r hp) hrun ih
  | clearLog _ ih => exact .clearLog ih

/-- a relation that holds for every allowed step and for the log reset holds along histories -/
theorem Run.induct {env : Env} {P : Action → Except Panic (String × Array Nat) → Prop}
    {R : State → State → Prop} [PreOrd R]
    (hstep : ∀ a tokens, (∃ r, P a r) → Pres R (stepAction env a tokens))
    (hlog : ∀ s : State, R s { s with log := [] }) {s s' : State} (h : Run env P s s') : R s s' := by
  induction h with
  | nil => exact PreOrd.refl _
  | step a tokens r hp hrun _ ih => exact PreOrd.trans ((hstep a tokens ⟨r, hp⟩).h _ _ _ hrun) ih
  | clearLog _ ih => exact PreOrd.trans (hlog _) ih

/-- the states the harness (`traceAction`, `runHistory`) goes through -/
def runStates (env : Env) : List Action → Nat → RunState → RunState
  | [], _, rs => rs
  | a :: rest, idx, rs => runStates env rest (idx + 1) (traceAction env idx a rs).1

theorem traceAction_state (env : Env) (idx : Nat) (a : Action) (rs : RunState) :
    (traceAction env idx a rs).1.s
      = ((stepAction env a rs.tokens).run.run { rs.s with log := [] }).2 := by
  unfold traceAction
  rcases h : (stepAction env a rs.tokens).run.run { rs.s with log := [] } with ⟨res, s1⟩
  simp only [h]

/-- what the harness runs is a history -/
theorem run_runStates (env : Env) (P : Action → Except Panic (String × Array Nat) → Prop)
    (as : List Action) (hP : ∀ a ∈ as, ∀ r, P a r)
    (idx : Nat) (rs : RunState) : Run env P rs.s (runStates env as idx rs).s := by
  induction as generalizing idx rs with
  | nil => exact .nil _
  | cons a rest ih =>
    refine .clearLog (.step a rs.tokens _ (hP a List.mem_cons_self _) (run_eta _ _) ?_)
    rw [← traceAction_state env idx a rs]
    exact ih (fun b hb => hP b (List.mem_cons_of_mem _ hb)) (idx + 1) _

/-- O1: along every history — any actions, any outcomes — no observer is removed, none changes its
node, and lifecycle states only move forward -/
theorem Run.life {env : Env} {P : Action → Except Panic (String × Array Nat) → Prop} {s s' : State} (h : Run env P s s') : Life s s' :=
  Run.induct (fun a tokens _ => PresL.stepAction env a tokens) (fun _ => Life.of_eq rfl) h

end IncrVerif.Proofs.Life
