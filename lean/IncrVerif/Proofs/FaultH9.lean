import IncrVerif.Proofs.FaultH5
/-!
# Faults in whole histories, part 5: the actions other than `stabilise` never look at the countdown;
a `stabilise` that returns although a fault is armed
-/
namespace IncrVerif.Proofs.FaultH
open IncrVerif.Engine IncrVerif.Driver IncrVerif.Proofs IncrVerif.Proofs.Step
open IncrVerif.Proofs.SubsH (PureHandlers UInv SubAction)

variable {env : Env}

theorem Comm.map {α β} {x : M α} (f : α → β) (h : Comm env x) : Comm env (f <$> x) :=
  fun c s => CommAt.map f (h c s)
theorem Comm.discard {α} {x : M α} (h : Comm env x) : Comm env (discard x) :=
  fun c s => CommAt.discard (h c s)
macro_rules | `(tactic| csim_leaf) => `(tactic| ((with_reducible refine Comm.map _ ?_); csim_leaf))
macro_rules | `(tactic| csim_leaf) => `(tactic| ((with_reducible refine Comm.discard ?_); csim_leaf))

/-! ## node creation -/

theorem zip_static {a b : Nat} : Sched.StaticKind env (.map fnZip [a, b]) :=
  ⟨by decide, fun h => absurd h (by decide)⟩


theorem fr_push {s : State} (h : Fr env s) (nd : Node) (hk : Sched.StaticKind env nd.kind) (hv : nd.valid = true)
    (hc : nd.cutoff = .eq) : Fr env ({ s with nodes := s.nodes.push nd } : State) := by
  have key : ∀ m, ({ s with nodes := s.nodes.push nd } : State).nodeD m = s.nodeD m ∨
      ({ s with nodes := s.nodes.push nd } : State).nodeD m = nd := by
    intro m
    simp only [State.nodeD, Array.getElem?_push]
    split
    · right; rfl
    · left; rfl
  have all : ∀ m, Sched.StaticKind env (({ s with nodes := s.nodes.push nd } : State).nodeD m).kind ∧
      (({ s with nodes := s.nodes.push nd } : State).nodeD m).valid = true ∧
      ∀ c, (({ s with nodes := s.nodes.push nd } : State).nodeD m).cutoff ≠ .fn c ∧
        (({ s with nodes := s.nodes.push nd } : State).nodeD m).cutoff ≠ .boxed c := by
    intro m
    rcases key m with e | e <;> rw [e]
    · exact ⟨h.kind m, h.valid m, h.cut m⟩
    · refine ⟨hk, hv, fun c => ?_⟩
      rw [hc]; refine ⟨?_, ?_⟩ <;> intro e <;> cases e
  refine ⟨fun m => (all m).1, fun m e he => ?_, fun m => (all m).2.1, h.pinv, fun m p i he => ?_,
    fun m c => (all m).2.2 c⟩
  · have := (all m).1; rw [he] at this; exact this
  · have := (all m).1; rw [he] at this; exact this

theorem Comm.createNode_static (k : Kind) (sc : Scope) (hk : Sched.StaticKind env k) :
    Comm env (Engine.createNode k sc) := by
  intro c s
  unfold Engine.createNode
  refine CommAt.get_seq rfl ?_
  dsimp only
  refine CommAt.seq (Comm.bumpCounter _ c s) fun _ s1 _ => ?_
  refine CommAt.seq ?_ fun _ s2 _ => ?_
  · intro hne r s' hr
    rw [run_modify] at hr ⊢
    cases hr
    exact ⟨rfl, fr_push hne _ hk rfl rfl, rfl⟩
  · cases sc with
    | top => csim
    | bind b =>
      dsimp only
      refine CommAt.seq ?_ fun _ _ _ => CommAt.ret _
      unfold Engine.modBind
      csim
macro_rules | `(tactic| csim_leaf) => `(tactic| ((with_reducible refine Comm.createNode_static _ _ ?_); (first | exact trivial | exact zip_static | assumption | (constructor <;> assumption))))

theorem Comm.createVar (v : Val) (sc : Scope) : Comm env (Engine.createVar v sc) := by
  intro c s
  unfold Engine.createVar
  csim

theorem Comm.resolveOpnd (loc : List Nat) (o : Opnd) : Comm env (Engine.resolveOpnd loc o) := by
  intro c s
  unfold Engine.resolveOpnd
  cases o <;> dsimp only
  case outer k => csim; split <;> csim
  case abs n => csim
  case loc j => split <;> csim
  case slot k => csim; split <;> csim
macro_rules | `(tactic| csim_leaf) => `(tactic| with_reducible exact Comm.resolveOpnd _ _)

theorem Comm.mapM_resolveOpnd (loc : List Nat) (l : List Opnd) : Comm env (l.mapM (Engine.resolveOpnd loc)) :=
  Comm.mapM (fun a => Comm.resolveOpnd loc a) l

theorem Comm.isConstant (n : Nat) : Comm env (Engine.isConstant n) := by
  intro c s
  unfold Engine.isConstant
  csim
  split <;> csim
macro_rules | `(tactic| csim_leaf) => `(tactic| with_reducible exact Comm.isConstant _)

theorem Comm.subscribe (o hid : Nat) : Comm env (Engine.subscribe o hid) := by
  intro c s
  unfold Engine.subscribe
  csim
  split <;> csim
macro_rules | `(tactic| csim_leaf) => `(tactic| with_reducible exact Comm.subscribe _ _)

theorem Comm.unsubscribe (o t owner : Nat) : Comm env (Engine.unsubscribe o t owner) := by
  intro c s
  unfold Engine.unsubscribe
  csim
  split <;> csim
macro_rules | `(tactic| csim_leaf) => `(tactic| with_reducible exact Comm.unsubscribe _ _ _)

macro_rules | `(tactic| csim_leaf) => `(tactic| with_reducible exact Comm.createVar _ _)
macro_rules | `(tactic| csim_leaf) => `(tactic| with_reducible exact Comm.mapM_resolveOpnd _ _)

macro "fin5" : tactic => `(tactic| (
  repeat (any_goals (first | exact zip_static | assumption | (split <;> csim)))))

theorem Comm.create {i : Instr} (hi : Quiet.StaticInstr env i) (tk : Array Nat) :
    Comm env (stepAction env (.create i) tk) := by
  intro c s
  unfold stepAction
  dsimp only
  cases i <;> try exact hi.elim
  case const v =>
    unfold elabInstrM; dsimp only; unfold elabInstr; dsimp only
    csim; fin5
  case var v =>
    unfold elabInstrM; dsimp only; unfold elabInstr; dsimp only
    csim; fin5
  case map f args =>
    have h12 : f < fnPerKey ∧ (f < fnZip → ∀ vals, env.fnEff f vals = []) := ⟨hi.1, hi.2.1⟩
    unfold elabInstrM; dsimp only; unfold elabInstr; dsimp only
    csim; fin5
  case fold f init cs =>
    unfold elabInstrM; dsimp only; unfold elabInstr; dsimp only
    csim; fin5
  case zip a b =>
    unfold elabInstrM; dsimp only; unfold elabInstr; dsimp only
    csim; fin5

/-- **every action of the fragment other than `stabilise` runs the same way whatever the countdown** (and logs nothing) -/
theorem Comm.stepAction {a : Action} (ha : SubAction env a) (hns : a ≠ .stabilise) (tk : Array Nat) :
    Comm env (stepAction env a tk) := by
  cases a <;> try exact ha.elim
  case create i => exact Comm.create ha tk
  case stabilise => exact absurd rfl hns
  all_goals
    intro c s
    unfold Engine.stepAction
    dsimp only
    csim
  all_goals fin5

end IncrVerif.Proofs.FaultH
