import IncrVerif.Proofs.BindH10
/-!
# Binds, BS3: one `recomputeOne` on a static-kind node or on a `bindMain` node, in a graph that contains bind
nodes, as a relation between pre- and post-state (`recomputeOne_stepB`, the port of `Sched.recomputeOne_static`)
-/
namespace IncrVerif.Proofs.BindH
open IncrVerif.Engine IncrVerif.Proofs IncrVerif.Proofs.Step IncrVerif.Proofs.Sched
namespace BS

/-- a `bindMain` node whose bind has no right-hand side yet: `recompute_one` panics -/
theorem recomputeOne_bindMain_norhs (env : Env) (fuel n : Nat) (s : State) (nd : Node) (b lc : Nat)
    (br : BindRec)
    (hn : s.nodes[n]? = some nd) (hv : nd.valid = true) (hk : nd.kind = .bindMain b lc)
    (hb : s.binds[b]? = some br) (hr : br.rhs = none) :
    ∃ e t, (recomputeOne env fuel n).run.run s = (.error e, t) := by
  have hk? : ({ nd with recomputedAt := s.stabNum } : Node).kind? = some (.bindMain b lc) := by
    simp [Node.kind?, hv, hk]
  have hn' := started_getElem? n s nd hn
  unfold recomputeOne
  simp only [run_bind_get]
  cases hd : s.cfg.debug
  all_goals
    simp only [started, hd, Bool.false_eq_true, if_false, if_true, run_bind_modify,
      run_bind_bumpCounter, run_bind_get, run_bind_modNode] at hn' ⊢
    rw [run_bind_ok (run_getNode_some hn'), hk?]
    dsimp only
    simp only [getBind, bind_assoc, run_bind_get, hb, pure_bind, hr]
    exact ⟨_, _, rfl⟩

/-- the stored values of the children, from `hvals` -/
theorem vals_of_children {env : Env} {s : State} {n : Nat} (g : BGraph env s) (hlt : n < s.nodes.size)
    (hv : (s.nodeD n).valid = true) (hk : StaticKind env (s.nodeD n).kind)
    (hvals : ∀ c, c ∈ s.children n → ∃ v, (s.nodeD c).value = some v) :
    ∃ vals, plainVals s (kids (s.nodeD n).kind) = some vals ∧
      valuesOf env s (kids (s.nodeD n).kind) = some vals := by
  have hch := children_eq_kids s n hv hk
  rw [hch] at hvals
  obtain ⟨vals, hpv⟩ := evalArgs_isSome (fun a => (s.nodeD a).value) _ hvals
  refine ⟨vals, hpv, ?_⟩
  rw [valuesOf_eq_evalArgs, ← hpv]
  refine evalArgs_congr _ _ _ fun a ha => ?_
  obtain ⟨halt, hav⟩ := (g.node n hlt hv).2.2 a (by rw [hch]; exact ha)
  exact value_plain env s a (BKind.not_mapRef (g.node a halt hav).1)

end BS

/-- a successful `recomputeOne` on a necessary node of a static kind or of kind `bindMain`, in a graph with binds
at rest, whose children all have values: it stores the target value `v` of the node's defining expression and
is described by `StepRelB` -/
theorem recomputeOne_stepB {env : Env} {fuel n : Nat} {s s' : State} {r : Option Nat}
    (g : BGraph env s) (hi : HeapInv s) (hn : s.isNecessary n = true)
    (hk : StaticKind env (s.nodeD n).kind ∨ ∃ b lc, (s.nodeD n).kind = .bindMain b lc)
    (hvals : ∀ c, c ∈ s.children n → ∃ v, (s.nodeD c).value = some v)
    (h : (recomputeOne env fuel n).run.run s = (.ok r, s')) :
    ∃ v ch, TargetB env s n v ∧ StepRelB n v ch r s s' := by
  have hlt := BS.nec_lt hn
  have hv := (g.nec n hn).1
  have hnn := some_of_lt hlt
  have hU := Upd.started n s g.pc
  have hb0 : (started n s).binds = s.binds := rfl
  have e1 : ((started n s).nodeD n).value = (s.nodeD n).value := by
    rw [started_nodeD]; split <;> rfl
  have e2 : ((started n s).nodeD n).recomputedAt = s.stabNum := by
    rw [started_nodeD, if_pos ⟨rfl, hlt⟩]
  have e3 : ((started n s).nodeD n).changedAt = (s.nodeD n).changedAt := by
    rw [started_nodeD]; split <;> rfl
  rcases hk with hk | ⟨b, lc, hkd⟩
  · -- static kinds
    obtain ⟨vals, hpv, hvo⟩ := BS.vals_of_children g hlt hv hk hvals
    cases hkd : (s.nodeD n).kind with
    | const w =>
      rw [recomputeOne_const_run env fuel n s _ w hnn hv hkd] at h
      obtain ⟨ch, hs⟩ := BS.mcv_stepB g hi hn hU hb0 e1 e2 e3 h
      exact ⟨w, ch, by simp only [TargetB, Target, hkd], hs⟩
    | var c =>
      obtain ⟨vc, hvc⟩ := g.var n c hlt hv hkd
      rw [recomputeOne_var_run env fuel n s _ c vc hnn hv hkd hvc] at h
      obtain ⟨ch, hs⟩ := BS.mcv_stepB g hi hn hU hb0 e1 e2 e3 h
      exact ⟨vc.value, ch, by simp only [TargetB, Target, hkd]; exact ⟨vc, hvc, rfl⟩, hs⟩
    | map f args =>
      rw [hkd] at hk hpv hvo
      have ht : TargetB env s n (env.fn f vals) := by
        simp only [TargetB, Target, hkd]; exact ⟨vals, hpv, rfl⟩
      by_cases hf : f < fnZip
      · rw [recomputeOne_map_run env fuel n s _ f args vals hnn hv hkd hf hvo (hk.2 hf vals) g.pc] at h
        obtain ⟨ch, hs⟩ := BS.mcv_stepB g hi hn (hU.logged _) hb0 e1 e2 e3 h
        exact ⟨_, ch, ht, hs⟩
      · rw [recomputeOne_mapBuiltin_run env fuel n s _ f args vals hnn hv hkd hf hk.1 hvo] at h
        obtain ⟨ch, hs⟩ := BS.mcv_stepB g hi hn hU hb0 e1 e2 e3 h
        exact ⟨_, ch, ht, hs⟩
    | fold f init cs =>
      rw [hkd] at hpv hvo
      have ht : TargetB env s n (vals.foldl (env.foldStep f) init) := by
        simp only [TargetB, Target, hkd]; exact ⟨vals, hpv, rfl⟩
      rw [recomputeOne_fold_run env fuel n s _ f init cs vals hnn hv hkd hvo g.pc] at h
      obtain ⟨ch, hs⟩ := BS.mcv_stepB g hi hn (hU.logged _) hb0 e1 e2 e3 h
      exact ⟨_, ch, ht, hs⟩
    | mapRef _ _ => rw [hkd] at hk; exact hk.elim
    | mapWithOld _ _ => rw [hkd] at hk; exact hk.elim
    | bindLhsChange _ => rw [hkd] at hk; exact hk.elim
    | bindMain _ _ => rw [hkd] at hk; exact hk.elim
    | expert _ => rw [hkd] at hk; exact hk.elim
  · -- bind main
    obtain ⟨br, hbr, -, -, -⟩ := g.mainRec n b lc hlt hv hkd
    cases hr : br.rhs with
    | none =>
      obtain ⟨e, t, he⟩ := BS.recomputeOne_bindMain_norhs env fuel n s _ b lc br hnn hv hkd hbr hr
      rw [he] at h; cases h
    | some r0 =>
      have hch : s.children n = [lc, r0] := by
        simp only [State.children, BS.kind?_of_valid hv, hkd, hbr, hr]
      have hmem : r0 ∈ s.children n := by rw [hch]; simp
      obtain ⟨hrlt, hrv⟩ := (g.node n hlt hv).2.2 r0 hmem
      obtain ⟨v, hval⟩ := hvals r0 hmem
      have hval' : s.value env r0 = some v := by
        rw [value_plain env s r0 (BS.BKind.not_mapRef (g.node r0 hrlt hrv).1)]; exact hval
      rw [recomputeOne_bindMain_run env fuel n s _ b lc r0 br _ v hnn hv hkd hbr hr (some_of_lt hrlt) hrv
        hval'] at h
      obtain ⟨ch, hs⟩ := BS.mcv_stepB g hi hn hU hb0 e1 e2 e3 h
      exact ⟨v, ch, by simp only [TargetB, hkd]; exact ⟨br, r0, hbr, hr, hval⟩, hs⟩

end IncrVerif.Proofs.BindH
