import IncrVerif.Proofs.DriverH1
/-!
# `RmSpec`, part 1: pure step lemmas about `QR.GInv` for `expert_remove_dependency`

* `coreG`: port of `BindH.BU.core` to `QR.GInv` (the parents/observers of a closed necessary node shrink; the labels of
  the other nodes may move, the caller shows the edge conditions for the nodes that are open afterwards).
* `GInv.dropLastLinking`: `removeParent c idx p` where `p` is `.linking (idx + 1)` and `c` its child number `idx`:
  afterwards `p` is `.linking idx`.
* `removeParent_dropLastLinking`: its run form.
* `GInv.shrink`: an open node `.linking k` whose kind is replaced by one with exactly its first `k` children.
-/
namespace IncrVerif.Proofs.DriverH
open IncrVerif.Engine IncrVerif.Driver IncrVerif.Proofs IncrVerif.Proofs.Step IncrVerif.Proofs.Sched
open IncrVerif.Proofs.ExpertH IncrVerif.Proofs.ExpertH.QR

/-- the parents / observers of a closed necessary node `n` shrink; `n` stays closed if it is still necessary and
becomes `unlinking 0` otherwise; closed nodes may open and the labels of open nodes may move -/
theorem coreG {env : Env} {rk : Nat → Nat} {s s' : State} {op op' : Nat → Op} {n : Nat} (I : GInv env rk s op)
    (B : U4.SameB s s')
    (hrch : s'.rch = s.rch) (hhr : ∀ m, (s'.nodeD m).heightInRch = (s.nodeD m).heightInRch)
    (hoth : ∀ m, m ≠ n → (s'.nodeD m).parents = (s.nodeD m).parents ∧
      (s'.nodeD m).observers = (s.nodeD m).observers)
    (hsub : ∀ x, x ∈ (s'.nodeD n).parents → x ∈ (s.nodeD n).parents)
    (hnd : (s'.nodeD n).parents.Nodup)
    (hkeep : ∀ q i, (q, i) ∈ (s.nodeD n).parents → op' q = .closed → (q, i) ∈ (s'.nodeD n).parents)
    (hn : s.isNecessary n = true) (hcl : op n = .closed)
    (hd : (s'.isNecessary n = true ∧ op' n = .closed) ∨ (s'.isNecessary n = false ∧ op' n = .unlinking 0))
    (cl : ∀ m, op' m = .closed → op m = .closed)
    (hln : ∀ m k, m ≠ n → op' m = .linking k → s.isNecessary m = true)
    (hun : ∀ m k, m ≠ n → op' m = .unlinking k → s.isNecessary m = false)
    (hqn : ∀ m, m ≠ n → (∃ k, op m = .unlinking k) → ∃ k, op' m = .unlinking k)
    (hlt : ∀ m, m ≠ n → op' m ≠ .closed → m < s.nodes.size)
    (hpar : ∀ c q i, (q, i) ∈ (s'.nodeD c).parents → q ≠ n → op' q ≠ .closed → Wants s' op' q i)
    (hconv : ∀ q i c, (kids (s.nodeD q).kind)[i]? = some c → q ≠ n → op' q ≠ .closed → Wants s' op' q i →
      (q, i) ∈ (s'.nodeD c).parents) :
    GInv env rk s' op' := by
  have necO : ∀ m, m ≠ n → s'.isNecessary m = s.isNecessary m := fun m h =>
    U4.nec_congr (hoth m h).1 (hoth m h).2 (B.forceNecessary m)
  have necI : ∀ m, s'.isNecessary m = true → s.isNecessary m = true := by
    intro m h
    by_cases e : m = n
    · rw [e]; exact hn
    · rw [← necO m e]; exact h
  have mem0 : ∀ c x, x ∈ (s'.nodeD c).parents → x ∈ (s.nodeD c).parents := by
    intro c x h
    by_cases e : c = n
    · rw [e] at h ⊢; exact hsub x h
    · rw [← (hoth c e).1]; exact h
  have Wn : ∀ i, Wants s' op' n i := by
    intro i
    rcases hd with ⟨h1, h2⟩ | ⟨h1, h2⟩
    · exact (wants_closed h2).2 h1
    · exact (wants_unlinking h2).2 (Nat.zero_le _)
  have inR : ∀ m, (s'.nodeD m).inRch = (s.nodeD m).inRch := fun m => U4.inRch_of_hir (hhr m)
  have nopen : ∀ k, op' n ≠ .linking k := by
    intro k h
    rcases hd with ⟨_, h2⟩ | ⟨_, h2⟩ <;> rw [h2] at h <;> cases h
  refine { static := B.static I.static, par := ?_, conv := ?_, nodup := ?_, hlt := ?_, hpos := ?_, lnec := ?_,
           unec := ?_, heap := I.heap.congr hrch B.size hhr, hgt := ?_, qnec := ?_, queued := ?_, qstale := ?_,
           opLt := ?_ }
  · -- par
    intro c q i hm
    have hm0 := mem0 c _ hm
    refine ⟨by rw [B.kind]; exact (I.par c q i hm0).1, ?_⟩
    by_cases e : q = n
    · rw [e]; exact Wn i
    · by_cases hq : op' q = .closed
      · rw [wants_closed hq, necO q e]
        exact (wants_closed (cl q hq)).1 (I.par c q i hm0).2
      · exact hpar c q i hm e hq
  · -- conv
    intro q i c hk hw
    rw [B.kind] at hk
    by_cases e : q = n
    · rw [e] at hk ⊢
      have hm0 := I.conv n i c hk ((wants_closed hcl).2 hn)
      have hc : c ≠ n := I.kid_ne hk
      rw [(hoth c hc).1]; exact hm0
    · by_cases hq : op' q = .closed
      · rw [wants_closed hq] at hw
        have hm0 := I.conv q i c hk ((wants_closed (cl q hq)).2 (necI q hw))
        by_cases hc : c = n
        · rw [hc] at hm0 ⊢; exact hkeep q i hm0 hq
        · rw [(hoth c hc).1]; exact hm0
      · exact hconv q i c hk e hq hw
  · -- nodup
    intro c
    by_cases hc : c = n
    · rw [hc]; exact hnd
    · rw [(hoth c hc).1]; exact I.nodup c
  · -- hlt
    intro c q i hm ho
    rw [B.height, B.height]
    exact I.hlt c q i (mem0 c _ hm) (cl q ho)
  · -- hpos
    intro m hm ho
    rw [B.height]; exact I.hpos m (necI m hm) (cl m ho)
  · -- lnec
    intro q k ho
    have e : q ≠ n := fun e => nopen k (e ▸ ho)
    rw [necO q e]
    exact hln q k e ho
  · -- unec
    intro q k ho
    by_cases e : q = n
    · rw [e] at ho ⊢
      rcases hd with ⟨_, h2⟩ | ⟨h1, _⟩
      · rw [h2] at ho; cases ho
      · exact h1
    · rw [necO q e]; exact hun q k e ho
  · -- hgt
    intro m hq ho
    rw [inR] at hq
    rw [hhr, B.height]; exact I.hgt m hq (cl m ho)
  · -- qnec
    intro m hq
    rw [inR] at hq
    by_cases e : m = n
    · rw [e]
      rcases hd with ⟨h1, _⟩ | ⟨_, h2⟩
      · exact Or.inl h1
      · exact Or.inr ⟨0, h2⟩
    · rcases I.qnec m hq with h | h
      · exact Or.inl (by rw [necO m e]; exact h)
      · exact Or.inr (hqn m e h)
  · -- queued
    intro m ho hm hs
    rw [B.staleOf] at hs
    rw [inR]; exact I.queued m (cl m ho) (necI m hm) hs
  · -- qstale
    intro m hq
    rw [inR] at hq
    rw [B.staleOf]; exact I.qstale m hq
  · -- opLt
    intro m ho
    rw [B.size]
    by_cases e : m = n
    · rw [e]; exact nec_lt_size hn
    · exact hlt m e ho

section
variable {env : Env} {rk : Nat → Nat} {s s' : State} {op : Nat → Op}

/-- `removeParent c idx p` where `p` is open, `.linking (idx + 1)`, and `c` is its child number `idx` (the last recorded
one): afterwards `p` is `.linking idx`; `c` stays closed if it is still necessary and is relabelled `.unlinking 0`
otherwise (the caller runs `checkIfUnnecessary c` next) -/
theorem GInv.dropLastLinking {c p idx pi : Nat} (I : GInv env rk s op)
    (hidx : (s.nodeD c).parents.idxOf? (p, idx) = some pi)
    (U : NodeUpd c (fParents (swapRemove (s.nodeD c).parents pi)) s s')
    (hop : op p = .linking (idx + 1)) (hk : (kids (s.nodeD p).kind)[idx]? = some c) (hcl : op c = .closed) :
    (s'.isNecessary c = true → GInv env rk s' (upd op p (.linking idx))) ∧
    (s'.isNecessary c = false →
      GInv env rk s' (upd (upd op p (.linking idx)) c (.unlinking 0))) := by
  have B := U4.sameB_of_upd U (U4.keepB_fParents _)
  have hhr := U4.hir_of_upd U (U4.keepB_fParents _)
  have hpc : (s'.nodeD c).parents = swapRemove (s.nodeD c).parents pi := U.self.parents
  obtain ⟨hmem, hnd'⟩ := U4.swapRemove_spec _ _ _ (I.nodup c) hidx
  rw [← hpc] at hmem hnd'
  have hoth : ∀ m, m ≠ c → (s'.nodeD m).parents = (s.nodeD m).parents ∧
      (s'.nodeD m).observers = (s.nodeD m).observers :=
    fun m h => ⟨(U.other m h).parents, (U.other m h).observers⟩
  have hin : (p, idx) ∈ (s.nodeD c).parents :=
    I.conv p idx c hk ((wants_linking hop).2 (Nat.lt_succ_self idx))
  have hn : s.isNecessary c = true := nec_of_mem_parents hin
  have hnp : s.isNecessary p = true := I.lnec p _ hop
  have hpc' : p ≠ c := (I.kid_ne hk).symm
  have mem0 : ∀ c' x, x ∈ (s'.nodeD c').parents → x ∈ (s.nodeD c').parents := by
    intro c' x h
    by_cases e : c' = c
    · rw [e] at h ⊢; exact ((hmem x).1 h).1
    · rw [← (hoth c' e).1]; exact h
  have common : ∀ op' : Nat → Op,
      ((s'.isNecessary c = true ∧ op' c = .closed) ∨ (s'.isNecessary c = false ∧ op' c = .unlinking 0)) →
      (∀ m, m ≠ c → op' m = upd op p (.linking idx) m) → GInv env rk s' op' := by
    intro op' hd ho
    have hop' : op' p = .linking idx := by rw [ho p hpc', upd_self]
    have oo : ∀ m, m ≠ c → m ≠ p → op' m = op m := fun m e1 e2 => by rw [ho m e1, upd_other _ _ _ e2]
    refine coreG I B U.rch hhr hoth (fun x h => ((hmem x).1 h).1) hnd' ?_ hn hcl hd ?_ ?_ ?_ ?_ ?_ ?_ ?_
    · -- hkeep
      intro q i h hq
      refine (hmem (q, i)).2 ⟨h, fun e => ?_⟩
      have e1 : q = p := congrArg Prod.fst e
      rw [e1, hop'] at hq; cases hq
    · -- cl
      intro m h
      by_cases e : m = c
      · rw [e]; exact hcl
      · by_cases e2 : m = p
        · rw [e2, hop'] at h; cases h
        · rw [← oo m e e2]; exact h
    · -- hln
      intro m k e h
      by_cases e2 : m = p
      · rw [e2]; exact hnp
      · rw [oo m e e2] at h; exact I.lnec m k h
    · -- hun
      intro m k e h
      by_cases e2 : m = p
      · rw [e2, hop'] at h; cases h
      · rw [oo m e e2] at h; exact I.unec m k h
    · -- hqn
      intro m e h
      by_cases e2 : m = p
      · obtain ⟨k, h⟩ := h
        rw [e2, hop] at h; cases h
      · rw [oo m e e2]; exact h
    · -- hlt
      intro m e h
      by_cases e2 : m = p
      · rw [e2]; exact nec_lt_size hnp
      · rw [oo m e e2] at h; exact I.opLt m h
    · -- hpar
      intro c' q i hm e hq'
      have hm0 := mem0 c' _ hm
      by_cases ep : q = p
      · rw [ep] at hm hm0 ⊢
        have h1 := I.par c' p i hm0
        have h3 : i < idx + 1 := (wants_linking hop).1 h1.2
        rw [wants_linking hop']
        by_cases ei : i = idx
        · rw [ei] at h1 hm
          have : c' = c := by
            have := h1.1; rw [hk] at this; exact (Option.some.inj this).symm
          rw [this] at hm
          exact absurd rfl ((hmem _).1 hm).2
        · omega
      · have hoq : op' q = op q := oo q e ep
        have hq : op q ≠ .closed := by rw [← hoq]; exact hq'
        exact (U4.wants_open hoq hq).2 (I.par c' q i hm0).2
    · -- hconv
      intro q i c' hk' e hq' hw
      by_cases ep : q = p
      · rw [ep] at hk' hw ⊢
        rw [wants_linking hop'] at hw
        have hm0 := I.conv p i c' hk' ((wants_linking hop).2 (by omega))
        by_cases ec : c' = c
        · rw [ec] at hm0 ⊢
          refine (hmem _).2 ⟨hm0, fun h => ?_⟩
          have : i = idx := congrArg Prod.snd h
          omega
        · rw [(hoth c' ec).1]; exact hm0
      · have hoq : op' q = op q := oo q e ep
        have hq : op q ≠ .closed := by rw [← hoq]; exact hq'
        have hm0 := I.conv q i c' hk' ((U4.wants_open hoq hq).1 hw)
        by_cases ec : c' = c
        · rw [ec] at hm0 ⊢
          exact (hmem _).2 ⟨hm0, fun h => ep (congrArg Prod.fst h)⟩
        · rw [(hoth c' ec).1]; exact hm0
  constructor
  · intro h
    refine common _ (Or.inl ⟨h, ?_⟩) (fun _ _ => rfl)
    rw [upd_other _ _ _ (Ne.symm hpc')]; exact hcl
  · intro h
    exact common _ (Or.inr ⟨h, upd_self _ _ _⟩) (fun m e => upd_other _ _ _ e)

/-- run form of `GInv.dropLastLinking` -/
theorem removeParent_dropLastLinking {c p idx : Nat} {u : Unit}
    (h : (removeParent c idx p).run.run s = (.ok u, s')) (I : GInv env rk s op)
    (hop : op p = .linking (idx + 1)) (hk : (kids (s.nodeD p).kind)[idx]? = some c) (hcl : op c = .closed) :
    (s'.isNecessary c = true → GInv env rk s' (upd op p (.linking idx))) ∧
    (s'.isNecessary c = false → GInv env rk s' (upd (upd op p (.linking idx)) c (.unlinking 0))) ∧
    Above rk c s s' ∧ URel s s' ∧ (∀ m, m ≠ c → s'.nodeD m = s.nodeD m) ∧
    (s'.nodeD c).height = (s.nodeD c).height := by
  obtain ⟨nd, pi, hnd, hidx, e1⟩ := removeParent_ok_inv h
  have hndD : s.nodeD c = nd := nodeD_of_some hnd
  rw [← hndD] at hidx
  have hct : c < s.nodes.size := lt_of_some hnd
  have U : NodeUpd c (fParents (swapRemove (s.nodeD c).parents pi)) s s' := by
    rw [e1]; exact NodeUpd.modify' hct rfl
  obtain ⟨h1, h2⟩ := GInv.dropLastLinking I hidx U hop hk hcl
  refine ⟨h1, h2, ?_, ?_, ?_, U.self.height⟩
  · rw [e1]; exact Above.modify rk c _ s c (Nat.le_refl _)
  · refine ⟨?_, ?_, ?_⟩
    · rw [e1]; exact CFrame.modNode s c _ (fun _ => rfl)
    · rw [e1]
    · intro m x hx
      by_cases e : m = c
      · rw [e] at hx ⊢
        rw [U.self.parents] at hx
        exact ((U4.swapRemove_spec _ _ _ (I.nodup c) hidx).1 x).1 hx |>.1
      · rw [(U.other m e).parents] at hx; exact hx
  · intro m hm
    rw [e1, nodeD_modify, if_neg (fun e => hm e.1.symm)]

end

/-- an open node `.linking k` whose kind is replaced by one with exactly its first `k` children (and whose
`recomputedAt` is reset to `-1`): nothing else changes, the same rank is still valid -/
theorem GInv.shrink {env : Env} {rk : Nat → Nat} {n k : Nat} {k' : Kind} {S S2 : State} {op : Nat → Op}
    (I : GInv env rk S op) (R : Rekind n k' S S2) (hop : op n = .linking k)
    (hk : kids k' = (kids (S.nodeD n).kind).take k) (hsk : StaticKind env k')
    (hst : staleOf S2 n = true) : GInv env rk S2 op := by
  have hkidsn : kids (S2.nodeD n).kind = (kids (S.nodeD n).kind).take k := by rw [R.kind_self]; exact hk
  have hsub : ∀ c, c ∈ kids (S2.nodeD n).kind → c ∈ kids (S.nodeD n).kind := by
    intro c hc; rw [hkidsn] at hc; exact List.mem_of_mem_take hc
  have hget : ∀ i, i < k → (kids (S2.nodeD n).kind)[i]? = (kids (S.nodeD n).kind)[i]? := by
    intro i hi; rw [hkidsn, List.getElem?_take, if_pos hi]
  have hget' : ∀ i c, (kids (S2.nodeD n).kind)[i]? = some c → i < k ∧ (kids (S.nodeD n).kind)[i]? = some c := by
    intro i c h
    rw [hkidsn, List.getElem?_take] at h
    split at h
    · exact ⟨by assumption, h⟩
    · cases h
  have A : AllStatic env rk S2 := by
    refine ⟨by rw [R.pc]; exact I.static.pc, by rw [R.scope]; exact I.static.scope, fun m hm => ?_,
      I.static.inj, by rw [R.size]; exact I.static.top⟩
    rw [R.size] at hm
    have sn := I.static.node m hm
    by_cases e : m = n
    · subst e
      refine ⟨by rw [R.self]; exact sn.valid, by rw [R.self]; exact hsk, by rw [R.self]; exact sn.cutoff,
        by rw [R.self]; exact sn.top, by rw [R.self]; exact sn.force, ?_, ?_⟩
      · intro c hc; exact sn.kidsLt c (hsub c hc)
      · intro c hc; rw [R.size]; exact sn.kidsIn c (hsub c hc)
    · refine ⟨by rw [R.other m e]; exact sn.valid, by rw [R.other m e]; exact sn.kind,
        by rw [R.other m e]; exact sn.cutoff, by rw [R.other m e]; exact sn.top,
        by rw [R.other m e]; exact sn.force, by rw [R.other m e]; exact sn.kidsLt,
        by rw [R.other m e, R.size]; exact sn.kidsIn⟩
  refine { static := A, par := ?_, conv := ?_, nodup := ?_, hlt := ?_, hpos := ?_, lnec := ?_, unec := ?_,
           heap := R.heap I.heap, hgt := ?_, qnec := ?_, queued := ?_, qstale := ?_, opLt := ?_ }
  · intro c p i hm
    rw [R.parents] at hm
    obtain ⟨h1, h2⟩ := I.par c p i hm
    by_cases e : p = n
    · subst e
      have hi : i < k := (wants_linking hop).1 h2
      exact ⟨by rw [hget i hi]; exact h1, (wants_linking hop).2 hi⟩
    · rw [R.kind_other e, R.wants_other]; exact ⟨h1, h2⟩
  · intro p i c hkp hw
    rw [R.parents]
    rw [R.wants_other] at hw
    by_cases e : p = n
    · subst e
      exact I.conv p i c (hget' i c hkp).2 hw
    · rw [R.kind_other e] at hkp
      exact I.conv p i c hkp hw
  · intro c; rw [R.parents]; exact I.nodup c
  · intro c p i hm ho
    rw [R.parents] at hm
    rw [R.height, R.height]; exact I.hlt c p i hm ho
  · intro m hm ho
    rw [R.nec] at hm; rw [R.height]; exact I.hpos m hm ho
  · intro p k' ho; rw [R.nec]; exact I.lnec p k' ho
  · intro p k' ho; rw [R.nec]; exact I.unec p k' ho
  · intro m hq ho
    rw [R.inRch] at hq
    rw [R.heightInRch, R.height]; exact I.hgt m hq ho
  · intro m hq
    rw [R.inRch] at hq
    rw [R.nec]; exact I.qnec m hq
  · intro m ho hm hs
    have hne : m ≠ n := by intro e; rw [e, hop] at ho; cases ho
    rw [R.nec] at hm
    rw [R.staleOf_other hne] at hs
    rw [R.inRch]; exact I.queued m ho hm hs
  · intro m hq
    by_cases e : m = n
    · rw [e]; exact hst
    · rw [R.inRch] at hq
      rw [R.staleOf_other e]; exact I.qstale m hq
  · intro m ho; rw [R.size]; exact I.opLt m ho

end IncrVerif.Proofs.DriverH
