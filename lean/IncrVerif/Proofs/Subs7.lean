import IncrVerif.Proofs.Subs5
/-!
# Subscriptions, part 6b: the handler bookkeeping through the drain (`Hush`)
-/
namespace IncrVerif.Proofs.SubsH
open IncrVerif.Engine IncrVerif.Driver IncrVerif.Proofs IncrVerif.Proofs.Step IncrVerif.Proofs.Sched
open IncrVerif.Proofs.Quiet

/-! ## `maybe_change_value` -/

theorem PresHu.childChanged (env : Env) (fuel p c ci : Nat) (o : Option Val) :
    Step.Pres Hush (childChanged env fuel p c ci o) := by
  induction fuel generalizing p c ci o with
  | zero => unfold Engine.childChanged; qpres
  | succ fuel ih =>
    unfold Engine.childChanged
    qpres
    all_goals (apply Step.Pres.forIn; intro a b; qpres; exact ih _ _ _ _)
hush_leaf PresHu.childChanged

theorem PresHu.parentIterCanRecomputeNow (p c : Nat) :
    Step.Pres Hush (parentIterCanRecomputeNow p c) := by
  unfold Engine.parentIterCanRecomputeNow; qpres
hush_leaf PresHu.parentIterCanRecomputeNow

/-- the outcomes of `maybe_handle_after_stabilisation` -/
theorem PresHu.mhas_cases {n : Nat} {s s' : State} {r : Except Panic Unit}
    (h : (Engine.maybeHandleAfterStabilisation n).run.run s = (r, s')) :
    (s' = s ∧ (s.nodes.size ≤ n ∨ (s.nodeD n).numOnUpdateHandlers ≤ 0 ∨
      (s.nodeD n).inHandleAfterStab = true)) ∨
    (s' = hasMarked n s ∧ n < s.nodes.size ∧ (s.nodeD n).inHandleAfterStab = false) := by
  unfold Engine.maybeHandleAfterStabilisation at h
  rw [run_bind, run_getNode] at h
  cases hn : s.nodes[n]? with
  | none =>
    rw [hn] at h; cases h
    refine Or.inl ⟨rfl, Or.inl ?_⟩
    exact Nat.le_of_not_lt fun hlt => by rw [some_of_lt hlt] at hn; cases hn
  | some nd =>
    rw [hn] at h
    simp only at h
    split at h
    · rcases PresHu.has_cases h with ⟨rfl, hh⟩ | ⟨rfl, hlt, hf⟩
      · cases r with
        | ok u => exact Or.inl ⟨rfl, Or.inr (Or.inr (hh rfl).2)⟩
        | error e =>
          -- `handleAfterStabilisation` on an existing node never panics
          exfalso
          unfold Engine.handleAfterStabilisation at h
          rw [run_bind_ok (run_getNode_some hn)] at h
          split at h
          · rw [run_bind_modNode, run_modify] at h; cases h
          · rw [run_pure] at h; cases h
      · exact Or.inr ⟨rfl, hlt, hf⟩
    · rename_i hpos
      rw [run_pure] at h; cases h
      refine Or.inl ⟨rfl, Or.inr (Or.inl ?_)⟩
      rw [nodeD_of_some hn]
      exact Int.not_lt.1 hpos

/-- stamping `changedAt` and then `maybe_handle_after_stabilisation`, as one step -/
theorem Hush.touched_mhas {n : Nat} {s s1 : State} {r : Except Panic Unit}
    (h : (Engine.maybeHandleAfterStabilisation n).run.run (Step.touched n s) = (r, s1)) : Hush s s1 := by
  have hsz : (Step.touched n s).nodes.size = s.nodes.size := by simp [Step.touched]
  have hT : ∀ m, ((Step.touched n s).nodeD m).numOnUpdateHandlers = (s.nodeD m).numOnUpdateHandlers ∧
      ((Step.touched n s).nodeD m).inHandleAfterStab = (s.nodeD m).inHandleAfterStab := by
    intro m; rw [touched_nodeD]; split <;> exact ⟨rfl, rfl⟩
  have hC : ∀ m, ((Step.touched n s).nodeD m).changedAt ≠ (s.nodeD m).changedAt → n = m ∧ m < s.nodes.size := by
    intro m hne
    rw [touched_nodeD] at hne
    by_cases hm : n = m ∧ m < s.nodes.size
    · exact hm
    · rw [if_neg hm] at hne; exact absurd rfl hne
  have okT : HasOK s → HasOK (Step.touched n s) := fun H =>
    ⟨H.nodup, fun m => by rw [(hT m).2]; exact H.flag m⟩
  rcases PresHu.mhas_cases h with ⟨rfl, hc⟩ | ⟨rfl, hlt, hf⟩
  · refine ⟨rfl, fun m => (hT m).1, okT, fun _ h => h, fun H m hne hpos => ?_,
      [], rfl, fun _ h => by cases h⟩
    obtain ⟨rfl, hm⟩ := hC m hne
    rw [hsz, (hT n).1, (hT n).2] at hc
    rcases hc with hc | hc | hc
    · omega
    · omega
    · exact (H.flag n).2 hc
  · have hh := Hush.hasMarked hlt hf
    refine ⟨rfl, fun m => (hh.num m).trans (hT m).1, fun H => hh.ok (okT H),
      fun m hm => hh.mono m hm, fun H m hne hpos => ?_, [], rfl, fun _ h => by cases h⟩
    have hne' : ((Step.touched n s).nodeD m).changedAt ≠ (s.nodeD m).changedAt := by
      intro e
      apply hne
      rw [← e, PresHu.hasMarked_nodeD]; split <;> rfl
    obtain ⟨rfl, -⟩ := hC m hne'
    exact List.mem_append_right _ (List.mem_singleton.2 rfl)

/-- a bind whose first half is related from an earlier state -/
theorem PresHu.bind_from {R : State → State → Prop} [PreOrd R] {α β} {x : M α} {f : α → M β}
    {s0 s s' : State} {r : Except Panic β}
    (hx : ∀ r1 s1, x.run.run s = (r1, s1) → R s0 s1) (hf : ∀ a, Step.Pres R (f a))
    (h : (x >>= f).run.run s = (r, s')) : R s0 s' := by
  rw [run_bind] at h
  rcases hx' : x.run.run s with ⟨r1, s1⟩
  rw [hx'] at h
  have h1 := hx r1 s1 hx'
  cases r1 with
  | ok a => exact PreOrd.trans h1 ((hf a).h s1 r s' h)
  | error e => cases h; exact h1

theorem PresHu.maybeChangeValueManual (env fuel n o d b) :
    Step.Pres Hush (maybeChangeValueManual env fuel n o d b) := by
  constructor
  intro s r s' h
  cases d with
  | false =>
    rw [run_mcvm_false] at h; cases h; exact Hush.refl s
  | true =>
    unfold Engine.maybeChangeValueManual at h
    simp only [Bool.not_true, Bool.false_eq_true, if_false, run_bind_get, run_bind_modNode,
      run_bind_bumpCounter] at h
    refine PresHu.bind_from (s := Step.touched n s) (fun r1 s1 h1 => Hush.touched_mhas h1) ?_ h
    intro _
    qpres
    all_goals (apply Step.Pres.forIn; intro a b; qpres)
hush_leaf PresHu.maybeChangeValueManual

theorem PresHu.maybeChangeValue (env fuel n v) : Step.Pres Hush (maybeChangeValue env fuel n v) := by
  unfold Engine.maybeChangeValue; qpres

/-! ## `Hush` through the drain -/

theorem Hush.started (n : Nat) (s : State) : Hush s (Step.started n s) := by
  refine Hush.of_nodeD rfl rfl rfl fun m => ?_
  rw [started_nodeD]; split <;> exact ⟨rfl, rfl, rfl⟩

/-- a `recomputeOne` of the static fragment keeps the handler bookkeeping -/
theorem recomputeOne_hush {env : Env} {fuel n : Nat} {s s' : State} {r : Option Nat}
    (g : Graph env s) (hn : s.isNecessary n = true)
    (hvals : ∃ vals, plainVals s (kids (s.nodeD n).kind) = some vals)
    (h : (recomputeOne env fuel n).run.run s = (.ok r, s')) : Hush s s' := by
  obtain ⟨hlt, hv, hk, _, _⟩ := g.nec n hn
  have hnn := some_of_lt hlt
  obtain ⟨vals, hvals⟩ := hvals
  have hvo := g.valuesOf hn
  rw [hvals] at hvo
  have mcv := fun v S0 (h0 : (maybeChangeValue env fuel n v).run.run S0 = (.ok r, s')) =>
    (PresHu.maybeChangeValue env fuel n v).h S0 _ s' h0
  have hlog : ∀ (w : String) (m : Nat) (a : List Val) (res : String) (t : State),
      Hush t (Step.logged [.inv w m a res] t) := fun w m a res t =>
    Hush.logged _ t fun e he => by rw [List.mem_singleton] at he; rw [he]; trivial
  cases hkd : (s.nodeD n).kind with
  | const w =>
    rw [recomputeOne_const_run env fuel n s _ w hnn hv hkd] at h
    exact (Hush.started n s).trans (mcv _ _ h)
  | var c =>
    obtain ⟨vc, hvc⟩ := g.var n c hn hkd
    rw [recomputeOne_var_run env fuel n s _ c vc hnn hv hkd hvc] at h
    exact (Hush.started n s).trans (mcv _ _ h)
  | map f args =>
    rw [hkd] at hk hvo
    by_cases hf : f < fnZip
    · rw [recomputeOne_map_run env fuel n s _ f args vals hnn hv hkd hf hvo (hk.2 hf vals) g.pc] at h
      exact ((Hush.started n s).trans (hlog _ _ _ _ _)).trans (mcv _ _ h)
    · rw [recomputeOne_mapBuiltin_run env fuel n s _ f args vals hnn hv hkd hf hk.1 hvo] at h
      exact (Hush.started n s).trans (mcv _ _ h)
  | fold f init cs =>
    rw [hkd] at hvo
    rw [recomputeOne_fold_run env fuel n s _ f init cs vals hnn hv hkd hvo g.pc] at h
    exact ((Hush.started n s).trans (hlog _ _ _ _ _)).trans (mcv _ _ h)
  | mapRef _ _ => rw [hkd] at hk; exact hk.elim
  | mapWithOld _ _ => rw [hkd] at hk; exact hk.elim
  | bindLhsChange _ => rw [hkd] at hk; exact hk.elim
  | bindMain _ _ => rw [hkd] at hk; exact hk.elim
  | expert _ => rw [hkd] at hk; exact hk.elim

theorem recompute_hush {env : Env} : ∀ (fuel n : Nat) (s s' : State), Inv env s (some n) →
    (recompute env fuel n).run.run s = (.ok (), s') → Hush s s' := by
  intro fuel
  induction fuel with
  | zero => intro n s s' _ h; unfold recompute at h; cases h
  | succ fuel ih =>
    intro n s s' I h
    unfold recompute at h
    obtain ⟨r, s1, h1, h2⟩ := bind_ok_inv h
    have c1 := recomputeOne_hush I.graph (I.cur n rfl).1 I.kids_values h1
    obtain ⟨I1, -, -⟩ := recomputeOne_inv I h1
    cases r with
    | none => obtain ⟨-, rfl⟩ := pure_ok_inv h2; exact c1
    | some p => exact c1.trans (ih p s1 s' I1 h2)

theorem pop_hush {s s1 : State} {n : Nat} (hi : HeapInv s)
    (hr : rchRemoveMin.run.run s = (.ok (some n), s1)) : Hush s s1 := by
  obtain ⟨-, -, -, hs1, -⟩ := rchRemoveMin_inv hi hr
  rw [hs1]
  exact (Hush.modNode s n (fun x => { x with heightInRch := -1 }) (fun _ => ⟨rfl, rfl, rfl⟩)).trans
    (Hush.of_same rfl rfl rfl rfl)

/-- the drain keeps the handler bookkeeping -/
theorem drainHeap_hush {env : Env} : ∀ (fuel : Nat) (s s' : State), DrainInv env s →
    (drainHeap env fuel).run.run s = (.ok (), s') → Hush s s' := by
  intro fuel
  induction fuel with
  | zero => intro s s' _ h; unfold drainHeap at h; cases h
  | succ fuel ih =>
    intro s s' I h
    unfold drainHeap at h
    obtain ⟨r, s1, h1, h2⟩ := bind_ok_inv h
    cases r with
    | none =>
      obtain ⟨-, rfl⟩ := pure_ok_inv h2
      obtain ⟨rfl, -⟩ := rchRemoveMin_inv I.heap h1
      exact Hush.refl _
    | some n =>
      obtain ⟨u, s2, h3, h4⟩ := bind_ok_inv h2
      obtain ⟨I1, -⟩ := pop_inv I h1
      obtain ⟨I2, -⟩ := recompute_inv fuel n s1 s2 I1 h3
      exact ((pop_hush I.heap h1).trans (recompute_hush fuel n s1 s2 I1 h3)).trans (ih s2 s' I2 h4)

end IncrVerif.Proofs.SubsH
