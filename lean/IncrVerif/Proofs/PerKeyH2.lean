import IncrVerif.Proofs.PerKeyH1
/-!
# Per-key operators over whole histories, part 1: the fragment of states

`PFrag env s`: every node is valid, top-level, default cutoff, of a kind of the fragment (static kinds with pure user
functions, the built-in `zip`/identity maps, change detectors `map (fnPerKey + op) [a]`, expert nodes); expert nodes
and expert records name each other; every record is a per-key record (`pk ≠ none`, closure id `0`) that counts no
invalid children.  (Stage 1: no key is ever removed, so no node is ever invalidated.)
-/
namespace IncrVerif.Proofs.PerKeyH
open IncrVerif.Engine IncrVerif.Driver IncrVerif.Proofs IncrVerif.Proofs.Step IncrVerif.Proofs.Sched
open IncrVerif.Proofs.ExpertH IncrVerif.Proofs.EffH

/-- kinds of the per-key fragment -/
def PKind (env : Env) : Kind → Prop
  | .const _ => True
  | .var _ => True
  | .map f _ => (f < fnZip ∧ ∀ vals, env.fnEff f vals = []) ∨ f = fnZip ∨ f = fnIdent ∨ fnPerKey ≤ f
  | .fold f _ _ => f < xBase
  | .expert _ => True
  | _ => False

structure PFrag (env : Env) (s : State) : Prop where
  pc : s.panicCountdown = none
  kind : ∀ n, n < s.nodes.size → PKind env (s.nodeD n).kind
  valid : ∀ n, n < s.nodes.size → (s.nodeD n).valid = true
  cutoff : ∀ n, n < s.nodes.size → (s.nodeD n).cutoff = .eq
  top : ∀ n, n < s.nodes.size → (s.nodeD n).createdIn = .top
  force : ∀ n, n < s.nodes.size → (s.nodeD n).forceNecessary = false
  /-- expert nodes and expert records name each other -/
  xrec : ∀ n e, n < s.nodes.size → (s.nodeD n).kind = .expert e → ∃ er, s.experts[e]? = some er ∧ er.node = n
  xnode : ∀ (e : Nat) (er : ExpertRec), s.experts[e]? = some er →
    er.node < s.nodes.size ∧ (s.nodeD er.node).kind = .expert e
  xok : ∀ (e : Nat) (er : ExpertRec), s.experts[e]? = some er →
    er.pk.isSome = true ∧ er.numInvalidChildren = 0 ∧ er.f = 0
  scope : s.currentScope = .top

end IncrVerif.Proofs.PerKeyH
