import IncrVerif.Proofs.NestH43
/-! # Nested binds (F2): histories of the fragment -/
namespace IncrVerif.Proofs.NestH
open IncrVerif.Engine IncrVerif.Driver IncrVerif.Proofs IncrVerif.Proofs.Quiet IncrVerif.Proofs.BindH

/-- a history of fragment F2 (`T` = number of handles created so far) -/
def HistF2 (env : Env) : Nat → List Action → Prop
  | _, [] => True
  | T, a :: as => ActionF2 env T a ∧ HistF2 env (match a with | .create _ => T + 1 | _ => T) as

end IncrVerif.Proofs.NestH
