import IncrVerif.Proofs.BindH13
/-!
# Nested binds, pure part a: `StepL2` — what a run of a change detector does when closures may create inner binds

Differences to `BindH.StepL`: the bind table may GROW (the closure creates inner binds) and the records of OTHER binds may lose their list of
registered nodes (an inner bind of the dying generation is invalidated: `invalidateNode` on its main node empties the list); the nodes that die are
the valid nodes BELOW-CONNECTED to the change detector through scope edges (`Below s m n`: nodes of scope `b`, nodes of the scopes of inner binds of
the dying generation, …), not only nodes created in scope `.bind b`.
-/
namespace IncrVerif.Proofs.NestH
open IncrVerif.Engine IncrVerif.Proofs IncrVerif.Proofs.Step IncrVerif.Proofs.Sched
open IncrVerif.Proofs.BindH

/-- two bind records agree in everything but the list of registered nodes -/
structure BSame (x y : BindRec) : Prop where
  lhs : y.lhs = x.lhs
  body : y.body = x.body
  lhsChange : y.lhsChange = x.lhsChange
  main : y.main = x.main
  rhs : y.rhs = x.rhs

theorem BSame.refl (x : BindRec) : BSame x x := ⟨rfl, rfl, rfl, rfl, rfl⟩

/-- `s'` is `s` after a successful `recomputeOne env fuel n` on the change detector `n` of bind `b` (record `br` before, `br'` after). -/
structure StepL2 (env : Env) (n b : Nat) (br br' : BindRec) (r : Option Nat) (s s' : State) : Prop where
  bind : s.binds[b]? = some br
  bind' : s'.binds[b]? = some br'
  lc : br.lhsChange = n ∧ br'.lhsChange = n ∧ br'.main = br.main ∧ br'.lhs = br.lhs ∧ br'.body = br.body
  /-- the other old records: unchanged but for the list of registered nodes; fully unchanged if the bind's main node is still valid -/
  bindsOld : s.binds.size ≤ s'.binds.size ∧ ∀ b' br0, b' ≠ b → s.binds[b']? = some br0 →
    ∃ br1, s'.binds[b']? = some br1 ∧ BSame br0 br1 ∧ ((s'.nodeD br0.main).valid = true → br1 = br0)
  grow : s.nodes.size ≤ s'.nodes.size
  vars : s'.vars = s.vars
  stabNum : s'.stabNum = s.stabNum
  /-- structure and heap of the new state, wholesale -/
  graph' : BGraph env s'
  heap' : HeapInv s'
  stamps' : Stamps s'
  qstale' : ∀ m, (s'.nodeD m).inRch = true → s'.isStale m = true
  pending' : ∀ m, s'.isNecessary m = true → s'.isStale m = true → (s'.nodeD m).inRch = true ∨ r = some m
  /-- the change detector itself -/
  self : (s'.nodeD n).recomputedAt = s.stabNum ∧ (s'.nodeD n).changedAt = s.stabNum ∧
    (s'.nodeD n).value = some .unit ∧ (s'.nodeD n).valid = true ∧ (s'.nodeD n).kind = (s.nodeD n).kind ∧
    s'.children n = s.children n ∧ (s'.nodeD n).createdIn = (s.nodeD n).createdIn
  /-- old nodes: died (invalid now; they were valid and strictly above `n` through scope/child edges), or unchanged in what evaluation reads -/
  old : ∀ m, m < s.nodes.size → m ≠ n →
    ((s.nodeD m).valid = true ∧ (s'.nodeD m).valid = false ∧ Below s m n) ∨
    ((s'.nodeD m).valid = (s.nodeD m).valid ∧ (s'.nodeD m).kind = (s.nodeD m).kind ∧
      (s'.nodeD m).createdIn = (s.nodeD m).createdIn ∧
      (s'.nodeD m).value = (s.nodeD m).value ∧ (s'.nodeD m).recomputedAt = (s.nodeD m).recomputedAt ∧
      (s'.nodeD m).changedAt = (s.nodeD m).changedAt ∧
      (m ≠ br.main → s'.children m = s.children m))
  /-- new nodes: never computed, created in scope `b` -/
  new : ∀ m, s.nodes.size ≤ m → m < s'.nodes.size →
    (s'.nodeD m).recomputedAt = -1 ∧ (s'.nodeD m).createdIn = .bind b ∧
      ((s'.nodeD m).valid = true → s'.isStale m = true)
  /-- the main node: has the change detector as a child, before and after -/
  main : br.main < s.nodes.size ∧ n ∈ s.children br.main ∧ n ∈ s'.children br.main ∧ br.main ≠ n
  /-- the main node may be handed over, and only when nothing queued is lower -/
  ret : ∀ p, r = some p → p = br.main ∧ (s'.nodeD p).inRch = false ∧ s'.isNecessary p = true ∧
    ∀ m, (s'.nodeD m).inRch = true → (s'.nodeD p).height ≤ (s'.nodeD m).height

/-- the flat contract implies the nested one -/
theorem StepL.toL2 {env : Env} {n b : Nat} {br br' : BindRec} {r : Option Nat} {s s' : State}
    (R : StepL env n b br br' r s s') : StepL2 env n b br br' r s s' where
  bind := R.bind
  bind' := R.bind'
  lc := R.lc
  bindsOld := ⟨Nat.le_of_eq R.bindsOther.1.symm, fun b' br0 hb h0 =>
    ⟨br0, by rw [R.bindsOther.2 b' hb]; exact h0, BSame.refl _, fun _ => rfl⟩⟩
  grow := R.grow
  vars := R.vars
  stabNum := R.stabNum
  graph' := R.graph'
  heap' := R.heap'
  stamps' := R.stamps'
  qstale' := R.qstale'
  pending' := R.pending'
  self := R.self
  old m hm hne := by
    rcases R.old m hm hne with ⟨h1, h2, h3⟩ | h
    · refine Or.inl ⟨h1, h2, ?_⟩
      have := Edge.scope h1 h3 R.bind
      rw [R.lc.1] at this
      exact Below.step this (Below.refl _)
    · exact Or.inr h
  new := R.new
  main := R.main
  ret := R.ret

end IncrVerif.Proofs.NestH
