import IncrVerif.Proofs.PerKeyH2
import IncrVerif.Proofs.Ownership
/-!
# A necessary node is alive

`perKeyDriver` calls `expertMakeStale node` only `if (← get).isAlive node`.  During a stabilisation of our fragment a
necessary node is alive: it has an observer in use (a root) or a parent entry, whose parent is necessary and holds it
strongly; parents are strictly higher in a bounded rank.
-/
namespace IncrVerif.Proofs.PerKeyH
open IncrVerif.Engine IncrVerif.Proofs IncrVerif.Proofs.Step IncrVerif.Proofs.Sched IncrVerif.Proofs.Own

/-- every child edge is a strong reference (whether or not the node is valid) -/
theorem children_sub_refsOf (s : State) (p c : Nat) (h : c ∈ s.children p) : c ∈ s.refsOf p := by
  unfold State.children at h
  unfold State.refsOf
  unfold Node.kind? at h
  cases hv : (s.nodeD p).valid with
  | false => simp [hv] at h
  | true =>
    simp only [hv, if_true] at h
    cases hk : (s.nodeD p).kind with
    | const v => simp [hk] at h
    | var v => simp [hk] at h
    | map f args => simpa [hk] using h
    | mapRef f i => simpa [hk] using h
    | mapWithOld f i => simpa [hk] using h
    | fold f i cs => simpa [hk] using h
    | bindLhsChange b =>
      simp only [hk] at h ⊢
      cases hb : s.binds[b]? with
      | none => simp [hb] at h
      | some br =>
        simp only [hb, List.mem_singleton] at h
        simp [h]
    | bindMain b lc =>
      simp only [hk] at h ⊢
      cases hb : s.binds[b]? with
      | none =>
        simp only [hb, List.mem_singleton] at h
        simp [h]
      | some br =>
        simp only [hb, List.mem_cons] at h
        rcases h with h | h
        · simp [h]
        · exact List.mem_cons_of_mem _ (List.mem_cons_of_mem _ h)
    | expert e =>
      simp only [hk] at h ⊢
      cases he : s.experts[e]? with
      | none => simp [he] at h
      | some er => simpa [he] using h

/-- an observer that is in use or disallowed makes its node a root -/
theorem observer_root (s : State) (o : Nat) (ob : ObsRec) (h : s.observers[o]? = some ob)
    (hst : ob.state = .inUse ∨ ob.state = .disallowed) : ob.node ∈ s.roots := by
  unfold State.roots
  apply List.mem_append_left
  apply List.mem_append_right
  rw [List.mem_filterMap]
  refine ⟨ob, ?_, ?_⟩
  · rw [Array.mem_toList_iff]
    exact Array.mem_of_getElem? h
  · rcases hst with h1 | h1 <;> simp [h1]

/-- A NECESSARY NODE IS ALIVE.  Hypotheses: no `forceNecessary`; a parent entry is a child edge of a necessary parent
(`BindH.BGraph.parent`); parents are strictly higher in a rank bounded by `K` on parents; a listed observer is in use
or disallowed (`QR.ObsInv.mem`, left to right). -/
theorem nec_alive {s : State} {rk : Nat → Nat} {K : Nat}
    (hforce : ∀ m, (s.nodeD m).forceNecessary = false)
    (hpar : ∀ c p i, (p, i) ∈ (s.nodeD c).parents → s.isNecessary p = true ∧ (s.children p)[i]? = some c)
    (hrk : ∀ c p i, (p, i) ∈ (s.nodeD c).parents → rk c < rk p ∧ rk p ≤ K)
    (hobs : ∀ m o, o ∈ (s.nodeD m).observers →
      ∃ ob, s.observers[o]? = some ob ∧ ob.node = m ∧ (ob.state = .inUse ∨ ob.state = .disallowed))
    {n : Nat} (hn : s.isNecessary n = true) : s.isAlive n = true := by
  rw [isAlive_iff]
  suffices H : ∀ d n, K + 1 - rk n ≤ d → s.isNecessary n = true → Reach s n from H _ n (Nat.le_refl _) hn
  intro d
  induction d with
  | zero =>
    intro n hd hn
    -- `rk n ≥ K + 1`: no parent entry possible
    unfold State.isNecessary Node.isNecessary at hn
    rw [hforce n, Bool.or_false] at hn
    cases hps : (s.nodeD n).parents with
    | cons pi rest =>
      obtain ⟨p, i⟩ := pi
      have := hrk n p i (by rw [hps]; exact List.mem_cons_self)
      omega
    | nil =>
      rw [hps] at hn
      cases hos : (s.nodeD n).observers with
      | nil => rw [hos] at hn; simp at hn
      | cons o rest =>
        obtain ⟨ob, h1, h2, h3⟩ := hobs n o (by rw [hos]; exact List.mem_cons_self)
        exact h2 ▸ ReachG.root (observer_root s o ob h1 h3)
  | succ d ih =>
    intro n hd hn
    have hn0 := hn
    unfold State.isNecessary Node.isNecessary at hn
    rw [hforce n, Bool.or_false] at hn
    cases hps : (s.nodeD n).parents with
    | cons pi rest =>
      obtain ⟨p, i⟩ := pi
      have hmem : (p, i) ∈ (s.nodeD n).parents := by rw [hps]; exact List.mem_cons_self
      have hr := hrk n p i hmem
      obtain ⟨hpn, hch⟩ := hpar n p i hmem
      have hp : Reach s p := ih p (by omega) hpn
      exact ReachG.step hp (children_sub_refsOf s p n (List.mem_of_getElem? hch))
    | nil =>
      rw [hps] at hn
      cases hos : (s.nodeD n).observers with
      | nil => rw [hos] at hn; simp at hn
      | cons o rest =>
        obtain ⟨ob, h1, h2, h3⟩ := hobs n o (by rw [hos]; exact List.mem_cons_self)
        exact h2 ▸ ReachG.root (observer_root s o ob h1 h3)

/-- the form the loop of `perKeyDriver` needs -/
theorem parents_alive {s : State} {rk : Nat → Nat} {K : Nat}
    (hforce : ∀ m, (s.nodeD m).forceNecessary = false)
    (hpar : ∀ c p i, (p, i) ∈ (s.nodeD c).parents → s.isNecessary p = true ∧ (s.children p)[i]? = some c)
    (hrk : ∀ c p i, (p, i) ∈ (s.nodeD c).parents → rk c < rk p ∧ rk p ≤ K)
    (hobs : ∀ m o, o ∈ (s.nodeD m).observers →
      ∃ ob, s.observers[o]? = some ob ∧ ob.node = m ∧ (ob.state = .inUse ∨ ob.state = .disallowed))
    {p : Nat} (hp : (s.nodeD p).parents ≠ []) : s.isAlive p = true := by
  apply nec_alive hforce hpar hrk hobs
  unfold State.isNecessary Node.isNecessary
  cases h : (s.nodeD p).parents with
  | nil => exact absurd h hp
  | cons a b => rfl

/-! ## instances: heights as the rank -/

theorem exists_bound (f : Nat → Nat) (n : Nat) : ∃ K, ∀ m, m < n → f m ≤ K := by
  induction n with
  | zero => exact ⟨0, fun m h => absurd h (Nat.not_lt_zero _)⟩
  | succ n ih =>
    obtain ⟨K, hK⟩ := ih
    refine ⟨max K (f n), fun m hm => ?_⟩
    rcases Nat.lt_succ_iff_lt_or_eq.mp hm with h | h
    · exact Nat.le_trans (hK m h) (Nat.le_max_left _ _)
    · subst h; exact Nat.le_max_right _ _

theorem nodeD_out_of_range (s : State) (n : Nat) (h : s.nodes.size ≤ n) : s.nodeD n = default := by
  simp [State.nodeD, Array.getElem?_eq_none h]

/-- a necessary node exists -/
theorem nec_lt (s : State) (n : Nat) (hn : s.isNecessary n = true) : n < s.nodes.size := by
  apply Classical.byContradiction
  intro hge
  have := nodeD_out_of_range s n (Nat.le_of_not_lt hge)
  unfold State.isNecessary at hn
  rw [this] at hn
  exact absurd hn (by decide)

/-- the fragment has no `forceNecessary` node -/
theorem PFrag.force_all {env : Env} {s : State} (hf : PFrag env s) (m : Nat) :
    (s.nodeD m).forceNecessary = false := by
  by_cases h : m < s.nodes.size
  · exact hf.force m h
  · rw [nodeD_out_of_range s m (Nat.le_of_not_lt h)]; rfl

/-- with the structural invariant of `BindH`: the rank is the height -/
theorem nec_alive_BGraph {env : Env} {s : State} (hg : BindH.BGraph env s)
    (hforce : ∀ m, (s.nodeD m).forceNecessary = false)
    (hobs : ∀ m o, o ∈ (s.nodeD m).observers →
      ∃ ob, s.observers[o]? = some ob ∧ ob.node = m ∧ (ob.state = .inUse ∨ ob.state = .disallowed))
    {n : Nat} (hn : s.isNecessary n = true) : s.isAlive n = true := by
  obtain ⟨K, hK⟩ := exists_bound (fun m => ((s.nodeD m).height + 1).toNat) s.nodes.size
  refine nec_alive (rk := fun m => ((s.nodeD m).height + 1).toNat) (K := K) hforce hg.parent ?_ hobs hn
  intro c p i hmem
  obtain ⟨hpn, hch⟩ := hg.parent c p i hmem
  obtain ⟨hcn, _, hlt⟩ := hg.child p hpn i c hch
  have h0 := (hg.nec c hcn).2
  refine ⟨?_, hK p (nec_lt s p hpn)⟩
  show ((s.nodeD c).height + 1).toNat < ((s.nodeD p).height + 1).toNat
  omega

/-- the statement in the fragment: `PFrag`, `BGraph` and the observer bookkeeping `ObsInv` of `ExpertH11` -/
theorem nec_alive_frag {env env' : Env} {s : State} {pn pd : List Nat} (hf : PFrag env' s)
    (hg : BindH.BGraph env s) (ho : ExpertH.QR.ObsInv s pn pd)
    {n : Nat} (hn : s.isNecessary n = true) : s.isAlive n = true :=
  nec_alive_BGraph hg hf.force_all (fun m o h => (ho.mem m o).mp h) hn

theorem parents_alive_frag {env env' : Env} {s : State} {pn pd : List Nat} (hf : PFrag env' s)
    (hg : BindH.BGraph env s) (ho : ExpertH.QR.ObsInv s pn pd)
    {p : Nat} (hp : (s.nodeD p).parents ≠ []) : s.isAlive p = true := by
  apply nec_alive_frag hf hg ho
  unfold State.isNecessary Node.isNecessary
  cases h : (s.nodeD p).parents with
  | nil => exact absurd h hp
  | cons a b => rfl

end IncrVerif.Proofs.PerKeyH
