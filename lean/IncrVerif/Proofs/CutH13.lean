import IncrVerif.Proofs.CutH12
-- Port of Proofs/Quiet7.lean to ARBITRARY cutoffs (scratch name Q7); overview in Props/C06History.lean
/-!
# Part 6: the linking cascade keeps the structural invariant
-/
namespace IncrVerif.Proofs.CutH
open IncrVerif.Engine IncrVerif.Proofs IncrVerif.Proofs.Step IncrVerif.Proofs.Sched

def BNSpec (env : Env) (fuel : Nat) : Prop :=
  ∀ n s s' op, (becameNecessary env fuel n).run.run s = (.ok (), s') → GInv env s op →
    op n = .linking 0 → (∀ m, op m ≠ .closed → n ≤ m) →
    (∀ p i, (p, i) ∈ (s.nodeD n).parents → op p ≠ .closed) →
    GInv env s' (upd op n .closed) ∧ Above n s s' ∧ LRel (· = n) s s'

def APSpec (env : Env) (fuel : Nat) : Prop :=
  ∀ c idx p s s' op, (addParentWithoutAdjustingHeights env fuel c idx p).run.run s = (.ok (), s') →
    GInv env s op → op p = .linking idx → (kids (s.nodeD p).kind)[idx]? = some c →
    (∀ m, op m ≠ .closed → c < m) →
    GInv env s' (upd op p (.linking (idx + 1))) ∧ Above c s s' ∧ LRel (fun _ => False) s s' ∧
      s'.isNecessary c = true

theorem ap_step (env : Env) (fuel : Nat) (ih : BNSpec env fuel) : APSpec env (fuel + 1) := by
  intro c idx p s s' op h I hop hk hlow
  have hp : p < s.nodes.size := I.opLt p (by rw [hop]; exact fun e => by cases e)
  have hcp : c < p := I.kid_lt hk
  have hc : c < s.nodes.size := by omega
  have hcl : op c = .closed := by
    cases e : op c with
    | closed => rfl
    | linking k => have := hlow c (by rw [e]; exact fun e => by cases e); omega
    | unlinking k => have := hlow c (by rw [e]; exact fun e => by cases e); omega
  unfold addParentWithoutAdjustingHeights at h
  rw [run_bind_get] at h
  replace h := bind_dassert_inv h
  rw [run_bind_get] at h
  dsimp only at h
  unfold addParent at h
  obtain ⟨s1, hs1, h⟩ := bind_modNode_inv h
  have U : NodeUpd c (fParents ((s.nodeD c).parents ++ [(p, idx)])) s s1 := by
    rw [hs1]; exact NodeUpd.modify' hc rfl
  have hab1 : Above c s s1 := by rw [hs1]; exact Above.modify c _ s c (Nat.le_refl _)
  have hl1 : LRel (fun _ => False) s s1 := by
    rw [hs1]
    refine ⟨CFrame.modNode s c _ (fun _ => rfl), rfl, fun m x hx => ?_, fun m _ _ => ?_⟩
    · rw [nodeD_modify]; split
      · rename_i e; rw [← e.1] at hx ⊢; exact List.mem_append_left _ hx
      · exact hx
    · rw [nodeD_modify]; split <;> rfl
  have hnec1 : s1.isNecessary c = true := by
    rw [isNecessary_iff]; left
    rw [U.self.parents]; simp [fParents]
  obtain ⟨nd, hnd, h⟩ := bind_getNode_inv h
  have hvalid : nd.valid = true := by
    have : s1.nodeD c = nd := nodeD_of_some hnd
    rw [← this, U.self.valid]; exact (I.node hc).valid
  simp only [hvalid, Bool.not_true, Bool.false_eq_true, if_false] at h
  -- the tail: the parent is not an expert node
  have tail : ∀ (t t' : State), CFrame s t → t.nodes.size = s.nodes.size →
      (do let x ← getNode p
          match x.kind? with
          | some (.expert e) => runEdgeCallback env e idx
          | _ => pure ()).run.run t = (.ok (), t') → t' = t := by
    intro t t' hf hsz ht
    obtain ⟨pn, hpn, ht⟩ := bind_getNode_inv ht
    have hpk : pn.kind? = some (s.nodeD p).kind := by
      have e : t.nodeD p = pn := nodeD_of_some hpn
      have := hf.node p
      simp only [nodeKey, Prod.mk.injEq] at this
      rw [← e, Node.kind?, this.2.2.2.2.1, this.1, (I.node hp).valid]; rfl
    rw [hpk] at ht
    have hsk := (I.node hp).kind
    cases hkd : (s.nodeD p).kind <;> rw [hkd] at ht hsk <;>
      first | exact (pure_ok_inv ht).2 | exact hsk.elim
  cases hwas : s.isNecessary c with
  | true =>
    rw [hwas] at h
    simp only [Bool.not_true, Bool.false_eq_true, if_false] at h
    -- (D15) the child is not a `map_ref` node
    obtain ⟨cn, hcn, h⟩ := bind_getNode_inv h
    have hcq : cn.kind? = some (s.nodeD c).kind := by
      have e : s1.nodeD c = cn := nodeD_of_some hcn
      rw [← e, Node.kind?, U.self.valid, U.self.kind]
      show (if (s.nodeD c).valid = true then some (s.nodeD c).kind else none) = _
      rw [(I.node hc).valid]; rfl
    rw [hcq] at h
    have hsk := (I.node hc).kind
    have h' : (do let x ← getNode p
                  match x.kind? with
                  | some (.expert e) => runEdgeCallback env e idx
                  | _ => pure ()).run.run s1 = (.ok (), s') := by
      cases hkd : (s.nodeD c).kind <;> rw [hkd] at h hsk <;> first | exact h | exact hsk.elim
    have e := tail s1 s' hl1.fr U.size h'
    subst e
    exact ⟨I.addEdge_nec U hop hk hwas hcl, hab1, hl1, hnec1⟩
  | false =>
    rw [hwas] at h
    simp only [Bool.not_false, if_true] at h
    obtain ⟨_, s2, h2, h⟩ := bind_ok_inv h
    obtain ⟨I1, hpar1⟩ := I.addEdge_open U hop hk hwas hcl
    have hne : c ≠ p := by omega
    obtain ⟨I2, hab2, hl2⟩ := ih c s1 s2 _ h2 I1 (upd_self _ _ _)
      (by
        intro m hm
        by_cases e : m = c
        · omega
        · rw [upd_other _ _ _ e] at hm
          by_cases e2 : m = p
          · omega
          · rw [upd_other _ _ _ e2] at hm
            exact Nat.le_of_lt (hlow m hm))
      (by
        intro q i hq
        rw [hpar1] at hq
        simp only [List.mem_singleton, Prod.mk.injEq] at hq
        rw [hq.1, upd_other _ _ _ (Ne.symm hne), upd_self]
        exact fun e => by cases e)
    have e := tail s2 s' (hl1.fr.trans hl2.fr) (hl2.fr.size.trans U.size) h
    subst e
    rw [upd_upd, upd_eq_self _ c .closed (by rw [upd_other _ _ _ hne]; exact hcl)] at I2
    refine ⟨I2, hab1.trans hab2, ?_, ?_⟩
    · -- `c` was not necessary in `s`, so its height is not constrained by the relation from `s`
      refine ⟨hl1.fr.trans hl2.fr, hl2.pinv.trans hl1.pinv, fun m x hx => hl2.par m x (hl1.par m x hx),
        fun m _ hm => ?_⟩
      have e : m ≠ c := fun e => by rw [e, hwas] at hm; cases hm
      exact (hl2.hgt m e (hl1.nec hm)).trans (hl1.hgt m (fun h => h) hm)
    · exact hl2.nec hnec1


/-! ## steps that the invariant does not see -/

/-- a step that changes only fields of node `n` that neither the invariant nor the relations read -/
structure Irrel (n : Nat) (s s' : State) : Prop where
  same : SameG s s'
  above : Above n s s'
  rel : ∀ X, LRel X s s'

theorem Irrel.refl (n : Nat) (s : State) : Irrel n s s := ⟨SameG.refl s, Above.refl n s, fun X => LRel.refl X s⟩
theorem Irrel.trans {n : Nat} {a b c : State} (h1 : Irrel n a b) (h2 : Irrel n b c) : Irrel n a c :=
  ⟨h1.same.trans h2.same, h1.above.trans h2.above, fun X => (h1.rel X).trans (h2.rel X)⟩

theorem Irrel.of_nodes {n : Nat} {s s' : State} (h1 : s'.nodes = s.nodes) (h2 : stateKey s' = stateKey s)
    (h3 : s'.panicCountdown = s.panicCountdown) (h4 : s'.propagateInvalidity = s.propagateInvalidity)
    (h5 : s'.rch = s.rch) : Irrel n s s' := by
  have hk := h2
  simp only [stateKey, Prod.mk.injEq] at hk
  exact ⟨SameG.of_nodes h1 h3 hk.2.2.2.2.2.1 h5 hk.1, Above.of_nodes n h1, fun X => LRel.of_nodes h1 h2 h3 h4⟩

theorem Irrel.marked (n : Nat) (s : State) : Irrel n s (Sched.hasMarked n s) := by
  have hnd : ∀ m, ((Sched.hasMarked n s).nodeD m) =
      if n = m ∧ m < s.nodes.size then { s.nodeD m with inHandleAfterStab := true } else s.nodeD m := by
    intro m
    show ({ s with nodes := s.nodes.modify n _ } : State).nodeD m = _
    rw [nodeD_modify]
  refine ⟨⟨rfl, rfl, by simp [Sched.hasMarked], rfl, rfl, fun m => ?_⟩, ?_, fun X => ⟨⟨by simp [Sched.hasMarked], fun m => ?_, rfl, id⟩,
    rfl, fun m x hx => ?_, fun m _ _ => ?_⟩⟩
  · rw [hnd]; split
    · exact ⟨rfl, rfl, rfl, rfl, rfl, rfl, rfl, rfl, rfl, rfl, rfl⟩
    · exact NodeG.refl _
  · intro m hm
    rw [hnd, if_neg (fun e => by omega)]
  · rw [hnd]; split <;> rfl
  · rw [hnd]; split
    · exact hx
    · exact hx
  · rw [hnd]; split <;> rfl

theorem Irrel.mhas {n : Nat} {s s' : State} {r : Except Panic Unit}
    (h : (maybeHandleAfterStabilisation n).run.run s = (r, s')) : Irrel n s s' := by
  rcases mhas_cases h with e | e
  · rw [e]; exact Irrel.refl n s
  · rw [e]; exact Irrel.marked n s

def heightSet (n : Nat) (h : Int) (s : State) : State :=
  { s with maxHeightSeen := max s.maxHeightSeen h, nodes := s.nodes.modify n fun x => { x with height := h } }

/-- `setHeight n h` that returns -/
theorem setHeight_ok_upd {n : Nat} {h : Int} {s s' : State} {u : Unit} (hn : n < s.nodes.size)
    (hr : (setHeight n h).run.run s = (.ok u, s')) :
    NodeUpd n (fHeight h) s s' ∧ Above n s s' ∧ LRel (· = n) s s' ∧ (s'.nodeD n).height = h ∧
      (∀ m, m ≠ n → s'.nodeD m = s.nodeD m) := by
  rw [setHeight_run] at hr
  split at hr
  · cases hr
  · have e : s' = heightSet n h s := by cases hr; rfl
    rw [e]
    have hnd : ∀ m, (heightSet n h s).nodeD m =
        if n = m ∧ m < s.nodes.size then { s.nodeD m with height := h } else s.nodeD m := by
      intro m
      show ({ s with nodes := s.nodes.modify n _ } : State).nodeD m = _
      rw [nodeD_modify]
    refine ⟨⟨hn, rfl, rfl, by simp [heightSet], rfl, rfl, fun m hm => ?_, ?_⟩, ?_,
      ⟨⟨by simp [heightSet], fun m => ?_, rfl, id⟩, rfl,
      fun m x hx => ?_, fun m hm _ => ?_⟩, ?_, fun m hm => ?_⟩
    · rw [hnd, if_neg (fun e => hm e.1.symm)]; exact NodeG.refl _
    · rw [hnd, if_pos ⟨rfl, hn⟩]; exact NodeG.refl _
    · intro m hm; rw [hnd, if_neg (fun e => by omega)]
    · rw [hnd]; split <;> rfl
    · rw [hnd]; split
      · exact hx
      · exact hx
    · rw [hnd, if_neg (fun e => hm e.1.symm)]
    · rw [hnd, if_pos ⟨rfl, hn⟩]
    · rw [hnd, if_neg (fun e => hm e.1.symm)]

theorem markMapRefUnknown_static {env : Env} {fuel n : Nat} {s s' : State} {u : Unit}
    (hn : n < s.nodes.size) (hv : (s.nodeD n).valid = true) (hk : StaticKind env (s.nodeD n).kind)
    (h : (markMapRefUnknown fuel n).run.run s = (.ok u, s')) : s' = s := by
  cases fuel with
  | zero => unfold markMapRefUnknown at h; cases h
  | succ fuel =>
    unfold markMapRefUnknown at h
    obtain ⟨nd, hnd, h⟩ := bind_getNode_inv h
    have e : s.nodeD n = nd := nodeD_of_some hnd
    have hq : nd.kind? = some (s.nodeD n).kind := by rw [← e, Node.kind?, hv]; rfl
    rw [hq] at h
    cases hkd : (s.nodeD n).kind <;> rw [hkd] at h hk <;>
      first | exact (pure_ok_inv h).2 | exact hk.elim

/-- the relations through a successful `rchInsert` -/
theorem rchInsert_rel {n : Nat} {s s' : State} {u : Unit} (hr : (rchInsert n).run.run s = (.ok u, s')) :
    ∃ nd, s.nodes[n]? = some nd ∧ 0 ≤ nd.height ∧ nd.height ≤ s.rch.maxAllowed ∧
      s' = inserted n nd.height s ∧ Above n s s' ∧ ∀ X, LRel X s s' := by
  obtain ⟨nd, hnd, h0, hmax, e⟩ := rchInsert_ok_inv hr
  refine ⟨nd, hnd, h0, hmax, e, ?_, fun X => ⟨(PresF.rchInsert n).h _ _ _ hr, ?_, ?_, ?_⟩⟩
  · rw [e]; intro m hm; rw [inserted_nodeD, if_neg (fun e => by omega)]
  · rw [e]; rfl
  · rw [e]; intro m x hx; rw [inserted_nodeD]; split
    · exact hx
    · exact hx
  · rw [e]; intro m _ _; rw [inserted_nodeD]; split <;> rfl

theorem scopeIsNecessary_top_run (s : State) : (scopeIsNecessary .top).run.run s = (.ok true, s) := rfl
theorem scopeHeight_top_run (s : State) : (scopeHeight .top).run.run s = (.ok 0, s) := rfl

theorem bn_step (env : Env) (fuel : Nat) (ih : APSpec env fuel) : BNSpec env (fuel + 1) := by
  intro n s s' op h I hop hlow hpar
  have hn : n < s.nodes.size := I.opLt n (by rw [hop]; exact fun e => by cases e)
  have sn := I.node hn
  unfold becameNecessary at h
  obtain ⟨nd, hnd, h⟩ := bind_getNode_inv h
  have hndD : s.nodeD n = nd := nodeD_of_some hnd
  have htop : nd.createdIn = .top := by rw [← hndD]; exact sn.top
  rw [htop, run_bind_ok (scopeIsNecessary_top_run s)] at h
  simp only [Bool.not_true, Bool.and_false, Bool.false_eq_true, if_false] at h
  obtain ⟨s0, hs0, h⟩ := bind_modify_inv h
  obtain ⟨_, s1, h1, h⟩ := bind_ok_inv h
  rw [run_bind_ok (scopeHeight_top_run s1)] at h
  obtain ⟨_, s2, h2, h⟩ := bind_ok_inv h
  obtain ⟨nd2, hnd2, h⟩ := bind_getNode_inv h
  rw [run_bind_get] at h
  -- the prefix: counters, handler bookkeeping, first height
  have R0 : Irrel n s s0 := by rw [hs0]; exact Irrel.of_nodes rfl rfl rfl rfl rfl
  have R1 : Irrel n s s1 := R0.trans (Irrel.mhas h1)
  have I1 : GInv env s1 op := I.congr R1.same
  have hn1 : n < s1.nodes.size := by rw [R1.same.size]; exact hn
  have hpar1 : ∀ p i, (p, i) ∈ (s1.nodeD n).parents → op p ≠ .closed := by
    intro p i hp; rw [(R1.same.node n).parents] at hp; exact hpar p i hp
  obtain ⟨U2, hab2, hl2, hh2, hoth2⟩ := setHeight_ok_upd hn1 h2
  have hopn : op n ≠ .closed := by rw [hop]; exact fun e => by cases e
  have I2 : GInv env s2 op := I1.setHeight_open U2 hopn hpar1
  have hn2 : n < s2.nodes.size := by rw [U2.size]; exact hn1
  have hnd2D : s2.nodeD n = nd2 := nodeD_of_some hnd2
  have hh0 : nd2.height = 0 + 1 := by rw [← hnd2D]; exact hh2
  have hcs : s2.children n = kids (s2.nodeD n).kind := I2.children hn2
  obtain ⟨b, s3, h3, h⟩ := bind_ok_inv h
  -- the loop
  have hloop := forIn_ok_inv _ (s2.children n)
    (fun j (b : Int × Nat) t => b.2 = j ∧ GInv env t (upd op n (.linking j)) ∧
      (∀ m, n ≤ m → t.nodeD m = s2.nodeD m) ∧ LRel (fun _ => False) s2 t ∧ 1 ≤ b.1 ∧
      ∀ i c, i < j → (s2.children n)[i]? = some c → (t.nodeD c).height < b.1)
    (by
      intro j c b t r t' hj ⟨hb2, It, hsame, hrel, hb1, hlt⟩ hbody
      obtain ⟨_, t1, ha, hbody⟩ := bind_ok_inv hbody
      obtain ⟨x, hx, hbody⟩ := bind_getNode_inv hbody
      have hkj : (kids (t.nodeD n).kind)[b.2]? = some c := by
        rw [hsame n (Nat.le_refl _), ← hcs, hb2]; exact hj
      have hcn : c < n := It.kid_lt hkj
      obtain ⟨It1, hab, hl, hnecc⟩ := ih c b.2 n t t1 _ ha It (by rw [upd_self, hb2]) hkj
        (by
          intro m hm
          by_cases e : m = n
          · omega
          · rw [upd_other _ _ _ e] at hm; have := hlow m hm; omega)
      rw [upd_upd, hb2] at It1
      have hxD : t1.nodeD c = x := nodeD_of_some hx
      have hstep : ∀ h' : Int, (b.1 ≤ h' ∧ x.height < h') →
          (b.2 = j → True) → (j + 1 = j + 1) ∧ GInv env t1 (upd op n (.linking (j + 1))) ∧
          (∀ m, n ≤ m → t1.nodeD m = s2.nodeD m) ∧ LRel (fun _ => False) s2 t1 ∧ 1 ≤ h' ∧
          ∀ i c', i < j + 1 → (s2.children n)[i]? = some c' → (t1.nodeD c').height < h' := by
        intro h' ⟨hle, hxl⟩ _
        refine ⟨rfl, It1, fun m hm => (hab m (by omega)).trans (hsame m hm), hrel.trans hl, by omega, ?_⟩
        intro i c' hi hc'
        by_cases e : i = j
        · rw [e, hj] at hc'
          cases hc'
          rw [hxD]; exact hxl
        · have hij : i < j := by omega
          have hk' : (kids (t.nodeD n).kind)[i]? = some c' := by
            rw [hsame n (Nat.le_refl _), ← hcs]; exact hc'
          have hmem := It.conv n i c' hk' ((wants_linking (upd_self _ _ _)).2 hij)
          rw [hl.hgt c' (fun h => h) (nec_of_mem_parents hmem)]
          have := hlt i c' hij hc'
          omega
      split at hbody
      · rename_i hge
        obtain ⟨hr, ht'⟩ := pure_ok_inv hbody
        subst ht'
        refine ⟨_, hr, ?_⟩
        have := hstep (x.height + 1) ⟨by omega, by omega⟩ (fun _ => trivial)
        simpa [hb2] using this
      · rename_i hge
        obtain ⟨hr, ht'⟩ := pure_ok_inv hbody
        subst ht'
        refine ⟨_, hr, ?_⟩
        have := hstep b.1 ⟨by omega, by omega⟩ (fun _ => trivial)
        simpa [hb2] using this)
    (s2.children n) 0 (nd2.height, 0) s2 b s3 (by simp) (Nat.zero_le _)
    ⟨rfl, by rw [upd_eq_self _ _ _ hop]; exact I2, fun _ _ => rfl, LRel.refl _ _, by rw [hh0]; omega,
      fun i c hi _ => by omega⟩ h3
  obtain ⟨hb2, I3, hsame3, hrel3, hb1, hlt3⟩ := hloop
  -- the final height
  obtain ⟨_, s4, h4, h⟩ := bind_ok_inv h
  have hn3 : n < s3.nodes.size := by rw [hrel3.fr.size]; exact hn2
  obtain ⟨U4, hab4, hl4, hh4, hoth4⟩ := setHeight_ok_upd hn3 h4
  have hpar3 : ∀ p i, (p, i) ∈ (s3.nodeD n).parents →
      upd op n (.linking (s2.children n).length) p ≠ .closed := by
    intro p i hp
    have hpn : n < p := I3.par_lt hp
    rw [upd_other _ _ _ (by omega)]
    rw [hsame3 n (Nat.le_refl _), U2.self.parents] at hp
    exact hpar1 p i hp
  have I4 : GInv env s4 (upd op n (.linking (s2.children n).length)) :=
    I3.setHeight_open U4 (by rw [upd_self]; exact fun e => by cases e) hpar3
  have hn4 : n < s4.nodes.size := by rw [U4.size]; exact hn3
  have hkind4 : (s4.nodeD n).kind = (s2.nodeD n).kind := by
    rw [U4.self.kind]; show (s3.nodeD n).kind = _; rw [hsame3 n (Nat.le_refl _)]
  have hpar4 : ∀ p i, (p, i) ∈ (s4.nodeD n).parents →
      upd op n (.linking (s2.children n).length) p ≠ .closed := by
    intro p i hp; rw [U4.self.parents] at hp; exact hpar3 p i hp
  have hhh : ∀ (i c : Nat), (kids (s4.nodeD n).kind)[i]? = some c →
      (s4.nodeD c).height < (s4.nodeD n).height := by
    intro i c hc
    rw [hkind4, ← hcs] at hc
    have hi : i < (s2.children n).length := by
      rcases Nat.lt_or_ge i (s2.children n).length with h | h
      · exact h
      · rw [List.getElem?_eq_none h] at hc; cases hc
    have hcn : c < n := by
      have : (kids (s2.nodeD n).kind)[i]? = some c := by rw [← hcs]; exact hc
      exact I2.kid_lt this
    rw [hh4, hoth4 c (by omega)]
    exact hlt3 i c hi hc
  have hklen : (kids (s4.nodeD n).kind).length ≤ (s2.children n).length := by rw [hkind4, ← hcs]; exact Nat.le_refl _
  have h04 : 0 ≤ (s4.nodeD n).height := by rw [hh4]; omega
  rw [run_bind_get] at h
  replace h := bind_dassert_inv h
  replace h := bind_dassert_inv h
  rw [I4.isStale hn4] at h
  -- relations so far
  have hA : Above n s s4 := ((R1.above.trans hab2).trans (fun m hm => hsame3 m (by omega))).trans hab4
  have hL : LRel (· = n) s s4 :=
    (((R1.rel _).trans hl2).trans (hrel3.mono (fun _ h => h.elim))).trans hl4
  -- the tail: not an expert node
  have tail : ∀ (t t' : State), CFrame s4 t → t.nodes.size = s4.nodes.size →
      (do let x ← getNode n
          match x.kind? with
          | some (.expert e) => observabilityChange e true
          | _ => pure ()).run.run t = (.ok (), t') → t' = t := by
    intro t t' hf hsz ht
    obtain ⟨pn, hpn, ht⟩ := bind_getNode_inv ht
    have hpk : pn.kind? = some (s4.nodeD n).kind := by
      have e : t.nodeD n = pn := nodeD_of_some hpn
      have := hf.node n
      simp only [nodeKey, Prod.mk.injEq] at this
      rw [← e, Node.kind?, this.2.2.2.2.1, this.1, (I4.node hn4).valid]; rfl
    rw [hpk] at ht
    have hsk := (I4.node hn4).kind
    cases hkd : (s4.nodeD n).kind <;> rw [hkd] at ht hsk <;>
      first | exact (pure_ok_inv ht).2 | exact hsk.elim
  cases hst : staleOf s4 n with
  | false =>
    rw [hst] at h
    simp only [Bool.false_eq_true, if_false] at h
    have e := tail s4 s' (CFrame.refl _) rfl h
    subst e
    have I5 := I4.close_link_fresh (upd_self _ _ _) hklen hpar4 hhh h04 hst
    rw [upd_upd] at I5
    exact ⟨I5, hA, hL⟩
  | true =>
    rw [hst] at h
    simp only [if_true] at h
    obtain ⟨_, s5, h5, h⟩ := bind_ok_inv h
    obtain ⟨_, s6, h6, h⟩ := bind_ok_inv h
    have e5 : s5 = s4 := markMapRefUnknown_static hn4 (I4.node hn4).valid (I4.node hn4).kind h5
    rw [e5] at h6
    obtain ⟨nd6, hnd6, -, hmax6, e6, hab6, hl6⟩ := rchInsert_rel h6
    have hnd6D : s4.nodeD n = nd6 := nodeD_of_some hnd6
    have e := tail s6 s' (hl6 (· = n)).fr (hl6 (· = n)).fr.size h
    rw [e]
    have I5 := I4.close_link_stale (upd_self _ _ _) hklen hpar4 hhh h04 (by rw [hnd6D]; exact hmax6) hst
    rw [upd_upd, hnd6D, ← e6] at I5
    exact ⟨I5, hA.trans hab6, hL.trans (hl6 _)⟩

theorem link_spec (env : Env) (fuel : Nat) : BNSpec env fuel ∧ APSpec env fuel := by
  induction fuel with
  | zero =>
    constructor
    · intro n s s' op h; unfold becameNecessary at h; cases h
    · intro c idx p s s' op h; unfold addParentWithoutAdjustingHeights at h; cases h
  | succ fuel ih => exact ⟨bn_step env fuel ih.2, ap_step env fuel ih.1⟩

/-- **The linking cascade.** A successful `becameNecessary n` on a node that has just become necessary
(labelled `.linking 0`: none of its child edges is recorded yet), all of whose recorded parents are open and which
is the lowest open node, closes `n`: the structural invariant holds with `n` closed; nodes above `n` are
untouched; parent lists only grew; necessary nodes other than `n` kept their height. -/
theorem becameNecessary_spec {env : Env} {fuel n : Nat} {s s' : State} {op : Nat → Op}
    (h : (becameNecessary env fuel n).run.run s = (.ok (), s')) (I : GInv env s op)
    (hop : op n = .linking 0) (hlow : ∀ m, op m ≠ .closed → n ≤ m)
    (hpar : ∀ p i, (p, i) ∈ (s.nodeD n).parents → op p ≠ .closed) :
    GInv env s' (upd op n .closed) ∧ Above n s s' ∧ LRel (· = n) s s' :=
  (link_spec env fuel).1 n s s' op h I hop hlow hpar

end IncrVerif.Proofs.CutH
