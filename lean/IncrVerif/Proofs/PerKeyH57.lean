import IncrVerif.Proofs.PerKeyH33
import IncrVerif.Proofs.PerKeyH3
/-!
# twin simulation, part 12: templates of the per-key fragment (`TInstrOK` of PK2) are twin-invariant
-/
namespace IncrVerif.Proofs.PerKeyH
open IncrVerif.Engine IncrVerif.Driver IncrVerif.Proofs IncrVerif.Proofs.Step IncrVerif.Proofs.Sched
open IncrVerif.Proofs.ExpertH IncrVerif.Proofs.EffH

theorem TwInstr.of_ok {env : Env} {i : Instr} (h : TInstrOK env i) : TwInstr i := by
  cases i <;> simp only [TInstrOK] at h <;> simp only [TwInstr]
  case map f args => exact Nat.lt_trans h.1 fnZip_lt_fnPerKey

theorem TSim.elabInstr_ok {env : Env} (loc : List Nat) (lhsVal : Val) {i : Instr} (hR : TInstrOK env i) :
    TSim (Engine.elabInstr loc lhsVal i) (Engine.elabInstr loc lhsVal i) :=
  TSim.elabInstr loc lhsVal (TwInstr.of_ok hR)

theorem TSim.elabTemplateBase_ok {env : Env} (t : Template) (lhsVal : Val) (init : List Nat)
    (ht : ∀ i, i ∈ t.instrs → TInstrOK env i) :
    TSim (Engine.elabTemplateBase t lhsVal init) (Engine.elabTemplateBase t lhsVal init) :=
  TSim.elabTemplateBase t lhsVal init fun i hi => TwInstr.of_ok (ht i hi)

end IncrVerif.Proofs.PerKeyH
