import IncrVerif.Proofs.NestH75
import IncrVerif.Proofs.StepStamp
/-!
# C03, combined fragment, part 2: no function of the engine changes the SCOPE FIELD `createdIn` of an existing node or removes a bind record (mechanical port of `NestH122`, `kind ↦ createdIn`)

`CKey s s'` is kept by EVERY function reachable from `stabilise` (and from the other API actions), whatever the outcome — a purely syntactic frame in the `Pres` style of
`Proofs/Step.lean` (port of the ladder of `NestH122`, `BKey ↦ CKey`).
-/
open IncrVerif.Engine IncrVerif.Proofs IncrVerif.Proofs.Step
namespace IncrVerif.Proofs.GenF.CK

/-- existing nodes keep their scope field `createdIn`, existing bind records stay (closure and left-hand side kept) -/
structure CKey (s s' : State) : Prop where
  size : s.nodes.size ≤ s'.nodes.size
  cin : ∀ m, m < s.nodes.size → (s'.nodeD m).createdIn = (s.nodeD m).createdIn
  binds : ∀ (b : Nat) (br : BindRec), s.binds[b]? = some br →
    ∃ br', s'.binds[b]? = some br' ∧ br'.body = br.body ∧ br'.lhs = br.lhs

instance : PreOrd CKey where
  refl _ := ⟨Nat.le_refl _, fun _ _ => rfl, fun b br h => ⟨br, h, rfl, rfl⟩⟩
  trans h1 h2 := by
    refine ⟨Nat.le_trans h1.size h2.size, fun m hm => ?_, fun b br h => ?_⟩
    · rw [h2.cin m (Nat.lt_of_lt_of_le hm h1.size), h1.cin m hm]
    · obtain ⟨br1, k1, k2, k3⟩ := h1.binds b br h
      obtain ⟨br2, k4, k5, k6⟩ := h2.binds b br1 k1
      exact ⟨br2, k4, k5.trans k2, k6.trans k3⟩

theorem CKey.of_eq {s s' : State} (hn : s'.nodes = s.nodes) (hb : s'.binds = s.binds) : CKey s s' :=
  ⟨by rw [hn]; exact Nat.le_refl _, fun m _ => by simp only [State.nodeD, hn], fun b br h => ⟨br, by rw [hb]; exact h, rfl, rfl⟩⟩

theorem CKey.of_push_node {s s' : State} {nd : Node} (hn : s'.nodes = s.nodes.push nd) (hb : s'.binds = s.binds) : CKey s s' := by
  refine ⟨by rw [hn, Array.size_push]; omega, fun m hm => ?_, fun b br h => ⟨br, by rw [hb]; exact h, rfl, rfl⟩⟩
  simp only [State.nodeD, hn]
  rw [Array.getElem?_push, if_neg (by omega)]

theorem CKey.of_push_bind {s s' : State} {x : BindRec} (hn : s'.nodes = s.nodes) (hb : s'.binds = s.binds.push x) : CKey s s' := by
  refine ⟨by rw [hn]; exact Nat.le_refl _, fun m _ => by simp only [State.nodeD, hn], fun b br h => ⟨br, ?_, rfl, rfl⟩⟩
  have hlt : b < s.binds.size := (Array.getElem?_eq_some_iff.1 h).1
  rw [hb, Array.getElem?_push, if_neg (by omega)]; exact h

macro_rules
  | `(tactic| qleaf) => `(tactic| ((with_reducible apply Step.Pres.modify); intro _; exact CKey.of_push_bind rfl rfl))
macro_rules
  | `(tactic| qleaf) => `(tactic| ((with_reducible apply Step.Pres.modify); intro _; exact CKey.of_push_node rfl rfl))
macro_rules
  | `(tactic| qleaf) => `(tactic| ((with_reducible apply Step.Pres.modify); intro _; exact CKey.of_eq rfl rfl))

theorem PresCK.modNode (n : Nat) (f : Node → Node) (hf : ∀ x, (f x).createdIn = x.createdIn) : Step.Pres CKey (modNode n f) := by
  unfold Engine.modNode
  apply Step.Pres.modify
  intro s
  refine ⟨by show s.nodes.size ≤ (s.nodes.modify n f).size; rw [Array.size_modify]; exact Nat.le_refl _, fun m _ => ?_,
    fun b br h => ⟨br, h, rfl, rfl⟩⟩
  rw [nodeD_modify]
  split
  · exact hf _
  · rfl
macro_rules
  | `(tactic| qleaf) => `(tactic| ((with_reducible apply PresCK.modNode); intro _; rfl))

theorem PresCK.modBind (b : Nat) (f : BindRec → BindRec) (hf : ∀ x, (f x).body = x.body ∧ (f x).lhs = x.lhs) :
    Step.Pres CKey (modBind b f) := by
  unfold Engine.modBind
  apply Step.Pres.modify
  intro s
  refine ⟨Nat.le_refl _, fun m _ => rfl, fun b' br h => ?_⟩
  show ∃ br', (s.binds.modify b f)[b']? = some br' ∧ _
  rw [Array.getElem?_modify]
  by_cases e : b = b'
  · rw [if_pos e, h]
    exact ⟨f br, rfl, (hf br).1, (hf br).2⟩
  · rw [if_neg e]
    exact ⟨br, h, rfl, rfl⟩
macro_rules
  | `(tactic| qleaf) => `(tactic| ((with_reducible apply PresCK.modBind); intro _; exact ⟨rfl, rfl⟩))

/-- register a `Step.Pres CKey` lemma as a leaf -/
macro "ck_leaf " n:ident : command =>
  `(macro_rules | `(tactic| qleaf) => `(tactic| with_reducible apply $n))

theorem PresCK.tick : Step.Pres CKey tick := by unfold Engine.tick; qpres
ck_leaf PresCK.tick
theorem PresCK.logEv (e) : Step.Pres CKey (logEv e) := by unfold Engine.logEv; qpres
ck_leaf PresCK.logEv
theorem PresCK.modExpert (b f) : Step.Pres CKey (modExpert b f) := by unfold Engine.modExpert; qpres
ck_leaf PresCK.modExpert
theorem PresCK.modVar (b f) : Step.Pres CKey (modVar b f) := by unfold Engine.modVar; qpres
ck_leaf PresCK.modVar
theorem PresCK.modObs (b f) : Step.Pres CKey (modObs b f) := by unfold Engine.modObs; qpres
ck_leaf PresCK.modObs
theorem PresCK.rchLink (n) : Step.Pres CKey (rchLink n) := by unfold Engine.rchLink; qpres
ck_leaf PresCK.rchLink
theorem PresCK.rchUnlink (n) : Step.Pres CKey (rchUnlink n) := by unfold Engine.rchUnlink; qpres
ck_leaf PresCK.rchUnlink
theorem PresCK.rchInsert (n) : Step.Pres CKey (rchInsert n) := by unfold Engine.rchInsert; qpres
ck_leaf PresCK.rchInsert
theorem PresCK.rchRemove (n) : Step.Pres CKey (rchRemove n) := by unfold Engine.rchRemove; qpres
ck_leaf PresCK.rchRemove
theorem PresCK.rchMinHeight : Step.Pres CKey rchMinHeight := by unfold Engine.rchMinHeight; qpres
ck_leaf PresCK.rchMinHeight
theorem PresCK.rchIncreaseHeight (n) : Step.Pres CKey (rchIncreaseHeight n) := by
  unfold Engine.rchIncreaseHeight; qpres
ck_leaf PresCK.rchIncreaseHeight
theorem PresCK.setHeight (n h) : Step.Pres CKey (setHeight n h) := by unfold Engine.setHeight; qpres
ck_leaf PresCK.setHeight
theorem PresCK.ahhAddUnlessMem (n) : Step.Pres CKey (ahhAddUnlessMem n) := by
  unfold Engine.ahhAddUnlessMem; qpres
ck_leaf PresCK.ahhAddUnlessMem
theorem PresCK.ahhRemoveMin : Step.Pres CKey ahhRemoveMin := by unfold Engine.ahhRemoveMin; qpres
ck_leaf PresCK.ahhRemoveMin
theorem PresCK.ensureHeightRequirement (a b c d) : Step.Pres CKey (ensureHeightRequirement a b c d) := by
  unfold Engine.ensureHeightRequirement; qpres
ck_leaf PresCK.ensureHeightRequirement


macro_rules | `(tactic| qleaf) => `(tactic| apply Pres.forIn)

theorem PresCK.adjustHeightsLoop (oc op fuel) : Step.Pres CKey (adjustHeightsLoop oc op fuel) := by
  induction fuel with
  | zero => unfold Engine.adjustHeightsLoop; qpres
  | succ fuel ih => unfold Engine.adjustHeightsLoop; qpres; all_goals exact ih
ck_leaf PresCK.adjustHeightsLoop
theorem PresCK.adjustHeights (oc op fuel) : Step.Pres CKey (adjustHeights oc op fuel) := by
  unfold Engine.adjustHeights; qpres
ck_leaf PresCK.adjustHeights
theorem PresCK.addParent (a b c) : Step.Pres CKey (addParent a b c) := by unfold Engine.addParent; qpres
ck_leaf PresCK.addParent
theorem PresCK.removeParent (a b c) : Step.Pres CKey (removeParent a b c) := by
  unfold Engine.removeParent; qpres
ck_leaf PresCK.removeParent
theorem PresCK.handleAfterStabilisation (n) : Step.Pres CKey (handleAfterStabilisation n) := by
  unfold Engine.handleAfterStabilisation; qpres
ck_leaf PresCK.handleAfterStabilisation
theorem PresCK.maybeHandleAfterStabilisation (n) : Step.Pres CKey (maybeHandleAfterStabilisation n) := by
  unfold Engine.maybeHandleAfterStabilisation; qpres
ck_leaf PresCK.maybeHandleAfterStabilisation
theorem PresCK.shouldCutoff (env n o v) : Step.Pres CKey (shouldCutoff env n o v) := by
  unfold Engine.shouldCutoff; qpres
ck_leaf PresCK.shouldCutoff
theorem PresCK.edgeOnChange (env e edge) : Step.Pres CKey (edgeOnChange env e edge) := by
  unfold Engine.edgeOnChange; qpres
ck_leaf PresCK.edgeOnChange
theorem PresCK.runEdgeCallback (env e i) : Step.Pres CKey (runEdgeCallback env e i) := by
  unfold Engine.runEdgeCallback; qpres
ck_leaf PresCK.runEdgeCallback
theorem PresCK.observabilityChange (e b) : Step.Pres CKey (observabilityChange e b) := by
  unfold Engine.observabilityChange; qpres
ck_leaf PresCK.observabilityChange
theorem PresCK.markMapRefUnknown (fuel n) : Step.Pres CKey (markMapRefUnknown fuel n) := by
  induction fuel generalizing n with
  | zero => unfold Engine.markMapRefUnknown; qpres
  | succ fuel ih => unfold Engine.markMapRefUnknown; qpres; all_goals exact ih _
ck_leaf PresCK.markMapRefUnknown

set_option maxHeartbeats 600000 in
theorem PresCK.necessary (env : Env) (fuel : Nat) :
    (∀ n, Step.Pres CKey (becameNecessary env fuel n)) ∧
    (∀ c i p, Step.Pres CKey (addParentWithoutAdjustingHeights env fuel c i p)) := by
  induction fuel with
  | zero =>
    constructor
    · intro n; unfold Engine.becameNecessary; qpres
    · intro c i p; unfold Engine.addParentWithoutAdjustingHeights; qpres
  | succ fuel ih =>
    constructor
    · intro n; unfold Engine.becameNecessary; qpres; all_goals exact ih.2 _ _ _
    · intro c i p; unfold Engine.addParentWithoutAdjustingHeights; qpres; all_goals exact ih.1 _
theorem PresCK.becameNecessary (env fuel n) : Step.Pres CKey (becameNecessary env fuel n) :=
  (PresCK.necessary env fuel).1 n
ck_leaf PresCK.becameNecessary
theorem PresCK.addParentWithoutAdjustingHeights (env fuel c i p) :
    Step.Pres CKey (addParentWithoutAdjustingHeights env fuel c i p) := (PresCK.necessary env fuel).2 c i p
ck_leaf PresCK.addParentWithoutAdjustingHeights

set_option maxHeartbeats 600000 in
theorem PresCK.unnecessary (fuel : Nat) :
    (∀ n, Step.Pres CKey (becameUnnecessary fuel n)) ∧ (∀ n, Step.Pres CKey (checkIfUnnecessary fuel n)) ∧
    (∀ n, Step.Pres CKey (removeChildren fuel n)) := by
  induction fuel with
  | zero =>
    refine ⟨?_, ?_, ?_⟩
    · intro n; unfold Engine.becameUnnecessary; qpres
    · intro n; unfold Engine.checkIfUnnecessary; qpres
    · intro n; unfold Engine.removeChildren; qpres
  | succ fuel ih =>
    refine ⟨?_, ?_, ?_⟩
    · intro n; unfold Engine.becameUnnecessary; qpres; all_goals exact ih.2.2 _
    · intro n; unfold Engine.checkIfUnnecessary; qpres; all_goals exact ih.1 _
    · intro n; unfold Engine.removeChildren; qpres; all_goals exact ih.2.1 _
theorem PresCK.becameUnnecessary (fuel n) : Step.Pres CKey (becameUnnecessary fuel n) :=
  (PresCK.unnecessary fuel).1 n
ck_leaf PresCK.becameUnnecessary
theorem PresCK.checkIfUnnecessary (fuel n) : Step.Pres CKey (checkIfUnnecessary fuel n) :=
  (PresCK.unnecessary fuel).2.1 n
ck_leaf PresCK.checkIfUnnecessary
theorem PresCK.removeChildren (fuel n) : Step.Pres CKey (removeChildren fuel n) :=
  (PresCK.unnecessary fuel).2.2 n
ck_leaf PresCK.removeChildren


theorem PresCK.invalidateNode (fuel n) : Step.Pres CKey (invalidateNode fuel n) := by
  induction fuel generalizing n with
  | zero => unfold Engine.invalidateNode; qpres
  | succ fuel ih => unfold Engine.invalidateNode; qpres; all_goals exact ih _
ck_leaf PresCK.invalidateNode

theorem PresCK.propagateInvalidity (fuel) : Step.Pres CKey (propagateInvalidity fuel) := by
  induction fuel with
  | zero => unfold Engine.propagateInvalidity; qpres
  | succ fuel ih => unfold Engine.propagateInvalidity; qpres; all_goals exact ih
ck_leaf PresCK.propagateInvalidity
theorem PresCK.stateAddParent (env fuel c i p) : Step.Pres CKey (stateAddParent env fuel c i p) := by
  unfold Engine.stateAddParent; qpres
ck_leaf PresCK.stateAddParent
theorem PresCK.changeChildBindRhs (env fuel m o nw i) :
    Step.Pres CKey (changeChildBindRhs env fuel m o nw i) := by
  unfold Engine.changeChildBindRhs; qpres
ck_leaf PresCK.changeChildBindRhs

/-! ### expert API -/
theorem PresCK.assertRunningIsChild (n name) : Step.Pres CKey (assertRunningIsChild n name) := by
  unfold Engine.assertRunningIsChild; qpres
ck_leaf PresCK.assertRunningIsChild
theorem PresCK.expertMakeStale (n) : Step.Pres CKey (expertMakeStale n) := by
  unfold Engine.expertMakeStale; qpres
ck_leaf PresCK.expertMakeStale
theorem PresCK.expertAddDependency (env fuel n c cb) :
    Step.Pres CKey (expertAddDependency env fuel n c cb) := by
  unfold Engine.expertAddDependency; qpres
ck_leaf PresCK.expertAddDependency
theorem PresCK.swapEdgeIndices (n c1 i1 c2 i2) : Step.Pres CKey (swapEdgeIndices n c1 i1 c2 i2) := by
  unfold Engine.swapEdgeIndices; qpres
ck_leaf PresCK.swapEdgeIndices
theorem PresCK.expertRemoveDependency (fuel n dep) : Step.Pres CKey (expertRemoveDependency fuel n dep) := by
  unfold Engine.expertRemoveDependency; qpres
ck_leaf PresCK.expertRemoveDependency
theorem PresCK.expertInvalidate (fuel n) : Step.Pres CKey (expertInvalidate fuel n) := by
  unfold Engine.expertInvalidate; qpres
ck_leaf PresCK.expertInvalidate

/-! ### node creation, var writes, effects -/
theorem PresCK.bumpCounter (f : Counters → Counters) : Step.Pres CKey (bumpCounter f) := by
  unfold Engine.bumpCounter; qpres
ck_leaf PresCK.bumpCounter
theorem PresCK.createNode (k sc c) : Step.Pres CKey (createNode k sc c) := by
  unfold Engine.createNode; qpres
ck_leaf PresCK.createNode
theorem PresCK.createVar (v sc) : Step.Pres CKey (createVar v sc) := by unfold Engine.createVar; qpres
ck_leaf PresCK.createVar
theorem PresCK.createBind (b l) : Step.Pres CKey (createBind b l) := by unfold Engine.createBind; qpres
ck_leaf PresCK.createBind
set_option maxHeartbeats 1000000 in
theorem PresCK.elabInstr (loc v i) : Step.Pres CKey (elabInstr loc v i) := by
  cases i with
  | mapOp op => cases op <;> (simp only [Engine.elabInstr]; qpres)
  | _ => simp only [Engine.elabInstr]; qpres
ck_leaf PresCK.elabInstr
theorem PresCK.elabTemplateBase (t v init) : Step.Pres CKey (elabTemplateBase t v init) := by
  unfold Engine.elabTemplateBase; qpres
ck_leaf PresCK.elabTemplateBase
theorem PresCK.memoCall (env m key) : Step.Pres CKey (memoCall env m key) := by
  unfold Engine.memoCall; qpres
ck_leaf PresCK.memoCall
theorem PresCK.elabInstrM (env loc v i) : Step.Pres CKey (elabInstrM env loc v i) := by
  unfold Engine.elabInstrM; qpres
ck_leaf PresCK.elabInstrM
theorem PresCK.elabTemplate (env t v) : Step.Pres CKey (elabTemplate env t v) := by
  unfold Engine.elabTemplate; qpres
ck_leaf PresCK.elabTemplate
theorem PresCK.didSetVarWhileNotStabilising (v) : Step.Pres CKey (didSetVarWhileNotStabilising v) := by
  unfold Engine.didSetVarWhileNotStabilising; qpres
ck_leaf PresCK.didSetVarWhileNotStabilising
theorem PresCK.writeVar (v f b) : Step.Pres CKey (writeVar v f b) := by unfold Engine.writeVar; qpres
ck_leaf PresCK.writeVar
theorem PresCK.disallowFutureUse (o) : Step.Pres CKey (disallowFutureUse o) := by
  unfold Engine.disallowFutureUse; qpres
ck_leaf PresCK.disallowFutureUse
/-- dropping a `Var` handle touches `vars` and `deadVars` only -/
theorem PresCK.dropVarHandle (v) : Step.Pres CKey (dropVarHandle v) := by
  unfold Engine.dropVarHandle; qpres
ck_leaf PresCK.dropVarHandle
theorem PresCK.runEffectBasic (env e) : Step.Pres CKey (runEffectBasic env e) := by
  unfold Engine.runEffectBasic; qpres
ck_leaf PresCK.runEffectBasic
theorem PresCK.runEffects (env fuel effs arg) : Step.Pres CKey (runEffects env fuel effs arg) := by
  unfold Engine.runEffects; qpres
ck_leaf PresCK.runEffects


/-! ### per-key operators, operator closures -/
theorem PresCK.expertValue (env e d sl) : Step.Pres CKey (expertValue env e d sl) := by
  unfold Engine.expertValue; qpres
ck_leaf PresCK.expertValue
theorem PresCK.withOldEvents (env g n σ old x new did) :
    Step.Pres CKey (withOldEvents env g n σ old x new did) := by
  unfold Engine.withOldEvents; qpres
ck_leaf PresCK.withOldEvents
set_option maxHeartbeats 1000000 in
theorem PresCK.perKeyDriver (env fuel op m) : Step.Pres CKey (perKeyDriver env fuel op m) := by
  unfold Engine.perKeyDriver; qpres
ck_leaf PresCK.perKeyDriver

/-! ### notifications, `maybeChangeValue`, `recomputeOne` -/
theorem PresCK.childChanged (env fuel p c ci o) : Step.Pres CKey (childChanged env fuel p c ci o) := by
  induction fuel generalizing p c ci o with
  | zero => unfold Engine.childChanged; qpres
  | succ fuel ih => unfold Engine.childChanged; qpres; all_goals exact ih _ _ _ _
ck_leaf PresCK.childChanged
theorem PresCK.parentIterCanRecomputeNow (p c) : Step.Pres CKey (parentIterCanRecomputeNow p c) := by
  unfold Engine.parentIterCanRecomputeNow; qpres
ck_leaf PresCK.parentIterCanRecomputeNow
theorem PresCK.maybeChangeValueManual (env fuel n o d b) :
    Step.Pres CKey (maybeChangeValueManual env fuel n o d b) := by
  unfold Engine.maybeChangeValueManual; qpres
ck_leaf PresCK.maybeChangeValueManual
theorem PresCK.maybeChangeValue (env fuel n v) : Step.Pres CKey (maybeChangeValue env fuel n v) := by
  unfold Engine.maybeChangeValue; qpres
ck_leaf PresCK.maybeChangeValue


set_option maxHeartbeats 1000000 in
theorem PresCK.recomputeOne (env fuel n) : Step.Pres CKey (recomputeOne env fuel n) := by
  unfold Engine.recomputeOne; qpres
ck_leaf PresCK.recomputeOne

theorem PresCK.recompute (env fuel n) : Step.Pres CKey (recompute env fuel n) := by
  induction fuel generalizing n with
  | zero => unfold Engine.recompute; qpres
  | succ fuel ih => unfold Engine.recompute; qpres; all_goals exact ih _
ck_leaf PresCK.recompute

theorem PresCK.rchRemoveMin : Step.Pres CKey rchRemoveMin := by unfold Engine.rchRemoveMin; qpres
ck_leaf PresCK.rchRemoveMin

theorem PresCK.drainHeap (env fuel) : Step.Pres CKey (drainHeap env fuel) := by
  induction fuel with
  | zero => unfold Engine.drainHeap; qpres
  | succ fuel ih => unfold Engine.drainHeap; qpres; all_goals exact ih
ck_leaf PresCK.drainHeap

theorem PresCK.becameNecessaryPropagate (env fuel n) : Step.Pres CKey (becameNecessaryPropagate env fuel n) := by
  unfold Engine.becameNecessaryPropagate; qpres
ck_leaf PresCK.becameNecessaryPropagate
theorem PresCK.addNewObservers (env fuel) : Step.Pres CKey (addNewObservers env fuel) := by
  unfold Engine.addNewObservers; qpres
ck_leaf PresCK.addNewObservers
theorem PresCK.unlinkDisallowedObservers (fuel) : Step.Pres CKey (unlinkDisallowedObservers fuel) := by
  unfold Engine.unlinkDisallowedObservers; qpres
ck_leaf PresCK.unlinkDisallowedObservers
theorem PresCK.runAll (env fuel o n nu now) : Step.Pres CKey (runAll env fuel o n nu now) := by
  unfold Engine.runAll; qpres
ck_leaf PresCK.runAll
theorem PresCK.stabiliseEnd (env fuel) : Step.Pres CKey (stabiliseEnd env fuel) := by
  unfold Engine.stabiliseEnd; qpres
ck_leaf PresCK.stabiliseEnd

/-- `stabilise`, whatever its outcome -/
theorem PresCK.stabilise (env fuel) : Step.Pres CKey (stabilise env fuel) := by
  unfold Engine.stabilise; qpres

end IncrVerif.Proofs.GenF.CK
