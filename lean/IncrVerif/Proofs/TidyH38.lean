import IncrVerif.Proofs.TidyH37
/-!
# T4, part 2: the extra invariant and the validity predicates of fragment X1

* `TInvX N s := TInvR N (virt s)`: the "no panic" invariant of fragment X1, read in plain terms by `tinvX_iff`:
  every necessary node has `height ≤ dp s n + 1` (`dp`: depth in the CURRENT child graph, expert nodes count their
  current dependencies), both heaps have `N + 1` buckets, at most `N` nodes, every var cell is linked, `top` names
  every node, the pending new observers are duplicate-free and each still `created` or already `unlinked`.
* `ActionOKx N s a`: the indices of the action exist, a creation leaves `nodes.size + 1 ≤ N`, `stabilise` and `addDep`
  have `3 * nodes.size + 4 ≤ fuelDefault`.
* `ValidRun env N acts s tk`: every action of the run is an action of X1 (`ExpertH.XActionOK`, which for `addDep e c`
  contains the acyclicity condition `¬ Below s c e`) and `ActionOKx`, in the state in which it is executed.
-/
namespace IncrVerif.Proofs.TidyH.XT
open IncrVerif.Engine IncrVerif.Driver IncrVerif.Proofs IncrVerif.Proofs.Step IncrVerif.Proofs.Sched
open IncrVerif.Proofs.ExpertH IncrVerif.Proofs.ExpertH.QR

/-- the extra invariant of fragment X1 -/
def TInvX (N : Nat) (s : State) : Prop := TInvR N (virt s)

/-- depth in the actual state: through the dependencies of the expert records -/
theorem dp_virt (s : State) (m : Nat) : dp (virt s) m = dpF (virt s) s.nodes.size m := by
  unfold dp; rw [virt_size]

/-- the extra invariant in terms of the actual state -/
theorem tinvX_iff (N : Nat) (s : State) :
    TInvX N s ↔
      ((∀ m, s.isNecessary m = true → (s.nodeD m).height ≤ (dp (virt s) m : Int) + 1) ∧
        s.ahh.maxAllowed = (N : Int) ∧ s.rch.maxAllowed = (N : Int) ∧ s.nodes.size ≤ N ∧
        (∀ (c : Nat) (vc : VarCell), s.vars[c]? = some vc → vc.linked = true) ∧
        s.top.size = s.nodes.size ∧ s.newObservers.Nodup ∧
        ∀ (o : Nat) (ob : ObsRec), o ∈ s.newObservers → s.observers[o]? = some ob →
          ob.state = .created ∨ ob.state = .unlinked) := by
  constructor
  · intro T
    refine ⟨fun m hm => ?_, T.room.ahh, T.room.rch, by have := T.room.size; rwa [virt_size] at this, T.linked,
      by have := T.topSize; rwa [virt_size] at this, T.newNodup, T.newState⟩
    have := T.hb m (by rw [virt_isNecessary]; exact hm) rfl
    rwa [virt_nodeD] at this
  · rintro ⟨h1, h2, h3, h4, h5, h6, h7, h8⟩
    refine ⟨fun m hm _ => ?_, ⟨h2, h3, by rw [virt_size]; exact h4⟩, h5, by rw [virt_size]; exact h6, h7, h8⟩
    rw [virt_isNecessary] at hm
    rw [virt_nodeD]; exact h1 m hm

/-! ## valid actions -/

/-- the action names existing things, there is room for a new node, and the fuel of `stabilise`/`addDep` suffices -/
def ActionOKx (N : Nat) (s : State) : Action → Prop
  | .create i => InstrIn s i ∧ s.nodes.size + 1 ≤ N
  | .observe n => OpndIn s n
  | .dropObs o | .disallow o => o < s.observers.size
  | .set v _ | .modify v _ | .update v _ | .replace v _ | .replaceWith v _ | .get v => v < s.vars.size
  | .stabilise => 3 * s.nodes.size + 4 ≤ fuelDefault
  | .addDep e c _ => OpndIn s e ∧ OpndIn s c ∧ 3 * s.nodes.size + 4 ≤ fuelDefault
  | _ => True

/-- every action of the run is a valid action of fragment X1, in the state in which it is executed -/
def ValidRun (env : Env) (N : Nat) : List Action → State → Array Nat → Prop
  | [], _, _ => True
  | a :: as, s, tk => XActionOK env s a ∧ ActionOKx N s a ∧
      ∀ r s', (stepAction env a tk).run.run s = (.ok r, s') → ValidRun env N as s' r.2

theorem ValidRun.runOK {env : Env} {N : Nat} : ∀ {acts : List Action} {s : State} {tk : Array Nat},
    ValidRun env N acts s tk → RunOK env acts s tk
  | [], _, _, _ => trivial
  | _ :: _, _, _, h => ⟨h.1, fun r s' hx => ValidRun.runOK (h.2.2 r s' hx)⟩

end IncrVerif.Proofs.TidyH.XT
