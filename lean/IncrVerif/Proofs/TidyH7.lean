import IncrVerif.Proofs.MapOld35
namespace IncrVerif.Proofs.TidyH
open IncrVerif IncrVerif.Engine IncrVerif.Driver IncrVerif.MapOps IncrVerif.Proofs IncrVerif.Proofs.MapOldH

namespace P7

/-- an operator event name starts with `M`, so it is not `"cb"` -/
theorem C17name_ne_cb (m : Nat) (role : String) : C17name m role ≠ "cb" := by
  intro h
  have h2 := congrArg String.toList h
  simp only [C17name, String.toList_append, toString] at h2
  have e1 : "M".toList = ['M'] := by decide
  have e2 : "cb".toList = ['c', 'b'] := by decide
  rw [e1, e2] at h2
  simp at h2

/-- the log of the fold closure only contains names different from `"cb"` -/
theorem foldStep_ne_cb (p : OpParams) (m : Nat) (upd : Bool) (input oldIn : AMap Int) (calls : List Call) :
    ∀ acc : Int × List (String × List Val × String), (∀ e, e ∈ acc.2 → e.1 ≠ "cb") →
      ∀ e, e ∈ (calls.foldl (C17foldStep p m upd input oldIn) acc).2 → e.1 ≠ "cb" := by
  induction calls with
  | nil => intro acc h; exact h
  | cons c cs ih =>
    intro acc h
    rw [List.foldl_cons]
    apply ih
    rcases acc with ⟨a, evs⟩
    rcases c with ⟨role, k⟩
    cases role with
    | fn => exact h
    | merge => exact h
    | add =>
      intro e he
      rcases List.mem_append.1 he with h' | h'
      · exact h e h'
      · rw [List.mem_singleton.1 h']
        exact C17name_ne_cb m _
    | remove =>
      intro e he
      rcases List.mem_append.1 he with h' | h'
      · exact h e h'
      · rw [List.mem_singleton.1 h']
        exact C17name_ne_cb m _
    | update =>
      cases upd with
      | true =>
        intro e he
        rcases List.mem_append.1 he with h' | h'
        · exact h e h'
        · rw [List.mem_singleton.1 h']
          exact C17name_ne_cb m _
      | false =>
        intro e he
        rcases List.mem_append.1 he with h' | h'
        · exact h e h'
        · rcases List.mem_cons.1 h' with h'' | h''
          · rw [h'']
            exact C17name_ne_cb m _
          · rw [List.mem_singleton.1 h'']
            exact C17name_ne_cb m _

end P7

/-- no user-function call of an operator is named like an expert edge callback -/
theorem opCalls_name_ne_cb (d : Defs) (g : Nat) (σ : Val) (old : Option Val) (x : Val) :
    ∀ c, c ∈ opCalls d g σ old x → c.1 ≠ "cb" := by
  intro c hc
  rcases hd : decodeOp g with ⟨kind, m⟩
  cases kind with
  | fm =>
    rw [opCalls_fm d g m hd] at hc
    rcases List.mem_map.1 hc with ⟨c', _, rfl⟩
    exact P7.C17name_ne_cb m _
  | fold rev upd =>
    rw [opCalls_fold d g m rev upd hd] at hc
    exact P7.foldStep_ne_cb _ m upd _ _ _ _ (fun e he => by cases he) c hc
  | merge =>
    rw [opCalls_merge d g m hd] at hc
    rcases List.mem_map.1 hc with ⟨c', _, rfl⟩
    exact P7.C17name_ne_cb m _
  | part =>
    rw [opCalls_part d g m hd] at hc
    rcases List.mem_filterMap.1 hc with ⟨c', _, h'⟩
    unfold C17partEv at h'
    split at h'
    · cases h'
    · cases h'
      exact P7.C17name_ne_cb m _

end IncrVerif.Proofs.TidyH
