import IncrVerif.Proofs.OnceF4
import IncrVerif.Proofs.OnceF8
/-!
# C02, combined fragment, part 9: INPUTS BEFORE OUTPUTS at every `stabilise`

`OrderStab env fuel s s'`: in the drain of the run `s → s'` of `stabilise` (`t2` tied to the run by the phase equations, as in `OnceStab`), whenever a step `p` comes before a
step `q` in `drainSteps env fuel t2`, the node of `q` is no stable child (`SKid`, taken in the state in which `p` ran) of the node of `p`.
-/
namespace IncrVerif.Proofs.OnceF
open IncrVerif.Engine IncrVerif.Driver IncrVerif.Proofs IncrVerif.Proofs.Step IncrVerif.Proofs.Sched IncrVerif.Proofs.Quiet
open IncrVerif.Proofs.FullH IncrVerif.Proofs.TidyH

/-- INPUTS BEFORE OUTPUTS for the run `s → s'` of `stabilise env fuel` -/
def OrderStab (env : Env) (fuel : Nat) (s s' : State) : Prop :=
  ∃ t1 t2 t3,
    (addNewObservers env fuel).run.run { s with status := .stabilising } = (.ok (), t1) ∧
    (unlinkDisallowedObservers fuel).run.run t1 = (.ok (), t2) ∧
    (drainHeap env fuel).run.run t2 = (.ok (), t3) ∧ (stabiliseEnd env fuel).run.run t3 = (.ok (), s') ∧
    (drainSteps env fuel t2).Pairwise fun p q => ∀ c, SKid p.2 p.1 c → q.1 ≠ c

section
variable {env : Env} {sp : Nat → Val → Val}

theorem stabilise_orderF (E : EnvS env sp) (hF : FirstFn env) {fuel : Nat} {s s' : State} (Q : QInvFE env sp s)
    (h : (stabilise env fuel).run.run s = (.ok (), s')) : OrderStab env fuel s s' := by
  obtain ⟨g, Q⟩ := Q
  obtain ⟨t1, t2, t3, g2, g3, h1, h2, h3, h4, -, D2, -, -, -, -⟩ := stabilise_onceF (kit E hF) Q h
  exact ⟨t1, t2, t3, h1, h2, h3, h4, drain_orderF (kit E hF) fuel _ t2 t3 g2 D2 h3⟩

/-- at every `stabilise` of a history of the combined fragment -/
theorem history_orderF (E : EnvS env sp) (hF : FirstFn env) {N : Nat} {d : Bool} {as bs : List Action}
    {s : State} {tk : Array Nat} (hH : HistFull env sp 0 (as ++ Action.stabilise :: bs))
    (h : Quiet.runActions env (as ++ Action.stabilise :: bs) (State.init N d) #[] = .ok (s, tk)) :
    ∃ s1 tk1 s2, Quiet.runActions env as (State.init N d) #[] = .ok (s1, tk1) ∧
      (stabilise env fuelDefault).run.run s1 = (.ok (), s2) ∧ OrderStab env fuelDefault s1 s2 ∧
      Quiet.runActions env bs s2 tk1 = .ok (s, tk) := by
  obtain ⟨s1, tk1, s2, k1, k2, k3, -, -, -, k7⟩ := history_c02 E hF hH h
  exact ⟨s1, tk1, s2, k1, k3, stabilise_orderF E hF k2 k3, k7⟩

end
end IncrVerif.Proofs.OnceF
