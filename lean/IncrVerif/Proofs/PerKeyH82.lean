import IncrVerif.Proofs.PerKeyH5
import IncrVerif.Proofs.PerKeyH70
import IncrVerif.Proofs.PerKeyH6
/-!
# Per-key operators, the semantic theorem, part 1: pure lemmas

* `evalLocs`: the list of local values `evalTempl` folds up; prefix/index lemmas.
* `mapM_eval`: evaluation of an operand list against the stored values of the resolved nodes.
* `specMap_eq`: `specMap` equals a sorted map that has the right `lookup`.
-/
namespace IncrVerif.Proofs.PerKeyH
open IncrVerif IncrVerif.Engine IncrVerif.Driver IncrVerif.Proofs IncrVerif.Proofs.Step IncrVerif.Proofs.Sched
open IncrVerif.Proofs.ExpertH IncrVerif.Proofs.EffH IncrVerif.Proofs.DriverH

/-! ## 1. `evalLocs` -/

def stepLoc (env : Env) (ov : Nat → Option Val) (key : Int) (loc : List (Option Val)) (i : Instr) :
    List (Option Val) :=
  loc ++ [evalInstr env ov loc key i]

def evalLocsFrom (env : Env) (ov : Nat → Option Val) (key : Int) (init : List (Option Val)) (is : List Instr) :
    List (Option Val) :=
  is.foldl (stepLoc env ov key) init

/-- the values of `%0, %1, …` in the from-scratch evaluation of a template -/
def evalLocs (env : Env) (ov : Nat → Option Val) (key v : Int) (is : List Instr) : List (Option Val) :=
  evalLocsFrom env ov key [some (.int v)] is

theorem evalTempl_eq (env : Env) (ov : Nat → Option Val) (t : Template) (key v : Int) :
    evalTempl env ov t key v = evalOpnd ov (evalLocs env ov key v t.instrs) t.ret := rfl

section
variable (env : Env) (ov : Nat → Option Val) (key : Int)

theorem evalLocsFrom_append (init : List (Option Val)) (a b : List Instr) :
    evalLocsFrom env ov key init (a ++ b) = evalLocsFrom env ov key (evalLocsFrom env ov key init a) b := by
  unfold evalLocsFrom
  rw [List.foldl_append]

theorem evalLocsFrom_prefix (init : List (Option Val)) (is : List Instr) :
    ∃ rest, evalLocsFrom env ov key init is = init ++ rest ∧ rest.length = is.length := by
  induction is generalizing init with
  | nil => exact ⟨[], by simp [evalLocsFrom], rfl⟩
  | cons i is ih =>
    obtain ⟨rest, h1, h2⟩ := ih (stepLoc env ov key init i)
    refine ⟨evalInstr env ov init key i :: rest, ?_, by simp [h2]⟩
    show evalLocsFrom env ov key (stepLoc env ov key init i) is = _
    rw [h1]
    simp [stepLoc]

theorem evalLocs_length (v : Int) (is : List Instr) : (evalLocs env ov key v is).length = is.length + 1 := by
  obtain ⟨rest, h1, h2⟩ := evalLocsFrom_prefix env ov key [some (.int v)] is
  unfold evalLocs
  rw [h1]
  simp [h2]

/-- the first `n + 1` locals only depend on the first `n` instructions -/
theorem evalLocs_take_getElem? (v : Int) (is : List Instr) (n i : Nat) (hi : i ≤ n) :
    (evalLocs env ov key v (is.take n))[i]? = (evalLocs env ov key v is)[i]? := by
  by_cases hn : n ≤ is.length
  · have hsplit : evalLocs env ov key v is =
        evalLocsFrom env ov key (evalLocs env ov key v (is.take n)) (is.drop n) := by
      unfold evalLocs
      rw [← evalLocsFrom_append, List.take_append_drop]
    obtain ⟨rest, h1, _⟩ := evalLocsFrom_prefix env ov key (evalLocs env ov key v (is.take n)) (is.drop n)
    rw [hsplit, h1]
    have hl : i < (evalLocs env ov key v (is.take n)).length := by
      rw [evalLocs_length, List.length_take]
      omega
    rw [List.getElem?_append_left hl]
  · rw [List.take_of_length_le (by omega)]

/-- local `%(j+1)` is the `j`-th instruction evaluated on the earlier locals -/
theorem evalLocs_succ (v : Int) (is : List Instr) (j : Nat) (i : Instr) (h : is[j]? = some i) :
    (evalLocs env ov key v is)[j + 1]? =
      some (evalInstr env ov (evalLocs env ov key v (is.take j)) key i) := by
  rw [← evalLocs_take_getElem? env ov key v is (j + 1) (j + 1) (Nat.le_refl _)]
  have hj : j < is.length := (List.getElem?_eq_some_iff.mp h).1
  have ht : is.take (j + 1) = is.take j ++ [i] := by
    rw [List.take_succ, h]
    rfl
  rw [ht]
  unfold evalLocs
  rw [evalLocsFrom_append]
  show (stepLoc env ov key _ i)[j + 1]? = _
  unfold stepLoc
  have hl : (evalLocsFrom env ov key [some (.int v)] (is.take j)).length = j + 1 := by
    have := evalLocs_length env ov key v (is.take j)
    unfold evalLocs at this
    rw [this, List.length_take]
    omega
  rw [List.getElem?_append_right (by omega), hl]
  simp

theorem evalLocs_zero (v : Int) (is : List Instr) : (evalLocs env ov key v is)[0]? = some (some (.int v)) := by
  obtain ⟨rest, h1, _⟩ := evalLocsFrom_prefix env ov key [some (.int v)] is
  unfold evalLocs
  rw [h1]
  rfl

end

/-! ## 2. operand lists -/

theorem mapM_option_cons {α β : Type} (f : α → Option β) (a : α) (l : List α) :
    (a :: l).mapM f = (f a).bind fun b => (l.mapM f).bind fun bs => some (b :: bs) := by
  rw [List.mapM_cons]
  rfl

theorem mapM_option_nil {α β : Type} (f : α → Option β) : ([] : List α).mapM f = some [] := by
  rw [List.mapM_nil]
  rfl

/-- if the operands `args` resolve to the nodes `nodes`, whose stored values are `vals`, and every operand evaluates to
the stored value of its node, then the operand list evaluates to `vals` -/
theorem mapM_eval (R : Opnd → Option Nat) (E : Opnd → Option Val) (val : Nat → Option Val)
    (args : List Opnd) (nodes : List Nat) (vals : List Val)
    (hR : args.mapM R = some nodes) (hv : evalArgs val nodes = some vals)
    (h : ∀ o, o ∈ args → ∀ a, R o = some a → a ∈ nodes → ∀ w, val a = some w → E o = some w) :
    args.mapM E = some vals := by
  induction args generalizing nodes vals with
  | nil =>
    rw [mapM_option_nil] at hR
    cases hR
    simp only [evalArgs] at hv
    cases hv
    exact mapM_option_nil E
  | cons o args ih =>
    rw [mapM_option_cons] at hR
    cases hRo : R o with
    | none => rw [hRo] at hR; cases hR
    | some a =>
      rw [hRo] at hR
      cases hRa : args.mapM R with
      | none => rw [hRa] at hR; cases hR
      | some ns =>
        rw [hRa] at hR
        simp only [Option.bind_some, Option.some.injEq] at hR
        subst hR
        simp only [evalArgs] at hv
        cases hva : val a with
        | none => rw [hva] at hv; cases hv
        | some w =>
          cases hvs : evalArgs val ns with
          | none => rw [hva, hvs] at hv; cases hv
          | some ws =>
            rw [hva, hvs] at hv
            simp only [Option.some.injEq] at hv
            subst hv
            rw [mapM_option_cons, h o (List.mem_cons_self ..) a hRo (List.mem_cons_self ..) w hva,
              ih ns ws hRa hvs (fun o' ho' a' hr ha' w' hw' =>
                h o' (List.mem_cons_of_mem _ ho') a' hr (List.mem_cons_of_mem _ ha') w' hw')]
            rfl

/-- the nodes an operand list resolves to: one per operand -/
theorem mapM_mem {α β : Type} (f : α → Option β) (l : List α) (r : List β) (h : l.mapM f = some r)
    (b : β) (hb : b ∈ r) : ∃ a, a ∈ l ∧ f a = some b := by
  induction l generalizing r with
  | nil =>
    rw [mapM_option_nil] at h
    cases h
    cases hb
  | cons a l ih =>
    rw [mapM_option_cons] at h
    cases hfa : f a with
    | none => rw [hfa] at h; cases h
    | some b0 =>
      rw [hfa] at h
      cases hl : l.mapM f with
      | none => rw [hl] at h; cases h
      | some bs =>
        rw [hl] at h
        simp only [Option.bind_some, Option.some.injEq] at h
        subst h
        rcases List.mem_cons.mp hb with e | hb'
        · subst e
          exact ⟨a, List.mem_cons_self .., hfa⟩
        · obtain ⟨a', ha', hf'⟩ := ih bs hl hb'
          exact ⟨a', List.mem_cons_of_mem _ ha', hf'⟩

theorem evalArgs_length (val : Nat → Option Val) (nodes : List Nat) (vals : List Val)
    (h : evalArgs val nodes = some vals) : vals.length = nodes.length := by
  induction nodes generalizing vals with
  | nil => simp only [evalArgs] at h; cases h; rfl
  | cons a ns ih =>
    simp only [evalArgs] at h
    cases hva : val a with
    | none => rw [hva] at h; cases h
    | some w =>
      cases hvs : evalArgs val ns with
      | none => rw [hva, hvs] at h; cases h
      | some ws =>
        rw [hva, hvs] at h
        simp only [Option.some.injEq] at h
        subst h
        simp [ih ws hvs]

theorem evalArgs_getElem? (val : Nat → Option Val) (nodes : List Nat) (vals : List Val)
    (h : evalArgs val nodes = some vals) (i a : Nat) (hi : nodes[i]? = some a) :
    ∃ w, vals[i]? = some w ∧ val a = some w := by
  induction nodes generalizing vals i with
  | nil => simp at hi
  | cons a0 ns ih =>
    simp only [evalArgs] at h
    cases hva : val a0 with
    | none => rw [hva] at h; cases h
    | some w =>
      cases hvs : evalArgs val ns with
      | none => rw [hva, hvs] at h; cases h
      | some ws =>
        rw [hva, hvs] at h
        simp only [Option.some.injEq] at h
        subst h
        cases i with
        | zero =>
          simp only [List.getElem?_cons_zero, Option.some.injEq] at hi
          subst hi
          exact ⟨w, rfl, hva⟩
        | succ i =>
          simp only [List.getElem?_cons_succ] at hi
          exact ih ws hvs i hi

/-! ## 3. `lookup` -/

theorem amap_lookup_eq (m : List (Int × Int)) (k : Int) : AMap.lookup m k = m.lookup k := by
  induction m with
  | nil => rfl
  | cons kv m ih =>
    rcases kv with ⟨k0, v0⟩
    rw [List.lookup_cons]
    by_cases hk : k = k0
    · subst hk
      simp [AMap.lookup]
    · have h1 : (k == k0) = false := by simpa using hk
      simp only [AMap.lookup, if_neg hk, h1, ih]

theorem sorted_keys_nodup {m : List (Int × Int)} (h : AMap.Sorted m) : (m.map (·.1)).Nodup := by
  unfold AMap.Sorted AMap.keys at h
  exact h.imp (fun hlt => by omega)

/-! ## 4. the specified map -/

/-- a sorted map `mo` that binds every key `k` of the sorted map `m` to `g k (m[k])` and nothing else IS the specified map -/
theorem mapM_spec_eq (g : Int → Int → Option Val) (m mo : List (Int × Int))
    (hs : AMap.Sorted m) (hso : AMap.Sorted mo)
    (h1 : ∀ k v, (k, v) ∈ m → ∃ w, g k v = some w ∧ AMap.lookup mo k = some w.toInt)
    (h2 : ∀ k, AMap.lookup m k = none → AMap.lookup mo k = none) :
    m.mapM (fun kv => (g kv.1 kv.2).map fun w => (kv.1, w.toInt)) = some mo := by
  have hA : ∀ (l0 : List (Int × Int)), (∀ k v, (k, v) ∈ l0 → (k, v) ∈ m) →
      ∃ l, l0.mapM (fun kv => (g kv.1 kv.2).map fun w => (kv.1, w.toInt)) = some l ∧
        l.map (·.1) = l0.map (·.1) ∧ ∀ k y, (k, y) ∈ l → AMap.lookup mo k = some y := by
    intro l0
    induction l0 with
    | nil =>
      intro _
      exact ⟨[], mapM_option_nil _, rfl, fun k y h => by cases h⟩
    | cons kv l0 ih =>
      intro hsub
      rcases kv with ⟨k0, v0⟩
      obtain ⟨l, hl, hk, hlk⟩ := ih (fun k v h => hsub k v (List.mem_cons_of_mem _ h))
      obtain ⟨w, hw, hlw⟩ := h1 k0 v0 (hsub k0 v0 (List.mem_cons_self ..))
      refine ⟨(k0, w.toInt) :: l, ?_, by simp [hk], ?_⟩
      · rw [mapM_option_cons, hl]
        simp only [hw]
        rfl
      · intro k y hm
        rcases List.mem_cons.mp hm with e | hm'
        · cases e
          exact hlw
        · exact hlk k y hm'
  obtain ⟨l, hl, hk, hlk⟩ := hA m (fun _ _ h => h)
  rw [hl]
  congr 1
  have hsl : AMap.Sorted l := by
    unfold AMap.Sorted AMap.keys
    rw [hk]
    exact hs
  apply AMap.ext_lookup l mo hsl hso
  intro k
  by_cases hm : k ∈ AMap.keys l
  · obtain ⟨⟨k', y⟩, hp, e⟩ := List.mem_map.mp hm
    simp only at e
    subst e
    rw [AMap.lookup_of_mem l hsl (k', y) hp, hlk k' y hp]
  · have hn : AMap.lookup l k = none := by
      cases hlk' : AMap.lookup l k with
      | none => rfl
      | some y =>
        exact absurd ((AMap.lookup_isSome_iff_mem_keys l k).mp (by rw [hlk']; rfl)) hm
    have hm' : k ∉ AMap.keys m := by
      unfold AMap.keys at hm ⊢
      rw [← hk]
      exact hm
    have hn' : AMap.lookup m k = none := by
      cases hlk' : AMap.lookup m k with
      | none => rfl
      | some y =>
        exact absurd ((AMap.lookup_isSome_iff_mem_keys m k).mp (by rw [hlk']; rfl)) hm'
    rw [hn, h2 k hn']

theorem specMap_eq (env : Env) (ov : Nat → Option Val) (t : Template) (m mo : List (Int × Int))
    (hs : AMap.Sorted m) (hso : AMap.Sorted mo)
    (h1 : ∀ k v, (k, v) ∈ m → ∃ w, evalTempl env ov t k v = some w ∧ AMap.lookup mo k = some w.toInt)
    (h2 : ∀ k, AMap.lookup m k = none → AMap.lookup mo k = none) :
    specMap env ov t m = some mo :=
  mapM_spec_eq (evalTempl env ov t) m mo hs hso h1 h2

end IncrVerif.Proofs.PerKeyH
