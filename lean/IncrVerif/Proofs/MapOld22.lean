import IncrVerif.Proofs.MapOld21
/-!
# map_with_old fragment: the `create` action keeps `QInvW`; the initial state; the nodes of the `mapOp` instructions
-/
namespace IncrVerif.Proofs.MapOldH
open IncrVerif.Engine IncrVerif.Driver IncrVerif.Proofs IncrVerif.Proofs.Step IncrVerif.Proofs.Sched IncrVerif.Proofs.Quiet

/-- the `create` action: the instruction, then the returned node is entered in the naming table -/
theorem CrStep_inv {env : Env} {s s' : State} {i : Instr} {tokens : Array Nat} {r : String × Array Nat}
    (h : (stepAction env (.create i) tokens).run.run s = (.ok r, s')) :
    ∃ ro s1, (elabInstrM env [] .unit i).run.run s = (.ok ro, s1) ∧
      ((ro = none ∧ s' = s1) ∨
        ∃ n, ro = some n ∧ s' = { s1 with top := s1.top.push n, handles := n :: s1.handles }) := by
  unfold stepAction at h
  simp only at h
  obtain ⟨ro, s1, h1, h2⟩ := bind_ok_inv h
  refine ⟨ro, s1, h1, ?_⟩
  cases ro with
  | none =>
    simp only at h2
    exact Or.inl ⟨rfl, (pure_ok_inv h2).2⟩
  | some n =>
    simp only at h2
    obtain ⟨s2, e2, h3⟩ := bind_modify_inv h2
    obtain ⟨-, e3⟩ := pure_ok_inv h3
    exact Or.inr ⟨n, rfl, by rw [e3, e2]⟩

/-- **creation keeps the invariant** -/
theorem create_keepsW {env : Env} {C : Val → Prop} {sp : Nat → Val → Val} {s s' : State} {i : Instr}
    {tokens : Array Nat} {r : String × Array Nat} (V : ValOK env C sp) (Q : QInvW env C sp s)
    (hi : WInstr env C sp i) (h : (stepAction env (.create i) tokens).run.run s = (.ok r, s')) :
    QInvW env C sp s' := by
  obtain ⟨ro, s1, h1, h2⟩ := CrStep_inv h
  obtain ⟨k, s0, Q0, -, ero, Cr, hk, hl, hkids, hvars⟩ := CrElabW V Q hi h1
  rcases h2 with ⟨e, -⟩ | ⟨n, e, es⟩
  · rw [e] at ero; cases ero
  · rw [e] at ero
    injection ero with ero
    rw [es]
    refine CrLast (k := k) Q0 ?_ hk hl hkids hvars
    exact ⟨Cr.nodes, Cr.vars, Cr.rch, Cr.pc, Cr.scope, Cr.stabNum, Cr.status, Cr.alive, Cr.setDuringStab,
      Cr.deadVars, Cr.handleAfterStab, Cr.pinv, Cr.observers, Cr.newObservers, Cr.disallowedObservers,
      by show s1.top.push n = _; rw [Cr.top, ero]⟩

theorem virt_init (N : Nat) (d : Bool) : virt (State.init N d) = State.init N d := by
  unfold virt; congr 1
  simp [State.init]

theorem init_invW (env : Env) (C : Val → Prop) (sp : Nat → Val → Val) (N : Nat) (d : Bool) :
    QInvW env C sp (State.init N d) := by
  have hsz : (State.init N d).nodes.size = 0 := rfl
  refine ⟨⟨rfl, fun n hn => ?_, fun n hn => ?_, fun n hn => ?_⟩, ?_, ⟨fun n v h => ?_, fun n hn => ?_,
    fun c vc h => ?_, fun n g i hk => ?_⟩⟩
  · rw [hsz] at hn; cases hn
  · rw [hsz] at hn; cases hn
  · rw [hsz] at hn; cases hn
  · rw [virt_init]; exact qinv_init _ N d
  · rw [init_nodeD] at h; cases h
  · rw [hsz] at hn; cases hn
  · simp [State.init] at h
  · rw [init_nodeD] at hk; cases hk

/-! ## the nodes the `mapOp` instructions create -/

/-- the three nodes of the unary operators; the machine id is `opId op` -/
theorem CrUnary_nodes {env : Env} {s s' : State} {g kx x : Nat} {op : MapOpK} {tokens : Array Nat}
    {r : String × Array Nat} (hsc : s.currentScope = .top)
    (hop : (op = .fm (g - opBase) (.outer kx) ∧ opBase ≤ g) ∨
      (∃ m rev upd, op = .fold m rev upd (.outer kx) ∧
        g = opBase + 100000 + (if rev then 20000 else 0) + (if upd then 10000 else 0) + m) ∨
      (∃ m, op = .part m (.outer kx) ∧ g = opBase + 300000 + m))
    (h : (stepAction env (.create (.mapOp op)) tokens).run.run s = (.ok r, s')) (hk : s.top[kx]? = some x) :
    s'.nodes.size = s.nodes.size + 3 ∧ (s'.nodeD s.nodes.size).kind = .map fnIdent [x] ∧
      (s'.nodeD (s.nodes.size + 1)).kind = .mapWithOld g s.nodes.size ∧
      (s'.nodeD (s.nodes.size + 2)).kind = .map fnIdent [s.nodes.size + 1] ∧
      s'.top = s.top.push (s.nodes.size + 2) := by
  obtain ⟨ro, s1, h1, h2⟩ := CrStep_inv h
  have key : ∃ x sa sb, s.top[kx]? = some x ∧ Created (.map fnIdent [x]) s sa s.top ∧
      Created (.mapWithOld g s.nodes.size) sa sb s.top ∧
      Created (.map fnIdent [s.nodes.size + 1]) sb s1 s.top ∧ ro = some (s.nodes.size + 2) := by
    unfold elabInstrM at h1
    simp only at h1
    unfold elabInstr at h1
    rw [run_bind_get] at h1
    simp only [hsc] at h1
    rcases hop with ⟨e, hg⟩ | ⟨m, rev, upd, e, eg⟩ | ⟨m, e, eg⟩
    · rw [e] at h1
      simp only at h1
      rw [show opBase + (g - opBase) = g by omega] at h1
      exact CrUnary h1
    · rw [e] at h1
      simp only at h1
      rw [← eg] at h1
      exact CrUnary h1
    · rw [e] at h1
      simp only at h1
      rw [← eg] at h1
      exact CrUnary h1
  obtain ⟨x', sa, sb, hx, Ca, Cb, Cc, ero⟩ := key
  rw [hk] at hx
  injection hx with hx
  subst hx
  rcases h2 with ⟨e, -⟩ | ⟨n, e, es⟩
  · rw [e] at ero; cases ero
  · rw [e] at ero
    injection ero with ero
    have hnd : ∀ m, s'.nodeD m = s1.nodeD m := fun m => by rw [es]; rfl
    have hsz : s'.nodes.size = s1.nodes.size := by rw [es]
    have za := Ca.size
    have zb := Cb.size
    refine ⟨by rw [hsz, Cc.size, zb, za], ?_, ?_, ?_, by rw [es]; show s1.top.push n = _; rw [Cc.top, ero]⟩
    · rw [hnd, Cc.nodeD_lt (by omega), Cb.nodeD_lt (by omega), Ca.nodeD_new]; rfl
    · rw [hnd, Cc.nodeD_lt (by omega), ← za, Cb.nodeD_new]; rfl
    · rw [hnd, show s.nodes.size + 2 = sb.nodes.size by omega, Cc.nodeD_new]
      rfl

theorem create_mapOp_fm_nodes {env : Env} {s s' : State} {m k x : Nat} {tokens : Array Nat}
    {r : String × Array Nat} (hsc : s.currentScope = .top)
    (h : (stepAction env (.create (.mapOp (.fm m (.outer k)))) tokens).run.run s = (.ok r, s'))
    (hk : s.top[k]? = some x) :
    s'.nodes.size = s.nodes.size + 3 ∧ (s'.nodeD s.nodes.size).kind = .map fnIdent [x] ∧
      (s'.nodeD (s.nodes.size + 1)).kind = .mapWithOld (opBase + m) s.nodes.size ∧
      (s'.nodeD (s.nodes.size + 2)).kind = .map fnIdent [s.nodes.size + 1] ∧
      s'.top = s.top.push (s.nodes.size + 2) :=
  CrUnary_nodes hsc (Or.inl ⟨by rw [Nat.add_sub_cancel_left], Nat.le_add_right ..⟩) h hk

theorem create_mapOp_fold_nodes {env : Env} {s s' : State} {m k x : Nat} {rev upd : Bool} {tokens : Array Nat}
    {r : String × Array Nat} (hsc : s.currentScope = .top)
    (h : (stepAction env (.create (.mapOp (.fold m rev upd (.outer k)))) tokens).run.run s = (.ok r, s'))
    (hk : s.top[k]? = some x) :
    s'.nodes.size = s.nodes.size + 3 ∧ (s'.nodeD s.nodes.size).kind = .map fnIdent [x] ∧
      (s'.nodeD (s.nodes.size + 1)).kind =
        .mapWithOld (opBase + 100000 + (if rev then 20000 else 0) + (if upd then 10000 else 0) + m) s.nodes.size ∧
      (s'.nodeD (s.nodes.size + 2)).kind = .map fnIdent [s.nodes.size + 1] ∧
      s'.top = s.top.push (s.nodes.size + 2) :=
  CrUnary_nodes hsc (Or.inr (Or.inl ⟨m, rev, upd, rfl, rfl⟩)) h hk

theorem create_mapOp_part_nodes {env : Env} {s s' : State} {m k x : Nat} {tokens : Array Nat}
    {r : String × Array Nat} (hsc : s.currentScope = .top)
    (h : (stepAction env (.create (.mapOp (.part m (.outer k)))) tokens).run.run s = (.ok r, s'))
    (hk : s.top[k]? = some x) :
    s'.nodes.size = s.nodes.size + 3 ∧ (s'.nodeD s.nodes.size).kind = .map fnIdent [x] ∧
      (s'.nodeD (s.nodes.size + 1)).kind = .mapWithOld (opBase + 300000 + m) s.nodes.size ∧
      (s'.nodeD (s.nodes.size + 2)).kind = .map fnIdent [s.nodes.size + 1] ∧
      s'.top = s.top.push (s.nodes.size + 2) :=
  CrUnary_nodes hsc (Or.inr (Or.inr ⟨m, rfl, rfl⟩)) h hk

theorem create_mapOp_merge_nodes {env : Env} {s s' : State} {m kx ky x y : Nat} {tokens : Array Nat}
    {r : String × Array Nat} (hsc : s.currentScope = .top)
    (h : (stepAction env (.create (.mapOp (.merge m (.outer kx) (.outer ky)))) tokens).run.run s = (.ok r, s'))
    (hkx : s.top[kx]? = some x) (hky : s.top[ky]? = some y) :
    s'.nodes.size = s.nodes.size + 5 ∧ (s'.nodeD s.nodes.size).kind = .map fnIdent [x] ∧
      (s'.nodeD (s.nodes.size + 1)).kind = .map fnIdent [y] ∧
      (s'.nodeD (s.nodes.size + 2)).kind = .map fnZip [s.nodes.size, s.nodes.size + 1] ∧
      (s'.nodeD (s.nodes.size + 3)).kind = .mapWithOld (opBase + 200000 + m) (s.nodes.size + 2) ∧
      (s'.nodeD (s.nodes.size + 4)).kind = .map fnIdent [s.nodes.size + 3] ∧
      s'.top = s.top.push (s.nodes.size + 4) := by
  obtain ⟨ro, s1, h1, h2⟩ := CrStep_inv h
  unfold elabInstrM at h1
  simp only at h1
  unfold elabInstr at h1
  rw [run_bind_get] at h1
  simp only [hsc] at h1
  obtain ⟨x', y', sa, sb, sc, sd, hx, hy, Ca, Cb, Cc, Cd, Ce, ero⟩ := CrBinary h1
  rw [hkx] at hx
  rw [hky] at hy
  injection hx with hx
  injection hy with hy
  subst hx hy
  rcases h2 with ⟨e, -⟩ | ⟨n, e, es⟩
  · rw [e] at ero; cases ero
  · rw [e] at ero
    injection ero with ero
    have hnd : ∀ m, s'.nodeD m = s1.nodeD m := fun m => by rw [es]; rfl
    have hsz : s'.nodes.size = s1.nodes.size := by rw [es]
    have za := Ca.size
    have zb := Cb.size
    have zc := Cc.size
    have zd := Cd.size
    refine ⟨by rw [hsz, Ce.size, zd, zc, zb, za], ?_, ?_, ?_, ?_, ?_,
      by rw [es]; show s1.top.push n = _; rw [Ce.top, ero]⟩
    · rw [hnd, Ce.nodeD_lt (by omega), Cd.nodeD_lt (by omega), Cc.nodeD_lt (by omega), Cb.nodeD_lt (by omega),
        Ca.nodeD_new]; rfl
    · rw [hnd, Ce.nodeD_lt (by omega), Cd.nodeD_lt (by omega), Cc.nodeD_lt (by omega), ← za, Cb.nodeD_new]; rfl
    · rw [hnd, Ce.nodeD_lt (by omega), Cd.nodeD_lt (by omega),
        show s.nodes.size + 2 = sb.nodes.size by omega, Cc.nodeD_new]; rfl
    · rw [hnd, Ce.nodeD_lt (by omega), show s.nodes.size + 3 = sc.nodes.size by omega, Cd.nodeD_new]; rfl
    · rw [hnd, show s.nodes.size + 4 = sd.nodes.size by omega, Ce.nodeD_new]; rfl

end IncrVerif.Proofs.MapOldH
