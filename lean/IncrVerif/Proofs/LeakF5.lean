import IncrVerif.Proofs.AuditF2
import IncrVerif.Proofs.LeakF1
import Lean
/-!
# LeakF5 — the invariant of the combined fragment does not read the program's node handles

`QInvF env sp s g → QInvF env sp (erase H s) g` where `erase H s = { s with handles := H }`: every clause of the
invariant (a tree of structures over definitions that project other fields of the state) is definitionally
insensitive to `handles`; the tactic `xfer` takes the hypothesis apart, rebuilds the goal structure by structure
and closes the leaves by `assumption` (up to definitional unfolding).
-/
namespace IncrVerif.Proofs.LeakF
open IncrVerif.Engine IncrVerif.Driver IncrVerif.Proofs IncrVerif.Proofs.FullH
open Lean Elab Tactic Meta

def isStructLike (t : Expr) : MetaM Bool := do
  let t ← whnfD t
  match t.getAppFn with
  | .const n _ =>
    if n == ``Exists then return true
    return isStructure (← getEnv) n
  | _ => return false

/-- take every structure-valued (or `∃`) proposition of the context apart -/
def casesAll (g : MVarId) : Nat → MetaM MVarId
  | 0 => pure g
  | fuel+1 => do
    let found ← g.withContext do
      let lctx ← getLCtx
      let mut r : Option FVarId := none
      for d in lctx do
        if d.isImplementationDetail then continue
        let t ← instantiateMVars d.type
        if !(← Meta.isProp t) then continue
        if ← isStructLike t then
          r := some d.fvarId
          break
      pure r
    match found with
    | none => return g
    | some fv =>
      let gs ← g.cases fv
      match gs.toList with
      | [g'] => casesAll g'.mvarId fuel
      | _ => throwError "casesAll: unexpected"

def buildAll (g : MVarId) : Nat → StateT (Array MVarId) MetaM Unit
  | 0 => modify (·.push g)
  | fuel+1 => do
    let t ← instantiateMVars (← g.getType)
    if (← Meta.isProp t) && (← isStructLike t) then
      let gs ← g.constructor
      for g' in gs do
        unless ← g'.isAssigned do buildAll g' fuel
    else
      let ok ← g.withContext do
        try g.assumption; pure true
        catch _ => pure false
      unless ok do modify (·.push g)

/-- take the structure-valued hypotheses apart, rebuild the goal structure by structure, close the leaves by
`assumption`; the leaves that are not closed are retried once (metavariables may have been assigned meanwhile)
and otherwise returned -/
elab "xfer" : tactic => do
  let g ← getMainGoal
  let g ← casesAll g 400
  let (_, rest) ← (buildAll g 64).run #[]
  let mut out : List MVarId := []
  for g' in rest do
    let ok ← g'.withContext do
      try g'.assumption; pure true
      catch _ => pure false
    unless ok do out := out ++ [g']
  replaceMainGoal out

variable {env : Env} {sp : Nat → Val → Val} {s : Engine.State} {g : Nat → Option Val} {H : List Nat}

theorem kinv_erase (Q : KInv env g s) : KInv env g (erase H s) := by
  intro m p i h1 h2 h3 h4
  rw [value_erase]
  exact Q m p i h1 h2 h3 h4

theorem ffrag_erase (Q : FFrag env sp g s) : FFrag env sp g (erase H s) := by xfer
theorem n2_erase {env : Env} {rk : Nat → Nat} {s : Engine.State} {l : List Nat} {n : Nat} (Q : NestH.N2 env rk s l n) :
    NestH.N2 env rk (erase H s) l n := by xfer

theorem resolveP_erase (s : Engine.State) (locs : List Nat) (o : Opnd) :
    BindH.resolveP (erase H s) locs o = BindH.resolveP s locs o := by
  cases o <;> rfl

theorem resolveAll_erase (s : Engine.State) (locs : List Nat) (os : List Opnd) :
    BindH.resolveAll (erase H s) locs os = BindH.resolveAll s locs os := by
  induction os with
  | nil => rfl
  | cons o os ih => simp only [BindH.resolveAll, resolveP_erase, ih]

theorem kindOfInstr_erase (s : Engine.State) (locs : List Nat) (v : Val) (i : Instr) :
    BindH.kindOfInstr (erase H s) locs v i = BindH.kindOfInstr s locs v i := by
  cases i <;> simp only [BindH.kindOfInstr, resolveAll_erase]

theorem instrImg_erase {s : Engine.State} {locs : List Nat} {v : Val} {i : Instr} {m : Nat}
    (Q : NestH.InstrImg s locs v i m) : NestH.InstrImg (erase H s) locs v i m := by
  cases i
  case bind body' o =>
    obtain ⟨b2, br2, lc2, h1, h2, h3, h4, h5, h6⟩ := Q
    exact ⟨b2, br2, lc2, h1, h2, h3, h4, h5, by rw [resolveP_erase]; exact h6⟩
  all_goals
    simp only [NestH.InstrImg] at Q ⊢
    rw [kindOfInstr_erase]
    exact Q

theorem elabOf2_erase {s : Engine.State} {t : Template} {v : Val} {all locs : List Nat} {r : Nat}
    (Q : NestH.ElabOf2 s t v all locs r) : NestH.ElabOf2 (erase H s) t v all locs r :=
  ⟨Q.len, fun j i m h1 h2 => instrImg_erase (Q.img j i m h1 h2), by rw [resolveP_erase]; exact Q.ret, Q.reg⟩

theorem genOK2_erase {env : Env} {s : Engine.State} (Q : NestH.GenOK2 env s) : NestH.GenOK2 env (erase H s) := by
  intro b br hb hv hs
  obtain ⟨v, r, locs, h1, h2, h3⟩ := Q b br hb hv hs
  exact ⟨v, r, locs, h1, h2, elabOf2_erase h3⟩

theorem qg2_erase {env : Env} {s : Engine.State} (Q : NestH.QG2 env s) : NestH.QG2 env (erase H s) := by
  obtain ⟨⟨rk, Q1⟩, Q2⟩ := Q
  have Q2' := genOK2_erase (H := H) Q2
  clear Q2
  xfer
  all_goals first
    | (refine n2_erase ?_; assumption)
    | (intro n hn
       refine n2_erase ?_
       have hh : ∀ n, n < s.nodes.size → NestH.N2 env rk s [] n := by assumption
       exact hh n hn)
    | (intro b br hb
       have hh : ∀ (b : Nat) (br : BindRec), s.binds[b]? = some br →
           ∃ f, NestH.BodyOK2 env rk s br.lhsChange f br.body := by assumption
       obtain ⟨f, hf⟩ := hh b br hb
       exact ⟨f, NestH.BodyOK2.mono (s := s) (s' := erase H s) rfl (fun r h _ => h) f _ hf⟩)

theorem qinvF_erase (Q : QInvF env sp s g) : QInvF env sp (erase H s) g :=
  ⟨ffrag_erase Q.frag, qg2_erase (H := H) Q.q, kinv_erase Q.k, Q.m, Q.gs, Q.dep⟩

theorem qinvFE_erase (Q : QInvFE env sp s) : QInvFE env sp (erase H s) := by
  obtain ⟨g, Q⟩ := Q
  exact ⟨g, qinvF_erase Q⟩

end IncrVerif.Proofs.LeakF
