import IncrVerif.Proofs.LeakH8
/-!
# C12 over histories, part 9: what the program holds after a list of drops does not depend on their order

`hold3 s`: the program's node handles, the `Var` handle counts, the observer clone counts.  A drop action that
returns acts on `hold3` by `dropT`, a total function of the action's kind; the `dropT`s commute; hence the
holdings after a list of drops (that runs) are a function of the multiset of drops.
-/
namespace IncrVerif.Proofs.LeakH
open IncrVerif.Engine IncrVerif.Driver IncrVerif.Proofs IncrVerif.Proofs.Obs IncrVerif.Proofs.Life
open IncrVerif.Proofs.Own

structure Hold3 where
  handles : List Nat
  vars : Array Nat
  obs : Array Nat

def hold3 (s : State) : Hold3 :=
  ⟨s.handles, s.vars.map (·.handles), s.observers.map (·.clones)⟩

inductive DropK where
  | var (v : Nat) | handle (n : Nat) | obs (o : Nat) | nop

/-- the kind of a drop action; the operand of `dropHandle` is resolved in `s0` -/
def kindOf (s0 : State) : Action → DropK
  | .dropVar v => .var v
  | .dropHandle o => match resolve s0 [] o with
    | .ok n => .handle n
    | .error _ => .nop
  | .dropObs o => .obs o
  | _ => .nop

def dropT (h : Hold3) : DropK → Hold3
  | .var v => { h with vars := h.vars.modify v (· - 1) }
  | .handle n => { h with handles := h.handles.erase n }
  | .obs o => { h with obs := h.obs.modify o (· - 1) }
  | .nop => h

theorem modify_comm (a : Array Nat) (i j : Nat) (f : Nat → Nat) :
    (a.modify i f).modify j f = (a.modify j f).modify i f := by
  apply Array.ext_getElem?
  intro k
  simp only [Array.getElem?_modify]
  by_cases h1 : i = k <;> by_cases h2 : j = k <;> simp [h1, h2]

theorem dropT_comm (h : Hold3) (a b : DropK) : dropT (dropT h a) b = dropT (dropT h b) a := by
  cases a <;> cases b <;> simp only [dropT]
  · rw [modify_comm]
  · rw [List.erase_comm]
  · rw [modify_comm]

theorem map_modify_comm {α} (vs : Array α) (v : Nat) (f : α → α) (g : α → Nat) (f' : Nat → Nat)
    (hfg : ∀ x, g (f x) = f' (g x)) : (vs.modify v f).map g = (vs.map g).modify v f' := by
  apply Array.ext_getElem?
  intro i
  rw [Array.getElem?_map, Array.getElem?_modify, Array.getElem?_modify, Array.getElem?_map]
  split
  · cases vs[i]? <;> simp [hfg]
  · rfl

theorem modify_id_of {α} (vs : Array α) (v : Nat) (f : α → α) (h : ∀ x, vs[v]? = some x → f x = x) :
    vs.modify v f = vs := by
  apply Array.ext_getElem?
  intro i
  rw [Array.getElem?_modify]
  split
  · rename_i hvi
    subst hvi
    cases hx : vs[v]? with
    | none => rfl
    | some x => simp [h x hx]
  · rfl

theorem map_modify_same {α β} (vs : Array α) (v : Nat) (f : α → α) (g : α → β)
    (hfg : ∀ x, g (f x) = g x) : (vs.modify v f).map g = vs.map g := by
  apply Array.ext_getElem?
  intro i
  rw [Array.getElem?_map, Array.getElem?_modify, Array.getElem?_map]
  split
  · cases vs[i]? <;> simp [hfg]
  · rfl

/-- the frame of the drop phase -/
def SameFrame (s0 s : State) : Prop := s.top = s0.top ∧ s.slots = s0.slots

theorem resolve_frame {s0 s : State} (F : SameFrame s0 s) (o : Opnd) : resolve s [] o = resolve s0 [] o := by
  cases o <;> simp only [resolve, F.1, F.2]

theorem disallowState_hold (s : State) (o : Nat) :
    hold3 (disallowState s o) = hold3 s ∧ SameFrame s (disallowState s o) := by
  unfold disallowState
  cases s.observers[o]? with
  | none => exact ⟨rfl, rfl, rfl⟩
  | some ob =>
    obtain ⟨n, st, hs, c⟩ := ob
    cases st
    · refine ⟨?_, rfl, rfl⟩
      have e : (afterDisCreated s o).observers.map (·.clones) = s.observers.map (·.clones) := by
        show (s.observers.modify o fun x => { x with state := .unlinked, handlers := [] }).map (·.clones) = _
        exact map_modify_same _ _ _ _ (fun _ => rfl)
      show Hold3.mk s.handles (s.vars.map (·.handles)) ((afterDisCreated s o).observers.map (·.clones)) = _
      rw [e]; rfl
    · refine ⟨?_, rfl, rfl⟩
      have e : (afterDisInUse s o).observers.map (·.clones) = s.observers.map (·.clones) := by
        show (s.observers.modify o fun x => { x with state := .disallowed }).map (·.clones) = _
        exact map_modify_same _ _ _ _ (fun _ => rfl)
      show Hold3.mk s.handles (s.vars.map (·.handles)) ((afterDisInUse s o).observers.map (·.clones)) = _
      rw [e]; rfl
    · exact ⟨rfl, rfl, rfl⟩
    · exact ⟨rfl, rfl, rfl⟩

theorem dropObsState_hold (s : State) (o : Nat) :
    hold3 (dropObsState s o) = dropT (hold3 s) (.obs o) ∧ SameFrame s (dropObsState s o) := by
  unfold dropObsState
  cases ho : s.observers[o]? with
  | none =>
    refine ⟨?_, rfl, rfl⟩
    show hold3 s = _
    simp only [dropT, hold3]
    congr 1
    refine (modify_id_of _ _ _ (fun x hx => ?_)).symm
    rw [Array.getElem?_map, ho] at hx
    cases hx
  | some ob =>
    dsimp only
    split
    · rename_i hc
      refine ⟨?_, rfl, rfl⟩
      simp only [dropT, hold3]
      congr 1
      refine (modify_id_of _ _ _ (fun x hx => ?_)).symm
      rw [Array.getElem?_map, ho] at hx
      simp only [Option.map_some, Option.some.injEq] at hx
      omega
    · have e : hold3 { s with observers := s.observers.modify o fun x => { x with clones := x.clones - 1 } }
          = dropT (hold3 s) (.obs o) := by
        simp only [dropT, hold3]
        congr 1
        exact map_modify_comm _ _ _ _ (· - 1) (fun _ => rfl)
      split
      · obtain ⟨h1, h2⟩ := disallowState_hold
          { s with observers := s.observers.modify o fun x => { x with clones := x.clones - 1 } } o
        exact ⟨h1.trans e, h2⟩
      · exact ⟨e, rfl, rfl⟩

/-- a drop action that returns: token table unchanged, frame unchanged, holdings moved by `dropT` -/
theorem drop_hold {env : Env} {s0 s s' : State} {a : Action} {tk : Array Nat} {r : String × Array Nat}
    (F : SameFrame s0 s) (ha : DropAction a) (h : (stepAction env a tk).run.run s = (.ok r, s')) :
    r.2 = tk ∧ SameFrame s0 s' ∧ hold3 s' = dropT (hold3 s) (kindOf s0 a) := by
  cases a <;> try exact ha.elim
  case dropVar v =>
    cases hv : s.vars[v]? with
    | none =>
      simp only [stepAction, Obs.run_bind, dropVarHandle_run_none s v hv] at h
      cases h
    | some vc =>
      rw [dropVar_action_run env tk s v vc hv] at h
      obtain ⟨e1, e⟩ := Prod.mk.inj h
      refine ⟨by cases e1; rfl, ?_, ?_⟩
      · rw [← e]; split
        · exact F
        · exact F
      · rw [← e]
        simp only [kindOf, dropT, hold3]
        split
        · rename_i h0
          congr 1
          refine (modify_id_of _ _ _ (fun x hx => ?_)).symm
          rw [Array.getElem?_map, hv] at hx
          simp only [Option.map_some, Option.some.injEq] at hx
          omega
        · show Hold3.mk _ _ _ = Hold3.mk _ _ _
          congr 1
          exact map_modify_comm s.vars v (fun x => { x with handles := x.handles - 1 }) (·.handles) (· - 1)
            (fun _ => rfl)
  case dropHandle o =>
    rw [dropHandle_run] at h
    simp only [kindOf, ← resolve_frame F o]
    cases hr : resolve s [] o with
    | error p => rw [hr] at h; cases h
    | ok n =>
      rw [hr] at h
      dsimp only at h
      split at h
      · obtain ⟨e1, e⟩ := Prod.mk.inj h
        refine ⟨by cases e1; rfl, by rw [← e]; exact F, ?_⟩
        rw [← e]; rfl
      · rename_i hc
        obtain ⟨e1, e⟩ := Prod.mk.inj h
        refine ⟨by cases e1; rfl, by rw [← e]; exact F, ?_⟩
        rw [← e]
        simp only [dropT, hold3]
        congr 1
        refine (List.erase_of_not_mem ?_).symm
        intro hm
        exact hc (List.contains_iff_mem.2 hm)
  case dropObs o =>
    rw [stepAction_dropObs_run] at h
    obtain ⟨h1, h2⟩ := Prod.mk.inj h
    obtain ⟨e1, e2⟩ := dropObsState_hold s o
    refine ⟨?_, ?_, ?_⟩
    · cases ho : s.observers[o]? with
      | none => rw [ho] at h1; cases h1
      | some ob =>
        rw [ho] at h1
        dsimp only at h1
        split at h1 <;> cases h1 <;> rfl
    · rw [← h2]; exact ⟨e2.1.trans F.1, e2.2.trans F.2⟩
    · rw [← h2]; exact e1
  case disallow o =>
    rw [stepAction_disallow_run] at h
    obtain ⟨h1, h2⟩ := Prod.mk.inj h
    obtain ⟨e1, e2⟩ := disallowState_hold s o
    refine ⟨?_, ?_, ?_⟩
    · split at h1 <;> cases h1
      rfl
    · rw [← h2]; exact ⟨e2.1.trans F.1, e2.2.trans F.2⟩
    · rw [← h2]; exact e1

/-- after a list of drops that runs: the holdings are the fold of `dropT` -/
theorem drops_hold {env : Env} {s0 : State} {drops : List Action} {s s' : State} {tk tk' : Array Nat}
    (F : SameFrame s0 s) (hd : ∀ a, a ∈ drops → DropAction a)
    (h : Quiet.runActions env drops s tk = .ok (s', tk')) :
    tk' = tk ∧ SameFrame s0 s' ∧ hold3 s' = drops.foldl (fun x a => dropT x (kindOf s0 a)) (hold3 s) := by
  induction drops generalizing s tk with
  | nil => simp only [Quiet.runActions] at h; cases h; exact ⟨rfl, F, rfl⟩
  | cons a as ih =>
    simp only [Quiet.runActions] at h
    rcases hx : (stepAction env a tk).run.run s with ⟨_ | r, s1⟩
    · rw [hx] at h; cases h
    · rw [hx] at h
      obtain ⟨e1, F1, e2⟩ := drop_hold F (hd a (List.mem_cons_self ..)) hx
      obtain ⟨e3, F2, e4⟩ := ih F1 (fun b hb => hd b (List.mem_cons_of_mem _ hb)) h
      exact ⟨e3.trans e1, F2, by rw [e4, e2]; rfl⟩

/-- **drop-order independence of the holdings.** Two permutations of a list of drops, both run from the same
state: the program holds the same afterwards. -/
theorem perm_hold {env : Env} {drops drops' : List Action} {s s1 s2 : State} {tk tk1 tk2 : Array Nat}
    (hd : ∀ a, a ∈ drops → DropAction a) (hp : drops'.Perm drops)
    (h1 : Quiet.runActions env drops s tk = .ok (s1, tk1))
    (h2 : Quiet.runActions env drops' s tk = .ok (s2, tk2)) :
    hold3 s2 = hold3 s1 ∧ s2.slots = s1.slots := by
  obtain ⟨-, F1, e1⟩ := drops_hold (s0 := s) ⟨rfl, rfl⟩ hd h1
  obtain ⟨-, F2, e2⟩ := drops_hold (s0 := s) ⟨rfl, rfl⟩ (fun a hm => hd a (hp.mem_iff.1 hm)) h2
  refine ⟨?_, F2.2.trans F1.2.symm⟩
  rw [e1, e2]
  exact hp.foldl_eq' (fun x _ y _ z => dropT_comm z _ _) _

theorem holdsNothing_of_hold3 {s t : State} (h : hold3 t = hold3 s) (hs : t.slots = s.slots)
    (H : HoldsNothing s) : HoldsNothing t := by
  have h1 : t.handles = s.handles := congrArg Hold3.handles h
  have h2 : t.vars.map (·.handles) = s.vars.map (·.handles) := congrArg Hold3.vars h
  have h3 : t.observers.map (·.clones) = s.observers.map (·.clones) := congrArg Hold3.obs h
  refine ⟨h1.trans H.handles, hs.trans H.slots, fun c vc hc => ?_, fun o ob ho => ?_⟩
  · have := congrArg (·[c]?) h2
    simp only [Array.getElem?_map, hc, Option.map_some] at this
    cases hs' : s.vars[c]? with
    | none => rw [hs'] at this; cases this
    | some vc0 =>
      rw [hs'] at this
      simp only [Option.map_some, Option.some.injEq] at this
      rw [this]; exact H.vars c vc0 hs'
  · have := congrArg (·[o]?) h3
    simp only [Array.getElem?_map, ho, Option.map_some] at this
    cases hs' : s.observers[o]? with
    | none => rw [hs'] at this; cases this
    | some ob0 =>
      rw [hs'] at this
      simp only [Option.map_some, Option.some.injEq] at this
      rw [this]; exact H.observers o ob0 hs'

end IncrVerif.Proofs.LeakH
