import IncrVerif.Proofs.MemoH8
import IncrVerif.Proofs.MemoH9
/-!
# C20 over whole histories, part 8: the nodes of memo tables are hereditarily static top-level nodes (K3)

If the operands of the memo bodies are earlier locals or handles naming hereditarily static top-level nodes
(`MemoOuterOK env s`, monotone along futures), every node a memoised function stores is `STop` (`EntriesSTop`),
through every API action.  Together with `TopValid` (kept by every action, `KA*/KB*`) memo nodes stay valid.
-/
namespace IncrVerif.Proofs.MemoH
open IncrVerif.Engine IncrVerif.Proofs.Obs IncrVerif.Proofs.Memo IncrVerif.Proofs.Own

/-- the operands of an instruction of a memo body -/
def instrOpnds : Instr → List Opnd
  | .map _ args => args
  | .fold _ _ cs => cs
  | _ => []

/-- an earlier local, or a handle that names a hereditarily static top-level node -/
def OpndS (s : State) : Opnd → Prop
  | .loc _ => True
  | .outer k => ∃ n, s.top[k]? = some n ∧ STop s n
  | _ => False

theorem OpndS.mono {s s' : State} (hf : Fut s s') {o : Opnd} (h : OpndS s o) : OpndS s' o := by
  cases o <;> simp only [OpndS] at h ⊢
  obtain ⟨n, h1, h2⟩ := h
  exact ⟨n, hf.top _ _ h1, h2.mono hf⟩

/-- the outer nodes the memo bodies refer to exist and are hereditarily static top-level nodes -/
def MemoOuterOK (env : Env) (s : State) : Prop :=
  ∀ m, ∀ i ∈ (env.memo m).instrs, ∀ o ∈ instrOpnds i, OpndS s o

theorem MemoOuterOK.mono {env : Env} {s s' : State} (hf : Fut s s') (h : MemoOuterOK env s) :
    MemoOuterOK env s' := fun m i hi o ho => (h m i hi o ho).mono hf

/-- every node stored in a memo table is a hereditarily static top-level node -/
def EntriesSTop (s : State) : Prop :=
  ∀ m tbl, (m, tbl) ∈ s.memos → ∀ key n, (key, n) ∈ tbl → STop s n

/-! ## one static instruction at top level creates one `STop` node -/

theorem createNode_top_run (k : Kind) (c : CutoffK) (s : State) :
    (createNode k .top c).run.run s = (.ok s.nodes.size,
      { s with counters := { s.counters with created := s.counters.created + 1 },
               nodes := s.nodes.push { kind := k, createdIn := .top, cutoff := c } }) := by
  simp only [Engine.createNode, Engine.bumpCounter, run_bind, run_get, run_modify, run_pure]

theorem mapM_resolve (loc : List Nat) (args : List Opnd) (s : State) (l : List Nat) (s' : State)
    (h : (args.mapM (resolveOpnd loc)).run.run s = (.ok l, s')) :
    s' = s ∧ ∀ x ∈ l, ∃ o ∈ args, resolve s loc o = .ok x := by
  induction args generalizing l s' with
  | nil => simp only [List.mapM_nil, run_pure] at h; cases h; exact ⟨rfl, fun _ hx => nomatch hx⟩
  | cons a rest ih =>
    simp only [List.mapM_cons] at h
    obtain ⟨x, s1, h1, h2⟩ := bind_ok_inv' h
    rw [resolveOpnd_run] at h1
    injection h1 with hra hs1
    rw [← hs1] at h2
    obtain ⟨xs, s2, h3, h4⟩ := bind_ok_inv' h2
    obtain ⟨hs2, hxs⟩ := ih xs s2 h3
    rw [run_pure] at h4
    injection h4 with hl hs'
    injection hl with hl
    refine ⟨hs'.symm.trans hs2, fun y hy => ?_⟩
    rw [← hl] at hy
    rcases List.mem_cons.1 hy with hy | hy
    · exact ⟨a, List.mem_cons_self, hy ▸ hra⟩
    · obtain ⟨o, ho, hr⟩ := hxs y hy
      exact ⟨o, List.mem_cons_of_mem _ ho, hr⟩

/-- a resolved operand of a memo body is an `STop` node -/
theorem resolve_stop {s : State} {loc : List Nat} (hloc : ∀ x ∈ loc, STop s x) {o : Opnd} (ho : OpndS s o)
    {x : Nat} (h : resolve s loc o = .ok x) : STop s x := by
  cases o <;> simp only [OpndS] at ho
  case loc j =>
    simp only [resolve] at h
    cases hl : loc[j]? with
    | none => rw [hl] at h; cases h
    | some y => rw [hl] at h; cases h; exact hloc _ (List.mem_of_getElem? hl)
  case outer k =>
    obtain ⟨n, h1, h2⟩ := ho
    simp only [resolve, h1] at h
    cases h; exact h2

/-- the state after `createNode k .top c` -/
def pushed (s : State) (k : Kind) (c : CutoffK) : State :=
  { s with counters := { s.counters with created := s.counters.created + 1 },
           nodes := s.nodes.push { kind := k, createdIn := .top, cutoff := c } }

theorem createNode_top_run' (k : Kind) (c : CutoffK) (s : State) :
    (createNode k .top c).run.run s = (.ok s.nodes.size, pushed s k c) := createNode_top_run k c s

/-- pushing a static top-level node over `STop` inputs -/
theorem STop.push {s : State} (k : Kind) (c : CutoffK) (hk : StaticK k)
    (hkids : ∀ x ∈ kindRefs k, STop s x) :
    Fut s (pushed s k c) ∧ STop (pushed s k c) s.nodes.size := by
  have hf : Fut s (pushed s k c) :=
    ⟨by show s.nodes.size ≤ (s.nodes.push _).size; simp, fun i hi => by
      show nodeK (({ s with nodes := s.nodes.push _ } : State).nodeD i) = _
      rw [nodeD_push]; simp [Nat.ne_of_lt hi], fun _ _ h => h⟩
  have hnd : (pushed s k c).nodeD s.nodes.size = { kind := k, createdIn := .top, cutoff := c } := by
    show ({ s with nodes := s.nodes.push _ } : State).nodeD s.nodes.size = _
    rw [nodeD_push]; simp
  refine ⟨hf, .mk _ (by show s.nodes.size < (s.nodes.push _).size; simp) (by rw [hnd]) (by rw [hnd]; exact hk)
    (by rw [hnd]; exact fun x hx => (hkids x hx).lt) (by rw [hnd]; exact fun x hx => (hkids x hx).mono hf)⟩

/-- the result of one static instruction run at top level -/
theorem elabInstr_stop (loc : List Nat) (v : Val) {i : Instr} (hi : StaticI i) (s : State)
    (hsc : s.currentScope = .top) (hloc : ∀ x ∈ loc, STop s x) (hop : ∀ o ∈ instrOpnds i, OpndS s o)
    (r : Option Nat) (s' : State) (h : (elabInstr loc v i).run.run s = (.ok r, s')) :
    Fut s s' ∧ s'.currentScope = .top ∧ ∃ n, r = some n ∧ STop s' n := by
  unfold Engine.elabInstr at h
  rw [run_bind, run_get] at h
  dsimp only at h
  rw [hsc] at h
  cases i <;> simp only [StaticI] at hi
  case const c =>
    dsimp only at h
    rw [map_eq_pure_bind, run_bind, createNode_top_run'] at h
    cases h
    have := STop.push (s := s) (.const c) .eq trivial (fun _ hx => nomatch hx)
    exact ⟨this.1, hsc, _, rfl, this.2⟩
  case lhsConst =>
    dsimp only at h
    rw [map_eq_pure_bind, run_bind, createNode_top_run'] at h
    cases h
    have := STop.push (s := s) (.const v) .eq trivial (fun _ hx => nomatch hx)
    exact ⟨this.1, hsc, _, rfl, this.2⟩
  case var c =>
    dsimp only at h
    simp only [map_eq_pure_bind, Engine.createVar, run_bind, run_get, createNode_top_run', run_modify,
      run_pure] at h
    cases h
    have := STop.push (s := s) (.var s.vars.size) .eq trivial (fun _ hx => nomatch hx)
    refine ⟨⟨this.1.nodesLe, this.1.core, fun _ _ h => h⟩, hsc, _, rfl, ?_⟩
    refine STop.mono (s := pushed s (.var s.vars.size) .eq) (Fut.of_eq ?_ ?_) this.2 <;> rfl
  case map f args =>
    dsimp only at h
    obtain ⟨l, s1, h1, h2⟩ := bind_ok_inv' h
    obtain ⟨hs1, hl⟩ := mapM_resolve loc args s l s1 h1
    rw [hs1, map_eq_pure_bind, run_bind, createNode_top_run'] at h2
    cases h2
    have := STop.push (s := s) (.map f l) .eq trivial (fun x hx => by
      obtain ⟨o, ho, hr⟩ := hl x hx
      exact resolve_stop hloc (hop o ho) hr)
    exact ⟨this.1, hsc, _, rfl, this.2⟩
  case fold f init cs =>
    dsimp only at h
    obtain ⟨l, s1, h1, h2⟩ := bind_ok_inv' h
    obtain ⟨hs1, hl⟩ := mapM_resolve loc cs s l s1 h1
    rw [hs1] at h2
    split at h2
    · rw [map_eq_pure_bind, run_bind, createNode_top_run'] at h2
      cases h2
      have := STop.push (s := s) (.const init) .eq trivial (fun _ hx => nomatch hx)
      exact ⟨this.1, hsc, _, rfl, this.2⟩
    · rw [map_eq_pure_bind, run_bind, createNode_top_run'] at h2
      cases h2
      have := STop.push (s := s) (.fold f init l) .eq trivial (fun x hx => by
        obtain ⟨o, ho, hr⟩ := hl x hx
        exact resolve_stop hloc (hop o ho) hr)
      exact ⟨this.1, hsc, _, rfl, this.2⟩

theorem elabLoop_stop (v : Val) (instrs : List Instr) (hi : ∀ i ∈ instrs, StaticI i) :
    ∀ (loc : List Nat) (s : State) r s', s.currentScope = .top → (∀ x ∈ loc, STop s x) →
      (∀ i ∈ instrs, ∀ o ∈ instrOpnds i, OpndS s o) →
      (forIn instrs loc fun i r => do
        let a ← elabInstr r v i
        match a with
        | some n => pure (ForInStep.yield (r ++ [n]))
        | none => pure (ForInStep.yield r) : M (List Nat)).run.run s = (.ok r, s') →
      Fut s s' ∧ ∀ x ∈ r, STop s' x := by
  induction instrs with
  | nil =>
    intro loc s r s' _ hloc _ h
    rw [List.forIn_nil, run_pure] at h
    cases h; exact ⟨Fut.refl _, hloc⟩
  | cons i rest ih =>
    intro loc s r s' hsc hloc hop h
    rw [List.forIn_cons] at h
    obtain ⟨st, s1, h1, h2⟩ := bind_ok_inv' h
    obtain ⟨a, s0, h3, h4⟩ := bind_ok_inv' h1
    obtain ⟨hf, hsc0, n, rfl, hn⟩ := elabInstr_stop loc v (hi i List.mem_cons_self) s hsc hloc
      (hop i List.mem_cons_self) a s0 h3
    dsimp only at h4
    rw [run_pure] at h4
    injection h4 with hst hs01
    injection hst with hst
    rw [← hst, ← hs01] at h2
    dsimp only at h2
    have := ih (fun j hj => hi j (List.mem_cons_of_mem _ hj)) (loc ++ [n]) s0 r s' hsc0
      (by
        intro x hx
        rcases List.mem_append.1 hx with hx | hx
        · exact (hloc x hx).mono hf
        · simp only [List.mem_singleton] at hx; subst hx; exact hn)
      (fun j hj o ho => (hop j (List.mem_cons_of_mem _ hj) o ho).mono hf) h2
    exact ⟨hf.trans this.1, this.2⟩

/-- the node a memo body returns is a hereditarily static top-level node -/
theorem elabTemplateBase_stop {t : Template} (hi : ∀ i ∈ t.instrs, StaticI i) (hret : ∃ j, t.ret = .loc j)
    (v : Val) (s : State) (hsc : s.currentScope = .top)
    (hop : ∀ i ∈ t.instrs, ∀ o ∈ instrOpnds i, OpndS s o) (n : Nat) (s' : State)
    (h : (elabTemplateBase t v []).run.run s = (.ok n, s')) : STop s' n := by
  unfold Engine.elabTemplateBase at h
  dsimp only at h
  obtain ⟨loc, s1, hx, h⟩ := bind_ok_inv' h
  have := elabLoop_stop v t.instrs hi [] s loc s1 hsc (fun _ h => nomatch h) hop hx
  obtain ⟨j, hj⟩ := hret
  rw [hj] at h
  simp only [Engine.resolveOpnd] at h
  cases hl : loc[j]? with
  | none => rw [hl] at h; cases h
  | some x =>
    rw [hl] at h
    cases h
    exact this.2 n (List.mem_of_getElem? hl)

/-! ## the step relation -/

structure ES (env : Env) (s s' : State) : Prop where
  fut : Fut s s'
  stop : MemoOuterOK env s → EntriesSTop s → EntriesSTop s'

instance (env : Env) : PreOrd (ES env) :=
  ⟨fun s => ⟨Fut.refl s, fun _ h => h⟩,
   fun h1 h2 => ⟨h1.fut.trans h2.fut, fun ho h => h2.stop (ho.mono h1.fut) (h1.stop ho h)⟩⟩

theorem EntriesSTop.mono {s s' : State} (hf : Fut s s') (hm : s'.memos = s.memos) (h : EntriesSTop s) :
    EntriesSTop s' := fun m tbl hmem key n hk => (h m tbl (hm ▸ hmem) key n hk).mono hf

instance (env : Env) : ILocal (ES env) :=
  ⟨fun _ _ h => ⟨h.fut, fun _ he => he.mono h.fut h.memos⟩⟩

theorem ES.of_quiet {env : Env} {s s' : State} (h : Quiet0 s s') : ES env s s' :=
  ⟨Fut.of_eq h.nodes h.top, fun _ he => he.mono (Fut.of_eq h.nodes h.top) h.memos⟩

theorem es_memoCall {env : Env} (hok : MemoBodyOK env) (m : Nat) (key : Int) :
    Pres (ES env) (memoCall env m key) := by
  refine ⟨fun s r s' hrun => ?_⟩
  rw [memoCall_run] at hrun
  split at hrun
  · cases hrun; exact PreOrd.refl _
  · rcases ht : tick.run.run s with ⟨_ | u, s1⟩
    · rw [ht] at hrun; cases hrun
      exact ILocal.of_frame0 _ _ ((PresF.tick (R := F0V)).h _ _ _ ht).toF0
    · rw [ht] at hrun
      dsimp only at hrun
      have hf1 : F0V s (memoStart m key s1) :=
        PreOrd.trans ((PresF.tick (R := F0V)).h _ _ _ ht) (F0V.memoStart m key s1)
      rcases he : (elabTemplateBase (env.memo m) (.int key)).run.run (memoStart m key s1) with ⟨_ | n, s2⟩
      · rw [he] at hrun; cases hrun
        exact ILocal.of_frame0 _ _
          (PreOrd.trans hf1 ((PresF.elabTemplateBase (R := F0V) _ _ _).h _ _ _ he)).toF0
      · rw [he] at hrun; cases hrun
        have hf2 : F0V s s2 := PreOrd.trans hf1 ((PresF.elabTemplateBase (R := F0V) _ _ _).h _ _ _ he)
        have hfin : Fut s2 (memoFinish s1.currentScope m key n s2) := Fut.of_eq rfl rfl
        refine ⟨hf2.toF0.fut.trans hfin, fun ho he0 => ?_⟩
        have hn : STop s2 n := elabTemplateBase_stop (hok m).1 (hok m).2 _ _ rfl
          (fun i hi o hoo => (ho m i hi o hoo).mono hf1.toF0.fut) n s2 he
        have he2 : EntriesSTop s2 := he0.mono hf2.toF0.fut hf2.memos
        intro m' tbl hm key' n' hk
        rw [memoFinish_memos] at hm
        rcases List.mem_cons.1 hm with hm | hm
        · cases hm
          rcases List.mem_cons.1 hk with hk | hk
          · cases hk; exact hn.mono hfin
          · obtain ⟨t0, q1, q2⟩ := table_mem (List.mem_filter.1 hk).1
            exact (he2 m t0 q1 key' n' q2).mono hfin
        · exact (he2 m' tbl (List.mem_filter.1 hm).1 key' n' hk).mono hfin

theorem ES.sweep {env : Env} (s : State) : ES env s (sweep s) := by
  refine ⟨Fut.of_eq rfl rfl, fun _ he m tbl hm key n hk => ?_⟩
  have hm' : (m, tbl) ∈ gcMemos s.aliveSet s.memos := hm
  obtain ⟨e, hmem, heq⟩ := List.mem_map.1 hm'
  obtain ⟨m0, t0⟩ := e
  cases heq
  refine STop.mono (s' := MemoH.sweep s) (Fut.of_eq ?_ ?_) (he m t0 hmem key n (List.mem_filter.1 hk).1) <;> rfl

theorem ES.push {env : Env} (s : State) (n : Nat) :
    ES env s { s with top := s.top.push n, handles := n :: s.handles } :=
  ⟨(MS.push (env := env) s n).fut, fun _ he => he.mono (MS.push (env := env) s n).fut rfl⟩

/-- EVERY API action, whatever its outcome, is an `ES` step -/
theorem es_stepAction {env : Env} (hok : MemoBodyOK env) (a : Action) (tokens : Array Nat) :
    Pres (ES env) (stepAction env a tokens) := by
  have hm : ∀ m key, (fun _ _ => True : Nat → Int → Prop) m key → Pres (ES env) (memoCall env m key) :=
    fun m key _ => es_memoCall hok m key
  by_cases hp : Action.isPlain a = true
  · exact PresI.stepAction_plain env a tokens hp
  · cases a <;> simp only [Action.isPlain, not_true_eq_false] at hp
    case create i =>
      exact PresB.stepAction_create hm (fun _ _ _ => trivial) tokens ES.push
    case observe o =>
      exact PresI.stepAction_observe env o tokens fun s ob l => ES.of_quiet ⟨rfl, rfl, rfl, rfl⟩
    case cloneObs o =>
      exact PresI.stepAction_cloneObs env o tokens fun s f _ => ES.of_quiet ⟨rfl, rfl, rfl, rfl⟩
    case dropObs o =>
      exact (Quiet0.stepAction_dropObs env o tokens).mono fun _ _ h => ES.of_quiet h
    case dropHandle o =>
      exact (Quiet0.stepAction_dropHandle env o tokens).mono fun _ _ h => ES.of_quiet h
    case stabilise =>
      refine ⟨fun s r s' hrun => ?_⟩
      rcases Split.stepAction_stabilise hm (bodiesP_true env) tokens s r s' hrun with h | ⟨s1, h1, rfl⟩
      · exact h
      · exact PreOrd.trans h1 (ES.sweep s1)

theorem es_run {env : Env} (hok : MemoBodyOK env) {P} {s s' : State} (h : Life.Run env P s s') :
    ES env s s' :=
  Life.Run.induct (fun a tokens _ => es_stepAction hok a tokens)
    (fun _ => ES.of_quiet ⟨rfl, rfl, rfl, rfl⟩) h

end IncrVerif.Proofs.MemoH
