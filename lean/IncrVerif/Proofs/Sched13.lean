import IncrVerif.Proofs.Sched12
import IncrVerif.Proofs.Sched9
/-!
# `stabilise` returns (idle quiescent engine, enough fuel)
-/
namespace IncrVerif.Proofs.Sched
open IncrVerif.Engine IncrVerif.Proofs IncrVerif.Proofs.Step

/-- **total correctness of `stabilise`** on an idle quiescent engine of the static fragment: with
`fuel ≥ s.nodes.size + 2` it returns (no assertion fails), and `stabilise_quiet` describes the result -/
theorem stabilise_total {env : Env} {fuel : Nat} {s : State} (Q : QuietInv env s) (I : Idle s)
    (S : Safe s) (hf : s.nodes.size + 2 ≤ fuel) :
    ∃ s', (stabilise env fuel).run.run s = (.ok (), s') := by
  have D1 := Q.toDrain
  have S1 : Safe { s with status := .stabilising } := ⟨S.height, S.scope⟩
  obtain ⟨s2, hd, D2, he, f⟩ := drainHeap_total_values D1 S1 hf
  have c := drainHeap_calm fuel _ s2 D1 hd
  obtain ⟨s', hend, -⟩ := stabiliseEnd_idle env fuel s2 (by rw [c.setDuringStab]; exact I.setDuringStab)
    (by rw [c.deadVars]; exact I.deadVars) (by rw [c.has I.handlers]; exact I.handleAfterStab)
  have e1 := addNewObservers_nil env fuel { s with status := .stabilising } I.newObservers
  have e2 := unlinkDisallowedObservers_nil fuel { s with status := .stabilising } I.disallowedObservers
  refine ⟨s', ?_⟩
  unfold stabilise
  have hst : (s.status == Status.notStabilising) = true := by rw [Q.status]; rfl
  simp only [run_bind, run_get, run_assertM, hst, if_true, run_modify]
  rw [e1]
  simp only []
  rw [e2]
  simp only []
  rw [hd]
  exact hend

end IncrVerif.Proofs.Sched
