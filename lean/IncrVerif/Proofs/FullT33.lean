import IncrVerif.Proofs.FullT31
import IncrVerif.Proofs.FullH63
import IncrVerif.Proofs.FullH70
/-!
# C04 combined fragment: non-vacuity — the example histories of C01Full (`exHistF`: binds incl. nested + map_ref chain + map_with_old; `exHistG`: depend_on + the cutoff action)
have valid indices and end in states with room
-/
namespace IncrVerif.Proofs.FullT
open IncrVerif.Engine IncrVerif.Driver IncrVerif.Proofs IncrVerif.Proofs.FullH
open IncrVerif.Proofs.NestH (runS ActionIdx growTop grow2 HasRoomG)

theorem exHistF_idx : ValidIdxF 0 0 0 exHistF := by
  simp only [exHistF, ValidIdxF, ActionIdxF, virtA, virtI, ActionIdx, growTop, grow2, Quiet.grow]
  refine ⟨?_, ?_, ?_, ?_, ?_, ?_, ?_, ?_, ?_, ?_, ?_, ?_, ?_, ?_, ?_, ?_, ?_, ?_, ?_, ?_, ?_, trivial⟩ <;>
    first
    | exact ⟨trivial, fun _ _ h => by cases h⟩
    | exact ⟨by decide, fun _ _ h => by cases h⟩
    | exact ⟨⟨_, rfl, by decide⟩, fun _ _ h => by cases h⟩

theorem exHistG_idx : ValidIdxF 0 0 0 exHistG := by
  simp only [exHistG, ValidIdxF, ActionIdxF, virtA, virtI, ActionIdx, growTop, grow2, Quiet.grow]
  refine ⟨?_, ?_, ?_, ?_, ?_, ?_, ?_, ?_, ?_, ?_, ?_, ?_, ?_, ?_, ?_, ?_, ?_, ?_, ?_, ?_, trivial⟩ <;>
    first
    | exact ⟨trivial, fun _ _ h => by cases h <;> exact ⟨_, rfl, by decide⟩⟩
    | exact ⟨by decide, fun _ _ h => by cases h⟩
    | exact ⟨⟨_, rfl, by decide⟩, fun _ _ h => by cases h⟩
    | (refine ⟨?_, fun _ _ h => by cases h⟩
       intro a ha
       simp only [List.mem_cons, List.mem_nil_iff, or_false] at ha
       rcases ha with rfl | rfl <;> exact ⟨_, rfl, by decide⟩)

end IncrVerif.Proofs.FullT
