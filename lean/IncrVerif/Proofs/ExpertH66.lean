import IncrVerif.Engine.Run
import IncrVerif.Proofs.Step
import IncrVerif.Proofs.ExpertLemmas
/-!
# Independence of the engine from `Env.expertFn` outside `expertValue`
-/
namespace IncrVerif.Proofs.ExpertH
open IncrVerif.Engine IncrVerif.Proofs IncrVerif.Proofs.Step

/-- `env` with another expert-closure table -/
def withX (env : Env) (g : Nat → List (Option Val) → List (Option Val) → Val) : Env := { env with expertFn := g }

section
variable (env : Env) (g : Nat → List (Option Val) → List (Option Val) → Val)

theorem value_withX (s : State) (n : Nat) : State.value (withX env g) s n = State.value env s n := rfl

theorem value_withX' : State.value (withX env g) = State.value env := rfl

theorem tryGetValue_withX (s : State) (o : Nat) :
    State.tryGetValue (withX env g) s o = State.tryGetValue env s o := rfl

theorem nodeUpdate_withX (s : State) (n : Nat) :
    State.nodeUpdate (withX env g) s n = State.nodeUpdate env s n := rfl

theorem shouldCutoff_withX (n : Nat) (o v : Val) :
    shouldCutoff (withX env g) n o v = shouldCutoff env n o v := rfl

theorem edgeOnChange_withX (e : Nat) (edge : ExpertEdge) :
    edgeOnChange (withX env g) e edge = edgeOnChange env e edge := rfl

theorem runEdgeCallback_withX (e i : Nat) :
    runEdgeCallback (withX env g) e i = runEdgeCallback env e i := rfl

theorem becameNecessary_addParent_withX (fuel : Nat) :
    (∀ n, becameNecessary (withX env g) fuel n = becameNecessary env fuel n) ∧
    (∀ c i p, addParentWithoutAdjustingHeights (withX env g) fuel c i p =
      addParentWithoutAdjustingHeights env fuel c i p) := by
  induction fuel with
  | zero =>
    constructor
    · intro n; unfold becameNecessary; rfl
    · intro c i p; unfold addParentWithoutAdjustingHeights; rfl
  | succ fuel ih =>
    obtain ⟨ih1, ih2⟩ := ih
    constructor
    · intro n
      unfold becameNecessary
      simp only [ih2]
    · intro c i p
      unfold addParentWithoutAdjustingHeights
      simp only [ih1, runEdgeCallback_withX]

theorem becameNecessary_withX (fuel n : Nat) :
    becameNecessary (withX env g) fuel n = becameNecessary env fuel n :=
  (becameNecessary_addParent_withX env g fuel).1 n

theorem addParentWithoutAdjustingHeights_withX (fuel c i p : Nat) :
    addParentWithoutAdjustingHeights (withX env g) fuel c i p =
      addParentWithoutAdjustingHeights env fuel c i p :=
  (becameNecessary_addParent_withX env g fuel).2 c i p

theorem becameNecessaryPropagate_withX (fuel n : Nat) :
    becameNecessaryPropagate (withX env g) fuel n = becameNecessaryPropagate env fuel n := by
  unfold becameNecessaryPropagate
  simp only [becameNecessary_withX]

theorem stateAddParent_withX (fuel c i p : Nat) :
    stateAddParent (withX env g) fuel c i p = stateAddParent env fuel c i p := by
  unfold stateAddParent
  simp only [addParentWithoutAdjustingHeights_withX]

theorem changeChildBindRhs_withX (fuel main : Nat) (old : Option Nat) (new index : Nat) :
    changeChildBindRhs (withX env g) fuel main old new index =
      changeChildBindRhs env fuel main old new index := by
  unfold changeChildBindRhs
  simp only [stateAddParent_withX]

theorem expertAddDependency_withX (fuel n child : Nat) (cb : Bool) :
    expertAddDependency (withX env g) fuel n child cb = expertAddDependency env fuel n child cb := by
  unfold expertAddDependency
  simp only [stateAddParent_withX]

theorem memoCall_withX (m : Nat) (key : Int) : memoCall (withX env g) m key = memoCall env m key := rfl

theorem elabInstrM_withX (loc : List Nat) (v : Val) (i : Instr) :
    elabInstrM (withX env g) loc v i = elabInstrM env loc v i := by
  unfold elabInstrM
  simp only [memoCall_withX]

theorem elabTemplate_withX (t : Template) (v : Val) :
    elabTemplate (withX env g) t v = elabTemplate env t v := by
  unfold elabTemplate
  simp only [elabInstrM_withX]

theorem runEffectBasic_withX (e : Effect) : runEffectBasic (withX env g) e = runEffectBasic env e := rfl

theorem valueUnwrap_withX (n : Nat) (site : String) :
    valueUnwrap (withX env g) n site = valueUnwrap env n site := rfl

theorem childChanged_withX (fuel p c i : Nat) (o : Option Val) :
    childChanged (withX env g) fuel p c i o = childChanged env fuel p c i o := by
  induction fuel generalizing p c i o with
  | zero => unfold childChanged; rfl
  | succ fuel ih =>
    unfold childChanged
    simp only [ih, runEdgeCallback_withX, valueUnwrap_withX, shouldCutoff_withX]
    rfl

theorem maybeChangeValueManual_withX (fuel n : Nat) (o : Option Val) (d r : Bool) :
    maybeChangeValueManual (withX env g) fuel n o d r = maybeChangeValueManual env fuel n o d r := by
  unfold maybeChangeValueManual
  simp only [childChanged_withX]

theorem maybeChangeValue_withX (fuel n : Nat) (v : Val) :
    maybeChangeValue (withX env g) fuel n v = maybeChangeValue env fuel n v := by
  unfold maybeChangeValue
  simp only [maybeChangeValueManual_withX, shouldCutoff_withX]

theorem runEffects_withX (fuel : Nat) (effs : List Effect) (arg : Int) :
    runEffects (withX env g) fuel effs arg = runEffects env fuel effs arg := by
  unfold runEffects
  simp only [expertAddDependency_withX, runEffectBasic_withX]

theorem perKeyDriver_withX (fuel op : Nat) (m : List (Int × Int)) :
    perKeyDriver (withX env g) fuel op m = perKeyDriver env fuel op m := by
  unfold perKeyDriver
  simp only [expertAddDependency_withX]
  rfl

theorem withOldEvents_withX (g' n : Nat) (σ : Val) (old : Option Val) (x new : Val) (did : Bool) :
    withOldEvents (withX env g) g' n σ old x new did = withOldEvents env g' n σ old x new did := rfl

theorem addNewObservers_withX (fuel : Nat) :
    addNewObservers (withX env g) fuel = addNewObservers env fuel := by
  unfold addNewObservers
  simp only [becameNecessaryPropagate_withX]

theorem runAll_withX (fuel o n : Nat) (nu : NodeUpdate) (now : Int) :
    runAll (withX env g) fuel o n nu now = runAll env fuel o n nu now := by
  unfold runAll
  simp only [runEffects_withX, valueUnwrap_withX]
  rfl

theorem stabiliseEnd_withX (fuel : Nat) :
    stabiliseEnd (withX env g) fuel = stabiliseEnd env fuel := by
  unfold stabiliseEnd
  simp only [runAll_withX, nodeUpdate_withX]

theorem stepAction_withX (a : Action) (tk : Array Nat) (ha : a ≠ .stabilise) :
    stepAction (withX env g) a tk = stepAction env a tk := by
  unfold stepAction
  cases a <;> first | exact absurd rfl ha | simp only [elabInstrM_withX, expertAddDependency_withX]

/-! ## `recomputeOne` -/

theorem readyRec_withX (s : State) (er : ExpertRec) :
    Xp.readyRec (withX env g) s er = Xp.readyRec env s er := rfl

theorem depValsOf_withX (s : State) (er : ExpertRec) :
    Xp.depValsOf (withX env g) s er = Xp.depValsOf env s er := rfl

theorem readyState_withX (n e : Nat) (s : State) (er : ExpertRec) :
    Xp.readyState (withX env g) n e s er = Xp.readyState env n e s er := rfl

theorem expertResult_withX (s : State) (er : ExpertRec) :
    Xp.expertResult (withX env g) s er = g er.f (Xp.depValsOf env s er) (Xp.slotValsOf er) := rfl

theorem recomputeOne_withX_expert (fuel n : Nat) {s : State} {nd : Node} {e : Nat} {er : ExpertRec}
    (hx : Xp.IsExpert s n nd e er) (hpk : er.pk = none)
    (hp : s.panicCountdown = none) (hinv : ¬ er.numInvalidChildren > 0)
    (hval : g er.f (Xp.depValsOf env s (Xp.readyRec env s er)) (Xp.slotValsOf (Xp.readyRec env s er)) =
            env.expertFn er.f (Xp.depValsOf env s (Xp.readyRec env s er)) (Xp.slotValsOf (Xp.readyRec env s er))) :
    (recomputeOne (withX env g) fuel n).run.run s = (recomputeOne env fuel n).run.run s := by
  rw [Xp.recomputeOne_expert_run (withX env g) fuel n hx hpk hp hinv,
    Xp.recomputeOne_expert_run env fuel n hx hpk hp hinv]
  have hf : (Xp.readyRec env s er).f = er.f := (Xp.readyRec_fields env s er).1
  have hr : Xp.expertResult (withX env g) s (Xp.readyRec (withX env g) s er) =
      Xp.expertResult env s (Xp.readyRec env s er) := by
    rw [readyRec_withX, expertResult_withX, hf, hval]
    unfold Xp.expertResult
    rw [hf]
  rw [hr, readyState_withX, maybeChangeValue_withX]

theorem run_getNode_bind_congr {β} (n : Nat) (F1 F2 : Node → M β) (S : State)
    (h : ∀ nd, S.nodes[n]? = some nd → (F1 nd).run.run S = (F2 nd).run.run S) :
    (getNode n >>= F1).run.run S = (getNode n >>= F2).run.run S := by
  cases hn : S.nodes[n]? with
  | none => rw [run_bind, run_bind, run_getNode, hn]
  | some nd => rw [run_bind_ok (run_getNode_some hn), run_bind_ok (run_getNode_some hn)]; exact h nd hn

theorem recomputeOne_withX_of_not_expert (fuel n : Nat) (s : State)
    (h : ∀ nd e, s.nodes[n]? = some nd → nd.kind? ≠ some (.expert e)) :
    (recomputeOne (withX env g) fuel n).run.run s = (recomputeOne env fuel n).run.run s := by
  unfold recomputeOne
  simp only [valueUnwrap_withX, runEffects_withX, maybeChangeValue_withX, perKeyDriver_withX,
    maybeChangeValueManual_withX, withOldEvents_withX, elabTemplate_withX, changeChildBindRhs_withX,
    value_withX']
  simp only [run_bind_get]
  cases hd : s.cfg.debug
  all_goals
    simp only [Bool.false_eq_true, if_false, if_true, run_bind_modify,
      run_bind_bumpCounter, run_bind_get, run_bind_modNode]
    apply run_getNode_bind_congr
    intro nd' hn'
    have hk : ∀ e, nd'.kind? ≠ some (.expert e) := by
      intro e
      simp only [Array.getElem?_modify] at hn'
      cases hn : s.nodes[n]? with
      | none => simp [hn] at hn'
      | some nd =>
        simp only [hn, if_true, Option.map_some, Option.some.injEq] at hn'
        subst hn'
        exact h nd e hn
    cases hkk : nd'.kind? with
    | none => rfl
    | some k =>
      cases k
      case expert e => exact absurd hkk (hk e)
      all_goals rfl

end
end IncrVerif.Proofs.ExpertH
