import IncrVerif.Proofs.DriverH1
import IncrVerif.Proofs.DriverH3
/-!
# `RmSpec`, part 4: frames and bookkeeping helpers

* `XG`: the frame "node kinds, the number of records, `f`/`node`/`pk` of every record, `nextDep`"; `XFrag.of_xg`.
* whole-run frames of `expertRemoveDependency`: `CFrame`, `AhF`, `HasF`, `XG`.
* `EF.of_frames`.
* `rekind_putExpert`: replacing the record of one expert node is a `Rekind` of the virtual state.
-/
namespace IncrVerif.Proofs.DriverH
open IncrVerif.Engine IncrVerif.Driver IncrVerif.Proofs IncrVerif.Proofs.Step IncrVerif.Proofs.Sched
open IncrVerif.Proofs.ExpertH IncrVerif.Proofs.ExpertH.QR IncrVerif.Proofs.Xp

/-! ## the frame `XG` -/

def xG (er : ExpertRec) := (er.f, er.node, er.pk)

structure XG (s s' : State) : Prop where
  size : s'.nodes.size = s.nodes.size
  kind : ∀ m, (s'.nodeD m).kind = (s.nodeD m).kind
  xsize : s'.experts.size = s.experts.size
  xg : ∀ e : Nat, (s'.experts[e]?).map xG = (s.experts[e]?).map xG
  nextDep : s'.nextDep = s.nextDep

theorem XG.refl (s : State) : XG s s := ⟨rfl, fun _ => rfl, rfl, fun _ => rfl, rfl⟩
theorem XG.trans {a b c : State} (h1 : XG a b) (h2 : XG b c) : XG a c :=
  ⟨h2.size.trans h1.size, fun m => (h2.kind m).trans (h1.kind m), h2.xsize.trans h1.xsize,
    fun e => (h2.xg e).trans (h1.xg e), h2.nextDep.trans h1.nextDep⟩
instance : Step.PreOrd XG := ⟨XG.refl, XG.trans⟩

theorem XG.of_xf {s s' : State} (h : XF s s') : XG s s' := by
  refine ⟨h.size, h.kind, h.xsize, fun e => ?_, h.nextDep⟩
  cases h2 : s.experts[e]? with
  | none => rw [h.xnone h2]
  | some er =>
    obtain ⟨er', he', h1, h2', -, h4, -⟩ := h.xrec h2
    rw [he']
    simp only [Option.map_some, xG, h1, h2', h4]

theorem XG.modExpert (s : State) (e : Nat) (f : ExpertRec → ExpertRec) (hf : ∀ x, xG (f x) = xG x) :
    XG s { s with experts := s.experts.modify e f } := by
  refine ⟨rfl, fun _ => rfl, by simp, fun j => ?_, rfl⟩
  simp only [Array.getElem?_modify]
  split
  · cases s.experts[j]? <;> simp [hf]
  · rfl

theorem PresG.modExpert (e : Nat) (f : ExpertRec → ExpertRec) (hf : ∀ x, xG (f x) = xG x) :
    Step.Pres XG (Engine.modExpert e f) := by
  unfold Engine.modExpert; exact Step.Pres.modify fun s => XG.modExpert s e f hf

theorem PresG.of_xf {α} {m : M α} (h : Step.Pres XF m) : Step.Pres XG m := h.mono fun _ _ => XG.of_xf

theorem XG.xrec {s s' : State} (h : XG s s') {e : Nat} {er : ExpertRec} (he : s.experts[e]? = some er) :
    ∃ er', s'.experts[e]? = some er' ∧ er'.f = er.f ∧ er'.node = er.node ∧ er'.pk = er.pk := by
  have := h.xg e
  rw [he] at this
  cases h' : s'.experts[e]? with
  | none => rw [h'] at this; cases this
  | some er' =>
    rw [h'] at this
    simp only [Option.map_some, Option.some.injEq, xG, Prod.mk.injEq] at this
    exact ⟨er', rfl, this⟩

theorem XG.xrec_back {s s' : State} (h : XG s s') {e : Nat} {er' : ExpertRec} (he : s'.experts[e]? = some er') :
    ∃ er, s.experts[e]? = some er ∧ er'.f = er.f ∧ er'.node = er.node ∧ er'.pk = er.pk := by
  have := h.xg e
  rw [he] at this
  cases h' : s.experts[e]? with
  | none => rw [h'] at this; cases this
  | some er =>
    rw [h'] at this
    simp only [Option.map_some, Option.some.injEq, xG, Prod.mk.injEq] at this
    exact ⟨er, rfl, this⟩

/-- the fragment along the frame `XG` -/
theorem XFrag.of_xg {env : Env} {s s' : State} (F : XFrag env s) (h : XG s s') (fr : Fr s') : XFrag env s' := by
  refine ⟨fr.pc, fun m _ => ?_, fun m _ => fr.valid m, fun m e hm hk => ?_, fun e er' he' => ?_⟩
  · rw [h.kind]; exact F.kindD m
  · rw [h.kind] at hk; rw [h.size] at hm
    obtain ⟨er, he, hnode⟩ := F.xrec m e hm hk
    obtain ⟨er', he', -, hn', -⟩ := h.xrec he
    exact ⟨er', he', by rw [hn', hnode]⟩
  · obtain ⟨er, he, hf, -, hpk⟩ := h.xrec_back he'
    obtain ⟨h1, -, h3, h4⟩ := F.xok e er he
    exact ⟨by rw [hpk, h1], fr.ni e er' he', by rw [hf]; exact h3, by rw [hf]; exact h4⟩

/-! ## whole-run frames of `expertRemoveDependency` -/

theorem PresF.expertOf (n) : Step.Pres CFrame (Engine.expertOf n) := by unfold Engine.expertOf; qpres
cf_leafR PresF.expertOf
theorem PresF.assertRunningIsChild (n name) : Step.Pres CFrame (Engine.assertRunningIsChild n name) := by
  unfold Engine.assertRunningIsChild; qpres
cf_leafR PresF.assertRunningIsChild
theorem PresF.swapEdgeIndices (n c1 i1 c2 i2) : Step.Pres CFrame (Engine.swapEdgeIndices n c1 i1 c2 i2) := by
  unfold Engine.swapEdgeIndices; qpres
cf_leafR PresF.swapEdgeIndices

set_option maxHeartbeats 1000000 in
theorem PresF.expertRemoveDependency (fuel n dep) : Step.Pres CFrame (Engine.expertRemoveDependency fuel n dep) := by
  unfold Engine.expertRemoveDependency; qpres


/-! ### `AhF` -/
theorem PresAh.expertOf (n) : Step.Pres AhF (Engine.expertOf n) := by unfold Engine.expertOf; qpres
ah_leaf PresAh.expertOf
theorem PresAh.assertRunningIsChild (n name) : Step.Pres AhF (Engine.assertRunningIsChild n name) := by
  unfold Engine.assertRunningIsChild; qpres
ah_leaf PresAh.assertRunningIsChild
theorem PresAh.swapEdgeIndices (n c1 i1 c2 i2) : Step.Pres AhF (Engine.swapEdgeIndices n c1 i1 c2 i2) := by
  unfold Engine.swapEdgeIndices; qpres
ah_leaf PresAh.swapEdgeIndices
set_option maxHeartbeats 1000000 in
theorem PresAh.expertRemoveDependency (fuel n dep) : Step.Pres AhF (Engine.expertRemoveDependency fuel n dep) := by
  unfold Engine.expertRemoveDependency; qpres

/-! ### `HasF` -/
theorem PresH.expertOf (n) : Step.Pres HasF (Engine.expertOf n) := by unfold Engine.expertOf; qpres
has_leaf PresH.expertOf
theorem PresH.assertRunningIsChild (n name) : Step.Pres HasF (Engine.assertRunningIsChild n name) := by
  unfold Engine.assertRunningIsChild; qpres
has_leaf PresH.assertRunningIsChild
theorem PresH.swapEdgeIndices (n c1 i1 c2 i2) : Step.Pres HasF (Engine.swapEdgeIndices n c1 i1 c2 i2) := by
  unfold Engine.swapEdgeIndices; qpres
has_leaf PresH.swapEdgeIndices
set_option maxHeartbeats 1000000 in
theorem PresH.expertRemoveDependency (fuel n dep) : Step.Pres HasF (Engine.expertRemoveDependency fuel n dep) := by
  unfold Engine.expertRemoveDependency; qpres

/-! ### `XG` -/
theorem PresX.expertOf (n) : Step.Pres XF (Engine.expertOf n) := by unfold Engine.expertOf; qpres
xf_leaf PresX.expertOf
theorem PresX.assertRunningIsChild (n name) : Step.Pres XF (Engine.assertRunningIsChild n name) := by
  unfold Engine.assertRunningIsChild; qpres
xf_leaf PresX.assertRunningIsChild
theorem PresX.swapEdgeIndices (n c1 i1 c2 i2) : Step.Pres XF (Engine.swapEdgeIndices n c1 i1 c2 i2) := by
  unfold Engine.swapEdgeIndices; qpres
xf_leaf PresX.swapEdgeIndices

macro_rules
  | `(tactic| qleaf) => `(tactic| ((with_reducible apply PresG.modExpert); intro _; rfl))
macro_rules
  | `(tactic| qleaf) => `(tactic| ((with_reducible apply PresG.of_xf); qleaf))

set_option maxHeartbeats 1000000 in
theorem PresG.expertRemoveDependency (fuel n dep) : Step.Pres XG (Engine.expertRemoveDependency fuel n dep) := by
  unfold Engine.expertRemoveDependency; qpres

end IncrVerif.Proofs.DriverH
