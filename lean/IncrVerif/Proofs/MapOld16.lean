import IncrVerif.Proofs.MapOld15
import IncrVerif.Proofs.MapOld2
/-!
# map_with_old fragment: the API actions other than `create` and `stabilise` keep `QInvW`

* simulation: the virtual engine runs the SAME action (`Act.simAt_stepAction`);
* `Quiet.step_q` on the virtual run gives the new `QInv`;
* frame `Act.AFr C`: node count, `kind`, `valid`, `value`, `oldState` of every node unchanged, `panicCountdown = none`
  kept, "all variable values satisfy `C`" kept (`PresAW.*` ladder).
-/
namespace IncrVerif.Proofs.MapOldH
open IncrVerif.Engine IncrVerif.Proofs IncrVerif.Proofs.Step IncrVerif.Proofs.Sched IncrVerif.Proofs.Quiet

/-- API actions of the fragment other than `create` and `stabilise`; written values must satisfy `C` -/
def WPlain (C : Val → Prop) : Action → Prop
  | .observe n => OpndOK n
  | .cloneObs _ | .dropObs _ | .disallow _ => True
  | .set _ x => C x
  | .replace _ x => C x
  | .modify _ _ | .update _ _ | .replaceWith _ _ | .get _ => True
  | .isStable | .stats => True
  | _ => False

theorem WPlain.static {env : Env} {C : Val → Prop} {a : Action} (h : WPlain C a) : StaticAction env a := by
  cases a <;> simp only [WPlain] at h <;> first | exact h | trivial | exact h.elim

/-- what `WFrag` and `MInv` read of a node -/
def wKey (nd : Node) := (nd.kind, nd.valid, nd.value, nd.oldState)

theorem wKey_kind {a b : Node} (h : wKey a = wKey b) : a.kind = b.kind := by
  simp only [wKey, Prod.mk.injEq] at h; exact h.1
theorem wKey_valid {a b : Node} (h : wKey a = wKey b) : a.valid = b.valid := by
  simp only [wKey, Prod.mk.injEq] at h; exact h.2.1
theorem wKey_value {a b : Node} (h : wKey a = wKey b) : a.value = b.value := by
  simp only [wKey, Prod.mk.injEq] at h; exact h.2.2.1
theorem wKey_oldState {a b : Node} (h : wKey a = wKey b) : a.oldState = b.oldState := by
  simp only [wKey, Prod.mk.injEq] at h; exact h.2.2.2

/-! ## simulation -/

section
variable {s : State} {α β : Type}

theorem Act.simAt_map {x x' : M α} (f : α → β) (hx : SimAt s x x') : SimAt s (f <$> x) (f <$> x') := by
  rw [map_eq_pure_bind, map_eq_pure_bind]
  exact SimAt.seq hx fun _ _ _ => SimAt.ret _

theorem Act.simAt_discard {x x' : M α} (hx : SimAt s x x') : SimAt s (discard x) (discard x') := by
  unfold Functor.discard
  exact Act.simAt_map (Function.const α PUnit.unit) hx

end

theorem Act.sim_resolveOpnd (loc : List Nat) (o : Opnd) :
    Sim (Engine.resolveOpnd loc o) (Engine.resolveOpnd loc o) := by
  intro s; unfold Engine.resolveOpnd
  cases o <;> dsimp only <;> wsim <;> split <;> wsim
macro_rules | `(tactic| wsim_leaf) => `(tactic| with_reducible exact Act.sim_resolveOpnd _ _)

/-- the virtual engine runs the same action -/
theorem Act.simAt_stepAction {s : State} {a : Action} {C : Val → Prop} (env : Env) (sp : Nat → Val → Val)
    (tk : Array Nat) (hR : WPlain C a) :
    SimAt s (Engine.stepAction env a tk) (Engine.stepAction (virtEnv env sp) a tk) := by
  unfold Engine.stepAction
  cases a <;> simp only [WPlain] at hR
  all_goals first
    | exact hR.elim
    | (refine SimAt.seq (Act.simAt_discard (Sim.writeVar _ _ _ _)) fun _ _ _ => ?_; wsim; done)
    | (wsim; done)
    | (wsim; exact SimAt.ret _)

/-! ## the frame -/

structure Act.AFr (C : Val → Prop) (s s' : State) : Prop where
  size : s'.nodes.size = s.nodes.size
  node : ∀ m, wKey (s'.nodeD m) = wKey (s.nodeD m)
  pc : s.panicCountdown = none → s'.panicCountdown = none
  vars : (∀ (c : Nat) (vc : VarCell), s.vars[c]? = some vc → C vc.value) →
    ∀ (c : Nat) (vc : VarCell), s'.vars[c]? = some vc → C vc.value

theorem Act.AFr.refl {C : Val → Prop} (s : State) : Act.AFr C s s := ⟨rfl, fun _ => rfl, id, id⟩
theorem Act.AFr.trans {C : Val → Prop} {a b c : State} (h1 : Act.AFr C a b) (h2 : Act.AFr C b c) :
    Act.AFr C a c :=
  ⟨h2.size.trans h1.size, fun m => (h2.node m).trans (h1.node m), fun h => h2.pc (h1.pc h),
    fun h => h2.vars (h1.vars h)⟩
instance {C : Val → Prop} : Step.PreOrd (Act.AFr C) := ⟨Act.AFr.refl, Act.AFr.trans⟩

theorem Act.AFr.of_same {C : Val → Prop} {s s' : State} (h1 : s'.nodes = s.nodes) (h2 : s'.vars = s.vars)
    (h3 : s'.panicCountdown = s.panicCountdown) : Act.AFr C s s' := by
  refine ⟨by rw [h1], fun m => ?_, fun h => by rw [h3]; exact h, fun h => by rw [h2]; exact h⟩
  have : s'.nodeD m = s.nodeD m := by simp [State.nodeD, h1]
  rw [this]

theorem Act.AFr.modNode {C : Val → Prop} (s : State) (n : Nat) (f : Node → Node) (hf : ∀ x, wKey (f x) = wKey x) :
    Act.AFr C s { s with nodes := s.nodes.modify n f } := by
  refine ⟨by simp, fun m => ?_, id, id⟩
  rw [nodeD_modify]; split
  · exact hf _
  · rfl

theorem PresAW.modNode {C : Val → Prop} (n : Nat) (f : Node → Node) (hf : ∀ x, wKey (f x) = wKey x) :
    Step.Pres (Act.AFr C) (Engine.modNode n f) := by
  unfold Engine.modNode; exact Step.Pres.modify fun s => Act.AFr.modNode s n f hf

theorem PresAW.modVar {C : Val → Prop} (v : Nat) (g : VarCell → VarCell) (hg : ∀ x, C x.value → C (g x).value) :
    Step.Pres (Act.AFr C) (Engine.modVar v g) := by
  unfold Engine.modVar
  refine Step.Pres.modify fun s => ⟨rfl, fun _ => rfl, id, fun h c vc hc => ?_⟩
  simp only [Array.getElem?_modify] at hc
  split at hc
  · cases hx : s.vars[c]? with
    | none => rw [hx] at hc; cases hc
    | some x =>
      rw [hx] at hc
      simp only [Option.map_some, Option.some.injEq] at hc
      rw [← hc]; exact hg x (h c x hx)
  · exact h c vc hc

macro_rules
  | `(tactic| qleaf) =>
    `(tactic| ((with_reducible apply Step.Pres.modify); intro _; exact Act.AFr.of_same rfl rfl rfl))
macro_rules
  | `(tactic| qleaf) => `(tactic| ((with_reducible apply PresAW.modNode); intro _; rfl))
macro_rules
  | `(tactic| qleaf) => `(tactic| ((with_reducible apply PresAW.modVar); intro _ h; exact h))

macro "aw_leaf " n:ident : command =>
  `(macro_rules | `(tactic| qleaf) => `(tactic| with_reducible apply $n))

section
variable {C : Val → Prop}

theorem PresAW.bumpCounter (f) : Step.Pres (Act.AFr C) (Engine.bumpCounter f) := by
  unfold Engine.bumpCounter; qpres
aw_leaf PresAW.bumpCounter
theorem PresAW.resolveOpnd (loc o) : Step.Pres (Act.AFr C) (Engine.resolveOpnd loc o) := by
  unfold Engine.resolveOpnd; qpres
aw_leaf PresAW.resolveOpnd
theorem PresAW.getObs (o) : Step.Pres (Act.AFr C) (Engine.getObs o) := by unfold Engine.getObs; qpres
aw_leaf PresAW.getObs
theorem PresAW.modObs (o f) : Step.Pres (Act.AFr C) (Engine.modObs o f) := by unfold Engine.modObs; qpres
aw_leaf PresAW.modObs
theorem PresAW.disallowFutureUse (o) : Step.Pres (Act.AFr C) (Engine.disallowFutureUse o) := by
  unfold Engine.disallowFutureUse; qpres
aw_leaf PresAW.disallowFutureUse
theorem PresAW.rchLink (n) : Step.Pres (Act.AFr C) (Engine.rchLink n) := by unfold Engine.rchLink; qpres
aw_leaf PresAW.rchLink
theorem PresAW.rchInsert (n) : Step.Pres (Act.AFr C) (Engine.rchInsert n) := by unfold Engine.rchInsert; qpres
aw_leaf PresAW.rchInsert
theorem PresAW.didSetVarWhileNotStabilising (v) :
    Step.Pres (Act.AFr C) (Engine.didSetVarWhileNotStabilising v) := by
  unfold Engine.didSetVarWhileNotStabilising; qpres
aw_leaf PresAW.didSetVarWhileNotStabilising

theorem PresAW.writeVar (v : Nat) (f : Val → Val) (b : Bool) (hf : ∀ y, C (f y)) :
    Step.Pres (Act.AFr C) (Engine.writeVar v f b) := by
  unfold Engine.writeVar; qpres
  all_goals (apply PresAW.modVar; intro x hx; first | exact hx | exact hf _)

theorem PresAW.discard {α} {x : M α} (h : Step.Pres (Act.AFr C) x) : Step.Pres (Act.AFr C) (discard x) := by
  unfold Functor.discard; exact Step.Pres.map _ h

theorem PresAW.stepAction {env : Env} {sp : Nat → Val → Val} (V : ValOK env C sp) (a : Action) (tk : Array Nat)
    (h : WPlain C a) : Step.Pres (Act.AFr C) (Engine.stepAction env a tk) := by
  have hadd : ∀ (d m : Int) (y : Val), C (y.addInt d m) := fun d m y => V.int _
  unfold Engine.stepAction
  cases a <;> simp only [WPlain] at h
  all_goals first
    | exact h.elim
    | (qpres; done)
    | (refine Step.Pres.bind (PresAW.discard (PresAW.writeVar _ _ _ (fun _ => h))) fun _ => ?_; qpres; done)
    | (refine Step.Pres.bind (PresAW.discard (PresAW.writeVar _ _ _ (hadd _ _))) fun _ => ?_; qpres; done)
    | (refine Step.Pres.bind (PresAW.writeVar _ _ _ (fun _ => h)) fun _ => ?_; qpres; done)
    | (refine Step.Pres.bind (PresAW.writeVar _ _ _ (hadd _ _)) fun _ => ?_; qpres; done)

end

/-! ## corollaries of the frame -/

theorem Act.AFr.frag {env : Env} {G : Nat → Prop} {C : Val → Prop} {s s' : State} (h : Act.AFr C s s')
    (F : WFrag env G s) : WFrag env G s' := by
  refine ⟨h.pc F.pc, fun n hn => ?_, fun n hn => ?_, fun n hn c hc => ?_⟩
  · rw [wKey_kind (h.node n)]; exact F.kind n (by rw [← h.size]; exact hn)
  · rw [wKey_valid (h.node n)]; exact F.valid n (by rw [← h.size]; exact hn)
  · rw [wKey_kind (h.node n)] at hc; exact F.back n (by rw [← h.size]; exact hn) c hc

theorem Act.AFr.minv {env : Env} {C : Val → Prop} {s s' : State} (h : Act.AFr C s s') (M : MInv env C s) :
    MInv env C s' := by
  refine ⟨fun n v hv => ?_, fun n hn => ?_, h.vars M.vars, fun n g i hk => ?_⟩
  · rw [wKey_value (h.node n)] at hv; exact M.vals n v hv
  · rw [wKey_kind (h.node n)]; exact M.lits n (by rw [← h.size]; exact hn)
  · rw [wKey_kind (h.node n)] at hk
    rw [wKey_oldState (h.node n), wKey_value (h.node n)]; exact M.mach n g i hk

theorem QInvW.fr {env : Env} {C : Val → Prop} {sp : Nat → Val → Val} {s : State} (Q : QInvW env C sp s) : Fr s :=
  ⟨Q.frag.not_expert, Q.frag.valid', Q.q.pinv, Q.frag.not_mapRef⟩

/-- **the API actions other than `create` and `stabilise` keep the invariant** -/
theorem plain_keepsW {env : Env} {C : Val → Prop} {sp : Nat → Val → Val} {s s' : State} {a : Action}
    {tk : Array Nat} {r : String × Array Nat} (V : ValOK env C sp) (Q : QInvW env C sp s) (ha : WPlain C a)
    (h : (stepAction env a tk).run.run s = (.ok r, s')) : QInvW env C sp s' := by
  obtain ⟨hv, -⟩ := Act.simAt_stepAction env sp tk ha Q.fr r s' h
  have Qv' : QInv (virtEnv env sp) (virt s') := step_q Q.q ha.static hv
  have A : Act.AFr C s s' := (PresAW.stepAction V a tk ha).h _ _ _ h
  exact ⟨A.frag Q.frag, Qv', A.minv Q.m⟩

end IncrVerif.Proofs.MapOldH
