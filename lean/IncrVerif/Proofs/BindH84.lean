import IncrVerif.Proofs.BindH83
import IncrVerif.Engine.Run
/-!
# Binds, part 4c-4 (B4): the monadic part of top-level creation — closed forms of `createNode`, `createVar`, `createBind` at top level, and the
elaboration of the instructions of the fragment
-/
namespace IncrVerif.Proofs.BindH
open IncrVerif.Engine IncrVerif.Driver IncrVerif.Proofs IncrVerif.Proofs.Step IncrVerif.Proofs.Sched IncrVerif.Proofs.Quiet

namespace C2c

theorem nodeD_push (nodes : Array Node) (nd : Node) (m : Nat) :
    (nodes.push nd)[m]?.getD default = if m = nodes.size then nd else nodes[m]?.getD default := by
  rw [Array.getElem?_push]
  split <;> rfl

theorem fresh_getD_of_ge (nodes : Array Node) (m : Nat) (h : nodes.size ≤ m) :
    Fresh (nodes[m]?.getD default) := by
  rw [Array.getElem?_eq_none h]; exact fresh_default

/-- `s1` is `s` plus one pristine top-level node of kind `k` (and, for a `var`, its cell) -/
structure Made (k : Kind) (s s1 : State) : Prop where
  ext : Ext s s1
  nodes : s1.nodes = s.nodes.push (newNode k)
  binds : s1.binds = s.binds
  top : s1.top = s.top
  vars : ((∀ c, k ≠ .var c) ∧ s1.vars = s.vars) ∨
    ∃ v, k = .var s.vars.size ∧
      s1.vars = s.vars.push { value := v, setAt := s.stabNum, node := s.nodes.size }

/-- `s1` is `s` plus the record and the two nodes of a bind with closure `body` on `lhs` -/
structure MadeBind (body lhs : Nat) (s s1 : State) : Prop where
  ext : Ext s s1
  nodes : s1.nodes =
    (s.nodes.push { kind := .bindLhsChange s.binds.size, createdIn := .top, cutoff := .never }).push
      { kind := .bindMain s.binds.size s.nodes.size, createdIn := .top, cutoff := .eq }
  binds : s1.binds = (s.binds.push { lhs := lhs, body := body }).modify s.binds.size
    (fun x => { x with lhsChange := s.nodes.size, main := s.nodes.size + 1 })
  top : s1.top = s.top
  vars : s1.vars = s.vars

theorem ext_push1 {s s1 : State} {nd : Node} (hf : Fresh nd) (hn : s1.nodes = s.nodes.push nd)
    (hb : s1.binds = s.binds)
    (hv : s1.vars = s.vars ∨
      ∃ v, s1.vars = s.vars.push { value := v, setAt := s.stabNum, node := s.nodes.size })
    (h1 : s1.rch = s.rch) (h2 : s1.ahh = s.ahh) (h3 : s1.panicCountdown = s.panicCountdown)
    (h4 : s1.currentScope = s.currentScope) (h5 : s1.stabNum = s.stabNum) (h6 : s1.status = s.status)
    (h7 : s1.alive = s.alive) (h8 : s1.setDuringStab = s.setDuringStab) (h9 : s1.deadVars = s.deadVars)
    (h10 : s1.handleAfterStab = s.handleAfterStab) (h11 : s1.propagateInvalidity = s.propagateInvalidity)
    (h12 : s1.observers = s.observers) (h13 : s1.newObservers = s.newObservers)
    (h14 : s1.disallowedObservers = s.disallowedObservers) : Ext s s1 := by
  refine ⟨by rw [hn, Array.size_push]; omega, ?_, ?_, by rw [hb]; exact Nat.le_refl _, fun b _ => by rw [hb],
    hv, h1, h2, h3, h4, h5, h6, h7, h8, h9, h10, h11, h12, h13, h14⟩
  · intro m hm
    show s1.nodes[m]?.getD default = s.nodes[m]?.getD default
    rw [hn, nodeD_push, if_neg (by omega)]
  · intro m hm
    show Fresh (s1.nodes[m]?.getD default)
    rw [hn, nodeD_push]
    split
    · exact hf
    · exact fresh_getD_of_ge _ _ hm

theorem createNode_made {k : Kind} {s s1 : State} {n : Nat} (hk : ∀ c, k ≠ .var c)
    (h : (createNode k .top).run.run s = (.ok n, s1)) : n = s.nodes.size ∧ Made k s s1 := by
  rw [createNode_top_run] at h
  cases h
  refine ⟨rfl, ⟨?_, rfl, rfl, rfl, Or.inl ⟨hk, rfl⟩⟩⟩
  exact ext_push1 (nd := newNode k) ⟨k, .eq, rfl⟩ rfl rfl (Or.inl rfl) rfl rfl rfl rfl rfl rfl rfl rfl rfl rfl
    rfl rfl rfl rfl

theorem createVar_made {v : Val} {s s1 : State} {n : Nat}
    (h : (createVar v .top).run.run s = (.ok n, s1)) :
    n = s.nodes.size ∧ Made (.var s.vars.size) s s1 := by
  rw [createVar_top_run] at h
  cases h
  refine ⟨rfl, ⟨?_, rfl, rfl, rfl, Or.inr ⟨v, rfl, rfl⟩⟩⟩
  exact ext_push1 (nd := newNode (.var s.vars.size)) ⟨_, .eq, rfl⟩ rfl rfl (Or.inr ⟨v, rfl⟩) rfl rfl rfl rfl
    rfl rfl rfl rfl rfl rfl rfl rfl rfl rfl

/-! ## `createBind` at top level -/

theorem createNode_top_run' (k : Kind) (c : CutoffK) (s : State) :
    (createNode k .top c).run.run s = (.ok s.nodes.size,
      { s with counters := { s.counters with created := s.counters.created + 1 },
               nodes := s.nodes.push { kind := k, createdIn := .top, cutoff := c } }) := rfl

/-- the closed form of `createBind` at top level -/
theorem createBind_run (body lhs : Nat) (s : State) (hsc : s.currentScope = .top) :
    (createBind body lhs).run.run s = (.ok (s.nodes.size + 1),
      { s with counters := { s.counters with created := s.counters.created + 1 + 1 },
               binds := (s.binds.push { lhs := lhs, body := body }).modify s.binds.size
                  (fun x => { x with lhsChange := s.nodes.size, main := s.nodes.size + 1 }),
               nodes := (s.nodes.push { kind := .bindLhsChange s.binds.size, createdIn := .top, cutoff := .never }).push
                  { kind := .bindMain s.binds.size s.nodes.size, createdIn := .top, cutoff := .eq } }) := by
  unfold createBind
  rw [run_bind_get, run_bind_modify]
  simp only [hsc]
  rw [run_bind_ok (createNode_top_run' _ _ _), run_bind_ok (createNode_top_run' _ _ _)]
  simp only [Array.size_push]
  rfl

theorem createBind_made {body lhs : Nat} {s s1 : State} {n : Nat} (hsc : s.currentScope = .top)
    (h : (createBind body lhs).run.run s = (.ok n, s1)) : n = s.nodes.size + 1 ∧ MadeBind body lhs s s1 := by
  rw [createBind_run body lhs s hsc] at h
  cases h
  refine ⟨rfl, ⟨?_, rfl, rfl, rfl, rfl⟩⟩
  refine ⟨?_, ?_, ?_, ?_, ?_, Or.inl rfl, rfl, rfl, rfl, rfl, rfl, rfl, rfl, rfl, rfl, rfl, rfl, rfl, rfl, rfl⟩
  · show s.nodes.size ≤ ((s.nodes.push _).push _).size
    rw [Array.size_push, Array.size_push]; omega
  · intro m hm
    show ((s.nodes.push _).push _)[m]?.getD default = s.nodes[m]?.getD default
    rw [nodeD_push, Array.size_push, if_neg (by omega), nodeD_push, if_neg (by omega)]
  · intro m hm
    show Fresh (((s.nodes.push _).push _)[m]?.getD default)
    rw [nodeD_push]
    split
    · exact ⟨_, _, rfl⟩
    · rw [nodeD_push]
      split
      · exact ⟨_, _, rfl⟩
      · exact fresh_getD_of_ge _ _ hm
  · show s.binds.size ≤ ((s.binds.push _).modify _ _).size
    rw [Array.size_modify, Array.size_push]; omega
  · intro b hb
    show ((s.binds.push _).modify _ _)[b]? = s.binds[b]?
    rw [Array.getElem?_modify, if_neg (by omega), Array.getElem?_push, if_neg (by omega)]

/-! ## elaboration -/

theorem mapM_resolve_inv1 {s : State} :
    ∀ (l : List Opnd) (r : List Nat) (s1 : State), (∀ a, a ∈ l → Quiet.OpndOK a) →
      (l.mapM (fun o => resolveOpnd [] o)).run.run s = (.ok r, s1) →
      s1 = s ∧ ∀ c, c ∈ r → ∃ k : Nat, s.top[k]? = some c := by
  intro l
  induction l with
  | nil =>
    intro r s1 _ h
    rw [List.mapM_nil] at h
    obtain ⟨e1, e2⟩ := pure_ok_inv h
    rw [e1]; exact ⟨e2, fun c hc => by cases hc⟩
  | cons a l ih =>
    intro r s1 hl h
    rw [List.mapM_cons] at h
    obtain ⟨b, t, h1, h2⟩ := bind_ok_inv h
    obtain ⟨et, k, hk⟩ := resolveOpnd_outer_inv (hl a (List.mem_cons_self ..)) h1
    rw [et] at h2
    obtain ⟨bs, t2, h3, h4⟩ := bind_ok_inv h2
    obtain ⟨et2, hbs⟩ := ih bs t2 (fun x hx => hl x (List.mem_cons_of_mem _ hx)) h3
    obtain ⟨e1, e2⟩ := pure_ok_inv h4
    rw [e1, e2]
    refine ⟨et2, fun c hc => ?_⟩
    rcases List.mem_cons.1 hc with e | hc
    · rw [e]; exact ⟨k, hk⟩
    · exact hbs c hc

/-- elaboration of a static instruction at top level: one pristine node whose children are named by the table -/
theorem elab_static1 {env : Env} {s s1 : State} {i : Instr} {ro : Option Nat} (hsc : s.currentScope = .top)
    (hi : StaticInstr env i) (h : (elabInstrM env [] .unit i).run.run s = (.ok ro, s1)) :
    ∃ k, ro = some s.nodes.size ∧ StaticKind env k ∧ (∀ c, c ∈ kids k → ∃ j : Nat, s.top[j]? = some c) ∧
      Made k s s1 := by
  cases i with
  | const v =>
    unfold elabInstrM at h
    simp only at h
    unfold elabInstr at h
    rw [run_bind_get] at h
    simp only [hsc] at h
    obtain ⟨n, h1, e⟩ := map_ok_inv h
    obtain ⟨en, C⟩ := createNode_made (by intro c e; cases e) h1
    exact ⟨.const v, by rw [e, en], trivial, (fun c hc => by cases hc), C⟩
  | var v =>
    unfold elabInstrM at h
    simp only at h
    unfold elabInstr at h
    rw [run_bind_get] at h
    simp only at h
    obtain ⟨n, h1, e⟩ := map_ok_inv h
    obtain ⟨en, C⟩ := createVar_made h1
    exact ⟨.var s.vars.size, by rw [e, en], trivial, (fun c hc => by cases hc), C⟩
  | map f args =>
    unfold elabInstrM at h
    simp only at h
    unfold elabInstr at h
    rw [run_bind_get] at h
    simp only [hsc] at h
    obtain ⟨as, t, h1, h2⟩ := bind_ok_inv h
    obtain ⟨et, has⟩ := mapM_resolve_inv1 args as t hi.2.2 h1
    rw [et] at h2
    obtain ⟨n, h3, e⟩ := map_ok_inv h2
    obtain ⟨en, C⟩ := createNode_made (by intro c e; cases e) h3
    exact ⟨.map f as, by rw [e, en], ⟨hi.1, hi.2.1⟩, has, C⟩
  | fold f init cs =>
    unfold elabInstrM at h
    simp only at h
    unfold elabInstr at h
    rw [run_bind_get] at h
    simp only [hsc] at h
    obtain ⟨as, t, h1, h2⟩ := bind_ok_inv h
    obtain ⟨et, has⟩ := mapM_resolve_inv1 cs as t hi h1
    rw [et] at h2
    split at h2
    · obtain ⟨n, h3, e⟩ := map_ok_inv h2
      obtain ⟨en, C⟩ := createNode_made (by intro c e; cases e) h3
      exact ⟨.const init, by rw [e, en], trivial, (fun c hc => by cases hc), C⟩
    · obtain ⟨n, h3, e⟩ := map_ok_inv h2
      obtain ⟨en, C⟩ := createNode_made (by intro c e; cases e) h3
      exact ⟨.fold f init as, by rw [e, en], trivial, has, C⟩
  | zip a b =>
    unfold elabInstrM at h
    simp only at h
    unfold elabInstr at h
    rw [run_bind_get] at h
    simp only [hsc] at h
    obtain ⟨na, t, h1, h2⟩ := bind_ok_inv h
    obtain ⟨et, ka, hka⟩ := resolveOpnd_outer_inv hi.1 h1
    rw [et] at h2
    obtain ⟨nb, t, h1, h2⟩ := bind_ok_inv h2
    obtain ⟨et, kb, hkb⟩ := resolveOpnd_outer_inv hi.2 h1
    rw [et] at h2
    obtain ⟨ca, t, h1, h2⟩ := bind_ok_inv h2
    rw [isConstant_ok_inv h1] at h2
    obtain ⟨cb, t, h1, h2⟩ := bind_ok_inv h2
    rw [isConstant_ok_inv h1] at h2
    split at h2
    · obtain ⟨n, h3, e⟩ := map_ok_inv h2
      obtain ⟨en, C⟩ := createNode_made (by intro c e; cases e) h3
      rename_i va vb _ _
      exact ⟨.const (.pair va vb), by rw [e, en], trivial, (fun c hc => by cases hc), C⟩
    · obtain ⟨n, h3, e⟩ := map_ok_inv h2
      obtain ⟨en, C⟩ := createNode_made (by intro c e; cases e) h3
      refine ⟨.map fnZip [na, nb], by rw [e, en], ⟨by decide, fun hlt => absurd hlt (by decide)⟩, ?_, C⟩
      intro c hc
      simp only [kids, List.mem_cons, List.not_mem_nil, or_false] at hc
      rcases hc with e | e
      · rw [e]; exact ⟨ka, hka⟩
      · rw [e]; exact ⟨kb, hkb⟩
  | _ => exact hi.elim

/-- elaboration of a `bind` instruction at top level -/
theorem elab_bind1 {env : Env} {s s1 : State} {body k : Nat} {ro : Option Nat} (hsc : s.currentScope = .top)
    (h : (elabInstrM env [] .unit (.bind body (.outer k))).run.run s = (.ok ro, s1)) :
    ∃ lhs, s.top[k]? = some lhs ∧ ro = some (s.nodes.size + 1) ∧ MadeBind body lhs s s1 := by
  unfold elabInstrM at h
  simp only at h
  unfold elabInstr at h
  rw [run_bind_get] at h
  simp only at h
  obtain ⟨lhs, t, h1, h2⟩ := bind_ok_inv h
  obtain ⟨et, k', hk'⟩ := resolveOpnd_outer_inv (o := .outer k) trivial h1
  rw [et] at h2
  obtain ⟨n, h3, e⟩ := map_ok_inv h2
  obtain ⟨en, C⟩ := createBind_made hsc h3
  refine ⟨lhs, ?_, by rw [e, en], C⟩
  -- the table entry: redo the inversion to get the index
  unfold resolveOpnd at h1
  simp only at h1
  rw [run_bind_get] at h1
  cases hm : s.top[k]? with
  | some m =>
    rw [hm] at h1
    obtain ⟨e1, -⟩ := pure_ok_inv h1
    rw [e1]
  | none => rw [hm] at h1; cases h1

end C2c
end IncrVerif.Proofs.BindH
