import IncrVerif.Proofs.PerKeyH67
import IncrVerif.Proofs.PerKeyH74
import IncrVerif.Proofs.PerKeyH75
import IncrVerif.Proofs.PerKeyH76
import IncrVerif.Proofs.PerKeyH81
import IncrVerif.Proofs.PerKeyH85
import IncrVerif.Proofs.PerKeyH106
import IncrVerif.Proofs.PerKeyH107
import IncrVerif.Proofs.PerKeyH108
/-!
# Per-key operators over whole histories: the assembly — every contract of PK3/PK4 instantiated (no hypotheses left but `EnvP env`)
-/
namespace IncrVerif.Proofs.PerKeyH
open IncrVerif.Engine IncrVerif.Driver IncrVerif.Proofs IncrVerif.Proofs.Step IncrVerif.Proofs.Sched
open IncrVerif.Proofs.ExpertH IncrVerif.Proofs.EffH IncrVerif.Proofs.DriverH

/-- **one `recomputeOne` of the drain** (change detector, per-key input node, operator result, or any static node) -/
theorem stepSpecP {env : Env} (hE : EnvP env) : StepSpecP env :=
  stepSpecP_of (lcStepSpec env) (xStepSpec env) (staticStepSpec hE)

/-- **the drain** -/
theorem drainSpecP {env : Env} (hE : EnvP env) : DrainSpecP env := drainSpecP_of (stepSpecP hE) (popSpecP env)

/-- **`stabilise`** -/
theorem stabSpecPE {env : Env} (hE : EnvP env) : StabSpecP env :=
  stabSpecP env (drainSpecP hE) (fun _ _ Q st => output_ok_of_pq hE Q st)

/-- every state reached by a history of the fragment satisfies the invariant between actions -/
theorem history_inv_p {env : Env} (hE : EnvP env) {N : Nat} {d : Bool} {acts : List Action} {s : State} {tk : Array Nat}
    (ha : RunOKP env acts (State.init N d) #[])
    (h : QR.runActions env acts (State.init N d) #[] = .ok (s, tk)) : ∃ rk, PQ env rk s :=
  history_p (actionSpecP env) (stabSpecPE hE) ha h

/-- at every `stabilise` of a history of the fragment: the state before satisfies the invariant, the `stabilise` returns with
all conclusions of `StabilisedP` -/
theorem history_every_stabilise_p {env : Env} (hE : EnvP env) {N : Nat} {d : Bool} {as bs : List Action} {s : State}
    {tk : Array Nat} (ha : RunOKP env (as ++ Action.stabilise :: bs) (State.init N d) #[])
    (h : QR.runActions env (as ++ Action.stabilise :: bs) (State.init N d) #[] = .ok (s, tk)) :
    ∃ s1 tk1 s2 rk1, QR.runActions env as (State.init N d) #[] = .ok (s1, tk1) ∧ PQ env rk1 s1 ∧
      (stabilise env fuelDefault).run.run s1 = (.ok (), s2) ∧ StabilisedP env fuelDefault s1 s2 ∧
      QR.runActions env bs s2 tk1 = .ok (s, tk) :=
  history_stabilise_p (actionSpecP env) (stabSpecPE hE) ha h

end IncrVerif.Proofs.PerKeyH
