import IncrVerif.Proofs.PerKeyH4
import IncrVerif.Proofs.PerKeyH6
/-!
# Per-key operators, a run of an expert node, part 4: the bookkeeping along a step that keeps kinds and the structure of
the expert records

* `XG s s'`: sizes, kinds, and `f`/`node`/`children`/`pk` of every expert record are kept (flags and slots may change).
* `pfrag_frame`, `pkok_frame`, `norem_frame`.
-/
namespace IncrVerif.Proofs.PerKeyH
open IncrVerif IncrVerif.Engine IncrVerif.Driver IncrVerif.Proofs IncrVerif.Proofs.Step IncrVerif.Proofs.Sched
open IncrVerif.Proofs.ExpertH IncrVerif.Proofs.EffH IncrVerif.Proofs.DriverH

/-- sizes, kinds, and the structure of the expert records are kept -/
structure XG (s s' : State) : Prop where
  size : s'.nodes.size = s.nodes.size
  kind : ∀ m, (s'.nodeD m).kind = (s.nodeD m).kind
  fwd : ∀ (e : Nat) (er : ExpertRec), s.experts[e]? = some er → ∃ er', s'.experts[e]? = some er' ∧ er'.f = er.f ∧
    er'.node = er.node ∧ er'.children = er.children ∧ er'.pk = er.pk
  bwd : ∀ (e : Nat) (er' : ExpertRec), s'.experts[e]? = some er' → ∃ er, s.experts[e]? = some er ∧ er'.f = er.f ∧
    er'.node = er.node ∧ er'.children = er.children ∧ er'.pk = er.pk

namespace XG
variable {s s' s'' : State}

theorem refl (s : State) : XG s s :=
  ⟨rfl, fun _ => rfl, fun _ er h => ⟨er, h, rfl, rfl, rfl, rfl⟩, fun _ er h => ⟨er, h, rfl, rfl, rfl, rfl⟩⟩

theorem trans (h1 : XG s s') (h2 : XG s' s'') : XG s s'' where
  size := h2.size.trans h1.size
  kind m := (h2.kind m).trans (h1.kind m)
  fwd e er he := by
    obtain ⟨er1, he1, a1, a2, a3, a4⟩ := h1.fwd e er he
    obtain ⟨er2, he2, b1, b2, b3, b4⟩ := h2.fwd e er1 he1
    exact ⟨er2, he2, b1.trans a1, b2.trans a2, b3.trans a3, b4.trans a4⟩
  bwd e er2 he2 := by
    obtain ⟨er1, he1, b1, b2, b3, b4⟩ := h2.bwd e er2 he2
    obtain ⟨er, he, a1, a2, a3, a4⟩ := h1.bwd e er1 he1
    exact ⟨er, he, b1.trans a1, b2.trans a2, b3.trans a3, b4.trans a4⟩

theorem of_xf (h : XF s s') : XG s s' where
  size := h.size
  kind := h.kind
  fwd e er he := by
    obtain ⟨er', he', h1, h2, h3, h4, -⟩ := h.xrec he
    exact ⟨er', he', h1, h2, h3, h4⟩
  bwd e er' he' := by
    obtain ⟨er, he, h1, h2, h3, h4, -⟩ := h.xrec_back he'
    exact ⟨er, he, h1, h2, h3, h4⟩

theorem xnone (G : XG s s') {e : Nat} (he : s.experts[e]? = none) : s'.experts[e]? = none := by
  cases h' : s'.experts[e]? with
  | none => rfl
  | some er' =>
    obtain ⟨er, h, -⟩ := G.bwd e er' h'
    rw [he] at h; cases h

theorem xRec (G : XG s s') (e : Nat) :
    (xRec s'.experts e).pk = (xRec s.experts e).pk ∧
      (xRec s'.experts e).children = (xRec s.experts e).children ∧ (xRec s'.experts e).f = (xRec s.experts e).f := by
  cases he : s.experts[e]? with
  | none => rw [xRec_none he, xRec_none (G.xnone he)]; exact ⟨rfl, rfl, rfl⟩
  | some er =>
    obtain ⟨er', he', h1, -, h3, h4⟩ := G.fwd e er he
    rw [xRec_some he, xRec_some he']
    exact ⟨h4, h3, h1⟩

theorem kidsX (G : XG s s') (m : Nat) :
    kidsX s'.experts (s'.nodeD m).kind = kidsX s.experts (s.nodeD m).kind := by
  rw [G.kind]
  cases (s.nodeD m).kind <;> try rfl
  rename_i e
  simp only [ExpertH.kidsX, (G.xRec e).2.1]

theorem below (G : XG s s') {a d : Nat} (h : ExpertH.Below s a d) : ExpertH.Below s' a d := by
  induction h with
  | refl a => exact .refl a
  | step h1 _ ih => exact .step (by rw [G.kidsX]; exact h1) ih

end XG

/-! ## the fragment -/

theorem pfrag_frame {env : Env} {s s' : State} (F : PFrag env s) (G : XG s s') (fr' : Fr s')
    (hcut : ∀ m, (s'.nodeD m).cutoff = (s.nodeD m).cutoff)
    (hcr : ∀ m, (s'.nodeD m).createdIn = (s.nodeD m).createdIn)
    (hfo : ∀ m, (s'.nodeD m).forceNecessary = (s.nodeD m).forceNecessary)
    (hscope : s'.currentScope = s.currentScope) : PFrag env s' where
  pc := fr'.pc
  kind n hn := by rw [G.kind]; exact F.kind n (by rw [← G.size]; exact hn)
  valid n _ := fr'.valid n
  cutoff n hn := by rw [hcut]; exact F.cutoff n (by rw [← G.size]; exact hn)
  top n hn := by rw [hcr]; exact F.top n (by rw [← G.size]; exact hn)
  force n hn := by rw [hfo]; exact F.force n (by rw [← G.size]; exact hn)
  xrec n e hn hk := by
    rw [G.size] at hn; rw [G.kind] at hk
    obtain ⟨er, he, h2⟩ := F.xrec n e hn hk
    obtain ⟨er', he', -, h4, -⟩ := G.fwd e er he
    exact ⟨er', he', h4.trans h2⟩
  xnode e er' he' := by
    obtain ⟨er, he, -, h2, -⟩ := G.bwd e er' he'
    obtain ⟨k1, k2⟩ := F.xnode e er he
    rw [h2, G.size, G.kind]
    exact ⟨k1, k2⟩
  xok e er' he' := by
    obtain ⟨er, he, h1, -, -, h4⟩ := G.bwd e er' he'
    obtain ⟨k1, -, k3⟩ := F.xok e er he
    exact ⟨by rw [h4]; exact k1, fr'.ni e er' he', by rw [h1]; exact k3⟩
  scope := by rw [hscope]; exact F.scope

/-! ## the bookkeeping of the operators -/

theorem Inst.frame {s s' : State} {t : Template} {key : Int} {p : Nat} {locs : List Nat} {m : Nat}
    (hsz : s'.nodes.size = s.nodes.size) (hk : ∀ m, (s'.nodeD m).kind = (s.nodeD m).kind) (ht : s'.top = s.top)
    (h : Inst s t key p locs m) : Inst s' t key p locs m where
  len := h.len
  lt c hc := by rw [hsz]; exact h.lt c hc
  kind j i c hi hc := by rw [ht, hk]; exact h.kind j i c hi hc
  ret := by rw [ht]; exact h.ret

theorem EntryOK.frame {env : Env} {s s' : State} {op : Nat} {pr : PerKeyRec} {er er' : ExpertRec} {key : Int}
    {p d : Nat} (G : XG s s') (ht : s'.top = s.top) (hc : er'.children = er.children)
    (hin : ((V s).nodeD p).recomputedAt = -1 → ((V s').nodeD p).recomputedAt = -1 ∨
      ∃ ed, ed ∈ er.children ∧ ed.dep = d ∧ ExpertH.Below s ed.child p)
    (h : EntryOK env s op pr er key p d) : EntryOK env s' op pr er' key p d where
  plt := by rw [G.size]; exact h.plt
  pnode := by
    obtain ⟨ep, erp, d0, h1, h2, h3, h4⟩ := h.pnode
    obtain ⟨erp', h2', -, -, k3, k4⟩ := G.fwd ep erp h2
    exact ⟨ep, erp', d0, by rw [G.kind]; exact h1, h2', k4.trans h3, k3.trans h4⟩
  edge := by
    obtain ⟨ed, locs, h1, h2, h3, h4, h5, h6⟩ := h.edge
    exact ⟨ed, locs, by rw [hc]; exact h1, h2, h3, h4.frame G.size G.kind ht, h5, h6⟩
  input := by
    rcases h.input with ⟨ed, h1, h2, h3⟩ | h0
    · exact Or.inl ⟨ed, by rw [hc]; exact h1, h2, G.below h3⟩
    · rcases hin h0 with h1 | ⟨ed, h1, h2, h3⟩
      · exact Or.inr h1
      · exact Or.inl ⟨ed, by rw [hc]; exact h1, h2, G.below h3⟩
  consec := by
    obtain ⟨ed, h1, h2, h3, h4⟩ := h.consec
    exact ⟨ed, by rw [hc]; exact h1, h2, h3.frame G.size G.kind ht, by rw [G.size]; exact h4⟩

theorem OpOK.frame {env : Env} {s s' : State} {op : Nat} {pr : PerKeyRec} (G : XG s s') (ht : s'.top = s.top)
    (hobs : ∀ m, (s'.nodeD m).observers = (s.nodeD m).observers)
    (hconv : (s'.nodeD (pr.result - 1)).value = (s.nodeD (pr.result - 1)).value)
    (hlc : s'.isStale pr.lhsChange = s.isStale pr.lhsChange)
    (hin : ∀ (e : Nat) (er : ExpertRec) (key : Int) (p d : Nat), (s.nodeD pr.result).kind = .expert e →
      s.experts[e]? = some er → (key, (p, d)) ∈ pr.prevNodes → ((V s).nodeD p).recomputedAt = -1 →
      ((V s').nodeD p).recomputedAt = -1 ∨ ∃ ed, ed ∈ er.children ∧ ed.dep = d ∧ ExpertH.Below s ed.child p)
    (h : OpOK env s op pr) : OpOK env s' op pr where
  cut := h.cut
  own c x hc hx hp := by
    rw [G.size] at hc; rw [G.kidsX] at hx
    exact h.own c x hc hx hp
  noObs x hp := by rw [hobs]; exact h.noObs x hp
  privTop k x hk := by rw [ht] at hk; exact h.privTop k x hk
  templ := h.templ
  nodes := by
    obtain ⟨x, e, er, hN, he, hpk, ⟨d0, rest, hc, hr, hd⟩, hE, hO⟩ := h.nodes
    obtain ⟨er', he', -, -, k3, k4⟩ := G.fwd e er he
    refine ⟨x, e, er', ?_, he', k4.trans hpk, ⟨d0, rest, k3.trans hc, hr, hd⟩,
      fun key p d hm => (hE key p d hm).frame G ht k3 (hin e er key p d hN.result he hm), fun k hk => ?_⟩
    · exact ⟨hN.pos, hN.lc, by rw [G.size]; exact hN.lt, by rw [G.kind]; exact hN.conv, hN.xlt,
        by rw [G.kind]; exact hN.xvar, by rw [G.kind]; exact hN.result, by rw [G.kind]; exact hN.lcKind, by rw [G.kind]; exact hN.out⟩
    · rw [ht]; exact hO k hk
  keys := h.keys
  deps := h.deps
  sorted := h.sorted
  dom := h.dom
  input hs := by rw [hconv]; exact h.input (by rw [← hlc]; exact hs)

theorem pkok_frame {env : Env} {s s' : State} (P : PKOK env s) (G : XG s s') (hp : s'.perkeys = s.perkeys)
    (ht : s'.top = s.top) (hobs : ∀ m, (s'.nodeD m).observers = (s.nodeD m).observers)
    (hob : s'.observers = s.observers)
    (hconv : ∀ (op : Nat) (pr : PerKeyRec), s.perkeys[op]? = some pr →
      (s'.nodeD (pr.result - 1)).value = (s.nodeD (pr.result - 1)).value)
    (hlc : ∀ (op : Nat) (pr : PerKeyRec), s.perkeys[op]? = some pr →
      s'.isStale pr.lhsChange = s.isStale pr.lhsChange)
    (hin : ∀ (op : Nat) (pr : PerKeyRec) (e : Nat) (er : ExpertRec) (key : Int) (p d : Nat), s.perkeys[op]? = some pr →
      (s.nodeD pr.result).kind = .expert e → s.experts[e]? = some er → (key, (p, d)) ∈ pr.prevNodes →
      ((V s).nodeD p).recomputedAt = -1 →
      ((V s').nodeD p).recomputedAt = -1 ∨ ∃ ed, ed ∈ er.children ∧ ed.dep = d ∧ ExpertH.Below s ed.child p) :
    PKOK env s' where
  ops op pr h := by
    rw [hp] at h
    exact (P.ops op pr h).frame G ht hobs (hconv op pr h) (hlc op pr h) (fun e er key p d => hin op pr e er key p d h)
  recs e er' he' := by
    obtain ⟨er, he, -, h2, -, h4⟩ := G.bwd e er' he'
    obtain ⟨op, pr, h, hcase⟩ := P.recs e er he
    refine ⟨op, pr, by rw [hp]; exact h, ?_⟩
    rw [h4, h2]
    exact hcase
  pot := by
    obtain ⟨ψ, Q⟩ := P.pot
    refine ⟨ψ, ⟨fun n c hn hc => ?_, fun k n h => ?_, fun op pr h => ?_, fun n hn => ?_⟩⟩
    · rw [G.kidsX] at hc; rw [G.size] at hn; exact Q.mono n c hn hc
    · rw [ht] at h; exact Q.top k n h
    · rw [hp] at h; exact Q.op op pr h
    · rw [G.size] at hn; exact Q.le n hn
  lcs n f args hn hk hf := by
    rw [G.size] at hn; rw [G.kind] at hk
    rw [hp]; exact P.lcs n f args hn hk hf
  obsTop o ob ho := by
    rw [hob] at ho; rw [ht]; exact P.obsTop o ob ho
  maps op pr h v hv := by
    rw [hp] at h
    rw [hconv op pr h] at hv
    exact P.maps op pr h v hv

/-! ## stage 1 -/

theorem norem_frame {s s' : State} (N : NoRem s) (hk : ∀ m, (s'.nodeD m).kind = (s.nodeD m).kind)
    (hp : s'.perkeys = s.perkeys) (hvars : s'.vars = s.vars)
    (hval : ∀ m, (∀ e, (s.nodeD m).kind ≠ .expert e) → (s'.nodeD m).value = (s.nodeD m).value) : NoRem s' := by
  intro op pr h
  rw [hp] at h
  obtain ⟨x, c, vc, mv, h1, h2, h3, h4, h5, h6, h7, h8⟩ := (N op pr h).input
  have hx : (s'.nodeD x).value = (s.nodeD x).value := hval x (fun e he => by rw [h2] at he; cases he)
  have hcv : (s'.nodeD (pr.result - 1)).value = (s.nodeD (pr.result - 1)).value :=
    hval _ (fun e he => by rw [h1] at he; cases he)
  refine ⟨x, c, vc, mv, by rw [hk]; exact h1, by rw [hk]; exact h2, by rw [hvars]; exact h3, h4, h5, h6, ?_, ?_⟩
  · rw [hx]; exact h7
  · rw [hcv, hx]; exact h8

end IncrVerif.Proofs.PerKeyH
