import IncrVerif.Proofs.HeightH3
/-!
# C19 for whole histories: `create` returns and keeps the exact-height invariant
-/
namespace IncrVerif.Proofs.HeightH
open IncrVerif.Engine IncrVerif.Driver IncrVerif.Proofs IncrVerif.Proofs.Step IncrVerif.Proofs.Sched
open IncrVerif.Proofs.Quiet

/-- the elaboration of a static instruction whose operands exist returns; it touches neither the adjust-heights
heap nor `maxHeightSeen` (variant of `Quiet.elab_ret`) -/
theorem elab_retH {env : Env} {s : State} {i : Instr} (Q : QInv env s) (hi : StaticInstr env i)
    (hin : InstrIn s i) :
    ∃ ro s1, (elabInstrM env [] .unit i).run.run s = (.ok ro, s1) ∧ s1.ahh = s.ahh ∧
      s1.maxHeightSeen = s.maxHeightSeen ∧
      s1.vars.size = s.vars.size + (grow (.create i)).2.1 := by
  have hsc := Q.struct.static.scope
  cases i with
  | const v =>
    unfold elabInstrM
    simp only
    unfold elabInstr
    rw [run_bind_get]
    simp only [hsc]
    exact ⟨_, _, map_run_ok (createNode_top_run _ s), rfl, rfl, rfl⟩
  | var v =>
    unfold elabInstrM
    simp only
    unfold elabInstr
    rw [run_bind_get]
    simp only
    exact ⟨_, _, map_run_ok (createVar_top_run _ s), rfl, rfl, by simp only [Array.size_push]; rfl⟩
  | map f args =>
    unfold elabInstrM
    simp only
    unfold elabInstr
    rw [run_bind_get]
    simp only [hsc]
    obtain ⟨r, hr⟩ := mapM_resolve_run args hin
    rw [run_bind_ok hr]
    exact ⟨_, _, map_run_ok (createNode_top_run _ s), rfl, rfl, rfl⟩
  | fold f init cs =>
    unfold elabInstrM
    simp only
    unfold elabInstr
    rw [run_bind_get]
    simp only [hsc]
    obtain ⟨r, hr⟩ := mapM_resolve_run cs hin
    rw [run_bind_ok hr]
    split
    · exact ⟨_, _, map_run_ok (createNode_top_run _ s), rfl, rfl, rfl⟩
    · exact ⟨_, _, map_run_ok (createNode_top_run _ s), rfl, rfl, rfl⟩
  | zip a b =>
    unfold elabInstrM
    simp only
    unfold elabInstr
    rw [run_bind_get]
    simp only [hsc]
    obtain ⟨na, hna⟩ := resolveOpnd_run hin.1
    obtain ⟨nb, hnb⟩ := resolveOpnd_run hin.2
    obtain ⟨-, ka, hka⟩ := resolveOpnd_outer_inv hi.1 hna
    obtain ⟨-, kb, hkb⟩ := resolveOpnd_outer_inv hi.2 hnb
    obtain ⟨ca, hca⟩ := isConstant_run (Q.top ka na hka)
    obtain ⟨cb, hcb⟩ := isConstant_run (Q.top kb nb hkb)
    rw [run_bind_ok hna, run_bind_ok hnb, run_bind_ok hca, run_bind_ok hcb]
    split
    · exact ⟨_, _, map_run_ok (createNode_top_run _ s), rfl, rfl, rfl⟩
    · exact ⟨_, _, map_run_ok (createNode_top_run _ s), rfl, rfl, rfl⟩
  | _ => exact hi.elim

/-- creating a node of the static fragment returns and keeps the exact-height invariant; no height is set -/
theorem create_totalH {env : Env} {N : Nat} {s : State} {i : Instr} {tk : Array Nat}
    (Q : QInv env s) (T : TInvH N s) (hi : StaticInstr env i) (hok : InstrIn s i) :
    Tot (stepAction env (.create i) tk) s (fun r s' => r.2 = tk ∧ TInvH N s' ∧ Grown (.create i) s s' ∧
      s'.maxHeightSeen = s.maxHeightSeen ∧ (∀ m, m < s.nodes.size → (s'.nodeD m).kind = (s.nodeD m).kind)) := by
  obtain ⟨ro, s1, hrun, hahh, hmhs, hvs⟩ := elab_retH Q hi hok
  obtain ⟨k, ero, hk, hkids, C⟩ := elab_static Q hi hrun
  have K : KidsLt s := kidsLt_of_static Q.struct.static
  unfold stepAction
  simp only
  refine Tot.bind_ok hrun ?_
  rw [ero]
  simp only
  refine Tot.bind_modify (Tot.pure ⟨rfl, ?_, ?_, ?_, ?_⟩)
  · refine ⟨?_, ⟨?_, ?_, ?_, ?_⟩, ?_, ?_, ?_, ?_, ?_⟩
    · intro m hn ho
      have hn' : s1.isNecessary m = true := hn
      have e := C.ne_of_nec hn'
      rw [C.nec_old e] at hn'
      obtain ⟨h1, h2⟩ := T.hx m hn' ho
      have hm : m < s.nodes.size := by
        rcases Nat.lt_or_ge m s.nodes.size with h | h
        · exact h
        · have hd : s.isNecessary m = false := by
            rw [State.isNecessary, nodeD_default s m h]; rfl
          rw [hd] at hn'; cases hn'
      rw [needH_congr_lt K (fun j hj => by
        show (s1.nodeD j).kind = _
        rw [C.nodeD_lt (by omega)])]
      show (s1.nodeD m).height = (needH s m : Int) ∧ (needH s m : Int) ≤ s1.maxHeightSeen
      rw [C.nodeD_old e, hmhs]
      exact ⟨h1, h2⟩
    · show s1.ahh.maxAllowed = _
      rw [hahh]; exact T.room.ahh
    · show s1.rch.maxAllowed = _
      rw [C.rch]; exact T.room.rch
    · show s1.maxHeightSeen ≤ _
      rw [hmhs]; exact T.room.seen
    · show 0 ≤ s1.maxHeightSeen
      rw [hmhs]; exact T.room.seen0
    · show s1.ahh.length = 0
      rw [hahh]; exact T.ahh0
    · intro c vc h
      have h' : s1.vars[c]? = some vc := h
      rcases C.vars with ⟨-, e⟩ | ⟨v, -, ev⟩
      · rw [e] at h'; exact T.linked c vc h'
      · rw [ev, Array.getElem?_push] at h'
        split at h'
        · injection h' with h'
          rw [← h']
        · exact T.linked c vc h'
    · show (s1.top.push _).size = s1.nodes.size
      rw [Array.size_push, C.top, C.size, T.topSize]
    · show s1.newObservers.Nodup
      rw [C.newObservers]; exact T.newNodup
    · intro o ob h1 h2
      have h1' : o ∈ s1.newObservers := h1
      have h2' : s1.observers[o]? = some ob := h2
      rw [C.newObservers] at h1'
      rw [C.observers] at h2'
      exact T.newState o ob h1' h2'
  · refine ⟨?_, ?_, ?_⟩
    · show s1.nodes.size = _
      rw [C.size]
      cases i <;> first | rfl | exact hi.elim
    · exact hvs
    · show s1.observers.size = _
      rw [C.observers]
      cases i <;> first | rfl | exact hi.elim
  · exact hmhs
  · intro m hm
    show (s1.nodeD m).kind = _
    rw [C.nodeD_lt hm]

end IncrVerif.Proofs.HeightH
