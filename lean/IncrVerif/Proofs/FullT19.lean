import IncrVerif.Proofs.FullT18
import IncrVerif.Proofs.FullT9
/-!
# C04 combined fragment: the verdict step returns — the contract `McvmC` discharged by `L10`
-/
namespace IncrVerif.Proofs.FullT
open IncrVerif.Engine IncrVerif.Proofs IncrVerif.Proofs.Step IncrVerif.Proofs.Sched IncrVerif.Proofs.Quiet IncrVerif.Proofs.FullH

/-- the contract of `SV` holds (`L10`: `BSimAt.maybeChangeValueManual_stored`) -/
theorem mcvmC (K : Kind → Prop) (env : Env) (sp : Nat → Val → Val) : McvmC K env sp :=
  fun _ fuel n o o' did _ hk hval hm hsz _ => BSimAt.maybeChangeValueManual_stored env fuel n o o' did hk hval hm hsz

/-- **the verdict step returns** (no contract left) -/
theorem step_verdict_returns' {env : Env} {sp : Nat → Val → Val} {t s : State} {g : Nat → Option Val} {N fuel n : Nat}
    (D : DInvF env sp t s g (some n)) (hP : PInv s) (T : NestH.DT (VE env sp) N (virt g s)) (hroom : s.nodes.size ≤ N)
    (hk1 : ∀ p i, (s.nodeD n).kind ≠ .mapRef p i) (hk2 : ∀ m i, (s.nodeD n).kind ≠ .mapWithOld m i)
    (hk3 : ∀ b, (s.nodeD n).kind ≠ .bindLhsChange b) (hf : s.nodes.size ≤ fuel) (hf1 : 1 ≤ fuel) :
    ∃ r s', (recomputeOne env fuel n).run.run s = (.ok r, s') ∧ PInv s' :=
  step_verdict_returns (mcvmC _ env sp) D hP T hroom hk1 hk2 hk3 hf hf1

end IncrVerif.Proofs.FullT
