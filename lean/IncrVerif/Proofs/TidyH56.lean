import IncrVerif.Proofs.TidyH55
/-!
# T1b, part 2: bisimulation ladder — heap, height, bookkeeping (conversion of MapRef4 / MapRef5 / MapRef7,
the unconditional lemmas)
-/
namespace IncrVerif.Proofs.TidyH.RT
open IncrVerif.Engine IncrVerif.Driver IncrVerif.Proofs IncrVerif.Proofs.Step IncrVerif.Proofs.Sched IncrVerif.Proofs.Quiet
open IncrVerif.Proofs.MapRefH

section
variable {P : State → Prop} [Keeps P] {g : Nat → Option Val}

/-- loops: same list, bodies simulate each other (the body gets the membership of the element) -/
macro "bsim_loop" : tactic =>
  `(tactic| ((with_reducible refine BSim.at (BSim.forIn _ (fun _ _ _ => ?_) _) _); intro _))

/-! ## from MapRef4 -/

theorem BSim.setHeight (n : Nat) (h : Int) : BSim P g (Engine.setHeight n h) (Engine.setHeight n h) := by
  intro s; unfold Engine.setHeight; bsim
macro_rules | `(tactic| bsim_leaf) => `(tactic| with_reducible exact BSim.setHeight _ _)

theorem BSim.rchLink (n : Nat) : BSim P g (Engine.rchLink n) (Engine.rchLink n) := by
  intro s; unfold Engine.rchLink; bsim
macro_rules | `(tactic| bsim_leaf) => `(tactic| with_reducible exact BSim.rchLink _)

theorem BSim.rchInsert (n : Nat) : BSim P g (Engine.rchInsert n) (Engine.rchInsert n) := by
  intro s; unfold Engine.rchInsert; bsim
macro_rules | `(tactic| bsim_leaf) => `(tactic| with_reducible exact BSim.rchInsert _)

/-! ## from MapRef5 -/

omit [Keeps P] in
theorem BSim.getBind (b : Nat) : BSim P g (Engine.getBind b) (Engine.getBind b) := by
  intro s; unfold Engine.getBind; bsim
  split <;> bsim
macro_rules | `(tactic| bsim_leaf) => `(tactic| with_reducible exact BSim.getBind _)

omit [Keeps P] in
theorem BSim.getExpert (b : Nat) : BSim P g (Engine.getExpert b) (Engine.getExpert b) := by
  intro s; unfold Engine.getExpert; bsim
  split <;> bsim
macro_rules | `(tactic| bsim_leaf) => `(tactic| with_reducible exact BSim.getExpert _)

theorem BSim.logEv (e : Event) : BSim P g (Engine.logEv e) (Engine.logEv e) := by
  intro s; unfold Engine.logEv; bsim
macro_rules | `(tactic| bsim_leaf) => `(tactic| with_reducible exact BSim.logEv _)

theorem BSim.modExpert (e : Nat) (f : ExpertRec → ExpertRec) :
    BSim P g (Engine.modExpert e f) (Engine.modExpert e f) := by
  intro s; unfold Engine.modExpert; bsim
macro_rules | `(tactic| bsim_leaf) => `(tactic| with_reducible exact BSim.modExpert _ _)

theorem BSim.observabilityChange (e : Nat) (b : Bool) :
    BSim P g (Engine.observabilityChange e b) (Engine.observabilityChange e b) := by
  intro s; unfold Engine.observabilityChange; bsim
macro_rules | `(tactic| bsim_leaf) => `(tactic| with_reducible exact BSim.observabilityChange _ _)

theorem BSim.scopeHeight (sc : Scope) : BSim P g (Engine.scopeHeight sc) (Engine.scopeHeight sc) := by
  intro s; unfold Engine.scopeHeight
  cases sc with
  | top => bsim
  | bind b => bsim
macro_rules | `(tactic| bsim_leaf) => `(tactic| with_reducible exact BSim.scopeHeight _)

theorem BSim.scopeIsNecessary (sc : Scope) : BSim P g (Engine.scopeIsNecessary sc) (Engine.scopeIsNecessary sc) := by
  intro s; unfold Engine.scopeIsNecessary
  cases sc with
  | top => bsim
  | bind b => bsim
macro_rules | `(tactic| bsim_leaf) => `(tactic| with_reducible exact BSim.scopeIsNecessary _)

theorem BSim.handleAfterStabilisation (n : Nat) :
    BSim P g (Engine.handleAfterStabilisation n) (Engine.handleAfterStabilisation n) := by
  intro s; unfold Engine.handleAfterStabilisation; bsim
macro_rules | `(tactic| bsim_leaf) => `(tactic| with_reducible exact BSim.handleAfterStabilisation _)

theorem BSim.maybeHandleAfterStabilisation (n : Nat) :
    BSim P g (Engine.maybeHandleAfterStabilisation n) (Engine.maybeHandleAfterStabilisation n) := by
  intro s; unfold Engine.maybeHandleAfterStabilisation; bsim
macro_rules | `(tactic| bsim_leaf) => `(tactic| with_reducible exact BSim.maybeHandleAfterStabilisation _)

/-! ## from MapRef7 -/

theorem BSim.tick : BSim P g Engine.tick Engine.tick := by
  intro s; unfold Engine.tick; bsim
  split <;> bsim
macro_rules | `(tactic| bsim_leaf) => `(tactic| with_reducible exact BSim.tick)

theorem BSim.bumpCounter (f : Counters → Counters) : BSim P g (Engine.bumpCounter f) (Engine.bumpCounter f) := by
  intro s; unfold Engine.bumpCounter; bsim
macro_rules | `(tactic| bsim_leaf) => `(tactic| with_reducible exact BSim.bumpCounter _)

theorem BSim.shouldCutoff (env : Env) (n : Nat) (o v : Val) :
    BSim P g (Engine.shouldCutoff env n o v) (Engine.shouldCutoff (virtEnv env) n o v) := by
  intro s; unfold Engine.shouldCutoff; simp only [virtEnv_cutoff]; bsim
  split <;> bsim
macro_rules | `(tactic| bsim_leaf) => `(tactic| with_reducible exact BSim.shouldCutoff _ _ _ _)

theorem BSim.rchMinHeight : BSim P g Engine.rchMinHeight Engine.rchMinHeight := by
  intro s; unfold Engine.rchMinHeight; bsim
  exact BSimAt.ret _
macro_rules | `(tactic| bsim_leaf) => `(tactic| with_reducible exact BSim.rchMinHeight)

theorem BSim.parentIterCanRecomputeNow (p child : Nat) :
    BSim P g (Engine.parentIterCanRecomputeNow p child) (Engine.parentIterCanRecomputeNow p child) := by
  intro s; unfold Engine.parentIterCanRecomputeNow; bsim
  bsim_kind
  have e : ∀ (x : Nat), ¬ ([x].length ≥ 2) := by intro x; simp
  rw [if_neg (e _)]
  bsim
macro_rules | `(tactic| bsim_leaf) => `(tactic| with_reducible exact BSim.parentIterCanRecomputeNow _ _)

end
end IncrVerif.Proofs.TidyH.RT
