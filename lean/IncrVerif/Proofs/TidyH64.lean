import IncrVerif.Proofs.TidyH63
/-!
# T1b, part 7: one `recomputeOne` on the current node of the drain invariant RETURNS
-/
namespace IncrVerif.Proofs.TidyH.RT
open IncrVerif.Engine IncrVerif.Driver IncrVerif.Proofs IncrVerif.Proofs.Step IncrVerif.Proofs.Sched IncrVerif.Proofs.Quiet
open IncrVerif.Proofs.MapRefH

section
variable {env : Env} {g : Nat → Option Val} {s : State}

/-- the carried invariant from the drain invariant -/
theorem dInvR_p2 {x : Option Nat} (D : DInvR env s g x) : P2 s.nodes.size (fun m => (s.nodeD m).kind) s := by
  refine P2.of_frag D.frag D.pinv fun c p i hm => ?_
  have := (D.inv.graph.parent c p i (by rw [virt_nodeD, virtNode_parents]; exact hm)).2
  have := List.mem_of_getElem? this
  rwa [virt_kids] at this

/-- bookkeeping at the start of a step keeps the carried invariant -/
theorem P2.of_same {N : Nat} {K : Nat → Kind} {s s' : State} (h : P2 N K s) (hsz : s'.nodes.size = s.nodes.size)
    (hpi : s'.propagateInvalidity = s.propagateInvalidity)
    (hnd : ∀ m, (s'.nodeD m).kind = (s.nodeD m).kind ∧ (s'.nodeD m).valid = (s.nodeD m).valid ∧
      (s'.nodeD m).cutoff = (s.nodeD m).cutoff ∧ (s'.nodeD m).parents = (s.nodeD m).parents) : P2 N K s' := by
  refine h.of_nodeD ⟨fun m e => ?_, fun m => ?_, hpi.trans h.fr.pinv, fun m p i hk => ?_⟩ hsz (fun m => (hnd m).1)
    (fun m x hx => by rw [(hnd m).2.2.2] at hx; exact hx)
  · rw [(hnd m).1]; exact h.fr.noExp m e
  · rw [(hnd m).2.1]; exact h.fr.valid m
  · rw [(hnd m).2.2.1]; rw [(hnd m).1] at hk; exact h.fr.cut m p i hk

theorem P2.started_logged {N : Nat} {K : Nat → Kind} (h : P2 N K s) (n : Nat) (es : List Event) :
    P2 N K (logged es (started n s)) := by
  refine h.of_same (by simp [logged, started]) rfl fun m => ?_
  have e : (logged es (started n s)).nodeD m = (started n s).nodeD m := rfl
  rw [e, started_nodeD]; split <;> exact ⟨rfl, rfl, rfl, rfl⟩

/-- both steps reduce to `maybe_change_value`, with the same value and log entries -/
theorem recomputeOne_both {fuel n : Nat} (F : RFrag env s) (hn : n < s.nodes.size)
    (hk : ∀ p i, (s.nodeD n).kind ≠ .mapRef p i)
    (hvar : ∀ c, (s.nodeD n).kind = .var c → ∃ vc, s.vars[c]? = some vc)
    (hkids : ∀ a, a ∈ kidsR (s.nodeD n).kind → tv g s a = s.value env a ∧ (s.value env a).isSome = true) :
    ∃ v es, (recomputeOne env fuel n).run.run s
        = (maybeChangeValue env fuel n v).run.run (logged es (started n s)) ∧
      (recomputeOne (virtEnv env) fuel n).run.run (virt g s)
        = (maybeChangeValue (virtEnv env) fuel n v).run.run (logged es (started n (virt g s))) := by
  have hnd := some_of_lt hn
  have hval := F.valid n hn
  have hrk := F.kind n hn
  have hvn : (virt g s).nodes[n]? = some (virtNode (g n) (s.nodeD n)) := by rw [virt_getElem?, hnd]; rfl
  have hvval : (virtNode (g n) (s.nodeD n)).valid = true := by rw [virtNode_valid]; exact hval
  have hvk := virtNode_kind (g n) (s.nodeD n)
  cases hkd : (s.nodeD n).kind with
  | const v =>
    rw [hkd] at hvk
    exact ⟨v, [], recomputeOne_const_run env fuel n s _ v hnd hval hkd,
      recomputeOne_const_run (virtEnv env) fuel n (virt g s) _ v hvn hvval hvk⟩
  | var c =>
    rw [hkd] at hvk
    obtain ⟨vc, hvc⟩ := hvar c hkd
    exact ⟨vc.value, [], recomputeOne_var_run env fuel n s _ c vc hnd hval hkd hvc,
      recomputeOne_var_run (virtEnv env) fuel n (virt g s) _ c vc hvn hvval hvk hvc⟩
  | map f args =>
    rw [hkd] at hvk hrk hkids
    obtain ⟨vals, hvals⟩ := valuesOf_of_isSome env s args fun a ha => (hkids a ha).2
    have hvvals : valuesOf (virtEnv env) (virt g s) args = some vals := by
      rw [valuesOf_virt env s args fun a ha => (hkids a ha).1]; exact hvals
    by_cases hf : f < fnZip
    · refine ⟨env.fn f vals, [.inv s!"f{f}" n vals (env.fn f vals).render], ?_, ?_⟩
      · exact recomputeOne_map_run env fuel n s _ f args vals hnd hval hkd hf hvals (hrk.2 hf vals) F.pc
      · have := recomputeOne_map_run (virtEnv env) fuel n (virt g s) _ f args vals hvn hvval hvk hf hvvals
          (hrk.2 hf vals) F.pc
        rw [virtEnv_fn_real env hrk.1] at this
        exact this
    · have hpk : f < fnPerKey := by
        have := hrk.1; unfold projBase at this; unfold fnPerKey; omega
      refine ⟨env.fn f vals, [], ?_, ?_⟩
      · exact recomputeOne_mapBuiltin_run env fuel n s _ f args vals hnd hval hkd hf hpk hvals
      · have := recomputeOne_mapBuiltin_run (virtEnv env) fuel n (virt g s) _ f args vals hvn hvval hvk hf hpk hvvals
        rw [virtEnv_fn_real env hrk.1] at this
        exact this
  | fold f init cs =>
    rw [hkd] at hvk hkids
    obtain ⟨vals, hvals⟩ := valuesOf_of_isSome env s cs fun a ha => (hkids a ha).2
    have hvvals : valuesOf (virtEnv env) (virt g s) cs = some vals := by
      rw [valuesOf_virt env s cs fun a ha => (hkids a ha).1]; exact hvals
    exact ⟨vals.foldl (env.foldStep f) init, [.inv s!"fold{f}" n vals (vals.foldl (env.foldStep f) init).render],
      recomputeOne_fold_run env fuel n s _ f init cs vals hnd hval hkd hvals F.pc,
      recomputeOne_fold_run (virtEnv env) fuel n (virt g s) _ f init cs vals hvn hvval hvk hvvals F.pc⟩
  | mapRef p i => exact absurd hkd (hk p i)
  | _ => rw [hkd] at hrk; exact hrk.elim

/-- **a node that is not a map_ref node**: its step returns (the virtual step cannot panic, and the two bisimulate) -/
theorem recomputeOneR_returns_static {fuel n : Nat} (D : DInvR env s g (some n)) (S : Safe (virt g s))
    (hk : ∀ p i, (s.nodeD n).kind ≠ .mapRef p i) (hf : s.nodes.size ≤ fuel + n + 1) (h0 : 0 < fuel) :
    ∃ r s', (recomputeOne env fuel n).run.run s = (.ok r, s') := by
  have F := D.frag
  have I := D.inv
  have gr := I.graph
  obtain ⟨hnv, -⟩ := I.cur n rfl
  obtain ⟨hlt, -, -, -, -⟩ := gr.nec n hnv
  rw [virt_size] at hlt
  have hkids := Inv.kids_settled F I
  have hvar : ∀ c, (s.nodeD n).kind = .var c → ∃ vc, s.vars[c]? = some vc := by
    intro c hc
    exact gr.var n c hnv (by rw [virt_nodeD, virtNode_kind, hc]; rfl)
  obtain ⟨v, es, ha, hv⟩ := recomputeOne_both (g := g) (fuel := fuel) F hlt hk hvar hkids
  have hp := dInvR_p2 D
  have B : BSimAt (P2 s.nodes.size fun m => (s.nodeD m).kind) g s (recomputeOne env fuel n)
      (recomputeOne (virtEnv env) fuel n) := by
    refine BSimAt.congr (BSimAt.maybeChangeValue (v := v) hlt hk hf) ha ?_ (fun h => h.started_logged n es)
    rw [hv, virt_logged, virt_started]
  -- the virtual step returns
  rcases hvr : (recomputeOne (virtEnv env) fuel n).run.run (virt g s) with ⟨e | r, t⟩
  · have := (recomputeOne_safe I S hvr).2; omega
  · obtain ⟨s', hs', -, -⟩ := B.rev hp hvr
    exact ⟨r, s', hs'⟩

/-- **a map_ref node**: its step returns -/
theorem recomputeOneR_returns_mapRef {fuel n p i : Nat} (D : DInvR env s g (some n)) (S : Safe (virt g s))
    (hk : (s.nodeD n).kind = .mapRef p i) :
    ∃ r s', (recomputeOne env fuel n).run.run s = (.ok r, s') := by
  have F := D.frag
  have I := D.inv
  have gr := I.graph
  have hi := I.heap
  obtain ⟨hnv, -⟩ := I.cur n rfl
  have hn : s.isNecessary n = true := by rw [← virt_isNecessary g s]; exact hnv
  have hlt := F.lt_of_mapRef hk
  have hnn := some_of_lt hlt
  obtain ⟨htv, hsome⟩ := Inv.kids_settled F I i (by rw [hk]; simp [kidsR])
  obtain ⟨vi, hvi⟩ := Option.isSome_iff_exists.1 hsome
  have St : MRSetup env g s n p i vi := ⟨F, I, hlt, hk, hn, hvi, by rw [htv]; exact hvi⟩
  rw [recomputeOne_mapRef_run hnn (F.valid n hlt) hk]
  cases hd : (s.nodeD n).didChange with
  | false => rw [run_mcvm_false]; exact ⟨_, _, rfl⟩
  | true =>
    generalize hg' : upd1 g n (some (env.proj p vi)) = g'
    have hUW := St.upd
    rw [hg'] at hUW
    -- the carried invariant of the state in which the notifications start
    have hX := fun m => cleared_started_nodeD n m s hlt
    have hpX : P2 s.nodes.size (fun m => (s.nodeD m).kind) (cleared n (started n s)) := by
      refine (dInvR_p2 D).of_same (by simp [cleared, started]) rfl fun m => ?_
      rw [hX]; split
      · rename_i e; rw [e]; exact ⟨rfl, rfl, rfl, rfl⟩
      · exact ⟨rfl, rfl, rfl, rfl⟩
    have B := BSim.mcvm_false (g := g') (N := s.nodes.size) (K := fun m => (s.nodeD m).kind) env fuel fuel n
      none none true (cleared n (started n s))
    generalize hW : virt g' (cleared n (started n s)) = W at hUW
    -- the virtual notification walk cannot panic
    have hltv : n < (virt g s).nodes.size := by rw [virt_size]; exact hlt
    have hltW : n < W.nodes.size := by rw [hUW.size]; exact hltv
    have hUT : Upd n (virt g s) (touched n W) := hUW.touched
    have eT : (touched n W).nodeD n = { W.nodeD n with changedAt := W.stabNum } := by
      rw [touched_nodeD, if_pos ⟨rfl, hltW⟩]
    have hparT : ((touched n W).nodeD n).parents = ((virt g s).nodeD n).parents := hUT.shape.parents
    have hfresh : ∀ q, q ∈ ((virt g s).nodeD n).parents.map (·.1) →
        ((virt g s).nodeD q).recomputedAt < (virt g s).stabNum :=
      fun q hq => I.fresh n (Or.inr rfl) q (gr.parent_facts hq).2.2.1
    rcases hvr : (maybeChangeValueManual (virtEnv env) (fuel + 1) n none true true).run.run W with ⟨e | r, t⟩
    · exfalso
      have := (mcvm_safe hltW (hUT.heap hi) ?_ hvr).2
      · omega
      intro q hq
      rw [hparT] at hq
      obtain ⟨hpn, hkid, -, -, hne⟩ := gr.parent_facts hq
      obtain ⟨h1, h2, h3, _, h5⟩ := gr.nec q hpn
      have ep : (touched n W).nodeD q = (virt g s).nodeD q := hUT.other q hne
      refine ⟨⟨by rw [hUT.size]; exact h1, by rw [ep]; exact h2, by rw [ep]; exact h3,
        by rw [hUT.nec]; exact hpn⟩, by rw [ep]; exact hkid, ?_, by rw [ep]; exact h5, ?_, ?_⟩
      · rw [ep, eT]
        show _ < W.stabNum
        rw [hUW.stabNum]; exact hfresh q hq
      · rw [ep, hUT.rch]; exact S.height q hpn
      · rw [ep]; exact S.scope q hpn
    · rw [← hW] at hvr
      obtain ⟨s', hs', -, -⟩ := B.rev hpX hvr
      exact ⟨r, s', hs'⟩

/-- **one step of the drain returns**: `recomputeOne` on the current node of the drain invariant, with a unit of
fuel for every node from the current one upwards -/
theorem recomputeOneR_returns {fuel n : Nat} (D : DInvR env s g (some n)) (S : Safe (virt g s))
    (hf : s.nodes.size ≤ fuel + n + 1) (h0 : 0 < fuel) :
    ∃ r s', (recomputeOne env fuel n).run.run s = (.ok r, s') := by
  by_cases hk : ∀ p i, (s.nodeD n).kind ≠ .mapRef p i
  · exact recomputeOneR_returns_static D S hk hf h0
  · have : ∃ p i, (s.nodeD n).kind = .mapRef p i := by
      cases hkd : (s.nodeD n).kind <;>
        first | exact ⟨_, _, rfl⟩ | (exfalso; apply hk; intro p i; rw [hkd]; intro h; cases h)
    obtain ⟨p, i, hk⟩ := this
    exact recomputeOneR_returns_mapRef D S hk

end
end IncrVerif.Proofs.TidyH.RT
