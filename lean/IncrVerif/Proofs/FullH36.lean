import IncrVerif.Proofs.FullH35
import IncrVerif.Proofs.FullH19
/-!
# C01 full fragment, stage S3, VD1: **the verdict step** — the recompute step of a node that is neither a map_ref, nor a map_with_old, nor a change-detector
node and whose ACTUAL cutoff is `.never` or `.dependOn a` (the virtual node has cutoff `.eq`, so the step is not simulated)

The run is `maybeChangeValue env fuel n v` from `logged es (started n s)` (`recomputeOne_as_mcv`), with `TargetB … n v`; the step relation `BindH.StepRelB` of the
virtual states is assembled from the actual run: `ch` = "first value, or the cutoff does not suppress"; a `.dependOn a` cutoff that suppresses: `DepInv` + `FirstFn`
say that the value is unchanged.  The proof does not use `hc` (for cutoff `.eq` it is the simulated step again).
-/
namespace IncrVerif.Proofs.FullH
open IncrVerif.Engine IncrVerif.Proofs IncrVerif.Proofs.Step IncrVerif.Proofs.Sched IncrVerif.Proofs.Quiet
open IncrVerif.Proofs.BindH (DInv BGraph StepRelB Edge Below TargetB ConsistentB BKind FrameB)
open IncrVerif.Proofs.NestH (AuxS2 Aux2 GenOK2 F2Inv)
open IncrVerif.Proofs.MapRefH (ValFrame)
namespace VD

/-- the state in which the notifications of a `maybe_change_value` step start -/
def vdW (n : Nat) (v : Val) (es' es : List Event) (s : State) : State :=
  setValue n (some v) (logged es' (logged es (started n s)))

theorem vdW_nodeD (n k : Nat) (v : Val) (es' es : List Event) (s : State) (hn : n < s.nodes.size) :
    (vdW n v es' es s).nodeD k =
      if k = n then { s.nodeD n with recomputedAt := s.stabNum, value := some v } else s.nodeD k := by
  unfold vdW
  rw [setValue_nodeD]
  have e : ∀ j, (logged es' (logged es (started n s))).nodeD j = (started n s).nodeD j := fun _ => rfl
  have hsz : (logged es' (logged es (started n s))).nodes.size = s.nodes.size := by simp [logged, started]
  by_cases hk : k = n
  · subst hk
    rw [if_pos ⟨rfl, by rw [hsz]; exact hn⟩, if_pos rfl, e, started_nodeD, if_pos ⟨rfl, hn⟩]
  · rw [if_neg (fun h => hk h.1.symm), if_neg hk, e, started_nodeD, if_neg (fun h => hk h.1.symm)]

theorem vdW_size (n : Nat) (v : Val) (es' es : List Event) (s : State) : (vdW n v es' es s).nodes.size = s.nodes.size := by
  simp [vdW, setValue, logged, started]

section
variable {g : Nat → Option Val} {s : State}

/-- the virtual image of that state differs from the virtual pre-state only in the value and the stamp of node `n` -/
theorem vdW_upd {n : Nat} {v : Val} {es' es : List Event} (hn : n < s.nodes.size) (hpc : s.panicCountdown = none) :
    Upd n (virt g s) (virt g (vdW n v es' es s)) := by
  have hX := fun k => vdW_nodeD n k v es' es s hn
  refine ⟨by rw [virt_size, virt_size, vdW_size], rfl, rfl, hpc, rfl, fun k hk => ?_, ?_, ?_⟩
  · rw [virt_nodeD, hX, if_neg hk, virt_nodeD]
  · rw [virt_nodeD, virt_nodeD, hX, if_pos rfl]
    exact MW.virtNode_shape rfl rfl rfl rfl rfl rfl rfl rfl
  · rw [virt_nodeD, hX, if_pos rfl, virt_nodeD, virtNode_heightInRch, virtNode_heightInRch]

theorem vdW_valFrame (n : Nat) (v : Val) (es' es : List Event) : ValFrame n s (vdW n v es' es s) :=
  (((ValFrame.started n s).logged es).logged es').setValue _

end
end VD

set_option maxHeartbeats 1000000 in
/-- **one step, a node with a verdict of its own** (`const`, `var`, `map`, `fold`, `bindMain`; any cutoff of the fragment). -/
theorem step_verdict {env : Env} {sp : Nat → Val → Val} {t s : State} {g : Nat → Option Val} {fuel n : Nat} {r : Option Nat}
    {s' : State} (hF : FirstFn env) (D : DInvF env sp t s g (some n))
    (hk1 : ∀ p i, (s.nodeD n).kind ≠ .mapRef p i) (hk2 : ∀ m i, (s.nodeD n).kind ≠ .mapWithOld m i)
    (hk3 : ∀ b, (s.nodeD n).kind ≠ .bindLhsChange b) (_hc : (s.nodeD n).cutoff ≠ .eq)
    (h : (recomputeOne env fuel n).run.run s = (.ok r, s')) :
    DInvF env sp t s' g r ∧ BindH.FrameB (virt g s) (virt g s') ∧
      ((virt g s').nodeD n).recomputedAt = s.stabNum ∧ ((virt g s').nodeD n).valid = true := by
  have F := D.frag
  have I := D.inv
  have gr := I.graph
  have hi := I.heap
  obtain ⟨⟨rk, A⟩, hDK, hNK⟩ := D.aux
  obtain ⟨hnnec, hltv, hnvv, -, -⟩ := I.cur_facts
  have hlt : n < s.nodes.size := by rw [virt_size] at hltv; exact hltv
  have hnv : (s.nodeD n).valid = true := by rw [virt_nodeD, virtNode_valid] at hnvv; exact hnvv
  obtain ⟨K', F'⟩ := static_keepsK_any D hF hk1 hk2 hk3 h
  obtain ⟨v, es, htarget, hrun⟩ := recomputeOne_as_mcv (fuel := fuel) F gr hlt hnv hk1 hk2 hk3 (kids_settled D) h
  rw [hrun] at h
  -- the kind of the virtual node
  have hkB : StaticKind (VE env sp) ((virt g s).nodeD n).kind ∨ ∃ b lc, ((virt g s).nodeD n).kind = .bindMain b lc := by
    have hB := (gr.node n hltv hnvv).1
    have hk3' : ∀ b, ((virt g s).nodeD n).kind ≠ .bindLhsChange b := by
      intro b e
      rw [virt_nodeD, virtNode_kind, virtKind_lc_iff] at e
      exact hk3 b e
    cases hkd : ((virt g s).nodeD n).kind <;> rw [hkd] at hB <;>
      first
      | exact Or.inl hB
      | exact Or.inr ⟨_, _, rfl⟩
      | exact absurd hkd (hk3' _)
  -- the start state of `maybe_change_value`
  have hlt0 : n < (logged es (started n s)).nodes.size := by simp [logged, started]; exact hlt
  have hp0 : (logged es (started n s)).panicCountdown = none := F.pc
  have e0 : (logged es (started n s)).nodeD n = { s.nodeD n with recomputedAt := s.stabNum } := by
    show (started n s).nodeD n = _
    rw [started_nodeD, if_pos ⟨rfl, hlt⟩]
  rw [mcv_run' env fuel n v _ _ (some_of_lt hlt0) hp0] at h
  cases hd : mcvChanges env (logged es (started n s)) n v with
  | none => rw [hd] at h; cases h
  | some d =>
  rw [hd] at h
  dsimp only at h
  generalize hes' : mcvLog env (logged es (started n s)) n v = es' at h
  have hWe : setValue n (some v) (logged es' (logged es (started n s))) = VD.vdW n v es' es s := rfl
  rw [hWe] at h
  -- the state in which the notifications start
  have hX := fun k => VD.vdW_nodeD n k v es' es s hlt
  have VF : ValFrame n s (VD.vdW n v es' es s) := VD.vdW_valFrame n v es' es
  have hXn : (VD.vdW n v es' es s).nodeD n = { s.nodeD n with recomputedAt := s.stabNum, value := some v } := by
    rw [hX, if_pos rfl]
  have hXpc : (VD.vdW n v es' es s).panicCountdown = none := F.pc
  -- the frames of the actual run
  have k0 : KeyD s (VD.vdW n v es' es s) := rfl
  have a0 : BindH.BF.HAh s (VD.vdW n v es' es s) := by
    intro k; rw [hX]; split
    · rename_i e; rw [e]
    · rfl
  have c0 : Calm s (VD.vdW n v es' es s) :=
    (((Calm.started n s).trans (Calm.logged es _)).trans (Calm.logged es' _)).trans (Calm.modNode _ n _ (fun _ => rfl))
  have d0 : BindH.C2k.DK 0 s (VD.vdW n v es' es s) :=
    (((BindH.C2k.DKS.started 0 n s).1.trans (BindH.C2k.DKS.logged 0 es _).1).trans (BindH.C2k.DKS.logged 0 es' _).1).trans
      (BindH.C2k.DKS.modNode (b := 0) (logged es' (logged es (started n s))) n (fun y => { y with value := some v })
        (fun _ => rfl)).1
  have k1 := (PresK.maybeChangeValueManual env fuel n _ d true).h _ _ _ h
  have a1 := (BindH.BF.PresA.maybeChangeValueManual env fuel n _ d true).h _ _ _ h
  have c1 := (PresC.maybeChangeValueManual env fuel n _ d true).h _ _ _ h
  have d1 := (BindH.C2k.PresD.maybeChangeValueManual (b := 0) env fuel n _ d true).h _ _ _ h
  have fm : MapRefH.FM _ s' := (MapRefH.PresFM.maybeChangeValueManual env fuel n _ d true).h _ _ _ h
  obtain ⟨htop, hahh, hpinv, hsc⟩ := MW.keyD_fields (KeyD.trans k0 k1)
  have hAH : BindH.BF.HAh (virt g s) (virt g s') := MW.hah_virt (a0.trans a1)
  have hNUM := MW.num_virt (g := g) (g' := g) (fun k => ((c1.num k).trans (c0.num k)))
  obtain ⟨hDK', hNK'⟩ := BindH.C2k.dkey_of_dk (MW.dk_virt (g := g) (g' := g) (d0.trans d1.1)) A.noHandlers
  -- the virtual node
  have hvnv : ((virt g s).nodeD n).value = (s.nodeD n).value := by
    rw [virt_nodeD, virtNode_value_of_not_mapRef _ _ hk1]
  have hU : Upd n (virt g s) (virt g (VD.vdW n v es' es s)) := VD.vdW_upd hlt F.pc
  have hXk : ∀ p i', ((VD.vdW n v es' es s).nodeD n).kind ≠ .mapRef p i' := by intro p i'; rw [VF.kind]; exact hk1 p i'
  have hXnv : ((virt g (VD.vdW n v es' es s)).nodeD n).value = some v := by
    rw [virt_nodeD, virtNode_value_of_not_mapRef _ _ hXk, hXn]
  have hXnr : ((virt g (VD.vdW n v es' es s)).nodeD n).recomputedAt = (virt g s).stabNum := by
    rw [virt_nodeD, virtNode_recomputedAt, hXn]; rfl
  have hXnc : ((virt g (VD.vdW n v es' es s)).nodeD n).changedAt = ((virt g s).nodeD n).changedAt := by
    rw [virt_nodeD, virtNode_changedAt, hXn, virt_nodeD, virtNode_changedAt]
  -- what is left to do once the step relation is there
  have fin : ∀ {ch : Bool}, StepRelB n v ch r (virt g s) (virt g s') → MW.NV (VD.vdW n v es' es s) s' →
      DInvF env sp t s' g r ∧ BindH.FrameB (virt g s) (virt g s') ∧
        ((virt g s').nodeD n).recomputedAt = s.stabNum ∧ ((virt g s').nodeD n).valid = true := by
    intro ch R nv
    obtain ⟨i1, i2, i3, i4, i5, i6⟩ := MW.finish (Or.inl rfl) I A D.gen htarget R hkB hnvv hNUM hAH htop hahh hpinv hsc
    have hkk : ∀ k, (s'.nodeD k).kind = (s.nodeD k).kind := fun k => (nv.kind k).trans (VF.kind k)
    obtain ⟨j1, j2⟩ := dep_stepB D.dep D.cr I R hkk (fun k => (nv.cutoff k).trans (VF.cutoff k))
      (fun a b e _ => targetB_dependOn hF e htarget)
    refine ⟨⟨F', i1, ⟨⟨rk, i2⟩, hDK.trans hDK', hNK.trans hNK'⟩, i3, K', ?_, MW.gsome_after D.gs VF nv fm, j1, j2⟩, i4, i5, i6⟩
    refine MW.minv_keep D.m hkk (fun k => (nv.valid k).trans (VF.valid k)) (fun k m i hkm => ?_)
    have hkn : k ≠ n := by intro e; rw [e] at hkm; exact hk2 m i hkm
    refine ⟨(nv.value k).trans (VF.value k hkn), ?_⟩
    rw [nv.oldState, hX, if_neg hkn]
  cases d with
  | false =>
    rw [run_mcvm_false] at h
    cases h
    have nv : MW.NV (VD.vdW n v es' es s) (VD.vdW n v es' es s) := MW.NV.refl hXpc
    -- only a `.dependOn a` cutoff with equal stamps suppresses
    have hold : (s.nodeD n).value = some v := by
      rcases F.fr.cut n with hc | hc | ⟨a, b, hc, hkd⟩
      · have hc0 : ((logged es (started n s)).nodeD n).cutoff = .eq ∨ ((logged es (started n s)).nodeD n).cutoff = .never := by
          rw [e0]; exact Or.inl hc
        rcases mcvChanges_static env _ n v hc0 with h1 | ⟨-, h1⟩
        · rw [hd] at h1; cases h1
        · rw [e0] at h1; exact h1
      · have hc0 : ((logged es (started n s)).nodeD n).cutoff = .eq ∨ ((logged es (started n s)).nodeD n).cutoff = .never := by
          rw [e0]; exact Or.inr hc
        rcases mcvChanges_static env _ n v hc0 with h1 | ⟨-, h1⟩
        · rw [hd] at h1; cases h1
        · rw [e0] at h1; exact h1
      · have hc0 : ((logged es (started n s)).nodeD n).cutoff = .dependOn a := by rw [e0]; exact hc
        obtain ⟨o, ho, halt, hst⟩ := mcvChanges_dependOn hc0 hd
        rw [e0] at ho hst
        have han : a ≠ n := by
          intro e
          have hch : a ∈ (virt g s).children n := by rw [virt_children, children_depend hnv hkd]; simp
          exact gr.edge_ne (Edge.child hch) e.symm
        have hst' : (s.nodeD n).changedAt = (s.nodeD a).changedAt := by
          have ea : (logged es (started n s)).nodeD a = s.nodeD a := by
            show (started n s).nodeD a = _
            rw [started_nodeD, if_neg (fun hh => han hh.1.symm)]
          rw [ea] at hst; exact hst.symm
        have h1 := D.dep n a b o hnv hkd hc hst' ho
        have h2 := targetB_dependOn hF hkd htarget
        rw [h1] at h2; cases h2
        exact ho
    have R : StepRelB n v false none (virt g s) (virt g (VD.vdW n v es' es s)) :=
      MW.rel_false gr hi hU rfl hXnv hXnr hXnc (hvnv.trans hold)
    exact fin R nv
  | true =>
    have FX : FFrag env sp g (VD.vdW n v es' es s) := F.of_valFrame VF
    obtain ⟨hsim, -, -⟩ := Sim.maybeChangeValueManual (K := FK env sp) (g := g) (sp := sp) env fuel n _ none true _ FX.fr r s' h
    have R : StepRelB n v true r (virt g s) (virt g s') := MW.rel_true gr hi hltv hU rfl hXnv hXnr hsim
    have qa : Step.Quiet (touched n (VD.vdW n v es' es s)) s' := mcvm_true_quiet _ _ _ _ _ _ _ _ h
    exact fin R (MW.NV.of_touched hXpc qa)

end IncrVerif.Proofs.FullH
