import IncrVerif.Proofs.MapRef21
/-!
# map_ref fragment: the `didChange` invariant through the linking cascade (part 3: `became_necessary`)
-/
namespace IncrVerif.Proofs.MapRefH
open IncrVerif.Engine IncrVerif.Proofs IncrVerif.Proofs.Step IncrVerif.Proofs.Sched IncrVerif.Proofs.Quiet

theorem Lt.of_nodes {s s' : State} (h1 : s'.nodes = s.nodes) (h2 : stateKey s' = stateKey s)
    (h3 : s'.panicCountdown = s.panicCountdown) (h4 : s'.propagateInvalidity = s.propagateInvalidity) : Lt s s' :=
  ⟨CFrame.of_nodes h1 h2 h3, FM.of_nodes h1, PP.of_nodes h1 h4⟩

theorem bn_stepK (env : Env) (g : Nat → Option Val) (fuel : Nat) (ih : APK env g fuel) : BNK env g (fuel + 1) := by
  intro n s s' F T h hpre
  unfold becameNecessary at h
  obtain ⟨nd, hnd, h⟩ := bind_getNode_inv h
  have hn : n < s.nodes.size := lt_of_some hnd
  obtain ⟨x, s00, hx, h⟩ := bind_ok_inv h
  have e00 : s00 = s := (PresS.scopeIsNecessary _).h _ _ _ hx
  rw [e00] at h
  dsimp only at h
  cases hc : (nd.valid && !x) with
  | true =>
    rw [hc] at h; simp only [if_true] at h
    obtain ⟨_, _, h1, _⟩ := bind_ok_inv h
    rw [run_panic] at h1; cases h1
  | false =>
    rw [hc] at h
    simp only [Bool.false_eq_true, if_false] at h
    obtain ⟨s0, hs0, h⟩ := bind_modify_inv h
    obtain ⟨_, s1, h1, h⟩ := bind_ok_inv h
    obtain ⟨ht, s1', hsh, h⟩ := bind_ok_inv h
    have e1' : s1' = s1 := (Step.Pres.scopeHeight (R := SameC) _).h _ _ _ hsh
    rw [e1'] at h
    obtain ⟨_, s2, h2, h⟩ := bind_ok_inv h
    obtain ⟨nd2, hnd2, h⟩ := bind_getNode_inv h
    rw [run_bind_get] at h
    obtain ⟨b, s3, h3, h⟩ := bind_ok_inv h
    -- the prefix
    have L0 : Lt s s0 := by rw [hs0]; exact Lt.of_nodes rfl rfl rfl rfl
    have L1 : Lt s0 s1 := lt_run h1
    have L2 : Lt s1 s2 := lt_run h2
    have L02 : Lt s s2 := (L0.trans L1).trans L2
    have F2 : RFrag env s2 := F.of_cframe L02.fr
    have T2 : Inherit env g s2 := T.of_cframe L02.fr
    have hn2 : n < s2.nodes.size := lt_of_some hnd2
    have hcs : s2.children n = kidsR (s2.nodeD n).kind := F2.children hn2
    have hpre2 : ∀ m, m < n → s2.isNecessary m = true → KN env g s2 m := fun m hm hnm =>
      L02.kn (hpre m hm (by rw [← L02.nec]; exact hnm))
    -- the loop
    have hloop := forIn_ok_inv _ (s2.children n)
      (fun j (b : Int × Nat) t => b.2 = j ∧ GR s2 t ∧
        (∀ m, n ≤ m → (t.nodeD m).parents = (s2.nodeD m).parents) ∧
        (∀ m, m < n → t.isNecessary m = true → KN env g t m) ∧
        (∀ pr i, (s2.nodeD n).kind = .mapRef pr i → IsMapRef (s2.nodeD i).kind → Unclean env g s2 i → 0 < j →
          ∀ a, Mk s2 a n → (t.nodeD a).didChange = true))
      (by
        intro j c b t r t' hj ⟨hb2, Gt, hsame, hK, hP⟩ hbody
        obtain ⟨_, t1, ha, hbody⟩ := bind_ok_inv hbody
        obtain ⟨xc, hxc, hbody⟩ := bind_getNode_inv hbody
        have hcn : c < n := F2.back n hn2 c (by rw [← hcs]; exact List.mem_of_getElem? hj)
        have Ft : RFrag env t := F2.of_cframe Gt.fr
        have Tt : Inherit env g t := T2.of_cframe Gt.fr
        obtain ⟨A', B', C', G'⟩ := ih c b.2 n t t1 Ft Tt ha hcn hK
        have hnew : (b.2 + 1 = j + 1) ∧ GR s2 t1 ∧
            (∀ m, n ≤ m → (t1.nodeD m).parents = (s2.nodeD m).parents) ∧
            (∀ m, m < n → t1.isNecessary m = true → KN env g t1 m) ∧
            (∀ pr i, (s2.nodeD n).kind = .mapRef pr i → IsMapRef (s2.nodeD i).kind → Unclean env g s2 i →
              0 < j + 1 → ∀ a, Mk s2 a n → (t1.nodeD a).didChange = true) := by
          refine ⟨by rw [hb2], Gt.trans G', fun m hm => (C' m (by omega)).trans (hsame m hm), A', ?_⟩
          intro pr i hk hmi hu _ a ha'
          by_cases hj0 : 0 < j
          · exact G'.fm a (hP pr i hk hmi hu hj0 a ha')
          · have hj0' : j = 0 := by omega
            have hci : c = i := by
              rw [hcs, hk, hj0'] at hj
              simpa [kidsR] using hj.symm
            rw [hci] at B'
            exact B' pr (by rw [Gt.fr.kind]; exact hk) (by rw [Gt.fr.kind]; exact hmi)
              ((Gt.fr.toV.unclean i).2 hu) a (Gt.mk_mono ha')
        split at hbody
        · obtain ⟨hr, ht'⟩ := pure_ok_inv hbody
          rw [ht']; exact ⟨_, hr, hnew⟩
        · obtain ⟨hr, ht'⟩ := pure_ok_inv hbody
          rw [ht']; exact ⟨_, hr, hnew⟩)
      (s2.children n) 0 (nd2.height, 0) s2 b s3 (by simp) (Nat.zero_le _)
      ⟨rfl, GR.refl _, fun _ _ => rfl, hpre2, fun _ _ _ _ _ h0 => absurd h0 (by omega)⟩ h3
    obtain ⟨-, G3, hsame3, hK3, hP3⟩ := hloop
    -- the final height
    obtain ⟨_, s4, h4, h⟩ := bind_ok_inv h
    have L4 : Lt s3 s4 := lt_run h4
    rw [run_bind_get] at h
    replace h := bind_dassert_inv h
    replace h := bind_dassert_inv h
    have G4 : GR s s4 := (L02.toGR.trans G3).trans L4.toGR
    have F4 : RFrag env s4 := F.of_cframe G4.fr
    have T4 : Inherit env g s4 := T.of_cframe G4.fr
    have key : Lt s4 s' ∧ (s4.isStale n = true → ∀ a, Mk s4 a n → (s'.nodeD a).didChange = true) := by
      cases hst : s4.isStale n with
      | false =>
        rw [hst] at h
        simp only [Bool.false_eq_true, if_false] at h
        exact ⟨lt_run h, fun e => by cases e⟩
      | true =>
        rw [hst] at h
        simp only [if_true] at h
        obtain ⟨_, s5, h5, h⟩ := bind_ok_inv h
        obtain ⟨_, s6, h6, h⟩ := bind_ok_inv h
        have L5 : Lt s4 s5 := markMapRefUnknown_lt h5
        have L6 : Lt s5 s6 := lt_run h6
        have L7 : Lt s6 s' := lt_run h
        refine ⟨(L5.trans L6).trans L7, fun _ a ha => ?_⟩
        exact (L6.trans L7).fm a (markMapRefUnknown_marks (fun m => F4.mapRef_valid) h5 a ha)
    obtain ⟨L5, hmark⟩ := key
    have L35 : Lt s3 s' := L4.trans L5
    have B : IsMapRef (s.nodeD n).kind → Unclean env g s n → ∀ a, Mk s a n → (s'.nodeD a).didChange = true := by
      intro hmr hu a ha
      cases hst : s4.isStale n with
      | true => exact hmark hst a (G4.mk_mono ha)
      | false =>
        obtain ⟨pr, i, hk⟩ := isMapRef_iff.1 hmr
        have hk4 : (s4.nodeD n).kind = .mapRef pr i := by rw [G4.fr.kind]; exact hk
        obtain ⟨hmi4, hui4⟩ := T4 n pr i hk4 hst ((G4.fr.toV.unclean n).2 hu)
        have G24 : GR s2 s4 := G3.trans L4.toGR
        have hk2 : (s2.nodeD n).kind = .mapRef pr i := by rw [L02.fr.kind]; exact hk
        have hlen : 0 < (s2.children n).length := by rw [hcs, hk2]; simp [kidsR]
        have := hP3 pr i hk2 (by rw [← G24.fr.kind]; exact hmi4) ((G24.fr.toV.unclean i).1 hui4) hlen a
          (L02.toGR.mk_mono ha)
        exact L35.fm a this
    refine ⟨fun m hm hnm => ?_, B, fun m hm => ?_, G4.trans L5.toGR⟩
    · by_cases e : m = n
      · rw [e]
        intro hmr' hu'
        have G := G4.trans L5.toGR
        exact B (by rw [← G.fr.kind]; exact hmr') ((G.fr.toV.unclean n).1 hu') n
          (Mk.self (by rw [← G.fr.kind]; exact hmr'))
      · rw [L35.nec] at hnm
        exact L35.kn (hK3 m (by omega) hnm)
    · rw [L35.pp.1, hsame3 m hm, L02.pp.1]

theorem linkK (env : Env) (g : Nat → Option Val) (fuel : Nat) : BNK env g fuel ∧ APK env g fuel := by
  induction fuel with
  | zero =>
    constructor
    · intro n s s' _ _ h; unfold becameNecessary at h; cases h
    · intro c idx p s s' _ _ h; unfold addParentWithoutAdjustingHeights at h; cases h
  | succ fuel ih => exact ⟨bn_stepK env g fuel ih.2, ap_stepK env g fuel ih.1⟩

/-- **(2) the linking cascade.** -/
theorem becameNecessary_keepsK {env : Env} {g : Nat → Option Val} {fuel n : Nat} {s s' : State}
    (F : RFrag env s) (T : Inherit env g s)
    (h : (becameNecessary env fuel n).run.run s = (.ok (), s'))
    (hpre : ∀ m, m < n → s.isNecessary m = true → KN env g s m) :
    (∀ m, m ≤ n → s'.isNecessary m = true → KN env g s' m) ∧
    (IsMapRef (s.nodeD n).kind → Unclean env g s n → ∀ a, Mk s a n → (s'.nodeD a).didChange = true) ∧
    (∀ m, n ≤ m → (s'.nodeD m).parents = (s.nodeD m).parents) ∧
    s'.propagateInvalidity = s.propagateInvalidity ∧ FM s s' := by
  obtain ⟨A, B, C, G⟩ := (linkK env g fuel).1 n s s' F T h hpre
  exact ⟨A, B, C, G.pinv, G.fm⟩

theorem addParent_keepsK {env : Env} {g : Nat → Option Val} {fuel c idx p : Nat} {s s' : State}
    (F : RFrag env s) (T : Inherit env g s)
    (h : (addParentWithoutAdjustingHeights env fuel c idx p).run.run s = (.ok (), s')) (hcp : c < p)
    (hpre : ∀ m, m < p → s.isNecessary m = true → KN env g s m) :
    (∀ m, m < p → s'.isNecessary m = true → KN env g s' m) ∧
    (∀ pr, (s.nodeD p).kind = .mapRef pr c → IsMapRef (s.nodeD c).kind → Unclean env g s c →
      ∀ a, Mk s a p → (s'.nodeD a).didChange = true) ∧
    (∀ m, c < m → (s'.nodeD m).parents = (s.nodeD m).parents) ∧
    s'.propagateInvalidity = s.propagateInvalidity ∧ FM s s' := by
  obtain ⟨A, B, C, G⟩ := (linkK env g fuel).2 c idx p s s' F T h hcp hpre
  exact ⟨A, B, C, G.pinv, G.fm⟩

end IncrVerif.Proofs.MapRefH
