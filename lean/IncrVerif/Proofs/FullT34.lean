import IncrVerif.Proofs.FullT31
import IncrVerif.Proofs.FullH63
import IncrVerif.Proofs.FullH70
/-!
# C04 combined fragment: non-vacuity — the example histories end in states with room (kernel evaluation of the node count only)
-/
namespace IncrVerif.Proofs.FullT
open IncrVerif.Engine IncrVerif.Driver IncrVerif.Proofs IncrVerif.Proofs.FullH
open IncrVerif.Proofs.NestH (runS HasRoomG)

set_option maxRecDepth 100000 in
/-- the state `exHistF` ends in: 23 nodes at most -/
theorem exHistF_size : (runS fEnv exHistF (State.init 128 true) #[]).2.nodes.size ≤ 64 := by decide +kernel

set_option maxRecDepth 100000 in
theorem exHistG_size : (runS fEnv exHistG (State.init 128 true) #[]).2.nodes.size ≤ 64 := by decide +kernel

set_option maxRecDepth 100000 in
theorem exHistF_size' : (runS fEnv exHistF (State.init 128 false) #[]).2.nodes.size ≤ 64 := by decide +kernel

set_option maxRecDepth 100000 in
theorem exHistG_size' : (runS fEnv exHistG (State.init 128 false) #[]).2.nodes.size ≤ 64 := by decide +kernel

theorem room_of_size {s : State} (h : s.nodes.size ≤ 64) : HasRoomG needFuelF 128 fuelDefault s := by
  unfold HasRoomG needFuelF fuelDefault
  omega

end IncrVerif.Proofs.FullT
