import IncrVerif.Proofs.Ownership
/-!
# Helper lemmas for C20 (`weak_memoize_fn`)

* `memoCall_run`: the closed form of a memoised call (hit / miss, with the fault hook `tick`).
* `Keep`: template elaboration without memoised calls logs nothing and leaves `currentScope`,
  `memos`, `panicCountdown` alone.
* `ScRel sc`: nodes created while the current scope is `sc` get `createdIn = sc` (or `.top`, for `var`);
  at top level no bind's `allNodesCreatedOnRhs` changes.
* `gcMemos`: the weak-table sweep at the end of `stabilise_end`.
-/
namespace IncrVerif.Proofs.Memo
open IncrVerif.Engine IncrVerif.Proofs.Obs

/-! ## the closed form of `memoCall` -/

theorem tick_run (s : State) : tick.run.run s = match s.panicCountdown with
    | none => (.ok (), s)
    | some k =>
      if k ≤ 1 then (.error (.site "user"), { s with panicCountdown := none })
      else (.ok (), { s with panicCountdown := some (k - 1) }) := by
  simp only [tick, run_bind, run_get]
  cases s.panicCountdown with
  | none => rfl
  | some k =>
    by_cases hk : k ≤ 1
    · simp only [hk, if_true, run_bind, run_modify]; rfl
    · simp only [hk, if_false, run_modify]

/-- the entry of memo table `m` under `key` -/
def stored (s : State) (m : Nat) (key : Int) : Option Nat := ((s.memos.lookup m).getD []).lookup key

/-- the stored node, if it is still allocated -/
def memoHit (s : State) (m : Nat) (key : Int) : Option Nat :=
  match stored s m key with
  | some n => if s.isAlive n then some n else none
  | none => none

/-- the one event a miss logs -/
def memoNote (m : Nat) (key : Int) : Event := .note s!"memo m{m} invoked {key}"

/-- a miss: the event is logged and the function body runs at top level -/
def memoStart (m : Nat) (key : Int) (s : State) : State :=
  { s with log := memoNote m key :: s.log, currentScope := .top }

/-- after the body returned `n`: the caller's scope is back and `n` is stored under `(m, key)` -/
def memoFinish (old : Scope) (m : Nat) (key : Int) (n : Nat) (s : State) : State :=
  { s with currentScope := old,
           memos := (m, (key, n) :: ((s.memos.lookup m).getD []).filter (·.1 != key))
                      :: s.memos.filter (·.1 != m) }

theorem memoCall_run (env : Env) (m : Nat) (key : Int) (s : State) :
    (memoCall env m key).run.run s = match memoHit s m key with
      | some n => (.ok n, s)
      | none => match tick.run.run s with
        | (.error e, s1) => (.error e, s1)
        | (.ok _, s1) =>
          match (elabTemplateBase (env.memo m) (.int key)).run.run (memoStart m key s1) with
          | (.ok n, s2) => (.ok n, memoFinish s1.currentScope m key n s2)
          | (.error e, s2) => (.error e, s2) := by
  have hjp : ∀ s0 : State, (do
      tick
      logEv (memoNote m key)
      let __do_lift ← get
      let old := __do_lift.currentScope
      modify fun s => { s with currentScope := .top }
      let n ← elabTemplateBase (env.memo m) (Val.int key)
      modify fun s => { s with currentScope := old }
      modify fun s => { s with memos :=
        (m, (key, n) :: ((s.memos.lookup m).getD []).filter (·.1 != key)) :: s.memos.filter (·.1 != m) }
      pure n : M Nat).run.run s0 = match tick.run.run s0 with
        | (.error e, s1) => (.error e, s1)
        | (.ok _, s1) =>
          match (elabTemplateBase (env.memo m) (.int key)).run.run (memoStart m key s1) with
          | (.ok n, s2) => (.ok n, memoFinish s1.currentScope m key n s2)
          | (.error e, s2) => (.error e, s2) := by
    intro s0
    rw [run_bind]
    rcases tick.run.run s0 with ⟨_ | _, s1⟩
    · rfl
    · simp only [logEv, run_bind, run_modify, run_get, memoStart, memoNote]
      split <;> (rename_i heq; rw [heq]; try rfl)
  unfold memoCall
  simp only [run_bind, run_get, memoHit, stored]
  cases hst : List.lookup key ((List.lookup m s.memos).getD []) with
  | none => exact hjp s
  | some n =>
    by_cases ha : s.isAlive n = true
    · simp only [ha, if_true, run_pure]
    · simp only [ha, Bool.false_eq_true, if_false]
      exact hjp s

/-! ## template elaboration (without memoised calls) is silent -/

/-- no event, no scope change, no memo table change, the fault hook untouched -/
def Keep (s s' : State) : Prop :=
  s'.log = s.log ∧ s'.currentScope = s.currentScope ∧ s'.memos = s.memos ∧
    s'.panicCountdown = s.panicCountdown

instance : PreOrd Keep :=
  ⟨fun _ => ⟨rfl, rfl, rfl, rfl⟩,
   fun h1 h2 => ⟨h2.1.trans h1.1, h2.2.1.trans h1.2.1, h2.2.2.1.trans h1.2.2.1, h2.2.2.2.trans h1.2.2.2⟩⟩

/-- a `modify` that touches none of the four fields -/
macro "keep_modify" : tactic =>
  `(tactic| ((with_reducible apply Pres.modify); intro _; exact ⟨rfl, rfl, rfl, rfl⟩))

theorem keep_bumpCounter (f) : Pres Keep (bumpCounter f) := by unfold bumpCounter; keep_modify
theorem keep_modBind (b f) : Pres Keep (modBind b f) := by unfold modBind; keep_modify
theorem keep_modExpert (b f) : Pres Keep (modExpert b f) := by unfold modExpert; keep_modify
theorem keep_modNode (b f) : Pres Keep (modNode b f) := by unfold modNode; keep_modify

theorem keep_createNode (k sc c) : Pres Keep (createNode k sc c) := by
  unfold createNode
  refine Pres.bind Pres.get fun _ => Pres.bind (keep_bumpCounter _) fun _ => Pres.bind (by keep_modify) fun _ => ?_
  dsimp only
  split
  · exact Pres.pure _
  · exact Pres.bind (keep_modBind _ _) fun _ => Pres.pure _

theorem keep_createVar (v sc) : Pres Keep (createVar v sc) := by
  unfold createVar
  exact Pres.bind Pres.get fun _ => Pres.bind (keep_createNode _ _ _) fun _ =>
    Pres.bind (by keep_modify) fun _ => Pres.pure _

theorem keep_createBind (b l) : Pres Keep (createBind b l) := by
  unfold createBind
  exact Pres.bind Pres.get fun _ => Pres.bind (by keep_modify) fun _ =>
    Pres.bind (keep_createNode _ _ _) fun _ => Pres.bind (keep_createNode _ _ _) fun _ =>
    Pres.bind (keep_modBind _ _) fun _ => Pres.pure _

macro_rules | `(tactic| pres_leaf) => `(tactic| with_reducible apply keep_createNode)
macro_rules | `(tactic| pres_leaf) => `(tactic| with_reducible apply keep_createVar)
macro_rules | `(tactic| pres_leaf) => `(tactic| with_reducible apply keep_createBind)
macro_rules | `(tactic| pres_leaf) => `(tactic| with_reducible apply keep_modNode)
macro_rules | `(tactic| pres_leaf) => `(tactic| with_reducible apply keep_modExpert)
macro_rules | `(tactic| pres_leaf) => `(tactic| keep_modify)

theorem keep_elabInstr (loc lhsVal i) : Pres Keep (elabInstr loc lhsVal i) := by
  unfold elabInstr; pres

theorem keep_elabTemplateBase (t lhs init) : Pres Keep (elabTemplateBase t lhs init) := by
  unfold elabTemplateBase
  refine Pres.bind (Pres.forIn fun a b => ?_) fun _ => Pres.resolveOpnd _ _
  refine Pres.bind (keep_elabInstr _ _ _) fun r => ?_
  split <;> exact Pres.pure _

/-! ## which scope the created nodes belong to -/

/-- the nodes registered as "created on the right-hand side" of bind `b` (what re-running the bind
invalidates) -/
def rhsNodes (s : State) (b : Nat) : List Nat :=
  ((s.binds[b]?).map (·.allNodesCreatedOnRhs)).getD []

/-- the step created nodes in scope `sc` (or at top level) only, left the scope of the existing nodes
and the current scope alone and, when `sc` is the top level, registered nothing with any bind -/
structure ScFacts (sc : Scope) (s s' : State) : Prop where
  scope : s'.currentScope = s.currentScope
  nodesLe : s.nodes.size ≤ s'.nodes.size
  old : ∀ i, i < s.nodes.size → (s'.nodeD i).createdIn = (s.nodeD i).createdIn
  new : ∀ i, s.nodes.size ≤ i → i < s'.nodes.size →
    (s'.nodeD i).createdIn = sc ∨ (s'.nodeD i).createdIn = .top
  binds : sc = .top → ∀ b, rhsNodes s' b = rhsNodes s b

theorem ScFacts.refl (sc : Scope) (s : State) : ScFacts sc s s :=
  ⟨rfl, Nat.le_refl _, fun _ _ => rfl, fun i h1 h2 => absurd h2 (by omega), fun _ _ => rfl⟩

theorem ScFacts.trans {sc : Scope} {a b c : State} (h1 : ScFacts sc a b) (h2 : ScFacts sc b c) :
    ScFacts sc a c where
  scope := h2.scope.trans h1.scope
  nodesLe := Nat.le_trans h1.nodesLe h2.nodesLe
  old i hi := (h2.old i (Nat.lt_of_lt_of_le hi h1.nodesLe)).trans (h1.old i hi)
  new i hi1 hi2 := by
    by_cases hb : i < b.nodes.size
    · rw [h2.old i hb]; exact h1.new i hi1 hb
    · exact h2.new i (by omega) hi2
  binds hsc b' := (h2.binds hsc b').trans (h1.binds hsc b')

instance (sc : Scope) : PreOrd (ScFacts sc) := ⟨ScFacts.refl sc, ScFacts.trans⟩

theorem ScFacts.of_eq {sc : Scope} {s s' : State} (h1 : s'.currentScope = s.currentScope)
    (h2 : s'.nodes = s.nodes) (h3 : s'.binds = s.binds) : ScFacts sc s s' :=
  ⟨h1, by rw [h2]; exact Nat.le_refl _, fun i _ => by simp only [State.nodeD, h2],
   fun i hi1 hi2 => absurd hi2 (by rw [h2]; omega), fun _ b => by simp only [rhsNodes, h3]⟩

theorem ScFacts.of_push {sc : Scope} {s s' : State} (nd : Node)
    (h1 : s'.currentScope = s.currentScope) (h2 : s'.nodes = s.nodes.push nd)
    (hnd : nd.createdIn = sc ∨ nd.createdIn = .top) (h3 : sc = .top → s'.binds = s.binds) :
    ScFacts sc s s' where
  scope := h1
  nodesLe := by rw [h2, Array.size_push]; omega
  old i hi := by simp only [State.nodeD, h2, Array.getElem?_push, Nat.ne_of_lt hi, if_false]
  new i hi1 hi2 := by
    rw [h2, Array.size_push] at hi2
    have : i = s.nodes.size := by omega
    subst this
    simpa only [State.nodeD, h2, Array.getElem?_push, if_true, Option.getD_some] using hnd
  binds hsc b := by simp only [rhsNodes, h3 hsc]

theorem ScFacts.of_modNode {sc : Scope} (s : State) (n : Nat) (f : Node → Node)
    (hf : ∀ x, (f x).createdIn = x.createdIn) :
    ScFacts sc s { s with nodes := s.nodes.modify n f } where
  scope := rfl
  nodesLe := by simp
  old i _ := by
    simp only [State.nodeD, Array.getElem?_modify]
    split
    · cases s.nodes[i]? <;> simp [hf]
    · rfl
  new i hi1 hi2 := absurd hi2 (by simp; omega)
  binds _ _ := rfl

theorem ScFacts.of_modBind {sc : Scope} (s : State) (b : Nat) (f : BindRec → BindRec)
    (hf : ∀ x, (f x).allNodesCreatedOnRhs = x.allNodesCreatedOnRhs) :
    ScFacts sc s { s with binds := s.binds.modify b f } where
  scope := rfl
  nodesLe := Nat.le_refl _
  old _ _ := rfl
  new i hi1 hi2 := absurd hi2 (by show ¬ i < s.nodes.size; omega)
  binds _ b' := by
    simp only [rhsNodes, Array.getElem?_modify]
    split
    · cases s.binds[b']? <;> simp [hf]
    · rfl

theorem ScFacts.of_pushBind {sc : Scope} (s : State) (br : BindRec)
    (hbr : br.allNodesCreatedOnRhs = []) :
    ScFacts sc s { s with binds := s.binds.push br } where
  scope := rfl
  nodesLe := Nat.le_refl _
  old _ _ := rfl
  new i hi1 hi2 := absurd hi2 (by show ¬ i < s.nodes.size; omega)
  binds _ b' := by
    simp only [rhsNodes, Array.getElem?_push]
    split
    · rename_i h; subst h; simp [hbr]
    · rfl

/-- a `modify` that leaves `currentScope`, `nodes`, `binds` alone -/
macro "sc_modify" : tactic =>
  `(tactic| ((with_reducible apply Pres.modify); intro _; exact ScFacts.of_eq rfl rfl rfl))

theorem sc_bumpCounter (sc f) : Pres (ScFacts sc) (bumpCounter f) := by unfold bumpCounter; sc_modify
theorem sc_modExpert (sc b f) : Pres (ScFacts sc) (modExpert b f) := by unfold modExpert; sc_modify
theorem sc_modNode (sc n f) (hf : ∀ x, (f x).createdIn = x.createdIn) :
    Pres (ScFacts sc) (modNode n f) := by
  unfold modNode; exact Pres.modify fun s => ScFacts.of_modNode s n f hf
theorem sc_modBind (sc b f) (hf : ∀ x, (f x).allNodesCreatedOnRhs = x.allNodesCreatedOnRhs) :
    Pres (ScFacts sc) (modBind b f) := by
  unfold modBind; exact Pres.modify fun s => ScFacts.of_modBind s b f hf

/-- `createNode … sc'` with `sc'` the scope under consideration, or the top level -/
theorem sc_createNode (sc : Scope) (k : Kind) (sc' : Scope) (c : CutoffK)
    (h : sc' = sc ∨ sc' = .top) : Pres (ScFacts sc) (createNode k sc' c) := by
  refine ⟨fun s r s' hrun => ?_⟩
  unfold createNode at hrun
  cases sc' with
  | top =>
    simp only [bumpCounter, run_bind, run_get, run_modify, run_pure] at hrun
    cases hrun
    exact ScFacts.of_push _ rfl rfl (by simp) (fun _ => rfl)
  | bind b =>
    simp only [bumpCounter, modBind, run_bind, run_get, run_modify, run_pure] at hrun
    cases hrun
    refine ScFacts.of_push _ rfl rfl (by simpa using h) (fun hsc => ?_)
    rcases h with h | h
    · rw [hsc] at h; cases h
    · cases h

theorem sc_createVar (sc : Scope) (v : Val) (sc' : Scope) (h : sc' = sc ∨ sc' = .top) :
    Pres (ScFacts sc) (createVar v sc') := by
  unfold createVar
  exact Pres.bind Pres.get fun _ => Pres.bind (sc_createNode sc _ _ _ h) fun _ =>
    Pres.bind (by sc_modify) fun _ => Pres.pure _

macro_rules | `(tactic| pres_leaf) => `(tactic| (with_reducible apply sc_createNode; first | exact .inl rfl | exact .inr rfl))
macro_rules | `(tactic| pres_leaf) => `(tactic| (with_reducible apply sc_createVar; first | exact .inl rfl | exact .inr rfl))
macro_rules | `(tactic| pres_leaf) => `(tactic| with_reducible apply sc_modExpert)
macro_rules | `(tactic| pres_leaf) => `(tactic| with_reducible apply sc_bumpCounter)
macro_rules | `(tactic| pres_leaf) => `(tactic| ((with_reducible apply sc_modNode); intro _; rfl))
macro_rules | `(tactic| pres_leaf) => `(tactic| ((with_reducible apply sc_modBind); intro _; rfl))
macro_rules | `(tactic| pres_leaf) => `(tactic| sc_modify)

/-- `createBind` reads the current scope itself: both of its nodes get it -/
theorem createBind_sc (body lhs : Nat) (s s' : State) (r)
    (hrun : (createBind body lhs).run.run s = (r, s')) : ScFacts s.currentScope s s' := by
  unfold createBind at hrun
  rw [run_bind, run_get] at hrun
  dsimp only at hrun
  refine Pres.h (R := ScFacts s.currentScope) ?_ s r s' hrun
  refine Pres.bind (Pres.modify fun s0 => ScFacts.of_pushBind s0 _ rfl) fun _ => ?_
  pres

theorem elabInstr_sc (loc : List Nat) (lhsVal : Val) (i : Instr) (s s' : State) (r)
    (hrun : (elabInstr loc lhsVal i).run.run s = (r, s')) : ScFacts s.currentScope s s' := by
  unfold elabInstr at hrun
  rw [run_bind, run_get] at hrun
  dsimp only at hrun
  cases i
  all_goals dsimp only at hrun
  case bind body lhs =>
    rw [run_bind, Own.resolveOpnd_run] at hrun
    cases hres : Own.resolve s loc lhs with
    | error e => rw [hres] at hrun; cases hrun; exact ScFacts.refl _ _
    | ok a =>
      rw [hres] at hrun
      dsimp only at hrun
      rw [map_eq_pure_bind, run_bind] at hrun
      rcases hcb : (createBind body a).run.run s with ⟨_ | n, s1⟩
      · rw [hcb] at hrun; cases hrun; exact createBind_sc _ _ _ _ _ hcb
      · rw [hcb] at hrun; cases hrun; exact createBind_sc _ _ _ _ _ hcb
  all_goals exact Pres.h (R := ScFacts s.currentScope) (by pres) s r s' hrun

/-- `ScFacts sc`, for runs that start with current scope `sc` -/
def ScRel (sc : Scope) (s s' : State) : Prop := s.currentScope = sc → ScFacts sc s s'

instance (sc : Scope) : PreOrd (ScRel sc) :=
  ⟨fun s _ => ScFacts.refl sc s,
   fun h1 h2 ha => (h1 ha).trans (h2 ((h1 ha).scope.trans ha))⟩

theorem screl_elabInstr (sc loc lhsVal i) : Pres (ScRel sc) (elabInstr loc lhsVal i) :=
  ⟨fun s r s' hrun hs => hs ▸ elabInstr_sc loc lhsVal i s s' r hrun⟩

theorem screl_elabTemplateBase (sc t lhs init) : Pres (ScRel sc) (elabTemplateBase t lhs init) := by
  unfold elabTemplateBase
  refine Pres.bind (Pres.forIn fun a b => ?_) fun _ => Pres.resolveOpnd _ _
  refine Pres.bind (screl_elabInstr sc _ _ _) fun r => ?_
  split <;> exact Pres.pure _

/-- a template (without memoised calls) elaborated while the current scope is `sc`: every node it
creates belongs to `sc` (or to the top level: `var`) -/
theorem elabTemplateBase_sc (t : Template) (lhs : Val) (init : List Nat) (s s' : State) (r)
    (hrun : (elabTemplateBase t lhs init).run.run s = (r, s')) : ScFacts s.currentScope s s' :=
  (screl_elabTemplateBase s.currentScope t lhs init).h s r s' hrun rfl

/-- what a memoised call may do to the node table and to the binds' registrations: it appends nodes,
all of them created in the top-level scope; existing nodes keep their scope; no bind's
`allNodesCreatedOnRhs` changes -/
structure NewTop (s s' : State) : Prop where
  nodesLe : s.nodes.size ≤ s'.nodes.size
  old : ∀ i, i < s.nodes.size → (s'.nodeD i).createdIn = (s.nodeD i).createdIn
  new : ∀ i, s.nodes.size ≤ i → i < s'.nodes.size → (s'.nodeD i).createdIn = .top
  binds : ∀ b, rhsNodes s' b = rhsNodes s b

theorem NewTop.of_eq {s s' : State} (h2 : s'.nodes = s.nodes) (h3 : s'.binds = s.binds) : NewTop s s' :=
  ⟨by rw [h2]; exact Nat.le_refl _, fun i _ => by simp only [State.nodeD, h2],
   fun i hi1 hi2 => absurd hi2 (by rw [h2]; omega), fun b => by simp only [rhsNodes, h3]⟩

theorem NewTop.of_scFacts {s0 s s2 s' : State} (h : ScFacts .top s0 s2) (h1 : s0.nodes = s.nodes)
    (h2 : s0.binds = s.binds) (h3 : s'.nodes = s2.nodes) (h4 : s'.binds = s2.binds) : NewTop s s' where
  nodesLe := by rw [h3, ← h1]; exact h.nodesLe
  old i hi := by
    have := h.old i (by rw [h1]; exact hi)
    simpa only [State.nodeD, h3, h1] using this
  new i hi1 hi2 := by
    have := h.new i (by rw [h1]; exact hi1) (by rw [← h3]; exact hi2)
    simpa only [State.nodeD, h3, or_self] using this
  binds b := by
    have := h.binds rfl b
    simpa only [rhsNodes, h4, h2] using this

theorem tick_frame (s s1 : State) (r) (h : tick.run.run s = (r, s1)) :
    s1.nodes = s.nodes ∧ s1.binds = s.binds := by
  rw [tick_run] at h
  split at h
  · cases h; exact ⟨rfl, rfl⟩
  · split at h <;> cases h <;> exact ⟨rfl, rfl⟩

theorem memoCall_newTop (env : Env) (m : Nat) (key : Int) (s s' : State) (r)
    (hrun : (memoCall env m key).run.run s = (r, s')) : NewTop s s' := by
  rw [memoCall_run] at hrun
  split at hrun
  · cases hrun; exact NewTop.of_eq rfl rfl
  · rcases ht : tick.run.run s with ⟨_ | _, s1⟩
    · rw [ht] at hrun; cases hrun
      have := tick_frame s _ _ ht
      exact NewTop.of_eq this.1 this.2
    · rw [ht] at hrun
      have hf := tick_frame s _ _ ht
      dsimp only at hrun
      rcases he : (elabTemplateBase (env.memo m) (.int key)).run.run (memoStart m key s1) with ⟨_ | n, s2⟩
      · rw [he] at hrun; cases hrun
        exact NewTop.of_scFacts (elabTemplateBase_sc _ _ _ _ _ _ he) hf.1 hf.2 rfl rfl
      · rw [he] at hrun; cases hrun
        exact NewTop.of_scFacts (elabTemplateBase_sc _ _ _ _ _ _ he) hf.1 hf.2 rfl rfl

/-! ## the weak tables are swept at the end of a stabilisation -/

/-- `garbage_collect`: the entries whose node is no longer in `alive` are dropped from every table -/
def gcMemos (alive : List Nat) (memos : List (Nat × List (Int × Nat))) : List (Nat × List (Int × Nat)) :=
  memos.map fun (m, tbl) => (m, tbl.filter fun (_, n) => alive.contains n)

/-- the sweep as a state transformer (the last but one step of `stabiliseEnd`) -/
def gcStep (s : State) : State := { s with memos := gcMemos s.aliveSet s.memos }

theorem gcMemos_lookup (alive : List Nat) (memos : List (Nat × List (Int × Nat))) (m : Nat) :
    (gcMemos alive memos).lookup m = (memos.lookup m).map (·.filter fun e => alive.contains e.2) := by
  induction memos with
  | nil => rfl
  | cons e rest ih =>
    obtain ⟨m', tbl⟩ := e
    simp only [gcMemos, List.map_cons, List.lookup_cons] at ih ⊢
    cases h : m == m'
    · simpa [gcMemos] using ih
    · rfl

theorem bind_ok_post {α β} {x : M α} {f : α → M β} {Q : State → Prop}
    (hf : ∀ a s r s', (f a).run.run s = (.ok r, s') → Q s') :
    ∀ s r s', (x >>= f).run.run s = (.ok r, s') → Q s' := by
  intro s r s' h
  rw [run_bind] at h
  rcases hx : x.run.run s with ⟨_ | a, s1⟩
  · rw [hx] at h; cases h
  · rw [hx] at h; exact hf a s1 r s' h

theorem gc_tail (f g : State → State) :
    ∀ s r s', ((modify f : M Unit) >>= fun _ => (modify g : M Unit)).run.run s = (.ok r, s') →
      ∃ s1, s' = g (f s1) := by
  intro s r s' h
  rw [run_bind, run_modify] at h
  exact ⟨s, by cases h; rfl⟩

/-- a stabilisation that returns ends with the sweep (followed only by the status flip) -/
theorem stabiliseEnd_gc (env : Env) (fuel : Nat) :
    ∀ s r s', (stabiliseEnd env fuel).run.run s = (.ok r, s') →
      ∃ s1, s' = { gcStep s1 with status := .notStabilising } := by
  unfold stabiliseEnd
  repeat (first
    | exact gc_tail gcStep (fun s => { s with status := .notStabilising })
    | (refine bind_ok_post fun _ => ?_)
    | dsimp only)

theorem gcMemos_entry (alive : List Nat) (memos : List (Nat × List (Int × Nat))) (m : Nat)
    (key : Int) (n : Nat) :
    (∃ tbl, (gcMemos alive memos).lookup m = some tbl ∧ (key, n) ∈ tbl) ↔
      (∃ tbl, memos.lookup m = some tbl ∧ (key, n) ∈ tbl) ∧ alive.contains n = true := by
  rw [gcMemos_lookup]
  constructor
  · rintro ⟨tbl, h1, h2⟩
    cases hl : memos.lookup m with
    | none => rw [hl] at h1; cases h1
    | some tbl0 =>
      rw [hl] at h1; cases h1
      have := List.mem_filter.1 h2
      exact ⟨⟨tbl0, rfl, this.1⟩, this.2⟩
  · rintro ⟨⟨tbl, h1, h2⟩, h3⟩
    exact ⟨_, by rw [h1]; rfl, List.mem_filter.2 ⟨h2, h3⟩⟩

/-! ## a miss, when no fault is armed -/

theorem memoCall_miss (env : Env) (m : Nat) (key : Int) (s : State) (hmiss : memoHit s m key = none)
    (hp : s.panicCountdown = none) :
    (memoCall env m key).run.run s =
      match (elabTemplateBase (env.memo m) (.int key)).run.run (memoStart m key s) with
      | (.ok n, s2) => (.ok n, memoFinish s.currentScope m key n s2)
      | (.error e, s2) => (.error e, s2) := by
  rw [memoCall_run, hmiss, tick_run, hp]

theorem stored_memoFinish (old : Scope) (m : Nat) (key : Int) (n : Nat) (s : State) :
    stored (memoFinish old m key n s) m key = some n := by
  simp [stored, memoFinish]

theorem memoCall_miss_ok (env : Env) (m : Nat) (key : Int) (s s' : State) (n : Nat)
    (hmiss : memoHit s m key = none) (hp : s.panicCountdown = none)
    (hrun : (memoCall env m key).run.run s = (.ok n, s')) :
    s'.currentScope = s.currentScope ∧ s'.log = memoNote m key :: s.log ∧ stored s' m key = some n := by
  rw [memoCall_miss env m key s hmiss hp] at hrun
  rcases he : (elabTemplateBase (env.memo m) (.int key)).run.run (memoStart m key s) with ⟨_ | n', s2⟩
  · rw [he] at hrun; cases hrun
  · rw [he] at hrun; cases hrun
    have hk := (keep_elabTemplateBase _ _ _).h _ _ _ he
    exact ⟨rfl, hk.1, stored_memoFinish _ _ _ _ _⟩

/-! ## concrete states for the non-vacuity examples of `Props/C20.lean` -/

/-- memo function 3 builds one constant and returns it -/
def exEnvMemo : Env := { Obs.exEnv with memo := fun _ => { instrs := [.const (.int 7)], ret := .loc 0 } }

/-- inside the right-hand side of bind 0 (current scope `.bind 0`), nothing memoised yet -/
def exInBind : State :=
  { State.init 4 with
    nodes := #[{ kind := .const .unit, createdIn := .top }],
    binds := #[{ lhs := 0, body := 0 }],
    currentScope := .bind 0, handles := [0], top := #[0] }

/-- `exInBind` after the call `m3(5)` returned node 1 and the program kept a handle on it -/
def exMemoised : State :=
  { exInBind with
    nodes := #[{ kind := .const .unit, createdIn := .top }, { kind := .const (.int 7), createdIn := .top }],
    memos := [(3, [(5, 1)])], handles := [1, 0] }

end IncrVerif.Proofs.Memo
