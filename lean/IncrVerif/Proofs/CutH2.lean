import IncrVerif.Proofs.CutH1
-- Port of Proofs/Sched3.lean to ARBITRARY cutoffs (scratch name S3); overview in Props/C06History.lean
/-!
# C06 for whole histories, part 2: the scheduling invariant through one recompute step — pure logic

Port of `Proofs/Sched3.lean` to arbitrary cutoffs.
`step_inv`: if `Inv env e s (some n)` holds, `v` is the target value of `n`, and `s'` is related to `s` by
`StepRel env n v ch r s s'` (what a successful `recomputeOne` does), then `Inv env e s' r` holds.
-/
namespace IncrVerif.Proofs.CutH
open IncrVerif.Engine IncrVerif.Proofs IncrVerif.Proofs.Step IncrVerif.Proofs.Sched

/-! ## transfer of the structural part -/

theorem Graph.transfer {env : Env} {s s' : State} (g : Graph env s)
    (hsz : s'.nodes.size = s.nodes.size) (hsh : ∀ m, SameShape (s.nodeD m) (s'.nodeD m))
    (hv : s'.vars = s.vars) (hpc : s'.panicCountdown = none) : Graph env s' where
  pc := hpc
  nec n hn := by
    rw [isNecessary_of_shape hsh] at hn
    have := g.nec n hn
    rw [hsz, (hsh n).valid, (hsh n).kind, (hsh n).height]
    exact this
  var n c hn hk := by
    rw [isNecessary_of_shape hsh] at hn
    rw [(hsh n).kind] at hk
    rw [hv]; exact g.var n c hn hk
  child n hn i c hc := by
    rw [isNecessary_of_shape hsh] at hn
    rw [(hsh n).kind] at hc
    have := g.child n hn i c hc
    rw [isNecessary_of_shape hsh, (hsh c).parents, (hsh c).height, (hsh n).height]
    exact this
  parent c p i hp := by
    rw [(hsh c).parents] at hp
    have := g.parent c p i hp
    rw [isNecessary_of_shape hsh, (hsh p).kind]
    exact this

theorem Anc.transfer {s s' : State} (hsh : ∀ m, SameShape (s.nodeD m) (s'.nodeD m)) {a d : Nat}
    (h : Anc s a d) : Anc s' a d := by
  induction h with
  | refl a => exact Anc.refl a
  | step hn hc _ ih =>
    refine Anc.step ?_ ?_ ih
    · rw [isNecessary_of_shape hsh]; exact hn
    · rw [(hsh _).kind]; exact hc

theorem Anc.transfer_iff {s s' : State} (hsh : ∀ m, SameShape (s.nodeD m) (s'.nodeD m)) {a d : Nat} :
    Anc s' a d ↔ Anc s a d :=
  ⟨Anc.transfer (fun m => (hsh m).symm), Anc.transfer hsh⟩

/-- a strict descendant is reached through a child -/
theorem Anc.cases_ne {s : State} {a d : Nat} (h : Anc s a d) (hne : a ≠ d) :
    ∃ c, s.isNecessary a = true ∧ c ∈ kids (s.nodeD a).kind ∧ Anc s c d := by
  cases h with
  | refl => exact absurd rfl hne
  | step hn hc h2 => exact ⟨_, hn, hc, h2⟩

/-! ## staleness of a static node -/

theorem Graph.isStale {env : Env} {s : State} (g : Graph env s) {m : Nat}
    (hm : s.isNecessary m = true) : s.isStale m = staleOf s m :=
  isStale_static s m (g.nec m hm).2.1 (g.nec m hm).2.2.1


/-! ## the step -/

section step
variable {env : Env} {e : Bool} {s s' : State} {n : Nat} {v : Val} {ch : Bool} {r : Option Nat}

theorem StepRel.shapes (R : StepRel env n v ch r s s') (m : Nat) : SameShape (s.nodeD m) (s'.nodeD m) := by
  by_cases h : m = n
  · subst h; exact R.shape
  · exact SameShape.of_nodeSame (R.other m h)

theorem StepRel.nec (R : StepRel env n v ch r s s') (m : Nat) : s'.isNecessary m = s.isNecessary m :=
  isNecessary_of_shape R.shapes m

theorem mem_parents_iff {nd : Node} {p : Nat} :
    p ∈ nd.parents.map (·.1) ↔ ∃ i, (p, i) ∈ nd.parents := by
  rw [List.mem_map]
  constructor
  · rintro ⟨⟨a, i⟩, h, rfl⟩; exact ⟨i, h⟩
  · rintro ⟨i, h⟩; exact ⟨(p, i), h, rfl⟩

/-- facts about a parent entry of `n` -/
theorem Graph.parent_facts (g : Graph env s) {p : Nat} (hp : p ∈ (s.nodeD n).parents.map (·.1)) :
    s.isNecessary p = true ∧ n ∈ kids (s.nodeD p).kind ∧ Anc s p n ∧
      (s.nodeD n).height < (s.nodeD p).height ∧ p ≠ n := by
  obtain ⟨i, hi⟩ := mem_parents_iff.1 hp
  obtain ⟨hn, hk⟩ := g.parent n p i hi
  have hmem := List.mem_of_getElem? hk
  have hlt := (g.kids_nec hn hmem).2
  refine ⟨hn, hmem, g.parent_anc hi, hlt, ?_⟩
  intro e; subst e; omega

/-- a necessary node with `n` among its children is listed in `n`'s parents -/
theorem Graph.mem_parents (g : Graph env s) {m : Nat} (hm : s.isNecessary m = true)
    (hk : n ∈ kids (s.nodeD m).kind) : m ∈ (s.nodeD n).parents.map (·.1) := by
  obtain ⟨i, hi, e⟩ := List.mem_iff_getElem.1 hk
  have h := g.child m hm i n (by rw [List.getElem?_eq_getElem hi, e])
  exact mem_parents_iff.2 ⟨i, h.2.1⟩

/-- staleness after the step, for a necessary node other than `n` -/
theorem step_stale_other (I : Inv env e s (some n)) (R : StepRel env n v ch r s s') {m : Nat}
    (hm : s.isNecessary m = true) (hne : m ≠ n) :
    (staleOf s' m = staleOf s m) ∨
      (ch = true ∧ m ∈ (s.nodeD n).parents.map (·.1) ∧ staleOf s' m = true) := by
  have g := I.graph
  by_cases hk : n ∈ kids (s.nodeD m).kind
  · have hpar := g.mem_parents hm hk
    cases hch : ch with
    | false =>
      left
      refine staleOf_congr (R.other m hne).kind (R.other m hne).recomputedAt R.vars ?_
      intro c _
      by_cases hc : c = n
      · subst hc; rw [R.changedAt, hch]; simp
      · exact (R.other c hc).changedAt
    | true =>
      right
      refine ⟨rfl, hpar, ?_⟩
      have hfr := I.fresh n (Or.inr rfl) m (g.parent_facts hpar).2.2.1
      refine staleOf_of_child (c := n) (by rw [(R.other m hne).kind]; exact hk) ?_
      rw [R.changedAt, hch, (R.other m hne).recomputedAt]
      simpa using hfr
  · left
    refine staleOf_congr (R.other m hne).kind (R.other m hne).recomputedAt R.vars ?_
    intro c hc
    have : c ≠ n := by intro e; subst e; exact hk hc
    exact (R.other c this).changedAt

theorem step_stamps (I : Inv env e s (some n)) (R : StepRel env n v ch r s s') : Stamps s' where
  now := by rw [R.stabNum]; exact I.stamps.now
  node m := by
    rw [R.stabNum]
    by_cases h : m = n
    · subst h
      rw [R.recomputedAt, R.changedAt]
      refine ⟨Int.le_refl _, ?_⟩
      split
      · exact Int.le_refl _
      · exact (I.stamps.node m).2
    · rw [(R.other m h).recomputedAt, (R.other m h).changedAt]; exact I.stamps.node m
  var c vc h := by rw [R.stabNum]; rw [R.vars] at h; exact I.stamps.var c vc h

/-- `n` itself is not stale after the step -/
theorem step_self_fresh (I : Inv env e s (some n)) (R : StepRel env n v ch r s s') : staleOf s' n = false := by
  have st := step_stamps I R
  exact staleOf_fresh st.now (by rw [R.recomputedAt, R.stabNum]) st.var (fun c => (st.node c).2)

/-- `n` is not queued after the step -/
theorem step_self_not_queued (I : Inv env e s (some n)) (R : StepRel env n v ch r s s') :
    (s'.nodeD n).inRch = false := by
  cases h : (s'.nodeD n).inRch with
  | false => rfl
  | true =>
    exfalso
    rcases R.newIn n h with h1 | ⟨_, h1⟩
    · rw [(I.cur n rfl).2 n (Anc.refl n)] at h1; cases h1
    · exact (I.graph.parent_facts h1).2.2.2.2 rfl

/-- **the step lemma** -/
theorem step_inv (I : Inv env e s (some n)) (ht : Target env s n v) (R : StepRel env n v ch r s s') :
    Inv env e s' r := by
  have g := I.graph
  have hnn := (I.cur n rfl).1
  have g' : Graph env s' := g.transfer R.size R.shapes R.vars R.pc
  have st := step_stamps I R
  have hnotkid : n ∉ kids (s.nodeD n).kind := by
    intro h; have := (g.kids_nec hnn h).2; omega
  refine ⟨g', R.heap, st, ?_, ?_, ?_, ?_, ?_, ?_⟩
  · -- pending
    intro m hm hst
    have hm' := hm; rw [R.nec] at hm'
    rw [g'.isStale hm] at hst
    by_cases hne : m = n
    · subst hne; rw [step_self_fresh I R] at hst; cases hst
    · rcases step_stale_other I R hm' hne with h1 | ⟨hc, hp, _⟩
      · rw [h1, ← g.isStale hm'] at hst
        rcases I.pending m hm' hst with h2 | h2
        · exact Or.inl ((R.other m hne).inRch h2)
        · cases h2; exact absurd rfl hne
      · exact R.parentsIn hc m hp
  · -- cons
    intro m hm hst
    have hm' := hm; rw [R.nec] at hm'
    rw [g'.isStale hm] at hst
    by_cases hne : m = n
    · subst hne
      refine ⟨v, R.value, fun _ => ?_⟩
      refine Target.congr R.shape.kind R.vars ?_ ht
      intro c hc
      have : c ≠ m := by intro e; subst e; exact hnotkid hc
      exact (R.other c this).value
    · rcases step_stale_other I R hm' hne with h1 | ⟨_, _, h3⟩
      · rw [h1, ← g.isStale hm'] at hst
        obtain ⟨w, hval, hw⟩ := I.cons m hm' hst
        refine ⟨w, by rw [(R.other m hne).value]; exact hval, fun he => ?_⟩
        refine Target.congr (R.other m hne).kind R.vars ?_ (hw he)
        intro c hc
        by_cases hcn : c = n
        · subst hcn
          -- `n` is a child of `m`: had `n` changed, `m` would be stale
          cases hch : ch with
          | false =>
            obtain ⟨⟨old, hold, heq⟩, -⟩ := R.unch hch
            rw [R.value, hold, heq (I.exact he c)]
          | true =>
            exfalso
            have hpar := g.mem_parents hm' hc
            have hfr := I.fresh c (Or.inr rfl) m (g.parent_facts hpar).2.2.1
            have : staleOf s' m = true := by
              refine staleOf_of_child (c := c) (by rw [(R.other m hne).kind]; exact hc) ?_
              rw [R.changedAt, hch, (R.other m hne).recomputedAt]
              simpa using hfr
            rw [h1, ← g.isStale hm'] at this
            rw [this] at hst; cases hst
        · exact (R.other c hcn).value
      · rw [h3] at hst; cases hst
  · -- exact
    intro he m
    rw [(R.shapes m).cutoff]; exact I.exact he m
  · -- fresh
    intro d hd a ha
    rw [Anc.transfer_iff R.shapes] at ha
    rw [R.stabNum]
    -- either `d` was pending before, or it is a parent of `n`
    have key : ((s.nodeD d).inRch = true) ∨ d ∈ (s.nodeD n).parents.map (·.1) := by
      rcases hd with h | h
      · rcases R.newIn d h with h1 | ⟨_, h1⟩
        · exact Or.inl h1
        · exact Or.inr h1
      · exact Or.inr (R.ret d h).2.1
    rcases key with h | h
    · have hlt := I.fresh d (Or.inl h) a ha
      by_cases han : a = n
      · subst han
        rw [(I.cur a rfl).2 d ha] at h; cases h
      · rw [(R.other a han).recomputedAt]; exact hlt
    · have pf := g.parent_facts h
      have hlt := I.fresh n (Or.inr rfl) a (ha.trans pf.2.2.1)
      by_cases han : a = n
      · subst han
        have := ha.height_le g
        omega
      · rw [(R.other a han).recomputedAt]; exact hlt
  · -- cur
    intro p hp
    obtain ⟨hch, hpar, hnq, hwhy⟩ := R.ret p hp
    have pf := g.parent_facts hpar
    refine ⟨by rw [R.nec]; exact pf.1, ?_⟩
    intro d hd
    rw [Anc.transfer_iff R.shapes] at hd
    by_cases hdp : p = d
    · subst hdp; exact hnq
    cases hq : (s'.nodeD d).inRch with
    | false => rfl
    | true =>
      exfalso
      rcases hwhy with ⟨f, args, hk, hlen⟩ | hmin
      · obtain ⟨c, _, hc, hcd⟩ := hd.cases_ne hdp
        have hn_in := pf.2.1
        rw [hk] at hc hn_in
        simp only [kids] at hc hn_in
        have hcn : c = n := by
          match args, hlen, hc, hn_in with
          | [x], _, hc, hn_in =>
            simp only [List.mem_singleton] at hc hn_in
            rw [hc, hn_in]
        subst hcn
        rcases R.newIn d hq with h1 | ⟨_, h1⟩
        · rw [(I.cur c rfl).2 d hcd] at h1; cases h1
        · have := (g.parent_facts h1).2.2.2.1
          have := hcd.height_le g
          omega
      · have h1 := hmin d hq
        have h2 := hd.height_lt g hdp
        omega
  · -- qstale
    intro m hm
    have key : ((s.nodeD m).inRch = true ∧ m ≠ n) ∨ (ch = true ∧ m ∈ (s.nodeD n).parents.map (·.1)) := by
      rcases hm with h | h
      · rcases R.newIn m h with h1 | h1
        · left
          refine ⟨h1, ?_⟩
          intro e; subst e
          rw [(I.cur m rfl).2 m (Anc.refl m)] at h1; cases h1
        · exact Or.inr h1
      · exact Or.inr ⟨(R.ret m h).1, (R.ret m h).2.1⟩
    rcases key with ⟨h, hne⟩ | ⟨hc, hp⟩
    · have hmn := I.heap.nec m h
      have hst := I.qstale m (Or.inl h)
      rw [g'.isStale (by rw [R.nec]; exact hmn)]
      rcases step_stale_other I R hmn hne with h1 | ⟨_, _, h3⟩
      · rw [h1, ← g.isStale hmn]; exact hst
      · exact h3
    · have pf := g.parent_facts hp
      rw [g'.isStale (by rw [R.nec]; exact pf.1)]
      rcases step_stale_other I R pf.1 pf.2.2.2.2 with h1 | ⟨_, _, h3⟩
      · -- `n` changed and `m` is a parent of `n`: stale
        have hfr := I.fresh n (Or.inr rfl) m pf.2.2.1
        refine staleOf_of_child (c := n) (by rw [(R.other m pf.2.2.2.2).kind]; exact pf.2.1) ?_
        rw [R.changedAt, hc, (R.other m pf.2.2.2.2).recomputedAt]
        simpa using hfr
      · exact h3

end step
end IncrVerif.Proofs.CutH
