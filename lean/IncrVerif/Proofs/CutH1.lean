import IncrVerif.Proofs.Sched13
-- Port of Proofs/Sched1.lean to ARBITRARY cutoffs (scratch name S1); overview in Props/C06History.lean
/-!
# C06 for whole histories, part 1: the scheduling invariant for ARBITRARY cutoffs — definitions

Generalisation of `Proofs/Sched1.lean`.  The leaf definitions of the static fragment (`Sched.StaticKind`,
`Sched.kids`, `Sched.eval`, `Sched.Target`, `Sched.Consistent`, `Sched.HeapInv`, `Sched.Stamps`, `Sched.SameShape`)
are re-used; the definitions that restricted the cutoff are replaced (same names, this namespace):

* `Graph env s`: as `Sched.Graph`, WITHOUT a clause on the cutoff of a necessary node.
* `ExactCut c`: `c` is `.eq` or `.never` (a cutoff that suppresses only equal values).
* `ConsE env e s m`: node `m` has a value, and — if the flag `e` ("every cutoff that was ever in force was
  exact") is up — that value is its defining expression applied to the CURRENT values of its children.
* `Inv env e s x`: the scheduling invariant.  New with respect to `Sched.Inv`: `cons` is `ConsE`; `exact`
  (flag up ⟹ every cutoff is exact); `qstale` (a queued node and the current node are stale).
* `StepRel env n v ch r s s'`: what one successful `recomputeOne` does.  New: `verdict` — `ch` is EXACTLY
  `mcvChanges env s n v` (first result: `true`; otherwise the negated verdict of `shouldCutoff` on
  `(old, new)` in the pre-state); `log` — the log grows by the events of the node's function followed by the
  `cut` event (if the cutoff is a user function) and nothing else; `unch` no longer says that the old value
  equals the new one (only for exact cutoffs).
-/
namespace IncrVerif.Proofs.CutH
open IncrVerif.Engine IncrVerif.Proofs IncrVerif.Proofs.Step IncrVerif.Proofs.Sched

/-- a cutoff that suppresses equal values only: the default `.eq`, and `.never` -/
def ExactCut : CutoffK → Prop
  | .eq => True
  | .never => True
  | _ => False

instance : DecidablePred ExactCut := fun c => by
  cases c <;> simp only [ExactCut] <;> infer_instance

theorem exactCut_iff (c : CutoffK) : ExactCut c ↔ (c = .eq ∨ c = .never) := by
  cases c <;> simp [ExactCut]

/-! ## structure -/

/-- structural well-formedness of the necessary part of the graph (static kinds, ANY cutoff) -/
structure Graph (env : Env) (s : State) : Prop where
  pc : s.panicCountdown = none
  nec : ∀ n, s.isNecessary n = true →
    n < s.nodes.size ∧ (s.nodeD n).valid = true ∧ StaticKind env (s.nodeD n).kind ∧ 0 ≤ (s.nodeD n).height
  var : ∀ n c, s.isNecessary n = true → (s.nodeD n).kind = .var c → ∃ vc, s.vars[c]? = some vc
  /-- child edges are mirrored in `parents`, children are necessary and strictly lower -/
  child : ∀ n, s.isNecessary n = true → ∀ i c, (kids (s.nodeD n).kind)[i]? = some c →
    s.isNecessary c = true ∧ (n, i) ∈ (s.nodeD c).parents ∧ (s.nodeD c).height < (s.nodeD n).height
  /-- parent entries are mirrored by child edges -/
  parent : ∀ c p i, (p, i) ∈ (s.nodeD c).parents →
    s.isNecessary p = true ∧ (kids (s.nodeD p).kind)[i]? = some c

/-- `a` is a reflexive-transitive parent of `d` (through necessary nodes) -/
inductive Anc (s : State) : Nat → Nat → Prop
  | refl (a : Nat) : Anc s a a
  | step {a c d : Nat} : s.isNecessary a = true → c ∈ kids (s.nodeD a).kind → Anc s c d → Anc s a d

/-- node `m` has a value; if every cutoff ever in force was exact (`e`), the value is the node's defining
expression on the CURRENT values of its children -/
def ConsE (env : Env) (e : Bool) (s : State) (m : Nat) : Prop :=
  ∃ v, (s.nodeD m).value = some v ∧ (e = true → Target env s m v)

theorem ConsE.consistent {env : Env} {s : State} {m : Nat} (h : ConsE env true s m) : Consistent env s m := by
  obtain ⟨v, hv, ht⟩ := h
  exact ⟨v, ht rfl, hv⟩

theorem ConsE.of_consistent {env : Env} {e : Bool} {s : State} {m : Nat} (h : Consistent env s m) :
    ConsE env e s m := by
  obtain ⟨v, ht, hv⟩ := h
  exact ⟨v, hv, fun _ => ht⟩

theorem ConsE.weaken {env : Env} {e : Bool} {s : State} {m : Nat} (h : ConsE env e s m) : ConsE env false s m := by
  obtain ⟨v, hv, _⟩ := h
  exact ⟨v, hv, fun h => by cases h⟩

/-- the scheduling invariant.  `x`: the node that has been taken out of the heap (or handed over by
the direct-recompute chain) and is about to be recomputed.  `e`: every cutoff ever in force was exact. -/
structure Inv (env : Env) (e : Bool) (s : State) (x : Option Nat) : Prop where
  graph : Graph env s
  heap : HeapInv s
  stamps : Stamps s
  /-- (b) stale necessary nodes are pending -/
  pending : ∀ m, s.isNecessary m = true → s.isStale m = true → (s.nodeD m).inRch = true ∨ x = some m
  /-- (c) necessary nodes that are not stale have a value (consistent with their children if `e`) -/
  cons : ∀ m, s.isNecessary m = true → s.isStale m = false → ConsE env e s m
  /-- flag up: every cutoff is exact -/
  exact : e = true → ∀ m, ExactCut (s.nodeD m).cutoff
  /-- (d) above a pending node (and the node itself) nothing has been recomputed in this round -/
  fresh : ∀ d, ((s.nodeD d).inRch = true ∨ x = some d) → ∀ a, Anc s a d →
    (s.nodeD a).recomputedAt < s.stabNum
  /-- the current node is necessary, not queued, and nothing below it is queued -/
  cur : ∀ n, x = some n → s.isNecessary n = true ∧ ∀ d, Anc s n d → (s.nodeD d).inRch = false
  /-- only stale nodes are pending -/
  qstale : ∀ m, ((s.nodeD m).inRch = true ∨ x = some m) → s.isStale m = true

/-- the drain invariant: the state between two pops of `drainHeap` -/
def DrainInv (env : Env) (e : Bool) (s : State) : Prop := Inv env e s none

theorem Inv.weaken {env : Env} {e : Bool} {s : State} {x : Option Nat} (I : Inv env e s x) : Inv env false s x :=
  { I with cons := fun m hm hs => (I.cons m hm hs).weaken, exact := fun h => by cases h }

/-! ## basic consequences -/

theorem Graph.value_plain {env : Env} {s : State} (g : Graph env s) {n : Nat}
    (hn : s.isNecessary n = true) : s.value env n = (s.nodeD n).value :=
  Step.value_plain env s n (fun p i => (g.nec n hn).2.2.1.not_mapRef p i)

theorem Graph.kids_nec {env : Env} {s : State} (g : Graph env s) {n c : Nat}
    (hn : s.isNecessary n = true) (hc : c ∈ kids (s.nodeD n).kind) :
    s.isNecessary c = true ∧ (s.nodeD c).height < (s.nodeD n).height := by
  obtain ⟨i, hi, e⟩ := List.mem_iff_getElem.1 hc
  have h := g.child n hn i c (by rw [List.getElem?_eq_getElem hi, e])
  exact ⟨h.1, h.2.2⟩

theorem Graph.valuesOf {env : Env} {s : State} (g : Graph env s) {n : Nat}
    (hn : s.isNecessary n = true) :
    valuesOf env s (kids (s.nodeD n).kind) = plainVals s (kids (s.nodeD n).kind) := by
  rw [valuesOf_eq_evalArgs]
  exact evalArgs_congr _ _ _ fun a ha => (g.value_plain (g.kids_nec hn ha).1)

/-- heights do not increase downwards -/
theorem Anc.height_le {env : Env} {s : State} (g : Graph env s) {a d : Nat} (h : Anc s a d) :
    (s.nodeD d).height ≤ (s.nodeD a).height := by
  induction h with
  | refl a => exact Int.le_refl _
  | step hn hc _ ih => have := (g.kids_nec hn hc).2; omega

theorem Anc.height_lt {env : Env} {s : State} (g : Graph env s) {a d : Nat} (h : Anc s a d)
    (hne : a ≠ d) : (s.nodeD d).height < (s.nodeD a).height := by
  cases h with
  | refl => exact absurd rfl hne
  | step hn hc h2 => have := (g.kids_nec hn hc).2; have := h2.height_le g; omega

theorem Anc.trans {s : State} {a b c : Nat} (h1 : Anc s a b) (h2 : Anc s b c) : Anc s a c := by
  induction h1 with
  | refl => exact h2
  | step hn hc _ ih => exact Anc.step hn hc (ih h2)

theorem Anc.nec {env : Env} {s : State} (g : Graph env s) {a d : Nat} (h : Anc s a d)
    (ha : s.isNecessary a = true) : s.isNecessary d = true := by
  induction h with
  | refl => exact ha
  | step hn hc _ ih => exact ih (g.kids_nec hn hc).1

/-- a parent entry gives an `Anc` step -/
theorem Graph.parent_anc {env : Env} {s : State} (g : Graph env s) {c p i : Nat}
    (h : (p, i) ∈ (s.nodeD c).parents) : Anc s p c := by
  obtain ⟨hp, hk⟩ := g.parent c p i h
  exact Anc.step hp (List.mem_of_getElem? hk) (Anc.refl c)

/-! ## L1: with exact cutoffs, after the drain every necessary node carries its from-scratch value -/

theorem eval_of_consistent (env : Env) (s : State) (g : Graph env s)
    (hc : ∀ m, s.isNecessary m = true → Consistent env s m) :
    ∀ k n, s.isNecessary n = true → (s.nodeD n).height.toNat < k →
      (s.nodeD n).value = eval env s k n := by
  intro k
  induction k with
  | zero => intro n _ h; omega
  | succ k ih =>
    intro n hn hk
    obtain ⟨v, ht, hv⟩ := hc n hn
    have hkids : ∀ a, a ∈ kids (s.nodeD n).kind → (s.nodeD a).value = eval env s k a := by
      intro a ha
      obtain ⟨h1, h2⟩ := g.kids_nec hn ha
      have h0 := (g.nec a h1).2.2.2
      exact ih a h1 (by omega)
    rw [hv]
    unfold Target at ht
    unfold eval
    cases hkd : (s.nodeD n).kind with
    | const w => rw [hkd] at ht; simp only [ht]
    | var c =>
      rw [hkd] at ht
      obtain ⟨vc, h1, h2⟩ := ht
      simp only [h1, h2, Option.map_some]
    | map f args =>
      rw [hkd] at ht hkids
      obtain ⟨vals, h1, h2⟩ := ht
      simp only
      rw [← evalArgs_congr _ _ args (fun a ha => hkids a ha)]
      unfold plainVals at h1
      rw [h1, h2]; rfl
    | fold f init cs =>
      rw [hkd] at ht hkids
      obtain ⟨vals, h1, h2⟩ := ht
      simp only
      rw [← evalArgs_congr _ _ cs (fun a ha => hkids a ha)]
      unfold plainVals at h1
      rw [h1, h2]; rfl
    | mapRef _ _ => rw [hkd] at ht; exact ht.elim
    | mapWithOld _ _ => rw [hkd] at ht; exact ht.elim
    | bindLhsChange _ => rw [hkd] at ht; exact ht.elim
    | bindMain _ _ => rw [hkd] at ht; exact ht.elim
    | expert _ => rw [hkd] at ht; exact ht.elim

/-- with an empty heap every necessary node is up to date and has a value -/
theorem DrainInv.all_consistent {env : Env} {e : Bool} {s : State} (h : DrainInv env e s) (he : s.rch.length = 0)
    (m : Nat) (hm : s.isNecessary m = true) : s.isStale m = false ∧ ConsE env e s m := by
  have hns : s.isStale m = false := by
    cases hst : s.isStale m with
    | false => rfl
    | true =>
      rcases h.pending m hm hst with h1 | h1
      · rw [h.heap.empty he m] at h1; cases h1
      · cases h1
  exact ⟨hns, h.cons m hm hns⟩

/-- **L1 (any cutoffs).** `DrainInv`, empty heap: every necessary node is valid, not stale, and has a value,
which is what an observer reads. -/
theorem drained_settled {env : Env} {e : Bool} {s : State} (h : DrainInv env e s) (he : s.rch.length = 0)
    (n : Nat) (hn : s.isNecessary n = true) :
    (s.nodeD n).valid = true ∧ s.isStale n = false ∧ ∃ v, (s.nodeD n).value = some v ∧ s.value env n = some v := by
  obtain ⟨hs, v, hv, -⟩ := h.all_consistent he n hn
  exact ⟨(h.graph.nec n hn).2.1, hs, v, hv, by rw [h.graph.value_plain hn]; exact hv⟩

/-- **L1 (exact cutoffs).** `DrainInv` with the flag up, empty heap: every necessary node is valid, not stale,
and its stored value — which is also what an observer reads (`State.value`) — is the from-scratch evaluation
of its defining expression on the current variable values (any fuel above the node's height). -/
theorem drained_values {env : Env} {s : State} (h : DrainInv env true s) (he : s.rch.length = 0)
    (n : Nat) (hn : s.isNecessary n = true) (k : Nat) (hk : (s.nodeD n).height.toNat < k) :
    (s.nodeD n).valid = true ∧ s.isStale n = false ∧
      (s.nodeD n).value = eval env s k n ∧ s.value env n = eval env s k n ∧
      (eval env s k n).isSome = true := by
  have hv := eval_of_consistent env s h.graph (fun m hm => (h.all_consistent he m hm).2.consistent) k n hn hk
  obtain ⟨v, _, hval⟩ := (h.all_consistent he n hn).2.consistent
  refine ⟨(h.graph.nec n hn).2.1, (h.all_consistent he n hn).1, hv, ?_, ?_⟩
  · rw [h.graph.value_plain hn]; exact hv
  · rw [← hv, hval]; rfl

/-! ## interface: what one successful `recomputeOne` does in the static fragment -/

/-- an event logged by the function of node `n` -/
def IsInvOf (n : Nat) : Event → Prop
  | .inv _ m _ _ => m = n
  | _ => False

/-- `s'` is `s` after a successful `recomputeOne env fuel n` that computed `v`, stamped `changedAt`
iff `ch`, and returned `r` (the parent handed over for direct recomputation) -/
structure StepRel (env : Env) (n : Nat) (v : Val) (ch : Bool) (r : Option Nat) (s s' : State) : Prop where
  size : s'.nodes.size = s.nodes.size
  vars : s'.vars = s.vars
  stabNum : s'.stabNum = s.stabNum
  pc : s'.panicCountdown = none
  /-- the number of buckets of the recompute heap never changes -/
  qsize : s'.rch.queues.size = s.rch.queues.size
  /-- other nodes: same up to heap membership (only inserted, never removed) -/
  other : ∀ m, m ≠ n → NodeSame (s.nodeD m) (s'.nodeD m)
  shape : SameShape (s.nodeD n) (s'.nodeD n)
  value : (s'.nodeD n).value = some v
  recomputedAt : (s'.nodeD n).recomputedAt = s.stabNum
  changedAt : (s'.nodeD n).changedAt = if ch = true then s.stabNum else (s.nodeD n).changedAt
  /-- **the gate**: `ch` is `true` for a first result, otherwise the negation of the cutoff's verdict on
  `(old, new)`, evaluated in the pre-state -/
  verdict : mcvChanges env s n v = some ch
  /-- no stamp: there was an old value, it was suppressed (for an exact cutoff: it was equal), nobody was notified -/
  unch : ch = false → (∃ old, (s.nodeD n).value = some old ∧ (ExactCut (s.nodeD n).cutoff → old = v)) ∧ r = none
  /-- the log: the function's events, then the `cut` event of a user cutoff function (if consulted), nothing else -/
  log : ∃ evs, s'.log = mcvLog env s n v ++ (evs ++ s.log) ∧ ∀ e, e ∈ evs → IsInvOf n e
  heap : HeapInv s'
  /-- only parents of `n` are inserted, and only when `n` changed -/
  newIn : ∀ m, (s'.nodeD m).inRch = true →
    (s.nodeD m).inRch = true ∨ (ch = true ∧ m ∈ (s.nodeD n).parents.map (·.1))
  /-- changes are never lost -/
  parentsIn : ch = true → ∀ p, p ∈ (s.nodeD n).parents.map (·.1) →
    (s'.nodeD p).inRch = true ∨ r = some p
  /-- the handed-over parent: not queued; a one-argument `map` or not above the heap's minimum -/
  ret : ∀ p, r = some p → ch = true ∧ p ∈ (s.nodeD n).parents.map (·.1) ∧
    (s'.nodeD p).inRch = false ∧
    ((∃ f args, (s.nodeD p).kind = .map f args ∧ args.length ≤ 1) ∨
      ∀ m, (s'.nodeD m).inRch = true → (s.nodeD p).height ≤ (s.nodeD m).height)

end IncrVerif.Proofs.CutH
