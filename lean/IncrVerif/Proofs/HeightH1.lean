import IncrVerif.Proofs.Quiet28
import IncrVerif.Proofs.Heights
/-!
# C19 for whole histories, part 1: the static height `needH`, the exact-height invariant

* `needH s n`: the height node `n` needs when it is necessary: `1 + max` over its children (`kids`), `1` for a leaf.
* `HEx s op`: closed necessary nodes have EXACTLY `height = needH` and `needH ≤ maxHeightSeen`.
* `RoomH N s`: both heaps allow heights up to exactly `N`, `0 ≤ maxHeightSeen ≤ N`.
* `Out x s Q P`: the run of `x` from `s` either returns in a state satisfying `Q`, or panics with the height
  diagnostic `Panic.site "height-limit"` in a state satisfying `P` (no other panic, fuel suffices).
-/
namespace IncrVerif.Proofs.HeightH
open IncrVerif.Engine IncrVerif.Driver IncrVerif.Proofs IncrVerif.Proofs.Step IncrVerif.Proofs.Sched
open IncrVerif.Proofs.Quiet

/-! ## the static height -/

/-- greatest element of a list of naturals (`0` for the empty list) -/
def lmax (l : List Nat) : Nat := l.foldl max 0

theorem foldl_max_init (l : List Nat) (a : Nat) : l.foldl max a = max a (l.foldl max 0) := by
  induction l generalizing a with
  | nil => simp
  | cons x l ih =>
    simp only [List.foldl_cons]
    rw [ih (max a x), ih (max 0 x)]
    omega

theorem lmax_nil : lmax [] = 0 := rfl
theorem lmax_cons (x : Nat) (l : List Nat) : lmax (x :: l) = max x (lmax l) := by
  unfold lmax; simp only [List.foldl_cons]; rw [foldl_max_init]; omega
theorem lmax_append (l1 l2 : List Nat) : lmax (l1 ++ l2) = max (lmax l1) (lmax l2) := by
  induction l1 with
  | nil => simp [lmax_nil]
  | cons x l ih => rw [List.cons_append, lmax_cons, lmax_cons, ih]; omega
theorem le_lmax {l : List Nat} {x : Nat} (h : x ∈ l) : x ≤ lmax l := by
  induction l with
  | nil => cases h
  | cons y l ih =>
    rw [lmax_cons]
    rcases List.mem_cons.1 h with e | e
    · omega
    · have := ih e; omega
theorem lmax_le {l : List Nat} {b : Nat} (h : ∀ x, x ∈ l → x ≤ b) : lmax l ≤ b := by
  induction l with
  | nil => rw [lmax_nil]; omega
  | cons y l ih =>
    rw [lmax_cons]
    have := h y (List.mem_cons_self ..)
    have := ih (fun x hx => h x (List.mem_cons_of_mem _ hx))
    omega
theorem lmax_attained {l : List Nat} (h : l ≠ []) : lmax l ∈ l := by
  induction l with
  | nil => exact absurd rfl h
  | cons y l ih =>
    rw [lmax_cons]
    by_cases hl : l = []
    · subst hl; rw [lmax_nil]; simp
    · have := ih hl
      by_cases hy : lmax l ≤ y
      · rw [Nat.max_eq_left hy]; exact List.mem_cons_self ..
      · rw [Nat.max_eq_right (by omega)]; exact List.mem_cons_of_mem _ this

/-- the height node `n` needs, with fuel -/
def needHF (s : State) : Nat → Nat → Nat
  | 0, _ => 0
  | fuel+1, n => 1 + lmax ((kids (s.nodeD n).kind).map (needHF s fuel))

/-- **the static height**: `1` for a leaf (`const`, `var`), `1 + max` over the children for `map`/`fold` -/
def needH (s : State) (n : Nat) : Nat := needHF s (n + 1) n

/-- children were created before their parents -/
def KidsLt (s : State) : Prop := ∀ n c, c ∈ kids (s.nodeD n).kind → c < n

theorem kidsLt_of_static {env : Env} {s : State} (A : AllStatic env s) : KidsLt s := by
  intro n c hc
  by_cases hn : n < s.nodes.size
  · exact (A.node n hn).kidsLt c hc
  · rw [nodeD_default s n (by omega)] at hc
    simp [kids] at hc
    cases hc

theorem kidsLt_of_ginv {env : Env} {s : State} {op : Nat → Op} (I : GInv env s op) : KidsLt s :=
  kidsLt_of_static I.static

theorem needHF_stable {s : State} (K : KidsLt s) : ∀ (n fuel : Nat), n < fuel → needHF s fuel n = needHF s (n + 1) n := by
  intro n
  induction n using Nat.strongRecOn with
  | _ n ih =>
    intro fuel hf
    obtain ⟨f, rfl⟩ : ∃ f, fuel = f + 1 := ⟨fuel - 1, by omega⟩
    simp only [needHF]
    congr 2
    apply List.map_congr_left
    intro c hc
    have hcn := K n c hc
    rw [ih c hcn f (by omega), ih c hcn n hcn]

/-- the defining equation -/
theorem needH_eq {s : State} (K : KidsLt s) (n : Nat) :
    needH s n = 1 + lmax ((kids (s.nodeD n).kind).map (needH s)) := by
  show needHF s (n + 1) n = _
  simp only [needHF]
  congr 2
  apply List.map_congr_left
  intro c hc
  exact needHF_stable K c n (K n c hc)

theorem needH_pos (s : State) (n : Nat) : 1 ≤ needH s n := by
  show 1 ≤ needHF s (n + 1) n
  simp only [needHF]; omega

theorem needH_leaf {s : State} {n : Nat} (h : kids (s.nodeD n).kind = []) : needH s n = 1 := by
  show needHF s (n + 1) n = 1
  simp only [needHF, h, List.map_nil, lmax_nil]

theorem needH_child_lt {s : State} (K : KidsLt s) {n c : Nat} (h : c ∈ kids (s.nodeD n).kind) :
    needH s c < needH s n := by
  rw [needH_eq K n]
  have := le_lmax (List.mem_map.2 ⟨c, h, rfl⟩ : needH s c ∈ (kids (s.nodeD n).kind).map (needH s))
  omega

/-- the static height is at most the creation index + 1 -/
theorem needH_le_index {s : State} (K : KidsLt s) (n : Nat) : needH s n ≤ n + 1 := by
  induction n using Nat.strongRecOn with
  | _ n ih =>
    rw [needH_eq K n]
    have : lmax ((kids (s.nodeD n).kind).map (needH s)) ≤ n := by
      apply lmax_le
      intro x hx
      obtain ⟨c, hc, rfl⟩ := List.mem_map.1 hx
      have := K n c hc
      have := ih c this
      omega
    omega

theorem needHF_congr {s s' : State} (h : ∀ m, (s'.nodeD m).kind = (s.nodeD m).kind) :
    ∀ fuel n, needHF s' fuel n = needHF s fuel n := by
  intro fuel
  induction fuel with
  | zero => intro n; rfl
  | succ f ih =>
    intro n
    simp only [needHF, h n]
    congr 2
    apply List.map_congr_left
    intro c _; exact ih c

/-- `needH` only reads the kinds -/
theorem needH_congr {s s' : State} (h : ∀ m, (s'.nodeD m).kind = (s.nodeD m).kind) (n : Nat) :
    needH s' n = needH s n := needHF_congr h _ _

theorem needHF_congr_lt {s s' : State} (K : KidsLt s) :
    ∀ fuel n, (∀ m, m ≤ n → (s'.nodeD m).kind = (s.nodeD m).kind) → needHF s' fuel n = needHF s fuel n := by
  intro fuel
  induction fuel with
  | zero => intro n _; rfl
  | succ f ih =>
    intro n h
    simp only [needHF, h n (Nat.le_refl _)]
    congr 2
    apply List.map_congr_left
    intro c hc
    have := K n c hc
    exact ih c (fun m hm => h m (by omega))

/-- `needH n` only reads the kinds of the nodes up to `n` (new nodes do not change old static heights) -/
theorem needH_congr_lt {s s' : State} (K : KidsLt s) {n : Nat}
    (h : ∀ m, m ≤ n → (s'.nodeD m).kind = (s.nodeD m).kind) : needH s' n = needH s n :=
  needHF_congr_lt K _ _ h

theorem needH_cframe {s s' : State} (h : CFrame s s') (n : Nat) : needH s' n = needH s n :=
  needH_congr h.kind n

theorem PFrame.kind {s s' : State} (h : PFrame s s') (m : Nat) : (s'.nodeD m).kind = (s.nodeD m).kind := by
  have := h.node m; simp only [nodeKeyP, Prod.mk.injEq] at this; exact this.1

theorem needH_pframe {s s' : State} (h : PFrame s s') (n : Nat) : needH s' n = needH s n :=
  needH_congr (PFrame.kind h) n

/-- the height the loop of `becameNecessary` has computed after `j` children -/
def linkH (s : State) (n j : Nat) : Nat := 1 + lmax (((kids (s.nodeD n).kind).take j).map (needH s))

theorem linkH_zero (s : State) (n : Nat) : linkH s n 0 = 1 := by simp [linkH, lmax_nil]

theorem linkH_succ {s : State} {n j c : Nat} (h : (kids (s.nodeD n).kind)[j]? = some c) :
    linkH s n (j + 1) = max (linkH s n j) (needH s c + 1) := by
  unfold linkH
  have hj : j < (kids (s.nodeD n).kind).length := by
    rcases Nat.lt_or_ge j (kids (s.nodeD n).kind).length with h1 | h1
    · exact h1
    · rw [List.getElem?_eq_none h1] at h; cases h
  rw [List.take_add_one, h]
  simp only [Option.toList_some, List.map_append, List.map_cons, List.map_nil]
  rw [lmax_append, lmax_cons, lmax_nil]
  omega

theorem linkH_full {s : State} (K : KidsLt s) (n : Nat) :
    linkH s n (kids (s.nodeD n).kind).length = needH s n := by
  rw [needH_eq K n, linkH, List.take_length]

/-! ## the invariants -/

/-- closed necessary nodes have exactly their static height, and it has been seen -/
def HEx (s : State) (op : Nat → Op) : Prop :=
  ∀ m, s.isNecessary m = true → op m = .closed →
    (s.nodeD m).height = (needH s m : Int) ∧ (needH s m : Int) ≤ s.maxHeightSeen

/-- both heaps have `N + 1` buckets; the largest height seen is within the limit -/
structure RoomH (N : Nat) (s : State) : Prop where
  ahh : s.ahh.maxAllowed = (N : Int)
  rch : s.rch.maxAllowed = (N : Int)
  seen : s.maxHeightSeen ≤ (N : Int)
  seen0 : 0 ≤ s.maxHeightSeen

theorem HEx.le {N : Nat} {s : State} {op : Nat → Op} (H : HEx s op) (R : RoomH N s) {m : Nat}
    (hm : s.isNecessary m = true) (ho : op m = .closed) : needH s m ≤ N := by
  have := (H m hm ho).2; have := R.seen; omega

/-- the exact heights imply the crude bound of the total-correctness proof -/
theorem HEx.hbo {env : Env} {s : State} {op : Nat → Op} (H : HEx s op) (I : GInv env s op) : HBo s op := by
  intro m hm ho
  rw [(H m hm ho).1]
  have := needH_le_index (kidsLt_of_ginv I) m
  omega

/-- transfer along a step that keeps kinds, `maxHeightSeen`, and necessity/heights of the nodes in question -/
theorem HEx.transfer {s s' : State} {op op' : Nat → Op} (H : HEx s op)
    (hk : ∀ m, (s'.nodeD m).kind = (s.nodeD m).kind) (hs : s.maxHeightSeen ≤ s'.maxHeightSeen)
    (h : ∀ m, s'.isNecessary m = true → op' m = .closed →
      s.isNecessary m = true ∧ op m = .closed ∧ (s'.nodeD m).height = (s.nodeD m).height) : HEx s' op' := by
  intro m hm ho
  obtain ⟨h1, h2, h3⟩ := h m hm ho
  obtain ⟨h4, h5⟩ := H m h1 h2
  rw [needH_congr hk, h3]
  exact ⟨h4, by omega⟩

/-! ## outcome calculus: returns, or panics with the height diagnostic -/

/-- the site string of the height diagnostic (`AdjustHeightsHeap::set_height`) -/
def heightPanic : Panic := .site "height-limit"

/-- the run returns in a state satisfying `Q`, or panics with the height diagnostic in a state satisfying `P` -/
def Out {α} (x : M α) (s : State) (Q : α → State → Prop) (P : State → Prop) : Prop :=
  (∃ a s', x.run.run s = (.ok a, s') ∧ Q a s') ∨ (∃ s', x.run.run s = (.error heightPanic, s') ∧ P s')

section out
variable {α β : Type} {x : M α} {s : State} {Q : α → State → Prop} {P : State → Prop}

theorem Out.of_tot (T : Tot x s Q) : Out x s Q P := Or.inl T

theorem Out.of_ok {a : α} {s1 : State} (h : x.run.run s = (.ok a, s1)) (hq : Q a s1) : Out x s Q P :=
  Or.inl ⟨a, s1, h, hq⟩

theorem Out.of_err {s1 : State} (h : x.run.run s = (.error heightPanic, s1)) (hp : P s1) : Out x s Q P :=
  Or.inr ⟨s1, h, hp⟩

theorem Out.mono {Q' : α → State → Prop} {P' : State → Prop} (T : Out x s Q P)
    (hq : ∀ a t, Q a t → Q' a t) (hp : ∀ t, P t → P' t) : Out x s Q' P' := by
  rcases T with ⟨a, s1, h1, h2⟩ | ⟨s1, h1, h2⟩
  · exact Or.inl ⟨a, s1, h1, hq a s1 h2⟩
  · exact Or.inr ⟨s1, h1, hp s1 h2⟩

theorem run_bind_err {f : α → M β} {e : Panic} {s1 : State} (h : x.run.run s = (.error e, s1)) :
    (x >>= f).run.run s = (.error e, s1) := by
  rw [run_bind, h]

theorem Out.bind {f : α → M β} {Q' : β → State → Prop} (hx : Out x s Q P)
    (hf : ∀ a s1, x.run.run s = (.ok a, s1) → Q a s1 → Out (f a) s1 Q' P) : Out (x >>= f) s Q' P := by
  rcases hx with ⟨a, s1, h1, h2⟩ | ⟨s1, h1, h2⟩
  · rcases hf a s1 h1 h2 with ⟨b, s2, h3, h4⟩ | ⟨s2, h3, h4⟩
    · exact Or.inl ⟨b, s2, by rw [run_bind_ok h1]; exact h3, h4⟩
    · exact Or.inr ⟨s2, by rw [run_bind_ok h1]; exact h3, h4⟩
  · exact Or.inr ⟨s1, run_bind_err h1, h2⟩

/-- `bind` where the first part may panic in a state satisfying a different predicate -/
theorem Out.bind' {f : α → M β} {Q' : β → State → Prop} {P' : State → Prop} (hx : Out x s Q P')
    (hp : ∀ t, P' t → P t)
    (hf : ∀ a s1, x.run.run s = (.ok a, s1) → Q a s1 → Out (f a) s1 Q' P) : Out (x >>= f) s Q' P :=
  Out.bind (hx.mono (fun _ _ h => h) hp) hf

theorem Out.bind_ok {f : α → M β} {Q' : β → State → Prop} {a : α} {s1 : State}
    (h : x.run.run s = (.ok a, s1)) (T : Out (f a) s1 Q' P) : Out (x >>= f) s Q' P := by
  rcases T with ⟨b, s2, h3, h4⟩ | ⟨s2, h3, h4⟩
  · exact Or.inl ⟨b, s2, by rw [run_bind_ok h]; exact h3, h4⟩
  · exact Or.inr ⟨s2, by rw [run_bind_ok h]; exact h3, h4⟩

theorem Out.pure {a : α} (h : Q a s) : Out (pure a : M α) s Q P := Or.inl ⟨a, s, run_pure a s, h⟩

theorem Out.bind_get {f : State → M β} {Q' : β → State → Prop} (T : Out (f s) s Q' P) :
    Out ((MonadState.get : M State) >>= f) s Q' P := Out.bind_ok (run_get s) T

theorem Out.bind_modify {g : State → State} {f : Unit → M β} {Q' : β → State → Prop}
    (T : ∀ s1, s1 = g s → Out (f ()) s1 Q' P) : Out (modify g >>= f) s Q' P :=
  Out.bind_ok (run_modify g s) (T _ rfl)

theorem Out.bind_modNode {n : Nat} {g : Node → Node} {f : Unit → M β} {Q' : β → State → Prop}
    (T : ∀ s1, s1 = { s with nodes := s.nodes.modify n g } → Out (f ()) s1 Q' P) :
    Out (modNode n g >>= f) s Q' P :=
  Out.bind_ok (run_modNode n g s) (T _ rfl)

theorem Out.bind_dassert {c : Bool} {site : String} {f : Unit → M β} {Q' : β → State → Prop}
    (hc : s.cfg.debug = true → c = true) (T : Out (f ()) s Q' P) : Out (Engine.dassert c site >>= f) s Q' P :=
  Out.bind_ok (run_dassert_true s hc) T

theorem Out.bind_getNode {n : Nat} {f : Node → M β} {Q' : β → State → Prop} (hn : n < s.nodes.size)
    (T : Out (f (s.nodeD n)) s Q' P) : Out (Engine.getNode n >>= f) s Q' P :=
  Out.bind_ok (run_getNode_some (some_of_lt hn)) T

/-- an outcome whose panic branch is impossible is a return -/
theorem Out.tot (T : Out x s Q P) (h : ∀ t, P t → False) : Tot x s Q := by
  rcases T with T | ⟨s1, _, h2⟩
  · exact T
  · exact (h s1 h2).elim

/-- an outcome whose return branch is impossible is a panic -/
theorem Out.panics (T : Out x s Q P) (h : ∀ a t, Q a t → False) :
    ∃ s', x.run.run s = (.error heightPanic, s') ∧ P s' := by
  rcases T with ⟨a, s1, _, h2⟩ | T
  · exact (h a s1 h2).elim
  · exact T

end out

/-- loop rule: every iteration returns and yields, or panics -/
theorem forIn_out {α β} (f : α → β → M (ForInStep β)) (l : List α) (I : Nat → β → State → Prop)
    (P : State → Prop)
    (hstep : ∀ j a b t, l[j]? = some a → I j b t →
      Out (f a b) t (fun r t' => ∃ b', r = .yield b' ∧ I (j + 1) b' t') P)
    (b : β) (s : State) (h0 : I 0 b s) : Out (forIn l b f) s (fun b' s' => I l.length b' s') P := by
  suffices H : ∀ (rest : List α) (j : Nat) (b : β) (s : State), l.drop j = rest → j ≤ l.length → I j b s →
      Out (forIn rest b f) s (fun b' s' => I l.length b' s') P from
    H l 0 b s (by simp) (Nat.zero_le _) h0
  intro rest
  induction rest with
  | nil =>
    intro j b s hd hle hI
    have : l.length ≤ j := List.drop_eq_nil_iff.1 hd
    have hj : j = l.length := by omega
    rw [hj] at hI
    rw [List.forIn_nil]
    exact Out.pure hI
  | cons a rest ih =>
    intro j b s hd hle hI
    have hj : l[j]? = some a := by
      have := congrArg List.head? hd
      simpa [List.head?_drop] using this
    have hlt : j < l.length := by
      rcases Nat.lt_or_ge j l.length with hlt | hge
      · exact hlt
      · rw [List.getElem?_eq_none hge] at hj; cases hj
    have hd' : l.drop (j + 1) = rest := by
      have := congrArg List.tail hd
      simpa [List.tail_drop] using this
    rw [List.forIn_cons]
    refine Out.bind (hstep j a b s hj hI) ?_
    rintro r t1 - ⟨b1, rfl, hI1⟩
    exact ih (j + 1) b1 t1 hd' hlt hI1

end IncrVerif.Proofs.HeightH
