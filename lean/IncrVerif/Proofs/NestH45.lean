import IncrVerif.Proofs.NestH44
/-!
# Nested binds (F2), part 4c-2: an extension by pristine top-level nodes keeps the static facts `All2` (under the extended rank) and the structural
invariant at rest (`Struct2`)
-/
namespace IncrVerif.Proofs.NestH
open IncrVerif.Engine IncrVerif.Driver IncrVerif.Proofs IncrVerif.Proofs.Step IncrVerif.Proofs.Sched IncrVerif.Proofs.Quiet
open IncrVerif.Proofs.BindH

namespace N4c

/-- what has to be checked about the NEW nodes, records and the naming table (`rk'` = the extended rank) -/
structure NewOK2 (env : Env) (rk' : Nat → Nat) (s s1 : State) : Prop where
  node : ∀ n, s.nodes.size ≤ n → n < s1.nodes.size → N2 env rk' s1 [] n
  stale : ∀ n, s.nodes.size ≤ n → n < s1.nodes.size → s1.isStale n = true
  lcCut : ∀ n b, s.nodes.size ≤ n → (s1.nodeD n).kind = .bindLhsChange b → (s1.nodeD n).cutoff = .never
  /-- a new record: its two nodes are new (hence top-level and valid), it never ran, its closure is fine, its lhs is not a change detector -/
  bind : ∀ b br, s.binds.size ≤ b → s1.binds[b]? = some br →
    (br.main = br.lhsChange + 1 ∧ br.main < s1.nodes.size ∧ (s1.nodeD br.lhsChange).kind = .bindLhsChange b ∧
      (s1.nodeD br.main).kind = .bindMain b br.lhsChange ∧ s.nodes.size ≤ br.lhsChange) ∧
    br.allNodesCreatedOnRhs = [] ∧ br.rhs = none ∧ (∃ f, BodyOK2 env rk' s1 br.lhsChange f br.body) ∧
    ∀ b', (s1.nodeD br.lhs).kind ≠ .bindLhsChange b'
  vars : VarsOK s1
  top : ∃ r, s1.top = s.top.push r ∧ s.nodes.size ≤ r ∧ r < s1.nodes.size ∧
    ∀ b, (s1.nodeD r).kind ≠ .bindLhsChange b

section
variable {env : Env} {rk rk' : Nat → Nat} {s s1 : State}

/-- a scope node of `s1` and its bind record are old -/
theorem scope_old2 (E : C2c.Ext s s1) (A : All2 env rk s []) {n b : Nat} {br : BindRec}
    (hsc : (s1.nodeD n).createdIn = .bind b) (hb : s1.binds[b]? = some br) :
    n < s.nodes.size ∧ (s.nodeD n).createdIn = .bind b ∧ s.binds[b]? = some br ∧
      br.lhsChange < s.nodes.size ∧ br.main < s.nodes.size := by
  have hn := E.lt_of_scope hsc
  rw [E.old n hn] at hsc
  obtain ⟨br', hb', -⟩ := A.scope_bind hn hsc
  rw [E.bind_old hb'] at hb
  injection hb with hb
  rw [← hb]
  obtain ⟨h1, h2, -⟩ := A.recs b br' hb'
  exact ⟨hn, hsc, hb', by omega, h2⟩

/-- no node of `s1` lives in the scope of a NEW bind -/
theorem no_scope_new2 (E : C2c.Ext s s1) (A : All2 env rk s []) {m b : Nat} (hb : s.binds.size ≤ b)
    (h : (s1.nodeD m).createdIn = .bind b) : False := by
  have hm := E.lt_of_scope h
  rw [E.old m hm] at h
  obtain ⟨br, hbr, -⟩ := A.scope_bind hm h
  have := C2c.Ext.bind_lt hbr
  omega

theorem frag2 (E : C2c.Ext s s1) (A : All2 env rk s []) (U : RkUp rk rk' s.nodes.size) (H : NewOK2 env rk' s s1) :
    All2 env rk' s1 [] := by
  refine ⟨by rw [E.pc]; exact A.pc, by rw [E.scope]; exact A.scope, ?_, ?_, ?_, ?_, ?_, ?_, ?_, ?_, ?_⟩
  · intro n hn
    by_cases h : n < s.nodes.size
    · exact n2_old E A U.rkExt h
    · exact H.node n (by omega) hn
  · intro b br hb
    by_cases h : b < s.binds.size
    · rw [E.bold b h] at hb
      obtain ⟨h1, h2, h3, h4, h5⟩ := A.recs b br hb
      have := E.grow
      rw [E.old br.main h2, E.old br.lhsChange (by omega)]
      exact ⟨h1, by omega, h3, h4, h5⟩
    · obtain ⟨h1, h2, h3, h4, h5⟩ := (H.bind b br (by omega) hb).1
      refine ⟨h1, h2, h3, h4, ?_⟩
      rw [(E.new br.main (by omega)).createdIn, (E.new br.lhsChange h5).createdIn]
  · intro b br hb m
    by_cases h : b < s.binds.size
    · rw [E.bold b h] at hb
      have hg := A.gen b br hb m
      constructor
      · intro hm
        have hm' : m ∈ br.allNodesCreatedOnRhs ∨ (m ∈ ([] : List Nat) ∧ (s.nodeD m).createdIn = .bind b) := by
          rcases hm with hm | ⟨hm, -⟩
          · exact Or.inl hm
          · cases hm
        obtain ⟨h1, h2, h3⟩ := hg.1 hm'
        have := E.grow
        rw [E.old m h1]
        exact ⟨by omega, h2, h3⟩
      · rintro ⟨-, h2, h3⟩
        have hm := E.lt_of_scope h3
        rw [E.old m hm] at h2 h3
        rcases hg.2 ⟨hm, h2, h3⟩ with h | ⟨h, -⟩
        · exact Or.inl h
        · cases h
    · obtain ⟨-, hl, -, -⟩ := H.bind b br (by omega) hb
      rw [hl]
      constructor
      · rintro (hm | ⟨hm, -⟩) <;> cases hm
      · rintro ⟨-, -, h3⟩
        exact (no_scope_new2 E A (by omega) h3).elim
  · intro b br _ m _ hm; cases hm
  · intro m hm; cases hm
  · intro n b br _ hv hsc hb
    obtain ⟨hn, hsc', hb', hl, hm⟩ := scope_old2 E A hsc hb
    rw [E.old n hn] at hv
    rw [E.old _ hl, E.old _ hm]
    exact A.scopeValid n b br hn hv hsc' hb'
  · intro b br hb
    by_cases h : b < s.binds.size
    · rw [E.bold b h] at hb
      obtain ⟨h1, h2, -⟩ := A.recs b br hb
      rw [E.old br.main h2, E.old br.lhsChange (by omega)]
      exact A.recValid b br hb
    · obtain ⟨h1, h2, h3, h4, h5⟩ := (H.bind b br (by omega) hb).1
      rw [(E.new br.main (by omega)).valid, (E.new br.lhsChange h5).valid]
  · intro n b br _ hsc hb
    obtain ⟨hn, hsc', hb', hl, hm⟩ := scope_old2 E A hsc hb
    rw [U.old n hn, U.old _ hl, U.old _ hm]
    exact A.scopeRk n b br hn hsc' hb'
  · intro n m _ _ h
    exact U.inj A.rkInj n m h

/-- **the structural invariant at rest** survives an extension by pristine top-level nodes -/
theorem struct2 (E : C2c.Ext s s1) (I : Struct2 env rk s) (V : VarsOK s) (U : RkUp rk rk' s.nodes.size)
    (H : NewOK2 env rk' s s1) : Struct2 env rk' s1 := by
  have A := I.frag
  have wants_old : ∀ {p i}, p < s.nodes.size → (Wants s1 allClosed p i ↔ Wants s allClosed p i) := by
    intro p i hp
    rw [wants_closed rfl, wants_closed rfl, E.nec_old hp]
  have inRch_lt : ∀ {m}, (s1.nodeD m).inRch = true → m < s.nodes.size ∧ (s.nodeD m).inRch = true := by
    intro m hq
    have hlt := E.lt_of_inRch hq
    rw [E.old m hlt] at hq
    exact ⟨hlt, hq⟩
  refine
    { frag := frag2 E A U H
      par := ?_, conv := ?_, nodup := ?_, hlt := ?_, hpos := ?_
      lnec := fun p k ho => by cases ho
      unec := fun p k ho => by cases ho
      heap := ⟨E.heapWF I.heap.wf, ?_, by rw [E.rch]; exact I.heap.lb0⟩
      hgt := ?_, qnec := ?_, queued := ?_, qstale := ?_
      opLt := fun m ho => absurd rfl ho
      scopeH := ?_, inv := ?_, scopeObs := ?_, lcObs := ?_ }
  · intro c p i h
    have hc := E.lt_of_par h
    rw [E.old c hc] at h
    obtain ⟨h1, h2⟩ := I.par c p i h
    have hp := children_lt_size h1
    rw [children_old2 E A hp, wants_old hp]
    exact ⟨h1, h2⟩
  · intro p i c hkd hw
    have hp : p < s.nodes.size := E.lt_of_nec ((wants_closed rfl).1 hw)
    rw [children_old2 E A hp] at hkd
    rw [wants_old hp] at hw
    have hm := I.conv p i c hkd hw
    rw [E.old c (mem_parents_lt_size hm)]; exact hm
  · intro c
    by_cases h : c < s.nodes.size
    · rw [E.old c h]; exact I.nodup c
    · rw [(E.new c (by omega)).parents]; exact List.nodup_nil
  · intro c p i h ho
    have hc := E.lt_of_par h
    rw [E.old c hc] at h
    have hp := children_lt_size (I.par c p i h).1
    rw [E.old c hc, E.old p hp]
    exact I.hlt c p i h ho
  · intro n hn ho
    have h := E.lt_of_nec hn
    rw [E.nec_old h] at hn
    rw [E.old n h]; exact I.hpos n hn ho
  · intro m hq
    obtain ⟨hlt, hq'⟩ := inRch_lt hq
    rw [E.rch, E.old m hlt]; exact I.heap.lb m hq'
  · intro m hq ho
    obtain ⟨hlt, hq'⟩ := inRch_lt hq
    rw [E.old m hlt]; exact I.hgt m hq' ho
  · intro m hq
    obtain ⟨hlt, hq'⟩ := inRch_lt hq
    rw [E.nec_old hlt]; exact I.qnec m hq'
  · intro m ho hn hs hex
    have hlt := E.lt_of_nec hn
    rw [E.nec_old hlt] at hn
    rw [isStale_old2 E A V hlt] at hs
    rw [E.old m hlt]; exact I.queued m ho hn hs hex
  · intro m hq
    obtain ⟨hlt, hq'⟩ := inRch_lt hq
    rw [isStale_old2 E A V hlt]; exact I.qstale m hq'
  · intro n b br hv hsc hb hn ho
    obtain ⟨hlt, hsc', hb', hl, -⟩ := scope_old2 E A hsc hb
    rw [E.old n hlt] at hv ⊢
    rw [E.nec_old hlt] at hn
    rw [E.old br.lhsChange hl]
    exact I.scopeH n b br hv hsc' hb' hn ho
  · intro m hv
    have hlt := E.lt_of_invalid hv
    rw [E.old m hlt] at hv ⊢
    exact I.inv m hv
  · intro m b hsc
    have hlt := E.lt_of_scope hsc
    rw [E.old m hlt] at hsc ⊢
    exact I.scopeObs m b hsc
  · intro m b hk
    by_cases hlt : m < s.nodes.size
    · rw [E.old m hlt] at hk ⊢
      exact I.lcObs m b hk
    · exact (E.new m (by omega)).observers

end
end N4c
end IncrVerif.Proofs.NestH
