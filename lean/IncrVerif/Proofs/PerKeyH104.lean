import IncrVerif.Proofs.PerKeyH103
/-!
# The callback discipline `SlotInv` in the per-key fragment, part 4: node creation inside a run of a change detector (D)

`ExpertH.CFX σ σ'` (Proofs/ExpertH63): nodes and records only appended, a new expert node names a new record, a new record
has its flag up and neither dependencies nor slots.
* `cfx_slots_mid`: `SlotInv` along `CFX` from `Mid` of the twin; `cfx_slots_pf`: the same from `PFrag` and what the children
  of the records are (`hkids`).
* producers of `CFX`: `cfx_withInputNode` (the fresh per-key record `pk = some (op, some key)` with its node),
  `PresCF.elabTemplateBase_t` (the instance of a template of the fragment), `PresCF.tick`, `PresCF.logEv`,
  `cfx_of_nodes` (anything that keeps `nodes`, `experts`, `nextDep`: the `perkeys` bookkeeping).
-/
namespace IncrVerif.Proofs.PerKeyH
open IncrVerif.Engine IncrVerif.Driver IncrVerif.Proofs IncrVerif.Proofs.Step IncrVerif.Proofs.Sched
open IncrVerif.Proofs.ExpertH IncrVerif.Proofs.EffH IncrVerif.Proofs.Xp IncrVerif.Proofs.DriverH
open IncrVerif.Proofs.ExpertH.QR

/-! ## `SlotInv` along `CFX` -/

/-- **D3.** creation keeps the callback discipline (hypothesis: `Mid` of the twin of the state BEFORE) -/
theorem cfx_slots_mid {env : Env} {l : List Event} {σ σ' : State} (M : Mid (twEnv env) (twL l σ))
    (L : SlotInv env σ) (C : CFX σ σ') : SlotInv env σ' := by
  have F := M.frag
  obtain ⟨rk, S⟩ := M.st
  have R := rankOK_of_allStatic S.static
  refine CFX.slotInv L C (fun n e hk => ?_) (fun n e er hk he ed hed => ?_) (noMapRef_of_twin F)
  · have hkt := (twL_kind_expert l σ n e).2 hk
    obtain ⟨er', h, -⟩ := F.xrec n e (F.lt_of_expert hkt) hkt
    have := (Array.getElem?_eq_some_iff.1 h).1
    rwa [twL_experts_size] at this
  · have hkt := (twL_kind_expert l σ n e).2 hk
    have := R.kidsIn n (F.lt_of_expert hkt) ed.child (by
      rw [hkt]
      simp only [kidsX, xRec_some (tw_rec_get (l := l) he), twRec_children]
      exact List.mem_map_of_mem hed)
    rwa [twL_size] at this

/-- the same from the fragment of the actual state -/
theorem cfx_slots_pf {env : Env} {σ σ' : State} (F : PFrag env σ)
    (hkids : ∀ n e er, (σ.nodeD n).kind = .expert e → σ.experts[e]? = some er →
      ∀ ed, ed ∈ er.children → ed.child < σ.nodes.size)
    (L : SlotInv env σ) (C : CFX σ σ') : SlotInv env σ' := by
  refine CFX.slotInv L C (fun n e hk => ?_) hkids F.sl_noMapRef
  obtain ⟨er, h, -⟩ := F.xrec n e (lt_of_expert hk) hk
  exact (Array.getElem?_eq_some_iff.1 h).1

/-! ## producers of `CFX` -/

theorem cfx_of_nodes {s s' : State} (h1 : s'.nodes = s.nodes) (h2 : s'.experts = s.experts)
    (h3 : s'.nextDep = s.nextDep) : CFX s s' := CFX.of_nodes h1 h2 h3

/-- the first three actions of a new key: the per-key record is pushed, its node created, the record names the node -/
theorem cfx_withInputNode (op : Nat) (key : Int) (sc : Scope) (s : State) : CFX s (PKL.withInputNode op key sc s) := by
  have hN := PKL.withInputNode_nodes op key sc s
  have hX := PKL.withInputNode_experts op key sc s
  have hsz : (PKL.withInputNode op key sc s).nodes.size = s.nodes.size + 1 := by rw [hN]; simp
  refine ⟨by rw [hsz]; omega, fun m hm => ?_, fun m e hm hk => ?_, by rw [hX]; simp, fun e he => ?_,
    fun e er he h => ?_, ?_⟩
  · simp only [State.nodeD, hN, Array.getElem?_push, if_neg (Nat.ne_of_lt hm)]
  · by_cases hm' : m = s.nodes.size
    · have : (PKL.withInputNode op key sc s).nodeD m = { kind := .expert s.experts.size, createdIn := sc } := by
        simp only [State.nodeD, hN, Array.getElem?_push, hm', if_true, Option.getD_some]
      rw [this] at hk
      cases hk; exact Nat.le_refl _
    · have : (PKL.withInputNode op key sc s).nodeD m = default := by
        apply nodeD_default_of_ge; rw [hsz]; omega
      rw [this] at hk; cases hk
  · simp only [hX, Array.getElem?_push, if_neg (Nat.ne_of_lt he)]
  · simp only [hX, Array.getElem?_push] at h
    split at h
    · cases h; exact ⟨rfl, rfl, rfl⟩
    · have := (Array.getElem?_eq_some_iff.1 h).1; omega
  · simp [PKL.withInputNode]

theorem PresCF.tick : Step.Pres CFX Engine.tick := by unfold Engine.tick; qpres
theorem PresCF.logEv (e : Event) : Step.Pres CFX (Engine.logEv e) := by unfold Engine.logEv; qpres

/-- one instruction of a template of the fragment creates a static node -/
theorem PresCF.elabInstr_t {env : Env} {i : Instr} (hi : TInstrOK env i) (loc : List Nat) (lhsVal : Val) :
    Step.Pres CFX (Engine.elabInstr loc lhsVal i) := by
  unfold Engine.elabInstr
  cases i <;> first | exact hi.elim | (dsimp only; qpres; done)

/-- the instance of a template of the fragment -/
theorem PresCF.elabTemplateBase_t {env : Env} {t : Template} (ht : ∀ i, i ∈ t.instrs → TInstrOK env i)
    (lhsVal : Val) (init : List Nat) : Step.Pres CFX (Engine.elabTemplateBase t lhsVal init) := by
  unfold Engine.elabTemplateBase
  refine Step.Pres.bind (PKL.forIn_mem _ _ _ fun i hi b => ?_) fun _ => ?_
  · have := PresCF.elabInstr_t (ht i hi) b lhsVal
    qpres
    exact this
  · qpres

/-- a successful instance of a template keeps the callback discipline -/
theorem elabTemplateBase_slots {env : Env} {l : List Event} {σ σ' : State} {t : Template} {lhsVal : Val}
    {init : List Nat} {r : Except Panic Nat} (M : Mid (twEnv env) (twL l σ)) (L : SlotInv env σ)
    (ht : ∀ i, i ∈ t.instrs → TInstrOK env i)
    (h : (elabTemplateBase t lhsVal init).run.run σ = (r, σ')) : SlotInv env σ' :=
  cfx_slots_mid M L ((PresCF.elabTemplateBase_t ht lhsVal init).h _ _ _ h)

end IncrVerif.Proofs.PerKeyH
