import IncrVerif.Proofs.NestH75
import IncrVerif.Spec.Denote
/-!
# Nested binds (F2), part 7a: the TEXT-LEVEL reference semantics `Spec.denoteTop` — unfolding lemmas, monotonicity in the fuel; `ProgOK`

`Spec.denoteTop p f j` (IncrVerif/Spec/Denote.lean) looks only at the program text `p : Spec.RefProg` (creation instructions, variable values).  `den2 env s k n` (N5a)
evaluates top-level NODES of the state through their kinds and closures through their templates.  `ProgOK p env s` says that the top-level nodes of `s` are the images of
the instructions of `p` (operands resolved through the naming table `s.top`); N7b proves that the two semantics then agree.
-/
namespace IncrVerif.Proofs.NestH
open IncrVerif.Engine IncrVerif.Driver IncrVerif.Proofs IncrVerif.Proofs.Step IncrVerif.Proofs.Sched IncrVerif.Proofs.Quiet
open IncrVerif.Proofs.BindH
open IncrVerif.Spec

namespace N7
open IncrVerif.Proofs.BindH.C3d

/-! ## unfolding the mutual definitions -/

/-- one step of the fold of `denoteTemplateWith` -/
def stepD (p : RefProg) (f : Nat) (lv : Val) (acc : List (Option Val)) (i : Instr) : List (Option Val) :=
  match i with
  | .cutoff _ _ | .publish _ _ => acc
  | _ => acc ++ [denoteInstr p f acc lv i]

theorem templWith_succ (p : RefProg) (f : Nat) (t : Template) (lv : Val) (init : List (Option Val)) :
    denoteTemplateWith p (f+1) t lv init = denoteOpnd p f (t.instrs.foldl (stepD p f lv) init) t.ret := by
  rw [denoteTemplateWith]
  rfl

theorem templ_succ (p : RefProg) (f : Nat) (t : Template) (lv : Val) :
    denoteTemplate p (f+1) t lv = denoteTemplateWith p f t lv [] := by
  rw [denoteTemplate]

theorem opnd_outer (p : RefProg) (f : Nat) (loc : List (Option Val)) (k : Nat) :
    denoteOpnd p (f+1) loc (.outer k) = denoteTop p f k := by
  rw [denoteOpnd]

theorem opnd_loc (p : RefProg) (f : Nat) (loc : List (Option Val)) (j : Nat) :
    denoteOpnd p (f+1) loc (.loc j) = (loc[j]?).join := by
  rw [denoteOpnd]

theorem opnd_abs (p : RefProg) (f : Nat) (loc : List (Option Val)) (j : Nat) :
    denoteOpnd p f loc (.abs j) = none := by
  cases f <;> rw [denoteOpnd]

theorem opnd_slot (p : RefProg) (f : Nat) (loc : List (Option Val)) (j : Nat) :
    denoteOpnd p f loc (.slot j) = none := by
  cases f <;> rw [denoteOpnd]

theorem top_none (p : RefProg) (f k : Nat) (h : p.nodes[k]? = none) : denoteTop p f k = none := by
  cases f <;> rw [denoteTop]
  rw [h]

theorem top_var (p : RefProg) (f k : Nat) (v : Val) (h : p.nodes[k]? = some (.var v)) :
    denoteTop p (f+1) k = (p.varOf.lookup k).bind fun c => p.vars[c]? := by
  rw [denoteTop, h]

theorem top_instr (p : RefProg) (f k : Nat) (i : Instr) (h : p.nodes[k]? = some i) (hv : ∀ v, i ≠ .var v) :
    denoteTop p (f+1) k = denoteInstr p f [] .unit i := by
  rw [denoteTop, h]
  cases i <;> first | rfl | exact absurd rfl (hv _)

theorem stepD_eq (p : RefProg) (f : Nat) (lv : Val) (acc : List (Option Val)) (i : Instr)
    (h1 : ∀ n c, i ≠ .cutoff n c) (h2 : ∀ k o, i ≠ .publish k o) :
    stepD p f lv acc i = acc ++ [denoteInstr p f acc lv i] := by
  cases i <;> first | rfl | exact absurd rfl (h1 _ _) | exact absurd rfl (h2 _ _)

theorem instr_map (p : RefProg) (f : Nat) (loc : List (Option Val)) (lv : Val) (g : Nat) (args : List Opnd) :
    denoteInstr p (f+1) loc lv (.map g args) = (args.mapM (denoteOpnd p f loc)).map (p.env.fn g) := by
  rw [denoteInstr]
  cases args.mapM (denoteOpnd p f loc) <;> rfl

theorem instr_fold (p : RefProg) (f : Nat) (loc : List (Option Val)) (lv : Val) (g : Nat) (init : Val) (cs : List Opnd) :
    denoteInstr p (f+1) loc lv (.fold g init cs) =
      (cs.mapM (denoteOpnd p f loc)).map (List.foldl (p.env.foldStep g) init) := by
  rw [denoteInstr]
  cases cs.mapM (denoteOpnd p f loc) <;> rfl

theorem instr_const (p : RefProg) (f : Nat) (loc : List (Option Val)) (lv v : Val) :
    denoteInstr p (f+1) loc lv (.const v) = some v := by
  rw [denoteInstr]

theorem instr_lhsConst (p : RefProg) (f : Nat) (loc : List (Option Val)) (lv : Val) :
    denoteInstr p (f+1) loc lv .lhsConst = some lv := by
  rw [denoteInstr]

theorem instr_bind (p : RefProg) (f : Nat) (loc : List (Option Val)) (lv : Val) (body : Nat) (o : Opnd) :
    denoteInstr p (f+1) loc lv (.bind body o) =
      (denoteOpnd p f loc o).bind fun x => denoteTemplate p f (p.env.body body x) x := by
  rw [denoteInstr]
  rfl

theorem instr_zip (p : RefProg) (f : Nat) (loc : List (Option Val)) (lv : Val) (a b : Opnd) :
    denoteInstr p (f+1) loc lv (.zip a b) =
      (denoteOpnd p f loc a).bind fun va => (denoteOpnd p f loc b).bind fun vb => some (.pair va vb) := by
  rw [denoteInstr]
  rfl

/-! ## monotonicity in the fuel -/

theorem mapM_mono {α : Type} (g g' : α → Option Val) :
    ∀ (l : List α), (∀ a, a ∈ l → ∀ w, g a = some w → g' a = some w) →
    ∀ ws, l.mapM g = some ws → l.mapM g' = some ws := by
  intro l
  induction l with
  | nil => intro _ ws e; simpa using e
  | cons a as ih =>
    intro h ws e
    rw [List.mapM_cons] at e ⊢
    cases h1 : g a with
    | none => rw [h1] at e; cases e
    | some w =>
      cases h2 : as.mapM g with
      | none => rw [h1, h2] at e; cases e
      | some vs =>
        rw [h1, h2] at e
        rw [h a (List.mem_cons_self ..) w h1, ih (fun b hb => h b (List.mem_cons_of_mem _ hb)) vs h2]
        exact e

theorem instr_mono (p : RefProg) (f f' : Nat) (loc loc' : List (Option Val)) (lv : Val) (i : Instr) (w : Val)
    (hO : ∀ o w, denoteOpnd p f loc o = some w → denoteOpnd p f' loc' o = some w)
    (hT : ∀ t lv w, denoteTemplate p f t lv = some w → denoteTemplate p f' t lv = some w)
    (e : denoteInstr p (f+1) loc lv i = some w) : denoteInstr p (f'+1) loc' lv i = some w := by
  cases i <;> rw [denoteInstr] at e ⊢ <;> try (first | exact e | cases e)
  · rename_i g args
    cases h1 : List.mapM (denoteOpnd p f loc) args with
    | none => rw [h1] at e; cases e
    | some vs =>
      rw [h1] at e
      rw [mapM_mono _ _ args (fun a _ w hw => hO a w hw) vs h1]
      exact e
  · rename_i g init args
    cases h1 : List.mapM (denoteOpnd p f loc) args with
    | none => rw [h1] at e; cases e
    | some vs =>
      rw [h1] at e
      rw [mapM_mono _ _ args (fun a _ w hw => hO a w hw) vs h1]
      exact e
  · rename_i pr o
    cases h1 : denoteOpnd p f loc o with
    | none => rw [h1] at e; cases e
    | some x => rw [h1] at e; rw [hO o x h1]; exact e
  · rename_i g o
    split at e
    · rename_i hg; rw [if_pos hg]; exact hO o w e
    · cases e
  · rename_i body o
    cases h1 : denoteOpnd p f loc o with
    | none => rw [h1] at e; cases e
    | some x => rw [h1] at e; rw [hO o x h1]; exact hT _ _ _ e
  · rename_i a b
    cases h1 : denoteOpnd p f loc a with
    | none => rw [h1] at e; cases e
    | some x =>
      cases h2 : denoteOpnd p f loc b with
      | none => rw [h1, h2] at e; cases e
      | some y => rw [h1, h2] at e; rw [hO a x h1, hO b y h2]; exact e
  · rename_i a b
    cases h1 : denoteOpnd p f loc a with
    | none => rw [h1] at e; cases e
    | some x =>
      cases h2 : denoteOpnd p f loc b with
      | none => rw [h1, h2] at e; cases e
      | some y => rw [h1, h2] at e; rw [hO a x h1, hO b y h2]; exact e

/-- all five functions of the `denote*` family know at fuel `f'` what they know at fuel `f` -/
structure DMono (p : RefProg) (f f' : Nat) : Prop where
  opnd : ∀ loc loc' o w, LeVals loc loc' → denoteOpnd p f loc o = some w → denoteOpnd p f' loc' o = some w
  top : ∀ k w, denoteTop p f k = some w → denoteTop p f' k = some w
  instr : ∀ loc loc' lv i w, LeVals loc loc' → denoteInstr p f loc lv i = some w → denoteInstr p f' loc' lv i = some w
  templ : ∀ t lv w, denoteTemplate p f t lv = some w → denoteTemplate p f' t lv = some w
  templW : ∀ t lv init init' w, LeVals init init' → denoteTemplateWith p f t lv init = some w →
    denoteTemplateWith p f' t lv init' = some w

theorem fold_mono (p : RefProg) (f f' : Nat) (lv : Val)
    (hI : ∀ loc loc' lv i w, LeVals loc loc' → denoteInstr p f loc lv i = some w → denoteInstr p f' loc' lv i = some w) :
    ∀ (is : List Instr) (L L' : List (Option Val)), LeVals L L' →
      LeVals (is.foldl (stepD p f lv) L) (is.foldl (stepD p f' lv) L') := by
  intro is
  induction is with
  | nil => intro L L' h; exact h
  | cons i is ih =>
    intro L L' h
    simp only [List.foldl_cons]
    apply ih
    by_cases h1 : ∃ n c, i = .cutoff n c
    · obtain ⟨n, c, rfl⟩ := h1; exact h
    · by_cases h2 : ∃ k o, i = .publish k o
      · obtain ⟨k, o, rfl⟩ := h2; exact h
      · rw [stepD_eq p f lv L i (fun n c e => h1 ⟨n, c, e⟩) (fun k o e => h2 ⟨k, o, e⟩),
          stepD_eq p f' lv L' i (fun n c e => h1 ⟨n, c, e⟩) (fun k o e => h2 ⟨k, o, e⟩)]
        exact h.snoc (fun w hw => hI L L' lv i w h hw)

theorem dmono (p : RefProg) : ∀ (f f' : Nat), f ≤ f' → DMono p f f' := by
  intro f
  induction f with
  | zero =>
    intro f' _
    refine ⟨?_, ?_, ?_, ?_, ?_⟩
    · intro loc loc' o w _ e; rw [denoteOpnd] at e; cases e
    · intro k w e; rw [denoteTop] at e; cases e
    · intro loc loc' lv i w _ e; rw [denoteInstr] at e; cases e
    · intro t lv w e; rw [denoteTemplate] at e; cases e
    · intro t lv init init' w _ e; rw [denoteTemplateWith] at e; cases e
  | succ f ih =>
    intro f' hf
    cases f' with
    | zero => omega
    | succ f' =>
      have IH := ih f' (by omega)
      refine ⟨?_, ?_, ?_, ?_, ?_⟩
      · intro loc loc' o w hL e
        cases o with
        | outer k => rw [opnd_outer] at e ⊢; exact IH.top k w e
        | loc j => rw [opnd_loc] at e ⊢; exact hL.2 j w e
        | abs j => rw [opnd_abs] at e; cases e
        | slot j => rw [opnd_slot] at e; cases e
      · intro k w e
        cases hn : p.nodes[k]? with
        | none => rw [top_none p _ k hn] at e; cases e
        | some i =>
          by_cases hv : ∃ v, i = .var v
          · obtain ⟨v, rfl⟩ := hv
            rw [top_var p _ k v hn] at e ⊢; exact e
          · have hv' : ∀ v, i ≠ .var v := fun v e => hv ⟨v, e⟩
            rw [top_instr p _ k i hn hv'] at e ⊢
            exact IH.instr _ _ _ _ _ (LeVals.refl []) e
      · intro loc loc' lv i w hL e
        exact instr_mono p f f' loc loc' lv i w (fun o w h => IH.opnd _ _ o w hL h) IH.templ e
      · intro t lv w e
        rw [templ_succ] at e ⊢
        exact IH.templW t lv [] [] w (LeVals.refl []) e
      · intro t lv init init' w hL e
        rw [templWith_succ] at e ⊢
        exact IH.opnd _ _ _ _ (fold_mono p f f' lv IH.instr t.instrs init init' hL) e

end N7

/-- **the text-level semantics is monotone in the fuel** -/
theorem denoteTop_mono {p : RefProg} {f j : Nat} {w : Val} (h : denoteTop p f j = some w) (f' : Nat) (hf : f ≤ f') :
    denoteTop p f' j = some w :=
  (N7.dmono p f f' hf).top j w h

theorem denoteTemplate_mono {p : RefProg} {f : Nat} {t : Template} {lv w : Val} (h : denoteTemplate p f t lv = some w)
    (f' : Nat) (hf : f ≤ f') : denoteTemplate p f' t lv = some w :=
  (N7.dmono p f f' hf).templ t lv w h

/-! ## the program text and the state -/

/-- the zip function of the environment builds pairs (true of `Defs.toEnv`) -/
def ZipPair (env : Env) : Prop := ∀ a b : Val, env.fn fnZip [a, b] = .pair a b

theorem zipPair_toEnv (d : Defs) : ZipPair d.toEnv := by
  intro a b
  simp [Defs.toEnv]

/-- instructions of closures for which the two semantics are compared: those of fragment F2, whatever their operands -/
def InstrD (P : Nat → Prop) : Instr → Prop
  | .const _ => True
  | .lhsConst => True
  | .map _ _ => True
  | .fold _ _ _ => True
  | .bind b _ => P b
  | _ => False

/-- closures all of whose templates consist of such instructions, nested closures likewise (fuel `g` bounds the nesting) -/
def BodyD (env : Env) : Nat → Nat → Prop
  | 0, _ => False
  | g+1, body => ∀ (v : Val) (i : Instr), i ∈ (env.body body v).instrs → InstrD (BodyD env g) i

theorem bodyD_of_F2 (env : Env) (T : Nat) : ∀ (g body : Nat), BodyF2 env T g body → BodyD env g body := by
  intro g
  induction g with
  | zero => intro body h; exact h.elim
  | succ g ih =>
    intro body h v i hi
    obtain ⟨j, hj⟩ := List.getElem?_of_mem hi
    have := (h v).1 j i hj
    cases i <;> first | trivial | exact this.elim | skip
    exact ih _ this.1

/-- node `n = top[j]` is the image of the top-level creation instruction `i` (operands resolved through the naming table) -/
def TopImg (p : RefProg) (s : State) (j : Nat) (i : Instr) (n : Nat) : Prop :=
  match i with
  | .var _ => ∃ c, (s.nodeD n).kind = .var c ∧ p.varOf.lookup j = some c
  | .zip a b => ∃ ka kb na nb, a = .outer ka ∧ b = .outer kb ∧ ka < j ∧ kb < j ∧ s.top[ka]? = some na ∧ s.top[kb]? = some nb ∧
      ((s.nodeD n).kind = .map fnZip [na, nb] ∨
        ∃ va vb, (s.nodeD na).kind = .const va ∧ (s.nodeD nb).kind = .const vb ∧ (s.nodeD n).kind = .const (.pair va vb))
  | .bind body lhs => ∃ k b lc br, lhs = .outer k ∧ (s.nodeD n).kind = .bindMain b lc ∧ s.binds[b]? = some br ∧
      br.body = body ∧ s.top[k]? = some br.lhs ∧ ∃ g, BodyD p.env g body
  | i => i ≠ .lhsConst ∧ kindOfInstr s [] .unit i = some (s.nodeD n).kind

/-- **the program text describes the state**: the top-level nodes of `s` (named by `s.top`) are the images of the creation instructions `p.nodes`, and the variables
have the values the text says -/
structure ProgOK (p : RefProg) (env : Env) (s : State) : Prop where
  env : p.env = env
  size : p.nodes.size = s.top.size
  vars : ∀ c : Nat, p.vars[c]? = (s.vars[c]?).map VarCell.value
  img : ∀ j i n, p.nodes[j]? = some i → s.top[j]? = some n → TopImg p s j i n

end IncrVerif.Proofs.NestH
