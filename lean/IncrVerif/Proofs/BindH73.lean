import IncrVerif.Proofs.BindH61
import IncrVerif.Proofs.BindH38
/-!
# Binds, the run of a change detector in fragment F1, part 1: the run skeleton, node keys, and phase 0

* `CC.lc_run_inv`: from `(recomputeOne env fuel n).run.run s = (.ok r, s')` on a `bindLhsChange b` node: the four runs
  (closure, relink, invalidate, last step) and the three intermediate states;
* `CC.NKey`: what `Quiet.nodeKey` says, field by field;
* `CC.all1_congr`: `All1` only reads kinds, validity, cutoffs, scopes, the bind table, the node count;
* `CC.ginv1_restamp`: the structural invariant when one node (not queued) is re-stamped;
* `CC.Pre`, `CC.lc_pre`: everything known about the state `started n s` in which the closure run starts.
-/
namespace IncrVerif.Proofs.BindH
open IncrVerif.Engine IncrVerif.Proofs IncrVerif.Proofs.Step IncrVerif.Proofs.Sched IncrVerif.Proofs.Quiet
namespace CC

/-! ## the skeleton of the run -/

/-- **the skeleton of the run of a change detector**: four phases, three intermediate states -/
theorem lc_run_inv {env : Env} {fuel n b : Nat} {br : BindRec} {s s' : State} {r : Option Nat}
    (hlt : n < s.nodes.size) (hv : (s.nodeD n).valid = true) (hk : (s.nodeD n).kind = .bindLhsChange b)
    (hb : s.binds[b]? = some br)
    (h : (recomputeOne env fuel n).run.run s = (.ok r, s')) :
    ∃ rhs s1 s2 s3, (Inval.lhsRunClosure env n b br).run.run (started n s) = (.ok rhs, s1) ∧
      (Inval.lhsRelink env fuel n b br s.stabNum rhs).run.run s1 = (.ok (), s2) ∧
      (Inval.lhsInvalidateOld fuel br).run.run s2 = (.ok (), s3) ∧
      (maybeChangeValue env fuel n .unit).run.run s3 = (.ok r, s') := by
  rw [Inval.recomputeOne_bindLhsChange_run env fuel n s _ b br (some_of_lt hlt) hv hk hb] at h
  obtain ⟨rhs, t1, h1, ha⟩ := bind_ok_inv h
  obtain ⟨u2, t2, h2, hb'⟩ := bind_ok_inv ha
  obtain ⟨u3, t3, h3, hc⟩ := bind_ok_inv hb'
  exact ⟨rhs, t1, t2, t3, h1, h2, h3, BC.lhsFinish_inv hc⟩

/-! ## node keys -/

/-- node `b` agrees with node `a` on everything in `Quiet.nodeKey` -/
structure NKey (a b : Node) : Prop where
  kind : b.kind = a.kind
  createdIn : b.createdIn = a.createdIn
  cutoff : b.cutoff = a.cutoff
  value : b.value = a.value
  valid : b.valid = a.valid
  recomputedAt : b.recomputedAt = a.recomputedAt
  changedAt : b.changedAt = a.changedAt
  observers : b.observers = a.observers
  forceNecessary : b.forceNecessary = a.forceNecessary
  num : b.numOnUpdateHandlers = a.numOnUpdateHandlers

theorem NKey.of_key {a b : Node} (h : Quiet.nodeKey b = Quiet.nodeKey a) : NKey a b := by
  simp only [Quiet.nodeKey, Prod.mk.injEq] at h
  exact ⟨h.1, h.2.1, h.2.2.1, h.2.2.2.1, h.2.2.2.2.1, h.2.2.2.2.2.1, h.2.2.2.2.2.2.1, h.2.2.2.2.2.2.2.1,
    h.2.2.2.2.2.2.2.2.1, h.2.2.2.2.2.2.2.2.2⟩

theorem NKey.refl (a : Node) : NKey a a := ⟨rfl, rfl, rfl, rfl, rfl, rfl, rfl, rfl, rfl, rfl⟩

theorem NKey.of_eq {a b : Node} (h : b = a) : NKey a b := by rw [h]; exact NKey.refl a

theorem NKey.trans {a b c : Node} (h1 : NKey a b) (h2 : NKey b c) : NKey a c :=
  ⟨h2.kind.trans h1.kind, h2.createdIn.trans h1.createdIn, h2.cutoff.trans h1.cutoff, h2.value.trans h1.value,
    h2.valid.trans h1.valid, h2.recomputedAt.trans h1.recomputedAt, h2.changedAt.trans h1.changedAt,
    h2.observers.trans h1.observers, h2.forceNecessary.trans h1.forceNecessary, h2.num.trans h1.num⟩

/-! ## `All1` is a property of the keys -/

/-- `All1` only reads kinds, validity, cutoffs, scopes, the bind table, the node count -/
theorem all1_congr {env : Env} {s s' : State} {dy : List Nat} (A : All1 env s dy)
    (hsz : s'.nodes.size = s.nodes.size) (hb : s'.binds = s.binds)
    (eK : ∀ m, (s'.nodeD m).kind = (s.nodeD m).kind) (eV : ∀ m, (s'.nodeD m).valid = (s.nodeD m).valid)
    (eCut : ∀ m, (s'.nodeD m).cutoff = (s.nodeD m).cutoff)
    (eC : ∀ m, (s'.nodeD m).createdIn = (s.nodeD m).createdIn)
    (hpc : s'.panicCountdown = none) (hsc : s'.currentScope = .top) : All1 env s' dy := by
  have hch : ∀ m, s'.children m = s.children m := fun m => by
    by_cases hm : m < s.nodes.size
    · exact children_congr_B (eK m) (eV m) hb (A.node m hm).kind
    · rw [children_default s m (by omega), children_default s' m (by rw [hsz]; omega)]
  refine ⟨hpc, hsc, fun n hn => ?_, ?_, ?_, ?_, ?_⟩
  · have sn := A.node n (by rw [← hsz]; exact hn)
    refine ⟨by rw [eK]; exact sn.kind, by rw [eCut]; exact sn.cutoff, ?_, ?_, ?_, ?_, ?_, ?_, ?_⟩
    · rw [hch, hsz]; exact sn.kidsIn
    · intro c hc; rw [hch] at hc; rw [eV]; exact sn.kidsValid c hc
    · rw [eK, hb]; exact sn.lcRec
    · rw [eK, hb]; exact sn.mainRec
    · intro c b hc hk
      rw [hch] at hc
      rw [eK] at hk ⊢
      exact sn.lcChild c b hc hk
    · intro h
      rw [eC] at h
      obtain ⟨h1, h2⟩ := sn.top h
      refine ⟨by rw [eV]; exact h1, ?_⟩
      intro c hc
      rw [hch] at hc
      rw [eC, eK]
      exact h2 c hc
    · intro b h
      rw [eC] at h
      obtain ⟨h1, h2, br, h3, h4, h5⟩ := sn.inScope b h
      refine ⟨by rw [eK]; exact h1, by rw [eK]; exact h2, br, by rw [hb]; exact h3, h4, ?_⟩
      intro c hc
      rw [hch] at hc
      rw [eC]
      exact h5 c hc
  · intro b br hbr
    rw [hb] at hbr
    rw [hsz, eK, eK, eC, eC]
    exact A.recs b br hbr
  · intro b br hbr m
    rw [hb] at hbr
    rw [hsz, eV, eC]
    exact A.gen b br hbr m
  · intro b br hbr
    rw [hb] at hbr
    exact A.genDy b br hbr
  · intro m hm
    rw [hsz, eC]
    exact A.dyIn m hm

/-! ## phase 0: the running node is stamped -/

theorem started_other {n : Nat} (s : State) {m : Nat} (h : m ≠ n) : (started n s).nodeD m = s.nodeD m := by
  rw [started_nodeD, if_neg (fun e => h e.1.symm)]

theorem started_self {n : Nat} {s : State} (h : n < s.nodes.size) :
    (started n s).nodeD n = { s.nodeD n with recomputedAt := s.stabNum } := by
  rw [started_nodeD, if_pos ⟨rfl, h⟩]

theorem started_size (n : Nat) (s : State) : (started n s).nodes.size = s.nodes.size := by
  simp [started]

/-- every node of `started n s` is the node of `s` up to its stamp -/
theorem started_upto (n : Nat) (s : State) (m : Nat) :
    ∃ y, (started n s).nodeD m = { s.nodeD m with recomputedAt := y } := by
  rw [started_nodeD]
  split
  · exact ⟨_, rfl⟩
  · exact ⟨(s.nodeD m).recomputedAt, rfl⟩

theorem ahhEmpty_started {n : Nat} {s : State} (h : AhhEmpty s) : AhhEmpty (started n s) := by
  refine ⟨h.length, h.buckets, fun m => ?_⟩
  obtain ⟨y, e⟩ := started_upto n s m
  rw [e]; exact h.marks m

/-- the structural invariant when one node (not queued) is re-stamped: only `queued` and `qstale` have to be
re-established -/
theorem ginv1_restamp {env : Env} {s s1 : State} {n : Nat} {ex ex' : Nat → Prop} {dy : List Nat}
    (G : GInv1 env s allClosed ex dy)
    (hpc : s1.panicCountdown = s.panicCountdown) (hsc : s1.currentScope = s.currentScope)
    (hsz : s1.nodes.size = s.nodes.size) (hrch : s1.rch = s.rch) (hvars : s1.vars = s.vars)
    (hbinds : s1.binds = s.binds)
    (hnd : ∀ m, ∃ y, s1.nodeD m = { s.nodeD m with recomputedAt := y })
    (hother : ∀ m, m ≠ n → s1.nodeD m = s.nodeD m)
    (hnq : (s.nodeD n).inRch = false) (hfresh : s1.isStale n = false)
    (hq : ∀ m, m ≠ n → s.isNecessary m = true → s.isStale m = true → ¬ ex' m → (s.nodeD m).inRch = true) :
    GInv1 env s1 allClosed ex' dy := by
  have hkind : ∀ m, (s1.nodeD m).kind = (s.nodeD m).kind := fun m => by
    obtain ⟨y, e⟩ := hnd m; rw [e]
  have hvalid : ∀ m, (s1.nodeD m).valid = (s.nodeD m).valid := fun m => by
    obtain ⟨y, e⟩ := hnd m; rw [e]
  have hcutoff : ∀ m, (s1.nodeD m).cutoff = (s.nodeD m).cutoff := fun m => by
    obtain ⟨y, e⟩ := hnd m; rw [e]
  have hcreated : ∀ m, (s1.nodeD m).createdIn = (s.nodeD m).createdIn := fun m => by
    obtain ⟨y, e⟩ := hnd m; rw [e]
  have hparents : ∀ m, (s1.nodeD m).parents = (s.nodeD m).parents := fun m => by
    obtain ⟨y, e⟩ := hnd m; rw [e]
  have hobs : ∀ m, (s1.nodeD m).observers = (s.nodeD m).observers := fun m => by
    obtain ⟨y, e⟩ := hnd m; rw [e]
  have hforce : ∀ m, (s1.nodeD m).forceNecessary = (s.nodeD m).forceNecessary := fun m => by
    obtain ⟨y, e⟩ := hnd m; rw [e]
  have hheight : ∀ m, (s1.nodeD m).height = (s.nodeD m).height := fun m => by
    obtain ⟨y, e⟩ := hnd m; rw [e]
  have hhrch : ∀ m, (s1.nodeD m).heightInRch = (s.nodeD m).heightInRch := fun m => by
    obtain ⟨y, e⟩ := hnd m; rw [e]
  have hchg : ∀ m, (s1.nodeD m).changedAt = (s.nodeD m).changedAt := fun m => by
    obtain ⟨y, e⟩ := hnd m; rw [e]
  have hinr : ∀ m, (s1.nodeD m).inRch = (s.nodeD m).inRch := fun m => by
    unfold Node.inRch; rw [hhrch m]
  have hnec : ∀ m, s1.isNecessary m = s.isNecessary m := fun m => by
    unfold State.isNecessary Node.isNecessary; rw [hparents, hobs, hforce]
  have hch : ∀ m, s1.children m = s.children m := fun m => by
    by_cases hm : m < s.nodes.size
    · exact children_congr_B (hkind m) (hvalid m) hbinds (G.frag.node m hm).kind
    · rw [children_default s m (by omega), children_default s1 m (by rw [hsz]; omega)]
  have hst : ∀ m, m ≠ n → s1.isStale m = s.isStale m := fun m e => by
    by_cases hm : m < s.nodes.size
    · exact isStale_congr_B (G.frag.node m hm).kind (hkind m) (hvalid m) (by rw [hother m e]) hvars hbinds
        (fun c _ => hchg c)
    · rw [BL.isStale_default s m (by omega), BL.isStale_default s1 m (by rw [hsz]; omega)]
  have hw : ∀ p i, Wants s1 allClosed p i ↔ Wants s allClosed p i := fun p i => by
    rw [wants_closed rfl, wants_closed rfl, hnec]
  exact {
    frag := all1_congr G.frag hsz hbinds hkind hvalid hcutoff hcreated (by rw [hpc]; exact G.frag.pc)
      (by rw [hsc]; exact G.frag.scope)
    par := fun c p i hm => by
      rw [hparents] at hm
      rw [hch, hw]
      exact G.par c p i hm
    conv := fun p i c hk hwn => by
      rw [hch] at hk
      rw [hw] at hwn
      rw [hparents]
      exact G.conv p i c hk hwn
    nodup := fun c => by rw [hparents]; exact G.nodup c
    hlt := fun c p i hm ho => by
      rw [hparents] at hm
      rw [hheight, hheight]
      exact G.hlt c p i hm ho
    hpos := fun m hn ho => by
      rw [hnec] at hn
      rw [hheight]; exact G.hpos m hn ho
    lnec := fun p k ho => by cases ho
    unec := fun p k ho => by cases ho
    heap := G.heap.congr hrch hsz hhrch
    hgt := fun m hq' ho => by
      rw [hinr] at hq'
      rw [hhrch, hheight]; exact G.hgt m hq' ho
    qnec := fun m hq' => by
      rw [hinr] at hq'
      rw [hnec]; exact G.qnec m hq'
    queued := fun m _ hn hs hx => by
      have e : m ≠ n := by
        intro e; subst e; rw [hfresh] at hs; cases hs
      rw [hnec] at hn
      rw [hst m e] at hs
      rw [hinr]; exact hq m e hn hs hx
    qstale := fun m hq' => by
      rw [hinr] at hq'
      have e : m ≠ n := by
        intro e; subst e; rw [hnq] at hq'; cases hq'
      rw [hst m e]; exact G.qstale m hq'
    opLt := fun m ho => absurd rfl ho
    scopeH := fun m b br hv hsc' hb hn ho => by
      rw [hvalid] at hv
      rw [hcreated] at hsc'
      rw [hbinds] at hb
      rw [hnec] at hn
      rw [hheight, hheight]
      exact G.scopeH m b br hv hsc' hb hn ho
    inv := fun m hv => by
      rw [hvalid] at hv
      rw [hparents, hobs, hforce, hinr]
      exact G.inv m hv
    scopeObs := fun m b h => by
      rw [hcreated] at h
      rw [hobs]; exact G.scopeObs m b h
    lcObs := fun m b h => by
      rw [hkind] at h
      rw [hobs]; exact G.lcObs m b h }

/-! ## everything about the state in which the closure run starts -/

/-- what `DInv` and `F1Inv` say about the bind of the running change detector, and the structural invariant in
`started n s` -/
structure Pre (env : Env) (n b : Nat) (br : BindRec) (s : State) : Prop where
  hlt : n < s.nodes.size
  hvn : (s.nodeD n).valid = true
  hb : s.binds[b]? = some br
  hlc : br.lhsChange = n
  hmain : br.main = n + 1
  hml : br.main < s.nodes.size
  hkm : (s.nodeD br.main).kind = .bindMain b n
  topN : (s.nodeD n).createdIn = .top
  topM : (s.nodeD br.main).createdIn = .top
  hmem : n ∈ s.children br.main
  necMain : s.isNecessary br.main = true
  hmr : (s.nodeD br.main).recomputedAt < s.stabNum
  g0 : GInv1 env (started n s) allClosed (· = br.main) []
  ahh0 : AhhEmpty (started n s)

theorem lc_pre {env : Env} {s : State} {n b : Nat} (I : DInv env s (some n)) (A : F1Inv env s)
    (hk : (s.nodeD n).kind = .bindLhsChange b) : ∃ br, Pre env n b br s := by
  obtain ⟨hn, hlt, hv, hnq, -⟩ := I.cur_facts
  have G := ginv1_of_dinv I A
  obtain ⟨br, hb, hlc⟩ := (A.frag.node n hlt).lcRec b hk
  obtain ⟨h1, h2, -, h4, h5, h6⟩ := A.frag.recs b br hb
  rw [hlc] at h1 h4 h5
  have hmem : n ∈ s.children br.main := by rw [G.main_children hb, hlc]; exact List.mem_cons_self ..
  have necMain : s.isNecessary br.main = true := by
    -- `n` is necessary, unobserved and not forced: it has a recorded parent, which is the main node
    rcases (isNecessary_iff s n).1 hn with hp | ho | hf
    · obtain ⟨⟨p, i⟩, hpi⟩ := List.exists_mem_of_ne_nil _ hp
      obtain ⟨hpn, hci⟩ := I.graph.parent n p i hpi
      have hpl := I.graph.nec_lt hpn
      have hkp := (A.frag.node p hpl).lcChild n b (List.mem_of_getElem? hci) hk
      obtain ⟨br', hb', hm', -⟩ := (A.frag.node p hpl).mainRec b n hkp
      rw [hb] at hb'; cases hb'
      rw [hm']; exact hpn
    · exact absurd (A.lcObs n b hk) ho
    · rw [A.noForce n] at hf; cases hf
  have hBn : BKind env ((started n s).nodeD n).kind := by
    rw [started_self hlt]; show BKind env (s.nodeD n).kind; rw [hk]; trivial
  have hfresh : (started n s).isStale n = false := by
    apply isStale_fresh hBn (show 0 ≤ s.stabNum from I.stamps.now)
    · show ((started n s).nodeD n).recomputedAt = s.stabNum
      rw [started_self hlt]
    · exact I.stamps.var
    · intro c
      show ((started n s).nodeD c).changedAt ≤ s.stabNum
      obtain ⟨y, e⟩ := started_upto n s c
      rw [e]; exact (I.stamps.node c).2
  have G1 : GInv1 env (started n s) allClosed (· = br.main) [] :=
    ginv1_restamp G rfl rfl (started_size n s) rfl rfl rfl (started_upto n s) (fun m e => started_other s e)
      hnq hfresh (fun m e hmn' hms _ => by
        rcases I.pending m hmn' hms with h1 | h1
        · exact h1
        · exact absurd (Option.some.inj h1).symm e)
  exact ⟨br, hlt, hv, hb, hlc, h1, h2, h4, h5, h6, hmem, necMain,
    I.fresh br.main n (Below.of_edge (Edge.child hmem)) (Or.inr rfl), G1, ahhEmpty_started A.ahh⟩

end CC
end IncrVerif.Proofs.BindH
