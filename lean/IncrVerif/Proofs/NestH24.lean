import IncrVerif.Proofs.NestH23
/-!
# Nested binds (F2), the closure run, part 5: the loop of `elabTemplate`

* `NN.crel_ext`: `CRel2` through an extension.
* `NN.LI2`: the loop invariant (the current rank `rk` extends the rank `rk0` of the start of the run).
* `NN.LI2.step`, `NN.elabTemplate_inv2`.
-/
namespace IncrVerif.Proofs.NestH
open IncrVerif.Engine IncrVerif.Proofs IncrVerif.Proofs.Step IncrVerif.Proofs.Sched IncrVerif.Proofs.Quiet
open IncrVerif.Proofs.BindH

namespace NN

/-! ## `CRel2` through an extension -/

theorem crel_ext {b : Nat} {br br1 : BindRec} {s0 t t1 : State} (C : Ext b br1 t t1) (R : CRel2 b br s0 t)
    (hb1 : t.binds[b]? = some br1) (hb0 : b < s0.binds.size) : CRel2 b br s0 t1 := by
  have hg := R.grow
  have hsz := C.size
  obtain ⟨l, hl, hmem⟩ := R.bind
  rw [hb1] at hl
  injection hl with hl
  subst hl
  obtain ⟨l', hl', hmem'⟩ := C.bindB
  have hbg := R.bindsGrow
  refine
    { grow := by omega
      old := fun m hm => by rw [C.old m (by omega)]; exact R.old m hm
      new := ?_
      bind := ⟨l', hl', ?_⟩
      bindsGrow := by have := C.bindsGrow; omega
      bindsOther := fun b' hne hlt => by
        rw [C.bindsOther b' hne (by omega)]; exact R.bindsOther b' hne hlt
      bindsNew := ?_
      vars := C.vars.trans R.vars
      stabNum := C.stabNum.trans R.stabNum
      status := C.status.trans R.status
      cfg := C.cfg.trans R.cfg
      scope := C.scope.trans R.scope
      pc := C.pc.trans R.pc
      rch := C.rch.trans R.rch
      ahh := C.ahh.trans R.ahh
      top := C.top.trans R.top
      pinv := C.pinv.trans R.pinv }
  · intro m h1 h2
    rcases Nat.lt_or_ge m t.nodes.size with h | h
    · rw [C.old m h]; exact R.new m h1 h
    · exact C.new m h h2
  · intro m
    rw [hmem' m]
    show (m ∈ l ∨ _) ↔ _
    rw [hmem m]
    omega
  · intro b' br' hge hb'
    rcases Nat.lt_or_ge b' t.binds.size with h | h
    · rw [C.bindsOther b' (by omega) h] at hb'
      exact R.bindsNew b' br' hge hb'
    · obtain ⟨h1, h2, h3, -⟩ := C.bindsNew b' br' h hb'
      exact ⟨h1, h2, by omega⟩

/-! ## the loop -/

/-- the invariant of the loop of `elabTemplate` inside the closure run of bind `b` (record `br` when the run started, in state `s0` with rank `rk0`);
`rk`: the rank now -/
structure LI2 (env : Env) (b : Nat) (br : BindRec) (s0 : State) (rk0 : Nat → Nat) (ex : Nat → Prop) (j : Nat)
    (loc : List Nat) (rk : Nat → Nat) (t : State) : Prop where
  ext : RkExt rk0 rk s0.nodes.size
  inv : GInv2 env rk (CN.T t) allClosed ex br.allNodesCreatedOnRhs
  ahh : AhhEmpty t
  rel : CRel2 b br s0 (CN.T t)
  scope : t.currentScope = .bind b
  len : loc.length = j
  /-- the locals are new nodes, never change detectors -/
  loc : ∀ c, c ∈ loc → s0.nodes.size ≤ c ∧ c < t.nodes.size ∧ ∀ b', (t.nodeD c).kind ≠ .bindLhsChange b'
  lcCut : ∀ m b', (t.nodeD m).kind = .bindLhsChange b' → (t.nodeD m).cutoff = .never
  /-- the records created by the run -/
  newRecs : ∀ (b' : Nat) (br' : BindRec), s0.binds.size ≤ b' → t.binds[b']? = some br' →
    (∃ f, BodyOK2 env rk (CN.T t) br'.lhsChange f br'.body) ∧ br'.lhs < t.nodes.size ∧
      ∀ b'', (t.nodeD br'.lhs).kind ≠ .bindLhsChange b''

theorem kind_default_ne (s : State) {m : Nat} (h : s.nodes.size ≤ m) (b' : Nat) :
    (s.nodeD m).kind ≠ .bindLhsChange b' := by
  rw [nodeD_default s m h]
  intro e
  cases e

section loop
variable {env : Env} {b : Nat} {br : BindRec} {s0 : State} {rk0 : Nat → Nat} {ex : Nat → Prop}

/-- a local is a legal child -/
theorem LI2.kid_loc {j : Nat} {loc : List Nat} {rk : Nat → Nat} {t : State} (L : LI2 env b br s0 rk0 ex j loc rk t)
    (hdy : ∀ m, m ∈ br.allNodesCreatedOnRhs → m < s0.nodes.size) {c : Nat} (hc : c ∈ loc) :
    KidOK2 rk t b br.lhsChange br.allNodesCreatedOnRhs c := by
  obtain ⟨h1, h2, h3⟩ := L.loc c hc
  obtain ⟨hsc, hv, -⟩ := L.rel.new c h1 h2
  exact ⟨h2, hv, h3, Or.inr ⟨hsc, fun h => by have := hdy c h; omega⟩⟩

theorem LI2.rc {j : Nat} {loc : List Nat} {rk : Nat → Nat} {t : State} (L : LI2 env b br s0 rk0 ex j loc rk t)
    (A0 : All2 env rk0 s0 []) (hb : s0.binds[b]? = some br)
    (hdy : ∀ m, m ∈ br.allNodesCreatedOnRhs → m < s0.nodes.size)
    (htop : ∀ (k r : Nat), s0.top[k]? = some r →
      r < s0.nodes.size ∧ (s0.nodeD r).createdIn = .top ∧ ∀ b', (s0.nodeD r).kind ≠ .bindLhsChange b') :
    RC2 rk0 rk s0 t b br.lhsChange br.allNodesCreatedOnRhs j loc where
  top := L.rel.top
  outer k r hr hlt := by
    obtain ⟨h1, h2, h3⟩ := htop k r hr
    have ho : t.nodeD r = s0.nodeD r := L.rel.old r h1
    have hg : s0.nodes.size ≤ t.nodes.size := L.rel.grow
    have hrk : rk r < rk br.lhsChange := (L.ext r br.lhsChange h1 (A0.lc_lt hb)).2 hlt
    rw [KidOK2, ho]
    exact ⟨⟨by omega, ((A0.node r h1).top h2).1, h3, Or.inl ⟨h2, hrk⟩⟩, h2, hrk⟩
  locs i hi := by
    rw [← L.len] at hi
    refine ⟨loc[i], List.getElem?_eq_getElem hi, L.kid_loc hdy (List.getElem_mem hi), ?_⟩
    exact (L.loc _ (List.getElem_mem hi)).1

/-- one iteration, from the facts about the extension -/
theorem LI2.step_ext {j : Nat} {loc : List Nat} {rk rk' : Nat → Nat} {t t1 : State} {br1 : BindRec} {n : Nat}
    (L : LI2 env b br s0 rk0 ex j loc rk t) (hb0 : b < s0.binds.size)
    (hb1 : (CN.T t).binds[b]? = some br1) (C : Ext b br1 (CN.T t) (CN.T t1))
    (hsc : t1.currentScope = t.currentScope)
    (hRk : RkExt rk rk' t.nodes.size)
    (hinv : GInv2 env rk' (CN.T t1) allClosed ex br.allNodesCreatedOnRhs)
    (hn : t.nodes.size ≤ n ∧ n < t1.nodes.size ∧ ∀ b', (t1.nodeD n).kind ≠ .bindLhsChange b')
    (hcut : ∀ m, t.nodes.size ≤ m → m < t1.nodes.size → ∀ b', (t1.nodeD m).kind = .bindLhsChange b' →
      (t1.nodeD m).cutoff = .never)
    (hrec : ∀ (b' : Nat) (br' : BindRec), t.binds.size ≤ b' → t1.binds[b']? = some br' →
      (∃ f, BodyOK2 env rk' (CN.T t1) br'.lhsChange f br'.body) ∧ br'.lhs < t.nodes.size ∧
        ∀ b'', (t.nodeD br'.lhs).kind ≠ .bindLhsChange b'')
    (htop : ∀ (k r : Nat), s0.top[k]? = some r → r < s0.nodes.size) :
    LI2 env b br s0 rk0 ex (j + 1) (loc ++ [n]) rk' t1 := by
  have hg : s0.nodes.size ≤ t.nodes.size := L.rel.grow
  have hsz : t.nodes.size ≤ t1.nodes.size := C.size
  have hold : ∀ m, m < t.nodes.size → t1.nodeD m = t.nodeD m := C.old
  have hbg : s0.binds.size ≤ t.binds.size := L.rel.bindsGrow
  have G := C.grow2 hb1
  have hA : AhhEmpty (CN.T t1) := G.ahhEmpty ⟨L.ahh.length, L.ahh.buckets, L.ahh.marks⟩
  refine ⟨L.ext.trans hRk hg, hinv, ⟨hA.length, hA.buckets, hA.marks⟩, crel_ext C L.rel hb1 hb0, hsc.trans L.scope,
    by rw [List.length_append, L.len]; rfl, ?_, ?_, ?_⟩
  · intro c hc
    rcases List.mem_append.1 hc with hc | hc
    · obtain ⟨h1, h2, h3⟩ := L.loc c hc
      rw [hold c h2]
      exact ⟨h1, by omega, h3⟩
    · rw [List.mem_singleton.1 hc]
      exact ⟨by omega, hn.2.1, hn.2.2⟩
  · intro m b' hk
    rcases Nat.lt_or_ge m t.nodes.size with h | h
    · rw [hold m h] at hk ⊢
      exact L.lcCut m b' hk
    · rcases Nat.lt_or_ge m t1.nodes.size with h' | h'
      · exact hcut m h h' b' hk
      · exact absurd hk (kind_default_ne t1 h' b')
  · intro b' br' hge hb'
    rcases Nat.lt_or_ge b' t.binds.size with h | h
    · have hb'' : (CN.T t1).binds[b']? = some br' := hb'
      rw [C.bindsOther b' (by omega) h] at hb''
      obtain ⟨⟨f, hf⟩, h2, h3⟩ := L.newRecs b' br' hge hb''
      refine ⟨⟨f, ?_⟩, by omega, by rw [hold _ h2]; exact h3⟩
      refine BodyOK2.mono C.top ?_ f br'.body hf
      rintro r hr ⟨k, hk⟩
      have hk' : s0.top[k]? = some r := by
        have := L.rel.top
        rw [this] at hk
        exact hk
      have hr0 := htop k r hk'
      exact (hRk r br'.lhsChange (by omega) (L.inv.frag.lc_lt hb'')).2 hr
    · obtain ⟨h1, h2, h3⟩ := hrec b' br' h hb'
      exact ⟨h1, by omega, by rw [hold _ h2]; exact h3⟩

/-- one iteration -/
theorem LI2.step {j : Nat} {loc : List Nat} {rk : Nat → Nat} {t t1 : State} {i : Instr} {v : Val} {ro : Option Nat}
    {f : Nat} (L : LI2 env b br s0 rk0 ex j loc rk t) (A0 : All2 env rk0 s0 []) (hb : s0.binds[b]? = some br)
    (hvlc : (s0.nodeD br.lhsChange).valid = true)
    (hdy : ∀ m, m ∈ br.allNodesCreatedOnRhs → m < s0.nodes.size)
    (htop : ∀ (k r : Nat), s0.top[k]? = some r →
      r < s0.nodes.size ∧ (s0.nodeD r).createdIn = .top ∧ ∀ b', (s0.nodeD r).kind ≠ .bindLhsChange b')
    (hi : InstrOK2 env rk0 s0 (fun b' => BodyOK2 env rk0 s0 br.lhsChange f b') br.lhsChange j i)
    (h : (elabInstrM env loc v i).run.run t = (.ok ro, t1)) :
    ∃ n rk', ro = some n ∧ LI2 env b br s0 rk0 ex (j + 1) (loc ++ [n]) rk' t1 := by
  have hb0 := lt_of_getElem? hb
  obtain ⟨l, hl, -⟩ := L.rel.bind
  have hlc0 := A0.lc_lt hb
  have hv : ((CN.T t).nodeD br.lhsChange).valid = true := by
    rw [L.rel.old _ hlc0]; exact hvlc
  have htop' : ∀ (k r : Nat), s0.top[k]? = some r → r < s0.nodes.size := fun k r hr => (htop k r hr).1
  have hg : s0.nodes.size ≤ t.nodes.size := L.rel.grow
  rcases elab_inv2 (L.rc A0 hb hdy htop) L.scope hi h with
    ⟨k, e, hk, hnv, hkids, C⟩ | ⟨body', o, lhs, -, hP, -, e, hlhs, C⟩
  · -- one static node
    have CT : CN.Push k b (CN.T t) (CN.T t1) :=
      ⟨C.nodes, C.binds, C.vars, C.rch, C.ahh, C.pc, rfl, C.stabNum, C.status, C.cfg, C.top, C.pinv⟩
    have hsz := C.size
    refine ⟨t.nodes.size, rkNew rk br.main t.nodes.size, e, ?_⟩
    refine L.step_ext hb0 hl (ext_of_push CT hl) C.scope (rkNew_ext rk _ (Nat.le_refl _))
      (push_ginv2 (br1 := { br with allNodesCreatedOnRhs := l }) CT L.inv hl hv hk hnv hkids) ⟨Nat.le_refl _, by omega, ?_⟩ ?_ ?_ htop'
    · intro b' hk'
      rw [C.nodeD_new] at hk'
      simp only at hk'
      rw [hk'] at hk; exact hk.elim
    · intro m h1 h2 b' hk'
      have : m = t.nodes.size := by omega
      subst this
      rw [C.nodeD_new] at hk'
      simp only at hk'
      rw [hk'] at hk; exact hk.elim
    · intro b' br' hge hb'
      have := lt_of_getElem? hb'
      rw [C.binds, Array.size_modify] at this
      omega
  · -- an inner bind
    have CT : PushBind body' lhs b (CN.T t) (CN.T t1) :=
      ⟨C.nodes, C.binds, C.vars, C.rch, C.ahh, C.pc, rfl, C.stabNum, C.status, C.cfg, C.top, C.pinv⟩
    have hsz := C.size
    refine ⟨t.nodes.size + 1, rkBind rk br.main t.nodes.size, e, ?_⟩
    refine L.step_ext hb0 hl (CT.ext hl) C.scope (rkBind_ext rk _ (Nat.le_refl _))
      (pushBind_ginv2 (br1 := { br with allNodesCreatedOnRhs := l }) CT L.inv hl hv hlhs) ⟨by omega, by omega, ?_⟩ ?_ ?_ htop'
    · intro b' hk'
      rw [C.nodeD_main] at hk'
      cases hk'
    · intro m h1 h2 b' hk'
      have : m = t.nodes.size ∨ m = t.nodes.size + 1 := by omega
      rcases this with e' | e'
      · subst e'
        rw [C.nodeD_lc]
      · subst e'
        rw [C.nodeD_main] at hk'
        cases hk'
    · intro b' br' hge hb'
      have hlt := lt_of_getElem? hb'
      have hl' : t.binds[b]? = some { br with allNodesCreatedOnRhs := l } := hl
      rw [C.binds_size] at hlt
      have e' : b' = t.binds.size := by omega
      subst e'
      rw [C.binds_new hl'] at hb'
      cases hb'
      refine ⟨⟨f, ?_⟩, hlhs.1, hlhs.2.2.1⟩
      show BodyOK2 env (rkBind rk br.main t.nodes.size) (CN.T t1) t.nodes.size f body'
      refine BodyOK2.mono (s' := CN.T t1) (CT.top.trans L.rel.top) ?_ f body' hP
      rintro r hr ⟨k', hk'⟩
      have hr0 := htop' k' r hk'
      -- ranks: `r` below `lc_b` below `main_b`, now; the new change detector is just below `main_b`
      have h1 : rk r < rk br.lhsChange := (L.ext r br.lhsChange hr0 hlc0).2 hr
      obtain ⟨-, r2, -⟩ := A0.recs b br hb
      have hvm : ((CN.T t).nodeD br.main).valid = true := by
        have := L.inv.frag.recValid b _ hl
        rw [this]; exact hv
      have h2 : rk br.lhsChange < rk br.main :=
        L.inv.frag.lc_rk_main (br := { br with allNodesCreatedOnRhs := l }) hl hvm
      show rkBind rk br.main t.nodes.size r < rkBind rk br.main t.nodes.size t.nodes.size
      rw [rkBind_lc, rkBind_old _ _ _ (by omega) (by omega)]
      omega

/-- **the template**: `elabTemplate` inside the closure run -/
theorem elabTemplate_inv2 {tm : Template} {v : Val} {t t' : State} {rhs : Nat} {f : Nat}
    (L : LI2 env b br s0 rk0 ex 0 [] rk0 t) (A0 : All2 env rk0 s0 []) (hb : s0.binds[b]? = some br)
    (hvlc : (s0.nodeD br.lhsChange).valid = true)
    (hdy : ∀ m, m ∈ br.allNodesCreatedOnRhs → m < s0.nodes.size)
    (htop : ∀ (k r : Nat), s0.top[k]? = some r →
      r < s0.nodes.size ∧ (s0.nodeD r).createdIn = .top ∧ ∀ b', (s0.nodeD r).kind ≠ .bindLhsChange b')
    (hT : TemplOK2 env rk0 s0 (fun b' => BodyOK2 env rk0 s0 br.lhsChange f b') br.lhsChange tm)
    (h : (elabTemplate env tm v).run.run t = (.ok rhs, t')) :
    ∃ loc rk, LI2 env b br s0 rk0 ex tm.instrs.length loc rk t' ∧ rhs < t'.nodes.size ∧
      (∀ b', (t'.nodeD rhs).kind ≠ .bindLhsChange b') ∧
      (((t'.nodeD rhs).createdIn = .top ∧ rk rhs < rk br.lhsChange) ∨ s0.nodes.size ≤ rhs) := by
  unfold elabTemplate at h
  obtain ⟨loc, t1, h1, h2⟩ := bind_ok_inv h
  have hloop := forIn_ok_inv _ tm.instrs (fun j loc t => ∃ rk, LI2 env b br s0 rk0 ex j loc rk t) ?_ tm.instrs 0 [] t
    loc t1 rfl (Nat.zero_le _) ⟨rk0, L⟩ h1
  · obtain ⟨rk, hloop⟩ := hloop
    obtain ⟨et, hk, hd⟩ := resolve_inv2 (hloop.rc A0 hb hdy htop) hT.2 h2
    subst et
    exact ⟨loc, rk, hloop, hk.1, hk.2.2.1, hd⟩
  · intro j a loc0 t0 r t0' hj hL hrun
    obtain ⟨rk, hL⟩ := hL
    obtain ⟨ro, t2, h3, h4⟩ := bind_ok_inv hrun
    obtain ⟨n, rk', e, hL'⟩ := hL.step A0 hb hvlc hdy htop (hT.1 j a hj) h3
    subst e
    simp only at h4
    obtain ⟨e1, e2⟩ := pure_ok_inv h4
    subst e2
    exact ⟨_, e1, rk', hL'⟩

end loop

end NN

end IncrVerif.Proofs.NestH
