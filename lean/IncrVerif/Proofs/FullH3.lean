import IncrVerif.Proofs.FullH2
/-!
# C01 full fragment, part 2: the fragment of states, the ghost invariants, the drain invariant

* `Good env sp m`: machine `m` computes the plain function `sp m` from every reachable machine state, on every input.
* `FK env sp`: the kinds of the actual state.  `FFrag env sp g s`: what the simulation and the special steps need of the actual state.
* `KInv env g s` (the `didChange` invariant, now for VALID nodes): a valid necessary `map_ref` node whose flag is down reads its ghost value.
* `MInv env s`: the machine state of every valid `map_with_old` node is reachable.
* `DInvF env sp t s g x`: the drain invariant: the invariants of fragment F2 for the VIRTUAL state + the ghost invariants.
-/
namespace IncrVerif.Proofs.FullH
open IncrVerif.Engine IncrVerif.Proofs IncrVerif.Proofs.Step IncrVerif.Proofs.Sched IncrVerif.Proofs.Quiet
open IncrVerif.Proofs.MapOldH (enc dec WId dec_enc MReach GoodMachine)
open IncrVerif.Proofs.BindH (DInv BGraph StepRelB)
open IncrVerif.Proofs.NestH (AuxS2 Aux2 GenOK2 F2Inv)

/-- the total machine contract: from every reachable machine state, on every input, machine `m` outputs `sp m x`; it reports "unchanged" only if
the previous output is the new one (or there was none) -/
def Good (env : Env) (sp : Nat → Val → Val) (m : Nat) : Prop := GoodMachine env (fun _ => True) m (sp m)

/-- the kinds of the actual state -/
abbrev FK (env : Env) (sp : Nat → Val → Val) : Kind → Prop := FKind env (Good env sp)

/-- the fragment of actual states -/
structure FFrag (env : Env) (sp : Nat → Val → Val) (g : Nat → Option Val) (s : State) : Prop where
  fr : Fr (FK env sp) g s
  /-- the input of a `map_ref` node is an earlier node -/
  back : MapRefsBack s
  pc : s.panicCountdown = none

/-- the `didChange` invariant -/
def KInv (env : Env) (g : Nat → Option Val) (s : State) : Prop :=
  ∀ m p i, (s.nodeD m).valid = true → s.isNecessary m = true → (s.nodeD m).kind = .mapRef p i →
    (s.nodeD m).didChange = false → g m = s.value env m

/-- the machine invariant -/
def MInv (env : Env) (s : State) : Prop :=
  ∀ n m i, (s.nodeD n).valid = true → (s.nodeD n).kind = .mapWithOld m i →
    MReach env (fun _ => True) m (s.nodeD n).oldState (s.nodeD n).value

/-- a valid `map_ref` node whose flag is down has a ghost value (a flag is lowered only by the node's own step, which stores a ghost value; the ghost is
erased only on nodes that end up invalid) -/
def GSome (g : Nat → Option Val) (s : State) : Prop :=
  ∀ m p i, (s.nodeD m).valid = true → (s.nodeD m).kind = .mapRef p i → (s.nodeD m).didChange = false → (g m).isSome = true

/-- the `depend_on` invariant: a valid `depend_on` node `n = map fnFirst [a, b]` (cutoff `.dependOn a`) whose `changedAt` equals its input's stores what the input
stores in the virtual state — so when the cutoff `a.changedAt == n.changedAt` suppresses a change, the value is unchanged -/
def DepInv (g : Nat → Option Val) (s : State) : Prop :=
  ∀ n a b v, (s.nodeD n).valid = true → (s.nodeD n).kind = .map fnFirst [a, b] → (s.nodeD n).cutoff = .dependOn a →
    (s.nodeD n).changedAt = (s.nodeD a).changedAt → (s.nodeD n).value = some v → tv g s a = some v

/-- a valid node with a stored value whose `changedAt` is the current round has been recomputed in this round -/
def CRl (s : State) : Prop :=
  ∀ n, (s.nodeD n).valid = true → (∀ p i, (s.nodeD n).kind ≠ .mapRef p i) → (s.nodeD n).value.isSome = true →
    (s.nodeD n).changedAt = s.stabNum → (s.nodeD n).recomputedAt = s.stabNum

/-- the built-in function of `depend_on` nodes returns its first argument -/
def FirstFn (env : Env) : Prop := ∀ a b : Val, env.fn fnFirst [a, b] = a

/-- the virtual environment -/
abbrev VE (env : Env) (sp : Nat → Val → Val) : Env := virtEnv env sp

/-- **the drain invariant** of the full fragment: `t` = the (virtual) state in which the drain started (for the key frames `DKey`/`NKey` of `AuxS2`) -/
structure DInvF (env : Env) (sp : Nat → Val → Val) (t : State) (s : State) (g : Nat → Option Val) (x : Option Nat) : Prop where
  frag : FFrag env sp g s
  inv : DInv (VE env sp) (virt g s) x
  aux : AuxS2 (VE env sp) t (virt g s)
  gen : GenOK2 (VE env sp) (virt g s)
  k : KInv env g s
  m : MInv env s
  gs : GSome g s
  dep : DepInv g s
  cr : CRl s

/-- `GSome` is kept by every simulated step -/
theorem GSome.of_gr {g g' : Nat → Option Val} {s s' : State} (G : GSome g s) (R : GR g g' s s') : GSome g' s' := by
  intro m p i hv hk hd
  by_cases hm : m < s.nodes.size
  · obtain ⟨k1, -, -⟩ := R.vm.kind m hm
    have hv0 : (s.nodeD m).valid = true := by
      cases h : (s.nodeD m).valid with
      | true => rfl
      | false => rw [R.vm.valid m h] at hv; cases hv
    rw [R.valid_eq hv]
    exact G m p i hv0 (by rw [← k1]; exact hk) (R.vm.flag m hm hd)
  · by_cases hm' : m < s'.nodes.size
    · rw [(R.vm.newn m (by omega) hm').1] at hd; cases hd
    · rw [nodeD_default_of_ge s' m (by omega)] at hk; cases hk

section
variable {env : Env} {sp : Nat → Val → Val} {g : Nat → Option Val} {s : State}

theorem FFrag.lt_of_mapRef (_F : FFrag env sp g s) {n p i : Nat} (hk : (s.nodeD n).kind = .mapRef p i) :
    n < s.nodes.size := by
  by_cases h : n < s.nodes.size
  · exact h
  · rw [nodeD_default_of_ge s n (by omega)] at hk; cases hk

theorem FFrag.lt_of_mwo (_F : FFrag env sp g s) {n m i : Nat} (hk : (s.nodeD n).kind = .mapWithOld m i) :
    n < s.nodes.size := by
  by_cases h : n < s.nodes.size
  · exact h
  · rw [nodeD_default_of_ge s n (by omega)] at hk; cases hk

theorem FFrag.input_lt (F : FFrag env sp g s) {n p i : Nat} (hk : (s.nodeD n).kind = .mapRef p i) : i < n := by
  have hn := F.lt_of_mapRef hk
  exact F.back n (s.nodeD n) p i (some_of_lt hn) hk

theorem FFrag.pid (F : FFrag env sp g s) {n p i : Nat} (hk : (s.nodeD n).kind = .mapRef p i) : PId p := by
  have := F.fr.kinds n (F.lt_of_mapRef hk); rw [hk] at this; exact this

theorem FFrag.wid (F : FFrag env sp g s) {n m i : Nat} (hk : (s.nodeD n).kind = .mapWithOld m i) :
    WId m ∧ Good env sp m := by
  have := F.fr.kinds n (F.lt_of_mwo hk); rw [hk] at this; exact this

/-- a valid map_ref node reads the projection of what its input reads -/
theorem value_mapRef (F : FFrag env sp g s) {n p i : Nat} (hv : (s.nodeD n).valid = true)
    (hk : (s.nodeD n).kind = .mapRef p i) : s.value env n = (s.value env i).map (env.proj p) := by
  have hlt := F.lt_of_mapRef hk
  have hi : i < n := F.input_lt hk
  unfold State.value
  rw [valueWith_succ']
  have hc : valueCore (s.nodeD n) = (.mapRef p i, true, (s.nodeD n).value) := by
    simp [valueCore, hk, hv]
  rw [hc]
  simp only [valueStep']
  congr 1
  exact valueWith_congr_below env.proj s s F.back i (fun _ _ => rfl) _ _ (by omega) (by omega)

/-- an invalid node, or a node that is not a map_ref node, reads its stored value -/
theorem value_stored (h : (s.nodeD n).valid = false ∨ ∀ p i, (s.nodeD n).kind ≠ .mapRef p i) :
    s.value env n = (s.nodeD n).value := by
  unfold State.value
  rw [valueWith_succ']
  unfold valueCore valueStep'
  rcases h with h | h
  · simp only [h]
    cases (s.nodeD n).kind <;> rfl
  · cases hk : (s.nodeD n).kind <;> first | rfl | exact absurd hk (h _ _)

theorem tv_eq_value_of_not_mapRef (h : ∀ p i, (s.nodeD n).kind ≠ .mapRef p i) : tv g s n = s.value env n := by
  rw [tv_not_mapRef h, value_stored (Or.inr h)]

end
end IncrVerif.Proofs.FullH
