import IncrVerif.Proofs.PerKeyH84
/-!
# Per-key operators, the semantic theorem, part 4: a settled state reads the specified map

* `output_ok_settled`: `Settled env s` + `PKOK env s` (+ distinct dependency names, + the input is a variable) ⟹ `OutputOK env s`.
* `output_ok`: the same from `BGraph`/`ConsistentB` hypotheses; `output_ok_of_pq`: from `PQ env rk s`.
* `output_reads`, `output_reads_of_pq`: observers in use of an operator's output node read the specified map.
-/
namespace IncrVerif.Proofs.PerKeyH
open IncrVerif IncrVerif.Engine IncrVerif.Driver IncrVerif.Proofs IncrVerif.Proofs.Step IncrVerif.Proofs.Sched
open IncrVerif.Proofs.ExpertH IncrVerif.Proofs.EffH IncrVerif.Proofs.DriverH

variable {env : Env} {s : State}

theorem plainVals_single {s : State} {x : Nat} {vals : List Val} (h : plainVals s [x] = some vals) :
    ∃ w, (s.nodeD x).value = some w ∧ vals = [w] := by
  unfold plainVals at h
  simp only [evalArgs] at h
  cases hv : (s.nodeD x).value with
  | none => rw [hv] at h; cases h
  | some w =>
    rw [hv] at h
    simp only [Option.some.injEq] at h
    exact ⟨w, rfl, h.symm⟩

/-- a consistent identity conversion stores the value of its child -/
theorem consV_ident (hE : EnvP env) {m x : Nat} (hk : (s.nodeD m).kind = .map fnIdent [x])
    (h : Consistent (penv env) (V s) m) : ∃ w, (s.nodeD x).value = some w ∧ (s.nodeD m).value = some w := by
  obtain ⟨vals, hpv, hv⟩ := consV_map hk (by decide) h
  obtain ⟨w, hw, rfl⟩ := plainVals_single hpv
  refine ⟨w, hw, ?_⟩
  rw [hv, penv_fn_fnIdent, hE]
  rfl

/-- **a settled state reads the specified map** -/
theorem output_ok_settled (hE : EnvP env) (H : Settled env s) (K : PKOK env s)
    (depsNodup : ∀ (e : Nat) (er : ExpertRec), s.experts[e]? = some er → (er.children.map (·.dep)).Nodup)
    (inVar : ∀ (op : Nat) (pr : PerKeyRec), s.perkeys[op]? = some pr → ∀ x,
      (s.nodeD (pr.result - 1)).kind = .map fnIdent [x] → ∃ c, (s.nodeD x).kind = .var c) :
    OutputOK env s := by
  intro op pr hpr hnec
  have O := K.ops op pr hpr
  obtain ⟨x, e, er, N, hx, hpk, ⟨d0, rest, hch, _, _⟩, hent, _⟩ := O.nodes
  have hpkr : pkRec s op = pr := by simp [pkRec, hpr]
  -- necessity goes down
  have hchOut : s.children (pr.result + 2) = [pr.result] := children_map' (H.valid hnec) N.out
  have hnRes : s.isNecessary pr.result = true := H.down _ hnec _ (by rw [hchOut]; simp)
  have hchRes : s.children pr.result = er.children.map (·.child) := children_expert' (H.valid hnRes) N.result hx
  have hnLc : s.isNecessary pr.lhsChange = true := H.down _ hnRes _ (by rw [hchRes, hch]; simp)
  have hnLc' : s.isNecessary (pr.result + 1) = true := by rw [← N.lc]; exact hnLc
  have hchLc : s.children (pr.result + 1) = [pr.result - 1] := children_map' (H.valid hnLc') N.lcKind
  have hnConv : s.isNecessary (pr.result - 1) = true := H.down _ hnLc' _ (by rw [hchLc]; simp)
  have hchConv : s.children (pr.result - 1) = [x] := children_map' (H.valid hnConv) N.conv
  have hnX : s.isNecessary x = true := H.down _ hnConv _ (by rw [hchConv]; simp)
  -- the input: the cell holds `prevMap`
  obtain ⟨c, hxk⟩ := inVar op pr hpr x N.conv
  obtain ⟨vc, hvc, hxv⟩ := consV_var hxk (H.necCons hnX)
  obtain ⟨w, hw1, hw2⟩ := consV_ident hE N.conv (H.necCons hnConv)
  have hin := O.input (H.settled _ hnLc)
  have hcell : vc.value = .map pr.prevMap := by
    have e1 : vc.value = w := Option.some.inj (hxv.symm.trans hw1)
    have e2 : w = .map pr.prevMap := Option.some.inj (hw2.symm.trans hin)
    exact e1.trans e2
  -- the result and the output
  obtain ⟨vals, hpv, hresV⟩ := consV_res N.result hx hpk (by rw [hch]; simp) (H.necCons hnRes)
  rw [hpkr] at hresV
  obtain ⟨wo, hwo1, hwo2⟩ := consV_ident hE N.out (H.necCons hnec)
  rw [hresV] at hwo1
  cases hwo1
  refine ⟨x, c, vc, pr.prevMap, AMap.ofList (asmPairs (tagsOf pr.prevNodes er.children) vals), N.conv, hxk, hvc, hcell, ?_, ?_⟩
  · rw [H.value_plain]
    exact hwo2
  · have hnd := depsNodup e er hx
    refine specMap_eq env (ovOf env s) (env.perKey pr.fam) pr.prevMap _ O.sorted (ofList_sorted _) ?_ ?_
    · intro k v hkv
      have hl : pr.prevMap.lookup k = some v := by
        rw [← amap_lookup_eq]
        exact AMap.lookup_of_mem _ O.sorted (k, v) hkv
      have hsome : (pr.prevNodes.lookup k).isSome = true := by rw [← O.dom, hl]; rfl
      obtain ⟨⟨p, d⟩, hpd⟩ := Option.isSome_iff_exists.mp hsome
      have hmem : (k, (p, d)) ∈ pr.prevNodes := (list_lookup_eq_some_iff_mem O.keys k (p, d)).mp hpd
      have E := hent k p d hmem
      obtain ⟨ed, locs, hed, hedd, _, I, _, _⟩ := E.edge
      obtain ⟨ep, erp, dp, hpk1, hpx, hppk, _⟩ := E.pnode
      obtain ⟨i, hi⟩ := List.mem_iff_getElem?.mp hed
      have hnChild : s.isNecessary ed.child = true :=
        H.down _ hnRes _ (by rw [hchRes]; exact List.mem_map.mpr ⟨ed, hed, rfl⟩)
      have hpval : s.isNecessary p = true → (s.nodeD p).value = some (.int v) := by
        intro hn
        have := consV_key hpk1 hpx hppk (H.necCons hn)
        rw [hpkr, hl] at this
        exact this
      have hret := inst_ret H O.templ I hpval hnChild
      obtain ⟨w, hw1, hw2⟩ := evalArgs_getElem? _ _ _ hpv i ed.child (by simp [hi])
      exact ⟨w, by rw [hret, hw2], lookup_asm_some O.keys O.deps hnd hmem hi hedd hw1⟩
    · intro k hk
      have hl : pr.prevMap.lookup k = none := by rw [← amap_lookup_eq]; exact hk
      have hnone : pr.prevNodes.lookup k = none := by
        have := O.dom k
        rw [hl] at this
        cases h : pr.prevNodes.lookup k with
        | none => rfl
        | some _ => rw [h] at this; cases this
      exact lookup_asm_none O.keys hnd ((list_lookup_eq_none_iff_not_mem_keys _ k).mp hnone)

/-! ## from the graph invariant -/

theorem settled_of_bgraph (F : PFrag env s) (g : BindH.BGraph (penv env) (V s))
    (settled : ∀ n, s.isNecessary n = true → s.isStale n = false)
    (cons : ∀ m, m < s.nodes.size → s.isStale m = false → BindH.ConsistentB (penv env) (V s) m) :
    Settled env s where
  frag := F
  down n hn c hc := by
    obtain ⟨i, hi⟩ := List.mem_iff_getElem?.mp hc
    have := (g.child n (by rw [V_isNecessary]; exact hn) i c (by rw [V_children]; exact hi)).1
    rw [V_isNecessary] at this
    exact this
  settled := settled
  cons m hm hs := cons_of_consB (staticKind_VD F m) (cons m hm hs)

/-- **the semantic theorem** -/
theorem output_ok (hE : EnvP env) (F : PFrag env s) (K : PKOK env s)
    (g : BindH.BGraph (penv env) (V s))
    (settled : ∀ n, s.isNecessary n = true → s.isStale n = false)
    (cons : ∀ m, m < s.nodes.size → s.isStale m = false → BindH.ConsistentB (penv env) (V s) m)
    (depsNodup : ∀ (e : Nat) (er : ExpertRec), s.experts[e]? = some er → (er.children.map (·.dep)).Nodup)
    (inVar : ∀ (op : Nat) (pr : PerKeyRec), s.perkeys[op]? = some pr → ∀ x,
      (s.nodeD (pr.result - 1)).kind = .map fnIdent [x] → ∃ c, (s.nodeD x).kind = .var c) :
    OutputOK env s :=
  output_ok_settled hE (settled_of_bgraph F g settled cons) K depsNodup inVar

theorem settled_of_pq {rk : Nat → Nat} (Q : PQ env rk s)
    (settled : ∀ n, s.isNecessary n = true → s.isStale n = false) : Settled env s := by
  refine settled_of_bgraph Q.frag (bgraph_of_struct Q.q.struct Q.q.vars) settled ?_
  intro m hm hs
  have hlt : m < (V s).nodes.size := by rw [V_size]; exact hm
  refine consB_of_cons (staticKind_VD Q.frag m) (Q.q.cons m hlt ?_)
  rw [← QR.GInv.isStale Q.q.struct hlt, V_isStale]
  exact hs

theorem inVar_of_norem (R : NoRem s) : ∀ (op : Nat) (pr : PerKeyRec), s.perkeys[op]? = some pr → ∀ x,
    (s.nodeD (pr.result - 1)).kind = .map fnIdent [x] → ∃ c, (s.nodeD x).kind = .var c := by
  intro op pr hpr x hk
  obtain ⟨x', c, _, _, hk', hv, _⟩ := (R op pr hpr).input
  rw [hk] at hk'
  cases hk'
  exact ⟨c, hv⟩

/-- **the semantic theorem, from the invariant between API actions** -/
theorem output_ok_of_pq (hE : EnvP env) {rk : Nat → Nat} (Q : PQ env rk s)
    (settled : ∀ n, s.isNecessary n = true → s.isStale n = false) : OutputOK env s :=
  output_ok_settled hE (settled_of_pq Q settled) Q.pk (fun e er h => (Q.slots.deps e er h).1) (inVar_of_norem Q.norem)

/-! ## observers -/

/-- every observer in use of the output node of an operator reads the specified map -/
theorem output_reads (O : OutputOK env s) (alive : s.alive = true) (status : s.status = .notStabilising)
    (obsNec : ∀ (o : Nat) (ob : ObsRec), s.observers[o]? = some ob → ob.state = .inUse →
      s.isNecessary ob.node = true)
    (op : Nat) (pr : PerKeyRec) (o : Nat) (ob : ObsRec) (hpr : s.perkeys[op]? = some pr)
    (ho : s.observers[o]? = some ob) (hst : ob.state = .inUse) (hnode : ob.node = pr.result + 2) :
    ∃ x c vc mx mo, (s.nodeD (pr.result - 1)).kind = .map fnIdent [x] ∧ (s.nodeD x).kind = .var c ∧
      s.vars[c]? = some vc ∧ vc.value = .map mx ∧
      s.tryGetValue env o = .ok (.map mo) ∧
      specMap env (fun k => (s.top[k]?).bind fun o => s.value env o) (env.perKey pr.fam) mx = some mo := by
  have hn := obsNec o ob ho hst
  rw [hnode] at hn
  obtain ⟨x, c, vc, mx, mo, h1, h2, h3, h4, h5, h6⟩ := O op pr hpr hn
  refine ⟨x, c, vc, mx, mo, h1, h2, h3, h4, ?_, h6⟩
  unfold State.tryGetValue
  rw [alive, status, ho]
  simp only [Bool.not_true, Bool.false_eq_true, if_false, hst]
  rw [hnode, h5]
  rfl

theorem obsNec_of_pq {rk : Nat → Nat} (Q : PQ env rk s) (o : Nat) (ob : ObsRec)
    (ho : s.observers[o]? = some ob) (hst : ob.state = .inUse) : s.isNecessary ob.node = true := by
  have hmem : o ∈ ((V s).nodeD ob.node).observers := (Q.q.obs.mem ob.node o).2 ⟨ob, ho, rfl, Or.inl hst⟩
  rw [V_nodeD, vNode_observers] at hmem
  rw [QR.isNecessary_iff]
  right; left
  exact List.ne_nil_of_mem hmem

theorem output_reads_of_pq (hE : EnvP env) {rk : Nat → Nat} (Q : PQ env rk s)
    (settled : ∀ n, s.isNecessary n = true → s.isStale n = false)
    (op : Nat) (pr : PerKeyRec) (o : Nat) (ob : ObsRec) (hpr : s.perkeys[op]? = some pr)
    (ho : s.observers[o]? = some ob) (hst : ob.state = .inUse) (hnode : ob.node = pr.result + 2) :
    ∃ x c vc mx mo, (s.nodeD (pr.result - 1)).kind = .map fnIdent [x] ∧ (s.nodeD x).kind = .var c ∧
      s.vars[c]? = some vc ∧ vc.value = .map mx ∧
      s.tryGetValue env o = .ok (.map mo) ∧
      specMap env (fun k => (s.top[k]?).bind fun o => s.value env o) (env.perKey pr.fam) mx = some mo :=
  output_reads (output_ok_of_pq hE Q settled) Q.q.alive Q.q.status (obsNec_of_pq Q) op pr o ob hpr ho hst hnode

end IncrVerif.Proofs.PerKeyH
