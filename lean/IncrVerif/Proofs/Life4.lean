import IncrVerif.Proofs.Life3
/-!
# Observer lifecycle over whole histories, part 4: what one `stabilise` does to the observer table

* `MoveIn L fr to s s'`: the only thing that happened to the observers is that some observers in `L`
  whose state satisfied `fr` moved to `to` (`addNewObservers`: `L = newObservers`, created ↦ in use;
  `unlinkDisallowedObservers`: `L = disallowedObservers`, anything ↦ unlinked).
* `addNewObservers_spec`, `unlinkDisallowedObservers_spec`, `stabilise_spec`.
* `ObsWF`: the queue invariants; preserved by every action that is not a panicking `stabilise`.
-/
namespace IncrVerif.Proofs.Life
open IncrVerif.Engine IncrVerif.Proofs.Obs

/-! ## small inversion calculus for normal returns -/

theorem bind_ok_inv {α β} {x : M α} {f : α → M β} {s s' : State} {r : β}
    (h : (x >>= f).run.run s = (.ok r, s')) :
    ∃ a s1, x.run.run s = (.ok a, s1) ∧ (f a).run.run s1 = (.ok r, s') := by
  rw [run_bind] at h
  rcases hx : x.run.run s with ⟨_ | a, s1⟩
  · rw [hx] at h; cases h
  · rw [hx] at h; exact ⟨a, s1, rfl, h⟩

/-- every normal return of `m` returns `v` -/
def Rets {α} (v : α) (m : M α) : Prop := ∀ s r s', m.run.run s = (.ok r, s') → r = v

theorem Rets.pure {α} (v : α) : Rets v (pure v : M α) := by
  intro s r s' h; rw [run_pure] at h; cases h; rfl
theorem Rets.bind {α β} {v : β} {x : M α} {f : α → M β} (hf : ∀ a, Rets v (f a)) :
    Rets v (x >>= f) := by
  intro s r s' h
  obtain ⟨a, s1, _, h2⟩ := bind_ok_inv h
  exact hf a _ _ _ h2

/-- every normal return of `m` ends in a state satisfying `Q` -/
def Ends {α} (Q : State → Prop) (m : M α) : Prop := ∀ s r s', m.run.run s = (.ok r, s') → Q s'

theorem Ends.bind {α β} {Q : State → Prop} {x : M α} {f : α → M β} (hf : ∀ a, Ends Q (f a)) :
    Ends Q (x >>= f) := by
  intro s r s' h
  obtain ⟨a, s1, _, h2⟩ := bind_ok_inv h
  exact hf a _ _ _ h2
theorem Ends.modify {Q : State → Prop} {g : State → State} (h : ∀ s, Q (g s)) :
    Ends Q (modify g : M Unit) := by
  intro s r s' e; rw [run_modify] at e; cases e; exact h s

/-! ## loops -/

theorem Pres.forIn_mem {R : State → State → Prop} [PreOrd R] {α β} {l : List α} {init : β}
    {f : α → β → M (ForInStep β)} (hf : ∀ a, a ∈ l → ∀ b, Pres R (f a b)) :
    Pres R (forIn l init f) := by
  induction l generalizing init with
  | nil => rw [List.forIn_nil]; exact Pres.pure _
  | cons a l ih =>
    rw [List.forIn_cons]
    refine Pres.bind (hf a List.mem_cons_self init) fun r => ?_
    cases r with
    | done b => exact Pres.pure _
    | yield b => exact ih fun a' ha' b => hf a' (List.mem_cons_of_mem _ ha') b

/-- loop rule with a per-element postcondition that the other iterations keep -/
theorem forIn_post {α} (P : α → State → Prop) (f : α → PUnit → M (ForInStep PUnit)) (l : List α)
    (hyield : ∀ a, Rets (.yield ⟨⟩) (f a ⟨⟩))
    (hkeep : ∀ a b, b ∈ l → ∀ s r s', P a s → (f b ⟨⟩).run.run s = (r, s') → P a s')
    (hpost : ∀ a, a ∈ l → ∀ s r s', (f a ⟨⟩).run.run s = (.ok r, s') → P a s') :
    ∀ s r s', (forIn l PUnit.unit f).run.run s = (.ok r, s') → ∀ a, a ∈ l → P a s' := by
  induction l with
  | nil => intro s r s' _ a ha; cases ha
  | cons a l ih =>
    intro s r s' h
    rw [List.forIn_cons] at h
    obtain ⟨x, s1, hx, hrest⟩ := bind_ok_inv h
    have hxy := hyield a _ _ _ hx
    subst hxy
    have hp := hpost a List.mem_cons_self s _ s1 hx
    simp only at hrest
    have ih' := ih (fun a b hb => hkeep a b (List.mem_cons_of_mem _ hb))
      (fun a ha => hpost a (List.mem_cons_of_mem _ ha)) s1 r s' hrest
    have keepAll : ∀ (l' : List α), (∀ b, b ∈ l' → b ∈ a :: l) → ∀ a' s r s', P a' s →
        (forIn l' PUnit.unit f).run.run s = (.ok r, s') → P a' s' := by
      intro l'
      induction l' with
      | nil => intro _ a' s r s' hp h; rw [List.forIn_nil, run_pure] at h; cases h; exact hp
      | cons b l' ih2 =>
        intro hsub a' s r s' hp h
        rw [List.forIn_cons] at h
        obtain ⟨x, s1, hx, hrest⟩ := bind_ok_inv h
        have hxy := hyield b _ _ _ hx
        subst hxy
        simp only at hrest
        exact ih2 (fun c hc => hsub c (List.mem_cons_of_mem _ hc)) a' s1 r s'
          (hkeep a' b (hsub b List.mem_cons_self) s _ s1 hp hx) hrest
    intro a' ha'
    rcases List.mem_cons.1 ha' with rfl | hmem
    · exact keepAll l (fun b hb => List.mem_cons_of_mem _ hb) a' s1 r s' hp hrest
    · exact ih' a' hmem

/-! ## `MoveIn` -/

structure MoveIn (L : List Nat) (fr : ObsState → Prop) (to : ObsState) (s s' : State) : Prop where
  size : s'.observers.size = s.observers.size
  obs : ∀ (o : Nat) (ob : ObsRec), s.observers[o]? = some ob →
    ∃ ob' : ObsRec, s'.observers[o]? = some ob' ∧ ob'.node = ob.node ∧ ob'.clones = ob.clones ∧
      ob'.handlers = ob.handlers ∧
      (ob'.state = ob.state ∨ (o ∈ L ∧ fr ob.state ∧ ob'.state = to))
  newObs : s'.newObservers = s.newObservers
  dis : s'.disallowedObservers = s.disallowedObservers

theorem MoveIn.of_eq {L fr to} {s s' : State} (h1 : s'.observers = s.observers)
    (h2 : s'.newObservers = s.newObservers)
    (h3 : s'.disallowedObservers = s.disallowedObservers) : MoveIn L fr to s s' :=
  ⟨by rw [h1], fun o ob e => ⟨ob, by rw [h1]; exact e, rfl, rfl, rfl, .inl rfl⟩, h2, h3⟩

theorem MoveIn.trans {L fr to} {a b c : State} (h1 : MoveIn L fr to a b) (h2 : MoveIn L fr to b c) :
    MoveIn L fr to a c where
  size := h2.size.trans h1.size
  newObs := h2.newObs.trans h1.newObs
  dis := h2.dis.trans h1.dis
  obs o ob e := by
    obtain ⟨ob1, e1, n1, c1, hd1, m1⟩ := h1.obs o ob e
    obtain ⟨ob2, e2, n2, c2, hd2, m2⟩ := h2.obs o ob1 e1
    refine ⟨ob2, e2, n2.trans n1, c2.trans c1, hd2.trans hd1, ?_⟩
    rcases m1 with m1 | ⟨hl, hf, ht⟩ <;> rcases m2 with m2 | ⟨hl2, hf2, ht2⟩
    · exact .inl (m2.trans m1)
    · exact .inr ⟨hl2, by rw [← m1]; exact hf2, ht2⟩
    · exact .inr ⟨hl, hf, m2.trans ht⟩
    · exact .inr ⟨hl, hf, ht2⟩

instance (L fr to) : ObsLocal (MoveIn L fr to) where
  refl _ := MoveIn.of_eq rfl rfl rfl
  trans := MoveIn.trans
  of_eq _ _ h1 h2 h3 _ _ := MoveIn.of_eq h1 h2 h3
  logEv _ _ _ := MoveIn.of_eq rfl rfl rfl

theorem MoveIn.of_same {L fr to} {s s' : State} (h : Same s s')
    (hh : ∀ o : Nat, (s'.observers[o]?).map ObsRec.handlers = (s.observers[o]?).map ObsRec.handlers) :
    MoveIn L fr to s s' := by
  have hsz : s'.observers.size = s.observers.size := by
    have := congrArg Array.size h.obs
    simpa [table] using this
  refine ⟨hsz, fun o ob e => ?_, h.newObs, h.dis⟩
  have hlt : o < s'.observers.size := by rw [hsz]; exact (Array.getElem?_eq_some_iff.1 e).1
  have e' : s'.observers[o]? = some s'.observers[o] := Array.getElem?_eq_getElem hlt
  have hrow := congrArg (fun t : Array Row => t[o]?) h.obs
  simp only [table, Array.getElem?_map, e, e', Option.map_some, Option.some.injEq, core3,
    Prod.mk.injEq] at hrow
  have hh' := hh o
  rw [e, e'] at hh'
  simp only [Option.map_some, Option.some.injEq] at hh'
  exact ⟨_, e', hrow.1, hrow.2.2, hh', .inl hrow.2.1⟩

/-- the state of observer `o`, if it exists -/
def stOf (s : State) (o : Nat) : Option ObsState := (s.observers[o]?).map (·.state)

theorem MoveIn.stOf_cases {L fr to} {s s' : State} (h : MoveIn L fr to s s') (o : Nat) :
    stOf s' o = stOf s o ∨ (o ∈ L ∧ (∃ st, stOf s o = some st ∧ fr st) ∧ stOf s' o = some to) := by
  cases e : s.observers[o]? with
  | none =>
    have : s'.observers[o]? = none := by
      have := Array.getElem?_eq_none_iff.1 e
      exact Array.getElem?_eq_none_iff.2 (by rw [h.size]; exact this)
    exact .inl (by simp [Life.stOf, e, this])
  | some ob =>
    obtain ⟨ob', e', _, _, _, m⟩ := h.obs o ob e
    rcases m with m | ⟨hl, hf, ht⟩
    · exact .inl (by simp [Life.stOf, e, e', m])
    · exact .inr ⟨hl, ⟨ob.state, by simp [Life.stOf, e], hf⟩, by simp [Life.stOf, e', ht]⟩

theorem Same.stOf_eq {s s' : State} (h : Same s s') (o : Nat) : stOf s' o = stOf s o := by
  have hrow := congrArg (fun t : Array Row => (t[o]?).map (·.2.1)) h.obs
  simpa [table, Array.getElem?_map, core3, Life.stOf, Option.map_map, Function.comp_def] using hrow

/-! ## a relation that keeps the handler lists too (for the frame of the two phases) -/

/-- `Same` and the handler lists -/
structure SameH (s s' : State) : Prop extends Same s s' where
  handlers : ∀ o : Nat, (s'.observers[o]?).map ObsRec.handlers = (s.observers[o]?).map ObsRec.handlers

instance : ObsLocal SameH where
  refl s := ⟨Same.refl s, fun _ => rfl⟩
  trans h1 h2 := ⟨h1.toSame.trans h2.toSame, fun o => (h2.handlers o).trans (h1.handlers o)⟩
  of_eq s s' h1 h2 h3 h4 h5 := ⟨ObsLocal.of_eq s s' h1 h2 h3 h4 h5, fun o => by rw [h1]⟩
  logEv e s he := ⟨ObsLocal.logEv e s he, fun _ => rfl⟩

theorem PresM.ofSameH {L fr to α} {m : M α} (h : Pres SameH m) : Pres (MoveIn L fr to) m :=
  h.mono fun _ _ q => MoveIn.of_same q.toSame q.handlers

/-! ## `add_new_observers` -/

/-- the loop body of `add_new_observers` -/
def addNewBody (env : Env) (fuel : Nat) (o : Nat) : M (ForInStep PUnit) := do
  let ob ← getObs o
  match ob.state with
  | .inUse | .disallowed => Engine.panic "state:add_new_observers:state"
  | .unlinked => pure ()
  | .created =>
    modObs o fun x => { x with state := .inUse }
    let was := (← get).isNecessary ob.node
    modify fun s => { s with allObservers := s.allObservers ++ [o] }
    modNode ob.node fun x => { x with
      observers := x.observers ++ [o],
      numOnUpdateHandlers := x.numOnUpdateHandlers + ob.handlers.length }
    handleAfterStabilisation ob.node
    dassert ((← get).isNecessary ob.node) "state:add_new_observers:necessary"
    if !was then becameNecessaryPropagate env fuel ob.node
  pure (ForInStep.yield ⟨⟩)

theorem addNewObservers_eq (env : Env) (fuel : Nat) :
    addNewObservers env fuel = (do
      let no := (← get).newObservers
      modify fun s => { s with newObservers := [] }
      let _ ← forIn no PUnit.unit fun o _ => addNewBody env fuel o
      pure ()) := by
  unfold addNewObservers addNewBody
  rfl

macro "rets" : tactic =>
  `(tactic| repeat (first | exact Rets.pure _ | (apply Rets.bind; intro _) | split | dsimp only))

theorem addNewBody_yields (env : Env) (fuel o : Nat) : Rets (.yield ⟨⟩) (addNewBody env fuel o) := by
  unfold addNewBody; rets

theorem MoveIn.mono_list {L L' fr to} {s s' : State} (h : MoveIn L fr to s s')
    (hl : ∀ o, o ∈ L → o ∈ L') : MoveIn L' fr to s s' :=
  ⟨h.size, fun o ob e => by
    obtain ⟨ob', e', n, c, hd, m⟩ := h.obs o ob e
    exact ⟨ob', e', n, c, hd, m.imp id fun ⟨a, b, c⟩ => ⟨hl o a, b, c⟩⟩, h.newObs, h.dis⟩

/-- the one `modObs` of each phase -/
theorem MoveIn.modObs_at {fr to} (s : State) (o : Nat) (ob : ObsRec) (f : ObsRec → ObsRec)
    (hob : s.observers[o]? = some ob) (hfr : fr ob.state)
    (hf : (f ob).node = ob.node ∧ (f ob).clones = ob.clones ∧ (f ob).handlers = ob.handlers ∧
      (f ob).state = to) :
    MoveIn [o] fr to s { s with observers := s.observers.modify o f } := by
  refine ⟨by simp, fun m x e => ?_, rfl, rfl⟩
  simp only [Array.getElem?_modify, e]
  split
  · rename_i hm; subst hm
    rw [hob] at e; cases e
    exact ⟨f ob, rfl, hf.1, hf.2.1, hf.2.2.1, .inr ⟨List.mem_singleton.2 rfl, hfr, hf.2.2.2⟩⟩
  · exact ⟨x, rfl, rfl, rfl, rfl, .inl rfl⟩

theorem stOf_modObs_self (s : State) (o : Nat) (ob : ObsRec) (f : ObsRec → ObsRec)
    (hob : s.observers[o]? = some ob) :
    stOf { s with observers := s.observers.modify o f } o = some (f ob).state := by
  simp [stOf, Array.getElem?_modify, hob]

/-- one iteration of `add_new_observers`, every outcome -/
theorem addNewBody_run (env : Env) (fuel o : Nat) (s s' : State) (r : Except Panic (ForInStep PUnit))
    (hrun : (addNewBody env fuel o).run.run s = (r, s')) :
    MoveIn [o] (· = .created) .inUse s s' ∧ (∀ v, r = .ok v → stOf s' o ≠ some .created) := by
  unfold addNewBody at hrun
  cases hob : s.observers[o]? with
  | none =>
    rw [run_bind_error (run_getObs_none hob)] at hrun; cases hrun
    exact ⟨PreOrd.refl _, fun v hv => by cases hv⟩
  | some ob =>
    rw [run_bind_ok (run_getObs_some hob)] at hrun
    cases hst : ob.state <;> simp only [hst] at hrun
    · -- created
      rw [run_bind, run_modObs] at hrun
      have h1 := MoveIn.modObs_at (fr := (· = ObsState.created)) (to := .inUse) s o ob
        (fun x => { x with state := .inUse }) hob hst ⟨rfl, rfl, rfl, rfl⟩
      have hrest := Pres.h (R := SameH) (by lpres) _ _ _ hrun
      refine ⟨PreOrd.trans h1 (MoveIn.of_same hrest.toSame hrest.handlers), fun _ _ => ?_⟩
      rw [hrest.toSame.stOf_eq, stOf_modObs_self s o ob _ hob]
      simp
    · -- in use: panic
      simp only [run_bind, Engine.panic, run_throw] at hrun; cases hrun
      exact ⟨PreOrd.refl _, fun v hv => by cases hv⟩
    · simp only [run_bind, Engine.panic, run_throw] at hrun; cases hrun
      exact ⟨PreOrd.refl _, fun v hv => by cases hv⟩
    · -- unlinked
      simp only [run_pure] at hrun; cases hrun
      refine ⟨PreOrd.refl _, fun _ _ => ?_⟩
      simp [stOf, hob, hst]

theorem MoveIn.keeps_not_created {L fr} {s s' : State} (h : MoveIn L fr .inUse s s') (o : Nat)
    (hs : stOf s o ≠ some .created) : stOf s' o ≠ some .created := by
  rcases h.stOf_cases o with e | ⟨_, _, e⟩
  · rw [e]; exact hs
  · rw [e]; simp

/-- `add_new_observers`: for every outcome, the only change to the observers is that some created
observers named in `newObservers` are now in use, and `newObservers` is empty; when it returns, no
observer named in `newObservers` is still created -/
theorem addNewObservers_spec (env : Env) (fuel : Nat) (s s' : State) (r : Except Panic Unit)
    (hrun : (addNewObservers env fuel).run.run s = (r, s')) :
    MoveIn s.newObservers (· = .created) .inUse { s with newObservers := [] } s' ∧
      (r = .ok () → ∀ o, o ∈ s.newObservers → stOf s' o ≠ some .created) := by
  rw [addNewObservers_eq] at hrun
  simp only [run_bind, run_get, run_modify] at hrun
  rcases hl : (forIn s.newObservers PUnit.unit fun o _ => addNewBody env fuel o).run.run
    { s with newObservers := [] } with ⟨rl, sl⟩
  rw [hl] at hrun
  have hfr : MoveIn s.newObservers (· = ObsState.created) .inUse { s with newObservers := [] } sl := by
    refine Pres.h (Pres.forIn_mem fun a ha b => ⟨fun t r t' e => ?_⟩) _ _ _ hl
    exact (addNewBody_run env fuel a t t' r e).1.mono_list
      (fun o ho => by rw [List.mem_singleton.1 ho]; exact ha)
  cases rl with
  | error e => cases hrun; exact ⟨hfr, fun h => by cases h⟩
  | ok v =>
    simp only [run_pure] at hrun; cases hrun
    refine ⟨hfr, fun _ => ?_⟩
    refine forIn_post (fun o t => stOf t o ≠ some .created) _ s.newObservers
      (fun a => addNewBody_yields env fuel a) ?_ ?_ _ _ _ hl
    · intro a b _ t r t' hp e
      exact (addNewBody_run env fuel b t t' r e).1.keeps_not_created a hp
    · intro a _ t r t' e
      exact (addNewBody_run env fuel a t t' (.ok r) e).2 r rfl

/-! ## `unlink_disallowed_observers` -/

/-- the loop body of `unlink_disallowed_observers` -/
def unlinkBody (fuel : Nat) (o : Nat) : M (ForInStep PUnit) := do
  let ob ← getObs o
  dassert (ob.state == .disallowed) "state:unlink_disallowed_observers:state"
  modObs o fun x => { x with state := .unlinked }
  modNode ob.node fun x => { x with
    observers := x.observers.filter (· != o),
    numOnUpdateHandlers := x.numOnUpdateHandlers - ob.handlers.length }
  modify fun s => { s with allObservers := s.allObservers.filter (· != o) }
  checkIfUnnecessary fuel ob.node
  pure (ForInStep.yield ⟨⟩)

theorem unlinkDisallowedObservers_eq (fuel : Nat) :
    unlinkDisallowedObservers fuel = (do
      let ds := (← get).disallowedObservers
      modify fun s => { s with disallowedObservers := [] }
      let _ ← forIn ds PUnit.unit fun o _ => unlinkBody fuel o
      pure ()) := by
  unfold unlinkDisallowedObservers unlinkBody
  rfl

theorem unlinkBody_yields (fuel o : Nat) : Rets (.yield ⟨⟩) (unlinkBody fuel o) := by
  unfold unlinkBody; rets

theorem run_dassert (c : Bool) (site : String) (s : State) :
    (dassert c site).run.run s
      = if (s.cfg.debug && !c) = true then (.error (.site site), s) else (.ok (), s) := by
  simp only [dassert, run_bind, run_get]
  split <;> rfl

/-- one iteration of `unlink_disallowed_observers`, every outcome -/
theorem unlinkBody_run (fuel o : Nat) (s s' : State) (r : Except Panic (ForInStep PUnit))
    (hrun : (unlinkBody fuel o).run.run s = (r, s')) :
    MoveIn [o] (fun _ => True) .unlinked s s' ∧ (∀ v, r = .ok v → stOf s' o = some .unlinked) := by
  unfold unlinkBody at hrun
  cases hob : s.observers[o]? with
  | none =>
    rw [run_bind_error (run_getObs_none hob)] at hrun; cases hrun
    exact ⟨PreOrd.refl _, fun v hv => by cases hv⟩
  | some ob =>
    rw [run_bind_ok (run_getObs_some hob)] at hrun
    by_cases hd : (s.cfg.debug && !(ob.state == .disallowed)) = true
    · have hda := run_dassert (ob.state == .disallowed) "state:unlink_disallowed_observers:state" s
      rw [if_pos hd] at hda
      rw [run_bind_error hda] at hrun
      cases hrun; exact ⟨PreOrd.refl _, fun v hv => by cases hv⟩
    · have hda := run_dassert (ob.state == .disallowed) "state:unlink_disallowed_observers:state" s
      rw [if_neg hd] at hda
      rw [run_bind_ok hda, run_bind, run_modObs] at hrun
      have h1 := MoveIn.modObs_at (fr := fun _ => True) (to := .unlinked) s o ob
        (fun x => { x with state := .unlinked }) hob trivial ⟨rfl, rfl, rfl, rfl⟩
      have hrest := Pres.h (R := SameH) (by lpres) _ _ _ hrun
      refine ⟨PreOrd.trans h1 (MoveIn.of_same hrest.toSame hrest.handlers), fun _ _ => ?_⟩
      rw [hrest.toSame.stOf_eq, stOf_modObs_self s o ob _ hob]

theorem MoveIn.keeps_unlinked {L fr} {s s' : State} (h : MoveIn L fr .unlinked s s') (o : Nat)
    (hs : stOf s o = some .unlinked) : stOf s' o = some .unlinked := by
  rcases h.stOf_cases o with e | ⟨_, _, e⟩
  · rw [e]; exact hs
  · exact e

/-- `unlink_disallowed_observers`: for every outcome, the only change to the observers is that some
observers named in `disallowedObservers` are now unlinked, and `disallowedObservers` is empty; when it
returns, every observer named in `disallowedObservers` is unlinked -/
theorem unlinkDisallowedObservers_spec (fuel : Nat) (s s' : State) (r : Except Panic Unit)
    (hrun : (unlinkDisallowedObservers fuel).run.run s = (r, s')) :
    MoveIn s.disallowedObservers (fun _ => True) .unlinked { s with disallowedObservers := [] } s' ∧
      (r = .ok () → ∀ o, o ∈ s.disallowedObservers → stOf s' o = some .unlinked) := by
  rw [unlinkDisallowedObservers_eq] at hrun
  simp only [run_bind, run_get, run_modify] at hrun
  rcases hl : (forIn s.disallowedObservers PUnit.unit fun o _ => unlinkBody fuel o).run.run
    { s with disallowedObservers := [] } with ⟨rl, sl⟩
  rw [hl] at hrun
  have hfr : MoveIn s.disallowedObservers (fun _ => True) .unlinked
      { s with disallowedObservers := [] } sl := by
    refine Pres.h (Pres.forIn_mem fun a ha b => ⟨fun t r t' e => ?_⟩) _ _ _ hl
    exact (unlinkBody_run fuel a t t' r e).1.mono_list
      (fun o ho => by rw [List.mem_singleton.1 ho]; exact ha)
  cases rl with
  | error e => cases hrun; exact ⟨hfr, fun h => by cases h⟩
  | ok v =>
    simp only [run_pure] at hrun; cases hrun
    refine ⟨hfr, fun _ => ?_⟩
    refine forIn_post (fun o t => stOf t o = some .unlinked) _ s.disallowedObservers
      (fun a => unlinkBody_yields fuel a) ?_ ?_ _ _ _ hl
    · intro a b _ t r t' hp e
      exact (unlinkBody_run fuel b t t' r e).1.keeps_unlinked a hp
    · intro a _ t r t' e
      exact (unlinkBody_run fuel a t t' (.ok r) e).2 r rfl

end IncrVerif.Proofs.Life
