import IncrVerif.Proofs.DriverH4
import IncrVerif.Proofs.BindH13
import IncrVerif.Proofs.ExpertH40
/-!
# Drivers: the drain (`DrainSpec` from `StepSpec` and `PopSpec`); no node runs twice

The two inductions on fuel follow `BindH12` (`recompute_invB`, `drainHeap_invB`); "no node runs twice" follows
`BindH13` (`chain_onceB`, `drain_onceB`), with the stamps read in the VIRTUAL states.
-/
namespace IncrVerif.Proofs.DriverH
open IncrVerif.Engine IncrVerif.Driver IncrVerif.Proofs IncrVerif.Proofs.Step IncrVerif.Proofs.Sched
open IncrVerif.Proofs.ExpertH IncrVerif.Proofs.ExpertH.QR IncrVerif.Proofs.EffH

/-! ## stamps in the virtual states -/

/-- what is said about each node of a trace from `s` to `s'`, on the stamps of the virtual states: it had not run in
this round before, and it is stamped afterwards -/
def RanV (s s' : State) (m : Nat) : Prop :=
  ((virt s).nodeD m).recomputedAt < s.stabNum ∧ ((virt s').nodeD m).recomputedAt = s.stabNum

theorem DStep.stabNum {s s' : State} (f : DStep s s') : s'.stabNum = s.stabNum := f.frameB.stabNum

/-- a node stamped in this round keeps the stamp -/
theorem DStep.ranV {s s' : State} (f : DStep s s') {m : Nat}
    (h : ((virt s).nodeD m).recomputedAt = s.stabNum) : ((virt s').nodeD m).recomputedAt = s.stabNum :=
  (f.frameB.ran m h).1

/-- a node not yet stamped after some steps was not stamped before them -/
theorem DStep.not_yet {s s' : State} (f : DStep s s') (st : Stamps (virt s)) {m : Nat}
    (h : ((virt s').nodeD m).recomputedAt < s.stabNum) : ((virt s).nodeD m).recomputedAt < s.stabNum :=
  BindH.FrameB.not_yet f.frameB st h

theorem RanV.extend_left {a b c : State} {m : Nat} (f : DStep a b) (st : Stamps (virt a))
    (h : RanV b c m) : RanV a c m := by
  obtain ⟨h2, h3⟩ := h
  rw [f.stabNum] at h2 h3
  exact ⟨f.not_yet st h2, h3⟩

theorem RanV.extend_right {a b c : State} {m : Nat} (f : DStep b c) (hab : b.stabNum = a.stabNum)
    (h : RanV a b m) : RanV a c m := by
  obtain ⟨h2, h3⟩ := h
  have k1 := f.ranV (m := m) (by rw [hab]; exact h3)
  exact ⟨h2, by rw [hab] at k1; exact k1⟩

/-- before the current node runs it is not stamped (in the virtual state) -/
theorem DD.cur_not_yet {env : Env} {s : State} {n : Nat} (D : DD env s (some n)) :
    ((virt s).nodeD n).recomputedAt < s.stabNum :=
  D.inv.fresh n n (BindH.Below.refl n) (Or.inr rfl)

/-! ## the chain -/

theorem recompute_invD {env : Env} (hStep : StepSpec env) :
    ∀ (fuel n : Nat) (s s' : State), DD env s (some n) →
    (recompute env fuel n).run.run s = (.ok (), s') → DD env s' none ∧ DStep s s' := by
  intro fuel
  induction fuel with
  | zero => intro n s s' _ h; unfold recompute at h; cases h
  | succ fuel ih =>
    intro n s s' D h
    unfold recompute at h
    obtain ⟨r, s1, h1, h2⟩ := bind_ok_inv h
    obtain ⟨D1, f1, -⟩ := hStep fuel n s s1 r D h1
    cases r with
    | none =>
      obtain ⟨-, rfl⟩ := pure_ok_inv h2
      exact ⟨D1, f1⟩
    | some p =>
      obtain ⟨D2, f2⟩ := ih p s1 s' D1 h2
      exact ⟨D2, f1.trans f2⟩

/-- the nodes of a direct-recompute chain are pairwise distinct; each had not run before and is stamped afterwards -/
theorem chain_onceD {env : Env} (hStep : StepSpec env) :
    ∀ (fuel n : Nat) (s s' : State), DD env s (some n) →
    (recompute env fuel n).run.run s = (.ok (), s') →
    (chainTrace env fuel n s).Nodup ∧ ∀ m, m ∈ chainTrace env fuel n s → RanV s s' m := by
  intro fuel
  induction fuel with
  | zero => intro n s s' _ h; unfold recompute at h; cases h
  | succ fuel ih =>
    intro n s s' D h
    unfold recompute at h
    obtain ⟨r, s1, h1, h2⟩ := bind_ok_inv h
    obtain ⟨D1, f1, hn1⟩ := hStep fuel n s s1 r D h1
    have hn0 := D.cur_not_yet
    unfold chainTrace
    rw [h1]
    cases r with
    | none =>
      obtain ⟨-, rfl⟩ := pure_ok_inv h2
      refine ⟨by simp, ?_⟩
      intro m hm
      rw [List.mem_singleton] at hm
      subst hm
      exact ⟨hn0, hn1⟩
    | some p =>
      obtain ⟨hnd, hall⟩ := ih p s1 s' D1 h2
      obtain ⟨-, f2⟩ := recompute_invD hStep fuel p s1 s' D1 h2
      have hnot : n ∉ chainTrace env fuel p s1 := by
        intro hmem
        have := (hall n hmem).1
        rw [f1.stabNum] at this
        omega
      refine ⟨List.nodup_cons.2 ⟨hnot, hnd⟩, ?_⟩
      intro m hm
      rcases List.mem_cons.1 hm with rfl | hm
      · exact RanV.extend_right f2 f1.stabNum ⟨hn0, hn1⟩
      · exact (hall m hm).extend_left f1 D.inv.stamps

/-! ## the drain -/

theorem drainHeap_invD {env : Env} (hStep : StepSpec env) (hPop : PopSpec env) :
    ∀ (fuel : Nat) (s s' : State), DD env s none →
    (drainHeap env fuel).run.run s = (.ok (), s') →
    DD env s' none ∧ s'.rch.length = 0 ∧ DStep s s' := by
  intro fuel
  induction fuel with
  | zero => intro s s' _ h; unfold drainHeap at h; cases h
  | succ fuel ih =>
    intro s s' D h
    unfold drainHeap at h
    obtain ⟨r, s1, h1, h2⟩ := bind_ok_inv h
    cases r with
    | none =>
      obtain ⟨-, rfl⟩ := pure_ok_inv h2
      have := rchRemoveMin_inv (heapInv_of_virt D.inv.heap) h1
      simp only at this
      obtain ⟨e, he⟩ := this
      subst e
      exact ⟨D, he, DStep.refl _⟩
    | some n =>
      obtain ⟨u, s2, h3, h4⟩ := bind_ok_inv h2
      obtain ⟨D1, f1⟩ := hPop s s1 n D h1
      obtain ⟨D2, f2⟩ := recompute_invD hStep fuel n s1 s2 D1 h3
      obtain ⟨D3, he, f3⟩ := ih s2 s' D2 h4
      exact ⟨D3, he, (f1.trans f2).trans f3⟩

/-- **At most once.** The nodes run by a successful `drainHeap` from a state with the drain invariant with drivers
are pairwise distinct; each had (virtual) `recomputedAt < stabNum` before the drain and has `recomputedAt = stabNum`
after it. -/
theorem drain_onceD {env : Env} (hStep : StepSpec env) (hPop : PopSpec env) :
    ∀ (fuel : Nat) (s s' : State), DD env s none →
    (drainHeap env fuel).run.run s = (.ok (), s') →
    (drainTrace env fuel s).Nodup ∧ ∀ m, m ∈ drainTrace env fuel s → RanV s s' m := by
  intro fuel
  induction fuel with
  | zero => intro s s' _ h; unfold drainHeap at h; cases h
  | succ fuel ih =>
    intro s s' D h
    unfold drainHeap at h
    obtain ⟨r, s1, h1, h2⟩ := bind_ok_inv h
    unfold drainTrace
    rw [h1]
    cases r with
    | none => exact ⟨List.nodup_nil, fun m hm => by cases hm⟩
    | some n =>
      obtain ⟨u, s2, h3, h4⟩ := bind_ok_inv h2
      dsimp only
      rw [h3]
      dsimp only
      obtain ⟨D1, f1⟩ := hPop s s1 n D h1
      obtain ⟨D2, f2⟩ := recompute_invD hStep fuel n s1 s2 D1 h3
      obtain ⟨-, -, f3⟩ := drainHeap_invD hStep hPop fuel s2 s' D2 h4
      obtain ⟨hnd1, hall1⟩ := chain_onceD hStep fuel n s1 s2 D1 h3
      obtain ⟨hnd2, hall2⟩ := ih s2 s' D2 h4
      refine ⟨List.nodup_append.2 ⟨hnd1, hnd2, ?_⟩, ?_⟩
      · intro a ha b hb e
        subst e
        have h5 := (hall1 a ha).2
        have h6 := (hall2 a hb).1
        rw [f2.stabNum] at h6
        omega
      · intro m hm
        rcases List.mem_append.1 hm with hm | hm
        · exact ((hall1 m hm).extend_right f3 f2.stabNum).extend_left f1 D.inv.stamps
        · exact (hall2 m hm).extend_left (f1.trans f2) D.inv.stamps

/-- every node of the trace of the drain had not run in this round before the drain and is stamped after it
(stamps of the virtual states) -/
theorem drain_once (env : Env) (hStep : StepSpec env) (hPop : PopSpec env) :
    ∀ (fuel : Nat) (s s' : State), DD env s none → (drainHeap env fuel).run.run s = (.ok (), s') →
    ∀ m, m ∈ drainTrace env fuel s → RanV s s' m :=
  fun fuel s s' D h => (drain_onceD hStep hPop fuel s s' D h).2

/-- **the drain** -/
theorem drainSpec (env : Env) (hStep : StepSpec env) (hPop : PopSpec env) : DrainSpec env := by
  intro fuel s s' D h
  obtain ⟨D', he, f⟩ := drainHeap_invD hStep hPop fuel s s' D h
  exact ⟨D', he, f, (drain_onceD hStep hPop fuel s s' D h).1⟩

end IncrVerif.Proofs.DriverH
