import IncrVerif.Proofs.EffH2
/-!
# Effects, part 3: the invariants do not read `pending`, `setDuringStab`, `log` (pure lemmas)
-/
namespace IncrVerif.Proofs.EffH
open IncrVerif.Engine IncrVerif.Driver IncrVerif.Proofs IncrVerif.Proofs.Step IncrVerif.Proofs.Sched
open IncrVerif.Proofs.Quiet


/-! ## helpers -/

theorem e3_none {v v' : Array VarCell} (hsz : v'.size = v.size) {c : Nat} (h : v[c]? = none) : v'[c]? = none := by
  rw [Array.getElem?_eq_none_iff] at h ⊢; omega

/-- a function of a cell that does not read `pending` reads the same in both arrays -/
theorem e3_cells_map {α : Type} (f : VarCell → α) (hf : ∀ a b, CellP a b → f b = f a) {v v' : Array VarCell}
    (hsz : v'.size = v.size) (hc : ∀ (c : Nat) (a : VarCell), v[c]? = some a → ∃ b, v'[c]? = some b ∧ CellP a b)
    (c : Nat) : (v'[c]?).map f = (v[c]?).map f := by
  cases hs : v[c]? with
  | none => rw [e3_none hsz hs]
  | some a =>
    obtain ⟨b, hb, hab⟩ := hc c a hs
    rw [hb]; simp only [Option.map_some, hf a b hab]

/-- the converse direction of the cell clause -/
theorem e3_cell' {v v' : Array VarCell}
    (hsz : v'.size = v.size) (hc : ∀ (c : Nat) (a : VarCell), v[c]? = some a → ∃ b, v'[c]? = some b ∧ CellP a b)
    (c : Nat) (b : VarCell) (hb : v'[c]? = some b) : ∃ a, v[c]? = some a ∧ CellP a b := by
  cases hs : v[c]? with
  | none => rw [e3_none hsz hs] at hb; cases hb
  | some a =>
    obtain ⟨b', hb', hab⟩ := hc c a hs
    rw [hb] at hb'; cases hb'
    exact ⟨a, rfl, hab⟩

/-- `eval` only looks at kinds and the values of variables -/
theorem e3_eval_congr {s s' : State} (hk : ∀ n, (s'.nodeD n).kind = (s.nodeD n).kind)
    (hsz : s'.vars.size = s.vars.size)
    (hc : ∀ (c : Nat) (a : VarCell), s.vars[c]? = some a → ∃ b, s'.vars[c]? = some b ∧ CellP a b)
    (env : Env) (k n : Nat) : Sched.eval env s' k n = Sched.eval env s k n := by
  induction k generalizing n with
  | zero => rfl
  | succ k ih =>
    unfold Sched.eval
    rw [hk n]
    have : (fun a => Sched.eval env s' k a) = (fun a => Sched.eval env s k a) := funext ih
    rw [this]
    cases (s.nodeD n).kind <;> try rfl
    exact e3_cells_map (·.value) (fun _ _ h => h.value) hsz hc _

/-- `GInv.congr` with "same variables" weakened to "same staleness" -/
theorem e3_ginv_congr {env : Env} {s s' : State} {op : Nat → Op} (I : GInv env s op)
    (hpc : s'.panicCountdown = s.panicCountdown) (hscope : s'.currentScope = s.currentScope)
    (hsize : s'.nodes.size = s.nodes.size) (hrch : s'.rch = s.rch)
    (hnode : ∀ m, s'.nodeD m = s.nodeD m) (hstale : ∀ m, Sched.staleOf s' m = Sched.staleOf s m) :
    GInv env s' op where
  static := by
    refine ⟨by rw [hpc]; exact I.static.pc, by rw [hscope]; exact I.static.scope, fun n hn => ?_⟩
    have sn := I.static.node n (by rw [← hsize]; exact hn)
    exact ⟨by rw [hnode]; exact sn.valid, by rw [hnode]; exact sn.kind, by rw [hnode]; exact sn.cutoff,
      by rw [hnode]; exact sn.top, by rw [hnode]; exact sn.force,
      by rw [hnode]; exact sn.kidsLt⟩
  par c p i hm := by
    rw [hnode] at hm
    have := I.par c p i hm
    simp only [Wants, State.isNecessary, hnode] at this ⊢
    exact this
  conv p i c hk hw := by
    simp only [Wants, State.isNecessary, hnode] at hk hw ⊢
    exact I.conv p i c hk hw
  nodup c := by rw [hnode]; exact I.nodup c
  hlt c p i hm ho := by
    rw [hnode] at hm
    rw [hnode, hnode]
    exact I.hlt c p i hm ho
  hpos n hn ho := by
    simp only [State.isNecessary, hnode] at hn ⊢
    exact I.hpos n hn ho
  lnec p k ho := by
    have := I.lnec p k ho
    simp only [State.isNecessary, hnode] at this ⊢
    exact this
  unec p k ho := by
    have := I.unec p k ho
    simp only [State.isNecessary, hnode] at this ⊢
    exact this
  heap := I.heap.congr hrch hsize (fun m => by rw [hnode])
  hgt m hq ho := by
    rw [hnode] at hq ⊢; exact I.hgt m hq ho
  qnec m hq := by
    rw [hnode] at hq
    have := I.qnec m hq
    simp only [State.isNecessary, hnode] at this ⊢
    exact this
  queued m ho hn hs := by
    simp only [State.isNecessary, hnode] at hn
    rw [hstale] at hs
    rw [hnode]; exact I.queued m ho hn hs
  qstale m hq := by
    rw [hnode] at hq
    rw [hstale]; exact I.qstale m hq
  opLt m ho := by rw [hsize]; exact I.opLt m ho

/-! ## reading `SameP` -/
namespace SameP
variable {s s' : State}

theorem nodes (h : SameP s s') : s'.nodes = s.nodes := by rw [h.eq]
theorem nodeD (h : SameP s s') (m : Nat) : s'.nodeD m = s.nodeD m := by
  simp only [State.nodeD, h.nodes]
theorem rch (h : SameP s s') : s'.rch = s.rch := by rw [h.eq]
theorem stabNum (h : SameP s s') : s'.stabNum = s.stabNum := by rw [h.eq]
theorem status (h : SameP s s') : s'.status = s.status := by rw [h.eq]
theorem pc (h : SameP s s') : s'.panicCountdown = s.panicCountdown := by rw [h.eq]
theorem cfg (h : SameP s s') : s'.cfg = s.cfg := by rw [h.eq]
theorem deadVars (h : SameP s s') : s'.deadVars = s.deadVars := by rw [h.eq]
theorem newObservers (h : SameP s s') : s'.newObservers = s.newObservers := by rw [h.eq]
theorem disallowedObservers (h : SameP s s') : s'.disallowedObservers = s.disallowedObservers := by rw [h.eq]
theorem handleAfterStab (h : SameP s s') : s'.handleAfterStab = s.handleAfterStab := by rw [h.eq]
theorem observers (h : SameP s s') : s'.observers = s.observers := by rw [h.eq]
theorem keyD (h : SameP s s') : stateKeyD s' = stateKeyD s := by rw [h.eq]; rfl
theorem isNecessary (h : SameP s s') (m : Nat) : s'.isNecessary m = s.isNecessary m := by
  simp only [State.isNecessary, h.nodeD]

theorem binds (h : SameP s s') : s'.binds = s.binds := by rw [h.eq]
theorem experts (h : SameP s s') : s'.experts = s.experts := by rw [h.eq]
theorem alive (h : SameP s s') : s'.alive = s.alive := by rw [h.eq]
theorem currentScope (h : SameP s s') : s'.currentScope = s.currentScope := by rw [h.eq]
theorem propagateInvalidity (h : SameP s s') : s'.propagateInvalidity = s.propagateInvalidity := by rw [h.eq]
theorem top (h : SameP s s') : s'.top = s.top := by rw [h.eq]
theorem children (h : SameP s s') (m : Nat) : s'.children m = s.children m := by
  simp only [State.children, h.nodeD, h.binds, h.experts]
theorem shape (h : SameP s s') (m : Nat) : SameShape (s.nodeD m) (s'.nodeD m) := by
  rw [h.nodeD]; exact SameShape.refl _
theorem none (h : SameP s s') {c : Nat} (hc : s.vars[c]? = none) : s'.vars[c]? = none := e3_none h.size hc

/-- the converse direction of `cell` -/
theorem cell' (h : SameP s s') (v : Nat) (b : VarCell) (hb : s'.vars[v]? = some b) :
    ∃ a, s.vars[v]? = some a ∧ CellP a b := e3_cell' h.size h.cell v b hb

theorem staleOf (h : SameP s s') (m : Nat) : Sched.staleOf s' m = Sched.staleOf s m := by
  unfold Sched.staleOf
  simp only [h.nodeD]
  cases hk : (s.nodeD m).kind <;> try rfl
  rename_i c
  simp only
  cases hs : s.vars[c]? with
  | none => rw [h.none hs]
  | some a =>
    obtain ⟨b, hb, hab⟩ := h.cell c a hs
    rw [hb]; simp only [hab.setAt]
theorem isStale (h : SameP s s') (m : Nat) : s'.isStale m = s.isStale m := by
  unfold State.isStale
  simp only [h.nodeD, h.children, h.experts]
  cases hk : (s.nodeD m).kind? with
  | none => rfl
  | some k =>
    cases k <;> try rfl
    rename_i c
    simp only
    cases hs : s.vars[c]? with
    | none => rw [h.none hs]
    | some a =>
      obtain ⟨b, hb, hab⟩ := h.cell c a hs
      rw [hb]; simp only [hab.setAt]
theorem value (h : SameP s s') (env : Env) (n : Nat) : s'.value env n = s.value env n :=
  Step.value_congr env s s' (by rw [h.nodes]) (fun m => by rw [h.nodeD]) n
theorem valuesOf (h : SameP s s') (env : Env) (args : List Nat) :
    Step.valuesOf env s' args = Step.valuesOf env s args :=
  Step.valuesOf_congr env s s' args (fun a _ => h.value env a)
theorem plainVals (h : SameP s s') (args : List Nat) : Sched.plainVals s' args = Sched.plainVals s args := by
  simp only [Sched.plainVals, h.nodeD]
theorem target (h : SameP s s') {env : Env} {n : Nat} {v : Val} (ht : Target env s n v) : Target env s' n v := by
  unfold Target at ht ⊢
  simp only [h.nodeD, h.plainVals]
  cases hk : (s.nodeD n).kind <;> rw [hk] at ht <;> try exact ht
  obtain ⟨vc, h1, h2⟩ := ht
  obtain ⟨b, hb, hab⟩ := h.cell _ vc h1
  exact ⟨b, hb, by rw [hab.value]; exact h2⟩
theorem consistent (h : SameP s s') {env : Env} {n : Nat} (hc : Consistent env s n) : Consistent env s' n := by
  obtain ⟨v, ht, hv⟩ := hc
  exact ⟨v, h.target ht, by rw [h.nodeD]; exact hv⟩
theorem graph (h : SameP s s') {env : Env} (g : Graph env s) : Graph env s' :=
  g.transfer_vars (by rw [h.nodes]) h.shape (fun c vc hc => by obtain ⟨b, hb, -⟩ := h.cell c vc hc; exact ⟨b, hb⟩)
    (by rw [h.pc]; exact g.pc)
theorem heapInv (h : SameP s s') (hi : HeapInv s) : HeapInv s' :=
  hi.congr h.rch (by rw [h.nodes]) (fun m => by rw [h.nodeD, h.isNecessary]; exact ⟨rfl, rfl, rfl⟩)
theorem anc (h : SameP s s') {a d : Nat} (ha : Anc s a d) : Anc s' a d := Anc.transfer h.shape ha
theorem anc_iff (h : SameP s s') {a d : Nat} : Anc s' a d ↔ Anc s a d := Anc.transfer_iff h.shape
/-- **the scheduling invariant does not read the deferred writes** -/
theorem inv (h : SameP s s') {env : Env} {x : Option Nat} (I : Inv env s x) : Inv env s' x where
  graph := h.graph I.graph
  heap := h.heapInv I.heap
  stamps := by
    refine ⟨by rw [h.stabNum]; exact I.stamps.now, fun m => by rw [h.nodeD, h.stabNum]; exact I.stamps.node m, ?_⟩
    intro c vc hc
    obtain ⟨a, ha, hab⟩ := h.cell' c vc hc
    rw [hab.setAt, h.stabNum]; exact I.stamps.var c a ha
  pending m hm hst := by
    rw [h.isNecessary] at hm; rw [h.isStale] at hst
    rw [h.nodeD]; exact I.pending m hm hst
  cons m hm hst := by
    rw [h.isNecessary] at hm; rw [h.isStale] at hst
    exact h.consistent (I.cons m hm hst)
  fresh d hd a ha := by
    rw [h.nodeD] at hd
    rw [h.anc_iff] at ha
    rw [h.nodeD, h.stabNum]; exact I.fresh d hd a ha
  cur n hx := by
    obtain ⟨h1, h2⟩ := I.cur n hx
    refine ⟨by rw [h.isNecessary]; exact h1, fun d hd => ?_⟩
    rw [h.anc_iff] at hd
    rw [h.nodeD]; exact h2 d hd
theorem unnecOK (h : SameP s s') {env : Env} (U : UnnecOK env s) : UnnecOK env s' := by
  intro m hm hn
  rw [h.nodes] at hm
  rw [h.isNecessary] at hn
  obtain ⟨h1, h2⟩ := U m hm hn
  refine ⟨by rw [h.nodeD, h.stabNum]; exact h1, fun hs => ?_⟩
  rw [h.staleOf] at hs
  exact h.consistent (h2 hs)
theorem eval (h : SameP s s') (env : Env) (k n : Nat) : Sched.eval env s' k n = Sched.eval env s k n :=
  e3_eval_congr (fun n => by rw [h.nodeD]) h.size h.cell env k n
theorem varsOK (h : SameP s s') (V : VarsOK s) : VarsOK s' where
  node n c hn hk := by
    rw [h.nodes] at hn; rw [h.nodeD] at hk
    obtain ⟨vc, h1, h2⟩ := V.node n c hn hk
    obtain ⟨b, hb, hab⟩ := h.cell c vc h1
    exact ⟨b, hb, by rw [hab.node]; exact h2⟩
  cell c vc hc := by
    obtain ⟨a, ha, hab⟩ := h.cell' c vc hc
    rw [hab.node, h.nodes, h.nodeD]; exact V.cell c a ha
theorem obsInv (h : SameP s s') {pn pd : List Nat} (O : ObsInv s pn pd) : ObsInv s' pn pd where
  inRange o ob ho := by rw [h.observers] at ho; rw [h.nodes]; exact O.inRange o ob ho
  mem n o := by rw [h.nodeD, h.observers]; exact O.mem n o
  created o ob ho := by rw [h.observers] at ho; exact O.created o ob ho
  newIn o ho := by rw [h.observers]; exact O.newIn o ho
  dis o ob ho := by rw [h.observers] at ho; exact O.dis o ob ho
  disIn o ho := by rw [h.observers]; exact O.disIn o ho
  disNodup := O.disNodup
theorem struct (h : SameP s s') {env : Env} (I : Struct env s) : Struct env s' :=
  e3_ginv_congr I h.pc h.currentScope (by rw [h.nodes]) h.rch h.nodeD h.staleOf
/-- the invariant between actions does not read `pending` (it does require an empty stack) -/
theorem qinv (h : SameP s s') {env : Env} (Q : QInv env s) (hs : s'.setDuringStab = []) : QInv env s' where
  struct := h.struct Q.struct
  vars := h.varsOK Q.vars
  obs := by
    have := h.obsInv Q.obs
    unfold ObsOK
    rw [h.newObservers, h.disallowedObservers]; exact this
  now := by rw [h.stabNum]; exact Q.now
  stamps m := by rw [h.nodeD, h.stabNum]; exact Q.stamps m
  varStamp c vc hc := by
    obtain ⟨a, ha, hab⟩ := h.cell' c vc hc
    rw [hab.setAt, h.stabNum]; exact Q.varStamp c a ha
  cons m hm hst := by
    rw [h.nodes] at hm; rw [h.staleOf] at hst
    exact h.consistent (Q.cons m hm hst)
  status := by rw [h.status]; exact Q.status
  alive := by rw [h.alive]; exact Q.alive
  setDuringStab := hs
  deadVars := by rw [h.deadVars]; exact Q.deadVars
  handleAfterStab := by rw [h.handleAfterStab]; exact Q.handleAfterStab
  handlers m := by rw [h.nodeD]; exact Q.handlers m
  pinv := by rw [h.propagateInvalidity]; exact Q.pinv
  top k n hk := by rw [h.top] at hk; rw [h.nodes]; exact Q.top k n hk
theorem tryGetValue (h : SameP s s') (env : Env) (o : Nat) : s'.tryGetValue env o = s.tryGetValue env o := by
  simp only [State.tryGetValue, h.alive, h.status, h.observers, h.value]

end SameP

/-! ## the drain's frame, up to deferred writes -/

/-- `Sched.Frame` with "the variables are unchanged" weakened to "unchanged except for `pending`" -/
structure FrameP (s s' : State) : Prop where
  size : s'.nodes.size = s.nodes.size
  vsize : s'.vars.size = s.vars.size
  cell : ∀ (v : Nat) (a : VarCell), s.vars[v]? = some a → ∃ b, s'.vars[v]? = some b ∧ CellP a b
  stabNum : s'.stabNum = s.stabNum
  shape : ∀ m, SameShape (s.nodeD m) (s'.nodeD m)
  ran : ∀ m, (s.nodeD m).recomputedAt = s.stabNum → (s'.nodeD m).recomputedAt = s.stabNum
  qsize : s'.rch.queues.size = s.rch.queues.size

theorem FrameP.refl (s : State) : FrameP s s :=
  ⟨rfl, rfl, fun _ a ha => ⟨a, ha, CellP.refl a⟩, rfl, fun _ => SameShape.refl _, fun _ h => h, rfl⟩
theorem FrameP.trans {a b c : State} (h1 : FrameP a b) (h2 : FrameP b c) : FrameP a c where
  size := h2.size.trans h1.size
  vsize := h2.vsize.trans h1.vsize
  cell v x hx := by
    obtain ⟨y, hy, hxy⟩ := h1.cell v x hx
    obtain ⟨z, hz, hyz⟩ := h2.cell v y hy
    exact ⟨z, hz, hxy.trans hyz⟩
  stabNum := h2.stabNum.trans h1.stabNum
  shape m := (h1.shape m).trans (h2.shape m)
  ran m h := by
    have := h2.ran m (by rw [h1.stabNum]; exact h1.ran m h)
    rw [h1.stabNum] at this; exact this
  qsize := h2.qsize.trans h1.qsize
theorem FrameP.of_frame {s s' : State} (f : Frame s s') : FrameP s s' :=
  ⟨f.size, by rw [f.vars], fun v a ha => ⟨a, by rw [f.vars]; exact ha, CellP.refl a⟩, f.stabNum, f.shape, f.ran,
    f.qsize⟩
theorem FrameP.of_sameP {s s' : State} (h : SameP s s') : FrameP s s' :=
  ⟨by rw [h.nodes], h.size, h.cell, h.stabNum, h.shape, fun m hm => by rw [h.nodeD]; exact hm, by rw [h.rch]⟩
theorem FrameP.nec {s s' : State} (f : FrameP s s') (m : Nat) : s'.isNecessary m = s.isNecessary m :=
  isNecessary_of_shape f.shape m
/-- `eval` only looks at kinds and the VALUES of variables -/
theorem FrameP.eval {s s' : State} (f : FrameP s s') (env : Env) (k n : Nat) :
    Sched.eval env s' k n = Sched.eval env s k n :=
  e3_eval_congr (fun n => (f.shape n).kind) f.vsize f.cell env k n
/-- a `FrameP` whose variables are equal is a `Frame` -/
theorem FrameP.toFrame {s s' : State} (f : FrameP s s') (hv : s'.vars = s.vars) : Frame s s' :=
  ⟨f.size, hv, f.stabNum, f.shape, f.ran, f.qsize⟩
theorem FrameP.not_yet {s s' : State} (f : FrameP s s') (st : Stamps s) {m : Nat}
    (h : (s'.nodeD m).recomputedAt < s.stabNum) : (s.nodeD m).recomputedAt < s.stabNum := by
  have h1 := (st.node m).1
  by_cases e : (s.nodeD m).recomputedAt = s.stabNum
  · have := f.ran m e; omega
  · omega

/-- `Sched.Calm` without the clause on `setDuringStab` -/
structure CalmP (s s' : State) : Prop where
  status : s'.status = s.status
  deadVars : s'.deadVars = s.deadVars
  newObservers : s'.newObservers = s.newObservers
  disallowedObservers : s'.disallowedObservers = s.disallowedObservers
  num : ∀ m, (s'.nodeD m).numOnUpdateHandlers = (s.nodeD m).numOnUpdateHandlers
  has : (∀ m, (s.nodeD m).numOnUpdateHandlers ≤ 0) → s'.handleAfterStab = s.handleAfterStab

theorem CalmP.refl (s : State) : CalmP s s := ⟨rfl, rfl, rfl, rfl, fun _ => rfl, fun _ => rfl⟩
theorem CalmP.trans {a b c : State} (h1 : CalmP a b) (h2 : CalmP b c) : CalmP a c where
  status := h2.status.trans h1.status
  deadVars := h2.deadVars.trans h1.deadVars
  newObservers := h2.newObservers.trans h1.newObservers
  disallowedObservers := h2.disallowedObservers.trans h1.disallowedObservers
  num m := (h2.num m).trans (h1.num m)
  has h := (h2.has (fun m => by rw [h1.num]; exact h m)).trans (h1.has h)
theorem CalmP.of_calm {s s' : State} (c : Calm s s') : CalmP s s' :=
  ⟨c.status, c.deadVars, c.newObservers, c.disallowedObservers, c.num, c.has⟩
theorem CalmP.of_sameP {s s' : State} (h : SameP s s') : CalmP s s' :=
  ⟨h.status, h.deadVars, h.newObservers, h.disallowedObservers, fun m => by rw [h.nodeD], fun _ => h.handleAfterStab⟩
/-- a `CalmP` whose stacks are equal is a `Calm` -/
theorem CalmP.toCalm {s s' : State} (c : CalmP s s') (hs : s'.setDuringStab = s.setDuringStab) : Calm s s' :=
  ⟨c.status, hs, c.deadVars, c.newObservers, c.disallowedObservers, c.num, c.has⟩

end IncrVerif.Proofs.EffH
