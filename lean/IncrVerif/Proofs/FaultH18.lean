import IncrVerif.Proofs.FaultH17
/-!
# Faults in whole histories, part 10: `T` of the classification = the invocations of the fault-free drain
-/
namespace IncrVerif.Proofs.FaultH
open IncrVerif.Engine IncrVerif.Proofs IncrVerif.Proofs.Step IncrVerif.Proofs.Sched
open IncrVerif.Proofs.SubsH (PureHandlers UInv)

variable {env : Env}

/-- **`T`.**  In the fault-free `stabilise` from a state with the invariant, the observer phases return in some `tb`, the
drain returns, and for EVERY way to write the new part of the log as node-function entries `pre` followed by notifications
`del` (as `classification` does): `pre.length = ticksOf (TidyH.drainSteps env fuel tb)` — one per `map` node with a user
function and per `fold` node that the drain runs (`TidyH.drainSteps_fst`: the nodes are `Sched.drainTrace env fuel tb`). -/
theorem T_is_drain_invocations {fuel : Nat} {s s' : State} (U : UInv env s) (heff : PureHandlers env)
    (h : (stabilise env fuel).run.run s = (.ok (), s')) :
    ∃ ta tb s1, (addNewObservers env fuel).run.run { s with status := .stabilising } = (.ok (), ta) ∧
      (unlinkDisallowedObservers fuel).run.run ta = (.ok (), tb) ∧ (drainHeap env fuel).run.run tb = (.ok (), s1) ∧
      ∀ pre del : List Event, s'.log = del.reverse ++ (pre.reverse ++ s.log) → (∀ e, e ∈ pre → IsInv e) →
        (∀ e, e ∈ del → IsNotif e) → pre.length = ticksOf (TidyH.drainSteps env fuel tb) := by
  have Q := U.core
  have hst : s.status = .notStabilising := Q.status
  have hpc : s.panicCountdown = none := Q.struct.static.pc
  have hfr : Fr env s := fr_of_qinv Q
  have h0 := h
  rw [Poison.stabilise_run env fuel s hst] at h
  rcases h1 : (Poison.propagate env fuel).run.run { s with status := .stabilising } with ⟨r1, s1⟩
  rw [h1] at h
  cases r1 with
  | error p => cases h
  | ok u1 =>
  dsimp only at h
  rcases h2 : (Poison.stabiliseEndPrepare env).run.run s1 with ⟨r2, s2⟩
  rw [h2] at h
  cases r2 with
  | error p => cases h
  | ok q =>
  dsimp only at h
  rcases h3 : (Poison.runHandlers env fuel q).run.run { s2 with status := .runningOnUpdateHandlers } with ⟨r3, s3⟩
  rw [h3] at h
  cases r3 with
  | error p => cases h
  | ok u3 =>
  dsimp only at h
  have hs' : s' = { s3 with status := .notStabilising } := by cases h; rfl
  have hfr0 : Fr env { s with status := .stabilising } := hfr.of_nodes rfl rfl
  obtain ⟨fr1, pc1, pre0, L1⟩ := Lock.propagate (env := env) fuel _ hfr0 hpc _ _ h1
  have C2 := fun c => Comm.stabiliseEndPrepare (env := env) c s1 fr1 _ _ h2
  have fr2 : Fr env s2 := (C2 none).2.1
  have log2 : s2.log = s1.log := (C2 none).2.2
  have pc2 : s2.panicCountdown = none := by
    have := (C2 none).1
    rw [setCd_self pc1, h2] at this
    exact congrArg (fun p => p.2.panicCountdown) this
  have hfr2 : Fr env { s2 with status := .runningOnUpdateHandlers } := fr2.of_nodes rfl rfl
  obtain ⟨fr3, pc3, del0, L3⟩ := Lock.runHandlers (env := env) heff fuel q _ hfr2 pc2 _ _ h3
  have hlog : s'.log = del0.reverse ++ (pre0.reverse ++ s.log) := by
    rw [hs']
    show s3.log = _
    rw [L3.log]
    show del0.reverse ++ s2.log = _
    rw [log2, L1.log]
  -- the three parts of the propagation phase
  unfold Poison.propagate at h1
  obtain ⟨_, ta, ha, h1⟩ := bind_ok_inv h1
  obtain ⟨_, tb, hb, hd⟩ := bind_ok_inv h1
  obtain ⟨ea, fra, la⟩ := Comm.addNewObservers (env := env) fuel none _ hfr0 _ _ ha
  have pca : ta.panicCountdown = none := by
    rw [setCd_self (show ({ s with status := Status.stabilising } : State).panicCountdown = none from hpc), ha] at ea
    exact congrArg (fun p => p.2.panicCountdown) ea
  obtain ⟨eb, frb, lb⟩ := Comm.unlinkDisallowedObservers (env := env) fuel none ta fra _ _ hb
  have pcb : tb.panicCountdown = none := by
    rw [setCd_self pca, hb] at eb
    exact congrArg (fun p => p.2.panicCountdown) eb
  have ld := drainHeap_log_len fuel tb s1 frb pcb hd
  refine ⟨ta, tb, s1, ha, hb, hd, fun pre del hl hp hdl => ?_⟩
  have e : del.reverse ++ pre.reverse = del0.reverse ++ pre0.reverse := by
    rw [hl, ← List.append_assoc, ← List.append_assoc] at hlog
    exact List.append_cancel_right hlog
  obtain ⟨-, e2⟩ := P4.split_unique (Q := IsNotif) e
    (fun x hx => hdl x (List.mem_reverse.1 hx)) (fun x hx => L3.all x (List.mem_reverse.1 hx))
    (fun x hx => notNotif_of_isInv (hp x (List.mem_reverse.1 hx)))
    (fun x hx => notNotif_of_isInv (L1.all x (List.mem_reverse.1 hx)))
  have e3 : pre.length = pre0.length := by
    have := congrArg List.length e2
    simpa using this
  have e4 : s1.log.length = tb.log.length + pre0.length := by
    rw [L1.log, lb, la]
    simp [List.length_append]
    omega
  omega

end IncrVerif.Proofs.FaultH
