import IncrVerif.Proofs.OnceF5
/-!
# C02, combined fragment, part 7: NON-VACUITY — the drain traces of the five `stabilise`s of `exHistG` (kernel-checked)
-/
namespace IncrVerif.Proofs.OnceF
open IncrVerif.Engine IncrVerif.Driver IncrVerif.Proofs IncrVerif.Proofs.Step IncrVerif.Proofs.Sched IncrVerif.Proofs.Quiet
open IncrVerif.Proofs.FullH IncrVerif.Proofs.TidyH IncrVerif.Proofs.BindH

set_option maxRecDepth 100000 in
/-- the drain traces of the five `stabilise`s of `exHistG` (kernel-checked) -/
theorem exHistG_traces :
    EX.traceAfter (exHistG.take 10) = some [1, 2, 3, 0, 6, 12, 7, 8, 15, 9, 10, 16, 11, 13, 14, 4, 5] ∧
    EX.traceAfter (exHistG.take 12) = some [2, 6, 12, 17, 18, 11, 13, 14, 4, 5] ∧
    EX.traceAfter (exHistG.take 15) = some [2, 6, 12, 7, 19, 20, 11, 13, 14, 4, 5] ∧
    EX.traceAfter (exHistG.take 17) = some [1, 3, 6, 21, 7, 4, 5] ∧
    EX.traceAfter (exHistG.take 19) = some [2, 6, 7, 5] :=
  ⟨by decide +kernel, by decide +kernel, by decide +kernel, by decide +kernel, by decide +kernel⟩

end IncrVerif.Proofs.OnceF
